(* Proofs about the plan / build-loop model of PlanDefs.v.  No axioms: stdlib List, Permutation,
   Arith, Lia only.  Main results (restated in Properties/Properties_C04/C05/C06/C20.v):
     sinv_init, sinv_step, sinv_run     the invariant [sinv] (Appendix D.3 of DESIGN.md, adjusted to
                                        what is true of the code) holds in every reachable state
     start_inputs_ready ...             C04
     no_dependent_started, exit_code... C05
     limits, once, never_stuck ...      C06
     counters ...                       C20                                                        *)
From NinjaV Require Import Base.Bytes Engine.PlanDefs.
From Coq Require Import Permutation Arith.

Ltac psimpl :=
  cbn [p_want p_ready p_delayed p_use p_wanted p_commands p_oready p_tokens p_loaded
       set_want set_ready set_delayed set_use set_wanted set_commands set_oready set_tokens set_loaded] in *.

(* ------------------------------------------------------------------ list tools *)
Lemma memb_In x l : memb x l = true <-> In x l.
Proof.
  unfold memb. rewrite existsb_exists. split.
  - intros [y [Hy Heq]]. apply Nat.eqb_eq in Heq. subst. exact Hy.
  - intros H. exists x. split; [exact H|apply Nat.eqb_refl].
Qed.

Lemma memb_false x l : memb x l = false <-> ~ In x l.
Proof.
  rewrite <- memb_In. destruct (memb x l); split; intros H;
    [discriminate|exfalso; apply H; reflexivity|intros H'; discriminate|reflexivity].
Qed.

Lemma rem_In x y l : In x (rem y l) <-> In x l /\ x <> y.
Proof.
  induction l as [|z l IH]; cbn [rem].
  - cbn. tauto.
  - destruct (Nat.eqb_spec y z) as [->|Hne].
    + rewrite IH. cbn. split; [tauto|]. intros [[H|H] Hn]; [congruence|tauto].
    + cbn. rewrite IH. split.
      * intros [H|H]; [subst; split; [left; reflexivity|congruence]|tauto].
      * intros [[H|H] Hn]; [left; exact H|right; tauto].
Qed.

Lemma rem_notin y l : ~ In y l -> rem y l = l.
Proof.
  induction l as [|z l IH]; cbn [rem]; intros H; [reflexivity|].
  destruct (Nat.eqb_spec y z) as [->|Hne].
  - exfalso. apply H. left. reflexivity.
  - f_equal. apply IH. intros H'. apply H. right. exact H'.
Qed.

Lemma rem_NoDup y l : NoDup l -> NoDup (rem y l).
Proof.
  induction 1 as [|z l Hz Hl IH]; cbn [rem]; [constructor|].
  destruct (Nat.eqb_spec y z) as [->|Hne]; [exact IH|].
  constructor; [|exact IH]. rewrite rem_In. tauto.
Qed.

Lemma rem_perm y l : NoDup l -> In y l -> Permutation l (y :: rem y l).
Proof.
  induction 1 as [|z l Hz Hl IH]; intros Hin; [destruct Hin|].
  cbn [rem]. destruct (Nat.eqb_spec y z) as [->|Hne].
  - rewrite rem_notin by exact Hz. reflexivity.
  - destruct Hin as [->|Hin]; [congruence|].
    rewrite perm_swap. constructor. apply IH. exact Hin.
Qed.

Lemma rem_length y l : NoDup l -> In y l -> length l = S (length (rem y l)).
Proof. intros Hn Hi. apply (Permutation_length (rem_perm y l Hn Hi)). Qed.

Lemma filter_len_le {A} (f : A -> bool) l : length (filter f l) <= length l.
Proof. induction l as [|x l IH]; cbn [filter length]; [lia|]. destruct (f x); cbn [length]; lia. Qed.

Lemma NoDup_app_iff {A} (l l' : list A) :
  NoDup (l ++ l') <-> NoDup l /\ NoDup l' /\ (forall x, In x l -> In x l' -> False).
Proof.
  induction l as [|a l IH]; cbn [app].
  - split; [intros H; repeat split; [constructor|exact H|intros x []]|tauto].
  - split.
    + intros H. inversion H as [|a' l0 Ha Hl]; subst. apply IH in Hl. destruct Hl as [H1 [H2 H3]].
      repeat split.
      * constructor; [|exact H1]. intros Hin. apply Ha. apply in_or_app. left. exact Hin.
      * exact H2.
      * intros x [->|Hx] Hx'; [apply Ha; apply in_or_app; right; exact Hx'|eapply H3; eassumption].
    + intros [H1 [H2 H3]]. inversion H1 as [|a' l0 Ha Hl]; subst. constructor.
      * intros Hin. apply in_app_or in Hin. destruct Hin as [Hin|Hin]; [tauto|].
        apply (H3 a); [left; reflexivity|exact Hin].
      * apply IH. repeat split; [exact Hl|exact H2|]. intros x Hx Hx'. apply (H3 x); [right; exact Hx|exact Hx'].
Qed.

Lemma upd_same {A} (f : nat -> A) k v : upd f k v k = v.
Proof. unfold upd. rewrite Nat.eqb_refl. reflexivity. Qed.

Lemma upd_other {A} (f : nat -> A) k v x : x <> k -> upd f k v x = f x.
Proof. unfold upd. intros H. destruct (Nat.eqb_spec x k); [congruence|reflexivity]. Qed.

(* number of edges of pool q in a list *)
Definition cnt (g : graph) (q : nat) (l : list nat) : nat := length (delayed_of g q l).

Lemma delayed_of_perm g q l l' : Permutation l l' -> Permutation (delayed_of g q l) (delayed_of g q l').
Proof.
  unfold delayed_of. induction 1 as [|x l l' Hp IH|x y l|l l' l'' H1 IH1 H2 IH2]; cbn [filter].
  - constructor.
  - destruct (Nat.eqb (pool g x) q); [constructor|]; exact IH.
  - destruct (Nat.eqb (pool g x) q); destruct (Nat.eqb (pool g y) q); try reflexivity. apply perm_swap.
  - eapply perm_trans; eassumption.
Qed.

Lemma cnt_perm g q l l' : Permutation l l' -> cnt g q l = cnt g q l'.
Proof. intros H. apply Permutation_length. apply delayed_of_perm. exact H. Qed.

Lemma cnt_app g q l l' : cnt g q (l ++ l') = cnt g q l + cnt g q l'.
Proof. unfold cnt, delayed_of. rewrite filter_app, app_length. reflexivity. Qed.

Lemma cnt_cons g q x l : cnt g q (x :: l) = (if Nat.eqb (pool g x) q then 1 else 0) + cnt g q l.
Proof. unfold cnt, delayed_of. cbn [filter]. destruct (Nat.eqb (pool g x) q); reflexivity. Qed.

Lemma cnt_all_in g q l : (forall x, In x l -> pool g x = q) -> cnt g q l = length l.
Proof.
  induction l as [|x l IH]; intros H; [reflexivity|].
  rewrite cnt_cons. rewrite (H x (or_introl eq_refl)), Nat.eqb_refl. cbn [length].
  rewrite IH; [reflexivity|]. intros y Hy. apply H. right. exact Hy.
Qed.

Lemma cnt_none_in g q l : (forall x, In x l -> pool g x <> q) -> cnt g q l = 0.
Proof.
  induction l as [|x l IH]; intros H; [reflexivity|].
  rewrite cnt_cons. destruct (Nat.eqb_spec (pool g x) q) as [He|Hne].
  - exfalso. apply (H x (or_introl eq_refl)). exact He.
  - rewrite IH; [reflexivity|]. intros y Hy. apply H. right. exact Hy.
Qed.

Lemma delayed_of_In g q l x : In x (delayed_of g q l) <-> In x l /\ pool g x = q.
Proof. unfold delayed_of. rewrite filter_In, Nat.eqb_eq. reflexivity. Qed.

Lemma cnt_rem g q x l : NoDup l -> In x l ->
  cnt g q l = (if Nat.eqb (pool g x) q then 1 else 0) + cnt g q (rem x l).
Proof. intros Hn Hi. rewrite (cnt_perm g q _ _ (rem_perm x l Hn Hi)). apply cnt_cons. Qed.

Lemma pick_in prio l d : In d l -> In (pick prio l d) l.
Proof.
  intros Hd. induction prio as [|x t IH]; cbn [pick]; [exact Hd|].
  destruct (memb x l) eqn:E; [apply memb_In; exact E|exact IH].
Qed.

(* ------------------------------------------------------------------ Pool::RetrieveReadyEdges *)
Record retrieve_rel (g : graph) (q : nat) (p p' : plan) (mv : list nat) : Prop := {
  rr_ready : Permutation (p_ready p') (mv ++ p_ready p);
  rr_delayed : Permutation (p_delayed p) (mv ++ p_delayed p');
  rr_pool : forall x, In x mv -> pool g x = q;
  rr_use_q : p_use p' q = p_use p q + length mv;
  rr_use_other : forall r, r <> q -> p_use p' r = p_use p r;
  rr_depth : mv <> [] -> p_use p' q <= depth g q;
  rr_want : p_want p' = p_want p;
  rr_oready : p_oready p' = p_oready p;
  rr_wanted : p_wanted p' = p_wanted p;
  rr_commands : p_commands p' = p_commands p;
  rr_tokens : p_tokens p' = p_tokens p;
  rr_loaded : p_loaded p' = p_loaded p }.

Lemma retrieve_n_spec g prio q : forall n p, NoDup (p_delayed p) ->
  exists mv, retrieve_rel g q p (retrieve_n n g prio q p) mv /\
    (length (delayed_of g q (p_delayed p)) <= n ->
     delayed_of g q (p_delayed (retrieve_n n g prio q p)) = [] \/
     depth g q < p_use (retrieve_n n g prio q p) q + 1).
Proof.
  induction n as [|n IH]; intros p Hnd.
  - exists []. split.
    + constructor; cbn [retrieve_n app length]; try reflexivity; try (rewrite Nat.add_0_r; reflexivity).
      * intros x [].
      * intros H; congruence.
    + cbn [retrieve_n]. intros Hl. left. destruct (delayed_of g q (p_delayed p)); [reflexivity|cbn in Hl; lia].
  - cbn [retrieve_n]. destruct (delayed_of g q (p_delayed p)) as [|d0 dq] eqn:Edq.
    + exists []. split.
      * constructor; cbn [app length]; try reflexivity; try (rewrite Nat.add_0_r; reflexivity).
        -- intros x [].
        -- intros H; congruence.
      * intros _. left. exact Edq.
    + destruct (depth g q <? p_use p q + 1) eqn:Efit.
      * exists []. split.
        -- constructor; cbn [app length]; try reflexivity; try (rewrite Nat.add_0_r; reflexivity).
           ++ intros x [].
           ++ intros H; congruence.
        -- intros _. right. apply Nat.ltb_lt. exact Efit.
      * apply Nat.ltb_ge in Efit.
        set (x := pick prio (d0 :: dq) d0).
        assert (Hx : In x (d0 :: dq)) by (apply pick_in; left; reflexivity).
        rewrite <- Edq in Hx. apply delayed_of_In in Hx. destruct Hx as [HxD Hxq].
        set (p1 := set_use (set_ready (set_delayed p (rem x (p_delayed p))) (x :: p_ready p))
                           (upd (p_use p) q (p_use p q + 1))).
        assert (Hnd1 : NoDup (p_delayed p1)) by (subst p1; psimpl; apply rem_NoDup; exact Hnd).
        destruct (IH p1 Hnd1) as [mv [Hrel Hcomp]].
        exists (mv ++ [x]). split.
        -- destruct Hrel as [R1 R2 R3 R4 R5 R6 R7 R8 R9 R10 R11 R12]. subst p1. psimpl.
           constructor; psimpl.
           ++ eapply perm_trans; [exact R1|]. rewrite <- app_assoc. cbn [app]. reflexivity.
           ++ eapply perm_trans; [apply (rem_perm x _ Hnd HxD)|]. rewrite <- app_assoc. cbn [app].
              apply Permutation_cons_app. exact R2.
           ++ intros y Hy. apply in_app_or in Hy. destruct Hy as [Hy|[<-|[]]]; [apply R3; exact Hy|exact Hxq].
           ++ rewrite R4. rewrite upd_same. rewrite app_length. cbn [length]. lia.
           ++ intros r Hr. rewrite R5 by exact Hr. apply upd_other. exact Hr.
           ++ intros _. destruct mv as [|m mv'].
              ** rewrite R4. rewrite upd_same. cbn [length]. lia.
              ** apply R6. congruence.
           ++ exact R7.
           ++ exact R8.
           ++ exact R9.
           ++ exact R10.
           ++ exact R11.
           ++ exact R12.
        -- intros Hl. apply Hcomp. subst p1. psimpl.
           pose proof (cnt_rem g q x (p_delayed p) Hnd HxD) as Hc. unfold cnt in Hc.
           rewrite Hxq, Nat.eqb_refl in Hc. rewrite Edq in Hc. cbn [length] in Hl, Hc. lia.
Qed.

Lemma retrieve_spec g prio q p : NoDup (p_delayed p) ->
  exists mv, retrieve_rel g q p (retrieve g prio q p) mv /\
    (delayed_of g q (p_delayed (retrieve g prio q p)) = [] \/
     depth g q < p_use (retrieve g prio q p) q + 1).
Proof.
  intros Hnd. unfold retrieve.
  destruct (retrieve_n_spec g prio q (length (p_delayed p)) p Hnd) as [mv [Hrel Hcomp]].
  exists mv. split; [exact Hrel|]. apply Hcomp.
  unfold delayed_of. apply filter_len_le.
Qed.

(* retrieve only reads/writes ready_, delayed_ and current_use_ *)
Definition frame (p : plan) w n c o t : plan :=
  mkPlan w (p_ready p) (p_delayed p) (p_use p) n c o t (p_loaded p).

Lemma retrieve_n_frame g prio q w n c o t : forall k p,
  retrieve_n k g prio q (frame p w n c o t) = frame (retrieve_n k g prio q p) w n c o t.
Proof.
  induction k as [|k IH]; intros p; [reflexivity|].
  cbn [retrieve_n]. unfold frame at 1 2 3. psimpl.
  destruct (delayed_of g q (p_delayed p)) as [|d0 dq]; [reflexivity|].
  destruct (depth g q <? p_use p q + 1); [reflexivity|].
  rewrite <- IH. reflexivity.
Qed.

Lemma retrieve_frame g prio q w n c o t p :
  retrieve g prio q (frame p w n c o t) = frame (retrieve g prio q p) w n c o t.
Proof. unfold retrieve. apply retrieve_n_frame. Qed.

Lemma frame_id p : frame p (p_want p) (p_wanted p) (p_commands p) (p_oready p) (p_tokens p) = p.
Proof. destruct p; reflexivity. Qed.

(* ------------------------------------------------------------------ well-formed graphs *)
Record wf_graph (g : graph) (rank : nat -> nat) : Prop := {
  wg_ins_lt : forall e i c, In (i, c) (ei_ins (einfo g e)) -> i < n_edges g;
  wg_rank : forall e i c, In (i, c) (ei_ins (einfo g e)) -> rank i < rank e;
  wg_cons_ins : forall e d c, In (d, c) (ei_cons (einfo g e)) -> In (e, c) (ei_ins (einfo g d));
  wg_ins_cons : forall e i c, In (i, c) (ei_ins (einfo g e)) -> In (e, c) (ei_cons (einfo g i)) }.

Lemma einfo_overflow g e : n_edges g <= e -> einfo g e = dummy_edge.
Proof. intros H. unfold einfo. apply nth_overflow. exact H. Qed.

Lemma memg_In x l : memg x l = true -> In x l.
Proof.
  unfold memg. rewrite existsb_exists. intros [y [Hy Heq]]. unfold gated_eqb in Heq.
  apply andb_true_iff in Heq. destruct Heq as [H1 H2]. apply Nat.eqb_eq in H1.
  destruct x as [x1 [x2|]], y as [y1 [y2|]]; cbn [fst snd] in *; try discriminate.
  - apply Nat.eqb_eq in H2. subst. exact Hy.
  - subst. exact Hy.
Qed.

Lemma wf_graph_b_sound g rank : wf_graph_b g rank = true -> wf_graph g rank.
Proof.
  unfold wf_graph_b. rewrite forallb_forall. intros H.
  assert (Hin : forall e, e < n_edges g -> In e (all_edges g)).
  { intros e He. unfold all_edges. apply in_seq. lia. }
  assert (Hov : forall e, ~ e < n_edges g -> ei_ins (einfo g e) = [] /\ ei_cons (einfo g e) = []).
  { intros e He. rewrite einfo_overflow by lia. split; reflexivity. }
  constructor.
  - intros e i c Hi. destruct (lt_dec e (n_edges g)) as [He|He].
    + specialize (H e (Hin e He)). apply andb_true_iff in H. destruct H as [H _].
      rewrite forallb_forall in H. specialize (H (i, c) Hi). cbn [fst snd] in H.
      apply andb_true_iff in H. destruct H as [H _]. apply andb_true_iff in H. destruct H as [H _].
      apply Nat.ltb_lt. exact H.
    + destruct (Hov e He) as [E _]. rewrite E in Hi. destruct Hi.
  - intros e i c Hi. destruct (lt_dec e (n_edges g)) as [He|He].
    + specialize (H e (Hin e He)). apply andb_true_iff in H. destruct H as [H _].
      rewrite forallb_forall in H. specialize (H (i, c) Hi). cbn [fst snd] in H.
      apply andb_true_iff in H. destruct H as [H _]. apply andb_true_iff in H. destruct H as [_ H].
      apply Nat.ltb_lt. exact H.
    + destruct (Hov e He) as [E _]. rewrite E in Hi. destruct Hi.
  - intros e d c Hd. destruct (lt_dec e (n_edges g)) as [He|He].
    + specialize (H e (Hin e He)). apply andb_true_iff in H. destruct H as [_ H].
      rewrite forallb_forall in H. specialize (H (d, c) Hd). cbn [fst snd] in H.
      apply andb_true_iff in H. destruct H as [_ H]. apply memg_In. exact H.
    + destruct (Hov e He) as [_ E]. rewrite E in Hd. destruct Hd.
  - intros e i c Hi. destruct (lt_dec e (n_edges g)) as [He|He].
    + specialize (H e (Hin e He)). apply andb_true_iff in H. destruct H as [H _].
      rewrite forallb_forall in H. specialize (H (i, c) Hi). cbn [fst snd] in H.
      apply andb_true_iff in H. destruct H as [_ H]. apply memg_In. exact H.
    + destruct (Hov e He) as [E _]. rewrite E in Hi. destruct Hi.
Qed.

(* the graph as it is in plan state p *)
Lemma ins_at_In g p e i : In i (ins_at g p e) <->
  exists c, In (i, c) (ei_ins (einfo g e)) /\ active p (i, c) = true.
Proof.
  unfold ins_at. rewrite in_map_iff. split.
  - intros [[i' c] [E H]]. cbn [fst] in E. subst i'. apply filter_In in H. exists c. exact H.
  - intros [c H]. exists (i, c). split; [reflexivity|]. apply filter_In. exact H.
Qed.

Lemma cons_at_In g p e d : In d (cons_at g p e) <->
  exists c, In (d, c) (ei_cons (einfo g e)) /\ active p (d, c) = true.
Proof.
  unfold cons_at. rewrite in_map_iff. split.
  - intros [[d' c] [E H]]. cbn [fst] in E. subst d'. apply filter_In in H. exists c. exact H.
  - intros [c H]. exists (d, c). split; [reflexivity|]. apply filter_In. exact H.
Qed.

Lemma wg_ins_cons_at g rank p e i : wf_graph g rank -> In i (ins_at g p e) -> In e (cons_at g p i).
Proof.
  intros Hwf Hi. apply ins_at_In in Hi. destruct Hi as [c [H1 H2]]. apply cons_at_In.
  exists c. split; [apply (wg_ins_cons g rank Hwf); exact H1|exact H2].
Qed.

Lemma wg_cons_ins_at g rank p e d : wf_graph g rank -> In d (cons_at g p e) -> In e (ins_at g p d).
Proof.
  intros Hwf Hd. apply cons_at_In in Hd. destruct Hd as [c [H1 H2]]. apply ins_at_In.
  exists c. split; [apply (wg_cons_ins g rank Hwf); exact H1|exact H2].
Qed.

Lemma wg_rank_at g rank p e i : wf_graph g rank -> In i (ins_at g p e) -> rank i < rank e.
Proof.
  intros Hwf Hi. apply ins_at_In in Hi. destruct Hi as [c [H1 _]]. apply (wg_rank g rank Hwf e i c H1).
Qed.

Lemma wg_ins_lt_at g rank p e i : wf_graph g rank -> In i (ins_at g p e) -> i < n_edges g.
Proof.
  intros Hwf Hi. apply ins_at_In in Hi. destruct Hi as [c [H1 _]]. apply (wg_ins_lt g rank Hwf e i c H1).
Qed.

(* the graph only depends on the loaded flags *)
Lemma ins_at_ext g p p' e : p_loaded p' = p_loaded p -> ins_at g p' e = ins_at g p e.
Proof. intros H. unfold ins_at, active. rewrite H. reflexivity. Qed.
Lemma cons_at_ext g p p' e : p_loaded p' = p_loaded p -> cons_at g p' e = cons_at g p e.
Proof. intros H. unfold cons_at, active. rewrite H. reflexivity. Qed.

(* loading only adds entries *)
Lemma ins_at_mono g p p' e i : (forall b, p_loaded p b = true -> p_loaded p' b = true) ->
  In i (ins_at g p e) -> In i (ins_at g p' e).
Proof.
  intros H Hi. apply ins_at_In in Hi. destruct Hi as [c [H1 H2]]. apply ins_at_In. exists c.
  split; [exact H1|]. unfold active in *. cbn [snd] in *. destruct c as [b|]; [apply H; exact H2|reflexivity].
Qed.

(* ------------------------------------------------------------------ the plan invariant *)
Definition sched (p : plan) (A F : list nat) : list nat := p_ready p ++ p_delayed p ++ A ++ F.

Lemma air_mono g p p' e :
  (forall x, p_oready p x = true -> p_oready p' x = true) -> p_loaded p' = p_loaded p ->
  all_inputs_ready g p e = true -> all_inputs_ready g p' e = true.
Proof.
  unfold all_inputs_ready. intros H HL. rewrite (ins_at_ext g p p' e HL).
  rewrite !forallb_forall. intros H1 x Hx. apply H. apply H1. exact Hx.
Qed.

Lemma air_ext g p p' e : p_oready p' = p_oready p -> p_loaded p' = p_loaded p ->
  all_inputs_ready g p' e = all_inputs_ready g p e.
Proof. intros H1 H2. unfold all_inputs_ready. rewrite (ins_at_ext g p p' e H2), H1. reflexivity. Qed.

Lemma air_false g p e : all_inputs_ready g p e = false ->
  exists i, In i (ins_at g p e) /\ p_oready p i = false.
Proof.
  unfold all_inputs_ready. induction (ins_at g p e) as [|i l IH]; cbn [forallb]; [discriminate|].
  destruct (p_oready p i) eqn:E; cbn [andb].
  - intros H. destruct (IH H) as [j [Hj Ej]]. exists j. split; [right; exact Hj|exact Ej].
  - intros _. exists i. split; [left; reflexivity|exact E].
Qed.

Lemma air_in g p e i : all_inputs_ready g p e = true -> In i (ins_at g p e) -> p_oready p i = true.
Proof. unfold all_inputs_ready. rewrite forallb_forall. intros H Hi. apply H. exact Hi. Qed.

Section Inv.
Variable g : graph.
Variable cfg : config.
Variable loads : nat -> option load.
Variable rank : nat -> nat.
Hypothesis Hwf : wf_graph g rank.

(* [A] = active edges: popped from ready_ by FindWork and not yet through EdgeFinished (the running
   commands, plus momentarily a phony edge being started);  [F] = edges whose command failed;
   [X] = edges exempt from the "if all inputs are ready it is scheduled" clauses: the out-edges that
   NodeFinished is about to visit;  [Q] = pools for which the "delayed => pool full" clause is
   claimed (all pools, except in the middle of ScheduleInitialEdges / before RetrieveReadyEdges). *)
(* clean dependents that a re-scan after a dyndep load has already marked outputs_ready while they
   are still in want_ (as kWantNothing), waiting to be checked off by EdgeMaybeReady *)
Definition Zp (p : plan) (i : nat) : Prop := p_oready p i = true /\ p_want p i = Some WNothing.
Definition zprod (p : plan) (x : nat) : Prop := exists i, In i (ins_at g p x) /\ Zp p i.

Record pinv (Q : nat -> Prop) (X A F : list nat) (p : plan) : Prop := {
  pi_nodup : NoDup (sched p A F);
  pi_sched : forall e, In e (sched p A F) ->
             is_wanted (p_want p) e = true /\ all_inputs_ready g p e = true;
  pi_tofinish : forall e, p_want p e = Some WToFinish -> In e (sched p A F);
  pi_tostart : forall e, p_want p e = Some WToStart -> all_inputs_ready g p e = true ->
               In e (sched p A F) \/ In e X \/ zprod p e;
  pi_nothing : forall e, p_want p e = Some WNothing -> all_inputs_ready g p e = true ->
               In e X \/ zprod p e;
  pi_exempt : forall x, In x X -> In x (sched p A F) -> p_want p x = Some WToFinish;
  pi_oready : forall e, p_oready p e = true -> p_want p e = None \/ p_want p e = Some WNothing;
  pi_oready_closed : forall e, p_oready p e = true -> all_inputs_ready g p e = true;
  pi_closed : forall e i, p_want p e <> None -> In i (ins_at g p e) -> p_oready p i = false ->
              p_want p i <> None;
  pi_range : forall e, p_want p e <> None -> e < n_edges g;
  pi_use : forall q, 0 < depth g q ->
           p_use p q = cnt g q (p_ready p) + cnt g q A /\ p_use p q <= depth g q;
  pi_full : forall q, Q q -> 0 < depth g q -> delayed_of g q (p_delayed p) <> [] ->
            p_use p q = depth g q;
  pi_pool0 : forall e, In e (p_delayed p) -> 0 < depth g (pool g e);
  pi_wanted : p_wanted p = count_if (is_wanted (p_want p)) (all_edges g);
  pi_tokens : p_tokens p = match c_jobserver cfg with None => 0 | Some _ => length A end;
  pi_sched_f : forall e, In e (sched p A F) -> p_want p e = Some WToFinish }.

(* zprod only depends on want_, outputs_ready_ and the loaded flags *)
Lemma zprod_ext p p' x : p_want p' = p_want p -> p_oready p' = p_oready p -> p_loaded p' = p_loaded p ->
  zprod p x -> zprod p' x.
Proof.
  intros H1 H2 H3 [i [Hi [Ho Hw]]]. exists i. split; [rewrite (ins_at_ext g p p' x H3); exact Hi|].
  split; [rewrite H2; exact Ho|rewrite H1; exact Hw].
Qed.

Definition QT : nat -> Prop := fun _ => True.

Lemma pinv_weaken (Q Q' : nat -> Prop) X X' A F p :
  (forall q, Q' q -> 0 < depth g q -> Q q) -> (forall x, In x X -> In x X') ->
  pinv Q X A F p -> pinv Q' X' A F p.
Proof.
  intros HQ HX [I1 I2 I3 I4 I5 I6 I7 I8 I9 I10 I11 I12 I13 I14 I15 I16].
  constructor; try assumption.
  - intros e H1 H2. destruct (I4 e H1 H2) as [H|[H|H]]; [left; exact H|right; left; apply HX; exact H|right; right; exact H].
  - intros e H1 H2. destruct (I5 e H1 H2) as [H|H]; [left; apply HX; exact H|right; exact H].
  - intros x Hx Hs. apply I16. exact Hs.
  - intros q Hq Hd. apply I12; [apply HQ; assumption|exact Hd].
Qed.

(* an exempt edge that does not need the exemption can be dropped from X *)
Lemma pinv_drop (Q : nat -> Prop) d X A F p :
  pinv Q (d :: X) A F p ->
  (p_want p d = Some WToStart -> all_inputs_ready g p d = true ->
     In d (sched p A F) \/ In d X \/ zprod p d) ->
  (p_want p d = Some WNothing -> all_inputs_ready g p d = true -> In d X \/ zprod p d) ->
  pinv Q X A F p.
Proof.
  intros [I1 I2 I3 I4 I5 I6 I7 I8 I9 I10 I11 I12 I13 I14 I15 I16] H1 H2.
  constructor; try assumption.
  - intros e He Ha. destruct (I4 e He Ha) as [H|[[<-|H]|H]];
      [left; exact H|apply H1; assumption|right; left; exact H|right; right; exact H].
  - intros e He Ha. destruct (I5 e He Ha) as [[<-|H]|H]; [apply H2; assumption|left; exact H|right; exact H].
  - intros x Hx Hs. apply I6; [right; exact Hx|exact Hs].
Qed.

Lemma sched_perm p p' A F :
  Permutation (p_ready p' ++ p_delayed p') (p_ready p ++ p_delayed p) ->
  Permutation (sched p' A F) (sched p A F).
Proof.
  intros H. unfold sched. rewrite !app_assoc. apply Permutation_app_tail. apply Permutation_app_tail.
  exact H.
Qed.

(* RetrieveReadyEdges keeps the invariant and fills pool q *)
Lemma retrieve_pinv (Q : nat -> Prop) X A F p prio q :
  pinv Q X A F p -> pinv (fun r => Q r \/ r = q) X A F (retrieve g prio q p).
Proof.
  intros [I1 I2 I3 I4 I5 I6 I7 I8 I9 I10 I11 I12 I13 I14 I15 I16].
  assert (HndD : NoDup (p_delayed p)).
  { unfold sched in I1. apply NoDup_app_iff in I1. destruct I1 as [_ [I1 _]].
    apply NoDup_app_iff in I1. tauto. }
  destruct (retrieve_spec g prio q p HndD) as [mv [[R1 R2 R3 R4 R5 R6 R7 R8 R9 R10 R11 R12] Hcomp]].
  set (p' := retrieve g prio q p) in *.
  assert (Hperm : Permutation (sched p' A F) (sched p A F)).
  { apply sched_perm. rewrite R1. rewrite <- app_assoc.
    rewrite (Permutation_app_comm mv). rewrite <- app_assoc. apply Permutation_app_head.
    rewrite Permutation_app_comm. symmetry. exact R2. }
  assert (Hair : forall e, all_inputs_ready g p' e = all_inputs_ready g p e).
  { intros e. apply air_ext; assumption. }
  assert (Hz : forall e, zprod p e -> zprod p' e) by (intros e; apply zprod_ext; assumption).
  assert (HinD : forall x, In x (p_delayed p') -> In x (p_delayed p)).
  { intros x Hx. apply (Permutation_in _ (Permutation_sym R2)). apply in_or_app. right. exact Hx. }
  constructor.
  - apply (Permutation_NoDup (Permutation_sym Hperm)). exact I1.
  - intros e He. rewrite R7, Hair. apply I2. apply (Permutation_in _ Hperm). exact He.
  - intros e He. rewrite R7 in He. apply (Permutation_in _ (Permutation_sym Hperm)). apply I3. exact He.
  - intros e He Ha. rewrite R7 in He. rewrite Hair in Ha.
    destruct (I4 e He Ha) as [H|[H|H]]; [left|right; left; exact H|right; right; apply Hz; exact H].
    apply (Permutation_in _ (Permutation_sym Hperm)). exact H.
  - intros e He Ha. rewrite R7 in He. rewrite Hair in Ha.
    destruct (I5 e He Ha) as [H|H]; [left; exact H|right; apply Hz; exact H].
  - intros x Hx Hs. rewrite R7. apply I6; [exact Hx|]. apply (Permutation_in _ Hperm). exact Hs.
  - intros e He. rewrite R7. rewrite R8 in He. apply I7. exact He.
  - intros e He. rewrite Hair. rewrite R8 in He. apply I8. exact He.
  - intros e i He Hi Ho. rewrite R7 in *. rewrite R8 in Ho. rewrite (ins_at_ext g p p' e R12) in Hi.
    eapply I9; eassumption.
  - intros e He. rewrite R7 in He. apply I10. exact He.
  - intros r Hr. destruct (Nat.eq_dec r q) as [->|Hne].
    + destruct (I11 q Hr) as [Hu Hle]. rewrite R4. rewrite (cnt_perm g q _ _ R1), cnt_app.
      rewrite (cnt_all_in g q mv R3). split; [lia|].
      destruct mv as [|m mv']; [cbn [length]; lia|]. rewrite <- R4. apply R6. congruence.
    + destruct (I11 r Hr) as [Hu Hle]. rewrite (R5 r Hne). rewrite (cnt_perm g r _ _ R1), cnt_app.
      rewrite (cnt_none_in g r mv); [split; [lia|exact Hle]|].
      intros x Hx. rewrite (R3 x Hx). congruence.
  - intros r HQ Hr Hd. destruct (Nat.eq_dec r q) as [->|Hne].
    + destruct Hcomp as [Hc|Hc]; [congruence|].
      destruct (I11 q Hr) as [Hu Hle].
      assert (p_use p' q <= depth g q).
      { destruct mv as [|m mv']; [rewrite R4; cbn [length]; lia|apply R6; congruence]. }
      lia.
    + destruct HQ as [HQ|HQ]; [|congruence]. rewrite (R5 r Hne). apply I12; [exact HQ|exact Hr|].
      intros Hnil. apply Hd.
      destruct (delayed_of g r (p_delayed p')) as [|y l] eqn:E; [reflexivity|].
      assert (Hy : In y (delayed_of g r (p_delayed p'))) by (rewrite E; left; reflexivity).
      apply delayed_of_In in Hy. destruct Hy as [Hy1 Hy2].
      assert (Hy' : In y (delayed_of g r (p_delayed p))) by (apply delayed_of_In; split; [apply HinD; exact Hy1|exact Hy2]).
      rewrite Hnil in Hy'. destruct Hy'.
  - intros e He. apply I13. apply HinD. exact He.
  - rewrite R9, R7. exact I14.
  - rewrite R11. exact I15.
  - intros e He. rewrite R7. apply I16. apply (Permutation_in _ Hperm). exact He.
Qed.

Lemma retrieve_as_frame prio q p :
  retrieve g prio q p =
  frame (retrieve g prio q p) (p_want p) (p_wanted p) (p_commands p) (p_oready p) (p_tokens p).
Proof. rewrite <- retrieve_frame. rewrite frame_id. reflexivity. Qed.

Lemma retrieve_want prio q p : p_want (retrieve g prio q p) = p_want p.
Proof. rewrite retrieve_as_frame. reflexivity. Qed.
Lemma retrieve_oready prio q p : p_oready (retrieve g prio q p) = p_oready p.
Proof. rewrite retrieve_as_frame. reflexivity. Qed.
Lemma retrieve_wanted prio q p : p_wanted (retrieve g prio q p) = p_wanted p.
Proof. rewrite retrieve_as_frame. reflexivity. Qed.
Lemma retrieve_commands prio q p : p_commands (retrieve g prio q p) = p_commands p.
Proof. rewrite retrieve_as_frame. reflexivity. Qed.
Lemma retrieve_tokens prio q p : p_tokens (retrieve g prio q p) = p_tokens p.
Proof. rewrite retrieve_as_frame. reflexivity. Qed.
Lemma retrieve_loaded prio q p : p_loaded (retrieve g prio q p) = p_loaded p.
Proof.
  unfold retrieve. generalize (length (p_delayed p)). intros k. revert p.
  induction k as [|k IH]; intros p; cbn [retrieve_n]; [reflexivity|].
  destruct (delayed_of g q (p_delayed p)) as [|d0 dq]; [reflexivity|].
  destruct (depth g q <? p_use p q + 1); [reflexivity|]. rewrite IH. reflexivity.
Qed.

Lemma is_wanted_upd_keep w d v :
  is_wanted w d = is_wanted (upd w d v) d ->
  forall l, count_if (is_wanted (upd w d v)) l = count_if (is_wanted w) l.
Proof.
  intros H l. unfold count_if. f_equal. apply filter_ext. intros x. unfold is_wanted in *.
  destruct (Nat.eq_dec x d) as [->|Hne]; [symmetry; exact H|]. rewrite upd_other by exact Hne. reflexivity.
Qed.

Lemma count_if_flip w d v l : NoDup l -> In d l ->
  is_wanted w d = true -> is_wanted (upd w d v) d = false ->
  count_if (is_wanted w) l = S (count_if (is_wanted (upd w d v)) l).
Proof.
  intros Hnd Hin H1 H2. unfold count_if.
  induction Hnd as [|x l Hx Hl IH]; [destruct Hin|].
  cbn [filter]. destruct Hin as [->|Hin].
  - rewrite H1, H2. cbn [length]. f_equal. f_equal. apply filter_ext_in. intros y Hy.
    unfold is_wanted. rewrite upd_other; [reflexivity|]. intros ->. exact (Hx Hy).
  - assert (x <> d) by (intros ->; exact (Hx Hin)).
    replace (is_wanted (upd w d v) x) with (is_wanted w x) by (unfold is_wanted; rewrite upd_other by assumption; reflexivity).
    destruct (is_wanted w x); cbn [length]; rewrite (IH Hin); reflexivity.
Qed.

Lemma all_edges_nodup : NoDup (all_edges g).
Proof. unfold all_edges. apply seq_NoDup. Qed.

Lemma all_edges_in e : e < n_edges g -> In e (all_edges g).
Proof. intros H. unfold all_edges. apply in_seq. lia. Qed.

Definition tok (A : list nat) : nat := match c_jobserver cfg with None => 0 | Some _ => length A end.

(* ---- pure update 1: a wanted edge whose inputs are ready is put into ready_ or delayed_ ---- *)
Lemma pinv_schedule_pure (Q : nat -> Prop) X A F p d (to_ready : bool) :
  pinv Q (d :: X) A F p -> p_want p d = Some WToStart -> all_inputs_ready g p d = true ->
  (if to_ready then depth g (pool g d) = 0 else 0 < depth g (pool g d)) ->
  pinv (fun r => Q r /\ r <> pool g d) X A F
       (mkPlan (upd (p_want p) d (Some WToFinish))
               (if to_ready then d :: p_ready p else p_ready p)
               (if to_ready then p_delayed p else d :: p_delayed p)
               (p_use p) (p_wanted p) (p_commands p) (p_oready p) (p_tokens p) (p_loaded p)).
Proof.
  intros [I1 I2 I3 I4 I5 I6 I7 I8 I9 I10 I11 I12 I13 I14 I15 I16] Hw Ha Hdep.
  assert (Hns : ~ In d (sched p A F)).
  { intros Hin. rewrite (I6 d (or_introl eq_refl) Hin) in Hw. discriminate. }
  set (p' := mkPlan _ _ _ _ _ _ _ _ _).
  assert (Hperm : Permutation (sched p' A F) (d :: sched p A F)).
  { unfold sched, p'. psimpl. destruct to_ready; [reflexivity|].
    cbn [app]. symmetry. apply Permutation_middle. }
  assert (Hair : forall e, all_inputs_ready g p' e = all_inputs_ready g p e) by reflexivity.
  assert (Hin' : forall x, In x (sched p' A F) <-> x = d \/ In x (sched p A F)).
  { intros x. split; intros H.
    - apply (Permutation_in _ Hperm) in H. destruct H as [<-|H]; [left; reflexivity|right; exact H].
    - apply (Permutation_in _ (Permutation_sym Hperm)). destruct H as [->|H]; [left; reflexivity|right; exact H]. }
  assert (Hwant : forall x, x <> d -> p_want p' x = p_want p x).
  { intros x Hx. unfold p'. psimpl. apply upd_other. exact Hx. }
  assert (Hwd : p_want p' d = Some WToFinish) by (unfold p'; psimpl; apply upd_same).
  assert (Hz : forall e, zprod p e -> zprod p' e).
  { intros e [i [Hi [Ho Hwi]]]. exists i. split; [exact Hi|]. split; [exact Ho|].
    rewrite Hwant; [exact Hwi|]. intros ->. congruence. }
  constructor.
  - apply (Permutation_NoDup (Permutation_sym Hperm)). constructor; assumption.
  - intros e He. rewrite Hair. apply Hin' in He. destruct He as [->|He].
    + split; [unfold is_wanted; rewrite Hwd; reflexivity|exact Ha].
    + destruct (I2 e He) as [H1 H2]. split; [|exact H2].
      destruct (Nat.eq_dec e d) as [->|Hne]; [unfold is_wanted; rewrite Hwd; reflexivity|].
      unfold is_wanted. rewrite Hwant by exact Hne. exact H1.
  - intros e He. apply Hin'. destruct (Nat.eq_dec e d) as [->|Hne]; [left; reflexivity|].
    right. apply I3. rewrite <- Hwant by exact Hne. exact He.
  - intros e He Hae. destruct (Nat.eq_dec e d) as [->|Hne]; [rewrite Hwd in He; discriminate|].
    rewrite Hwant in He by exact Hne. destruct (I4 e He Hae) as [H|[[H|H]|H]].
    + left. apply Hin'. right. exact H.
    + congruence.
    + right. left. exact H.
    + right. right. apply Hz. exact H.
  - intros e He Hae. destruct (Nat.eq_dec e d) as [->|Hne]; [rewrite Hwd in He; discriminate|].
    rewrite Hwant in He by exact Hne. destruct (I5 e He Hae) as [[H|H]|H]; [congruence|left; exact H|right; apply Hz; exact H].
  - intros x Hx Hs. destruct (Nat.eq_dec x d) as [->|Hne]; [exact Hwd|].
    rewrite Hwant by exact Hne. apply I6; [right; exact Hx|].
    apply Hin' in Hs. destruct Hs as [Hs|Hs]; [congruence|exact Hs].
  - intros e He. destruct (Nat.eq_dec e d) as [->|Hne].
    + change (p_oready p d = true) in He. destruct (I7 d He) as [H|H]; rewrite H in Hw; discriminate.
    + rewrite Hwant by exact Hne. apply I7. exact He.
  - intros e He. apply I8. exact He.
  - intros e i He Hi Ho.
    assert (He' : p_want p e <> None).
    { destruct (Nat.eq_dec e d) as [->|Hne]; [congruence|]. rewrite <- Hwant by exact Hne. exact He. }
    pose proof (I9 e i He' Hi Ho) as H.
    destruct (Nat.eq_dec i d) as [->|Hne]; [rewrite Hwd; discriminate|]. rewrite Hwant by exact Hne. exact H.
  - intros e He. apply I10. destruct (Nat.eq_dec e d) as [->|Hne]; [congruence|].
    rewrite <- Hwant by exact Hne. exact He.
  - intros q Hq. unfold p'. psimpl. destruct (I11 q Hq) as [H1 H2]. split; [|exact H2].
    destruct to_ready; [|exact H1]. rewrite cnt_cons.
    destruct (Nat.eqb_spec (pool g d) q) as [E|E]; [rewrite E in Hdep; lia|exact H1].
  - intros q [HQq Hq] Hdq Hdl. unfold p' in *. psimpl. apply I12; [exact HQq|exact Hdq|].
    destruct to_ready; [exact Hdl|]. unfold delayed_of in *. cbn [filter] in Hdl.
    destruct (Nat.eqb_spec (pool g d) q) as [E|E]; [congruence|exact Hdl].
  - intros e He. unfold p' in He. psimpl. destruct to_ready; [apply I13; exact He|].
    destruct He as [<-|He]; [exact Hdep|apply I13; exact He].
  - unfold p'. psimpl. rewrite I14. symmetry. apply is_wanted_upd_keep.
    unfold is_wanted. rewrite upd_same, Hw. reflexivity.
  - exact I15.
  - intros e He. destruct (Nat.eq_dec e d) as [->|Hne]; [exact Hwd|]. rewrite Hwant by exact Hne.
    apply I16. apply Hin' in He. destruct He as [He|He]; [congruence|exact He].
Qed.

(* ---- pure update 2: moving edges between ready_, the active set and the failed set ---- *)
Lemma pinv_reshape (Q Q' : nat -> Prop) X A F A' F' R' u t p :
  pinv Q X A F p ->
  Permutation (R' ++ p_delayed p ++ A' ++ F') (sched p A F) ->
  (forall q, 0 < depth g q -> u q = cnt g q R' + cnt g q A' /\ u q <= depth g q) ->
  (forall q, Q' q -> 0 < depth g q -> delayed_of g q (p_delayed p) <> [] -> u q = depth g q) ->
  t = tok A' ->
  pinv Q' X A' F' (mkPlan (p_want p) R' (p_delayed p) u (p_wanted p) (p_commands p) (p_oready p) t (p_loaded p)).
Proof.
  intros [I1 I2 I3 I4 I5 I6 I7 I8 I9 I10 I11 I12 I13 I14 I15 I16] Hperm Hu Hfull Ht.
  set (p' := mkPlan _ _ _ _ _ _ _ _ _).
  assert (Hperm' : Permutation (sched p' A' F') (sched p A F)) by exact Hperm.
  assert (Hair : forall e, all_inputs_ready g p' e = all_inputs_ready g p e) by reflexivity.
  constructor; try assumption.
  - apply (Permutation_NoDup (Permutation_sym Hperm')). exact I1.
  - intros e He. apply I2. apply (Permutation_in _ Hperm'). exact He.
  - intros e He. apply (Permutation_in _ (Permutation_sym Hperm')). apply I3. exact He.
  - intros e He Ha. destruct (I4 e He Ha) as [H|H]; [left|right; exact H].
    apply (Permutation_in _ (Permutation_sym Hperm')). exact H.
  - intros x Hx Hs. apply I6; [exact Hx|]. apply (Permutation_in _ Hperm'). exact Hs.
  - intros e He. apply I16. apply (Permutation_in _ Hperm'). exact He.
Qed.

(* ---- pure update 3: an edge is done: erased from want_, outputs_ready_ set ---- *)
Lemma pinv_done_pure (Q' : nat -> Prop) Xo X A A' F p e w u n t :
  pinv QT Xo A F p -> p_want p e = Some w -> all_inputs_ready g p e = true ->
  (forall x, In x Xo -> x = e \/ In x X) -> (forall x, In x X -> In x Xo) ->
  NoDup (p_ready p ++ p_delayed p ++ A' ++ F) ->
  (forall x, In x (p_ready p ++ p_delayed p ++ A' ++ F) <-> In x (sched p A F) /\ x <> e) ->
  (forall q, 0 < depth g q -> u q = cnt g q (p_ready p) + cnt g q A' /\ u q <= depth g q) ->
  (forall q, Q' q -> 0 < depth g q -> delayed_of g q (p_delayed p) <> [] -> u q = depth g q) ->
  n = count_if (is_wanted (upd (p_want p) e None)) (all_edges g) ->
  t = tok A' ->
  pinv Q' (cons_at g p e ++ X) A' F
       (mkPlan (upd (p_want p) e None) (p_ready p) (p_delayed p) u n (p_commands p)
               (upd (p_oready p) e true) t (p_loaded p)).
Proof.
  intros [I1 I2 I3 I4 I5 I6 I7 I8 I9 I10 I11 I12 I13 I14 I15 I16] Hw Ha HX HX' Hnd Hin Hu Hfull Hn Ht.
  set (p' := mkPlan _ _ _ _ _ _ _ _ _).
  assert (Hwant : forall x, x <> e -> p_want p' x = p_want p x).
  { intros x Hx. unfold p'. psimpl. apply upd_other. exact Hx. }
  assert (Hwe : p_want p' e = None) by (unfold p'; psimpl; apply upd_same).
  assert (Hor : forall x, p_oready p' x = true <-> x = e \/ p_oready p x = true).
  { intros x. unfold p'. psimpl. unfold upd. destruct (Nat.eqb_spec x e) as [->|Hne]; [tauto|].
    split; [tauto|]. intros [H|H]; [congruence|exact H]. }
  assert (Hmono : forall x, all_inputs_ready g p x = true -> all_inputs_ready g p' x = true).
  { intros x. apply air_mono; [|reflexivity]. intros y Hy. apply Hor. right. exact Hy. }
  assert (Hnew : forall x, all_inputs_ready g p' x = true -> all_inputs_ready g p x = false ->
                           In x (cons_at g p e)).
  { intros x H1 H2. destruct (air_false g p x H2) as [i [Hi Hio]].
    pose proof (air_in g p' x i H1 Hi) as H3. apply Hor in H3. destruct H3 as [->|H3]; [|congruence].
    apply (wg_ins_cons_at g rank p x e Hwf). exact Hi. }
  assert (Hz : forall x, zprod p x -> zprod p' x \/ In x (cons_at g p e)).
  { intros x [i [Hi [Ho Hwi]]]. destruct (Nat.eq_dec i e) as [->|Hne].
    - right. apply (wg_ins_cons_at g rank p x e Hwf). exact Hi.
    - left. exists i. split; [exact Hi|]. split; [apply Hor; right; exact Ho|rewrite Hwant by exact Hne; exact Hwi]. }
  assert (Hs' : forall x, In x (sched p' A' F) <-> In x (sched p A F) /\ x <> e) by exact Hin.
  constructor.
  - exact Hnd.
  - intros x Hx. apply Hs' in Hx. destruct Hx as [Hx Hne]. destruct (I2 x Hx) as [H1 H2].
    split; [unfold is_wanted; rewrite Hwant by exact Hne; exact H1|apply Hmono; exact H2].
  - intros x Hx. destruct (Nat.eq_dec x e) as [->|Hne]; [congruence|]. rewrite Hwant in Hx by exact Hne.
    apply Hs'. split; [apply I3; exact Hx|exact Hne].
  - intros x Hx Hax. destruct (Nat.eq_dec x e) as [->|Hne]; [congruence|]. rewrite Hwant in Hx by exact Hne.
    destruct (all_inputs_ready g p x) eqn:E.
    + destruct (I4 x Hx E) as [H|[H|H]].
      * left. apply Hs'. split; assumption.
      * destruct (HX x H) as [H'|H']; [congruence|]. right. left. apply in_or_app. right. exact H'.
      * destruct (Hz x H) as [H'|H']; [right; right; exact H'|right; left; apply in_or_app; left; exact H'].
    + right. left. apply in_or_app. left. apply Hnew; assumption.
  - intros x Hx Hax. destruct (Nat.eq_dec x e) as [->|Hne]; [congruence|]. rewrite Hwant in Hx by exact Hne.
    destruct (all_inputs_ready g p x) eqn:E.
    + destruct (I5 x Hx E) as [H|H].
      * destruct (HX x H) as [H'|H']; [congruence|]. left. apply in_or_app. right. exact H'.
      * destruct (Hz x H) as [H'|H']; [right; exact H'|left; apply in_or_app; left; exact H'].
    + left. apply in_or_app. left. apply Hnew; assumption.
  - intros x Hx Hsx. apply Hs' in Hsx. destruct Hsx as [Hsx Hne]. rewrite Hwant by exact Hne.
    apply I16. exact Hsx.
  - intros x Hx. apply Hor in Hx. destruct (Nat.eq_dec x e) as [->|Hne]; [left; exact Hwe|].
    rewrite Hwant by exact Hne. apply I7. destruct Hx as [Hx|Hx]; [congruence|exact Hx].
  - intros x Hx. apply Hor in Hx. destruct Hx as [->|Hx]; apply Hmono; [exact Ha|apply I8; exact Hx].
  - intros x i Hx Hi Ho.
    assert (Hne : x <> e) by (intros ->; congruence). rewrite Hwant in Hx by exact Hne.
    assert (Hie : i <> e) by (intros ->; rewrite (proj2 (Hor e) (or_introl eq_refl)) in Ho; discriminate).
    rewrite Hwant by exact Hie. apply (I9 x i Hx Hi).
    destruct (p_oready p i) eqn:E; [|reflexivity]. rewrite (proj2 (Hor i) (or_intror E)) in Ho. discriminate.
  - intros x Hx. assert (Hne : x <> e) by (intros ->; congruence). rewrite Hwant in Hx by exact Hne.
    apply I10. exact Hx.
  - exact Hu.
  - exact Hfull.
  - exact I13.
  - exact Hn.
  - exact Ht.
  - intros x Hx. apply Hs' in Hx. destruct Hx as [Hx Hne]. rewrite Hwant by exact Hne. apply I16. exact Hx.
Qed.


(* ------------------------------------------------------------------ Plan::ScheduleWork *)
Lemma QT_weaken (Q : nat -> Prop) X A F p :
  (forall q, 0 < depth g q -> Q q) -> pinv Q X A F p -> pinv QT X A F p.
Proof.
  intros HQ H. eapply pinv_weaken; [| |exact H].
  - intros q _ Hq. apply HQ. exact Hq.
  - intros x Hx. exact Hx.
Qed.

Lemma schedule_work_pinv X A F p prio d p' :
  pinv QT (d :: X) A F p -> is_wanted (p_want p) d = true -> all_inputs_ready g p d = true ->
  schedule_work g prio d p = Ok p' -> pinv QT X A F p'.
Proof.
  intros HI Hw Ha Hs. unfold schedule_work in Hs. unfold is_wanted in Hw.
  destruct (p_want p d) as [[| |]|] eqn:Ewd; try discriminate.
  - destruct (Nat.eqb_spec (depth g (pool g d)) 0) as [Hz|Hnz]; injection Hs as <-.
    + pose proof (pinv_schedule_pure QT X A F p d true HI Ewd Ha Hz) as H.
      refine (QT_weaken _ _ _ _ _ _ H). intros q Hq. split; [exact I|]. intros Heq. rewrite Heq in Hq. lia.
    + assert (Hpos : 0 < depth g (pool g d)) by lia.
      pose proof (pinv_schedule_pure QT X A F p d false HI Ewd Ha Hpos) as H.
      apply (retrieve_pinv _ _ _ _ _ prio (pool g d)) in H.
      refine (QT_weaken _ _ _ _ _ _ H). intros q _.
      destruct (Nat.eq_dec q (pool g d)); [right; assumption|left; split; [exact I|assumption]].
  - injection Hs as <-. apply (pinv_drop _ d); [exact HI| |]; intros H; congruence.
Qed.

(* ------------------------------------------------------------------ dyndep loads *)
Lemma forallb_all_edges (f : nat -> bool) : forallb f (all_edges g) = true ->
  forall x, x < n_edges g -> f x = true.
Proof. intros H x Hx. rewrite forallb_forall in H. apply H. apply all_edges_in. exact Hx. Qed.

Lemma ins_at_out p e : n_edges g <= e -> ins_at g p e = [].
Proof. intros H. unfold ins_at. rewrite einfo_overflow by exact H. reflexivity. Qed.

(* what every bookkeeping step of a load leaves alone *)
Record keeps (p p' : plan) : Prop := {
  k_ready : p_ready p' = p_ready p;
  k_delayed : p_delayed p' = p_delayed p;
  k_use : p_use p' = p_use p;
  k_tokens : p_tokens p' = p_tokens p;
  k_loaded : forall b, p_loaded p b = true -> p_loaded p' b = true;
  k_oready : forall x, p_oready p x = true -> p_oready p' x = true;
  k_out : forall x, n_edges g <= x -> p_want p' x = p_want p x /\ p_oready p' x = p_oready p x }.

Lemma keeps_refl p : keeps p p.
Proof. constructor; try reflexivity; intros; try assumption. split; reflexivity. Qed.

Lemma keeps_trans p1 p2 p3 : keeps p1 p2 -> keeps p2 p3 -> keeps p1 p3.
Proof.
  intros [A1 A2 A3 A4 A5 A6 A7] [B1 B2 B3 B4 B5 B6 B7]. constructor; try congruence.
  - intros b Hb. apply B5. apply A5. exact Hb.
  - intros x Hx. apply B6. apply A6. exact Hx.
  - intros x Hx. destruct (A7 x Hx) as [H1 H2]. destruct (B7 x Hx) as [H3 H4]. split; congruence.
Qed.

Lemma edge_wanted_fields x p :
  p_want (edge_wanted g x p) = p_want p /\ p_ready (edge_wanted g x p) = p_ready p /\
  p_delayed (edge_wanted g x p) = p_delayed p /\ p_use (edge_wanted g x p) = p_use p /\
  p_oready (edge_wanted g x p) = p_oready p /\ p_tokens (edge_wanted g x p) = p_tokens p /\
  p_loaded (edge_wanted g x p) = p_loaded p.
Proof. unfold edge_wanted. destruct (phony g x); repeat split; reflexivity. Qed.

Lemma keeps_upd_want p x v : x < n_edges g -> keeps p (set_want p (upd (p_want p) x v)).
Proof.
  intros Hx. constructor; try reflexivity; intros; try assumption.
  psimpl. split; [apply upd_other; lia|reflexivity].
Qed.

Lemma keeps_edge_wanted p x : keeps p (edge_wanted g x p).
Proof.
  destruct (edge_wanted_fields x p) as [E1 [E2 [E3 [E4 [E5 [E6 E7]]]]]].
  constructor; try assumption.
  - intros b Hb. rewrite E7. exact Hb.
  - intros y Hy. rewrite E5. exact Hy.
  - intros y Hy. rewrite E1, E5. split; reflexivity.
Qed.

Lemma keeps_upd_oready p x : x < n_edges g -> keeps p (set_oready p (upd (p_oready p) x true)).
Proof.
  intros Hx. constructor; try reflexivity; intros; try assumption.
  - psimpl. unfold upd. destruct (Nat.eqb x0 x); [reflexivity|assumption].
  - psimpl. split; [reflexivity|apply upd_other; lia].
Qed.

Lemma op_dirty_keeps deps x p p' : op_dirty g deps x p = Some p' -> keeps p p'.
Proof.
  unfold op_dirty. destruct (p_want p x) as [[| |]|]; try discriminate.
  destruct (Nat.ltb_spec x (n_edges g)) as [Hx|Hx]; cbn [andb]; [|discriminate].
  destruct (memb x deps && negb (p_oready p x)); [|discriminate]. intros H. injection H as <-.
  eapply keeps_trans; [apply (keeps_upd_want p x (Some WToStart) Hx)|apply keeps_edge_wanted].
Qed.

Lemma op_ready_keeps x p p' : op_ready g x p = Some p' -> keeps p p'.
Proof.
  unfold op_ready. destruct (p_want p x); [discriminate|].
  destruct (Nat.ltb_spec x (n_edges g)) as [Hx|Hx]; cbn [andb]; [|discriminate].
  destruct (negb (p_oready p x) && all_inputs_ready g p x); [|discriminate]. intros H. injection H as <-.
  apply keeps_upd_oready. exact Hx.
Qed.

Lemma op_rescan_keeps x p : keeps p (op_rescan g x p).
Proof.
  unfold op_rescan. destruct (p_want p x) as [[| |]|]; try apply keeps_refl.
  destruct (Nat.ltb_spec x (n_edges g)) as [Hx|Hx]; cbn [andb]; [|apply keeps_refl].
  destruct (negb (p_oready p x) && all_inputs_ready g p x); [|apply keeps_refl].
  apply keeps_upd_oready. exact Hx.
Qed.

Lemma op_add_keeps xw p p' : op_add g xw p = Some p' -> keeps p p'.
Proof.
  unfold op_add. destruct (p_want p (fst xw)); [discriminate|].
  destruct (Nat.ltb_spec (fst xw) (n_edges g)) as [Hx|Hx]; cbn [andb]; [|discriminate].
  destruct (negb (p_oready p (fst xw))); [|discriminate]. intros H. injection H as <-.
  destruct (snd xw).
  - eapply keeps_trans; [apply (keeps_upd_want p (fst xw) (Some WToStart) Hx)|apply keeps_edge_wanted].
  - apply keeps_upd_want. exact Hx.
Qed.

Lemma fold_opt_keeps {A : Type} (f : A -> plan -> option plan) :
  (forall x p p', f x p = Some p' -> keeps p p') ->
  forall l p p', fold_opt f l p = Some p' -> keeps p p'.
Proof.
  intros Hf l. induction l as [|x l IH]; intros p p' H; cbn [fold_opt] in H.
  - injection H as <-. apply keeps_refl.
  - destruct (f x p) as [p1|] eqn:E; [|discriminate].
    eapply keeps_trans; [apply (Hf x p p1 E)|apply IH; exact H].
Qed.

Lemma rescan_keeps deps : forall k p,
  keeps p (Nat.iter k (fun pp => fold_left (fun a x => op_rescan g x a) deps pp) p).
Proof.
  assert (Hround : forall l p, keeps p (fold_left (fun a x => op_rescan g x a) l p)).
  { induction l as [|x l IH]; intros p; cbn [fold_left]; [apply keeps_refl|].
    eapply keeps_trans; [apply (op_rescan_keeps x p)|apply IH]. }
  induction k as [|k IH]; intros p; cbn [Nat.iter]; [apply keeps_refl|].
  eapply keeps_trans; [apply IH|apply Hround].
Qed.

Lemma op_ready_try_keeps x p : keeps p (op_ready_try g x p).
Proof.
  unfold op_ready_try. destruct (op_ready g x p) as [p'|] eqn:E; [|apply keeps_refl].
  apply (op_ready_keeps x p p' E).
Qed.

Lemma rescan_round_keeps deps rd : forall k p, keeps p (Nat.iter k (rescan_round g deps rd) p).
Proof.
  assert (Hr1 : forall l p, keeps p (fold_left (fun a x => op_ready_try g x a) l p)).
  { induction l as [|x l IH]; intros p; cbn [fold_left]; [apply keeps_refl|].
    eapply keeps_trans; [apply (op_ready_try_keeps x p)|apply IH]. }
  assert (Hr2 : forall l p, keeps p (fold_left (fun a x => op_rescan g x a) l p)).
  { induction l as [|x l IH]; intros p; cbn [fold_left]; [apply keeps_refl|].
    eapply keeps_trans; [apply (op_rescan_keeps x p)|apply IH]. }
  induction k as [|k IH]; intros p; cbn [Nat.iter]; [apply keeps_refl|].
  eapply keeps_trans; [apply IH|]. unfold rescan_round.
  eapply keeps_trans; [apply Hr1|apply Hr2].
Qed.

Lemma apply_load_cases e p p5 walk : apply_load g loads e p = Ok (p5, walk) ->
  (bound g p e = [] /\ p5 = p /\ walk = []) \/
  (bound g p e <> [] /\ keeps p p5 /\
   exists L, loads e = Some L /\ walk = ld_walk L /\ chk_evol g L p p5 = true /\
             chk_closed g p5 = true /\ chk_sched g p5 = true /\ chk_oclosed g p5 = true /\
             chk_walk g p p5 walk = true).
Proof.
  unfold apply_load, apply_load_gen. destruct (bound g p e) as [|b bs] eqn:Eb.
  - intros H. injection H as <- <-. left. repeat split.
  - destruct (loads e) as [L|]; [|discriminate].
    set (p1 := set_loaded p _).
    destruct (fold_opt (op_dirty g (dependents g p1 e)) (ld_dirty L) p1) as [p2|] eqn:E2; [|discriminate].
    destruct (forallb (ready_pre g p2) (ld_ready L)) eqn:E3; [|discriminate].
    set (p4 := Nat.iter _ _ p2).
    destruct (forallb (p_oready p4) (ld_ready L)) eqn:E4; [|discriminate].
    destruct (fold_opt (op_add g) (ld_added L) p4) as [p5'|] eqn:E5; [|discriminate].
    cbn [negb orb].
    destruct (chk_evol g L p p5' && chk_closed g p5' && chk_sched g p5' && chk_oclosed g p5'
              && chk_walk g p p5' (ld_walk L)) eqn:Ec; [|discriminate].
    intros H. injection H as <- <-. right. split; [discriminate|].
    apply andb_true_iff in Ec. destruct Ec as [Ec C5]. apply andb_true_iff in Ec. destruct Ec as [Ec C4].
    apply andb_true_iff in Ec. destruct Ec as [Ec C3]. apply andb_true_iff in Ec. destruct Ec as [C1 C2].
    split.
    + assert (K1 : keeps p p1).
      { constructor; try reflexivity; intros; try assumption.
        - unfold p1. psimpl. rewrite H. apply orb_true_r.
        - split; reflexivity. }
      eapply keeps_trans; [exact K1|]. eapply keeps_trans; [apply (fold_opt_keeps _ (op_dirty_keeps _) _ _ _ E2)|].
      eapply keeps_trans; [apply rescan_round_keeps|]. apply (fold_opt_keeps _ op_add_keeps _ _ _ E5).
    + exists L. repeat split; assumption.
Qed.

Lemma is_nothing_eq w : is_nothing w = true <-> w = Some WNothing.
Proof. destruct w as [[| |]|]; cbn; split; intros H; congruence. Qed.

(* the load (up to the EdgeMaybeReady loop) keeps the invariant; the edges of dyndep_walk become exempt *)
Lemma apply_load_pinv e X A F p p5 walk :
  pinv QT X A F p -> apply_load g loads e p = Ok (p5, walk) -> pinv QT (walk ++ X) A F p5.
Proof.
  intros HI Hl. destruct (apply_load_cases e p p5 walk Hl) as [[_ [-> ->]]|[_ [HK [L [_ [-> [C1 [C2 [C3 [C4 C5]]]]]]]]]].
  - exact HI.
  - destruct HI as [I1 I2 I3 I4 I5 I6 I7 I8 I9 I10 I11 I12 I13 I14 I15 I16].
    destruct HK as [K1 K2 K3 K4 K5 K6 K7].
    unfold chk_evol in C1. apply andb_true_iff in C1. destruct C1 as [C1 Cle].
    apply andb_true_iff in C1. destruct C1 as [C1 Cc].
    apply andb_true_iff in C1. destruct C1 as [C1 Cw]. apply Nat.eqb_eq in Cw, Cc.
    assert (Hs : sched p5 A F = sched p A F) by (unfold sched; rewrite K1, K2; reflexivity).
    (* per-edge facts from the checks *)
    assert (Hev : forall x, x < n_edges g ->
      (p_want p5 x = p_want p x \/ (p_want p x = Some WNothing /\ p_want p5 x = Some WToStart) \/
       (p_want p x = None /\ (p_want p5 x = Some WNothing \/ p_want p5 x = Some WToStart))) /\
      (p_oready p5 x = true -> p_want p5 x = None \/ p_want p5 x = Some WNothing)).
    { intros x Hx. pose proof (forallb_all_edges _ C1 x Hx) as H. cbn beta in H.
      apply andb_true_iff in H. destruct H as [H _]. apply andb_true_iff in H. destruct H as [H1 H2].
      split.
      - destruct (p_want p x) as [a|], (p_want p5 x) as [b|]; try discriminate; try (left; reflexivity).
        + destruct a, b; cbn in H1; try discriminate; try (left; reflexivity). right. left. split; reflexivity.
        + right. right. split; [reflexivity|]. destruct b; cbn in H1; try discriminate; [left|right]; reflexivity.
      - intros Ho. rewrite Ho in H2. cbn [negb orb] in H2. apply orb_true_iff in H2. destruct H2 as [H2|H2].
        + right. apply is_nothing_eq. exact H2.
        + left. unfold in_want in H2. destruct (p_want p5 x); [discriminate|reflexivity]. }
    assert (Hwout : forall x, n_edges g <= x -> p_want p5 x = None /\ p_want p x = None).
    { intros x Hx. destruct (K7 x Hx) as [H1 _]. rewrite H1.
      destruct (p_want p x) eqn:E; [|split; reflexivity]. exfalso. assert (x < n_edges g) by (apply I10; congruence). lia. }
    assert (Hlt : forall x, p_want p5 x <> None -> x < n_edges g).
    { intros x Hx. destruct (lt_dec x (n_edges g)) as [H|H]; [exact H|]. destruct (Hwout x) as [H1 _]; [lia|congruence]. }
    assert (Hfin : forall x, p_want p x = Some WToFinish <-> p_want p5 x = Some WToFinish).
    { intros x. split; intros H.
      - assert (Hx : x < n_edges g) by (apply I10; congruence).
        destruct (proj1 (Hev x Hx)) as [E|[[E _]|[E _]]]; congruence.
      - assert (Hx : x < n_edges g) by (apply Hlt; congruence).
        destruct (proj1 (Hev x Hx)) as [E|[[_ E]|[_ [E|E]]]]; congruence. }
    assert (Hzp : forall i, Zp p i -> Zp p5 i).
    { intros i [Ho Hw]. split; [apply K6; exact Ho|].
      assert (Hi : i < n_edges g) by (apply I10; congruence).
      destruct (Hev i Hi) as [H1 H2]. destruct (H2 (K6 i Ho)) as [E|E]; [|exact E].
      destruct H1 as [E'|[[_ E']|[E' _]]]; congruence. }
    assert (Hz : forall x, zprod p x -> zprod p5 x).
    { intros x [i [Hi Hzi]]. exists i. split; [apply (ins_at_mono g p p5 x i K5); exact Hi|apply Hzp; exact Hzi]. }
    assert (Hwalk : forall x, (p_want p5 x = Some WToStart \/ p_want p5 x = Some WNothing) ->
              all_inputs_ready g p5 x = true ->
              In x (ld_walk L) \/ (all_inputs_ready g p x = true /\ p_want p x <> None) \/ zprod p5 x).
    { intros x Hw Ha. assert (Hx : x < n_edges g) by (apply Hlt; destruct Hw as [E|E]; congruence).
      pose proof (forallb_all_edges _ C5 x Hx) as H. cbn beta in H.
      assert (H' : negb (all_inputs_ready g p5 x) || memb x (ld_walk L)
                   || (all_inputs_ready g p x && in_want p x)
                   || existsb (fun i => p_oready p5 i && match p_want p5 i with Some WNothing => true | _ => false end)
                              (ins_at g p5 x) = true).
      { destruct Hw as [E|E]; rewrite E in H; exact H. }
      rewrite Ha in H'. cbn [negb orb] in H'.
      apply orb_true_iff in H'. destruct H' as [H'|H'].
      - apply orb_true_iff in H'. destruct H' as [H'|H'].
        + left. apply memb_In. exact H'.
        + right. left. apply andb_true_iff in H'. destruct H' as [H1 H2]. split; [exact H1|].
          unfold in_want in H2. destruct (p_want p x); [discriminate|discriminate H2].
      - right. right. apply existsb_exists in H'. destruct H' as [i [Hi H']].
        apply andb_true_iff in H'. destruct H' as [H1 H2]. exists i. split; [exact Hi|]. split; [exact H1|].
        destruct (p_want p5 i) as [[| |]|]; try discriminate. reflexivity. }
    assert (Hsf : forall x, In x (sched p A F) -> p_want p5 x = Some WToFinish).
    { intros x Hx. apply Hfin. apply I16. exact Hx. }
    constructor; try rewrite Hs.
    + exact I1.
    + intros x Hx. pose proof (Hsf x Hx) as Hw. split; [unfold is_wanted; rewrite Hw; reflexivity|].
      assert (Hxn : x < n_edges g) by (apply Hlt; congruence).
      pose proof (forallb_all_edges _ C3 x Hxn) as H. cbn beta in H. rewrite Hw in H. exact H.
    + intros x Hx. apply I3. apply Hfin. exact Hx.
    + intros x Hx Ha. destruct (Hwalk x (or_introl Hx) Ha) as [H|[[H1 H2]|H]].
      * right. left. apply in_or_app. left. exact H.
      * assert (Hxn : x < n_edges g) by (apply Hlt; congruence).
        destruct (proj1 (Hev x Hxn)) as [E|[[E _]|[E _]]]; [| |congruence].
        -- rewrite Hx in E. destruct (I4 x (eq_sym E) H1) as [H|[H|H]];
             [left; exact H|right; left; apply in_or_app; right; exact H|right; right; apply Hz; exact H].
        -- destruct (I5 x E H1) as [H|H]; [right; left; apply in_or_app; right; exact H|right; right; apply Hz; exact H].
      * right. right. exact H.
    + intros x Hx Ha. destruct (Hwalk x (or_intror Hx) Ha) as [H|[[H1 H2]|H]].
      * left. apply in_or_app. left. exact H.
      * assert (Hxn : x < n_edges g) by (apply Hlt; congruence).
        destruct (proj1 (Hev x Hxn)) as [E|[[_ E]|[E _]]]; [|congruence|congruence].
        rewrite Hx in E. destruct (I5 x (eq_sym E) H1) as [H|H]; [left; apply in_or_app; right; exact H|right; apply Hz; exact H].
      * right. exact H.
    + intros x _ Hx. apply Hsf. exact Hx.
    + intros x Hx. destruct (lt_dec x (n_edges g)) as [Hxn|Hxn]; [apply (Hev x Hxn); exact Hx|].
      left. apply (Hwout x). lia.
    + intros x Hx. destruct (lt_dec x (n_edges g)) as [Hxn|Hxn].
      * pose proof (forallb_all_edges _ C4 x Hxn) as H. cbn beta in H. rewrite Hx in H. exact H.
      * unfold all_inputs_ready. rewrite ins_at_out by lia. reflexivity.
    + intros x i Hx Hi Ho. assert (Hxn : x < n_edges g) by (apply Hlt; exact Hx).
      pose proof (forallb_all_edges _ C2 x Hxn) as H. cbn beta in H.
      unfold in_want in H at 1. destruct (p_want p5 x); [|congruence]. cbn [negb orb] in H.
      rewrite forallb_forall in H. specialize (H i Hi). rewrite Ho in H. cbn [orb] in H.
      unfold in_want in H. destruct (p_want p5 i); [discriminate|discriminate H].
    + exact Hlt.
    + rewrite K1, K3. exact I11.
    + rewrite K2, K3. exact I12.
    + rewrite K2. exact I13.
    + exact Cw.
    + rewrite K4. exact I15.
    + exact Hsf.
Qed.

(* ------------------------------------------------------------------ Plan::EdgeFinished *)
Definition visit (fuel : nat) (prio : list nat) : nat -> plan -> res plan :=
  fun d pp =>
    match p_want pp d with
    | None => Ok pp
    | Some wd =>
      if all_inputs_ready g pp d then
        if want_eqb wd WNothing
        then edge_finished fuel g cfg prio loads d true false pp
        else schedule_work g prio d pp
      else Ok pp
    end.

(* what EdgeFinished does after `outputs_ready_ = true`: LoadDyndeps, then NodeFinished *)
Definition after_done (fuel : nat) (prio : list nat) (e : nat) (p4 : plan) : res plan :=
  match apply_load g loads e p4 with
  | Ok (p5, walk) => fold_res (visit fuel prio) (walk ++ cons_at g p5 e) p5
  | Forbidden => Forbidden
  | OutOfFuel => OutOfFuel
  end.

(* the recursive call: an edge that is in want_ with kWantNothing *)
Lemma ef_nothing_eq fuel prio d p : p_want p d = Some WNothing ->
  edge_finished (S fuel) g cfg prio loads d true false p =
  after_done fuel prio d
    (retrieve g prio (pool g d)
       (mkPlan (upd (p_want p) d None) (p_ready p) (p_delayed p) (p_use p) (p_wanted p)
               (p_commands p) (upd (p_oready p) d true) (p_tokens p) (p_loaded p))).
Proof.
  intros Hw. cbn [edge_finished]. rewrite Hw. cbn [want_eqb negb andb].
  assert (Et : release_token cfg false (retrieve g prio (pool g d) p) = Some (retrieve g prio (pool g d) p)).
  { unfold release_token. destruct (c_jobserver cfg); reflexivity. }
  rewrite Et. cbn [negb].
  change (mkPlan (upd (p_want p) d None) (p_ready p) (p_delayed p) (p_use p) (p_wanted p)
                 (p_commands p) (upd (p_oready p) d true) (p_tokens p) (p_loaded p))
    with (frame p (upd (p_want p) d None) (p_wanted p) (p_commands p) (upd (p_oready p) d true) (p_tokens p)).
  rewrite retrieve_frame. unfold after_done, visit.
  unfold set_oready, set_want, set_wanted. psimpl.
  rewrite retrieve_want, retrieve_oready, retrieve_wanted, retrieve_commands, retrieve_tokens.
  unfold frame. rewrite retrieve_loaded. reflexivity.
Qed.

Definition rel_use (p : plan) (q : nat) : option (nat -> nat) :=
  if negb (Nat.eqb (depth g q) 0)
  then (match p_use p q with O => None | S u => Some (upd (p_use p) q u) end)
  else Some (p_use p).

Definition rel_tok (p : plan) : option nat :=
  match c_jobserver cfg with
  | None => Some (p_tokens p)
  | Some _ => (match p_tokens p with O => None | S t => Some t end)
  end.

(* the top-level call: a directly wanted edge that went through FindWork *)
Lemma ef_top_eq fuel prio e succ p w : p_want p e = Some w -> w <> WNothing ->
  edge_finished (S fuel) g cfg prio loads e succ true p =
  match rel_use p (pool g e) with
  | None => Forbidden
  | Some u =>
    match rel_tok p with
    | None => Forbidden
    | Some t =>
      if negb succ
      then Ok (retrieve g prio (pool g e)
                 (mkPlan (p_want p) (p_ready p) (p_delayed p) u (p_wanted p) (p_commands p)
                         (p_oready p) t (p_loaded p)))
      else match p_wanted p with
           | O => Forbidden
           | S n =>
             after_done fuel prio e
               (retrieve g prio (pool g e)
                  (mkPlan (upd (p_want p) e None) (p_ready p) (p_delayed p) u n (p_commands p)
                          (upd (p_oready p) e true) t (p_loaded p)))
           end
    end
  end.
Proof.
  intros Hw Hn. cbn [edge_finished]. rewrite Hw.
  assert (Edw : negb (want_eqb w WNothing) = true) by (destruct w; [congruence|reflexivity|reflexivity]).
  rewrite Edw. cbn [andb]. unfold rel_use.
  set (q := pool g e).
  assert (Hmain : forall u,
    match release_token cfg true (retrieve g prio q (set_use p u)) with
    | None => Forbidden
    | Some p3 =>
      if negb succ then Ok p3
      else match (match p_wanted p3 with O => None | S n => Some n end) with
           | None => Forbidden
           | Some n =>
             after_done fuel prio e
               (set_oready (set_want (set_wanted p3 n) (upd (p_want p3) e None)) (upd (p_oready p3) e true))
           end
    end =
    match rel_tok p with
    | None => Forbidden
    | Some t =>
      if negb succ
      then Ok (retrieve g prio q (mkPlan (p_want p) (p_ready p) (p_delayed p) u (p_wanted p) (p_commands p) (p_oready p) t (p_loaded p)))
      else match p_wanted p with
           | O => Forbidden
           | S n =>
             after_done fuel prio e
               (retrieve g prio q (mkPlan (upd (p_want p) e None) (p_ready p) (p_delayed p) u n (p_commands p) (upd (p_oready p) e true) t (p_loaded p)))
           end
    end).
  { intros u. unfold release_token, rel_tok.
    assert (Hfr : forall w' n' o' t',
      retrieve g prio q (mkPlan w' (p_ready p) (p_delayed p) u n' (p_commands p) o' t' (p_loaded p)) =
      frame (retrieve g prio q (set_use p u)) w' n' (p_commands p) o' t').
    { intros w' n' o' t'. rewrite <- retrieve_frame. reflexivity. }
    destruct (c_jobserver cfg) as [nj|].
    - rewrite retrieve_tokens. change (p_tokens (set_use p u)) with (p_tokens p).
      destruct (p_tokens p) as [|t]; [reflexivity|].
      destruct (negb succ).
      + rewrite Hfr. unfold set_tokens, frame.
        rewrite retrieve_want, retrieve_oready, retrieve_wanted, retrieve_commands. reflexivity.
      + unfold set_tokens at 1. psimpl. rewrite retrieve_wanted. change (p_wanted (set_use p u)) with (p_wanted p).
        destruct (p_wanted p) as [|n]; [reflexivity|]. rewrite Hfr.
        unfold set_oready, set_want, set_wanted, set_tokens, frame. psimpl.
        rewrite retrieve_want, retrieve_oready, retrieve_commands. reflexivity.
    - destruct (negb succ).
      + rewrite Hfr. f_equal. exact (retrieve_as_frame prio q (set_use p u)).
      + rewrite retrieve_wanted. change (p_wanted (set_use p u)) with (p_wanted p).
        destruct (p_wanted p) as [|n]; [reflexivity|]. rewrite Hfr.
        unfold set_oready, set_want, set_wanted, frame. psimpl.
        rewrite retrieve_want, retrieve_oready, retrieve_commands, retrieve_tokens. reflexivity. }
  destruct (negb (Nat.eqb (depth g q) 0)).
  - destruct (p_use p q) as [|u0]; [reflexivity|]. apply Hmain.
  - specialize (Hmain (p_use p)). replace (set_use p (p_use p)) with p in Hmain by (destruct p; reflexivity).
    exact Hmain.
Qed.

Definition ef_rec_stmt (fuel : nat) : Prop :=
  forall prio d X A F p p',
    pinv QT (d :: X) A F p -> p_want p d = Some WNothing -> all_inputs_ready g p d = true ->
    edge_finished fuel g cfg prio loads d true false p = Ok p' -> pinv QT X A F p'.

Definition fold_stmt (fuel : nat) : Prop :=
  forall prio l X A F p p',
    pinv QT (l ++ X) A F p -> fold_res (visit fuel prio) l p = Ok p' -> pinv QT X A F p'.

Lemma fold_of_rec fuel : ef_rec_stmt fuel -> fold_stmt fuel.
Proof.
  intros Hrec prio l. induction l as [|d l IH]; intros X A F p p' HI Hf.
  - cbn [fold_res] in Hf. injection Hf as <-. exact HI.
  - cbn [fold_res] in Hf. destruct (visit fuel prio d p) as [p1| |] eqn:Ev; try discriminate.
    apply (IH X A F p1 p'); [|exact Hf]. clear Hf IH.
    cbn [app] in HI. unfold visit in Ev.
    destruct (p_want p d) as [wd|] eqn:Ewd.
    + destruct (all_inputs_ready g p d) eqn:Ea.
      * destruct wd; cbn [want_eqb] in Ev.
        -- apply (Hrec prio d (l ++ X) A F p p1 HI Ewd Ea Ev).
        -- apply (schedule_work_pinv (l ++ X) A F p prio d p1 HI); [unfold is_wanted; rewrite Ewd; reflexivity|exact Ea|exact Ev].
        -- apply (schedule_work_pinv (l ++ X) A F p prio d p1 HI); [unfold is_wanted; rewrite Ewd; reflexivity|exact Ea|exact Ev].
      * injection Ev as <-. apply (pinv_drop _ d); [exact HI| |]; intros _ H; congruence.
    + injection Ev as <-. apply (pinv_drop _ d); [exact HI| |]; intros H; congruence.
Qed.

Lemma cons_at_mono p p' e x : (forall b, p_loaded p b = true -> p_loaded p' b = true) ->
  In x (cons_at g p e) -> In x (cons_at g p' e).
Proof.
  intros H Hx. apply cons_at_In in Hx. destruct Hx as [c [H1 H2]]. apply cons_at_In. exists c.
  split; [exact H1|]. unfold active in *. cbn [snd] in *. destruct c as [b|]; [apply H; exact H2|reflexivity].
Qed.

Lemma apply_load_loaded e p p5 walk : apply_load g loads e p = Ok (p5, walk) ->
  forall b, p_loaded p b = true -> p_loaded p5 b = true.
Proof.
  intros Hl. destruct (apply_load_cases e p p5 walk Hl) as [[_ [-> _]]|[_ [HK _]]].
  - intros b Hb. exact Hb.
  - apply (k_loaded _ _ HK).
Qed.

Lemma after_done_pinv fuel prio e X A F p4 p' : fold_stmt fuel ->
  pinv QT (cons_at g p4 e ++ X) A F p4 -> after_done fuel prio e p4 = Ok p' -> pinv QT X A F p'.
Proof.
  intros Hfold HI H. unfold after_done in H.
  destruct (apply_load g loads e p4) as [[p5 walk]| |] eqn:El; try discriminate.
  refine (Hfold prio (walk ++ cons_at g p5 e) X A F p5 p' _ H).
  pose proof (apply_load_pinv e _ A F p4 p5 walk HI El) as H5.
  eapply pinv_weaken; [| |exact H5]; [intros q _ _; exact I|].
  intros x Hx. rewrite <- app_assoc. apply in_app_or in Hx. apply in_or_app.
  destruct Hx as [Hx|Hx]; [left; exact Hx|right].
  apply in_app_or in Hx. apply in_or_app. destruct Hx as [Hx|Hx]; [left|right; exact Hx].
  apply (cons_at_mono p4 p5 e x (apply_load_loaded e p4 p5 walk El) Hx).
Qed.

Lemma rec_of_fold fuel : fold_stmt fuel -> ef_rec_stmt (S fuel).
Proof.
  intros Hfold prio d X A F p p' HI Hw Ha Hef.
  rewrite (ef_nothing_eq fuel prio d p Hw) in Hef.
  refine (after_done_pinv fuel prio d X A F _ p' Hfold _ Hef).
  rewrite (cons_at_ext g p _ d) by (rewrite retrieve_loaded; reflexivity).
  apply (QT_weaken (fun r => QT r \/ r = pool g d)); [intros q _; left; exact I|].
  apply retrieve_pinv.
  pose proof HI as [I1 I2 I3 I4 I5 I6 I7 I8 I9 I10 I11 I12 I13 I14 I15 I16].
  assert (Hns : ~ In d (sched p A F)).
  { intros Hin. destruct (I2 d Hin) as [H _]. unfold is_wanted in H. rewrite Hw in H. discriminate. }
  apply (pinv_done_pure QT (d :: X) X A A F p d WNothing); try assumption.
  - intros x [<-|Hx]; [left; reflexivity|right; exact Hx].
  - intros x Hx. right. exact Hx.
  - intros x. split; [intros Hx; split; [exact Hx|intros ->; exact (Hns Hx)]|tauto].
  - rewrite I14. symmetry. apply is_wanted_upd_keep. unfold is_wanted. rewrite upd_same, Hw. reflexivity.
Qed.

Lemma ef_rec_all fuel : ef_rec_stmt fuel /\ fold_stmt fuel.
Proof.
  induction fuel as [|fuel [IH1 IH2]].
  - assert (H0 : ef_rec_stmt 0) by (intros prio d X A F p p' _ _ _ H; discriminate H).
    split; [exact H0|apply fold_of_rec; exact H0].
  - pose proof (rec_of_fold fuel IH2) as H. split; [exact H|apply fold_of_rec; exact H].
Qed.

Lemma sched_split_A p A F e : NoDup A -> In e A ->
  Permutation (sched p A F) (e :: p_ready p ++ p_delayed p ++ rem e A ++ F).
Proof.
  intros Hnd Hin. unfold sched.
  rewrite (rem_perm e A Hnd Hin) at 1.
  rewrite (Permutation_middle (p_ready p)). apply Permutation_app_head.
  rewrite (Permutation_middle (p_delayed p)). apply Permutation_app_head. reflexivity.
Qed.

Lemma pinv_nodup_A Q X A F p : pinv Q X A F p -> NoDup A.
Proof.
  intros [I1 _ _ _ _ _ _ _ _ _ _ _ _ _ _ _]. unfold sched in I1.
  apply NoDup_app_iff in I1. destruct I1 as [_ [I1 _]].
  apply NoDup_app_iff in I1. destruct I1 as [_ [I1 _]].
  apply NoDup_app_iff in I1. tauto.
Qed.

Lemma pinv_nodup_R Q X A F p : pinv Q X A F p -> NoDup (p_ready p).
Proof.
  intros [I1 _ _ _ _ _ _ _ _ _ _ _ _ _ _ _]. unfold sched in I1.
  apply NoDup_app_iff in I1. tauto.
Qed.

Lemma in_sched_A p A F e : In e A -> In e (sched p A F).
Proof. intros H. unfold sched. apply in_or_app. right. apply in_or_app. right. apply in_or_app. left. exact H. Qed.
Lemma in_sched_R p A F e : In e (p_ready p) -> In e (sched p A F).
Proof. intros H. unfold sched. apply in_or_app. left. exact H. Qed.
Lemma in_sched_D p A F e : In e (p_delayed p) -> In e (sched p A F).
Proof. intros H. unfold sched. apply in_or_app. right. apply in_or_app. left. exact H. Qed.
Lemma in_sched_F p A F e : In e F -> In e (sched p A F).
Proof. intros H. unfold sched. apply in_or_app. right. apply in_or_app. right. apply in_or_app. right. exact H. Qed.

Lemma rel_use_spec p q u : rel_use p q = Some u ->
  (forall r, r <> q -> u r = p_use p r) /\
  (0 < depth g q -> S (u q) = p_use p q) /\ (depth g q = 0 -> u = p_use p).
Proof.
  unfold rel_use. destruct (Nat.eqb_spec (depth g q) 0) as [Hz|Hnz]; cbn [negb].
  - intros H. injection H as <-. split; [intros; reflexivity|split; [intros; lia|intros; reflexivity]].
  - destruct (p_use p q) as [|u0] eqn:E; [discriminate|]. intros H. injection H as <-.
    split; [intros r Hr; apply upd_other; exact Hr|]. split; [intros _; rewrite upd_same; reflexivity|lia].
Qed.

Lemma rel_tok_spec p A e t : p_tokens p = tok A -> NoDup A -> In e A -> rel_tok p = Some t ->
  t = tok (rem e A).
Proof.
  unfold rel_tok, tok. intros Ht Hnd Hin. rewrite (rem_length e A Hnd Hin) in Ht.
  destruct (c_jobserver cfg).
  - rewrite Ht. intros H. injection H as <-. reflexivity.
  - intros H. injection H as <-. exact Ht.
Qed.

(* use after the pool release, for the active set without e *)
Lemma use_after_release p A F e u :
  pinv QT [] A F p -> In e A -> rel_use p (pool g e) = Some u ->
  (forall q, 0 < depth g q -> u q = cnt g q (p_ready p) + cnt g q (rem e A) /\ u q <= depth g q) /\
  (forall q, q <> pool g e -> 0 < depth g q -> delayed_of g q (p_delayed p) <> [] -> u q = depth g q).
Proof.
  intros HI Hin Hu. pose proof (pinv_nodup_A _ _ _ _ _ HI) as HndA.
  destruct HI as [I1 I2 I3 I4 I5 I6 I7 I8 I9 I10 I11 I12 I13 I14 I15 I16].
  destruct (rel_use_spec p (pool g e) u Hu) as [U1 [U2 U3]].
  split.
  - intros q Hq. destruct (I11 q Hq) as [H1 H2]. pose proof (cnt_rem g q e A HndA Hin) as Hc.
    destruct (Nat.eq_dec q (pool g e)) as [->|Hne].
    + rewrite Nat.eqb_refl in Hc. specialize (U2 Hq). lia.
    + rewrite (U1 q Hne). destruct (Nat.eqb_spec (pool g e) q) as [E|E]; [congruence|]. lia.
  - intros q Hne Hq Hd. rewrite (U1 q Hne). apply I12; [exact I|exact Hq|exact Hd].
Qed.

Lemma ef_top_success fuel prio e A F p p' :
  pinv QT [] A F p -> In e A ->
  edge_finished fuel g cfg prio loads e true true p = Ok p' -> pinv QT [] (rem e A) F p'.
Proof.
  intros HI Hin Hef. destruct fuel as [|fuel]; [discriminate Hef|].
  pose proof (pinv_nodup_A _ _ _ _ _ HI) as HndA.
  pose proof HI as [I1 I2 I3 I4 I5 I6 I7 I8 I9 I10 I11 I12 I13 I14 I15 I16].
  destruct (I2 e (in_sched_A p A F e Hin)) as [Hw Ha]. unfold is_wanted in Hw.
  destruct (p_want p e) as [w|] eqn:Ew; [|discriminate].
  assert (Hwn : w <> WNothing) by (intros ->; discriminate).
  rewrite (ef_top_eq fuel prio e true p w Ew Hwn) in Hef.
  destruct (rel_use p (pool g e)) as [u|] eqn:Eu; [|discriminate].
  destruct (rel_tok p) as [t|] eqn:Et; [|discriminate]. cbn [negb] in Hef.
  destruct (p_wanted p) as [|n] eqn:En; [discriminate|].
  destruct (use_after_release p A F e u HI Hin Eu) as [Hu Hfull].
  pose proof (sched_split_A p A F e HndA Hin) as Hperm.
  assert (Hnd' : NoDup (e :: p_ready p ++ p_delayed p ++ rem e A ++ F)) by (apply (Permutation_NoDup Hperm); exact I1).
  inversion Hnd' as [|e' l' Hne' Hnd'']; subst.
  destruct (ef_rec_all fuel) as [_ Hfold].
  refine (after_done_pinv fuel prio e [] (rem e A) F _ p' Hfold _ Hef).
  rewrite (cons_at_ext g p _ e) by (rewrite retrieve_loaded; reflexivity).
  apply (QT_weaken (fun r => r <> pool g e \/ r = pool g e)).
  { intros q _. destruct (Nat.eq_dec q (pool g e)); [right|left]; assumption. }
  apply retrieve_pinv.
  apply (pinv_done_pure (fun r => r <> pool g e) [] [] A (rem e A) F p e w); try assumption.
  - intros x [].
  - intros x [].
  - intros x. split.
    + intros Hx. split; [apply (Permutation_in _ (Permutation_sym Hperm)); right; exact Hx|].
      intros ->. exact (Hne' Hx).
    + intros [Hx Hne]. apply (Permutation_in _ Hperm) in Hx. destruct Hx as [Hx|Hx]; [congruence|exact Hx].
  - assert (Hlt : e < n_edges g) by (apply I10; congruence).
    pose proof (count_if_flip (p_want p) e None (all_edges g) all_edges_nodup (all_edges_in e Hlt)) as Hc.
    unfold is_wanted in Hc at 1 2. rewrite Ew, upd_same in Hc.
    assert (Hw' : match w with WNothing => false | _ => true end = true) by (destruct w; [congruence|reflexivity|reflexivity]).
    specialize (Hc Hw' eq_refl). rewrite <- I14 in Hc. injection Hc as Hc. exact Hc.
  - apply (rel_tok_spec p A e t I15 HndA Hin Et).
Qed.

Lemma ef_top_failure fuel prio e A F p p' :
  pinv QT [] A F p -> In e A ->
  edge_finished fuel g cfg prio loads e false true p = Ok p' -> pinv QT [] (rem e A) (e :: F) p'.
Proof.
  intros HI Hin Hef. destruct fuel as [|fuel]; [discriminate Hef|].
  pose proof (pinv_nodup_A _ _ _ _ _ HI) as HndA.
  pose proof HI as [I1 I2 I3 I4 I5 I6 I7 I8 I9 I10 I11 I12 I13 I14 I15 I16].
  destruct (I2 e (in_sched_A p A F e Hin)) as [Hw Ha]. unfold is_wanted in Hw.
  destruct (p_want p e) as [w|] eqn:Ew; [|discriminate].
  assert (Hwn : w <> WNothing) by (intros ->; discriminate).
  rewrite (ef_top_eq fuel prio e false p w Ew Hwn) in Hef.
  destruct (rel_use p (pool g e)) as [u|] eqn:Eu; [|discriminate].
  destruct (rel_tok p) as [t|] eqn:Et; [|discriminate]. cbn [negb] in Hef. injection Hef as <-.
  destruct (use_after_release p A F e u HI Hin Eu) as [Hu Hfull].
  apply (QT_weaken (fun r => r <> pool g e \/ r = pool g e)).
  { intros q _. destruct (Nat.eq_dec q (pool g e)); [right|left]; assumption. }
  apply retrieve_pinv.
  apply (pinv_reshape QT (fun r => r <> pool g e) [] A F (rem e A) (e :: F) (p_ready p) u t p HI).
  - rewrite (sched_split_A p A F e HndA Hin).
    rewrite (Permutation_middle (p_ready p)). apply Permutation_app_head.
    rewrite (Permutation_middle (p_delayed p)). apply Permutation_app_head.
    symmetry. apply Permutation_middle.
  - exact Hu.
  - intros q Hq Hd Hdl. apply Hfull; assumption.
  - apply (rel_tok_spec p A e t I15 HndA Hin Et).
Qed.

(* ------------------------------------------------------------------ Plan::ScheduleInitialEdges *)
Record wf_snap (sn : snapshot) : Prop := {
  ws_oready_none : forall e, sn_oready sn e = true -> sn_want sn e = None;
  ws_oready_closed : forall e, sn_oready sn e = true -> all_inputs_ready g (snap_plan sn) e = true;
  ws_no_tofinish : forall e, sn_want sn e <> Some WToFinish;
  ws_closed : forall e i, sn_want sn e <> None -> In i (ins_at g (snap_plan sn) e) ->
              sn_oready sn i = false -> sn_want sn i <> None;
  ws_nothing : forall e, sn_want sn e = Some WNothing -> all_inputs_ready g (snap_plan sn) e = false;
  ws_range : forall e, sn_want sn e <> None -> e < n_edges g;
  ws_wanted : sn_wanted sn = count_if (is_wanted (sn_want sn)) (all_edges g);
  ws_commands : sn_commands sn =
                count_if (fun e => is_wanted (sn_want sn) e && negb (phony g e)) (all_edges g) }.

Definition QF : nat -> Prop := fun _ => False.
Definition nothing_blocked (p : plan) : Prop :=
  forall x, p_want p x = Some WNothing -> all_inputs_ready g p x = false.

Lemma snap_plan_pinv sn : wf_snap sn -> pinv QF (all_edges g) [] [] (snap_plan sn).
Proof.
  intros [W1 W2 W3 W4 W5 W6 W7 W8].
  constructor; unfold sched; cbn [snap_plan p_ready p_delayed p_want p_oready p_use p_wanted p_tokens app].
  - constructor.
  - intros e [].
  - intros e He. exfalso. exact (W3 e He).
  - intros e He _. right. left. apply all_edges_in. apply W6. congruence.
  - intros e He _. left. apply all_edges_in. apply W6. congruence.
  - intros x _ [].
  - intros e He. left. apply W1. exact He.
  - exact W2.
  - exact W4.
  - exact W6.
  - intros q _. unfold cnt. cbn. lia.
  - intros q [].
  - intros e [].
  - exact W7.
  - destruct (c_jobserver cfg); reflexivity.
  - intros e [].
Qed.

Lemma sched_init_edge_want_none e p x : p_want (sched_init_edge g e p) x = None <-> p_want p x = None.
Proof.
  unfold sched_init_edge. destruct (p_want p e) as [[| |]|] eqn:Ew; try reflexivity.
  destruct (all_inputs_ready g p e); [|reflexivity].
  destruct (Nat.eqb (depth g (pool g e)) 0); psimpl;
    (unfold upd; destruct (Nat.eqb_spec x e) as [->|Hne]; [|reflexivity]; rewrite Ew; split; discriminate).
Qed.

Lemma sched_init_fold sn : wf_snap sn -> forall l1 l2, all_edges g = l1 ++ l2 ->
  let p := fold_left (fun pp e => sched_init_edge g e pp) l1 (snap_plan sn) in
  pinv QF l2 [] [] p /\ (forall x, In x (sched p [] []) -> In x l1) /\ nothing_blocked p /\
  p_commands p = sn_commands sn /\
  (forall x, is_wanted (p_want p) x = is_wanted (sn_want sn) x).
Proof.
  intros Hws l1. induction l1 as [|e l1 IH] using rev_ind; intros l2 Hall.
  - cbn [fold_left app] in *. rewrite <- Hall. split; [apply snap_plan_pinv; exact Hws|].
    split; [intros x []|]. split; [|split; [reflexivity|intros x; reflexivity]].
    intros x Hx. unfold snap_plan in *. psimpl. apply (ws_nothing sn Hws). exact Hx.
  - rewrite fold_left_app. cbn [fold_left]. rewrite <- app_assoc in Hall. cbn [app] in Hall.
    destruct (IH (e :: l2) Hall) as [HI [Hsub [Hnb [Hcmd Hisw]]]]. clear IH.
    set (p := fold_left (fun pp e0 => sched_init_edge g e0 pp) l1 (snap_plan sn)) in *.
    assert (Hnd : NoDup (l1 ++ e :: l2)) by (rewrite <- Hall; apply all_edges_nodup).
    assert (He1 : ~ In e l1).
    { apply NoDup_app_iff in Hnd. destruct Hnd as [_ [_ Hd]]. intros H. apply (Hd e H). left. reflexivity. }
    assert (He2 : ~ In e l2).
    { apply NoDup_app_iff in Hnd. destruct Hnd as [_ [Hd _]]. inversion Hd; assumption. }
    assert (Hsub' : forall p', (forall x, In x (sched p' [] []) -> x = e \/ In x (sched p [] [])) ->
                         forall x, In x (sched p' [] []) -> In x (l1 ++ [e])).
    { intros p' H x Hx. apply in_or_app. destruct (H x Hx) as [->|H']; [right; left; reflexivity|left; apply Hsub; exact H']. }
    unfold sched_init_edge.
    destruct (p_want p e) as [[| |]|] eqn:Ew.
    + split; [apply (pinv_drop _ e); [exact HI| |]; intros H1 H2; [congruence|]; rewrite (Hnb e H1) in H2; discriminate|].
      split; [intros x Hx; apply in_or_app; left; apply Hsub; exact Hx|]. split; [exact Hnb|split; assumption].
    + destruct (all_inputs_ready g p e) eqn:Ea.
      * destruct (Nat.eqb_spec (depth g (pool g e)) 0) as [Hz|Hnz].
        -- pose proof (pinv_schedule_pure QF l2 [] [] p e true HI Ew Ea Hz) as H.
           split; [eapply pinv_weaken; [| |exact H]; [intros q []|intros x Hx; exact Hx]|].
           split.
           { apply Hsub'. intros x Hx. unfold sched in *. psimpl. cbn [app] in *. rewrite app_nil_r in *.
             destruct Hx as [<-|Hx]; [left; reflexivity|right; exact Hx]. }
           split.
           { intros x Hx. psimpl. unfold upd in Hx. destruct (Nat.eqb_spec x e) as [Heq|Hne]; [discriminate Hx|].
             apply Hnb. exact Hx. }
           split; [exact Hcmd|]. intros x. rewrite <- Hisw. unfold is_wanted. psimpl. unfold upd.
           destruct (Nat.eqb_spec x e) as [->|Hne]; [rewrite Ew; reflexivity|reflexivity].
        -- assert (Hpos : 0 < depth g (pool g e)) by lia.
           pose proof (pinv_schedule_pure QF l2 [] [] p e false HI Ew Ea Hpos) as H.
           split; [eapply pinv_weaken; [| |exact H]; [intros q []|intros x Hx; exact Hx]|].
           split.
           { apply Hsub'. intros x Hx. unfold sched in *. psimpl. cbn [app] in *. rewrite app_nil_r in *.
             apply in_app_or in Hx. destruct Hx as [Hx|[<-|Hx]]; [right; apply in_or_app; left; exact Hx|left; reflexivity|right; apply in_or_app; right; exact Hx]. }
           split.
           { intros x Hx. psimpl. unfold upd in Hx. destruct (Nat.eqb_spec x e) as [Heq|Hne]; [discriminate Hx|].
             apply Hnb. exact Hx. }
           split; [exact Hcmd|]. intros x. rewrite <- Hisw. unfold is_wanted. psimpl. unfold upd.
           destruct (Nat.eqb_spec x e) as [->|Hne]; [rewrite Ew; reflexivity|reflexivity].
      * split; [apply (pinv_drop _ e); [exact HI| |]; intros H1 H2; congruence|].
        split; [intros x Hx; apply in_or_app; left; apply Hsub; exact Hx|]. split; [exact Hnb|split; assumption].
    + split; [apply (pinv_drop _ e); [exact HI| |]; intros H1 H2; congruence|].
      split; [intros x Hx; apply in_or_app; left; apply Hsub; exact Hx|]. split; [exact Hnb|split; assumption].
    + split; [apply (pinv_drop _ e); [exact HI| |]; intros H1 H2; congruence|].
      split; [intros x Hx; apply in_or_app; left; apply Hsub; exact Hx|]. split; [exact Hnb|split; assumption].
Qed.

Lemma retrieve_fold_pinv prio : forall l (Q : nat -> Prop) p,
  pinv Q [] [] [] p ->
  pinv (fun r => Q r \/ In r l) [] [] [] (fold_left (fun pp q => retrieve g prio q pp) l p).
Proof.
  induction l as [|q l IH]; intros Q p HI; cbn [fold_left].
  - eapply pinv_weaken; [| |exact HI]; [intros r [H|[]] _; exact H|intros x Hx; exact Hx].
  - pose proof (IH _ _ (retrieve_pinv Q [] [] [] p prio q HI)) as H.
    eapply pinv_weaken; [| |exact H]; [|intros x Hx; exact Hx].
    intros r [Hr|[<-|Hr]] _; [left; left; exact Hr|left; right; reflexivity|right; exact Hr].
Qed.

Lemma fold_retrieve_keeps prio : forall l p,
  let p' := fold_left (fun pp q => retrieve g prio q pp) l p in
  p_want p' = p_want p /\ p_commands p' = p_commands p.
Proof.
  induction l as [|q l IH]; intros p; cbn [fold_left]; [split; reflexivity|].
  destruct (IH (retrieve g prio q p)) as [H1 H2]. rewrite H1, H2, retrieve_want, retrieve_commands.
  split; reflexivity.
Qed.

Lemma schedule_initial_pinv prio sn : wf_snap sn ->
  let p := schedule_initial_plan g prio (snap_plan sn) in
  pinv QT [] [] [] p /\ p_commands p = sn_commands sn /\
  (forall x, is_wanted (p_want p) x = is_wanted (sn_want sn) x).
Proof.
  intros Hws. unfold schedule_initial_plan.
  destruct (sched_init_fold sn Hws (all_edges g) [] (eq_sym (app_nil_r _))) as [HI [_ [_ [Hc Hw]]]].
  set (p1 := fold_left (fun pp e => sched_init_edge g e pp) (all_edges g) (snap_plan sn)) in *.
  destruct (fold_retrieve_keeps prio (seq 0 (length (g_depths g))) p1) as [K1 K2].
  split; [|split; [rewrite K2; exact Hc|intros x; unfold is_wanted in *; rewrite K1; apply Hw]].
  pose proof (retrieve_fold_pinv prio (seq 0 (length (g_depths g))) QF p1 HI) as H.
  refine (QT_weaken _ _ _ _ _ _ H). intros q Hq. right. apply in_seq.
  unfold depth in Hq. destruct (lt_dec q (length (g_depths g))) as [Hlt|Hge]; [lia|].
  rewrite nth_overflow in Hq by lia. lia.
Qed.

(* ------------------------------------------------------------------ how want_/outputs_ready_ evolve *)
Lemma count_same (f f' : nat -> bool) l : (forall x, In x l -> f' x = f x) -> count_if f' l = count_if f l.
Proof. intros H. unfold count_if. f_equal. apply filter_ext_in. exact H. Qed.

Lemma npwf_same w w' : (forall x, is_wanted w' x = is_wanted w x) -> npwf g w' = npwf g w.
Proof. intros H. unfold npwf. apply count_same. intros x _. rewrite H. reflexivity. Qed.

(* judged up to date by the re-scan after a dyndep load / inserted into want_ as kWantNothing by it *)
Definition LRd (x : nat) : Prop := exists e L, loads e = Some L /\ In x (ld_ready L).
Definition LAn (x : nat) : Prop := exists e L, loads e = Some L /\ In (x, false) (ld_added L).

Record evolf (w : nat -> option want_t) (o : nat -> bool) (c : nat) (p' : plan) : Prop := {
  ev_mono : forall x, o x = true -> p_oready p' x = true;
  ev_oready : forall x, p_oready p' x = true -> o x = true \/ w x = Some WNothing \/ LRd x \/ LAn x;
  ev_nothing : forall x, p_want p' x = Some WNothing -> w x = Some WNothing \/ LAn x;
  ev_balance : p_commands p' + npwf g w = c + npwf g (p_want p');
  ev_undone : forall x, p_oready p' x = false \/ p_want p' x <> None -> o x = false \/ w x <> None;
  ev_range : forall x, p_want p' x <> None -> w x <> None \/ x < n_edges g;
  ev_cmd_le : c <= p_commands p' }.

Definition evol (p p' : plan) : Prop := evolf (p_want p) (p_oready p) (p_commands p) p'.

Lemma evol_refl p : evol p p.
Proof.
  constructor.
  - intros x H. exact H.
  - intros x H. left. exact H.
  - intros x H. left. exact H.
  - reflexivity.
  - intros x H. exact H.
  - intros x H. left. exact H.
  - apply le_n.
Qed.

Lemma evolf_self w o c p : p_want p = w -> p_oready p = o -> p_commands p = c -> evolf w o c p.
Proof. intros <- <- <-. apply evol_refl. Qed.

Lemma evolf_trans w o c p1 p2 : evolf w o c p1 -> evol p1 p2 -> evolf w o c p2.
Proof.
  intros [A1 A2 A3 A4 A5 A6 A7] [B1 B2 B3 B4 B5 B6 B7]. constructor.
  - intros x Hx. apply B1. apply A1. exact Hx.
  - intros x Hx. destruct (B2 x Hx) as [H|[H|[H|H]]].
    + apply A2. exact H.
    + destruct (A3 x H) as [H'|H']; [right; left; exact H'|right; right; right; exact H'].
    + right. right. left. exact H.
    + right. right. right. exact H.
  - intros x Hx. destruct (B3 x Hx) as [H|H]; [apply A3; exact H|right; exact H].
  - lia.
  - intros x Hx. apply A5. apply B5. exact Hx.
  - intros x Hx. destruct (B6 x Hx) as [H|H]; [apply A6; exact H|right; exact H].
  - lia.
Qed.

Lemma evol_trans p1 p2 p3 : evol p1 p2 -> evol p2 p3 -> evol p1 p3.
Proof. apply evolf_trans. Qed.

Lemma evolf_fields w o c p1 p2 : evolf w o c p1 ->
  p_want p2 = p_want p1 -> p_oready p2 = p_oready p1 -> p_commands p2 = p_commands p1 ->
  evolf w o c p2.
Proof.
  intros [A1 A2 A3 A4 A5 A6 A7] E1 E2 E3. constructor; try rewrite E1; try rewrite E2; try rewrite E3; assumption.
Qed.

Lemma retrieve_evolf w o c prio q p : evolf w o c p -> evolf w o c (retrieve g prio q p).
Proof.
  intros H. apply (evolf_fields _ _ _ _ _ H); [apply retrieve_want|apply retrieve_oready|apply retrieve_commands].
Qed.

(* a want_ entry changes without changing whether the edge is wanted, or the edge is checked off *)
Lemma evol_upd p d v o' :
  p_want p d <> None -> is_wanted (upd (p_want p) d v) d = is_wanted (p_want p) d ->
  (v = Some WNothing -> p_want p d = Some WNothing) ->
  (forall x, p_oready p x = true -> o' x = true) ->
  (forall x, o' x = true -> p_oready p x = true \/ (x = d /\ p_want p d = Some WNothing)) ->
  (v <> None \/ o' d = true) ->
  evol p (set_oready (set_want p (upd (p_want p) d v)) o').
Proof.
  intros Hd Hiw Hv Hm Ho Hu. constructor; psimpl.
  - exact Hm.
  - intros x Hx. destruct (Ho x Hx) as [H|[-> H]]; [left; exact H|right; left; exact H].
  - intros x Hx. destruct (Nat.eq_dec x d) as [Heq|Hne].
    + left. subst x. rewrite upd_same in Hx. apply Hv. exact Hx.
    + left. rewrite upd_other in Hx by exact Hne. exact Hx.
  - rewrite (npwf_same (p_want p) (upd (p_want p) d v)); [reflexivity|].
    intros x. destruct (Nat.eq_dec x d) as [Heq|Hne]; [subst x; exact Hiw|].
    unfold is_wanted. rewrite upd_other by exact Hne. reflexivity.
  - intros x [H|H].
    + left. destruct (p_oready p x) eqn:E; [|reflexivity]. rewrite (Hm x E) in H. discriminate.
    + destruct (Nat.eq_dec x d) as [Heq|Hne]; [subst x; right; exact Hd|].
      rewrite upd_other in H by exact Hne. right. exact H.
  - intros x Hx. left. destruct (Nat.eq_dec x d) as [Heq|Hne]; [subst x; exact Hd|].
    rewrite upd_other in Hx by exact Hne. exact Hx.
  - apply le_n.
Qed.

Lemma schedule_work_evol prio d p p' : schedule_work g prio d p = Ok p' -> evol p p'.
Proof.
  unfold schedule_work. destruct (p_want p d) as [[| |]|] eqn:Ew; try discriminate.
  - assert (H : evol p (set_oready (set_want p (upd (p_want p) d (Some WToFinish))) (p_oready p))).
    { apply evol_upd.
      - congruence.
      - unfold is_wanted. rewrite upd_same, Ew. reflexivity.
      - discriminate.
      - intros x Hx. exact Hx.
      - intros x Hx. left. exact Hx.
      - left. discriminate. }
    destruct (Nat.eqb (depth g (pool g d)) 0); intros H'; injection H' as <-.
    + apply (evolf_fields _ _ _ _ _ H); reflexivity.
    + apply retrieve_evolf. apply (evolf_fields _ _ _ _ _ H); reflexivity.
  - intros H. injection H as <-. apply evol_refl.
Qed.

Lemma count_le (f f' : nat -> bool) l : (forall x, f' x = true -> f x = true) -> count_if f' l <= count_if f l.
Proof.
  intros H. unfold count_if. induction l as [|x l IH]; cbn [filter]; [lia|].
  destruct (f' x) eqn:E'; [rewrite (H x E'); cbn [length]; lia|].
  destruct (f x); cbn [length]; lia.
Qed.

Lemma apply_load_evol e p p5 walk : pinv QT [] [] [] p \/ True ->
  (forall x, p_want p x <> None -> x < n_edges g) ->
  apply_load g loads e p = Ok (p5, walk) -> evol p p5.
Proof.
  intros _ Hr Hl. destruct (apply_load_cases e p p5 walk Hl) as [[_ [-> _]]|[_ [HK [L [HL [_ [C1 _]]]]]]].
  - apply evol_refl.
  - destruct HK as [K1 K2 K3 K4 K5 K6 K7].
    unfold chk_evol in C1. apply andb_true_iff in C1. destruct C1 as [C1 Cle].
    apply andb_true_iff in C1. destruct C1 as [C1 Cc].
    apply andb_true_iff in C1. destruct C1 as [C1 Cw]. apply Nat.eqb_eq in Cc. apply Nat.leb_le in Cle.
    assert (Hx3 : forall x, x < n_edges g ->
      (match p_want p x, p_want p5 x with
       | None, None => true
       | Some a, Some b => want_eqb a b || (want_eqb a WNothing && want_eqb b WToStart)
       | None, Some b => negb (want_eqb b WToFinish) && negb (p_oready p5 x)
                         && (want_eqb b WToStart || existsb (fun a => Nat.eqb (fst a) x && negb (snd a)) (ld_added L))
       | Some _, None => false
       end = true) /\
      (negb (p_oready p5 x) || p_oready p x || is_nothing (p_want p x) || memb x (ld_ready L) = true)).
    { intros x Hx. pose proof (forallb_all_edges _ C1 x Hx) as H. cbn beta in H.
      apply andb_true_iff in H. destruct H as [H H3]. apply andb_true_iff in H. destruct H as [H1 _].
      split; assumption. }
    constructor.
    + exact K6.
    + intros x Hx. destruct (lt_dec x (n_edges g)) as [Hxn|Hxn].
      * destruct (Hx3 x Hxn) as [_ H]. rewrite Hx in H. cbn [negb orb] in H.
        apply orb_true_iff in H. destruct H as [H|H].
        -- apply orb_true_iff in H. destruct H as [H|H]; [left; exact H|right; left; apply is_nothing_eq; exact H].
        -- right. right. left. exists e, L. split; [exact HL|apply memb_In; exact H].
      * left. destruct (K7 x) as [_ H]; [lia|]. rewrite <- H. exact Hx.
    + intros x Hx. destruct (lt_dec x (n_edges g)) as [Hxn|Hxn].
      * destruct (Hx3 x Hxn) as [H _]. rewrite Hx in H. destruct (p_want p x) as [a|].
        -- left. destruct a; cbn in H; try discriminate. reflexivity.
        -- right. cbn [want_eqb negb andb orb] in H. apply andb_true_iff in H. destruct H as [_ H].
           apply existsb_exists in H. destruct H as [[y b] [Hy H]]. cbn [fst snd] in H.
           apply andb_true_iff in H. destruct H as [H1 H2]. apply Nat.eqb_eq in H1. subst y.
           destruct b; [discriminate|]. exists e, L. split; assumption.
      * left. destruct (K7 x) as [H _]; [lia|]. rewrite <- H. exact Hx.
    + exact Cc.
    + intros x [Hx|Hx].
      * left. destruct (p_oready p x) eqn:E; [|reflexivity]. rewrite (K6 x E) in Hx. discriminate.
      * destruct (lt_dec x (n_edges g)) as [Hxn|Hxn].
        -- destruct (Hx3 x Hxn) as [H _]. destruct (p_want p x) as [a|]; [right; discriminate|].
           destruct (p_want p5 x) as [b|]; [|congruence]. left.
           apply andb_true_iff in H. destruct H as [H _]. apply andb_true_iff in H. destruct H as [_ H].
           apply negb_true_iff in H. destruct (p_oready p x) eqn:E; [|reflexivity]. rewrite (K6 x E) in H. discriminate.
        -- right. destruct (K7 x) as [H _]; [lia|]. rewrite <- H. exact Hx.
    + intros x Hx. destruct (lt_dec x (n_edges g)) as [Hxn|Hxn]; [right; exact Hxn|].
      left. destruct (K7 x) as [H _]; [lia|]. rewrite <- H. exact Hx.
    + exact Cle.
Qed.

Definition rec_evol (fuel : nat) : Prop :=
  forall prio d p p', (forall x, p_want p x <> None -> x < n_edges g) -> p_want p d = Some WNothing ->
    edge_finished fuel g cfg prio loads d true false p = Ok p' -> evol p p'.
Definition fold_evol (fuel : nat) : Prop :=
  forall prio l p p', (forall x, p_want p x <> None -> x < n_edges g) ->
    fold_res (visit fuel prio) l p = Ok p' -> evol p p'.

Lemma evol_range p p' : evol p p' -> (forall x, p_want p x <> None -> x < n_edges g) ->
  forall x, p_want p' x <> None -> x < n_edges g.
Proof. intros He Hr x Hx. destruct (ev_range _ _ _ _ He x Hx) as [H|H]; [apply Hr; exact H|exact H]. Qed.

Lemma fold_evol_of_rec fuel : rec_evol fuel -> fold_evol fuel.
Proof.
  intros Hrec prio l. induction l as [|d l IH]; intros p p' Hr Hf; cbn [fold_res] in Hf.
  - injection Hf as <-. apply evol_refl.
  - destruct (visit fuel prio d p) as [p1| |] eqn:Ev; try discriminate.
    assert (He : evol p p1).
    { unfold visit in Ev. destruct (p_want p d) as [wd|] eqn:Ewd; [|injection Ev as <-; apply evol_refl].
      destruct (all_inputs_ready g p d); [|injection Ev as <-; apply evol_refl].
      destruct wd; cbn [want_eqb] in Ev.
      + apply (Hrec prio d p p1 Hr Ewd Ev).
      + apply (schedule_work_evol prio d p p1 Ev).
      + apply (schedule_work_evol prio d p p1 Ev). }
    apply (evol_trans p p1 p'); [exact He|]. apply IH; [apply (evol_range p p1 He Hr)|exact Hf].
Qed.

Lemma after_done_evol fuel prio e p4 p' : fold_evol fuel ->
  (forall x, p_want p4 x <> None -> x < n_edges g) ->
  after_done fuel prio e p4 = Ok p' -> evol p4 p'.
Proof.
  intros Hfold Hr H. unfold after_done in H.
  destruct (apply_load g loads e p4) as [[p5 walk]| |] eqn:El; try discriminate.
  pose proof (apply_load_evol e p4 p5 walk (or_intror I) Hr El) as He.
  apply (evol_trans p4 p5 p'); [exact He|]. apply (Hfold prio (walk ++ cons_at g p5 e) p5 p'); [apply (evol_range p4 p5 He Hr)|exact H].
Qed.

Lemma rec_evol_of_fold fuel : fold_evol fuel -> rec_evol (S fuel).
Proof.
  intros Hfold prio d p p' Hr Hw Hef. rewrite (ef_nothing_eq fuel prio d p Hw) in Hef.
  set (pm := mkPlan _ _ _ _ _ _ _ _ _) in Hef.
  assert (Hm : evol p pm).
  { apply (evolf_fields _ _ _ (set_oready (set_want p (upd (p_want p) d None)) (upd (p_oready p) d true))); try reflexivity.
    apply evol_upd.
    - congruence.
    - unfold is_wanted. rewrite upd_same, Hw. reflexivity.
    - discriminate.
    - intros x Hx. unfold upd. destruct (Nat.eqb x d); [reflexivity|exact Hx].
    - intros x. unfold upd. destruct (Nat.eqb_spec x d) as [->|Hne]; [intros _; right; split; [reflexivity|exact Hw]|intros H; left; exact H].
    - right. apply upd_same. }
  assert (Hm' : evol p (retrieve g prio (pool g d) pm)) by (apply retrieve_evolf; exact Hm).
  apply (evol_trans p _ p' Hm').
  apply (after_done_evol fuel prio d _ p' Hfold); [apply (evol_range p _ Hm' Hr)|exact Hef].
Qed.

Lemma ef_evol_all fuel : rec_evol fuel /\ fold_evol fuel.
Proof.
  induction fuel as [|fuel [IH1 IH2]].
  - assert (H0 : rec_evol 0) by (intros prio d p p' _ _ H; discriminate H).
    split; [exact H0|apply fold_evol_of_rec; exact H0].
  - pose proof (rec_evol_of_fold fuel IH2) as H. split; [exact H|apply fold_evol_of_rec; exact H].
Qed.

Lemma ef_top_evol fuel prio e succ p p' w :
  (forall x, p_want p x <> None -> x < n_edges g) -> p_want p e = Some w -> w <> WNothing ->
  edge_finished fuel g cfg prio loads e succ true p = Ok p' ->
  if succ then evolf (upd (p_want p) e None) (upd (p_oready p) e true) (p_commands p) p'
  else evol p p'.
Proof.
  intros Hr Hw Hn Hef. destruct fuel as [|fuel]; [discriminate Hef|].
  rewrite (ef_top_eq fuel prio e succ p w Hw Hn) in Hef.
  destruct (rel_use p (pool g e)) as [u|]; [|discriminate].
  destruct (rel_tok p) as [t|]; [|discriminate].
  destruct succ; cbn [negb] in Hef.
  - destruct (p_wanted p) as [|n]; [discriminate|].
    destruct (ef_evol_all fuel) as [_ Hfold].
    set (pm := mkPlan _ _ _ _ _ _ _ _ _) in Hef.
    assert (Hm : evolf (upd (p_want p) e None) (upd (p_oready p) e true) (p_commands p) pm).
    { apply evolf_self; reflexivity. }
    assert (Hrm : forall x, p_want (retrieve g prio (pool g e) pm) x <> None -> x < n_edges g).
    { intros x. rewrite retrieve_want. unfold pm. psimpl. unfold upd. destruct (Nat.eqb x e); [congruence|apply Hr]. }
    refine (evolf_trans _ _ _ _ _ (retrieve_evolf _ _ _ prio (pool g e) pm Hm) _).
    apply (after_done_evol fuel prio e _ p' Hfold Hrm Hef).
  - injection Hef as <-. apply retrieve_evolf. apply evolf_self; reflexivity.
Qed.

Lemma ef_top_failure_fields fuel prio e p p' w : p_want p e = Some w -> w <> WNothing ->
  edge_finished fuel g cfg prio loads e false true p = Ok p' ->
  p_commands p' = p_commands p /\ p_want p' = p_want p /\ p_oready p' = p_oready p.
Proof.
  intros Hw Hn Hef. destruct fuel as [|fuel]; [discriminate Hef|].
  rewrite (ef_top_eq fuel prio e false p w Hw Hn) in Hef.
  destruct (rel_use p (pool g e)) as [u|]; [|discriminate].
  destruct (rel_tok p) as [t|]; [|discriminate]. cbn [negb] in Hef. injection Hef as <-.
  rewrite retrieve_commands, retrieve_want, retrieve_oready. repeat split.
Qed.

(* between the calls of EdgeFinished nothing is exempt and no clean dependent waits to be checked off:
   the invariant has its strict form *)
Lemma no_Z A F p : pinv QT [] A F p -> forall z, ~ Zp p z.
Proof.
  intros HI. assert (H : forall n z, rank z < n -> ~ Zp p z).
  { induction n as [|n IH]; intros z Hz [Ho Hw]; [lia|].
    pose proof (pi_oready_closed _ _ _ _ _ HI z Ho) as Ha.
    destruct (pi_nothing _ _ _ _ _ HI z Hw Ha) as [[]|[i [Hi Hzi]]].
    apply (IH i); [|exact Hzi]. pose proof (wg_rank_at g rank p z i Hwf Hi). lia. }
  intros z. apply (H (S (rank z))). lia.
Qed.

Lemma pinv_top_oready A F p : pinv QT [] A F p -> forall e, p_oready p e = true -> p_want p e = None.
Proof.
  intros HI e He. destruct (pi_oready _ _ _ _ _ HI e He) as [H|H]; [exact H|].
  exfalso. apply (no_Z A F p HI e). split; assumption.
Qed.

Lemma pinv_top_tostart A F p : pinv QT [] A F p -> forall e, p_want p e = Some WToStart ->
  all_inputs_ready g p e = true -> False.
Proof.
  intros HI e Hw Ha. destruct (pi_tostart _ _ _ _ _ HI e Hw Ha) as [H|[[]|[i [_ Hz]]]].
  - rewrite (pi_sched_f _ _ _ _ _ HI e H) in Hw. discriminate.
  - apply (no_Z A F p HI i Hz).
Qed.

Lemma pinv_top_nothing A F p : pinv QT [] A F p -> forall e, p_want p e = Some WNothing ->
  all_inputs_ready g p e = true -> False.
Proof.
  intros HI e Hw Ha. destruct (pi_nothing _ _ _ _ _ HI e Hw Ha) as [[]|[i [_ Hz]]].
  apply (no_Z A F p HI i Hz).
Qed.

(* ------------------------------------------------------------------ the state invariant *)
Hypothesis Hk : 0 < c_k cfg.
Hypothesis Hj : 0 < c_j cfg.

Lemma count_flip (f f' : nat -> bool) d l : NoDup l -> In d l -> f d = true -> f' d = false ->
  (forall x, x <> d -> f' x = f x) -> count_if f l = S (count_if f' l).
Proof.
  intros Hnd Hin H1 H2 H3. unfold count_if.
  induction Hnd as [|x l Hx Hl IH]; [destruct Hin|].
  cbn [filter]. destruct Hin as [->|Hin].
  - rewrite H1, H2. cbn [length]. f_equal. f_equal. apply filter_ext_in. intros y Hy.
    symmetry. apply H3. intros ->. exact (Hx Hy).
  - assert (x <> d) by (intros ->; exact (Hx Hin)). rewrite (H3 x) by assumption.
    destruct (f x); cbn [length]; rewrite (IH Hin); reflexivity.
Qed.

Lemma count_pos_ex (f : nat -> bool) l : 0 < count_if f l -> exists x, In x l /\ f x = true.
Proof.
  unfold count_if. induction l as [|x l IH]; cbn [filter length]; [lia|].
  destruct (f x) eqn:E.
  - intros _. exists x. split; [left; reflexivity|exact E].
  - intros H. destruct (IH H) as [y [Hy Hf]]. exists y. split; [right; exact Hy|exact Hf].
Qed.

Lemma count_ge_one (f : nat -> bool) l x : In x l -> f x = true -> 1 <= count_if f l.
Proof.
  intros Hin Hf. unfold count_if.
  assert (H : In x (filter f l)) by (apply filter_In; split; assumption).
  destruct (filter f l); [destruct H|cbn [length]; lia].
Qed.

Definition npw (p : plan) : nat := npwf g (p_want p).

Record core (s : state) : Prop := {
  co_pinv : pinv QT [] (s_running s) (s_failed s) (s_plan s);
  co_pending : s_pending s = length (s_running s);
  co_nophony : forall e, In e (s_running s ++ s_failed s) -> phony g e = false;
  co_commands : p_commands (s_plan s) + length (s_failed s) = npw (s_plan s) + s_finished s;
  co_total : s_total s = p_commands (s_plan s);
  co_started : s_started s = s_finished s + length (s_running s);
  co_fin_failed : length (s_failed s) <= s_finished s;
  co_fa : s_fa s <= c_k cfg;
  co_fa_k : s_fa s = c_k cfg -> s_failed s = [];
  co_exit0 : s_failed s = [] -> s_exit s = 0;
  co_exit1 : s_failed s <> [] -> s_exit s <> 0;
  co_j : length (s_running s) <= c_j cfg;
  co_tok : match c_jobserver cfg with Some n => p_tokens (s_plan s) <= S n | None => True end;
  co_waiting : s_waiting s = true -> s_running s <> [] }.

Record lim (s : state) : Prop := {
  li_j : length (s_running s) <= c_j cfg;
  li_pool : forall q, 0 < depth g q -> cnt g q (s_running s) <= depth g q;
  li_tok : match c_jobserver cfg with Some n => length (s_running s) <= S n | None => True end }.

Definition sinv (s : state) : Prop := (s_phase s = PhBuild -> core s) /\ lim s.

Lemma core_lim s : core s -> lim s.
Proof.
  intros C. constructor.
  - exact (co_j s C).
  - intros q Hq. destruct (pi_use _ _ _ _ _ (co_pinv s C) q Hq) as [H1 H2]. lia.
  - pose proof (co_tok s C) as H. pose proof (pi_tokens _ _ _ _ _ (co_pinv s C)) as Ht.
    destruct (c_jobserver cfg); [|exact I]. lia.
Qed.

Ltac peel G H := apply andb_true_iff in G; destruct G as [G H].

(* FindWork pops e *)
Lemma start_pop_pinv p U F e : pinv QT [] U F p -> In e (p_ready p) ->
  pinv QT [] (e :: U) F
    (match c_jobserver cfg with
     | None => set_ready p (rem e (p_ready p))
     | Some _ => set_tokens (set_ready p (rem e (p_ready p))) (S (p_tokens (set_ready p (rem e (p_ready p)))))
     end).
Proof.
  intros HI Hin. pose proof (pinv_nodup_R _ _ _ _ _ HI) as HndR.
  pose proof HI as [I1 I2 I3 I4 I5 I6 I7 I8 I9 I10 I11 I12 I13 I14 I15 I16].
  assert (H : forall t, t = tok (e :: U) ->
    pinv QT [] (e :: U) F (mkPlan (p_want p) (rem e (p_ready p)) (p_delayed p) (p_use p) (p_wanted p)
                                  (p_commands p) (p_oready p) t (p_loaded p))).
  { intros t Ht. apply (pinv_reshape QT QT [] U F (e :: U) F (rem e (p_ready p)) (p_use p) t p HI).
    - unfold sched. rewrite (rem_perm e (p_ready p) HndR Hin) at 2. cbn [app].
      rewrite (Permutation_middle (rem e (p_ready p))). apply Permutation_app_head.
      rewrite (Permutation_middle (p_delayed p)). apply Permutation_app_head. reflexivity.
    - intros q Hq. destruct (I11 q Hq) as [H1 H2]. split; [|exact H2].
      rewrite H1. rewrite (cnt_rem g q e (p_ready p) HndR Hin). rewrite (cnt_cons g q e U). lia.
    - intros q _ Hq Hd. apply I12; [exact I|exact Hq|exact Hd].
    - exact Ht. }
  unfold tok in H. unfold tok in I15. destruct (c_jobserver cfg).
  - apply H. unfold set_tokens, set_ready. psimpl. rewrite I15. reflexivity.
  - specialize (H (p_tokens p) I15). destruct p. exact H.
Qed.

Lemma pinv_set_commands (Q : nat -> Prop) X A F p c : pinv Q X A F p -> pinv Q X A F (set_commands p c).
Proof. intros [I1 I2 I3 I4 I5 I6 I7 I8 I9 I10 I11 I12 I13 I14 I15 I16]. constructor; assumption. Qed.

(* CleanNode: kWantToStart -> kWantNothing *)
Lemma pinv_prune_pure A F p e w :
  pinv QT [] A F p -> p_want p e = Some WToStart ->
  all_inputs_ready g p e = false -> p_wanted p = S w ->
  pinv QT [] A F (set_wanted (set_want p (upd (p_want p) e (Some WNothing))) w).
Proof.
  intros [I1 I2 I3 I4 I5 I6 I7 I8 I9 I10 I11 I12 I13 I14 I15 I16] Hw Ha Hwd.
  assert (Hns : ~ In e (sched p A F)) by (intros Hin; rewrite (I16 e Hin) in Hw; discriminate).
  set (p' := set_wanted _ _).
  assert (Hwant : forall x, x <> e -> p_want p' x = p_want p x) by (intros x Hx; unfold p'; psimpl; apply upd_other; exact Hx).
  assert (Hwe : p_want p' e = Some WNothing) by (unfold p'; psimpl; apply upd_same).
  assert (Hair : forall x, all_inputs_ready g p' x = all_inputs_ready g p x) by reflexivity.
  assert (Hs : sched p' A F = sched p A F) by reflexivity.
  assert (Hz : forall x, zprod p x -> zprod p' x).
  { intros x [i [Hi [Ho Hwi]]]. exists i. split; [exact Hi|]. split; [exact Ho|].
    rewrite Hwant; [exact Hwi|]. intros ->. congruence. }
  constructor; try rewrite Hs; try assumption.
  - intros x Hx. destruct (I2 x Hx) as [H1 H2]. split; [|exact H2].
    unfold is_wanted. rewrite Hwant; [exact H1|]. intros ->. exact (Hns Hx).
  - intros x Hx. destruct (Nat.eq_dec x e) as [->|Hne]; [congruence|]. rewrite Hwant in Hx by exact Hne. apply I3. exact Hx.
  - intros x Hx Hax. destruct (Nat.eq_dec x e) as [->|Hne]; [congruence|]. rewrite Hwant in Hx by exact Hne.
    destruct (I4 x Hx Hax) as [H|[H|H]]; [left; exact H|right; left; exact H|right; right; apply Hz; exact H].
  - intros x Hx Hax. destruct (Nat.eq_dec x e) as [->|Hne]; [rewrite Hair in Hax; congruence|].
    rewrite Hwant in Hx by exact Hne. destruct (I5 x Hx Hax) as [H|H]; [left; exact H|right; apply Hz; exact H].
  - intros x [].
  - intros x Hx. destruct (Nat.eq_dec x e) as [->|Hne].
    + change (p_oready p e = true) in Hx. destruct (I7 e Hx) as [H|H]; rewrite H in Hw; discriminate.
    + rewrite Hwant by exact Hne. apply I7. exact Hx.
  - intros x i Hx Hi Ho.
    assert (Hx' : p_want p x <> None) by (destruct (Nat.eq_dec x e) as [->|Hne]; [congruence|rewrite <- Hwant by exact Hne; exact Hx]).
    pose proof (I9 x i Hx' Hi Ho) as H. destruct (Nat.eq_dec i e) as [->|Hne]; [congruence|]. rewrite Hwant by exact Hne. exact H.
  - intros x Hx. apply I10. destruct (Nat.eq_dec x e) as [->|Hne]; [congruence|rewrite <- Hwant by exact Hne; exact Hx].
  - unfold p'. psimpl.
    assert (Hlt : e < n_edges g) by (apply I10; congruence).
    pose proof (count_if_flip (p_want p) e (Some WNothing) (all_edges g) all_edges_nodup (all_edges_in e Hlt)) as Hc.
    unfold is_wanted in Hc at 1 2. rewrite Hw, upd_same in Hc. specialize (Hc eq_refl eq_refl).
    rewrite <- I14, Hwd in Hc. injection Hc as Hc. exact Hc.
  - intros x Hx. rewrite Hwant; [apply I16; exact Hx|]. intros ->. exact (Hns Hx).
Qed.

Lemma npwf_erase w e : e < n_edges g -> is_wanted w e = true ->
  npwf g w = (if phony g e then 0 else 1) + npwf g (upd w e None).
Proof.
  intros Hlt Hw. unfold npwf. destruct (phony g e) eqn:Eph.
  - cbn [plus]. symmetry. apply count_same. intros x _. unfold is_wanted, upd.
    destruct (Nat.eqb_spec x e) as [->|Hne]; [rewrite Eph; cbn [negb]; rewrite !andb_false_r; reflexivity|reflexivity].
  - apply (count_flip _ _ e); [apply all_edges_nodup|apply all_edges_in; exact Hlt| | |].
    + rewrite Hw, Eph. reflexivity.
    + unfold is_wanted. rewrite upd_same. reflexivity.
    + intros x Hx. unfold is_wanted. rewrite upd_other by exact Hx. reflexivity.
Qed.

Lemma in_build_true s : in_build s = true -> s_phase s = PhBuild.
Proof. unfold in_build. destruct (s_phase s); [reflexivity|discriminate|discriminate]. Qed.

Lemma core_start s e prio s' : core s ->
  step_res g cfg loads s (EvStart e prio) = Ok s' -> core s' /\ s_phase s' = PhBuild.
Proof.
  intros C Hst. unfold step_res in Hst; cbn [step_res_gen] in Hst.
  destruct (in_build s && negb (s_waiting s) && more_to_do (s_plan s) && (0 <? s_fa s)
            && (0 <? capacity cfg s) && memb e (p_ready (s_plan s)) && token_ok cfg (s_plan s)) eqn:G;
    [|discriminate].
  peel G G2. peel G G0. peel G G1. peel G Gfa. peel G Gmore. peel G Gnw.
  apply in_build_true in G. apply memb_In in G0. apply Nat.ltb_lt in G1.
  pose proof (start_pop_pinv (s_plan s) (s_running s) (s_failed s) e (co_pinv s C) G0) as HP.
  set (p2 := match c_jobserver cfg with
             | None => set_ready (s_plan s) (rem e (p_ready (s_plan s)))
             | Some _ => _ end) in *.
  assert (Hp2c : p_commands p2 = p_commands (s_plan s)) by (unfold p2; destruct (c_jobserver cfg); reflexivity).
  assert (Hp2w : p_want p2 = p_want (s_plan s)) by (unfold p2; destruct (c_jobserver cfg); reflexivity).
  assert (Htok2 : match c_jobserver cfg with Some n => p_tokens p2 <= S n | None => True end).
  { unfold p2. unfold token_ok in G2. destruct (c_jobserver cfg); [|exact I].
    apply Nat.ltb_lt in G2. unfold set_tokens, set_ready. psimpl. lia. }
  unfold capacity in G1.
  destruct (phony g e) eqn:Eph.
  - destruct (edge_finished (plan_fuel g) g cfg prio loads e true true p2) as [p3| |] eqn:Eef; try discriminate.
    injection Hst as <-. split; [|exact G].
    pose proof (ef_top_success _ _ _ _ _ _ _ HP (or_introl eq_refl) Eef) as HP3.
    assert (Hne : ~ In e (s_running s)).
    { pose proof (pinv_nodup_A _ _ _ _ _ HP) as H. inversion H; assumption. }
    assert (Hrem : rem e (e :: s_running s) = s_running s).
    { cbn [rem]. rewrite Nat.eqb_refl. apply rem_notin. exact Hne. }
    rewrite Hrem in HP3.
    destruct (pi_sched _ _ _ _ _ HP e (in_sched_A p2 (e :: s_running s) (s_failed s) e (or_introl eq_refl))) as [Hw _].
    unfold is_wanted in Hw. destruct (p_want p2 e) as [w|] eqn:Ew; [|discriminate].
    assert (Hwn : w <> WNothing) by (intros ->; discriminate).
    pose proof (ef_top_evol _ _ _ true _ _ w (pi_range _ _ _ _ _ HP) Ew Hwn Eef) as Hev. cbn in Hev.
    assert (Hlt : e < n_edges g) by (apply (pi_range _ _ _ _ _ HP); congruence).
    assert (Hiw : is_wanted (p_want p2) e = true) by (unfold is_wanted; rewrite Ew; destruct w; [congruence|reflexivity|reflexivity]).
    pose proof (npwf_erase (p_want p2) e Hlt Hiw) as Hn. rewrite Eph in Hn. cbn [plus] in Hn.
    pose proof (ev_balance _ _ _ _ Hev) as Hb. pose proof (ev_cmd_le _ _ _ _ Hev) as Hle.
    destruct C as [C1 C2 C3 C4 C5 C6 C7 C8 C9 C10 C11 C12 C13 C14].
    unfold npw in *. rewrite Hp2w in *.
    constructor; cbn [s_plan s_running s_pending s_fa s_exit s_total s_started s_finished s_failed s_waiting s_phase]; try assumption.
    + unfold npw. lia.
    + lia.
    + pose proof (pi_tokens _ _ _ _ _ HP3) as Ht3. pose proof (pi_tokens _ _ _ _ _ C1) as Ht.
      destruct (c_jobserver cfg); [|exact I]. lia.
  - injection Hst as <-. split; [|exact G].
    destruct C as [C1 C2 C3 C4 C5 C6 C7 C8 C9 C10 C11 C12 C13 C14].
    constructor; cbn [s_plan s_running s_pending s_fa s_exit s_total s_started s_finished s_failed s_waiting s_phase]; try assumption.
    + cbn [length]. rewrite C2. reflexivity.
    + intros x Hx. cbn [app] in Hx. destruct Hx as [<-|Hx]; [exact Eph|apply C3; exact Hx].
    + rewrite Hp2c. unfold npw. rewrite Hp2w. exact C4.
    + rewrite Hp2c. exact C5.
    + cbn [length]. lia.
    + cbn [length]. lia.
    + discriminate.
Qed.

Lemma core_wait s s' : core s -> step_res g cfg loads s EvWait = Ok s' -> core s' /\ s_phase s' = PhBuild.
Proof.
  intros C Hst. unfold step_res in Hst; cbn [step_res_gen] in Hst.
  destruct (in_build s && negb (s_waiting s) && more_to_do (s_plan s) && (0 <? s_pending s)
            && negb (can_start cfg s)) eqn:G; [|discriminate].
  peel G Gcs. peel G G1. peel G Gmore. peel G Gnw.
  apply in_build_true in G. apply Nat.ltb_lt in G1. injection Hst as <-.
  split; [|exact G].
  destruct C as [C1 C2 C3 C4 C5 C6 C7 C8 C9 C10 C11 C12 C13 C14].
  constructor; cbn [s_plan s_running s_pending s_fa s_exit s_total s_started s_finished s_failed s_waiting s_phase]; try assumption.
  intros _ Hnil. rewrite Hnil in C2. cbn [length] in C2. lia.
Qed.

Lemma core_prune s e s' : core s -> step_res g cfg loads s (EvPrune e) = Ok s' -> core s' /\ s_phase s' = PhBuild.
Proof.
  intros C Hst. unfold step_res in Hst; cbn [step_res_gen] in Hst.
  destruct (in_build s && s_waiting s
            && match p_want (s_plan s) e with Some WToStart => true | _ => false end
            && negb (all_inputs_ready g (s_plan s) e)) eqn:G; [|discriminate].
  peel G G2. peel G Gw. peel G Gwait.
  apply in_build_true in G. apply negb_true_iff in G2.
  destruct (p_want (s_plan s) e) as [[| |]|] eqn:Ew; try discriminate.
  destruct (p_wanted (s_plan s)) as [|w] eqn:Ewd; [discriminate|].
  pose proof (pinv_prune_pure _ _ _ e w (co_pinv s C) Ew G2 Ewd) as HP.
  set (p1 := set_wanted _ w) in *.
  assert (Hlt : e < n_edges g) by (apply (pi_range _ _ _ _ _ (co_pinv s C)); congruence).
  assert (Hnpw : npw (s_plan s) = (if phony g e then 0 else 1) + npw p1).
  { unfold npw, npwf. destruct (phony g e) eqn:Eph.
    - cbn [plus]. symmetry. apply count_same. intros x _. unfold p1. psimpl. unfold is_wanted, upd.
      destruct (Nat.eqb_spec x e) as [->|Hne]; [rewrite Eph; cbn [negb]; rewrite !andb_false_r; reflexivity|reflexivity].
    - apply (count_flip _ _ e); [apply all_edges_nodup|apply all_edges_in; exact Hlt| | |].
      + unfold is_wanted. rewrite Ew, Eph. reflexivity.
      + unfold p1. psimpl. unfold is_wanted. rewrite upd_same. reflexivity.
      + intros x Hx. unfold p1. psimpl. unfold is_wanted. rewrite upd_other by exact Hx. reflexivity. }
  destruct C as [C1 C2 C3 C4 C5 C6 C7 C8 C9 C10 C11 C12 C13 C14].
  destruct (phony g e) eqn:Eph.
  - injection Hst as <-. split; [|exact G].
    constructor; unfold set_plan; cbn [s_plan s_running s_pending s_fa s_exit s_total s_started s_finished s_failed s_waiting s_phase]; try assumption.
    change (p_commands p1) with (p_commands (s_plan s)). lia.
  - change (p_commands p1) with (p_commands (s_plan s)) in Hst.
    destruct (p_commands (s_plan s)) as [|c] eqn:Ec; [discriminate|].
    destruct (s_total s) as [|t] eqn:Et; [discriminate|].
    injection Hst as <-. split; [|exact G].
    constructor; cbn [s_plan s_running s_pending s_fa s_exit s_total s_started s_finished s_failed s_waiting s_phase]; try assumption.
    + apply pinv_set_commands. exact HP.
    + change (p_commands (set_commands p1 c)) with c.
      change (npw (set_commands p1 c)) with (npw p1). lia.
    + change (p_commands (set_commands p1 c)) with c. lia.
Qed.

Lemma core_finish s e code prio s' : core s ->
  step_res g cfg loads s (EvFinish e code prio) = Ok s' -> core s' /\ s_phase s' = PhBuild.
Proof.
  intros C Hst. unfold step_res in Hst; cbn [step_res_gen] in Hst.
  destruct (in_build s && s_waiting s && memb e (s_running s) && negb (Nat.eqb code exit_interrupted)) eqn:G;
    [|discriminate].
  peel G Gcode. peel G G1. peel G Gwait.
  apply in_build_true in G. apply memb_In in G1.
  destruct (s_pending s) as [|pend] eqn:Epend; [discriminate|].
  pose proof (co_pinv s C) as HP. pose proof (pinv_nodup_A _ _ _ _ _ HP) as HndA.
  pose proof (rem_length e (s_running s) HndA G1) as Hlen.
  destruct (pi_sched _ _ _ _ _ HP e (in_sched_A _ _ _ e G1)) as [Hw _].
  unfold is_wanted in Hw. destruct (p_want (s_plan s) e) as [w|] eqn:Ew; [|discriminate].
  assert (Hwn : w <> WNothing) by (intros ->; discriminate).
  assert (Hiw : is_wanted (p_want (s_plan s)) e = true) by (unfold is_wanted; rewrite Ew; exact Hw).
  assert (Hlt : e < n_edges g) by (apply (pi_range _ _ _ _ _ HP); congruence).
  assert (Hph : phony g e = false) by (apply (co_nophony s C); apply in_or_app; left; exact G1).
  destruct C as [C1 C2 C3 C4 C5 C6 C7 C8 C9 C10 C11 C12 C13 C14].
  destruct (Nat.eqb_spec code 0) as [Hc0|Hc0].
  - destruct (edge_finished (plan_fuel g) g cfg prio loads e true true (s_plan s)) as [p'| |] eqn:Eef; try discriminate.
    injection Hst as <-. split; [|exact G].
    pose proof (ef_top_success _ _ _ _ _ _ _ HP G1 Eef) as HP'.
    pose proof (ef_top_evol _ _ _ true _ _ w (pi_range _ _ _ _ _ HP) Ew Hwn Eef) as Hev. cbn in Hev.
    pose proof (npwf_erase _ e Hlt Hiw) as Hn. rewrite Hph in Hn.
    pose proof (ev_balance _ _ _ _ Hev) as Hb. pose proof (ev_cmd_le _ _ _ _ Hev) as Hle.
    unfold npw in *.
    constructor; cbn [s_plan s_running s_pending s_fa s_exit s_total s_started s_finished s_failed s_waiting s_phase]; try assumption.
    + lia.
    + intros x Hx. apply C3. apply in_app_or in Hx. apply in_or_app.
      destruct Hx as [Hx|Hx]; [left; apply rem_In in Hx; tauto|right; exact Hx].
    + unfold npw. lia.
    + lia.
    + lia.
    + lia.
    + lia.
    + pose proof (pi_tokens _ _ _ _ _ HP') as Ht3. pose proof (pi_tokens _ _ _ _ _ C1) as Ht.
      destruct (c_jobserver cfg); [|exact I]. lia.
    + discriminate.
  - destruct (edge_finished (plan_fuel g) g cfg prio loads e false true (s_plan s)) as [p'| |] eqn:Eef; try discriminate.
    injection Hst as <-. split; [|exact G].
    pose proof (ef_top_failure _ _ _ _ _ _ _ HP G1 Eef) as HP'.
    destruct (ef_top_failure_fields _ _ _ _ _ w Ew Hwn Eef) as [Hfc [Hfw _]].
    unfold npw in *.
    constructor; cbn [s_plan s_running s_pending s_fa s_exit s_total s_started s_finished s_failed s_waiting s_phase]; try assumption.
    + lia.
    + intros x Hx. apply in_app_or in Hx. destruct Hx as [Hx|[<-|Hx]].
      * apply C3. apply in_or_app. left. apply rem_In in Hx. tauto.
      * exact Hph.
      * apply C3. apply in_or_app. right. exact Hx.
    + unfold npw. rewrite Hfc, Hfw. cbn [length]. lia.
    + rewrite Hfc. exact C5.
    + lia.
    + cbn [length]. lia.
    + lia.
    + intros H. exfalso. destruct (s_fa s) as [|f]; cbn [pred] in H; lia.
    + discriminate.
    + intros _. exact Hc0.
    + lia.
    + pose proof (pi_tokens _ _ _ _ _ HP') as Ht3. pose proof (pi_tokens _ _ _ _ _ C1) as Ht.
      destruct (c_jobserver cfg); [|exact I]. lia.
    + discriminate.
Qed.

Lemma core_init prio sn : wf_snap sn -> core (init_state g cfg prio sn).
Proof.
  intros Hws. destruct (schedule_initial_pinv prio sn Hws) as [HP [Hc Hw]].
  unfold init_state.
  constructor; cbn [s_plan s_running s_pending s_fa s_exit s_total s_started s_finished s_failed s_waiting s_phase app length].
  - exact HP.
  - reflexivity.
  - intros e [].
  - rewrite Hc, (ws_commands sn Hws). rewrite !Nat.add_0_r. unfold npw, npwf. symmetry.
    apply count_same. intros x _. rewrite Hw. reflexivity.
  - symmetry. exact Hc.
  - reflexivity.
  - lia.
  - lia.
  - reflexivity.
  - reflexivity.
  - intros H. congruence.
  - lia.
  - rewrite (pi_tokens _ _ _ _ _ HP). destruct (c_jobserver cfg); [cbn [length]; lia|exact I].
  - discriminate.
Qed.

Lemma lim_same_running s s' : s_running s' = s_running s -> lim s -> lim s'.
Proof. intros E [L1 L2 L3]. constructor; rewrite E; assumption. Qed.

Lemma lim_nil s : s_running s = [] -> lim s.
Proof.
  intros E. constructor; rewrite E; cbn [length].
  - lia.
  - intros q _. unfold cnt. cbn. lia.
  - destruct (c_jobserver cfg); [lia|exact I].
Qed.

Lemma sinv_step s ev s' : sinv s -> step g cfg loads s ev = Some s' -> sinv s'.
Proof.
  intros [Hcore Hlim] Hst. unfold step in Hst.
  destruct (step_res g cfg loads s ev) as [s1| |] eqn:E; try discriminate. injection Hst as <-.
  destruct (s_phase s) eqn:Eph.
  - specialize (Hcore eq_refl).
    destruct ev as [e prio| |e|e code prio| |code m].
    + destruct (core_start s e prio s1 Hcore E) as [C' P']. split; [intros _; exact C'|apply core_lim; exact C'].
    + destruct (core_wait s s1 Hcore E) as [C' P']. split; [intros _; exact C'|apply core_lim; exact C'].
    + destruct (core_prune s e s1 Hcore E) as [C' P']. split; [intros _; exact C'|apply core_lim; exact C'].
    + destruct (core_finish s e code prio s1 Hcore E) as [C' P']. split; [intros _; exact C'|apply core_lim; exact C'].
    + unfold step_res in E; cbn [step_res_gen] in E. destruct (in_build s && s_waiting s); [|discriminate]. injection E as <-.
      split; [cbn [s_phase]; discriminate|apply lim_nil; reflexivity].
    + unfold step_res in E; cbn [step_res_gen] in E. rewrite Eph in E. destruct (s_waiting s); [discriminate|].
      match type of E with (match ?X with _ => _ end) = _ => destruct X as [[c m']|]; [|discriminate] end.
      destruct (Nat.eqb c code && exit_msg_eqb m m'); [|discriminate]. injection E as <-.
      split; [cbn [s_phase]; discriminate|apply (lim_same_running s); [reflexivity|exact Hlim]].
  - destruct ev as [e prio| |e|e code prio| |code m]; unfold step_res in E; cbn [step_res_gen] in E; unfold in_build in E; rewrite Eph in E;
      cbn [andb] in E; try discriminate.
    destruct (Nat.eqb code exit_interrupted && exit_msg_eqb m MInterrupted); [|discriminate]. injection E as <-.
    split; [cbn [s_phase]; discriminate|apply (lim_same_running s); [reflexivity|exact Hlim]].
  - destruct ev as [e prio| |e|e code prio| |code m]; unfold step_res in E; cbn [step_res_gen] in E; unfold in_build in E; rewrite Eph in E;
      cbn [andb] in E; discriminate.
Qed.

Lemma sinv_accepts evs : forall s s', sinv s -> accepts g cfg loads s evs = Some s' -> sinv s'.
Proof.
  induction evs as [|ev evs IH]; intros s s' HI Ha; cbn [accepts] in Ha.
  - injection Ha as <-. exact HI.
  - destruct (step g cfg loads s ev) as [s1|] eqn:E; [|discriminate].
    apply (IH s1 s'); [apply (sinv_step s ev s1 HI E)|exact Ha].
Qed.

Lemma sinv_init prio sn : wf_snap sn -> sinv (init_state g cfg prio sn).
Proof.
  intros Hws. pose proof (core_init prio sn Hws) as C. split; [intros _; exact C|apply core_lim; exact C].
Qed.

Theorem sinv_run prio sn evs s : wf_snap sn -> run g cfg loads prio sn evs = Some s -> sinv s.
Proof. intros Hws Hr. apply (sinv_accepts evs _ s (sinv_init prio sn Hws) Hr). Qed.

(* ------------------------------------------------------------------ traces *)
Lemma accepts_app evs1 : forall s evs2,
  accepts g cfg loads s (evs1 ++ evs2) =
  match accepts g cfg loads s evs1 with Some s1 => accepts g cfg loads s1 evs2 | None => None end.
Proof.
  induction evs1 as [|ev evs1 IH]; intros s evs2; cbn [app accepts]; [reflexivity|].
  destruct (step g cfg loads s ev); [apply IH|reflexivity].
Qed.

Definition reachable (s : state) : Prop :=
  exists prio sn evs, wf_snap sn /\ run g cfg loads prio sn evs = Some s.

Lemma reachable_sinv s : reachable s -> sinv s.
Proof. intros [prio [sn [evs [Hws Hr]]]]. apply (sinv_run prio sn evs s Hws Hr). Qed.

Lemma reachable_step s ev s' : reachable s -> step g cfg loads s ev = Some s' -> reachable s'.
Proof.
  intros [prio [sn [evs [Hws Hr]]]] Hst. exists prio, sn, (evs ++ [ev]). split; [exact Hws|].
  unfold run in *. rewrite accepts_app, Hr. cbn [accepts]. rewrite Hst. reflexivity.
Qed.

Lemma step_in_build s ev s' : step g cfg loads s ev = Some s' ->
  (forall c m, ev <> EvExit c m) -> s_phase s = PhBuild.
Proof.
  intros Hst Hne. unfold step in Hst. destruct (step_res g cfg loads s ev) as [s1| |] eqn:E; try discriminate.
  destruct ev as [e prio| |e|e code prio| |code m]; unfold step_res in E; cbn [step_res_gen] in E;
    try (destruct (in_build s) eqn:Eb; [apply in_build_true; exact Eb|cbn [andb] in E; discriminate]).
  exfalso. apply (Hne code m). reflexivity.
Qed.

Lemma core_of_step s ev s' : sinv s -> step g cfg loads s ev = Some s' ->
  (forall c m, ev <> EvExit c m) -> core s.
Proof. intros [H _] Hst Hne. apply H. apply (step_in_build s ev s' Hst Hne). Qed.

(* ------------------------------------------------------------------ C04 *)
Theorem start_inputs_ready s e prio s' : reachable s -> step g cfg loads s (EvStart e prio) = Some s' ->
  forall i, In i (ins_at g (s_plan s) e) -> p_oready (s_plan s) i = true.
Proof.
  intros Hr Hst i Hi.
  assert (C : core s) by (apply (core_of_step s _ s' (reachable_sinv s Hr) Hst); intros c m; discriminate).
  unfold step in Hst. unfold step_res in Hst; cbn [step_res_gen] in Hst.
  destruct (in_build s && negb (s_waiting s) && more_to_do (s_plan s) && (0 <? s_fa s)
            && (0 <? capacity cfg s) && memb e (p_ready (s_plan s)) && token_ok cfg (s_plan s)) eqn:G;
    [|discriminate].
  peel G G2. peel G G0. apply memb_In in G0.
  destruct (pi_sched _ _ _ _ _ (co_pinv s C) e (in_sched_R _ _ _ e G0)) as [_ Ha].
  apply (air_in g _ e i Ha Hi).
Qed.

(* the guard of Start consists of exactly these conditions: nothing about validations *)
Theorem start_enabled s e prio :
  in_build s = true -> s_waiting s = false -> more_to_do (s_plan s) = true -> 0 < s_fa s ->
  length (s_running s) < c_j cfg -> In e (p_ready (s_plan s)) -> token_ok cfg (s_plan s) = true ->
  phony g e = false -> exists s', step g cfg loads s (EvStart e prio) = Some s'.
Proof.
  intros H1 H2 H3 H4 H5 H6 H7 H8. unfold step. unfold step_res; cbn [step_res_gen].
  rewrite H1, H2, H3, H7, H8. cbn [negb andb].
  assert (E1 : (0 <? s_fa s) = true) by (apply Nat.ltb_lt; exact H4).
  assert (E2 : (0 <? capacity cfg s) = true) by (apply Nat.ltb_lt; unfold capacity; lia).
  assert (E3 : memb e (p_ready (s_plan s)) = true) by (apply memb_In; exact H6).
  rewrite E1, E2, E3. cbn [andb]. eexists. reflexivity.
Qed.

(* ------------------------------------------------------------------ C05 *)
(* [depends p d e]: in the graph as it is in plan state p, d needs (transitively) an output of e *)
Inductive depends (p : plan) : nat -> nat -> Prop :=
| dep_direct d e : In e (ins_at g p d) -> depends p d e
| dep_trans d i e : In i (ins_at g p d) -> depends p i e -> depends p d e.

Lemma failed_blocks s e d : core s -> In e (s_failed s) -> depends (s_plan s) d e ->
  all_inputs_ready g (s_plan s) d = false /\ p_oready (s_plan s) d = false.
Proof.
  intros C He Hd. pose proof (co_pinv s C) as HP.
  assert (Hblock : forall i x, In i (ins_at g (s_plan s) x) -> p_oready (s_plan s) i = false ->
            all_inputs_ready g (s_plan s) x = false /\ p_oready (s_plan s) x = false).
  { intros i x Hi Ho.
    assert (Ha : all_inputs_ready g (s_plan s) x = false).
    { destruct (all_inputs_ready g (s_plan s) x) eqn:E; [|reflexivity].
      rewrite (air_in g _ x i E Hi) in Ho. discriminate. }
    split; [exact Ha|]. destruct (p_oready (s_plan s) x) eqn:E; [|reflexivity].
    rewrite (pi_oready_closed _ _ _ _ _ HP x E) in Ha. discriminate. }
  induction Hd as [d e Hin|d i e Hin Hd IH].
  - apply (Hblock e d Hin).
    destruct (pi_sched _ _ _ _ _ HP e (in_sched_F _ _ _ e He)) as [Hw _].
    destruct (p_oready (s_plan s) e) eqn:E; [|reflexivity].
    unfold is_wanted in Hw. rewrite (pinv_top_oready _ _ _ HP e E) in Hw. discriminate.
  - apply (Hblock i d Hin). apply (IH He).
Qed.

Lemma step_failed s ev s' : step g cfg loads s ev = Some s' ->
  s_failed s' = s_failed s \/
  exists e c pr, ev = EvFinish e c pr /\ c <> 0 /\ s_failed s' = e :: s_failed s.
Proof.
  unfold step. destruct (step_res g cfg loads s ev) as [s1| |] eqn:E; try discriminate. intros H. injection H as <-.
  destruct ev as [e prio| |e|e code prio| |code m]; unfold step_res in E; cbn [step_res_gen] in E.
  - match type of E with (if ?X then _ else _) = _ => destruct X; [|discriminate] end.
    destruct (phony g e).
    + match type of E with (match ?X with _ => _ end) = _ => destruct X; try discriminate end.
      injection E as <-. left. reflexivity.
    + injection E as <-. left. reflexivity.
  - match type of E with (if ?X then _ else _) = _ => destruct X; [|discriminate] end.
    injection E as <-. left. reflexivity.
  - match type of E with (if ?X then _ else _) = _ => destruct X; [|discriminate] end.
    destruct (p_wanted (s_plan s)); [discriminate|]. destruct (phony g e).
    + injection E as <-. left. reflexivity.
    + match type of E with (match ?X with _ => _ end) = _ => destruct X; try discriminate end.
      destruct (s_total s); [discriminate|]. injection E as <-. left. reflexivity.
  - match type of E with (if ?X then _ else _) = _ => destruct X; [|discriminate] end.
    destruct (s_pending s); [discriminate|].
    destruct (Nat.eqb_spec code 0) as [Hc|Hc].
    + match type of E with (match ?X with _ => _ end) = _ => destruct X; try discriminate end.
      injection E as <-. left. reflexivity.
    + match type of E with (match ?X with _ => _ end) = _ => destruct X; try discriminate end.
      injection E as <-. right. exists e, code, prio. repeat split. exact Hc.
  - match type of E with (if ?X then _ else _) = _ => destruct X; [|discriminate] end.
    injection E as <-. left. reflexivity.
  - destruct (s_phase s).
    + destruct (s_waiting s); [discriminate|].
      match type of E with (match ?X with _ => _ end) = _ => destruct X as [[c m']|]; [|discriminate] end.
      match type of E with (if ?X then _ else _) = _ => destruct X; [|discriminate] end.
      injection E as <-. left. reflexivity.
    + match type of E with (if ?X then _ else _) = _ => destruct X; [|discriminate] end.
      injection E as <-. left. reflexivity.
    + discriminate.
Qed.

Lemma accepts_failed_mono evs : forall s s' e,
  accepts g cfg loads s evs = Some s' -> In e (s_failed s) -> In e (s_failed s').
Proof.
  induction evs as [|ev evs IH]; intros s s' e Ha He; cbn [accepts] in Ha.
  - injection Ha as <-. exact He.
  - destruct (step g cfg loads s ev) as [s1|] eqn:E; [|discriminate].
    apply (IH s1 s' e Ha). destruct (step_failed s ev s1 E) as [H|[e' [c [pr [_ [_ H]]]]]]; rewrite H; [exact He|right; exact He].
Qed.

Theorem no_dependent_started prio sn evs1 e c pr a d pr' s3 s4 :
  wf_snap sn -> run g cfg loads prio sn (evs1 ++ EvFinish e c pr :: a) = Some s3 -> c <> 0 ->
  step g cfg loads s3 (EvStart d pr') = Some s4 -> ~ depends (s_plan s3) d e /\ d <> e.
Proof.
  intros Hws Hr Hc E4. unfold run in Hr. rewrite accepts_app in Hr.
  destruct (accepts g cfg loads (init_state g cfg prio sn) evs1) as [s1|] eqn:E1; [|discriminate].
  cbn [accepts] in Hr. destruct (step g cfg loads s1 (EvFinish e c pr)) as [s2|] eqn:E2; [|discriminate].
  assert (Hf2 : In e (s_failed s2)).
  { destruct (step_failed s1 _ s2 E2) as [H|[e' [c' [pr'' [Heq [_ H]]]]]].
    - exfalso. unfold step in E2. unfold step_res in E2; cbn [step_res_gen] in E2.
      match type of E2 with match (if ?X then _ else _) with _ => _ end = _ => destruct X; [|discriminate] end.
      destruct (s_pending s1); [discriminate|]. destruct (Nat.eqb_spec c 0) as [H0|H0]; [contradiction|].
      match type of E2 with match (match ?X with _ => _ end) with _ => _ end = _ => destruct X; try discriminate end.
      injection E2 as <-. cbn [s_failed] in H. clear -H. induction (s_failed s1) as [|x l IH]; [discriminate|].
      injection H as H1 H2. subst x. apply IH. exact H2.
    - injection Heq as <- <- <-. rewrite H. left. reflexivity. }
  assert (HI2 : sinv s2).
  { apply (sinv_step s1 (EvFinish e c pr) s2); [|exact E2]. apply (sinv_accepts evs1 _ s1 (sinv_init prio sn Hws) E1). }
  rename Hr into E3.
  pose proof (accepts_failed_mono a s2 s3 e E3 Hf2) as Hf3.
  pose proof (sinv_accepts a s2 s3 HI2 E3) as HI3.
  assert (C3 : core s3) by (apply (core_of_step s3 _ s4 HI3 E4); intros c0 m; discriminate).
  unfold step in E4. unfold step_res in E4; cbn [step_res_gen] in E4.
  destruct (in_build s3 && negb (s_waiting s3) && more_to_do (s_plan s3) && (0 <? s_fa s3)
            && (0 <? capacity cfg s3) && memb d (p_ready (s_plan s3)) && token_ok cfg (s_plan s3)) eqn:G;
    [|discriminate].
  peel G G2. peel G G0. apply memb_In in G0.
  destruct (pi_sched _ _ _ _ _ (co_pinv s3 C3) d (in_sched_R _ _ _ d G0)) as [_ Ha].
  split.
  - intros Hd. destruct (failed_blocks s3 e d C3 Hf3 Hd) as [H _]. congruence.
  - intros ->. pose proof (pi_nodup _ _ _ _ _ (co_pinv s3 C3)) as Hnd. unfold sched in Hnd.
    apply NoDup_app_iff in Hnd. destruct Hnd as [_ [_ Hd]]. apply (Hd e G0).
    apply in_or_app. right. apply in_or_app. right. exact Hf3.
Qed.

(* dependencies that are in the graph from the start (not dyndep-discovered during this build) *)
Definition ins_plain (d : nat) : list nat :=
  map fst (filter (fun x => match snd x with None => true | Some _ => false end) (ei_ins (einfo g d))).

Inductive depends0 : nat -> nat -> Prop :=
| dep0_direct d e : In e (ins_plain d) -> depends0 d e
| dep0_trans d i e : In i (ins_plain d) -> depends0 i e -> depends0 d e.

Lemma ins_plain_at p d i : In i (ins_plain d) -> In i (ins_at g p d).
Proof.
  unfold ins_plain. rewrite in_map_iff. intros [[i' c] [E H]]. cbn [fst] in E. subst i'.
  apply filter_In in H. destruct H as [H1 H2]. cbn [snd] in H2. destruct c; [discriminate|].
  apply ins_at_In. exists None. split; [exact H1|reflexivity].
Qed.

Lemma depends0_at p d e : depends0 d e -> depends p d e.
Proof.
  induction 1 as [d e H|d i e H Hd IH].
  - apply dep_direct. apply ins_plain_at. exact H.
  - apply (dep_trans p d i e); [apply ins_plain_at; exact H|exact IH].
Qed.

Theorem no_dependent_started0 prio sn evs1 e c pr evs2 s :
  wf_snap sn -> run g cfg loads prio sn (evs1 ++ EvFinish e c pr :: evs2) = Some s -> c <> 0 ->
  forall d pr', In (EvStart d pr') evs2 -> ~ depends0 d e /\ d <> e.
Proof.
  intros Hws Hr Hc d pr' Hin. apply in_split in Hin. destruct Hin as [a [b Hab]]. subst evs2.
  unfold run in Hr.
  replace (evs1 ++ EvFinish e c pr :: a ++ EvStart d pr' :: b)
    with ((evs1 ++ EvFinish e c pr :: a) ++ EvStart d pr' :: b) in Hr by (rewrite <- app_assoc; reflexivity).
  rewrite accepts_app in Hr.
  destruct (accepts g cfg loads (init_state g cfg prio sn) (evs1 ++ EvFinish e c pr :: a)) as [s3|] eqn:E3; [|discriminate].
  cbn [accepts] in Hr. destruct (step g cfg loads s3 (EvStart d pr')) as [s4|] eqn:E4; [|discriminate].
  destruct (no_dependent_started prio sn evs1 e c pr a d pr' s3 s4 Hws E3 Hc E4) as [H1 H2].
  split; [|exact H2]. intros H. apply H1. apply depends0_at. exact H.
Qed.

Lemma exit_msg_eqb_eq a b : exit_msg_eqb a b = true -> a = b.
Proof. destruct a, b; cbn; intros H; try discriminate; reflexivity. Qed.

Definition fail_msg (s : state) : exit_msg :=
  if Nat.eqb (s_fa s) 0 then MSubcommandFailed
  else if s_fa s <? c_k cfg then MCannotProgress else MStuck.

(* the status Build() returns on its error exit: exit_code_, except that the stuck branch sets ExitFailure *)
Definition exit_status (s : state) : nat :=
  match fail_msg s with MStuck => exit_failure | _ => s_exit s end.

Lemma exit_build s code m s' : s_phase s = PhBuild -> step g cfg loads s (EvExit code m) = Some s' ->
  s_waiting s = false /\ s_running s' = s_running s /\
  ((more_to_do (s_plan s) = false /\ code = 0 /\ m = MSuccess) \/
   (more_to_do (s_plan s) = true /\ s_pending s = 0 /\ can_start cfg s = false /\
    code = exit_status s /\ m = fail_msg s)).
Proof.
  intros Hph Hst. unfold step in Hst. unfold step_res in Hst; cbn [step_res_gen] in Hst. rewrite Hph in Hst.
  destruct (s_waiting s); [discriminate|]. split; [reflexivity|].
  destruct (more_to_do (s_plan s)) eqn:Em; cbn [negb] in Hst.
  - destruct (Nat.eqb_spec (s_pending s) 0) as [Hp|Hp]; cbn [andb] in Hst; [|discriminate].
    destruct (can_start cfg s) eqn:Ec; cbn [negb] in Hst; [discriminate|].
    fold (fail_msg s) in Hst. fold (exit_status s) in Hst.
    destruct (Nat.eqb_spec (exit_status s) code) as [He|He]; cbn [andb] in Hst; [|discriminate].
    destruct (exit_msg_eqb m (fail_msg s)) eqn:Emsg; [|discriminate].
    injection Hst as <-. split; [reflexivity|]. right. repeat split; try assumption; [symmetry; exact He|].
    apply exit_msg_eqb_eq. exact Emsg.
  - destruct (Nat.eqb_spec 0 code) as [He|He]; cbn [andb] in Hst; [|discriminate].
    destruct (exit_msg_eqb m MSuccess) eqn:Emsg; [|discriminate].
    injection Hst as <-. split; [reflexivity|]. left. repeat split; [symmetry; exact He|apply exit_msg_eqb_eq; exact Emsg].
Qed.

Lemma exit_status_failed s : core s -> s_failed s <> [] -> exit_status s = s_exit s.
Proof.
  intros HC Hf. unfold exit_status, fail_msg. destruct (Nat.eqb (s_fa s) 0); [reflexivity|].
  destruct (Nat.ltb_spec (s_fa s) (c_k cfg)) as [H1|H1]; [reflexivity|].
  exfalso. apply Hf. apply (co_fa_k s HC). pose proof (co_fa s HC). lia.
Qed.

(* whatever the state: an accepted stuck exit carries the failure status *)
Theorem stuck_exit_status s code s' : step g cfg loads s (EvExit code MStuck) = Some s' -> code = exit_failure.
Proof.
  intros Hst. destruct (s_phase s) eqn:Eph.
  - destruct (exit_build s code MStuck s' Eph Hst) as [_ [_ [[_ [_ Hm]]|[_ [_ [_ [Hcode Hm]]]]]]]; [discriminate|].
    unfold exit_status in Hcode. rewrite <- Hm in Hcode. exact Hcode.
  - unfold step in Hst. unfold step_res in Hst; cbn [step_res_gen] in Hst. rewrite Eph in Hst.
    destruct (Nat.eqb code exit_interrupted); cbn [andb exit_msg_eqb] in Hst; discriminate.
  - unfold step in Hst. unfold step_res in Hst; cbn [step_res_gen] in Hst. rewrite Eph in Hst. discriminate.
Qed.

Lemma exit_interrupted_phase s code m s' : s_phase s = PhInterrupted ->
  step g cfg loads s (EvExit code m) = Some s' -> code = exit_interrupted /\ m = MInterrupted.
Proof.
  intros Hph Hst. unfold step in Hst. unfold step_res in Hst; cbn [step_res_gen] in Hst. rewrite Hph in Hst.
  destruct (Nat.eqb_spec code exit_interrupted) as [He|He]; cbn [andb] in Hst; [|discriminate].
  destruct (exit_msg_eqb m MInterrupted) eqn:Em; [|discriminate].
  split; [exact He|apply exit_msg_eqb_eq; exact Em].
Qed.

(* a wanted, non-phony edge keeps more_to_do true *)
Lemma more_to_do_of_wanted s e : core s -> is_wanted (p_want (s_plan s)) e = true -> phony g e = false ->
  more_to_do (s_plan s) = true.
Proof.
  intros C Hw Hph. pose proof (co_pinv s C) as HP.
  assert (Hlt : e < n_edges g).
  { apply (pi_range _ _ _ _ _ HP). unfold is_wanted in Hw. destruct (p_want (s_plan s) e); [discriminate|discriminate Hw]. }
  assert (H1 : 1 <= p_wanted (s_plan s)).
  { rewrite (pi_wanted _ _ _ _ _ HP). apply (count_ge_one _ _ e (all_edges_in e Hlt) Hw). }
  assert (H2 : 1 <= npw (s_plan s)).
  { unfold npw, npwf. apply (count_ge_one _ _ e (all_edges_in e Hlt)). rewrite Hw, Hph. reflexivity. }
  pose proof (co_commands s C) as H3. pose proof (co_fin_failed s C) as H4.
  unfold more_to_do. apply andb_true_iff. split; apply Nat.ltb_lt; lia.
Qed.

Lemma more_to_do_of_active s e : core s -> In e (s_running s ++ s_failed s) -> more_to_do (s_plan s) = true.
Proof.
  intros C He. apply (more_to_do_of_wanted s e C); [|apply (co_nophony s C e He)].
  apply (pi_sched _ _ _ _ _ (co_pinv s C) e). unfold sched. apply in_or_app. right. apply in_or_app. right. exact He.
Qed.

(* Builder::exit_code_ follows the failing completions *)
Definition exit_track (x : nat) (evs : list event) : nat :=
  fold_left (fun acc ev => match ev with
                           | EvFinish _ c _ => if Nat.eqb c 0 then acc else c
                           | _ => acc
                           end) evs x.

Lemma step_exit_code s ev s' : step g cfg loads s ev = Some s' -> s_exit s' = exit_track (s_exit s) [ev].
Proof.
  unfold step. destruct (step_res g cfg loads s ev) as [s1| |] eqn:E; try discriminate. intros H. injection H as <-.
  cbn [exit_track fold_left].
  destruct ev as [e prio| |e|e code prio| |code m]; unfold step_res in E; cbn [step_res_gen] in E.
  - match type of E with (if ?X then _ else _) = _ => destruct X; [|discriminate] end.
    destruct (phony g e).
    + match type of E with (match ?X with _ => _ end) = _ => destruct X; try discriminate end.
      injection E as <-. reflexivity.
    + injection E as <-. reflexivity.
  - match type of E with (if ?X then _ else _) = _ => destruct X; [|discriminate] end.
    injection E as <-. reflexivity.
  - match type of E with (if ?X then _ else _) = _ => destruct X; [|discriminate] end.
    destruct (p_wanted (s_plan s)); [discriminate|]. destruct (phony g e).
    + injection E as <-. reflexivity.
    + match type of E with (match ?X with _ => _ end) = _ => destruct X; try discriminate end.
      destruct (s_total s); [discriminate|]. injection E as <-. reflexivity.
  - match type of E with (if ?X then _ else _) = _ => destruct X; [|discriminate] end.
    destruct (s_pending s); [discriminate|].
    destruct (Nat.eqb code 0).
    + match type of E with (match ?X with _ => _ end) = _ => destruct X; try discriminate end.
      injection E as <-. reflexivity.
    + match type of E with (match ?X with _ => _ end) = _ => destruct X; try discriminate end.
      injection E as <-. reflexivity.
  - match type of E with (if ?X then _ else _) = _ => destruct X; [|discriminate] end.
    injection E as <-. reflexivity.
  - destruct (s_phase s).
    + destruct (s_waiting s); [discriminate|].
      match type of E with (match ?X with _ => _ end) = _ => destruct X as [[c m']|]; [|discriminate] end.
      match type of E with (if ?X then _ else _) = _ => destruct X; [|discriminate] end.
      injection E as <-. reflexivity.
    + match type of E with (if ?X then _ else _) = _ => destruct X; [|discriminate] end.
      injection E as <-. reflexivity.
    + discriminate.
Qed.

Lemma accepts_exit_code evs : forall s s', accepts g cfg loads s evs = Some s' -> s_exit s' = exit_track (s_exit s) evs.
Proof.
  induction evs as [|ev evs IH]; intros s s' Ha; cbn [accepts] in Ha.
  - injection Ha as <-. reflexivity.
  - destruct (step g cfg loads s ev) as [s1|] eqn:E; [|discriminate].
    rewrite (IH s1 s' Ha). rewrite (step_exit_code s ev s1 E). reflexivity.
Qed.

(* the tracked code is the code of the LAST failing completion *)
Lemma exit_track_last x a e c pr b : c <> 0 ->
  (forall e' c' pr', In (EvFinish e' c' pr') b -> c' = 0) ->
  exit_track x (a ++ EvFinish e c pr :: b) = c.
Proof.
  intros Hc Hb. unfold exit_track. rewrite fold_left_app. cbn [fold_left].
  destruct (Nat.eqb_spec c 0) as [H|_]; [contradiction|].
  induction b as [|ev b IH]; cbn [fold_left]; [reflexivity|].
  assert (Hb' : forall e' c' pr', In (EvFinish e' c' pr') b -> c' = 0) by (intros e' c' pr' H; apply (Hb e' c' pr'); right; exact H).
  destruct ev as [e0 p0| |e0|e0 c0 p0| |c0 m0]; try (apply IH; exact Hb').
  rewrite (Hb e0 c0 p0 (or_introl eq_refl)). cbn [Nat.eqb]. apply IH. exact Hb'.
Qed.

Lemma accepts_fail_failed evs : forall s s' e c pr,
  accepts g cfg loads s evs = Some s' -> In (EvFinish e c pr) evs -> c <> 0 -> s_failed s' <> [].
Proof.
  induction evs as [|ev evs IH]; intros s s' e c pr Ha Hin Hc; [destruct Hin|].
  cbn [accepts] in Ha. destruct (step g cfg loads s ev) as [s1|] eqn:E; [|discriminate].
  destruct Hin as [->|Hin]; [|apply (IH s1 s' e c pr Ha Hin Hc)].
  assert (Hf : In e (s_failed s1)).
  { destruct (step_failed s _ s1 E) as [H|[e' [c' [pr'' [Heq [_ H]]]]]].
    - exfalso. unfold step in E. unfold step_res in E; cbn [step_res_gen] in E.
      match type of E with match (if ?X then _ else _) with _ => _ end = _ => destruct X; [|discriminate] end.
      destruct (s_pending s); [discriminate|]. destruct (Nat.eqb_spec c 0) as [H0|H0]; [contradiction|].
      match type of E with match (match ?X with _ => _ end) with _ => _ end = _ => destruct X; try discriminate end.
      injection E as <-. cbn [s_failed] in H. clear -H. induction (s_failed s) as [|a l IHl]; [discriminate|].
      injection H as H1 H2. subst a. apply IHl. exact H2.
    - injection Heq as <- <- <-. rewrite H. left. reflexivity. }
  pose proof (accepts_failed_mono evs s1 s' e Ha Hf) as H. intros Hn. rewrite Hn in H. destruct H.
Qed.

Theorem exit_code_of_failure prio sn evs code m s :
  wf_snap sn -> run g cfg loads prio sn (evs ++ [EvExit code m]) = Some s ->
  (exists e c pr, In (EvFinish e c pr) evs /\ c <> 0) ->
  code <> 0 /\ (m <> MInterrupted -> code = exit_track 0 evs /\ m <> MSuccess).
Proof.
  intros Hws Hr [e [c [pr [Hin Hc]]]]. unfold run in Hr. rewrite accepts_app in Hr.
  destruct (accepts g cfg loads (init_state g cfg prio sn) evs) as [s1|] eqn:E1; [|discriminate].
  cbn [accepts] in Hr. destruct (step g cfg loads s1 (EvExit code m)) as [s2|] eqn:E2; [|discriminate].
  pose proof (sinv_accepts evs _ s1 (sinv_init prio sn Hws) E1) as [HC _].
  pose proof (accepts_fail_failed evs _ s1 e c pr E1 Hin Hc) as Hf.
  pose proof (accepts_exit_code evs _ s1 E1) as Hx. cbn [init_state s_exit] in Hx.
  destruct (s_phase s1) eqn:Eph.
  - specialize (HC eq_refl).
    destruct (exit_build s1 code m s2 Eph E2) as [_ [_ [[Hm _]|[_ [_ [_ [Hcode Hm]]]]]]].
    + exfalso. destruct (s_failed s1) as [|x l] eqn:Ef; [congruence|].
      assert (Hx' : In x (s_running s1 ++ s_failed s1)) by (rewrite Ef; apply in_or_app; right; left; reflexivity).
      rewrite (more_to_do_of_active s1 x HC Hx') in Hm. discriminate.
    + subst code. rewrite (exit_status_failed s1 HC Hf). split; [apply (co_exit1 s1 HC Hf)|]. intros _. split; [exact Hx|].
      rewrite Hm. unfold fail_msg. destruct (Nat.eqb (s_fa s1) 0); [discriminate|].
      destruct (s_fa s1 <? c_k cfg); discriminate.
  - destruct (exit_interrupted_phase s1 code m s2 Eph E2) as [-> ->].
    split; [unfold exit_interrupted; lia|]. intros H. congruence.
  - unfold step in E2. unfold step_res in E2; cbn [step_res_gen] in E2. rewrite Eph in E2. discriminate.
Qed.

(* once the budget is used up nothing is started *)
Theorem no_start_without_budget s e prio : s_fa s = 0 -> step g cfg loads s (EvStart e prio) = None.
Proof.
  intros H. unfold step. unfold step_res; cbn [step_res_gen]. rewrite H. cbn [Nat.ltb Nat.leb].
  rewrite !andb_false_r. cbn [andb]. reflexivity.
Qed.

Theorem exit_reaped s code m s' : reachable s -> step g cfg loads s (EvExit code m) = Some s' ->
  m <> MInterrupted -> s_running s = [] /\ s_running s' = [].
Proof.
  intros Hr Hst Hm. destruct (reachable_sinv s Hr) as [HC _].
  destruct (s_phase s) eqn:Eph.
  - specialize (HC eq_refl).
    destruct (exit_build s code m s' Eph Hst) as [_ [Hrun [[Hmore _]|[_ [Hp _]]]]]; rewrite Hrun.
    + destruct (s_running s) as [|x l] eqn:Er; [split; reflexivity|].
      assert (Hx : In x (s_running s ++ s_failed s)) by (rewrite Er; left; reflexivity).
      rewrite (more_to_do_of_active s x HC Hx) in Hmore. discriminate.
    + rewrite (co_pending s HC) in Hp. destruct (s_running s); [split; reflexivity|discriminate].
  - destruct (exit_interrupted_phase s code m s' Eph Hst) as [_ ->]. congruence.
  - unfold step in Hst. unfold step_res in Hst; cbn [step_res_gen] in Hst. rewrite Eph in Hst. discriminate.
Qed.

(* ------------------------------------------------------------------ C06 *)
Theorem limits s : reachable s ->
  length (s_running s) <= c_j cfg /\
  (forall q, 0 < depth g q -> cnt g q (s_running s) <= depth g q) /\
  (forall n, c_jobserver cfg = Some n -> length (s_running s) <= S n).
Proof.
  intros Hr. destruct (reachable_sinv s Hr) as [_ [L1 L2 L3]].
  split; [exact L1|]. split; [exact L2|]. intros n Hn. rewrite Hn in L3. exact L3.
Qed.

(* in the build phase the jobserver slots held are exactly the running commands *)
Theorem tokens_held s : reachable s -> s_phase s = PhBuild ->
  p_tokens (s_plan s) = match c_jobserver cfg with None => 0 | Some _ => length (s_running s) end.
Proof.
  intros Hr Hph. destruct (reachable_sinv s Hr) as [HC _]. specialize (HC Hph).
  apply (pi_tokens _ _ _ _ _ (co_pinv s HC)).
Qed.

Theorem wait_only_when_no_start s s' : step g cfg loads s EvWait = Some s' ->
  can_start cfg s = false /\
  (s_fa s = 0 \/ c_j cfg <= length (s_running s) \/ p_ready (s_plan s) = [] \/ token_ok cfg (s_plan s) = false).
Proof.
  unfold step. unfold step_res; cbn [step_res_gen].
  destruct (in_build s && negb (s_waiting s) && more_to_do (s_plan s) && (0 <? s_pending s)
            && negb (can_start cfg s)) eqn:G; [|discriminate].
  intros _. peel G Gc. apply negb_true_iff in Gc. split; [exact Gc|].
  unfold can_start in Gc. unfold capacity in Gc.
  destruct (Nat.ltb_spec 0 (s_fa s)) as [H1|H1]; [|left; lia].
  destruct (Nat.ltb_spec 0 (c_j cfg - length (s_running s))) as [H2|H2]; [|right; left; lia].
  destruct (p_ready (s_plan s)) as [|x l]; [right; right; left; reflexivity|].
  cbn [andb] in Gc. right. right. right. exact Gc.
Qed.

Lemma idle_no_want p : pinv QT [] [] [] p -> p_ready p = [] -> forall e, p_want p e = None.
Proof.
  intros HI HR. pose proof HI as [I1 I2 I3 I4 I5 I6 I7 I8 I9 I10 I11 I12 I13 I14 I15 I16].
  assert (HD0 : forall d, ~ In d (p_delayed p)).
  { intros d Hd.
    pose proof (I13 d Hd) as Hdep. destruct (I11 _ Hdep) as [Hu _].
    assert (Hne : delayed_of g (pool g d) (p_delayed p) <> []).
    { intros Hn. assert (H : In d (delayed_of g (pool g d) (p_delayed p))) by (apply delayed_of_In; split; [exact Hd|reflexivity]).
      rewrite Hn in H. destruct H. }
    rewrite (I12 _ I Hdep Hne) in Hu. rewrite HR in Hu. unfold cnt in Hu. cbn in Hu. lia. }
  assert (HD : p_delayed p = []).
  { destruct (p_delayed p) as [|d l]; [reflexivity|]. exfalso. apply (HD0 d). left. reflexivity. }
  assert (Hs : sched p [] [] = []) by (unfold sched; rewrite HR, HD; reflexivity).
  rewrite Hs in *.
  assert (H : forall n e, rank e < n -> p_want p e = None).
  { induction n as [|n IH]; intros e He; [lia|].
    destruct (p_want p e) as [w|] eqn:Ew; [|reflexivity]. exfalso.
    destruct (all_inputs_ready g p e) eqn:Ea.
    - destruct w.
      + apply (pinv_top_nothing _ _ _ HI e Ew Ea).
      + apply (pinv_top_tostart _ _ _ HI e Ew Ea).
      + apply (I3 e Ew).
    - destruct (air_false g p e Ea) as [i [Hi Ho]].
      assert (Hwi : p_want p i <> None) by (apply (I9 e i); [congruence|exact Hi|exact Ho]).
      apply Hwi. apply IH. pose proof (wg_rank_at g rank p e i Hwf Hi). lia. }
  intros e. apply (H (S (rank e))). lia.
Qed.

Theorem never_stuck s code : reachable s -> step g cfg loads s (EvExit code MStuck) = None.
Proof.
  intros Hr. destruct (step g cfg loads s (EvExit code MStuck)) as [s'|] eqn:Hst; [exfalso|reflexivity].
  destruct (reachable_sinv s Hr) as [HC _].
  destruct (s_phase s) eqn:Eph.
  - specialize (HC eq_refl).
    destruct (exit_build s code MStuck s' Eph Hst) as [_ [_ [[_ [_ Hm]]|[Hmore [Hp [Hcs [_ Hm]]]]]]]; [discriminate|].
    unfold fail_msg in Hm. destruct (Nat.eqb_spec (s_fa s) 0) as [H0|H0]; [discriminate|].
    destruct (Nat.ltb_spec (s_fa s) (c_k cfg)) as [H1|H1]; [discriminate|].
    assert (Hfa : s_fa s = c_k cfg) by (pose proof (co_fa s HC); lia).
    pose proof (co_fa_k s HC Hfa) as HF.
    assert (HU : s_running s = []) by (rewrite (co_pending s HC) in Hp; destruct (s_running s); [reflexivity|discriminate]).
    pose proof (co_pinv s HC) as HP. rewrite HU, HF in HP.
    assert (HR : p_ready (s_plan s) = []).
    { unfold can_start in Hcs. unfold capacity in Hcs. rewrite HU in Hcs. cbn [length] in Hcs.
      assert (E1 : (0 <? s_fa s) = true) by (apply Nat.ltb_lt; lia).
      assert (E2 : (0 <? c_j cfg - 0) = true) by (apply Nat.ltb_lt; lia).
      assert (E3 : token_ok cfg (s_plan s) = true).
      { unfold token_ok. rewrite (pi_tokens _ _ _ _ _ HP). destruct (c_jobserver cfg); reflexivity. }
      rewrite E1, E2, E3 in Hcs. cbn [andb] in Hcs. rewrite andb_true_r in Hcs.
      destruct (p_ready (s_plan s)); [reflexivity|discriminate]. }
    pose proof (idle_no_want _ HP HR) as Hnone.
    assert (Hw0 : p_wanted (s_plan s) = 0).
    { rewrite (pi_wanted _ _ _ _ _ HP). unfold count_if.
      assert (Hf : filter (is_wanted (p_want (s_plan s))) (all_edges g) = []).
      { induction (all_edges g) as [|x l IH]; [reflexivity|]. cbn [filter]. unfold is_wanted at 1. rewrite Hnone. exact IH. }
      rewrite Hf. reflexivity. }
    unfold more_to_do in Hmore. rewrite Hw0 in Hmore. discriminate.
  - destruct (exit_interrupted_phase s code MStuck s' Eph Hst) as [_ H]. discriminate.
  - unfold step in Hst. unfold step_res in Hst; cbn [step_res_gen] in Hst. rewrite Eph in Hst. discriminate.
Qed.

(* no edge is started twice *)
Definition was_started (s : state) (e : nat) : Prop :=
  In e (s_running s) \/ In e (s_failed s) \/ p_oready (s_plan s) e = true.

Lemma was_started_not_ready s e : core s -> was_started s e -> ~ In e (p_ready (s_plan s)).
Proof.
  intros C Hws Hin. pose proof (co_pinv s C) as HP. pose proof (pi_nodup _ _ _ _ _ HP) as Hnd.
  unfold sched in Hnd. apply NoDup_app_iff in Hnd. destruct Hnd as [_ [_ Hd]].
  destruct Hws as [H|[H|H]].
  - apply (Hd e Hin). apply in_or_app. right. apply in_or_app. left. exact H.
  - apply (Hd e Hin). apply in_or_app. right. apply in_or_app. right. exact H.
  - destruct (pi_sched _ _ _ _ _ HP e (in_sched_R _ _ _ e Hin)) as [Hw _].
    unfold is_wanted in Hw. rewrite (pinv_top_oready _ _ _ HP e H) in Hw. discriminate.
Qed.

Lemma step_was_started s ev s' e : core s -> step g cfg loads s ev = Some s' ->
  (was_started s e \/ exists pr, ev = EvStart e pr) -> s_phase s' = PhBuild -> was_started s' e.
Proof.
  intros C Hst Hws Hph'. unfold step in Hst.
  destruct (step_res g cfg loads s ev) as [s1| |] eqn:E; try discriminate. injection Hst as <-.
  destruct ev as [d prio| |d|d code prio| |code m]; unfold step_res in E; cbn [step_res_gen] in E.
  - match type of E with (if ?X then _ else _) = _ => destruct X eqn:G; [|discriminate] end.
    peel G G2. peel G G0. apply memb_In in G0.
    pose proof (start_pop_pinv (s_plan s) (s_running s) (s_failed s) d (co_pinv s C) G0) as HP.
    set (p2 := match c_jobserver cfg with
               | None => set_ready (s_plan s) (rem d (p_ready (s_plan s)))
               | Some _ => _ end) in *.
    assert (Hp2o : p_oready p2 = p_oready (s_plan s)) by (unfold p2; destruct (c_jobserver cfg); reflexivity).
    destruct (phony g d) eqn:Eph.
    + destruct (edge_finished (plan_fuel g) g cfg prio loads d true true p2) as [p3| |] eqn:Eef; try discriminate.
      injection E as <-. unfold was_started, set_plan. cbn [s_plan s_running s_failed].
      destruct (pi_sched _ _ _ _ _ HP d (in_sched_A p2 (d :: s_running s) (s_failed s) d (or_introl eq_refl))) as [Hw _].
      unfold is_wanted in Hw. destruct (p_want p2 d) as [w|] eqn:Ew; [|discriminate].
      assert (Hwn : w <> WNothing) by (intros ->; discriminate).
      pose proof (ef_top_evol _ _ _ true _ _ w (pi_range _ _ _ _ _ HP) Ew Hwn Eef) as Hev. cbn in Hev.
      destruct Hws as [[H|[H|H]]|[pr Heq]].
      * left. exact H.
      * right. left. exact H.
      * right. right. apply (ev_mono _ _ _ _ Hev). unfold upd. destruct (Nat.eqb e d); [reflexivity|]. rewrite Hp2o. exact H.
      * injection Heq as ->. right. right. apply (ev_mono _ _ _ _ Hev). apply upd_same.
    + injection E as <-. unfold was_started. cbn [s_plan s_running s_failed].
      destruct Hws as [[H|[H|H]]|[pr Heq]].
      * left. right. exact H.
      * right. left. exact H.
      * right. right. rewrite Hp2o. exact H.
      * injection Heq as ->. left. left. reflexivity.
  - match type of E with (if ?X then _ else _) = _ => destruct X; [|discriminate] end.
    injection E as <-. destruct Hws as [H|[pr Heq]]; [exact H|discriminate].
  - match type of E with (if ?X then _ else _) = _ => destruct X; [|discriminate] end.
    destruct (p_wanted (s_plan s)); [discriminate|].
    destruct Hws as [H|[pr Heq]]; [|discriminate].
    destruct (phony g d).
    + injection E as <-. exact H.
    + match type of E with (match ?X with _ => _ end) = _ => destruct X; try discriminate end.
      destruct (s_total s); [discriminate|]. injection E as <-. exact H.
  - match type of E with (if ?X then _ else _) = _ => destruct X eqn:G; [|discriminate] end.
    peel G Gcode. peel G G1. apply memb_In in G1.
    destruct (s_pending s); [discriminate|].
    destruct Hws as [Hws|[pr Heq]]; [|discriminate].
    destruct (pi_sched _ _ _ _ _ (co_pinv s C) d (in_sched_A _ _ _ d G1)) as [Hw _].
    unfold is_wanted in Hw. destruct (p_want (s_plan s) d) as [w|] eqn:Ew; [|discriminate].
    assert (Hwn : w <> WNothing) by (intros ->; discriminate).
    destruct (Nat.eqb code 0).
    + destruct (edge_finished (plan_fuel g) g cfg prio loads d true true (s_plan s)) as [p'| |] eqn:Eef; try discriminate.
      injection E as <-. unfold was_started. cbn [s_plan s_running s_failed].
      pose proof (ef_top_evol _ _ _ true _ _ w (pi_range _ _ _ _ _ (co_pinv s C)) Ew Hwn Eef) as Hev. cbn in Hev.
      destruct (Nat.eq_dec e d) as [->|Hne].
      * right. right. apply (ev_mono _ _ _ _ Hev). apply upd_same.
      * destruct Hws as [H|[H|H]].
        -- left. apply rem_In. split; assumption.
        -- right. left. exact H.
        -- right. right. apply (ev_mono _ _ _ _ Hev). rewrite upd_other by exact Hne. exact H.
    + destruct (edge_finished (plan_fuel g) g cfg prio loads d false true (s_plan s)) as [p'| |] eqn:Eef; try discriminate.
      injection E as <-. unfold was_started. cbn [s_plan s_running s_failed].
      pose proof (ef_top_evol _ _ _ false _ _ w (pi_range _ _ _ _ _ (co_pinv s C)) Ew Hwn Eef) as Hev. cbn in Hev.
      destruct (Nat.eq_dec e d) as [->|Hne].
      * right. left. left. reflexivity.
      * destruct Hws as [H|[H|H]].
        -- left. apply rem_In. split; assumption.
        -- right. left. right. exact H.
        -- right. right. apply (ev_mono _ _ _ _ Hev). exact H.
  - match type of E with (if ?X then _ else _) = _ => destruct X; [|discriminate] end.
    injection E as <-. cbn [s_phase] in Hph'. discriminate.
  - destruct (s_phase s).
    + destruct (s_waiting s); [discriminate|].
      match type of E with (match ?X with _ => _ end) = _ => destruct X as [[c m']|]; [|discriminate] end.
      match type of E with (if ?X then _ else _) = _ => destruct X; [|discriminate] end.
      injection E as <-. cbn [s_phase] in Hph'. discriminate.
    + match type of E with (if ?X then _ else _) = _ => destruct X; [|discriminate] end.
      injection E as <-. cbn [s_phase] in Hph'. discriminate.
    + discriminate.
Qed.

Lemma step_phase_stuck s ev s' : step g cfg loads s ev = Some s' -> s_phase s <> PhBuild -> s_phase s' <> PhBuild.
Proof.
  intros Hst Hph. destruct ev as [d prio| |d|d code prio| |code m];
    try (exfalso; apply Hph; apply (step_in_build s _ s' Hst); intros c m; discriminate).
  unfold step in Hst. unfold step_res in Hst; cbn [step_res_gen] in Hst. destruct (s_phase s); [congruence| |discriminate].
  match type of Hst with match (if ?X then _ else _) with _ => _ end = _ => destruct X; [|discriminate] end.
  injection Hst as <-. cbn [s_phase]. discriminate.
Qed.

Lemma accepts_was_started evs : forall s s' e, sinv s -> s_phase s = PhBuild -> was_started s e ->
  accepts g cfg loads s evs = Some s' -> s_phase s' = PhBuild -> was_started s' e.
Proof.
  induction evs as [|ev evs IH]; intros s s' e HI Hph Hws Ha Hph'; cbn [accepts] in Ha.
  - injection Ha as <-. exact Hws.
  - destruct (step g cfg loads s ev) as [s1|] eqn:E; [|discriminate].
    assert (Hph1 : s_phase s1 = PhBuild).
    { destruct (s_phase s1) eqn:E1; [reflexivity| |]; exfalso.
      - assert (H : forall evs s s', accepts g cfg loads s evs = Some s' -> s_phase s <> PhBuild -> s_phase s' <> PhBuild).
        { clear. induction evs as [|ev evs IH]; intros s s' Ha Hn; cbn [accepts] in Ha; [injection Ha as <-; exact Hn|].
          destruct (step g cfg loads s ev) as [s1|] eqn:E; [|discriminate].
          apply (IH s1 s' Ha). apply (step_phase_stuck s ev s1 E Hn). }
        apply (H evs s1 s' Ha); [rewrite E1; discriminate|exact Hph'].
      - assert (H : forall evs s s', accepts g cfg loads s evs = Some s' -> s_phase s <> PhBuild -> s_phase s' <> PhBuild).
        { clear. induction evs as [|ev evs IH]; intros s s' Ha Hn; cbn [accepts] in Ha; [injection Ha as <-; exact Hn|].
          destruct (step g cfg loads s ev) as [s1|] eqn:E; [|discriminate].
          apply (IH s1 s' Ha). apply (step_phase_stuck s ev s1 E Hn). }
        apply (H evs s1 s' Ha); [rewrite E1; discriminate|exact Hph']. }
    apply (IH s1 s' e (sinv_step s ev s1 HI E) Hph1); [|exact Ha|exact Hph'].
    apply (step_was_started s ev s1 e (proj1 HI Hph) E (or_introl Hws) Hph1).
Qed.

Theorem started_once prio sn evs1 e pr evs2 s :
  wf_snap sn -> run g cfg loads prio sn (evs1 ++ EvStart e pr :: evs2) = Some s ->
  forall pr', ~ In (EvStart e pr') evs2.
Proof.
  intros Hws Hr pr' Hin. unfold run in Hr. rewrite accepts_app in Hr.
  destruct (accepts g cfg loads (init_state g cfg prio sn) evs1) as [s1|] eqn:E1; [|discriminate].
  cbn [accepts] in Hr. destruct (step g cfg loads s1 (EvStart e pr)) as [s2|] eqn:E2; [|discriminate].
  pose proof (sinv_accepts evs1 _ s1 (sinv_init prio sn Hws) E1) as HI1.
  pose proof (sinv_step s1 _ s2 HI1 E2) as HI2.
  apply in_split in Hin. destruct Hin as [a [b Hab]]. subst evs2. rewrite accepts_app in Hr.
  destruct (accepts g cfg loads s2 a) as [s3|] eqn:E3; [|discriminate].
  cbn [accepts] in Hr. destruct (step g cfg loads s3 (EvStart e pr')) as [s4|] eqn:E4; [|discriminate].
  assert (Hph3 : s_phase s3 = PhBuild) by (apply (step_in_build s3 _ s4 E4); intros c m; discriminate).
  assert (Hph1 : s_phase s1 = PhBuild) by (apply (step_in_build s1 _ s2 E2); intros c m; discriminate).
  assert (Hph2 : s_phase s2 = PhBuild).
  { destruct (s_phase s2) eqn:E; [reflexivity| |]; exfalso.
    - assert (H : forall evs s s', accepts g cfg loads s evs = Some s' -> s_phase s <> PhBuild -> s_phase s' <> PhBuild).
      { clear. induction evs as [|ev evs IH]; intros s s' Ha Hn; cbn [accepts] in Ha; [injection Ha as <-; exact Hn|].
        destruct (step g cfg loads s ev) as [s1|] eqn:E; [|discriminate].
        apply (IH s1 s' Ha). apply (step_phase_stuck s ev s1 E Hn). }
      apply (H a s2 s3 E3); [rewrite E; discriminate|exact Hph3].
    - assert (H : forall evs s s', accepts g cfg loads s evs = Some s' -> s_phase s <> PhBuild -> s_phase s' <> PhBuild).
      { clear. induction evs as [|ev evs IH]; intros s s' Ha Hn; cbn [accepts] in Ha; [injection Ha as <-; exact Hn|].
        destruct (step g cfg loads s ev) as [s1|] eqn:E; [|discriminate].
        apply (IH s1 s' Ha). apply (step_phase_stuck s ev s1 E Hn). }
      apply (H a s2 s3 E3); [rewrite E; discriminate|exact Hph3]. }
  assert (Hws2 : was_started s2 e).
  { apply (step_was_started s1 _ s2 e (proj1 HI1 Hph1) E2); [right; exists pr; reflexivity|exact Hph2]. }
  pose proof (accepts_was_started a s2 s3 e HI2 Hph2 Hws2 E3 Hph3) as Hws3.
  pose proof (sinv_accepts a s2 s3 HI2 E3) as HI3.
  apply (was_started_not_ready s3 e (proj1 HI3 Hph3) Hws3).
  unfold step in E4. unfold step_res in E4; cbn [step_res_gen] in E4.
  match type of E4 with match (if ?X then _ else _) with _ => _ end = _ => destruct X eqn:G; [|discriminate] end.
  peel G G2. peel G G0. apply memb_In in G0. exact G0.
Qed.

(* ------------------------------------------------------------------ C20 *)
Lemma active_le_npw s : core s -> length (s_running s) + length (s_failed s) <= npw (s_plan s).
Proof.
  intros C. rewrite <- app_length. unfold npw, npwf, count_if.
  apply NoDup_incl_length.
  - pose proof (pi_nodup _ _ _ _ _ (co_pinv s C)) as H. unfold sched in H.
    apply NoDup_app_iff in H. destruct H as [_ [H _]]. apply NoDup_app_iff in H. tauto.
  - intros x Hx. apply filter_In.
    assert (Hs : In x (sched (s_plan s) (s_running s) (s_failed s))).
    { unfold sched. apply in_or_app. right. apply in_or_app. right. exact Hx. }
    destruct (pi_sched _ _ _ _ _ (co_pinv s C) x Hs) as [Hw _].
    split.
    + apply all_edges_in. apply (pi_range _ _ _ _ _ (co_pinv s C)). unfold is_wanted in Hw.
      destruct (p_want (s_plan s) x); [discriminate|discriminate Hw].
    + rewrite Hw, (co_nophony s C x Hx). reflexivity.
Qed.

Theorem counters s : reachable s -> s_phase s = PhBuild ->
  s_finished s <= s_started s /\ s_started s <= s_total s /\
  s_started s - s_finished s = length (s_running s) /\
  s_total s = p_commands (s_plan s).
Proof.
  intros Hr Hph. destruct (reachable_sinv s Hr) as [HC _]. specialize (HC Hph).
  pose proof (active_le_npw s HC) as H1. pose proof (co_commands s HC) as H2.
  pose proof (co_total s HC) as H3. pose proof (co_started s HC) as H4. pose proof (co_fin_failed s HC) as H5.
  repeat split; lia.
Qed.

Theorem counters_at_success s s' : reachable s -> step g cfg loads s (EvExit 0 MSuccess) = Some s' ->
  s_finished s = s_total s /\ s_started s = s_total s /\
  s_finished s' = s_finished s /\ s_total s' = s_total s /\ s_started s' = s_started s.
Proof.
  intros Hr Hst. destruct (reachable_sinv s Hr) as [HC _].
  destruct (s_phase s) eqn:Eph.
  - specialize (HC eq_refl).
    assert (Hsame : s_finished s' = s_finished s /\ s_total s' = s_total s /\ s_started s' = s_started s).
    { unfold step in Hst. unfold step_res in Hst; cbn [step_res_gen] in Hst. rewrite Eph in Hst. destruct (s_waiting s); [discriminate|].
      match type of Hst with match (match ?X with _ => _ end) with _ => _ end = _ => destruct X as [[c m']|]; [|discriminate] end.
      match type of Hst with match (if ?X then _ else _) with _ => _ end = _ => destruct X; [|discriminate] end.
      injection Hst as <-. repeat split. }
    destruct (exit_build s 0 MSuccess s' Eph Hst) as [_ [_ [[Hmore _]|[_ [_ [_ [_ Hm]]]]]]].
    + pose proof (active_le_npw s HC) as H1. pose proof (co_commands s HC) as H2.
      pose proof (co_total s HC) as H3. pose proof (co_started s HC) as H4. pose proof (co_fin_failed s HC) as H5.
      unfold more_to_do in Hmore. apply andb_false_iff in Hmore.
      assert (Hgoal : s_finished s = s_total s /\ s_started s = s_total s); [|tauto].
      destruct Hmore as [Hm|Hm]; apply Nat.ltb_ge in Hm.
      * assert (Hn0 : npw (s_plan s) = 0).
        { assert (Hw0 : p_wanted (s_plan s) = 0) by lia.
          rewrite (pi_wanted _ _ _ _ _ (co_pinv s HC)) in Hw0. unfold npw, npwf, count_if in *.
          destruct (filter (fun e => is_wanted (p_want (s_plan s)) e && negb (phony g e)) (all_edges g)) as [|x l] eqn:Ef; [reflexivity|].
          exfalso. assert (Hx : In x (filter (fun e => is_wanted (p_want (s_plan s)) e && negb (phony g e)) (all_edges g))) by (rewrite Ef; left; reflexivity).
          apply filter_In in Hx. destruct Hx as [Hx1 Hx2]. apply andb_true_iff in Hx2. destruct Hx2 as [Hx2 _].
          assert (Hx' : In x (filter (is_wanted (p_want (s_plan s))) (all_edges g))) by (apply filter_In; split; assumption).
          destruct (filter (is_wanted (p_want (s_plan s))) (all_edges g)); [destruct Hx'|discriminate]. }
        lia.
      * lia.
    + unfold fail_msg in Hm. destruct (Nat.eqb (s_fa s) 0); [discriminate|]. destruct (s_fa s <? c_k cfg); discriminate.
  - destruct (exit_interrupted_phase s 0 MSuccess s' Eph Hst) as [H _]. discriminate.
  - unfold step in Hst. unfold step_res in Hst; cbn [step_res_gen] in Hst. rewrite Eph in Hst. discriminate.
Qed.

(* ------------------------------------------------------------------ fuel is sufficient; Finish is enabled *)
(* the measure: edges that are not yet completely done (outputs_ready and out of want_); every call of
   EdgeFinished completes one, a dyndep load completes some and starts none *)
Definition undoneb (p : plan) (x : nat) : bool := negb (p_oready p x) || in_want p x.
Definition cw (p : plan) : nat := count_if (undoneb p) (all_edges g).
Definition wrange (p : plan) : Prop := forall e, p_want p e <> None -> e < n_edges g.

Lemma undoneb_spec p x : undoneb p x = true <-> (p_oready p x = false \/ p_want p x <> None).
Proof.
  unfold undoneb, in_want. destruct (p_oready p x); destruct (p_want p x); cbn; split; intros H;
    try reflexivity; try discriminate; try (left; reflexivity); try (right; discriminate).
  destruct H as [H|H]; [discriminate|congruence].
Qed.

Lemma evol_cw p p' : evol p p' -> wrange p -> cw p' <= cw p /\ wrange p'.
Proof.
  intros He Hr. split.
  - unfold cw. apply count_le. intros x Hx. apply undoneb_spec. apply (ev_undone _ _ _ _ He x).
    apply undoneb_spec. exact Hx.
  - intros x Hx. apply (evol_range p p' He Hr x Hx).
Qed.

Lemma cw_erase p d R D u n c t l : wrange p -> p_want p d <> None ->
  cw p = S (cw (mkPlan (upd (p_want p) d None) R D u n c (upd (p_oready p) d true) t l)) /\
  wrange (mkPlan (upd (p_want p) d None) R D u n c (upd (p_oready p) d true) t l).
Proof.
  intros Hr Hd. split.
  - unfold cw. apply (count_flip _ _ d); [apply all_edges_nodup|apply all_edges_in; apply Hr; exact Hd| | |].
    + apply undoneb_spec. right. exact Hd.
    + unfold undoneb, in_want. psimpl. rewrite !upd_same. reflexivity.
    + intros x Hx. unfold undoneb, in_want. psimpl. rewrite !upd_other by exact Hx. reflexivity.
  - intros x Hx. psimpl. apply Hr. unfold upd in Hx. destruct (Nat.eqb x d); [congruence|exact Hx].
Qed.

Lemma retrieve_cw prio q p : cw (retrieve g prio q p) = cw p /\ (wrange p -> wrange (retrieve g prio q p)).
Proof.
  split.
  - unfold cw, undoneb, in_want. rewrite retrieve_want, retrieve_oready. reflexivity.
  - intros H x. rewrite retrieve_want. apply H.
Qed.

Lemma schedule_work_not_fuel prio d p : schedule_work g prio d p <> OutOfFuel.
Proof.
  unfold schedule_work. destruct (p_want p d) as [[| |]|]; try discriminate.
  destruct (Nat.eqb (depth g (pool g d)) 0); discriminate.
Qed.

Lemma apply_load_not_fuel e p : apply_load g loads e p <> OutOfFuel.
Proof.
  unfold apply_load, apply_load_gen. destruct (bound g p e); [discriminate|]. destruct (loads e) as [L|]; [|discriminate].
  match goal with |- match ?X with _ => _ end <> _ => destruct X; [|discriminate] end.
  match goal with |- (if ?X then _ else _) <> _ => destruct X; [|discriminate] end.
  match goal with |- (if ?X then _ else _) <> _ => destruct X; [|discriminate] end.
  match goal with |- match ?X with _ => _ end <> _ => destruct X; [|discriminate] end.
  match goal with |- (if ?X then _ else _) <> _ => destruct X; discriminate end.
Qed.

Definition fuel_rec (fuel : nat) : Prop :=
  forall prio d p, wrange p -> p_want p d = Some WNothing -> cw p < fuel ->
    edge_finished fuel g cfg prio loads d true false p <> OutOfFuel.
Definition fuel_fold (fuel : nat) : Prop :=
  forall prio l p, wrange p -> cw p < fuel -> fold_res (visit fuel prio) l p <> OutOfFuel.

Lemma fuel_fold_of_rec fuel : fuel_rec fuel -> fuel_fold fuel.
Proof.
  intros Hrec prio l. induction l as [|d l IH]; intros p Hr Hc; cbn [fold_res]; [discriminate|].
  destruct (visit fuel prio d p) as [p1| |] eqn:Ev; [|discriminate|].
  - assert (He : evol p p1).
    { unfold visit in Ev. destruct (p_want p d) as [wd|] eqn:Ewd; [|injection Ev as <-; apply evol_refl].
      destruct (all_inputs_ready g p d); [|injection Ev as <-; apply evol_refl].
      destruct wd; cbn [want_eqb] in Ev.
      - apply (proj1 (ef_evol_all fuel) prio d p p1 Hr Ewd Ev).
      - apply (schedule_work_evol prio d p p1 Ev).
      - apply (schedule_work_evol prio d p p1 Ev). }
    destruct (evol_cw p p1 He Hr) as [H1 H2]. apply IH; [exact H2|lia].
  - exfalso. unfold visit in Ev. destruct (p_want p d) as [wd|] eqn:Ewd; [|discriminate].
    destruct (all_inputs_ready g p d); [|discriminate].
    destruct wd; cbn [want_eqb] in Ev.
    + apply (Hrec prio d p Hr Ewd Hc Ev).
    + apply (schedule_work_not_fuel prio d p Ev).
    + apply (schedule_work_not_fuel prio d p Ev).
Qed.

Lemma after_done_fuel fuel prio e p4 : fuel_fold fuel -> wrange p4 -> cw p4 < fuel ->
  after_done fuel prio e p4 <> OutOfFuel.
Proof.
  intros Hfold Hr Hc. unfold after_done.
  destruct (apply_load g loads e p4) as [[p5 walk]| |] eqn:El; [|discriminate|exfalso; exact (apply_load_not_fuel e p4 El)].
  pose proof (apply_load_evol e p4 p5 walk (or_intror I) Hr El) as He.
  destruct (evol_cw p4 p5 He Hr) as [H1 H2]. apply Hfold; [exact H2|lia].
Qed.

Lemma fuel_all fuel : fuel_rec fuel /\ fuel_fold fuel.
Proof.
  induction fuel as [|fuel [IH1 IH2]].
  - assert (H0 : fuel_rec 0) by (intros prio d p _ _ H; lia). split; [exact H0|apply fuel_fold_of_rec; exact H0].
  - assert (H1 : fuel_rec (S fuel)).
    { intros prio d p Hr Hw Hc. rewrite (ef_nothing_eq fuel prio d p Hw).
      assert (Hd : p_want p d <> None) by congruence.
      destruct (cw_erase p d (p_ready p) (p_delayed p) (p_use p) (p_wanted p) (p_commands p) (p_tokens p) (p_loaded p) Hr Hd) as [E1 E2].
      destruct (retrieve_cw prio (pool g d) (mkPlan (upd (p_want p) d None) (p_ready p) (p_delayed p) (p_use p) (p_wanted p) (p_commands p) (upd (p_oready p) d true) (p_tokens p) (p_loaded p))) as [E3 E4].
      apply (after_done_fuel fuel prio d _ IH2); [apply E4; exact E2|lia]. }
    split; [exact H1|apply fuel_fold_of_rec; exact H1].
Qed.

Lemma cw_le_n p : cw p <= n_edges g.
Proof.
  unfold cw, count_if. pose proof (filter_len_le (undoneb p) (all_edges g)) as H.
  unfold all_edges in H at 2. rewrite seq_length in H. exact H.
Qed.

Theorem edge_finished_fuel_sufficient prio e succ p w :
  wrange p -> p_want p e = Some w -> w <> WNothing ->
  edge_finished (plan_fuel g) g cfg prio loads e succ true p <> OutOfFuel.
Proof.
  intros Hr Hw Hn. unfold plan_fuel. rewrite (ef_top_eq (n_edges g) prio e succ p w Hw Hn).
  destruct (rel_use p (pool g e)) as [u|]; [|discriminate].
  destruct (rel_tok p) as [t|]; [|discriminate].
  destruct (negb succ); [discriminate|].
  destruct (p_wanted p) as [|n]; [discriminate|].
  assert (Hd : p_want p e <> None) by congruence.
  destruct (cw_erase p e (p_ready p) (p_delayed p) u n (p_commands p) t (p_loaded p) Hr Hd) as [E1 E2].
  destruct (retrieve_cw prio (pool g e) (mkPlan (upd (p_want p) e None) (p_ready p) (p_delayed p) u n (p_commands p) (upd (p_oready p) e true) t (p_loaded p))) as [E3 E4].
  apply (after_done_fuel (n_edges g) prio e _ (proj2 (fuel_all (n_edges g)))); [apply E4; exact E2|].
  pose proof (cw_le_n p). lia.
Qed.

(* never Forbidden in the recursion -- when no dyndep file is pending (a load can be Forbidden: it
   depends on what the trace says the re-scan decided) *)
Definition no_pending_dyndep : Prop := forall x, ddprod g x = None.

Lemma schedule_work_not_forbidden prio d p : is_wanted (p_want p) d = true -> schedule_work g prio d p <> Forbidden.
Proof.
  unfold schedule_work, is_wanted. destruct (p_want p d) as [[| |]|]; try discriminate.
  destruct (Nat.eqb (depth g (pool g d)) 0); discriminate.
Qed.

Lemma apply_load_nodd e p : no_pending_dyndep -> apply_load g loads e p = Ok (p, []).
Proof.
  intros H. unfold apply_load, apply_load_gen. assert (Hb : bound g p e = []).
  { unfold bound. induction (all_edges g) as [|x l IH]; [reflexivity|]. cbn [filter]. rewrite (H x). exact IH. }
  rewrite Hb. reflexivity.
Qed.

Lemma forbidden_all fuel : no_pending_dyndep ->
  (forall prio d p, p_want p d = Some WNothing -> edge_finished fuel g cfg prio loads d true false p <> Forbidden) /\
  (forall prio l p, fold_res (visit fuel prio) l p <> Forbidden).
Proof.
  intros Hnodd.
  assert (Hfold : forall fuel,
    (forall prio d p, p_want p d = Some WNothing -> edge_finished fuel g cfg prio loads d true false p <> Forbidden) ->
    forall prio l p, fold_res (visit fuel prio) l p <> Forbidden).
  { intros f Hrec prio l. induction l as [|d l IH]; intros p; cbn [fold_res]; [discriminate|].
    destruct (visit f prio d p) as [p1| |] eqn:Ev; [apply IH| |discriminate].
    exfalso. unfold visit in Ev. destruct (p_want p d) as [wd|] eqn:Ewd; [|discriminate].
    destruct (all_inputs_ready g p d); [|discriminate].
    destruct wd; cbn [want_eqb] in Ev.
    - apply (Hrec prio d p Ewd Ev).
    - apply (schedule_work_not_forbidden prio d p); [unfold is_wanted; rewrite Ewd; reflexivity|exact Ev].
    - apply (schedule_work_not_forbidden prio d p); [unfold is_wanted; rewrite Ewd; reflexivity|exact Ev]. }
  induction fuel as [|fuel [IH1 IH2]].
  - assert (H0 : forall prio d p, p_want p d = Some WNothing -> edge_finished 0 g cfg prio loads d true false p <> Forbidden) by (intros; discriminate).
    split; [exact H0|apply Hfold; exact H0].
  - assert (H1 : forall prio d p, p_want p d = Some WNothing -> edge_finished (S fuel) g cfg prio loads d true false p <> Forbidden).
    { intros prio d p Hw. rewrite (ef_nothing_eq fuel prio d p Hw). unfold after_done.
      rewrite (apply_load_nodd d _ Hnodd). apply IH2. }
    split; [exact H1|apply Hfold; exact H1].
Qed.

Lemma ef_top_ok prio e succ A F p : no_pending_dyndep -> pinv QT [] A F p -> In e A ->
  exists p', edge_finished (plan_fuel g) g cfg prio loads e succ true p = Ok p'.
Proof.
  intros Hnodd HI Hin. pose proof (pinv_nodup_A _ _ _ _ _ HI) as HndA.
  pose proof HI as [I1 I2 I3 I4 I5 I6 I7 I8 I9 I10 I11 I12 I13 I14 I15 I16].
  destruct (I2 e (in_sched_A p A F e Hin)) as [Hw Ha]. pose proof Hw as Hiw. unfold is_wanted in Hw.
  destruct (p_want p e) as [w|] eqn:Ew; [|discriminate].
  assert (Hwn : w <> WNothing) by (intros ->; discriminate).
  pose proof (edge_finished_fuel_sufficient prio e succ p w I10 Ew Hwn) as Hfuel.
  destruct (edge_finished (plan_fuel g) g cfg prio loads e succ true p) as [p'| |] eqn:E; [exists p'; reflexivity| |congruence].
  exfalso. unfold plan_fuel in E. rewrite (ef_top_eq (n_edges g) prio e succ p w Ew Hwn) in E.
  assert (Hu : rel_use p (pool g e) <> None).
  { unfold rel_use. destruct (Nat.eqb_spec (depth g (pool g e)) 0) as [Hz|Hnz]; cbn [negb]; [discriminate|].
    assert (Hpos : 0 < depth g (pool g e)) by lia. destruct (I11 _ Hpos) as [Hu _].
    pose proof (cnt_rem g (pool g e) e A HndA Hin) as Hc. rewrite Nat.eqb_refl in Hc.
    destruct (p_use p (pool g e)); [lia|discriminate]. }
  destruct (rel_use p (pool g e)) as [u|]; [|congruence].
  assert (Ht : rel_tok p <> None).
  { unfold rel_tok. rewrite I15. rewrite (rem_length e A HndA Hin). destruct (c_jobserver cfg); discriminate. }
  destruct (rel_tok p) as [t|]; [|congruence].
  destruct (negb succ); [discriminate|].
  assert (Hwd : 1 <= p_wanted p).
  { rewrite I14. apply (count_ge_one _ _ e); [apply all_edges_in; apply I10; congruence|exact Hiw]. }
  destruct (p_wanted p) as [|n]; [lia|].
  unfold after_done in E. rewrite (apply_load_nodd e _ Hnodd) in E.
  apply (proj2 (forbidden_all (n_edges g) Hnodd) _ _ _ E).
Qed.

(* C05 drain: whatever the budget, a running command can always be waited for and reaped *)
Theorem wait_enabled s : reachable s -> s_phase s = PhBuild -> s_waiting s = false ->
  s_running s <> [] -> can_start cfg s = false -> exists s', step g cfg loads s EvWait = Some s'.
Proof.
  intros Hr Hph Hw Hrun Hcs. destruct (reachable_sinv s Hr) as [HC _]. specialize (HC Hph).
  unfold step. unfold step_res; cbn [step_res_gen]. unfold in_build. rewrite Hph, Hw, Hcs. cbn [negb andb].
  destruct (s_running s) as [|x l] eqn:Er; [congruence|].
  assert (Hx : In x (s_running s ++ s_failed s)) by (rewrite Er; left; reflexivity).
  rewrite (more_to_do_of_active s x HC Hx). rewrite (co_pending s HC), Er. cbn [length Nat.ltb Nat.leb andb].
  eexists. reflexivity.
Qed.

Theorem finish_enabled s e code prio : no_pending_dyndep ->
  reachable s -> s_phase s = PhBuild -> s_waiting s = true ->
  In e (s_running s) -> code <> exit_interrupted ->
  exists s', step g cfg loads s (EvFinish e code prio) = Some s'.
Proof.
  intros Hnodd Hr Hph Hw Hin Hcode. destruct (reachable_sinv s Hr) as [HC _]. specialize (HC Hph).
  unfold step. unfold step_res; cbn [step_res_gen]. unfold in_build. rewrite Hph, Hw. cbn [andb].
  assert (E1 : memb e (s_running s) = true) by (apply memb_In; exact Hin).
  assert (E2 : Nat.eqb code exit_interrupted = false) by (apply Nat.eqb_neq; exact Hcode).
  rewrite E1, E2. cbn [negb andb].
  pose proof (co_pending s HC) as Hp. destruct (s_running s) as [|x l] eqn:Er; [destruct Hin|].
  rewrite Hp. cbn [length]. rewrite <- Er in *.
  destruct (Nat.eqb code 0).
  - destruct (ef_top_ok prio e true _ _ _ Hnodd (co_pinv s HC) Hin) as [p' Hp']. rewrite Hp'. eexists. reflexivity.
  - destruct (ef_top_ok prio e false _ _ _ Hnodd (co_pinv s HC) Hin) as [p' Hp']. rewrite Hp'. eexists. reflexivity.
Qed.

Lemma ef_top_not_fuel prio e succ A F p : pinv QT [] A F p -> In e A ->
  edge_finished (plan_fuel g) g cfg prio loads e succ true p <> OutOfFuel.
Proof.
  intros HI Hin.
  destruct (pi_sched _ _ _ _ _ HI e (in_sched_A p A F e Hin)) as [Hw _]. unfold is_wanted in Hw.
  destruct (p_want p e) as [w|] eqn:Ew; [|discriminate].
  assert (Hwn : w <> WNothing) by (intros ->; discriminate).
  apply (edge_finished_fuel_sufficient prio e succ p w (pi_range _ _ _ _ _ HI) Ew Hwn).
Qed.

Theorem step_res_fuel_sufficient s ev : reachable s -> step_res g cfg loads s ev <> OutOfFuel.
Proof.
  intros Hr. destruct (reachable_sinv s Hr) as [HC _].
  destruct ev as [e prio| |e|e code prio| |code m]; unfold step_res; cbn [step_res_gen].
  - match goal with |- (if ?X then _ else _) <> _ => destruct X eqn:G; [|discriminate] end.
    peel G G2. peel G G0. peel G G1. peel G Gfa. peel G Gmore. peel G Gnw.
    apply in_build_true in G. apply memb_In in G0. specialize (HC G).
    pose proof (start_pop_pinv (s_plan s) (s_running s) (s_failed s) e (co_pinv s HC) G0) as HP.
    destruct (phony g e); [|discriminate].
    match goal with |- match edge_finished _ _ _ _ _ _ _ _ ?P with _ => _ end <> _ =>
      pose proof (ef_top_not_fuel prio e true _ _ P HP (or_introl eq_refl)) as Hnf;
      destruct (edge_finished (plan_fuel g) g cfg prio loads e true true P) end; [discriminate|discriminate|congruence].
  - match goal with |- (if ?X then _ else _) <> _ => destruct X; discriminate end.
  - match goal with |- (if ?X then _ else _) <> _ => destruct X; [|discriminate] end.
    destruct (p_wanted (s_plan s)); [discriminate|]. destruct (phony g e); [discriminate|].
    destruct (p_commands _); [discriminate|]. destruct (s_total s); discriminate.
  - match goal with |- (if ?X then _ else _) <> _ => destruct X eqn:G; [|discriminate] end.
    peel G Gcode. peel G G1. peel G Gwait. apply in_build_true in G. apply memb_In in G1. specialize (HC G).
    destruct (s_pending s); [discriminate|].
    destruct (Nat.eqb code 0).
    + pose proof (ef_top_not_fuel prio e true _ _ _ (co_pinv s HC) G1) as Hnf.
      destruct (edge_finished (plan_fuel g) g cfg prio loads e true true (s_plan s)); [discriminate|discriminate|congruence].
    + pose proof (ef_top_not_fuel prio e false _ _ _ (co_pinv s HC) G1) as Hnf.
      destruct (edge_finished (plan_fuel g) g cfg prio loads e false true (s_plan s)); [discriminate|discriminate|congruence].
  - match goal with |- (if ?X then _ else _) <> _ => destruct X; discriminate end.
  - destruct (s_phase s); [|destruct (_ && _); discriminate|discriminate].
    destruct (s_waiting s); [discriminate|].
    match goal with |- (match ?X with _ => _ end) <> _ => destruct X as [[c m']|]; [|discriminate] end.
    destruct (_ && _); discriminate.
Qed.

(* ------------------------------------------------------------------ C04: where outputs_ready comes from *)

Definition Lorig (i : nat) : Prop := LRd i \/ LAn i.

Lemma step_origin s ev s' i : core s -> step g cfg loads s ev = Some s' ->
  (p_oready (s_plan s') i = true ->
     p_oready (s_plan s) i = true \/ (exists pr, ev = EvFinish i 0 pr) \/
     (exists pr, ev = EvStart i pr /\ phony g i = true) \/ p_want (s_plan s) i = Some WNothing \/ Lorig i) /\
  (p_want (s_plan s') i = Some WNothing -> p_want (s_plan s) i = Some WNothing \/ ev = EvPrune i \/ LAn i).
Proof.
  intros C Hst. unfold step in Hst.
  destruct (step_res g cfg loads s ev) as [s1| |] eqn:E; try discriminate. injection Hst as <-.
  assert (Hevolf : forall w o c p' e, evolf w o c p' -> w = upd (p_want (s_plan s)) e None ->
            o = upd (p_oready (s_plan s)) e true ->
            (p_oready p' i = true -> p_oready (s_plan s) i = true \/ i = e \/ p_want (s_plan s) i = Some WNothing \/ Lorig i) /\
            (p_want p' i = Some WNothing -> p_want (s_plan s) i = Some WNothing \/ LAn i)).
  { intros w o c p' e Hev -> ->. split.
    - intros H. destruct (Nat.eq_dec i e) as [Heq|Hne]; [right; left; exact Heq|].
      destruct (ev_oready _ _ _ _ Hev i H) as [H1|[H1|[H1|H1]]].
      + left. rewrite upd_other in H1 by exact Hne. exact H1.
      + right. right. left. rewrite upd_other in H1 by exact Hne. exact H1.
      + right. right. right. left. exact H1.
      + right. right. right. right. exact H1.
    - intros H. destruct (ev_nothing _ _ _ _ Hev i H) as [H1|H1]; [left|right; exact H1].
      unfold upd in H1. destruct (Nat.eqb i e); [discriminate|exact H1]. }
  assert (Hevol : forall p', evol (s_plan s) p' ->
            (p_oready p' i = true -> p_oready (s_plan s) i = true \/ p_want (s_plan s) i = Some WNothing \/ Lorig i) /\
            (p_want p' i = Some WNothing -> p_want (s_plan s) i = Some WNothing \/ LAn i)).
  { intros p' Hev. split.
    - intros H. destruct (ev_oready _ _ _ _ Hev i H) as [H1|[H1|[H1|H1]]];
        [left; exact H1|right; left; exact H1|right; right; left; exact H1|right; right; right; exact H1].
    - intros H. apply (ev_nothing _ _ _ _ Hev i H). }
  destruct ev as [d prio| |d|d code prio| |code m]; unfold step_res in E; cbn [step_res_gen] in E.
  - match type of E with (if ?X then _ else _) = _ => destruct X eqn:G; [|discriminate] end.
    peel G G2. peel G G0. apply memb_In in G0.
    pose proof (start_pop_pinv (s_plan s) (s_running s) (s_failed s) d (co_pinv s C) G0) as HP.
    set (p2 := match c_jobserver cfg with
               | None => set_ready (s_plan s) (rem d (p_ready (s_plan s)))
               | Some _ => _ end) in *.
    assert (Hp2o : p_oready p2 = p_oready (s_plan s)) by (unfold p2; destruct (c_jobserver cfg); reflexivity).
    assert (Hp2w : p_want p2 = p_want (s_plan s)) by (unfold p2; destruct (c_jobserver cfg); reflexivity).
    assert (Hp2c : p_commands p2 = p_commands (s_plan s)) by (unfold p2; destruct (c_jobserver cfg); reflexivity).
    destruct (phony g d) eqn:Eph.
    + destruct (edge_finished (plan_fuel g) g cfg prio loads d true true p2) as [p3| |] eqn:Eef; try discriminate.
      injection E as <-. cbn [s_plan].
      destruct (pi_sched _ _ _ _ _ HP d (in_sched_A p2 (d :: s_running s) (s_failed s) d (or_introl eq_refl))) as [Hw _].
      unfold is_wanted in Hw. destruct (p_want p2 d) as [w|] eqn:Ew; [|discriminate].
      assert (Hwn : w <> WNothing) by (intros ->; discriminate).
      pose proof (ef_top_evol _ _ _ true _ _ w (pi_range _ _ _ _ _ HP) Ew Hwn Eef) as Hev. cbn in Hev.
      rewrite Hp2o, Hp2w in Hev. destruct (Hevolf _ _ _ p3 d Hev eq_refl eq_refl) as [H1 H2].
      split.
      * intros H. destruct (H1 H) as [H'|[H'|[H'|H']]];
          [left; exact H'| |right; right; right; left; exact H'|right; right; right; right; exact H'].
        subst i. right. right. left. exists prio. split; [reflexivity|exact Eph].
      * intros H. destruct (H2 H) as [H'|H']; [left; exact H'|right; right; exact H'].
    + injection E as <-. cbn [s_plan]. rewrite Hp2o, Hp2w. split; intros H; left; exact H.
  - match type of E with (if ?X then _ else _) = _ => destruct X; [|discriminate] end.
    injection E as <-. cbn [s_plan]. split; intros H; left; exact H.
  - match type of E with (if ?X then _ else _) = _ => destruct X; [|discriminate] end.
    destruct (p_wanted (s_plan s)) as [|w]; [discriminate|].
    assert (Hcommon : forall p', p_oready p' = p_oready (s_plan s) ->
              p_want p' = upd (p_want (s_plan s)) d (Some WNothing) ->
              (p_oready p' i = true -> p_oready (s_plan s) i = true \/ (exists pr, EvPrune d = EvFinish i 0 pr) \/
                 (exists pr, EvPrune d = EvStart i pr /\ phony g i = true) \/ p_want (s_plan s) i = Some WNothing \/ Lorig i) /\
              (p_want p' i = Some WNothing -> p_want (s_plan s) i = Some WNothing \/ EvPrune d = EvPrune i \/ LAn i)).
    { intros p' Ho Hw'. rewrite Ho, Hw'. split; [intros H; left; exact H|].
      intros H. destruct (Nat.eq_dec i d) as [Heq|Hne]; [subst i; right; left; reflexivity|].
      left. rewrite upd_other in H by exact Hne. exact H. }
    destruct (phony g d).
    + injection E as <-. unfold set_plan. cbn [s_plan]. apply Hcommon; reflexivity.
    + match type of E with (match ?X with _ => _ end) = _ => destruct X; try discriminate end.
      destruct (s_total s); [discriminate|]. injection E as <-. cbn [s_plan]. apply Hcommon; reflexivity.
  - match type of E with (if ?X then _ else _) = _ => destruct X eqn:G; [|discriminate] end.
    peel G Gcode. peel G G1. apply memb_In in G1.
    destruct (s_pending s); [discriminate|].
    destruct (pi_sched _ _ _ _ _ (co_pinv s C) d (in_sched_A _ _ _ d G1)) as [Hw _].
    unfold is_wanted in Hw. destruct (p_want (s_plan s) d) as [w|] eqn:Ew; [|discriminate].
    assert (Hwn : w <> WNothing) by (intros ->; discriminate).
    destruct (Nat.eqb_spec code 0) as [Hc|Hc].
    + destruct (edge_finished (plan_fuel g) g cfg prio loads d true true (s_plan s)) as [p'| |] eqn:Eef; try discriminate.
      injection E as <-. cbn [s_plan].
      pose proof (ef_top_evol _ _ _ true _ _ w (pi_range _ _ _ _ _ (co_pinv s C)) Ew Hwn Eef) as Hev. cbn in Hev.
      destruct (Hevolf _ _ _ p' d Hev eq_refl eq_refl) as [H1 H2]. split.
      * intros H. destruct (H1 H) as [H'|[H'|[H'|H']]];
          [left; exact H'| |right; right; right; left; exact H'|right; right; right; right; exact H'].
        subst i. right. left. exists prio. rewrite Hc. reflexivity.
      * intros H. destruct (H2 H) as [H'|H']; [left; exact H'|right; right; exact H'].
    + destruct (edge_finished (plan_fuel g) g cfg prio loads d false true (s_plan s)) as [p'| |] eqn:Eef; try discriminate.
      injection E as <-. cbn [s_plan].
      pose proof (ef_top_evol _ _ _ false _ _ w (pi_range _ _ _ _ _ (co_pinv s C)) Ew Hwn Eef) as Hev. cbn in Hev.
      destruct (Hevol p' Hev) as [H1 H2]. split.
      * intros H. destruct (H1 H) as [H'|[H'|H']]; [left; exact H'|right; right; right; left; exact H'|right; right; right; right; exact H'].
      * intros H. destruct (H2 H) as [H'|H']; [left; exact H'|right; right; exact H'].
  - match type of E with (if ?X then _ else _) = _ => destruct X; [|discriminate] end.
    injection E as <-. cbn [s_plan]. split; intros H; left; exact H.
  - destruct (s_phase s).
    + destruct (s_waiting s); [discriminate|].
      match type of E with (match ?X with _ => _ end) = _ => destruct X as [[c m']|]; [|discriminate] end.
      match type of E with (if ?X then _ else _) = _ => destruct X; [|discriminate] end.
      injection E as <-. cbn [s_plan]. split; intros H; left; exact H.
    + match type of E with (if ?X then _ else _) = _ => destruct X; [|discriminate] end.
      injection E as <-. cbn [s_plan]. split; intros H; left; exact H.
    + discriminate.
Qed.

Lemma exit_plan_same s c m s' : step g cfg loads s (EvExit c m) = Some s' -> s_plan s' = s_plan s.
Proof.
  unfold step. unfold step_res; cbn [step_res_gen]. destruct (s_phase s).
  - destruct (s_waiting s); [discriminate|].
    match goal with |- match (match ?X with _ => _ end) with _ => _ end = _ -> _ => destruct X as [[c' m']|]; [|discriminate] end.
    match goal with |- match (if ?X then _ else _) with _ => _ end = _ -> _ => destruct X; [|discriminate] end.
    intros H. injection H as <-. reflexivity.
  - match goal with |- match (if ?X then _ else _) with _ => _ end = _ -> _ => destruct X; [|discriminate] end.
    intros H. injection H as <-. reflexivity.
  - discriminate.
Qed.

Definition fin_ok (evs : list event) (i : nat) : Prop :=
  (exists pr, In (EvFinish i 0 pr) evs) \/ (exists pr, In (EvStart i pr) evs /\ phony g i = true).

Lemma accepts_origin evs : forall s s' i, sinv s -> accepts g cfg loads s evs = Some s' ->
  (p_oready (s_plan s') i = true ->
     p_oready (s_plan s) i = true \/ fin_ok evs i \/ p_want (s_plan s) i = Some WNothing \/
     In (EvPrune i) evs \/ Lorig i) /\
  (p_want (s_plan s') i = Some WNothing ->
     p_want (s_plan s) i = Some WNothing \/ In (EvPrune i) evs \/ LAn i).
Proof.
  induction evs as [|ev evs IH]; intros s s' i HI Ha; cbn [accepts] in Ha.
  - injection Ha as <-. split; intros H; left; exact H.
  - destruct (step g cfg loads s ev) as [s1|] eqn:E; [|discriminate].
    destruct (IH s1 s' i (sinv_step s ev s1 HI E) Ha) as [IH1 IH2].
    assert (Hstep : (p_oready (s_plan s1) i = true ->
              p_oready (s_plan s) i = true \/ (exists pr, ev = EvFinish i 0 pr) \/
              (exists pr, ev = EvStart i pr /\ phony g i = true) \/ p_want (s_plan s) i = Some WNothing \/ Lorig i) /\
            (p_want (s_plan s1) i = Some WNothing -> p_want (s_plan s) i = Some WNothing \/ ev = EvPrune i \/ LAn i)).
    { destruct ev as [d prio| |d|d code prio| |code m];
        try (apply (step_origin s _ s1 i); [apply (core_of_step s _ s1 HI E); intros c m; discriminate|exact E]).
      rewrite (exit_plan_same s code m s1 E). split; intros H; left; exact H. }
    destruct Hstep as [S1 S2].
    assert (Hn : p_want (s_plan s1) i = Some WNothing ->
                 p_want (s_plan s) i = Some WNothing \/ In (EvPrune i) (ev :: evs) \/ LAn i).
    { intros H. destruct (S2 H) as [H'|[H'|H']]; [left; exact H'|right; left; left; exact H'|right; right; exact H']. }
    split.
    + intros H. destruct (IH1 H) as [H1|[[[pr H1]|[pr [H1 H1']]]|[H1|[H1|H1]]]].
      * destruct (S1 H1) as [H2|[[pr H2]|[[pr [H2 H2']]|[H2|H2]]]].
        -- left. exact H2.
        -- right. left. left. exists pr. left. exact H2.
        -- right. left. right. exists pr. split; [left; exact H2|exact H2'].
        -- right. right. left. exact H2.
        -- right. right. right. right. exact H2.
      * right. left. left. exists pr. right. exact H1.
      * right. left. right. exists pr. split; [right; exact H1|exact H1'].
      * destruct (Hn H1) as [H2|[H2|H2]];
          [right; right; left; exact H2|right; right; right; left; exact H2|right; right; right; right; right; exact H2].
      * right. right. right. left. right. exact H1.
      * right. right. right. right. exact H1.
    + intros H. destruct (IH2 H) as [H1|[H1|H1]]; [apply Hn; exact H1|right; left; right; exact H1|right; right; exact H1].
Qed.

Lemma sched_init_origin : forall l p,
  p_oready (fold_left (fun pp e => sched_init_edge g e pp) l p) = p_oready p /\
  forall i, p_want (fold_left (fun pp e => sched_init_edge g e pp) l p) i = Some WNothing -> p_want p i = Some WNothing.
Proof.
  induction l as [|e l IH]; intros p; cbn [fold_left]; [split; [reflexivity|intros i H; exact H]|].
  destruct (IH (sched_init_edge g e p)) as [H1 H2].
  assert (Ho : p_oready (sched_init_edge g e p) = p_oready p).
  { unfold sched_init_edge. destruct (p_want p e) as [[| |]|]; try reflexivity.
    destruct (all_inputs_ready g p e); [|reflexivity]. destruct (Nat.eqb (depth g (pool g e)) 0); reflexivity. }
  split; [rewrite H1; exact Ho|]. intros i H. specialize (H2 i H).
  unfold sched_init_edge in H2. destruct (p_want p e) as [[| |]|] eqn:Ew; try exact H2.
  destruct (all_inputs_ready g p e); [|exact H2].
  destruct (Nat.eqb (depth g (pool g e)) 0); psimpl; unfold upd in H2;
    (destruct (Nat.eqb i e); [discriminate|exact H2]).
Qed.

Lemma init_origin prio sn :
  p_oready (s_plan (init_state g cfg prio sn)) = sn_oready sn /\
  forall i, p_want (s_plan (init_state g cfg prio sn)) i = Some WNothing -> sn_want sn i = Some WNothing.
Proof.
  unfold init_state. cbn [s_plan]. unfold schedule_initial_plan.
  set (p1 := fold_left (fun pp e => sched_init_edge g e pp) (all_edges g) (snap_plan sn)).
  assert (H : forall l p, p_oready (fold_left (fun pp q => retrieve g prio q pp) l p) = p_oready p /\
                          p_want (fold_left (fun pp q => retrieve g prio q pp) l p) = p_want p).
  { induction l as [|q l IH]; intros p; cbn [fold_left]; [split; reflexivity|].
    destruct (IH (retrieve g prio q p)) as [H1 H2]. rewrite H1, H2, retrieve_oready, retrieve_want. split; reflexivity. }
  destruct (H (seq 0 (length (g_depths g))) p1) as [H1 H2]. rewrite H1, H2.
  destruct (sched_init_origin (all_edges g) (snap_plan sn)) as [H3 H4]. fold p1 in H3, H4.
  split; [exact H3|]. intros i Hi. apply (H4 i Hi).
Qed.

(* every edge whose outputs are ready was ready at scan time, or finished successfully earlier in the
   trace (a command, or a phony edge "started" = finished at once), or was not wanted (kWantNothing
   from the scan, or pruned by restat) and was checked off once its own inputs were ready, or -- after a
   dyndep load -- the re-scan found it up to date / put it into want_ as not wanted ([Lorig]) *)
Theorem oready_origin prio sn evs s i : wf_snap sn -> run g cfg loads prio sn evs = Some s ->
  p_oready (s_plan s) i = true ->
  sn_oready sn i = true \/ fin_ok evs i \/ sn_want sn i = Some WNothing \/ In (EvPrune i) evs \/ Lorig i.
Proof.
  intros Hws Hr Ho. unfold run in Hr.
  destruct (accepts_origin evs _ s i (sinv_init prio sn Hws) Hr) as [H1 _].
  destruct (init_origin prio sn) as [I1 I2].
  destruct (H1 Ho) as [H|[H|[H|[H|H]]]].
  - left. rewrite I1 in H. exact H.
  - right. left. exact H.
  - right. right. left. apply I2. exact H.
  - right. right. right. left. exact H.
  - right. right. right. right. exact H.
Qed.


(* ------------------------------------------------------------------ the invariant, spelled out *)
Definition plan_inv (s : state) : Prop :=
  let p := s_plan s in
  let sch := p_ready p ++ p_delayed p ++ s_running s ++ s_failed s in
  (* ready_, the pools' delayed_ sets, the running commands and the failed commands are disjoint *)
  NoDup sch /\
  (* exactly their members are kWantToFinish ... *)
  (forall e, In e sch <-> p_want p e = Some WToFinish) /\
  (* ... and all their inputs (as known now: manifest, deps, loaded dyndep files) are ready *)
  (forall e, In e sch -> all_inputs_ready g p e = true) /\
  (* an edge that is wanted-to-start or in want_ only for its dependents still waits for an input *)
  (forall e, p_want p e = Some WToStart \/ p_want p e = Some WNothing -> all_inputs_ready g p e = false) /\
  (* outputs_ready edges have left want_, and their inputs are ready *)
  (forall e, p_oready p e = true -> p_want p e = None /\ all_inputs_ready g p e = true) /\
  (* want_ is closed under not-yet-ready producers *)
  (forall e i, p_want p e <> None -> In i (ins_at g p e) -> p_oready p i = false -> p_want p i <> None) /\
  (* the counters are cardinalities; command_edges_ also counts the commands already done *)
  p_wanted p = count_if (is_wanted (p_want p)) (all_edges g) /\
  p_commands p + length (s_failed s) =
    count_if (fun e => is_wanted (p_want p) e && negb (phony g e)) (all_edges g) + s_finished s /\
  (* pools: current_use counts the queued and the running edges, never exceeds the depth, and an edge
     is only delayed while the pool is full *)
  (forall q, 0 < depth g q ->
     p_use p q = cnt g q (p_ready p) + cnt g q (s_running s) /\ p_use p q <= depth g q /\
     (delayed_of g q (p_delayed p) <> [] -> p_use p q = depth g q)) /\
  (forall e, In e (p_delayed p) -> 0 < depth g (pool g e)) /\
  (* the loop's locals *)
  s_pending s = length (s_running s) /\
  p_tokens p = (match c_jobserver cfg with None => 0 | Some _ => length (s_running s) end) /\
  (forall e, In e (s_running s ++ s_failed s) -> phony g e = false) /\
  s_fa s <= c_k cfg /\ (s_fa s = c_k cfg -> s_failed s = []) /\
  (s_failed s = [] <-> s_exit s = 0).

Theorem plan_inv_reachable s : reachable s -> s_phase s = PhBuild -> plan_inv s.
Proof.
  intros Hr Hph. destruct (reachable_sinv s Hr) as [HC _]. specialize (HC Hph).
  destruct HC as [C1 C2 C3 C4 C5 C6 C7 C8 C9 C10 C11 C12 C13 C14].
  pose proof C1 as [I1 I2 I3 I4 I5 I6 I7 I8 I9 I10 I11 I12 I13 I14 I15 I16].
  unfold plan_inv. unfold sched in *.
  split; [exact I1|]. split; [intros e; split; [apply I16|apply I3]|].
  split; [intros e He; apply (proj2 (I2 e He))|].
  split.
  { intros e [He|He]; destruct (all_inputs_ready g (s_plan s) e) eqn:Ea; try reflexivity; exfalso.
    - apply (pinv_top_tostart _ _ _ C1 e He Ea).
    - apply (pinv_top_nothing _ _ _ C1 e He Ea). }
  split; [intros e He; split; [apply (pinv_top_oready _ _ _ C1 e He)|apply I8; exact He]|].
  split; [exact I9|]. split; [exact I14|]. split; [exact C4|].
  split.
  { intros q Hq. destruct (I11 q Hq) as [H1 H2]. split; [exact H1|]. split; [exact H2|]. apply I12; [exact I|exact Hq]. }
  split; [exact I13|]. split; [exact C2|]. split; [exact I15|]. split; [exact C3|].
  split; [exact C8|]. split; [exact C9|].
  split; [exact C10|]. intros H. destruct (s_failed s) eqn:E; [reflexivity|]. exfalso. apply C11; [discriminate|exact H].
Qed.

(* ------------------------------------------------------------------ corollaries used by the property files *)
Lemma run_reachable prio sn evs s : wf_snap sn -> run g cfg loads prio sn evs = Some s -> reachable s.
Proof. intros H1 H2. exists prio, sn, evs. split; assumption. Qed.

Theorem start_after_producers prio sn evs s e pr s' : wf_snap sn -> run g cfg loads prio sn evs = Some s ->
  step g cfg loads s (EvStart e pr) = Some s' ->
  forall i, In i (ins_at g (s_plan s) e) ->
    sn_oready sn i = true \/ fin_ok evs i \/ sn_want sn i = Some WNothing \/ In (EvPrune i) evs \/ Lorig i.
Proof.
  intros Hws Hr Hst i Hi.
  apply (oready_origin prio sn evs s i Hws Hr).
  apply (start_inputs_ready s e pr s' (run_reachable prio sn evs s Hws Hr) Hst i Hi).
Qed.

Theorem tokens_at_exit s code m s' : reachable s -> step g cfg loads s (EvExit code m) = Some s' ->
  m <> MInterrupted -> p_tokens (s_plan s') = 0.
Proof.
  intros Hr Hst Hm.
  destruct (exit_reaped s code m s' Hr Hst Hm) as [Hrun _].
  rewrite (exit_plan_same s code m s' Hst).
  destruct (s_phase s) eqn:Eph.
  - rewrite (tokens_held s Hr Eph), Hrun. destruct (c_jobserver cfg); reflexivity.
  - destruct (exit_interrupted_phase s code m s' Eph Hst) as [_ ->]. congruence.
  - unfold step in Hst. unfold step_res in Hst; cbn [step_res_gen] in Hst. rewrite Eph in Hst. discriminate.
Qed.

Theorem tokens_after_interrupt s s' : reachable s -> step g cfg loads s EvInterrupt = Some s' ->
  p_tokens (s_plan s') = 0 /\ s_running s' = [].
Proof.
  intros Hr Hst.
  assert (Hph : s_phase s = PhBuild) by (apply (step_in_build s _ s' Hst); intros c m; discriminate).
  pose proof (tokens_held s Hr Hph) as Ht.
  unfold step in Hst. unfold step_res in Hst; cbn [step_res_gen] in Hst. destruct (in_build s && s_waiting s); [|discriminate].
  injection Hst as <-. cbn [s_plan s_running p_tokens set_tokens]. split; [|reflexivity].
  rewrite Ht. destruct (c_jobserver cfg); lia.
Qed.

Theorem counters_at_exit s code m s' : reachable s -> step g cfg loads s (EvExit code m) = Some s' ->
  m <> MInterrupted -> s_started s = s_finished s /\ s_finished s <= s_total s.
Proof.
  intros Hr Hst Hm.
  destruct (exit_reaped s code m s' Hr Hst Hm) as [Hrun _].
  destruct (s_phase s) eqn:Eph.
  - destruct (counters s Hr Eph) as [H1 [H2 [H3 _]]]. rewrite Hrun in H3. cbn [length] in H3. lia.
  - destruct (exit_interrupted_phase s code m s' Eph Hst) as [_ ->]. congruence.
  - unfold step in Hst. unfold step_res in Hst; cbn [step_res_gen] in Hst. rewrite Eph in Hst. discriminate.
Qed.

End Inv.

(* ------------------------------------------------------------------ the computable checks are sound *)
Lemma wf_snap_b_sound g sn :
  (forall e, n_edges g <= e -> sn_want sn e = None /\ sn_oready sn e = false) ->
  wf_snap_b g sn = true -> wf_snap g sn.
Proof.
  intros Hov H. unfold wf_snap_b in H.
  apply andb_true_iff in H. destruct H as [H Hc]. apply andb_true_iff in H. destruct H as [H Hw].
  apply Nat.eqb_eq in Hc, Hw. rewrite forallb_forall in H.
  assert (Hin : forall e, e < n_edges g -> In e (all_edges g)) by (intros e He; unfold all_edges; apply in_seq; lia).
  assert (Hlt : forall e, sn_want sn e <> None -> e < n_edges g).
  { intros e He. destruct (lt_dec e (n_edges g)) as [Hl|Hl]; [exact Hl|]. destruct (Hov e) as [H1 _]; [lia|congruence]. }
  assert (Hlo : forall e, sn_oready sn e = true -> e < n_edges g).
  { intros e He. destruct (lt_dec e (n_edges g)) as [Hl|Hl]; [exact Hl|]. destruct (Hov e) as [_ H1]; [lia|congruence]. }
  constructor.
  - intros e He. specialize (H e (Hin e (Hlo e He))). apply andb_true_iff in H. destruct H as [_ H].
    destruct (sn_want sn e) as [w|]; [|reflexivity]. rewrite He in H. cbn in H. discriminate.
  - intros e He. specialize (H e (Hin e (Hlo e He))). apply andb_true_iff in H. destruct H as [H _].
    rewrite He in H. exact H.
  - intros e He. specialize (H e (Hin e (Hlt e ltac:(congruence)))). apply andb_true_iff in H. destruct H as [_ H].
    rewrite He in H. cbn [want_eqb negb] in H. rewrite andb_false_r in H. cbn [andb] in H. discriminate.
  - intros e i He Hi Ho. specialize (H e (Hin e (Hlt e He))). apply andb_true_iff in H. destruct H as [_ H].
    destruct (sn_want sn e) as [w|]; [|congruence].
    apply andb_true_iff in H. destruct H as [H _]. apply andb_true_iff in H. destruct H as [_ H].
    rewrite forallb_forall in H. specialize (H i Hi). rewrite Ho in H. cbn [orb] in H.
    destruct (sn_want sn i); [discriminate|discriminate H].
  - intros e He. specialize (H e (Hin e (Hlt e ltac:(congruence)))). apply andb_true_iff in H. destruct H as [_ H].
    rewrite He in H. apply andb_true_iff in H. destruct H as [_ H]. cbn [want_eqb] in H.
    apply negb_true_iff in H. exact H.
  - exact Hlt.
  - exact Hw.
  - exact Hc.
Qed.

Lemma wf_cfg_b_sound cfg : wf_cfg_b cfg = true -> 0 < c_k cfg /\ 0 < c_j cfg.
Proof.
  unfold wf_cfg_b. intros H. apply andb_true_iff in H. destruct H as [H1 H2].
  apply Nat.ltb_lt in H1, H2. split; assumption.
Qed.

(* the completion helper only produces accepted starts of phony edges *)
Lemma auto_phony_accepts g cfg loads prio allowed : forall fuel s evs s',
  auto_phony fuel g cfg loads prio allowed s = (evs, s') ->
  accepts g cfg loads s evs = Some s' /\
  Forall (fun ev => exists e, ev = EvStart e prio /\ phony g e = true /\ In e allowed) evs.
Proof.
  induction fuel as [|fuel IH]; intros s evs s' H; cbn [auto_phony] in H.
  - injection H as <- <-. split; [reflexivity|constructor].
  - destruct (filter (fun e => phony g e && memb e (p_ready (s_plan s))) allowed) as [|e l] eqn:Ef.
    + injection H as <- <-. split; [reflexivity|constructor].
    + destruct (step g cfg loads s (EvStart e prio)) as [s1|] eqn:Es.
      * destruct (auto_phony fuel g cfg loads prio allowed s1) as [evs1 s2] eqn:Ea. injection H as <- <-.
        destruct (IH s1 evs1 s2 Ea) as [H1 H2]. split.
        -- cbn [accepts]. rewrite Es. exact H1.
        -- constructor; [|exact H2]. exists e. split; [reflexivity|].
           assert (He : In e (filter (fun e => phony g e && memb e (p_ready (s_plan s))) allowed)) by (rewrite Ef; left; reflexivity).
           apply filter_In in He. destruct He as [He1 He2]. apply andb_true_iff in He2. tauto.
      * injection H as <- <-. split; [reflexivity|constructor].
Qed.


Lemma run_snoc_split g cfg loads prio sn evs ev : is_some (run g cfg loads prio sn (evs ++ [ev])) = true ->
  exists s s', run g cfg loads prio sn evs = Some s /\ step g cfg loads s ev = Some s'.
Proof.
  unfold run. rewrite accepts_app. destruct (accepts g cfg loads (init_state g cfg prio sn) evs) as [s|] eqn:E1; [|discriminate].
  cbn [accepts]. destruct (step g cfg loads s ev) as [s'|] eqn:E2; [|discriminate]. intros _. exists s, s'. split; [reflexivity|exact E2].
Qed.

Lemma is_some_run g cfg loads prio sn evs : is_some (run g cfg loads prio sn evs) = true ->
  exists s, run g cfg loads prio sn evs = Some s.
Proof. destruct (run g cfg loads prio sn evs) as [s|]; [intros _; exists s; reflexivity|discriminate]. Qed.

(* the example of PlanDefs.v satisfies the premises of the theorems *)
Lemma ex_wf_graph : wf_graph ex_graph ex_rank.
Proof. apply wf_graph_b_sound. vm_compute. reflexivity. Qed.

Lemma ex_wf_snap : wf_snap ex_graph ex_snap.
Proof.
  apply wf_snap_b_sound; [|vm_compute; reflexivity].
  intros e He. change (n_edges ex_graph) with 4 in He. unfold ex_snap. cbn [sn_want sn_oready].
  destruct (Nat.ltb_spec e 4); [lia|]. split; reflexivity.
Qed.

Lemma ex_cfg_k : 0 < c_k ex_cfg. Proof. cbn. lia. Qed.
Lemma ex_cfg_j : 0 < c_j ex_cfg. Proof. cbn. lia. Qed.
