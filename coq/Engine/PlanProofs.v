(* Proofs about the plan / build-loop model of PlanDefs.v.  No axioms: stdlib List, Permutation,
   Arith, Lia only.  Main results (restated in Properties/Properties_C04/C05/C06/C20.v):
     sinv_init, sinv_step, sinv_run     the invariant [sinv] (Appendix D.3 of DESIGN.md, adjusted to
                                        what is true of the code) holds in every reachable state
     start_inputs_ready ...             C04
     no_dependent_started, exit_code... C05
     limits, once, never_stuck ...      C06
     counters ...                       C20                                                        *)
From NinjaV Require Import Base.Bytes Engine.PlanDefs.
From Coq Require Import Permutation Arith.

Ltac psimpl :=
  cbn [p_want p_ready p_delayed p_use p_wanted p_commands p_oready p_tokens
       set_want set_ready set_delayed set_use set_wanted set_commands set_oready set_tokens] in *.

(* ------------------------------------------------------------------ list tools *)
Lemma memb_In x l : memb x l = true <-> In x l.
Proof.
  unfold memb. rewrite existsb_exists. split.
  - intros [y [Hy Heq]]. apply Nat.eqb_eq in Heq. subst. exact Hy.
  - intros H. exists x. split; [exact H|apply Nat.eqb_refl].
Qed.

Lemma memb_false x l : memb x l = false <-> ~ In x l.
Proof.
  rewrite <- memb_In. destruct (memb x l); split; intros H;
    [discriminate|exfalso; apply H; reflexivity|intros H'; discriminate|reflexivity].
Qed.

Lemma rem_In x y l : In x (rem y l) <-> In x l /\ x <> y.
Proof.
  induction l as [|z l IH]; cbn [rem].
  - cbn. tauto.
  - destruct (Nat.eqb_spec y z) as [->|Hne].
    + rewrite IH. cbn. split; [tauto|]. intros [[H|H] Hn]; [congruence|tauto].
    + cbn. rewrite IH. split.
      * intros [H|H]; [subst; split; [left; reflexivity|congruence]|tauto].
      * intros [[H|H] Hn]; [left; exact H|right; tauto].
Qed.

Lemma rem_notin y l : ~ In y l -> rem y l = l.
Proof.
  induction l as [|z l IH]; cbn [rem]; intros H; [reflexivity|].
  destruct (Nat.eqb_spec y z) as [->|Hne].
  - exfalso. apply H. left. reflexivity.
  - f_equal. apply IH. intros H'. apply H. right. exact H'.
Qed.

Lemma rem_NoDup y l : NoDup l -> NoDup (rem y l).
Proof.
  induction 1 as [|z l Hz Hl IH]; cbn [rem]; [constructor|].
  destruct (Nat.eqb_spec y z) as [->|Hne]; [exact IH|].
  constructor; [|exact IH]. rewrite rem_In. tauto.
Qed.

Lemma rem_perm y l : NoDup l -> In y l -> Permutation l (y :: rem y l).
Proof.
  induction 1 as [|z l Hz Hl IH]; intros Hin; [destruct Hin|].
  cbn [rem]. destruct (Nat.eqb_spec y z) as [->|Hne].
  - rewrite rem_notin by exact Hz. reflexivity.
  - destruct Hin as [->|Hin]; [congruence|].
    rewrite perm_swap. constructor. apply IH. exact Hin.
Qed.

Lemma rem_length y l : NoDup l -> In y l -> length l = S (length (rem y l)).
Proof. intros Hn Hi. apply (Permutation_length (rem_perm y l Hn Hi)). Qed.

Lemma filter_len_le {A} (f : A -> bool) l : length (filter f l) <= length l.
Proof. induction l as [|x l IH]; cbn [filter length]; [lia|]. destruct (f x); cbn [length]; lia. Qed.

Lemma NoDup_app_iff {A} (l l' : list A) :
  NoDup (l ++ l') <-> NoDup l /\ NoDup l' /\ (forall x, In x l -> In x l' -> False).
Proof.
  induction l as [|a l IH]; cbn [app].
  - split; [intros H; repeat split; [constructor|exact H|intros x []]|tauto].
  - split.
    + intros H. inversion H as [|a' l0 Ha Hl]; subst. apply IH in Hl. destruct Hl as [H1 [H2 H3]].
      repeat split.
      * constructor; [|exact H1]. intros Hin. apply Ha. apply in_or_app. left. exact Hin.
      * exact H2.
      * intros x [->|Hx] Hx'; [apply Ha; apply in_or_app; right; exact Hx'|eapply H3; eassumption].
    + intros [H1 [H2 H3]]. inversion H1 as [|a' l0 Ha Hl]; subst. constructor.
      * intros Hin. apply in_app_or in Hin. destruct Hin as [Hin|Hin]; [tauto|].
        apply (H3 a); [left; reflexivity|exact Hin].
      * apply IH. repeat split; [exact Hl|exact H2|]. intros x Hx Hx'. apply (H3 x); [right; exact Hx|exact Hx'].
Qed.

Lemma upd_same {A} (f : nat -> A) k v : upd f k v k = v.
Proof. unfold upd. rewrite Nat.eqb_refl. reflexivity. Qed.

Lemma upd_other {A} (f : nat -> A) k v x : x <> k -> upd f k v x = f x.
Proof. unfold upd. intros H. destruct (Nat.eqb_spec x k); [congruence|reflexivity]. Qed.

(* number of edges of pool q in a list *)
Definition cnt (g : graph) (q : nat) (l : list nat) : nat := length (delayed_of g q l).

Lemma delayed_of_perm g q l l' : Permutation l l' -> Permutation (delayed_of g q l) (delayed_of g q l').
Proof.
  unfold delayed_of. induction 1 as [|x l l' Hp IH|x y l|l l' l'' H1 IH1 H2 IH2]; cbn [filter].
  - constructor.
  - destruct (Nat.eqb (pool g x) q); [constructor|]; exact IH.
  - destruct (Nat.eqb (pool g x) q); destruct (Nat.eqb (pool g y) q); try reflexivity. apply perm_swap.
  - eapply perm_trans; eassumption.
Qed.

Lemma cnt_perm g q l l' : Permutation l l' -> cnt g q l = cnt g q l'.
Proof. intros H. apply Permutation_length. apply delayed_of_perm. exact H. Qed.

Lemma cnt_app g q l l' : cnt g q (l ++ l') = cnt g q l + cnt g q l'.
Proof. unfold cnt, delayed_of. rewrite filter_app, app_length. reflexivity. Qed.

Lemma cnt_cons g q x l : cnt g q (x :: l) = (if Nat.eqb (pool g x) q then 1 else 0) + cnt g q l.
Proof. unfold cnt, delayed_of. cbn [filter]. destruct (Nat.eqb (pool g x) q); reflexivity. Qed.

Lemma cnt_all_in g q l : (forall x, In x l -> pool g x = q) -> cnt g q l = length l.
Proof.
  induction l as [|x l IH]; intros H; [reflexivity|].
  rewrite cnt_cons. rewrite (H x (or_introl eq_refl)), Nat.eqb_refl. cbn [length].
  rewrite IH; [reflexivity|]. intros y Hy. apply H. right. exact Hy.
Qed.

Lemma cnt_none_in g q l : (forall x, In x l -> pool g x <> q) -> cnt g q l = 0.
Proof.
  induction l as [|x l IH]; intros H; [reflexivity|].
  rewrite cnt_cons. destruct (Nat.eqb_spec (pool g x) q) as [He|Hne].
  - exfalso. apply (H x (or_introl eq_refl)). exact He.
  - rewrite IH; [reflexivity|]. intros y Hy. apply H. right. exact Hy.
Qed.

Lemma delayed_of_In g q l x : In x (delayed_of g q l) <-> In x l /\ pool g x = q.
Proof. unfold delayed_of. rewrite filter_In, Nat.eqb_eq. reflexivity. Qed.

Lemma cnt_rem g q x l : NoDup l -> In x l ->
  cnt g q l = (if Nat.eqb (pool g x) q then 1 else 0) + cnt g q (rem x l).
Proof. intros Hn Hi. rewrite (cnt_perm g q _ _ (rem_perm x l Hn Hi)). apply cnt_cons. Qed.

Lemma pick_in prio l d : In d l -> In (pick prio l d) l.
Proof.
  intros Hd. induction prio as [|x t IH]; cbn [pick]; [exact Hd|].
  destruct (memb x l) eqn:E; [apply memb_In; exact E|exact IH].
Qed.

(* ------------------------------------------------------------------ Pool::RetrieveReadyEdges *)
Record retrieve_rel (g : graph) (q : nat) (p p' : plan) (mv : list nat) : Prop := {
  rr_ready : Permutation (p_ready p') (mv ++ p_ready p);
  rr_delayed : Permutation (p_delayed p) (mv ++ p_delayed p');
  rr_pool : forall x, In x mv -> pool g x = q;
  rr_use_q : p_use p' q = p_use p q + length mv;
  rr_use_other : forall r, r <> q -> p_use p' r = p_use p r;
  rr_depth : mv <> [] -> p_use p' q <= depth g q;
  rr_want : p_want p' = p_want p;
  rr_oready : p_oready p' = p_oready p;
  rr_wanted : p_wanted p' = p_wanted p;
  rr_commands : p_commands p' = p_commands p;
  rr_tokens : p_tokens p' = p_tokens p }.

Lemma retrieve_n_spec g prio q : forall n p, NoDup (p_delayed p) ->
  exists mv, retrieve_rel g q p (retrieve_n n g prio q p) mv /\
    (length (delayed_of g q (p_delayed p)) <= n ->
     delayed_of g q (p_delayed (retrieve_n n g prio q p)) = [] \/
     depth g q < p_use (retrieve_n n g prio q p) q + 1).
Proof.
  induction n as [|n IH]; intros p Hnd.
  - exists []. split.
    + constructor; cbn [retrieve_n app length]; try reflexivity; try (rewrite Nat.add_0_r; reflexivity).
      * intros x [].
      * intros H; congruence.
    + cbn [retrieve_n]. intros Hl. left. destruct (delayed_of g q (p_delayed p)); [reflexivity|cbn in Hl; lia].
  - cbn [retrieve_n]. destruct (delayed_of g q (p_delayed p)) as [|d0 dq] eqn:Edq.
    + exists []. split.
      * constructor; cbn [app length]; try reflexivity; try (rewrite Nat.add_0_r; reflexivity).
        -- intros x [].
        -- intros H; congruence.
      * intros _. left. exact Edq.
    + destruct (depth g q <? p_use p q + 1) eqn:Efit.
      * exists []. split.
        -- constructor; cbn [app length]; try reflexivity; try (rewrite Nat.add_0_r; reflexivity).
           ++ intros x [].
           ++ intros H; congruence.
        -- intros _. right. apply Nat.ltb_lt. exact Efit.
      * apply Nat.ltb_ge in Efit.
        set (x := pick prio (d0 :: dq) d0).
        assert (Hx : In x (d0 :: dq)) by (apply pick_in; left; reflexivity).
        rewrite <- Edq in Hx. apply delayed_of_In in Hx. destruct Hx as [HxD Hxq].
        set (p1 := set_use (set_ready (set_delayed p (rem x (p_delayed p))) (x :: p_ready p))
                           (upd (p_use p) q (p_use p q + 1))).
        assert (Hnd1 : NoDup (p_delayed p1)) by (subst p1; psimpl; apply rem_NoDup; exact Hnd).
        destruct (IH p1 Hnd1) as [mv [Hrel Hcomp]].
        exists (mv ++ [x]). split.
        -- destruct Hrel as [R1 R2 R3 R4 R5 R6 R7 R8 R9 R10 R11]. subst p1. psimpl.
           constructor; psimpl.
           ++ eapply perm_trans; [exact R1|]. rewrite <- app_assoc. cbn [app]. reflexivity.
           ++ eapply perm_trans; [apply (rem_perm x _ Hnd HxD)|]. rewrite <- app_assoc. cbn [app].
              apply Permutation_cons_app. exact R2.
           ++ intros y Hy. apply in_app_or in Hy. destruct Hy as [Hy|[<-|[]]]; [apply R3; exact Hy|exact Hxq].
           ++ rewrite R4. rewrite upd_same. rewrite app_length. cbn [length]. lia.
           ++ intros r Hr. rewrite R5 by exact Hr. apply upd_other. exact Hr.
           ++ intros _. destruct mv as [|m mv'].
              ** rewrite R4. rewrite upd_same. cbn [length]. lia.
              ** apply R6. congruence.
           ++ exact R7.
           ++ exact R8.
           ++ exact R9.
           ++ exact R10.
           ++ exact R11.
        -- intros Hl. apply Hcomp. subst p1. psimpl.
           pose proof (cnt_rem g q x (p_delayed p) Hnd HxD) as Hc. unfold cnt in Hc.
           rewrite Hxq, Nat.eqb_refl in Hc. rewrite Edq in Hc. cbn [length] in Hl, Hc. lia.
Qed.

Lemma retrieve_spec g prio q p : NoDup (p_delayed p) ->
  exists mv, retrieve_rel g q p (retrieve g prio q p) mv /\
    (delayed_of g q (p_delayed (retrieve g prio q p)) = [] \/
     depth g q < p_use (retrieve g prio q p) q + 1).
Proof.
  intros Hnd. unfold retrieve.
  destruct (retrieve_n_spec g prio q (length (p_delayed p)) p Hnd) as [mv [Hrel Hcomp]].
  exists mv. split; [exact Hrel|]. apply Hcomp.
  unfold delayed_of. apply filter_len_le.
Qed.

(* retrieve only reads/writes ready_, delayed_ and current_use_ *)
Definition frame (p : plan) w n c o t : plan :=
  mkPlan w (p_ready p) (p_delayed p) (p_use p) n c o t.

Lemma retrieve_n_frame g prio q w n c o t : forall k p,
  retrieve_n k g prio q (frame p w n c o t) = frame (retrieve_n k g prio q p) w n c o t.
Proof.
  induction k as [|k IH]; intros p; [reflexivity|].
  cbn [retrieve_n]. unfold frame at 1 2 3. psimpl.
  destruct (delayed_of g q (p_delayed p)) as [|d0 dq]; [reflexivity|].
  destruct (depth g q <? p_use p q + 1); [reflexivity|].
  rewrite <- IH. reflexivity.
Qed.

Lemma retrieve_frame g prio q w n c o t p :
  retrieve g prio q (frame p w n c o t) = frame (retrieve g prio q p) w n c o t.
Proof. unfold retrieve. apply retrieve_n_frame. Qed.

Lemma frame_id p : frame p (p_want p) (p_wanted p) (p_commands p) (p_oready p) (p_tokens p) = p.
Proof. destruct p; reflexivity. Qed.

(* ------------------------------------------------------------------ well-formed graphs *)
Record wf_graph (g : graph) (rank : nat -> nat) : Prop := {
  wg_ins_lt : forall e i, In i (ins g e) -> i < n_edges g;
  wg_rank : forall e i, In i (ins g e) -> rank i < rank e;
  wg_cons_ins : forall e d, In d (cons_of g e) -> In e (ins g d);
  wg_ins_cons : forall e i, In i (ins g e) -> In e (cons_of g i) }.

Lemma einfo_overflow g e : n_edges g <= e -> einfo g e = dummy_edge.
Proof. intros H. unfold einfo. apply nth_overflow. exact H. Qed.

Lemma wf_graph_b_sound g rank : wf_graph_b g rank = true -> wf_graph g rank.
Proof.
  unfold wf_graph_b. rewrite forallb_forall. intros H.
  assert (Hin : forall e, e < n_edges g -> In e (all_edges g)).
  { intros e He. unfold all_edges. apply in_seq. lia. }
  assert (Hov : forall e, ~ e < n_edges g -> ins g e = [] /\ cons_of g e = []).
  { intros e He. unfold ins, cons_of. rewrite einfo_overflow by lia. split; reflexivity. }
  constructor.
  - intros e i Hi. destruct (lt_dec e (n_edges g)) as [He|He].
    + specialize (H e (Hin e He)). apply andb_true_iff in H. destruct H as [H _].
      rewrite forallb_forall in H. specialize (H i Hi).
      apply andb_true_iff in H. destruct H as [H _]. apply andb_true_iff in H. destruct H as [H _].
      apply Nat.ltb_lt. exact H.
    + destruct (Hov e He) as [E _]. rewrite E in Hi. destruct Hi.
  - intros e i Hi. destruct (lt_dec e (n_edges g)) as [He|He].
    + specialize (H e (Hin e He)). apply andb_true_iff in H. destruct H as [H _].
      rewrite forallb_forall in H. specialize (H i Hi).
      apply andb_true_iff in H. destruct H as [H _]. apply andb_true_iff in H. destruct H as [_ H].
      apply Nat.ltb_lt. exact H.
    + destruct (Hov e He) as [E _]. rewrite E in Hi. destruct Hi.
  - intros e d Hd. destruct (lt_dec e (n_edges g)) as [He|He].
    + specialize (H e (Hin e He)). apply andb_true_iff in H. destruct H as [_ H].
      rewrite forallb_forall in H. specialize (H d Hd).
      apply andb_true_iff in H. destruct H as [_ H]. apply memb_In. exact H.
    + destruct (Hov e He) as [_ E]. rewrite E in Hd. destruct Hd.
  - intros e i Hi. destruct (lt_dec e (n_edges g)) as [He|He].
    + specialize (H e (Hin e He)). apply andb_true_iff in H. destruct H as [H _].
      rewrite forallb_forall in H. specialize (H i Hi).
      apply andb_true_iff in H. destruct H as [_ H]. apply memb_In. exact H.
    + destruct (Hov e He) as [E _]. rewrite E in Hi. destruct Hi.
Qed.

(* ------------------------------------------------------------------ the plan invariant *)
Definition sched (p : plan) (A F : list nat) : list nat := p_ready p ++ p_delayed p ++ A ++ F.

Lemma air_mono g p p' e :
  (forall x, p_oready p x = true -> p_oready p' x = true) ->
  all_inputs_ready g p e = true -> all_inputs_ready g p' e = true.
Proof.
  unfold all_inputs_ready. rewrite !forallb_forall. intros H H1 x Hx. apply H. apply H1. exact Hx.
Qed.

Lemma air_false g p e : all_inputs_ready g p e = false ->
  exists i, In i (ins g e) /\ p_oready p i = false.
Proof.
  unfold all_inputs_ready. induction (ins g e) as [|i l IH]; cbn [forallb]; [discriminate|].
  destruct (p_oready p i) eqn:E; cbn [andb].
  - intros H. destruct (IH H) as [j [Hj Ej]]. exists j. split; [right; exact Hj|exact Ej].
  - intros _. exists i. split; [left; reflexivity|exact E].
Qed.

Lemma air_in g p e i : all_inputs_ready g p e = true -> In i (ins g e) -> p_oready p i = true.
Proof. unfold all_inputs_ready. rewrite forallb_forall. intros H Hi. apply H. exact Hi. Qed.

Section Inv.
Variable g : graph.
Variable cfg : config.
Variable rank : nat -> nat.
Hypothesis Hwf : wf_graph g rank.

(* [A] = active edges: popped from ready_ by FindWork and not yet through EdgeFinished (the running
   commands, plus momentarily a phony edge being started);  [F] = edges whose command failed;
   [X] = edges exempt from the "if all inputs are ready it is scheduled" clauses: the out-edges that
   NodeFinished is about to visit;  [Q] = pools for which the "delayed => pool full" clause is
   claimed (all pools, except in the middle of ScheduleInitialEdges / before RetrieveReadyEdges). *)
Record pinv (Q : nat -> Prop) (X A F : list nat) (p : plan) : Prop := {
  pi_nodup : NoDup (sched p A F);
  pi_sched : forall e, In e (sched p A F) ->
             is_wanted (p_want p) e = true /\ all_inputs_ready g p e = true;
  pi_tofinish : forall e, p_want p e = Some WToFinish -> In e (sched p A F);
  pi_tostart : forall e, p_want p e = Some WToStart -> all_inputs_ready g p e = true ->
               In e (sched p A F) \/ In e X;
  pi_nothing : forall e, p_want p e = Some WNothing -> all_inputs_ready g p e = true -> In e X;
  pi_exempt : forall x, In x X -> In x (sched p A F) -> p_want p x = Some WToFinish;
  pi_oready : forall e, p_oready p e = true -> p_want p e = None;
  pi_oready_closed : forall e, p_oready p e = true -> all_inputs_ready g p e = true;
  pi_closed : forall e i, p_want p e <> None -> In i (ins g e) -> p_oready p i = false ->
              p_want p i <> None;
  pi_range : forall e, p_want p e <> None -> e < n_edges g;
  pi_use : forall q, 0 < depth g q ->
           p_use p q = cnt g q (p_ready p) + cnt g q A /\ p_use p q <= depth g q;
  pi_full : forall q, Q q -> 0 < depth g q -> delayed_of g q (p_delayed p) <> [] ->
            p_use p q = depth g q;
  pi_pool0 : forall e, In e (p_delayed p) -> 0 < depth g (pool g e);
  pi_wanted : p_wanted p = count_if (is_wanted (p_want p)) (all_edges g);
  pi_tokens : p_tokens p = match c_jobserver cfg with None => 0 | Some _ => length A end }.

Definition QT : nat -> Prop := fun _ => True.

Lemma pinv_weaken (Q Q' : nat -> Prop) X X' A F p :
  (forall q, Q' q -> 0 < depth g q -> Q q) -> (forall x, In x X -> In x X') ->
  (forall x, In x X' -> In x X \/ ~ In x (sched p A F) \/ p_want p x = Some WToFinish) ->
  pinv Q X A F p -> pinv Q' X' A F p.
Proof.
  intros HQ HX HX' [I1 I2 I3 I4 I5 I6 I7 I8 I9 I10 I11 I12 I13 I14 I15].
  constructor; try assumption.
  - intros e H1 H2. destruct (I4 e H1 H2) as [H|H]; [left; exact H|right; apply HX; exact H].
  - intros e H1 H2. apply HX. apply (I5 e H1 H2).
  - intros x Hx Hs. destruct (HX' x Hx) as [H|[H|H]]; [apply I6; assumption|tauto|exact H].
  - intros q Hq Hd. apply I12; [apply HQ; assumption|exact Hd].
Qed.

(* an exempt edge that does not need the exemption can be dropped from X *)
Lemma pinv_drop (Q : nat -> Prop) d X A F p :
  pinv Q (d :: X) A F p ->
  (p_want p d = Some WToStart -> all_inputs_ready g p d = true -> In d (sched p A F) \/ In d X) ->
  (p_want p d = Some WNothing -> all_inputs_ready g p d = true -> In d X) ->
  pinv Q X A F p.
Proof.
  intros [I1 I2 I3 I4 I5 I6 I7 I8 I9 I10 I11 I12 I13 I14 I15] H1 H2.
  constructor; try assumption.
  - intros e He Ha. destruct (I4 e He Ha) as [H|[<-|H]]; [left; exact H|apply H1; assumption|right; exact H].
  - intros e He Ha. destruct (I5 e He Ha) as [<-|H]; [apply H2; assumption|exact H].
  - intros x Hx Hs. apply I6; [right; exact Hx|exact Hs].
Qed.

Lemma sched_perm p p' A F :
  Permutation (p_ready p' ++ p_delayed p') (p_ready p ++ p_delayed p) ->
  Permutation (sched p' A F) (sched p A F).
Proof.
  intros H. unfold sched. rewrite !app_assoc. apply Permutation_app_tail. apply Permutation_app_tail.
  exact H.
Qed.

(* RetrieveReadyEdges keeps the invariant and fills pool q *)
Lemma retrieve_pinv (Q : nat -> Prop) X A F p prio q :
  pinv Q X A F p -> pinv (fun r => Q r \/ r = q) X A F (retrieve g prio q p).
Proof.
  intros [I1 I2 I3 I4 I5 I6 I7 I8 I9 I10 I11 I12 I13 I14 I15].
  assert (HndD : NoDup (p_delayed p)).
  { unfold sched in I1. apply NoDup_app_iff in I1. destruct I1 as [_ [I1 _]].
    apply NoDup_app_iff in I1. tauto. }
  destruct (retrieve_spec g prio q p HndD) as [mv [[R1 R2 R3 R4 R5 R6 R7 R8 R9 R10 R11] Hcomp]].
  set (p' := retrieve g prio q p) in *.
  assert (Hperm : Permutation (sched p' A F) (sched p A F)).
  { apply sched_perm. rewrite R1. rewrite <- app_assoc.
    rewrite (Permutation_app_comm mv). rewrite <- app_assoc. apply Permutation_app_head.
    rewrite Permutation_app_comm. symmetry. exact R2. }
  assert (Hair : forall e, all_inputs_ready g p' e = all_inputs_ready g p e).
  { intros e. unfold all_inputs_ready. rewrite R8. reflexivity. }
  assert (HinD : forall x, In x (p_delayed p') -> In x (p_delayed p)).
  { intros x Hx. apply (Permutation_in _ (Permutation_sym R2)). apply in_or_app. right. exact Hx. }
  constructor.
  - apply (Permutation_NoDup (Permutation_sym Hperm)). exact I1.
  - intros e He. rewrite R7, Hair. apply I2. apply (Permutation_in _ Hperm). exact He.
  - intros e He. rewrite R7 in He. apply (Permutation_in _ (Permutation_sym Hperm)). apply I3. exact He.
  - intros e He Ha. rewrite R7 in He. rewrite Hair in Ha. destruct (I4 e He Ha) as [H|H]; [left|right; exact H].
    apply (Permutation_in _ (Permutation_sym Hperm)). exact H.
  - intros e He Ha. rewrite R7 in He. rewrite Hair in Ha. apply I5; assumption.
  - intros x Hx Hs. rewrite R7. apply I6; [exact Hx|]. apply (Permutation_in _ Hperm). exact Hs.
  - intros e He. rewrite R7. rewrite R8 in He. apply I7. exact He.
  - intros e He. rewrite Hair. rewrite R8 in He. apply I8. exact He.
  - intros e i He Hi Ho. rewrite R7 in *. rewrite R8 in Ho. eapply I9; eassumption.
  - intros e He. rewrite R7 in He. apply I10. exact He.
  - intros r Hr. destruct (Nat.eq_dec r q) as [->|Hne].
    + destruct (I11 q Hr) as [Hu Hle]. rewrite R4. rewrite (cnt_perm g q _ _ R1), cnt_app.
      rewrite (cnt_all_in g q mv R3). split; [lia|].
      destruct mv as [|m mv']; [cbn [length]; lia|]. rewrite <- R4. apply R6. congruence.
    + destruct (I11 r Hr) as [Hu Hle]. rewrite (R5 r Hne). rewrite (cnt_perm g r _ _ R1), cnt_app.
      rewrite (cnt_none_in g r mv); [split; [lia|exact Hle]|].
      intros x Hx. rewrite (R3 x Hx). congruence.
  - intros r HQ Hr Hd. destruct (Nat.eq_dec r q) as [->|Hne].
    + destruct Hcomp as [Hc|Hc]; [congruence|].
      destruct (I11 q Hr) as [Hu Hle].
      assert (p_use p' q <= depth g q).
      { destruct mv as [|m mv']; [rewrite R4; cbn [length]; lia|apply R6; congruence]. }
      lia.
    + destruct HQ as [HQ|HQ]; [|congruence]. rewrite (R5 r Hne). apply I12; [exact HQ|exact Hr|].
      intros Hnil. apply Hd.
      destruct (delayed_of g r (p_delayed p')) as [|y l] eqn:E; [reflexivity|].
      assert (Hy : In y (delayed_of g r (p_delayed p'))) by (rewrite E; left; reflexivity).
      apply delayed_of_In in Hy. destruct Hy as [Hy1 Hy2].
      assert (Hy' : In y (delayed_of g r (p_delayed p))) by (apply delayed_of_In; split; [apply HinD; exact Hy1|exact Hy2]).
      rewrite Hnil in Hy'. destruct Hy'.
  - intros e He. apply I13. apply HinD. exact He.
  - rewrite R9, R7. exact I14.
  - rewrite R11. exact I15.
Qed.

Lemma retrieve_as_frame prio q p :
  retrieve g prio q p =
  frame (retrieve g prio q p) (p_want p) (p_wanted p) (p_commands p) (p_oready p) (p_tokens p).
Proof. rewrite <- retrieve_frame. rewrite frame_id. reflexivity. Qed.

Lemma retrieve_want prio q p : p_want (retrieve g prio q p) = p_want p.
Proof. rewrite retrieve_as_frame. reflexivity. Qed.
Lemma retrieve_oready prio q p : p_oready (retrieve g prio q p) = p_oready p.
Proof. rewrite retrieve_as_frame. reflexivity. Qed.
Lemma retrieve_wanted prio q p : p_wanted (retrieve g prio q p) = p_wanted p.
Proof. rewrite retrieve_as_frame. reflexivity. Qed.
Lemma retrieve_commands prio q p : p_commands (retrieve g prio q p) = p_commands p.
Proof. rewrite retrieve_as_frame. reflexivity. Qed.
Lemma retrieve_tokens prio q p : p_tokens (retrieve g prio q p) = p_tokens p.
Proof. rewrite retrieve_as_frame. reflexivity. Qed.

Lemma is_wanted_upd_keep w d v :
  is_wanted w d = is_wanted (upd w d v) d ->
  forall l, count_if (is_wanted (upd w d v)) l = count_if (is_wanted w) l.
Proof.
  intros H l. unfold count_if. f_equal. apply filter_ext. intros x. unfold is_wanted in *.
  destruct (Nat.eq_dec x d) as [->|Hne]; [symmetry; exact H|]. rewrite upd_other by exact Hne. reflexivity.
Qed.

Lemma count_if_flip w d v l : NoDup l -> In d l ->
  is_wanted w d = true -> is_wanted (upd w d v) d = false ->
  count_if (is_wanted w) l = S (count_if (is_wanted (upd w d v)) l).
Proof.
  intros Hnd Hin H1 H2. unfold count_if.
  induction Hnd as [|x l Hx Hl IH]; [destruct Hin|].
  cbn [filter]. destruct Hin as [->|Hin].
  - rewrite H1, H2. cbn [length]. f_equal. f_equal. apply filter_ext_in. intros y Hy.
    unfold is_wanted. rewrite upd_other; [reflexivity|]. intros ->. exact (Hx Hy).
  - assert (x <> d) by (intros ->; exact (Hx Hin)).
    replace (is_wanted (upd w d v) x) with (is_wanted w x) by (unfold is_wanted; rewrite upd_other by assumption; reflexivity).
    destruct (is_wanted w x); cbn [length]; rewrite (IH Hin); reflexivity.
Qed.

Lemma all_edges_nodup : NoDup (all_edges g).
Proof. unfold all_edges. apply seq_NoDup. Qed.

Lemma all_edges_in e : e < n_edges g -> In e (all_edges g).
Proof. intros H. unfold all_edges. apply in_seq. lia. Qed.

Definition tok (A : list nat) : nat := match c_jobserver cfg with None => 0 | Some _ => length A end.

(* ---- pure update 1: a wanted edge whose inputs are ready is put into ready_ or delayed_ ---- *)
Lemma pinv_schedule_pure (Q : nat -> Prop) X A F p d (to_ready : bool) :
  pinv Q (d :: X) A F p -> p_want p d = Some WToStart -> all_inputs_ready g p d = true ->
  (if to_ready then depth g (pool g d) = 0 else 0 < depth g (pool g d)) ->
  pinv (fun r => Q r /\ r <> pool g d) X A F
       (mkPlan (upd (p_want p) d (Some WToFinish))
               (if to_ready then d :: p_ready p else p_ready p)
               (if to_ready then p_delayed p else d :: p_delayed p)
               (p_use p) (p_wanted p) (p_commands p) (p_oready p) (p_tokens p)).
Proof.
  intros [I1 I2 I3 I4 I5 I6 I7 I8 I9 I10 I11 I12 I13 I14 I15] Hw Ha Hdep.
  assert (Hns : ~ In d (sched p A F)).
  { intros Hin. rewrite (I6 d (or_introl eq_refl) Hin) in Hw. discriminate. }
  set (p' := mkPlan _ _ _ _ _ _ _ _).
  assert (Hperm : Permutation (sched p' A F) (d :: sched p A F)).
  { unfold sched, p'. psimpl. destruct to_ready; [reflexivity|].
    cbn [app]. symmetry. apply Permutation_middle. }
  assert (Hair : forall e, all_inputs_ready g p' e = all_inputs_ready g p e) by reflexivity.
  assert (Hin' : forall x, In x (sched p' A F) <-> x = d \/ In x (sched p A F)).
  { intros x. split; intros H.
    - apply (Permutation_in _ Hperm) in H. destruct H as [<-|H]; [left; reflexivity|right; exact H].
    - apply (Permutation_in _ (Permutation_sym Hperm)). destruct H as [->|H]; [left; reflexivity|right; exact H]. }
  assert (Hwant : forall x, x <> d -> p_want p' x = p_want p x).
  { intros x Hx. unfold p'. psimpl. apply upd_other. exact Hx. }
  assert (Hwd : p_want p' d = Some WToFinish) by (unfold p'; psimpl; apply upd_same).
  constructor.
  - apply (Permutation_NoDup (Permutation_sym Hperm)). constructor; assumption.
  - intros e He. rewrite Hair. apply Hin' in He. destruct He as [->|He].
    + split; [unfold is_wanted; rewrite Hwd; reflexivity|exact Ha].
    + destruct (I2 e He) as [H1 H2]. split; [|exact H2].
      destruct (Nat.eq_dec e d) as [->|Hne]; [unfold is_wanted; rewrite Hwd; reflexivity|].
      unfold is_wanted. rewrite Hwant by exact Hne. exact H1.
  - intros e He. apply Hin'. destruct (Nat.eq_dec e d) as [->|Hne]; [left; reflexivity|].
    right. apply I3. rewrite <- Hwant by exact Hne. exact He.
  - intros e He Hae. destruct (Nat.eq_dec e d) as [->|Hne]; [rewrite Hwd in He; discriminate|].
    rewrite Hwant in He by exact Hne. destruct (I4 e He Hae) as [H|[H|H]].
    + left. apply Hin'. right. exact H.
    + congruence.
    + right. exact H.
  - intros e He Hae. destruct (Nat.eq_dec e d) as [->|Hne]; [rewrite Hwd in He; discriminate|].
    rewrite Hwant in He by exact Hne. destruct (I5 e He Hae) as [H|H]; [congruence|exact H].
  - intros x Hx Hs. destruct (Nat.eq_dec x d) as [->|Hne]; [exact Hwd|].
    rewrite Hwant by exact Hne. apply I6; [right; exact Hx|].
    apply Hin' in Hs. destruct Hs as [Hs|Hs]; [congruence|exact Hs].
  - intros e He. destruct (Nat.eq_dec e d) as [->|Hne].
    + change (p_oready p d = true) in He. rewrite (I7 d He) in Hw. discriminate.
    + rewrite Hwant by exact Hne. apply I7. exact He.
  - intros e He. apply I8. exact He.
  - intros e i He Hi Ho.
    assert (He' : p_want p e <> None).
    { destruct (Nat.eq_dec e d) as [->|Hne]; [congruence|]. rewrite <- Hwant by exact Hne. exact He. }
    pose proof (I9 e i He' Hi Ho) as H.
    destruct (Nat.eq_dec i d) as [->|Hne]; [rewrite Hwd; discriminate|]. rewrite Hwant by exact Hne. exact H.
  - intros e He. apply I10. destruct (Nat.eq_dec e d) as [->|Hne]; [congruence|].
    rewrite <- Hwant by exact Hne. exact He.
  - intros q Hq. unfold p'. psimpl. destruct (I11 q Hq) as [H1 H2]. split; [|exact H2].
    destruct to_ready; [|exact H1]. rewrite cnt_cons.
    destruct (Nat.eqb_spec (pool g d) q) as [E|E]; [rewrite E in Hdep; lia|exact H1].
  - intros q [HQq Hq] Hdq Hdl. unfold p' in *. psimpl. apply I12; [exact HQq|exact Hdq|].
    destruct to_ready; [exact Hdl|]. unfold delayed_of in *. cbn [filter] in Hdl.
    destruct (Nat.eqb_spec (pool g d) q) as [E|E]; [congruence|exact Hdl].
  - intros e He. unfold p' in He. psimpl. destruct to_ready; [apply I13; exact He|].
    destruct He as [<-|He]; [exact Hdep|apply I13; exact He].
  - unfold p'. psimpl. rewrite I14. symmetry. apply is_wanted_upd_keep.
    unfold is_wanted. rewrite upd_same, Hw. reflexivity.
  - exact I15.
Qed.

(* ---- pure update 2: moving edges between ready_, the active set and the failed set ---- *)
Lemma pinv_reshape (Q Q' : nat -> Prop) X A F A' F' R' u t p :
  pinv Q X A F p ->
  Permutation (R' ++ p_delayed p ++ A' ++ F') (sched p A F) ->
  (forall q, 0 < depth g q -> u q = cnt g q R' + cnt g q A' /\ u q <= depth g q) ->
  (forall q, Q' q -> 0 < depth g q -> delayed_of g q (p_delayed p) <> [] -> u q = depth g q) ->
  t = tok A' ->
  pinv Q' X A' F' (mkPlan (p_want p) R' (p_delayed p) u (p_wanted p) (p_commands p) (p_oready p) t).
Proof.
  intros [I1 I2 I3 I4 I5 I6 I7 I8 I9 I10 I11 I12 I13 I14 I15] Hperm Hu Hfull Ht.
  set (p' := mkPlan _ _ _ _ _ _ _ _).
  assert (Hperm' : Permutation (sched p' A' F') (sched p A F)) by exact Hperm.
  assert (Hair : forall e, all_inputs_ready g p' e = all_inputs_ready g p e) by reflexivity.
  constructor; try assumption.
  - apply (Permutation_NoDup (Permutation_sym Hperm')). exact I1.
  - intros e He. apply I2. apply (Permutation_in _ Hperm'). exact He.
  - intros e He. apply (Permutation_in _ (Permutation_sym Hperm')). apply I3. exact He.
  - intros e He Ha. destruct (I4 e He Ha) as [H|H]; [left|right; exact H].
    apply (Permutation_in _ (Permutation_sym Hperm')). exact H.
  - intros x Hx Hs. apply I6; [exact Hx|]. apply (Permutation_in _ Hperm'). exact Hs.
Qed.

(* ---- pure update 3: an edge is done: erased from want_, outputs_ready_ set ---- *)
Lemma pinv_done_pure (Q' : nat -> Prop) Xo X A A' F p e w u n t :
  pinv QT Xo A F p -> p_want p e = Some w -> all_inputs_ready g p e = true ->
  (forall x, In x Xo -> x = e \/ In x X) -> (forall x, In x X -> In x Xo) ->
  NoDup (p_ready p ++ p_delayed p ++ A' ++ F) ->
  (forall x, In x (p_ready p ++ p_delayed p ++ A' ++ F) <-> In x (sched p A F) /\ x <> e) ->
  (forall q, 0 < depth g q -> u q = cnt g q (p_ready p) + cnt g q A' /\ u q <= depth g q) ->
  (forall q, Q' q -> 0 < depth g q -> delayed_of g q (p_delayed p) <> [] -> u q = depth g q) ->
  n = count_if (is_wanted (upd (p_want p) e None)) (all_edges g) ->
  t = tok A' ->
  pinv Q' (cons_of g e ++ X) A' F
       (mkPlan (upd (p_want p) e None) (p_ready p) (p_delayed p) u n (p_commands p)
               (upd (p_oready p) e true) t).
Proof.
  intros [I1 I2 I3 I4 I5 I6 I7 I8 I9 I10 I11 I12 I13 I14 I15] Hw Ha HX HX' Hnd Hin Hu Hfull Hn Ht.
  set (p' := mkPlan _ _ _ _ _ _ _ _).
  assert (Hoe : p_oready p e = false).
  { destruct (p_oready p e) eqn:E; [|reflexivity]. rewrite (I7 e E) in Hw. discriminate. }
  assert (Hwant : forall x, x <> e -> p_want p' x = p_want p x).
  { intros x Hx. unfold p'. psimpl. apply upd_other. exact Hx. }
  assert (Hwe : p_want p' e = None) by (unfold p'; psimpl; apply upd_same).
  assert (Hor : forall x, p_oready p' x = true <-> x = e \/ p_oready p x = true).
  { intros x. unfold p'. psimpl. unfold upd. destruct (Nat.eqb_spec x e) as [->|Hne]; [tauto|].
    split; [tauto|]. intros [H|H]; [congruence|exact H]. }
  assert (Hmono : forall x, all_inputs_ready g p x = true -> all_inputs_ready g p' x = true).
  { intros x. apply air_mono. intros y Hy. apply Hor. right. exact Hy. }
  assert (Hnew : forall x, all_inputs_ready g p' x = true -> all_inputs_ready g p x = false ->
                           In x (cons_of g e)).
  { intros x H1 H2. destruct (air_false g p x H2) as [i [Hi Hio]].
    pose proof (air_in g p' x i H1 Hi) as H3. apply Hor in H3. destruct H3 as [->|H3]; [|congruence].
    apply (wg_ins_cons g rank Hwf). exact Hi. }
  assert (Hs' : forall x, In x (sched p' A' F) <-> In x (sched p A F) /\ x <> e) by exact Hin.
  constructor.
  - exact Hnd.
  - intros x Hx. apply Hs' in Hx. destruct Hx as [Hx Hne]. destruct (I2 x Hx) as [H1 H2].
    split; [unfold is_wanted; rewrite Hwant by exact Hne; exact H1|apply Hmono; exact H2].
  - intros x Hx. destruct (Nat.eq_dec x e) as [->|Hne]; [congruence|]. rewrite Hwant in Hx by exact Hne.
    apply Hs'. split; [apply I3; exact Hx|exact Hne].
  - intros x Hx Hax. destruct (Nat.eq_dec x e) as [->|Hne]; [congruence|]. rewrite Hwant in Hx by exact Hne.
    destruct (all_inputs_ready g p x) eqn:E.
    + destruct (I4 x Hx E) as [H|H].
      * left. apply Hs'. split; assumption.
      * destruct (HX x H) as [H'|H']; [congruence|]. right. apply in_or_app. right. exact H'.
    + right. apply in_or_app. left. apply Hnew; assumption.
  - intros x Hx Hax. destruct (Nat.eq_dec x e) as [->|Hne]; [congruence|]. rewrite Hwant in Hx by exact Hne.
    destruct (all_inputs_ready g p x) eqn:E.
    + destruct (HX x (I5 x Hx E)) as [H'|H']; [congruence|]. apply in_or_app. right. exact H'.
    + apply in_or_app. left. apply Hnew; assumption.
  - intros x Hx Hsx. apply Hs' in Hsx. destruct Hsx as [Hsx Hne]. rewrite Hwant by exact Hne.
    apply in_app_or in Hx. destruct Hx as [Hx|Hx].
    + exfalso. apply (wg_cons_ins g rank Hwf) in Hx. destruct (I2 x Hsx) as [_ H2].
      rewrite (air_in g p x e H2 Hx) in Hoe. discriminate.
    + apply I6; [apply HX'; exact Hx|exact Hsx].
  - intros x Hx. apply Hor in Hx. destruct Hx as [->|Hx]; [exact Hwe|].
    destruct (Nat.eq_dec x e) as [->|Hne]; [exact Hwe|]. rewrite Hwant by exact Hne. apply I7. exact Hx.
  - intros x Hx. apply Hor in Hx. destruct Hx as [->|Hx]; apply Hmono; [exact Ha|apply I8; exact Hx].
  - intros x i Hx Hi Ho.
    assert (Hne : x <> e) by (intros ->; congruence). rewrite Hwant in Hx by exact Hne.
    assert (Hie : i <> e) by (intros ->; rewrite (proj2 (Hor e) (or_introl eq_refl)) in Ho; discriminate).
    rewrite Hwant by exact Hie. apply (I9 x i Hx Hi).
    destruct (p_oready p i) eqn:E; [|reflexivity]. rewrite (proj2 (Hor i) (or_intror E)) in Ho. discriminate.
  - intros x Hx. assert (Hne : x <> e) by (intros ->; congruence). rewrite Hwant in Hx by exact Hne.
    apply I10. exact Hx.
  - exact Hu.
  - exact Hfull.
  - exact I13.
  - exact Hn.
  - exact Ht.
Qed.


(* ------------------------------------------------------------------ Plan::ScheduleWork *)
Lemma QT_weaken (Q : nat -> Prop) X A F p :
  (forall q, 0 < depth g q -> Q q) -> pinv Q X A F p -> pinv QT X A F p.
Proof.
  intros HQ H. eapply pinv_weaken; [| |left; eassumption|exact H].
  - intros q _ Hq. apply HQ. exact Hq.
  - intros x Hx. exact Hx.
Qed.

Lemma schedule_work_pinv X A F p prio d p' :
  pinv QT (d :: X) A F p -> is_wanted (p_want p) d = true -> all_inputs_ready g p d = true ->
  schedule_work g prio d p = Ok p' -> pinv QT X A F p'.
Proof.
  intros HI Hw Ha Hs. unfold schedule_work in Hs. unfold is_wanted in Hw.
  destruct (p_want p d) as [[| |]|] eqn:Ewd; try discriminate.
  - destruct (Nat.eqb_spec (depth g (pool g d)) 0) as [Hz|Hnz]; injection Hs as <-.
    + pose proof (pinv_schedule_pure QT X A F p d true HI Ewd Ha Hz) as H.
      refine (QT_weaken _ _ _ _ _ _ H). intros q Hq. split; [exact I|]. intros Heq. rewrite Heq in Hq. lia.
    + assert (Hpos : 0 < depth g (pool g d)) by lia.
      pose proof (pinv_schedule_pure QT X A F p d false HI Ewd Ha Hpos) as H.
      apply (retrieve_pinv _ _ _ _ _ prio (pool g d)) in H.
      refine (QT_weaken _ _ _ _ _ _ H). intros q _.
      destruct (Nat.eq_dec q (pool g d)); [right; assumption|left; split; [exact I|assumption]].
  - injection Hs as <-. apply (pinv_drop _ d); [exact HI| |]; intros H; congruence.
Qed.

(* ------------------------------------------------------------------ Plan::EdgeFinished *)
Definition visit (fuel : nat) (prio : list nat) : nat -> plan -> res plan :=
  fun d pp =>
    match p_want pp d with
    | None => Ok pp
    | Some wd =>
      if all_inputs_ready g pp d then
        if want_eqb wd WNothing
        then edge_finished fuel g cfg prio d true false pp
        else schedule_work g prio d pp
      else Ok pp
    end.

(* the recursive call: an edge that is in want_ with kWantNothing *)
Lemma ef_nothing_eq fuel prio d p : p_want p d = Some WNothing ->
  edge_finished (S fuel) g cfg prio d true false p =
  fold_res (visit fuel prio) (cons_of g d)
    (retrieve g prio (pool g d)
       (mkPlan (upd (p_want p) d None) (p_ready p) (p_delayed p) (p_use p) (p_wanted p)
               (p_commands p) (upd (p_oready p) d true) (p_tokens p))).
Proof.
  intros Hw. cbn [edge_finished]. rewrite Hw. cbn [want_eqb negb andb].
  assert (Et : release_token cfg false (retrieve g prio (pool g d) p) = Some (retrieve g prio (pool g d) p)).
  { unfold release_token. destruct (c_jobserver cfg); reflexivity. }
  rewrite Et. cbn [negb].
  change (mkPlan (upd (p_want p) d None) (p_ready p) (p_delayed p) (p_use p) (p_wanted p)
                 (p_commands p) (upd (p_oready p) d true) (p_tokens p))
    with (frame p (upd (p_want p) d None) (p_wanted p) (p_commands p) (upd (p_oready p) d true) (p_tokens p)).
  rewrite retrieve_frame. unfold visit.
  unfold set_oready, set_want, set_wanted. psimpl.
  rewrite retrieve_want, retrieve_oready, retrieve_wanted, retrieve_commands, retrieve_tokens.
  reflexivity.
Qed.

Definition rel_use (p : plan) (q : nat) : option (nat -> nat) :=
  if negb (Nat.eqb (depth g q) 0)
  then (match p_use p q with O => None | S u => Some (upd (p_use p) q u) end)
  else Some (p_use p).

Definition rel_tok (p : plan) : option nat :=
  match c_jobserver cfg with
  | None => Some (p_tokens p)
  | Some _ => (match p_tokens p with O => None | S t => Some t end)
  end.

(* the top-level call: a directly wanted edge that went through FindWork *)
Lemma ef_top_eq fuel prio e succ p w : p_want p e = Some w -> w <> WNothing ->
  edge_finished (S fuel) g cfg prio e succ true p =
  match rel_use p (pool g e) with
  | None => Forbidden
  | Some u =>
    match rel_tok p with
    | None => Forbidden
    | Some t =>
      if negb succ
      then Ok (retrieve g prio (pool g e)
                 (mkPlan (p_want p) (p_ready p) (p_delayed p) u (p_wanted p) (p_commands p)
                         (p_oready p) t))
      else match p_wanted p with
           | O => Forbidden
           | S n =>
             fold_res (visit fuel prio) (cons_of g e)
               (retrieve g prio (pool g e)
                  (mkPlan (upd (p_want p) e None) (p_ready p) (p_delayed p) u n (p_commands p)
                          (upd (p_oready p) e true) t))
           end
    end
  end.
Proof.
  intros Hw Hn. cbn [edge_finished]. rewrite Hw.
  assert (Edw : negb (want_eqb w WNothing) = true) by (destruct w; [congruence|reflexivity|reflexivity]).
  rewrite Edw. cbn [andb]. unfold rel_use.
  set (q := pool g e).
  assert (Hmain : forall u,
    match release_token cfg true (retrieve g prio q (set_use p u)) with
    | None => Forbidden
    | Some p3 =>
      if negb succ then Ok p3
      else match (match p_wanted p3 with O => None | S n => Some n end) with
           | None => Forbidden
           | Some n =>
             fold_res (visit fuel prio) (cons_of g e)
               (set_oready (set_want (set_wanted p3 n) (upd (p_want p3) e None)) (upd (p_oready p3) e true))
           end
    end =
    match rel_tok p with
    | None => Forbidden
    | Some t =>
      if negb succ
      then Ok (retrieve g prio q (mkPlan (p_want p) (p_ready p) (p_delayed p) u (p_wanted p) (p_commands p) (p_oready p) t))
      else match p_wanted p with
           | O => Forbidden
           | S n =>
             fold_res (visit fuel prio) (cons_of g e)
               (retrieve g prio q (mkPlan (upd (p_want p) e None) (p_ready p) (p_delayed p) u n (p_commands p) (upd (p_oready p) e true) t))
           end
    end).
  { intros u. unfold release_token, rel_tok.
    assert (Hfr : forall w' n' o' t',
      retrieve g prio q (mkPlan w' (p_ready p) (p_delayed p) u n' (p_commands p) o' t') =
      frame (retrieve g prio q (set_use p u)) w' n' (p_commands p) o' t').
    { intros w' n' o' t'. rewrite <- retrieve_frame. reflexivity. }
    destruct (c_jobserver cfg) as [nj|].
    - rewrite retrieve_tokens. change (p_tokens (set_use p u)) with (p_tokens p).
      destruct (p_tokens p) as [|t]; [reflexivity|].
      destruct (negb succ).
      + rewrite Hfr. unfold set_tokens, frame.
        rewrite retrieve_want, retrieve_oready, retrieve_wanted, retrieve_commands. reflexivity.
      + unfold set_tokens at 1. psimpl. rewrite retrieve_wanted. change (p_wanted (set_use p u)) with (p_wanted p).
        destruct (p_wanted p) as [|n]; [reflexivity|]. rewrite Hfr.
        unfold set_oready, set_want, set_wanted, set_tokens, frame. psimpl.
        rewrite retrieve_want, retrieve_oready, retrieve_commands. reflexivity.
    - destruct (negb succ).
      + rewrite Hfr. f_equal. exact (retrieve_as_frame prio q (set_use p u)).
      + rewrite retrieve_wanted. change (p_wanted (set_use p u)) with (p_wanted p).
        destruct (p_wanted p) as [|n]; [reflexivity|]. rewrite Hfr.
        unfold set_oready, set_want, set_wanted, frame. psimpl.
        rewrite retrieve_want, retrieve_oready, retrieve_commands, retrieve_tokens. reflexivity. }
  destruct (negb (Nat.eqb (depth g q) 0)).
  - destruct (p_use p q) as [|u0]; [reflexivity|]. apply Hmain.
  - specialize (Hmain (p_use p)). replace (set_use p (p_use p)) with p in Hmain by (destruct p; reflexivity).
    exact Hmain.
Qed.

Definition ef_rec_stmt (fuel : nat) : Prop :=
  forall prio d X A F p p',
    pinv QT (d :: X) A F p -> p_want p d = Some WNothing -> all_inputs_ready g p d = true ->
    edge_finished fuel g cfg prio d true false p = Ok p' -> pinv QT X A F p'.

Definition fold_stmt (fuel : nat) : Prop :=
  forall prio l X A F p p',
    pinv QT (l ++ X) A F p -> fold_res (visit fuel prio) l p = Ok p' -> pinv QT X A F p'.

Lemma fold_of_rec fuel : ef_rec_stmt fuel -> fold_stmt fuel.
Proof.
  intros Hrec prio l. induction l as [|d l IH]; intros X A F p p' HI Hf.
  - cbn [fold_res] in Hf. injection Hf as <-. exact HI.
  - cbn [fold_res] in Hf. destruct (visit fuel prio d p) as [p1| |] eqn:Ev; try discriminate.
    apply (IH X A F p1 p'); [|exact Hf]. clear Hf IH.
    cbn [app] in HI. unfold visit in Ev.
    destruct (p_want p d) as [wd|] eqn:Ewd.
    + destruct (all_inputs_ready g p d) eqn:Ea.
      * destruct wd; cbn [want_eqb] in Ev.
        -- apply (Hrec prio d (l ++ X) A F p p1 HI Ewd Ea Ev).
        -- apply (schedule_work_pinv (l ++ X) A F p prio d p1 HI); [unfold is_wanted; rewrite Ewd; reflexivity|exact Ea|exact Ev].
        -- apply (schedule_work_pinv (l ++ X) A F p prio d p1 HI); [unfold is_wanted; rewrite Ewd; reflexivity|exact Ea|exact Ev].
      * injection Ev as <-. apply (pinv_drop _ d); [exact HI| |]; intros _ H; congruence.
    + injection Ev as <-. apply (pinv_drop _ d); [exact HI| |]; intros H; congruence.
Qed.

Lemma rec_of_fold fuel : fold_stmt fuel -> ef_rec_stmt (S fuel).
Proof.
  intros Hfold prio d X A F p p' HI Hw Ha Hef.
  rewrite (ef_nothing_eq fuel prio d p Hw) in Hef.
  refine (Hfold prio (cons_of g d) X A F _ p' _ Hef).
  apply (QT_weaken (fun r => QT r \/ r = pool g d)); [intros q _; left; exact I|].
  apply retrieve_pinv.
  pose proof HI as [I1 I2 I3 I4 I5 I6 I7 I8 I9 I10 I11 I12 I13 I14 I15].
  assert (Hns : ~ In d (sched p A F)).
  { intros Hin. destruct (I2 d Hin) as [H _]. unfold is_wanted in H. rewrite Hw in H. discriminate. }
  apply (pinv_done_pure QT (d :: X) X A A F p d WNothing); try assumption.
  - intros x [<-|Hx]; [left; reflexivity|right; exact Hx].
  - intros x Hx. right. exact Hx.
  - intros x. split; [intros Hx; split; [exact Hx|intros ->; exact (Hns Hx)]|tauto].
  - rewrite I14. symmetry. apply is_wanted_upd_keep. unfold is_wanted. rewrite upd_same, Hw. reflexivity.
Qed.

Lemma ef_rec_all fuel : ef_rec_stmt fuel /\ fold_stmt fuel.
Proof.
  induction fuel as [|fuel [IH1 IH2]].
  - assert (H0 : ef_rec_stmt 0) by (intros prio d X A F p p' _ _ _ H; discriminate H).
    split; [exact H0|apply fold_of_rec; exact H0].
  - pose proof (rec_of_fold fuel IH2) as H. split; [exact H|apply fold_of_rec; exact H].
Qed.

Lemma sched_split_A p A F e : NoDup A -> In e A ->
  Permutation (sched p A F) (e :: p_ready p ++ p_delayed p ++ rem e A ++ F).
Proof.
  intros Hnd Hin. unfold sched.
  rewrite (rem_perm e A Hnd Hin) at 1.
  rewrite (Permutation_middle (p_ready p)). apply Permutation_app_head.
  rewrite (Permutation_middle (p_delayed p)). apply Permutation_app_head. reflexivity.
Qed.

Lemma pinv_nodup_A Q X A F p : pinv Q X A F p -> NoDup A.
Proof.
  intros [I1 _ _ _ _ _ _ _ _ _ _ _ _ _ _]. unfold sched in I1.
  apply NoDup_app_iff in I1. destruct I1 as [_ [I1 _]].
  apply NoDup_app_iff in I1. destruct I1 as [_ [I1 _]].
  apply NoDup_app_iff in I1. tauto.
Qed.

Lemma pinv_nodup_R Q X A F p : pinv Q X A F p -> NoDup (p_ready p).
Proof.
  intros [I1 _ _ _ _ _ _ _ _ _ _ _ _ _ _]. unfold sched in I1.
  apply NoDup_app_iff in I1. tauto.
Qed.

Lemma in_sched_A p A F e : In e A -> In e (sched p A F).
Proof. intros H. unfold sched. apply in_or_app. right. apply in_or_app. right. apply in_or_app. left. exact H. Qed.
Lemma in_sched_R p A F e : In e (p_ready p) -> In e (sched p A F).
Proof. intros H. unfold sched. apply in_or_app. left. exact H. Qed.
Lemma in_sched_D p A F e : In e (p_delayed p) -> In e (sched p A F).
Proof. intros H. unfold sched. apply in_or_app. right. apply in_or_app. left. exact H. Qed.
Lemma in_sched_F p A F e : In e F -> In e (sched p A F).
Proof. intros H. unfold sched. apply in_or_app. right. apply in_or_app. right. apply in_or_app. right. exact H. Qed.

Lemma rel_use_spec p q u : rel_use p q = Some u ->
  (forall r, r <> q -> u r = p_use p r) /\
  (0 < depth g q -> S (u q) = p_use p q) /\ (depth g q = 0 -> u = p_use p).
Proof.
  unfold rel_use. destruct (Nat.eqb_spec (depth g q) 0) as [Hz|Hnz]; cbn [negb].
  - intros H. injection H as <-. split; [intros; reflexivity|split; [intros; lia|intros; reflexivity]].
  - destruct (p_use p q) as [|u0] eqn:E; [discriminate|]. intros H. injection H as <-.
    split; [intros r Hr; apply upd_other; exact Hr|]. split; [intros _; rewrite upd_same; reflexivity|lia].
Qed.

Lemma rel_tok_spec p A e t : p_tokens p = tok A -> NoDup A -> In e A -> rel_tok p = Some t ->
  t = tok (rem e A).
Proof.
  unfold rel_tok, tok. intros Ht Hnd Hin. rewrite (rem_length e A Hnd Hin) in Ht.
  destruct (c_jobserver cfg).
  - rewrite Ht. intros H. injection H as <-. reflexivity.
  - intros H. injection H as <-. exact Ht.
Qed.

(* use after the pool release, for the active set without e *)
Lemma use_after_release p A F e u :
  pinv QT [] A F p -> In e A -> rel_use p (pool g e) = Some u ->
  (forall q, 0 < depth g q -> u q = cnt g q (p_ready p) + cnt g q (rem e A) /\ u q <= depth g q) /\
  (forall q, q <> pool g e -> 0 < depth g q -> delayed_of g q (p_delayed p) <> [] -> u q = depth g q).
Proof.
  intros HI Hin Hu. pose proof (pinv_nodup_A _ _ _ _ _ HI) as HndA.
  destruct HI as [I1 I2 I3 I4 I5 I6 I7 I8 I9 I10 I11 I12 I13 I14 I15].
  destruct (rel_use_spec p (pool g e) u Hu) as [U1 [U2 U3]].
  split.
  - intros q Hq. destruct (I11 q Hq) as [H1 H2]. pose proof (cnt_rem g q e A HndA Hin) as Hc.
    destruct (Nat.eq_dec q (pool g e)) as [->|Hne].
    + rewrite Nat.eqb_refl in Hc. specialize (U2 Hq). lia.
    + rewrite (U1 q Hne). destruct (Nat.eqb_spec (pool g e) q) as [E|E]; [congruence|]. lia.
  - intros q Hne Hq Hd. rewrite (U1 q Hne). apply I12; [exact I|exact Hq|exact Hd].
Qed.

Lemma ef_top_success fuel prio e A F p p' :
  pinv QT [] A F p -> In e A ->
  edge_finished fuel g cfg prio e true true p = Ok p' -> pinv QT [] (rem e A) F p'.
Proof.
  intros HI Hin Hef. destruct fuel as [|fuel]; [discriminate Hef|].
  pose proof (pinv_nodup_A _ _ _ _ _ HI) as HndA.
  pose proof HI as [I1 I2 I3 I4 I5 I6 I7 I8 I9 I10 I11 I12 I13 I14 I15].
  destruct (I2 e (in_sched_A p A F e Hin)) as [Hw Ha]. unfold is_wanted in Hw.
  destruct (p_want p e) as [w|] eqn:Ew; [|discriminate].
  assert (Hwn : w <> WNothing) by (intros ->; discriminate).
  rewrite (ef_top_eq fuel prio e true p w Ew Hwn) in Hef.
  destruct (rel_use p (pool g e)) as [u|] eqn:Eu; [|discriminate].
  destruct (rel_tok p) as [t|] eqn:Et; [|discriminate]. cbn [negb] in Hef.
  destruct (p_wanted p) as [|n] eqn:En; [discriminate|].
  destruct (use_after_release p A F e u HI Hin Eu) as [Hu Hfull].
  pose proof (sched_split_A p A F e HndA Hin) as Hperm.
  assert (Hnd' : NoDup (e :: p_ready p ++ p_delayed p ++ rem e A ++ F)) by (apply (Permutation_NoDup Hperm); exact I1).
  inversion Hnd' as [|e' l' Hne' Hnd'']; subst.
  destruct (ef_rec_all fuel) as [_ Hfold].
  refine (Hfold prio (cons_of g e) [] (rem e A) F _ p' _ Hef).
  apply (QT_weaken (fun r => r <> pool g e \/ r = pool g e)).
  { intros q _. destruct (Nat.eq_dec q (pool g e)); [right|left]; assumption. }
  apply retrieve_pinv.
  apply (pinv_done_pure (fun r => r <> pool g e) [] [] A (rem e A) F p e w); try assumption.
  - intros x [].
  - intros x [].
  - intros x. split.
    + intros Hx. split; [apply (Permutation_in _ (Permutation_sym Hperm)); right; exact Hx|].
      intros ->. exact (Hne' Hx).
    + intros [Hx Hne]. apply (Permutation_in _ Hperm) in Hx. destruct Hx as [Hx|Hx]; [congruence|exact Hx].
  - assert (Hlt : e < n_edges g) by (apply I10; congruence).
    pose proof (count_if_flip (p_want p) e None (all_edges g) all_edges_nodup (all_edges_in e Hlt)) as Hc.
    unfold is_wanted in Hc at 1 2. rewrite Ew, upd_same in Hc.
    assert (Hw' : match w with WNothing => false | _ => true end = true) by (destruct w; [congruence|reflexivity|reflexivity]).
    specialize (Hc Hw' eq_refl). rewrite <- I14 in Hc. injection Hc as Hc. exact Hc.
  - apply (rel_tok_spec p A e t I15 HndA Hin Et).
Qed.

Lemma ef_top_failure fuel prio e A F p p' :
  pinv QT [] A F p -> In e A ->
  edge_finished fuel g cfg prio e false true p = Ok p' -> pinv QT [] (rem e A) (e :: F) p'.
Proof.
  intros HI Hin Hef. destruct fuel as [|fuel]; [discriminate Hef|].
  pose proof (pinv_nodup_A _ _ _ _ _ HI) as HndA.
  pose proof HI as [I1 I2 I3 I4 I5 I6 I7 I8 I9 I10 I11 I12 I13 I14 I15].
  destruct (I2 e (in_sched_A p A F e Hin)) as [Hw Ha]. unfold is_wanted in Hw.
  destruct (p_want p e) as [w|] eqn:Ew; [|discriminate].
  assert (Hwn : w <> WNothing) by (intros ->; discriminate).
  rewrite (ef_top_eq fuel prio e false p w Ew Hwn) in Hef.
  destruct (rel_use p (pool g e)) as [u|] eqn:Eu; [|discriminate].
  destruct (rel_tok p) as [t|] eqn:Et; [|discriminate]. cbn [negb] in Hef. injection Hef as <-.
  destruct (use_after_release p A F e u HI Hin Eu) as [Hu Hfull].
  apply (QT_weaken (fun r => r <> pool g e \/ r = pool g e)).
  { intros q _. destruct (Nat.eq_dec q (pool g e)); [right|left]; assumption. }
  apply retrieve_pinv.
  apply (pinv_reshape QT (fun r => r <> pool g e) [] A F (rem e A) (e :: F) (p_ready p) u t p HI).
  - rewrite (sched_split_A p A F e HndA Hin).
    rewrite (Permutation_middle (p_ready p)). apply Permutation_app_head.
    rewrite (Permutation_middle (p_delayed p)). apply Permutation_app_head.
    symmetry. apply Permutation_middle.
  - exact Hu.
  - intros q Hq Hd Hdl. apply Hfull; assumption.
  - apply (rel_tok_spec p A e t I15 HndA Hin Et).
Qed.

(* ------------------------------------------------------------------ Plan::ScheduleInitialEdges *)
(* DelayEdge without ScheduleWork: the edge sits in delayed_ with want_ still kWantToStart *)
Lemma pinv_delay_pure (Q : nat -> Prop) X A F p d :
  pinv Q (d :: X) A F p -> p_want p d = Some WToStart -> all_inputs_ready g p d = true ->
  ~ In d X -> 0 < depth g (pool g d) ->
  pinv (fun r => Q r /\ r <> pool g d) X A F (set_delayed p (d :: p_delayed p)).
Proof.
  intros [I1 I2 I3 I4 I5 I6 I7 I8 I9 I10 I11 I12 I13 I14 I15] Hw Ha HnX Hdep.
  assert (Hns : ~ In d (sched p A F)).
  { intros Hin. rewrite (I6 d (or_introl eq_refl) Hin) in Hw. discriminate. }
  set (p' := set_delayed p (d :: p_delayed p)).
  assert (Hperm : Permutation (sched p' A F) (d :: sched p A F)).
  { unfold sched, p'. psimpl. cbn [app]. symmetry. apply Permutation_middle. }
  assert (Hin' : forall x, In x (sched p' A F) <-> x = d \/ In x (sched p A F)).
  { intros x. split; intros H.
    - apply (Permutation_in _ Hperm) in H. destruct H as [<-|H]; [left; reflexivity|right; exact H].
    - apply (Permutation_in _ (Permutation_sym Hperm)). destruct H as [->|H]; [left; reflexivity|right; exact H]. }
  constructor; try assumption.
  - apply (Permutation_NoDup (Permutation_sym Hperm)). constructor; assumption.
  - intros e He. apply Hin' in He. destruct He as [->|He]; [|apply I2; exact He].
    split; [unfold is_wanted; change (p_want p' d) with (p_want p d); rewrite Hw; reflexivity|exact Ha].
  - intros e He. apply Hin'. right. apply I3. exact He.
  - intros e He Hae. destruct (I4 e He Hae) as [H|[H|H]].
    + left. apply Hin'. right. exact H.
    + left. apply Hin'. left. symmetry. exact H.
    + right. exact H.
  - intros e He Hae. destruct (I5 e He Hae) as [H|H]; [|exact H].
    subst e. change (p_want p' d) with (p_want p d) in He. congruence.
  - intros x Hx Hs. apply Hin' in Hs. destruct Hs as [->|Hs]; [contradiction|].
    apply I6; [right; exact Hx|exact Hs].
  - intros q [HQq Hq] Hdq Hdl. unfold p' in *. psimpl. apply I12; [exact HQq|exact Hdq|].
    unfold delayed_of in *. cbn [filter] in Hdl.
    destruct (Nat.eqb_spec (pool g d) q) as [E|E]; [congruence|exact Hdl].
  - intros e He. unfold p' in He. psimpl. destruct He as [<-|He]; [exact Hdep|apply I13; exact He].
Qed.

Record wf_snap (sn : snapshot) : Prop := {
  ws_oready_none : forall e, sn_oready sn e = true -> sn_want sn e = None;
  ws_oready_closed : forall e, sn_oready sn e = true -> forallb (sn_oready sn) (ins g e) = true;
  ws_no_tofinish : forall e, sn_want sn e <> Some WToFinish;
  ws_closed : forall e i, sn_want sn e <> None -> In i (ins g e) -> sn_oready sn i = false ->
              sn_want sn i <> None;
  ws_nothing : forall e, sn_want sn e = Some WNothing -> forallb (sn_oready sn) (ins g e) = false;
  ws_range : forall e, sn_want sn e <> None -> e < n_edges g;
  ws_wanted : sn_wanted sn = count_if (is_wanted (sn_want sn)) (all_edges g);
  ws_commands : sn_commands sn =
                count_if (fun e => is_wanted (sn_want sn) e && negb (phony g e)) (all_edges g) }.

Definition QF : nat -> Prop := fun _ => False.
Definition nothing_blocked (p : plan) : Prop :=
  forall x, p_want p x = Some WNothing -> all_inputs_ready g p x = false.

Lemma snap_plan_pinv sn : wf_snap sn -> pinv QF (all_edges g) [] [] (snap_plan sn).
Proof.
  intros [W1 W2 W3 W4 W5 W6 W7 W8]. unfold snap_plan.
  constructor; unfold sched; psimpl; cbn [app].
  - constructor.
  - intros e [].
  - intros e He. exfalso. exact (W3 e He).
  - intros e He _. right. apply all_edges_in. apply W6. congruence.
  - intros e He _. apply all_edges_in. apply W6. congruence.
  - intros x _ [].
  - exact W1.
  - exact W2.
  - exact W4.
  - exact W6.
  - intros q _. unfold cnt. cbn. lia.
  - intros q [].
  - intros e [].
  - exact W7.
  - destruct (c_jobserver cfg); reflexivity.
Qed.

Lemma sched_init_edge_want_none e p x : p_want (sched_init_edge g e p) x = None <-> p_want p x = None.
Proof.
  unfold sched_init_edge. destruct (p_want p e) as [[| |]|] eqn:Ew; try reflexivity.
  destruct (all_inputs_ready g p e); [|reflexivity].
  destruct (Nat.eqb (depth g (pool g e)) 0); psimpl; [|reflexivity].
  unfold upd. destruct (Nat.eqb_spec x e) as [->|Hne]; [|reflexivity].
  rewrite Ew. split; discriminate.
Qed.

Lemma sched_init_fold sn : wf_snap sn -> forall l1 l2, all_edges g = l1 ++ l2 ->
  let p := fold_left (fun pp e => sched_init_edge g e pp) l1 (snap_plan sn) in
  pinv QF l2 [] [] p /\ (forall x, In x (sched p [] []) -> In x l1) /\ nothing_blocked p /\
  p_commands p = sn_commands sn /\
  (forall x, is_wanted (p_want p) x = is_wanted (sn_want sn) x).
Proof.
  intros Hws l1. induction l1 as [|e l1 IH] using rev_ind; intros l2 Hall.
  - cbn [fold_left app] in *. rewrite <- Hall. split; [apply snap_plan_pinv; exact Hws|].
    split; [intros x []|]. split; [|split; [reflexivity|intros x; reflexivity]].
    intros x Hx. unfold snap_plan in *. psimpl. apply (ws_nothing sn Hws). exact Hx.
  - rewrite fold_left_app. cbn [fold_left]. rewrite <- app_assoc in Hall. cbn [app] in Hall.
    destruct (IH (e :: l2) Hall) as [HI [Hsub [Hnb [Hcmd Hisw]]]]. clear IH.
    set (p := fold_left (fun pp e0 => sched_init_edge g e0 pp) l1 (snap_plan sn)) in *.
    assert (Hnd : NoDup (l1 ++ e :: l2)) by (rewrite <- Hall; apply all_edges_nodup).
    assert (He1 : ~ In e l1).
    { apply NoDup_app_iff in Hnd. destruct Hnd as [_ [_ Hd]]. intros H. apply (Hd e H). left. reflexivity. }
    assert (He2 : ~ In e l2).
    { apply NoDup_app_iff in Hnd. destruct Hnd as [_ [Hd _]]. inversion Hd; assumption. }
    assert (Hsub' : forall p', (forall x, In x (sched p' [] []) -> x = e \/ In x (sched p [] [])) ->
                         forall x, In x (sched p' [] []) -> In x (l1 ++ [e])).
    { intros p' H x Hx. apply in_or_app. destruct (H x Hx) as [->|H']; [right; left; reflexivity|left; apply Hsub; exact H']. }
    unfold sched_init_edge.
    destruct (p_want p e) as [[| |]|] eqn:Ew.
    + split; [apply (pinv_drop _ e); [exact HI| |]; intros H1 H2; [congruence|]; rewrite (Hnb e H1) in H2; discriminate|].
      split; [intros x Hx; apply in_or_app; left; apply Hsub; exact Hx|]. split; [exact Hnb|split; assumption].
    + destruct (all_inputs_ready g p e) eqn:Ea.
      * destruct (Nat.eqb_spec (depth g (pool g e)) 0) as [Hz|Hnz].
        -- pose proof (pinv_schedule_pure QF l2 [] [] p e true HI Ew Ea Hz) as H.
           split; [eapply pinv_weaken; [| |left; eassumption|exact H]; [intros q []|intros x Hx; exact Hx]|].
           split.
           { apply Hsub'. intros x Hx. unfold sched in *. psimpl. cbn [app] in *. rewrite app_nil_r in *.
             destruct Hx as [<-|Hx]; [left; reflexivity|right; exact Hx]. }
           split.
           { intros x Hx. psimpl. unfold upd in Hx. destruct (Nat.eqb_spec x e) as [Heq|Hne]; [discriminate Hx|].
             apply Hnb. exact Hx. }
           split; [exact Hcmd|]. intros x. rewrite <- Hisw. unfold is_wanted. psimpl. unfold upd.
           destruct (Nat.eqb_spec x e) as [->|Hne]; [rewrite Ew; reflexivity|reflexivity].
        -- assert (Hpos : 0 < depth g (pool g e)) by lia.
           pose proof (pinv_delay_pure QF l2 [] [] p e HI Ew Ea He2 Hpos) as H.
           split; [eapply pinv_weaken; [| |left; eassumption|exact H]; [intros q []|intros x Hx; exact Hx]|].
           split.
           { apply Hsub'. intros x Hx. unfold sched in *. psimpl. cbn [app] in *. rewrite app_nil_r in *.
             apply in_app_or in Hx. destruct Hx as [Hx|[<-|Hx]]; [right; apply in_or_app; left; exact Hx|left; reflexivity|right; apply in_or_app; right; exact Hx]. }
           split; [exact Hnb|split; assumption].
      * split; [apply (pinv_drop _ e); [exact HI| |]; intros H1 H2; congruence|].
        split; [intros x Hx; apply in_or_app; left; apply Hsub; exact Hx|]. split; [exact Hnb|split; assumption].
    + split; [apply (pinv_drop _ e); [exact HI| |]; intros H1 H2; congruence|].
      split; [intros x Hx; apply in_or_app; left; apply Hsub; exact Hx|]. split; [exact Hnb|split; assumption].
    + split; [apply (pinv_drop _ e); [exact HI| |]; intros H1 H2; congruence|].
      split; [intros x Hx; apply in_or_app; left; apply Hsub; exact Hx|]. split; [exact Hnb|split; assumption].
Qed.

Lemma retrieve_fold_pinv prio : forall l (Q : nat -> Prop) p,
  pinv Q [] [] [] p ->
  pinv (fun r => Q r \/ In r l) [] [] [] (fold_left (fun pp q => retrieve g prio q pp) l p).
Proof.
  induction l as [|q l IH]; intros Q p HI; cbn [fold_left].
  - eapply pinv_weaken; [| |left; eassumption|exact HI]; [intros r [H|[]] _; exact H|intros x Hx; exact Hx].
  - pose proof (IH _ _ (retrieve_pinv Q [] [] [] p prio q HI)) as H.
    eapply pinv_weaken; [| |left; eassumption|exact H]; [|intros x Hx; exact Hx].
    intros r [Hr|[<-|Hr]] _; [left; left; exact Hr|left; right; reflexivity|right; exact Hr].
Qed.

Lemma fold_retrieve_keeps prio : forall l p,
  let p' := fold_left (fun pp q => retrieve g prio q pp) l p in
  p_want p' = p_want p /\ p_commands p' = p_commands p.
Proof.
  induction l as [|q l IH]; intros p; cbn [fold_left]; [split; reflexivity|].
  destruct (IH (retrieve g prio q p)) as [H1 H2]. rewrite H1, H2, retrieve_want, retrieve_commands.
  split; reflexivity.
Qed.

Lemma schedule_initial_pinv prio sn : wf_snap sn ->
  let p := schedule_initial_plan g prio (snap_plan sn) in
  pinv QT [] [] [] p /\ p_commands p = sn_commands sn /\
  (forall x, is_wanted (p_want p) x = is_wanted (sn_want sn) x).
Proof.
  intros Hws. unfold schedule_initial_plan.
  destruct (sched_init_fold sn Hws (all_edges g) [] (eq_sym (app_nil_r _))) as [HI [_ [_ [Hc Hw]]]].
  set (p1 := fold_left (fun pp e => sched_init_edge g e pp) (all_edges g) (snap_plan sn)) in *.
  destruct (fold_retrieve_keeps prio (seq 0 (length (g_depths g))) p1) as [K1 K2].
  split; [|split; [rewrite K2; exact Hc|intros x; unfold is_wanted in *; rewrite K1; apply Hw]].
  pose proof (retrieve_fold_pinv prio (seq 0 (length (g_depths g))) QF p1 HI) as H.
  refine (QT_weaken _ _ _ _ _ _ H). intros q Hq. right. apply in_seq.
  unfold depth in Hq. destruct (lt_dec q (length (g_depths g))) as [Hlt|Hge]; [lia|].
  rewrite nth_overflow in Hq by lia. lia.
Qed.

(* ------------------------------------------------------------------ how want_/outputs_ready_ evolve *)
Record evolf (w : nat -> option want_t) (o : nat -> bool) (c : nat) (p' : plan) : Prop := {
  ev_want : forall x, p_want p' x = w x \/
                      (w x = Some WToStart /\ p_want p' x = Some WToFinish) \/
                      (w x = Some WNothing /\ p_want p' x = None /\ p_oready p' x = true);
  ev_oready : forall x, p_oready p' x = true -> o x = true \/ w x = Some WNothing;
  ev_mono : forall x, o x = true -> p_oready p' x = true;
  ev_commands : p_commands p' = c }.

Definition evol (p p' : plan) : Prop := evolf (p_want p) (p_oready p) (p_commands p) p'.

Lemma evol_refl p : evol p p.
Proof. constructor; [intros x; left; reflexivity|intros x H; left; exact H|intros x H; exact H|reflexivity]. Qed.

Lemma evolf_trans w o c p1 p2 : evolf w o c p1 -> evol p1 p2 -> evolf w o c p2.
Proof.
  intros [A1 A2 A3 A4] [B1 B2 B3 B4]. constructor.
  - intros x. destruct (A1 x) as [Ha|[[Ha1 Ha2]|[Ha1 [Ha2 Ha3]]]]; destruct (B1 x) as [Hb|[[Hb1 Hb2]|[Hb1 [Hb2 Hb3]]]].
    + left. congruence.
    + right. left. split; congruence.
    + right. right. repeat split; congruence.
    + right. left. split; congruence.
    + congruence.
    + congruence.
    + right. right. repeat split; [exact Ha1|congruence|apply B3; exact Ha3].
    + congruence.
    + congruence.
  - intros x Hx. destruct (B2 x Hx) as [H|H].
    + apply A2. exact H.
    + destruct (A1 x) as [Ha|[[Ha1 Ha2]|[Ha1 [Ha2 Ha3]]]].
      * right. congruence.
      * congruence.
      * right. exact Ha1.
  - intros x Hx. apply B3. apply A3. exact Hx.
  - congruence.
Qed.

Lemma evol_trans p1 p2 p3 : evol p1 p2 -> evol p2 p3 -> evol p1 p3.
Proof. apply evolf_trans. Qed.

Lemma evolf_fields w o c p1 p2 : evolf w o c p1 ->
  p_want p2 = p_want p1 -> p_oready p2 = p_oready p1 -> p_commands p2 = p_commands p1 ->
  evolf w o c p2.
Proof.
  intros [A1 A2 A3 A4] E1 E2 E3. constructor.
  - intros x. rewrite E1, E2. apply A1.
  - intros x. rewrite E2. apply A2.
  - intros x. rewrite E2. apply A3.
  - rewrite E3. exact A4.
Qed.

Lemma retrieve_evolf w o c prio q p : evolf w o c p -> evolf w o c (retrieve g prio q p).
Proof.
  intros [A1 A2 A3 A4]. constructor.
  - intros x. rewrite retrieve_want, retrieve_oready. apply A1.
  - intros x. rewrite retrieve_oready. apply A2.
  - intros x. rewrite retrieve_oready. apply A3.
  - rewrite retrieve_commands. exact A4.
Qed.

Lemma schedule_work_evol prio d p p' : schedule_work g prio d p = Ok p' -> evol p p'.
Proof.
  unfold schedule_work. destruct (p_want p d) as [[| |]|] eqn:Ew; try discriminate.
  - assert (H : evol p (set_want p (upd (p_want p) d (Some WToFinish)))).
    { constructor; psimpl; try (intros x Hx; try left; exact Hx); [|reflexivity].
      intros x. unfold upd. destruct (Nat.eqb_spec x d) as [->|Hne]; [right; left; split; [exact Ew|reflexivity]|left; reflexivity]. }
    destruct (Nat.eqb (depth g (pool g d)) 0); intros H'; injection H' as <-.
    + apply (evolf_fields _ _ _ _ _ H); reflexivity.
    + apply retrieve_evolf. apply (evolf_fields _ _ _ _ _ H); reflexivity.
  - intros H. injection H as <-. apply evol_refl.
Qed.

Lemma ef_evol_all fuel :
  (forall prio d p p', p_want p d = Some WNothing ->
     edge_finished fuel g cfg prio d true false p = Ok p' -> evol p p') /\
  (forall prio l p p', fold_res (visit fuel prio) l p = Ok p' -> evol p p').
Proof.
  assert (Hfold : forall fuel,
    (forall prio d p p', p_want p d = Some WNothing ->
       edge_finished fuel g cfg prio d true false p = Ok p' -> evol p p') ->
    forall prio l p p', fold_res (visit fuel prio) l p = Ok p' -> evol p p').
  { intros f Hrec prio l. induction l as [|d l IH]; intros p p' Hf; cbn [fold_res] in Hf.
    - injection Hf as <-. apply evol_refl.
    - destruct (visit f prio d p) as [p1| |] eqn:Ev; try discriminate.
      apply (evol_trans p p1 p'); [|apply IH; exact Hf].
      unfold visit in Ev. destruct (p_want p d) as [wd|] eqn:Ewd; [|injection Ev as <-; apply evol_refl].
      destruct (all_inputs_ready g p d); [|injection Ev as <-; apply evol_refl].
      destruct wd; cbn [want_eqb] in Ev.
      + apply (Hrec prio d p p1 Ewd Ev).
      + apply (schedule_work_evol prio d p p1 Ev).
      + apply (schedule_work_evol prio d p p1 Ev). }
  induction fuel as [|fuel [IH1 IH2]].
  - assert (H0 : forall prio d p p', p_want p d = Some WNothing ->
       edge_finished 0 g cfg prio d true false p = Ok p' -> evol p p') by (intros prio d p p' _ H; discriminate H).
    split; [exact H0|apply Hfold; exact H0].
  - assert (H1 : forall prio d p p', p_want p d = Some WNothing ->
       edge_finished (S fuel) g cfg prio d true false p = Ok p' -> evol p p').
    { intros prio d p p' Hw Hef. rewrite (ef_nothing_eq fuel prio d p Hw) in Hef.
      refine (evolf_trans _ _ _ _ _ _ (IH2 prio _ _ _ Hef)).
      apply retrieve_evolf. constructor; psimpl.
      - intros x. unfold upd. destruct (Nat.eqb_spec x d) as [->|Hne]; [|left; reflexivity].
        right. right. repeat split; [exact Hw|]. rewrite Nat.eqb_refl. reflexivity.
      - intros x. unfold upd. destruct (Nat.eqb_spec x d) as [->|Hne]; [intros _; right; exact Hw|intros H; left; exact H].
      - intros x Hx. unfold upd. destruct (Nat.eqb x d); [reflexivity|exact Hx].
      - reflexivity. }
    split; [exact H1|apply Hfold; exact H1].
Qed.

Lemma ef_top_evol fuel prio e succ p p' w : p_want p e = Some w -> w <> WNothing ->
  edge_finished fuel g cfg prio e succ true p = Ok p' ->
  if succ then evolf (upd (p_want p) e None) (upd (p_oready p) e true) (p_commands p) p'
  else evol p p'.
Proof.
  intros Hw Hn Hef. destruct fuel as [|fuel]; [discriminate Hef|].
  rewrite (ef_top_eq fuel prio e succ p w Hw Hn) in Hef.
  destruct (rel_use p (pool g e)) as [u|]; [|discriminate].
  destruct (rel_tok p) as [t|]; [|discriminate].
  destruct succ; cbn [negb] in Hef.
  - destruct (p_wanted p) as [|n]; [discriminate|].
    destruct (ef_evol_all fuel) as [_ Hfold].
    refine (evolf_trans _ _ _ _ _ _ (Hfold prio _ _ _ Hef)).
    apply retrieve_evolf. constructor; psimpl; try (intros x Hx; try left; exact Hx); [|reflexivity].
    intros x. left. reflexivity.
  - injection Hef as <-. apply retrieve_evolf. constructor; psimpl; try (intros x Hx; try left; exact Hx); [|reflexivity].
    intros x. left. reflexivity.
Qed.

Lemma evolf_is_wanted w o c p' : evolf w o c p' -> forall x, is_wanted (p_want p') x = is_wanted w x.
Proof.
  intros [A1 _ _ _] x. unfold is_wanted.
  destruct (A1 x) as [Ha|[[Ha1 Ha2]|[Ha1 [Ha2 _]]]]; [rewrite Ha; reflexivity|rewrite Ha1, Ha2; reflexivity|rewrite Ha1, Ha2; reflexivity].
Qed.
