(* Proofs about the plan / build-loop model of PlanDefs.v.  No axioms: stdlib List, Permutation,
   Arith, Lia only.  Main results (restated in Properties/Properties_C04/C05/C06/C20.v):
     sinv_init, sinv_step, sinv_run     the invariant [sinv] (Appendix D.3 of DESIGN.md, adjusted to
                                        what is true of the code) holds in every reachable state
     start_inputs_ready ...             C04
     no_dependent_started, exit_code... C05
     limits, once, never_stuck ...      C06
     counters ...                       C20                                                        *)
From NinjaV Require Import Base.Bytes Engine.PlanDefs.
From Coq Require Import Permutation Arith.

Ltac psimpl :=
  cbn [p_want p_ready p_delayed p_use p_wanted p_commands p_oready p_tokens
       set_want set_ready set_delayed set_use set_wanted set_commands set_oready set_tokens] in *.

(* ------------------------------------------------------------------ list tools *)
Lemma memb_In x l : memb x l = true <-> In x l.
Proof.
  unfold memb. rewrite existsb_exists. split.
  - intros [y [Hy Heq]]. apply Nat.eqb_eq in Heq. subst. exact Hy.
  - intros H. exists x. split; [exact H|apply Nat.eqb_refl].
Qed.

Lemma memb_false x l : memb x l = false <-> ~ In x l.
Proof.
  rewrite <- memb_In. destruct (memb x l); split; intros H;
    [discriminate|exfalso; apply H; reflexivity|intros H'; discriminate|reflexivity].
Qed.

Lemma rem_In x y l : In x (rem y l) <-> In x l /\ x <> y.
Proof.
  induction l as [|z l IH]; cbn [rem].
  - cbn. tauto.
  - destruct (Nat.eqb_spec y z) as [->|Hne].
    + rewrite IH. cbn. split; [tauto|]. intros [[H|H] Hn]; [congruence|tauto].
    + cbn. rewrite IH. split.
      * intros [H|H]; [subst; split; [left; reflexivity|congruence]|tauto].
      * intros [[H|H] Hn]; [left; exact H|right; tauto].
Qed.

Lemma rem_notin y l : ~ In y l -> rem y l = l.
Proof.
  induction l as [|z l IH]; cbn [rem]; intros H; [reflexivity|].
  destruct (Nat.eqb_spec y z) as [->|Hne].
  - exfalso. apply H. left. reflexivity.
  - f_equal. apply IH. intros H'. apply H. right. exact H'.
Qed.

Lemma rem_NoDup y l : NoDup l -> NoDup (rem y l).
Proof.
  induction 1 as [|z l Hz Hl IH]; cbn [rem]; [constructor|].
  destruct (Nat.eqb_spec y z) as [->|Hne]; [exact IH|].
  constructor; [|exact IH]. rewrite rem_In. tauto.
Qed.

Lemma rem_perm y l : NoDup l -> In y l -> Permutation l (y :: rem y l).
Proof.
  induction 1 as [|z l Hz Hl IH]; intros Hin; [destruct Hin|].
  cbn [rem]. destruct (Nat.eqb_spec y z) as [->|Hne].
  - rewrite rem_notin by exact Hz. reflexivity.
  - destruct Hin as [->|Hin]; [congruence|].
    rewrite perm_swap. constructor. apply IH. exact Hin.
Qed.

Lemma rem_length y l : NoDup l -> In y l -> length l = S (length (rem y l)).
Proof. intros Hn Hi. apply (Permutation_length (rem_perm y l Hn Hi)). Qed.

Lemma filter_len_le {A} (f : A -> bool) l : length (filter f l) <= length l.
Proof. induction l as [|x l IH]; cbn [filter length]; [lia|]. destruct (f x); cbn [length]; lia. Qed.

Lemma NoDup_app_iff {A} (l l' : list A) :
  NoDup (l ++ l') <-> NoDup l /\ NoDup l' /\ (forall x, In x l -> In x l' -> False).
Proof.
  induction l as [|a l IH]; cbn [app].
  - split; [intros H; repeat split; [constructor|exact H|intros x []]|tauto].
  - split.
    + intros H. inversion H as [|a' l0 Ha Hl]; subst. apply IH in Hl. destruct Hl as [H1 [H2 H3]].
      repeat split.
      * constructor; [|exact H1]. intros Hin. apply Ha. apply in_or_app. left. exact Hin.
      * exact H2.
      * intros x [->|Hx] Hx'; [apply Ha; apply in_or_app; right; exact Hx'|eapply H3; eassumption].
    + intros [H1 [H2 H3]]. inversion H1 as [|a' l0 Ha Hl]; subst. constructor.
      * intros Hin. apply in_app_or in Hin. destruct Hin as [Hin|Hin]; [tauto|].
        apply (H3 a); [left; reflexivity|exact Hin].
      * apply IH. repeat split; [exact Hl|exact H2|]. intros x Hx Hx'. apply (H3 x); [right; exact Hx|exact Hx'].
Qed.

Lemma upd_same {A} (f : nat -> A) k v : upd f k v k = v.
Proof. unfold upd. rewrite Nat.eqb_refl. reflexivity. Qed.

Lemma upd_other {A} (f : nat -> A) k v x : x <> k -> upd f k v x = f x.
Proof. unfold upd. intros H. destruct (Nat.eqb_spec x k); [congruence|reflexivity]. Qed.

(* number of edges of pool q in a list *)
Definition cnt (g : graph) (q : nat) (l : list nat) : nat := length (delayed_of g q l).

Lemma delayed_of_perm g q l l' : Permutation l l' -> Permutation (delayed_of g q l) (delayed_of g q l').
Proof.
  unfold delayed_of. induction 1 as [|x l l' Hp IH|x y l|l l' l'' H1 IH1 H2 IH2]; cbn [filter].
  - constructor.
  - destruct (Nat.eqb (pool g x) q); [constructor|]; exact IH.
  - destruct (Nat.eqb (pool g x) q); destruct (Nat.eqb (pool g y) q); try reflexivity. apply perm_swap.
  - eapply perm_trans; eassumption.
Qed.

Lemma cnt_perm g q l l' : Permutation l l' -> cnt g q l = cnt g q l'.
Proof. intros H. apply Permutation_length. apply delayed_of_perm. exact H. Qed.

Lemma cnt_app g q l l' : cnt g q (l ++ l') = cnt g q l + cnt g q l'.
Proof. unfold cnt, delayed_of. rewrite filter_app, app_length. reflexivity. Qed.

Lemma cnt_cons g q x l : cnt g q (x :: l) = (if Nat.eqb (pool g x) q then 1 else 0) + cnt g q l.
Proof. unfold cnt, delayed_of. cbn [filter]. destruct (Nat.eqb (pool g x) q); reflexivity. Qed.

Lemma cnt_all_in g q l : (forall x, In x l -> pool g x = q) -> cnt g q l = length l.
Proof.
  induction l as [|x l IH]; intros H; [reflexivity|].
  rewrite cnt_cons. rewrite (H x (or_introl eq_refl)), Nat.eqb_refl. cbn [length].
  rewrite IH; [reflexivity|]. intros y Hy. apply H. right. exact Hy.
Qed.

Lemma cnt_none_in g q l : (forall x, In x l -> pool g x <> q) -> cnt g q l = 0.
Proof.
  induction l as [|x l IH]; intros H; [reflexivity|].
  rewrite cnt_cons. destruct (Nat.eqb_spec (pool g x) q) as [He|Hne].
  - exfalso. apply (H x (or_introl eq_refl)). exact He.
  - rewrite IH; [reflexivity|]. intros y Hy. apply H. right. exact Hy.
Qed.

Lemma delayed_of_In g q l x : In x (delayed_of g q l) <-> In x l /\ pool g x = q.
Proof. unfold delayed_of. rewrite filter_In, Nat.eqb_eq. reflexivity. Qed.

Lemma cnt_rem g q x l : NoDup l -> In x l ->
  cnt g q l = (if Nat.eqb (pool g x) q then 1 else 0) + cnt g q (rem x l).
Proof. intros Hn Hi. rewrite (cnt_perm g q _ _ (rem_perm x l Hn Hi)). apply cnt_cons. Qed.

Lemma pick_in prio l d : In d l -> In (pick prio l d) l.
Proof.
  intros Hd. induction prio as [|x t IH]; cbn [pick]; [exact Hd|].
  destruct (memb x l) eqn:E; [apply memb_In; exact E|exact IH].
Qed.

(* ------------------------------------------------------------------ Pool::RetrieveReadyEdges *)
Record retrieve_rel (g : graph) (q : nat) (p p' : plan) (mv : list nat) : Prop := {
  rr_ready : Permutation (p_ready p') (mv ++ p_ready p);
  rr_delayed : Permutation (p_delayed p) (mv ++ p_delayed p');
  rr_pool : forall x, In x mv -> pool g x = q;
  rr_use_q : p_use p' q = p_use p q + length mv;
  rr_use_other : forall r, r <> q -> p_use p' r = p_use p r;
  rr_depth : mv <> [] -> p_use p' q <= depth g q;
  rr_want : p_want p' = p_want p;
  rr_oready : p_oready p' = p_oready p;
  rr_wanted : p_wanted p' = p_wanted p;
  rr_commands : p_commands p' = p_commands p;
  rr_tokens : p_tokens p' = p_tokens p }.

Lemma retrieve_n_spec g prio q : forall n p, NoDup (p_delayed p) ->
  exists mv, retrieve_rel g q p (retrieve_n n g prio q p) mv /\
    (length (delayed_of g q (p_delayed p)) <= n ->
     delayed_of g q (p_delayed (retrieve_n n g prio q p)) = [] \/
     depth g q < p_use (retrieve_n n g prio q p) q + 1).
Proof.
  induction n as [|n IH]; intros p Hnd.
  - exists []. split.
    + constructor; cbn [retrieve_n app length]; try reflexivity; try (rewrite Nat.add_0_r; reflexivity).
      * intros x [].
      * intros H; congruence.
    + cbn [retrieve_n]. intros Hl. left. destruct (delayed_of g q (p_delayed p)); [reflexivity|cbn in Hl; lia].
  - cbn [retrieve_n]. destruct (delayed_of g q (p_delayed p)) as [|d0 dq] eqn:Edq.
    + exists []. split.
      * constructor; cbn [app length]; try reflexivity; try (rewrite Nat.add_0_r; reflexivity).
        -- intros x [].
        -- intros H; congruence.
      * intros _. left. exact Edq.
    + destruct (depth g q <? p_use p q + 1) eqn:Efit.
      * exists []. split.
        -- constructor; cbn [app length]; try reflexivity; try (rewrite Nat.add_0_r; reflexivity).
           ++ intros x [].
           ++ intros H; congruence.
        -- intros _. right. apply Nat.ltb_lt. exact Efit.
      * apply Nat.ltb_ge in Efit.
        set (x := pick prio (d0 :: dq) d0).
        assert (Hx : In x (d0 :: dq)) by (apply pick_in; left; reflexivity).
        rewrite <- Edq in Hx. apply delayed_of_In in Hx. destruct Hx as [HxD Hxq].
        set (p1 := set_use (set_ready (set_delayed p (rem x (p_delayed p))) (x :: p_ready p))
                           (upd (p_use p) q (p_use p q + 1))).
        assert (Hnd1 : NoDup (p_delayed p1)) by (subst p1; psimpl; apply rem_NoDup; exact Hnd).
        destruct (IH p1 Hnd1) as [mv [Hrel Hcomp]].
        exists (mv ++ [x]). split.
        -- destruct Hrel as [R1 R2 R3 R4 R5 R6 R7 R8 R9 R10 R11]. subst p1. psimpl.
           constructor; psimpl.
           ++ eapply perm_trans; [exact R1|]. rewrite <- app_assoc. cbn [app]. reflexivity.
           ++ eapply perm_trans; [apply (rem_perm x _ Hnd HxD)|]. rewrite <- app_assoc. cbn [app].
              apply Permutation_cons_app. exact R2.
           ++ intros y Hy. apply in_app_or in Hy. destruct Hy as [Hy|[<-|[]]]; [apply R3; exact Hy|exact Hxq].
           ++ rewrite R4. rewrite upd_same. rewrite app_length. cbn [length]. lia.
           ++ intros r Hr. rewrite R5 by exact Hr. apply upd_other. exact Hr.
           ++ intros _. destruct mv as [|m mv'].
              ** rewrite R4. rewrite upd_same. cbn [length]. lia.
              ** apply R6. congruence.
           ++ exact R7.
           ++ exact R8.
           ++ exact R9.
           ++ exact R10.
           ++ exact R11.
        -- intros Hl. apply Hcomp. subst p1. psimpl.
           pose proof (cnt_rem g q x (p_delayed p) Hnd HxD) as Hc. unfold cnt in Hc.
           rewrite Hxq, Nat.eqb_refl in Hc. rewrite Edq in Hc. cbn [length] in Hl, Hc. lia.
Qed.

Lemma retrieve_spec g prio q p : NoDup (p_delayed p) ->
  exists mv, retrieve_rel g q p (retrieve g prio q p) mv /\
    (delayed_of g q (p_delayed (retrieve g prio q p)) = [] \/
     depth g q < p_use (retrieve g prio q p) q + 1).
Proof.
  intros Hnd. unfold retrieve.
  destruct (retrieve_n_spec g prio q (length (p_delayed p)) p Hnd) as [mv [Hrel Hcomp]].
  exists mv. split; [exact Hrel|]. apply Hcomp.
  unfold delayed_of. apply filter_len_le.
Qed.

(* retrieve only reads/writes ready_, delayed_ and current_use_ *)
Definition frame (p : plan) w n c o t : plan :=
  mkPlan w (p_ready p) (p_delayed p) (p_use p) n c o t.

Lemma retrieve_n_frame g prio q w n c o t : forall k p,
  retrieve_n k g prio q (frame p w n c o t) = frame (retrieve_n k g prio q p) w n c o t.
Proof.
  induction k as [|k IH]; intros p; [reflexivity|].
  cbn [retrieve_n]. unfold frame at 1 2 3. psimpl.
  destruct (delayed_of g q (p_delayed p)) as [|d0 dq]; [reflexivity|].
  destruct (depth g q <? p_use p q + 1); [reflexivity|].
  rewrite <- IH. reflexivity.
Qed.

Lemma retrieve_frame g prio q w n c o t p :
  retrieve g prio q (frame p w n c o t) = frame (retrieve g prio q p) w n c o t.
Proof. unfold retrieve. apply retrieve_n_frame. Qed.

Lemma frame_id p : frame p (p_want p) (p_wanted p) (p_commands p) (p_oready p) (p_tokens p) = p.
Proof. destruct p; reflexivity. Qed.

(* ------------------------------------------------------------------ well-formed graphs *)
Record wf_graph (g : graph) (rank : nat -> nat) : Prop := {
  wg_ins_lt : forall e i, In i (ins g e) -> i < n_edges g;
  wg_rank : forall e i, In i (ins g e) -> rank i < rank e;
  wg_cons_ins : forall e d, In d (cons_of g e) -> In e (ins g d);
  wg_ins_cons : forall e i, In i (ins g e) -> In e (cons_of g i) }.

Lemma einfo_overflow g e : n_edges g <= e -> einfo g e = dummy_edge.
Proof. intros H. unfold einfo. apply nth_overflow. exact H. Qed.

Lemma wf_graph_b_sound g rank : wf_graph_b g rank = true -> wf_graph g rank.
Proof.
  unfold wf_graph_b. rewrite forallb_forall. intros H.
  assert (Hin : forall e, e < n_edges g -> In e (all_edges g)).
  { intros e He. unfold all_edges. apply in_seq. lia. }
  assert (Hov : forall e, ~ e < n_edges g -> ins g e = [] /\ cons_of g e = []).
  { intros e He. unfold ins, cons_of. rewrite einfo_overflow by lia. split; reflexivity. }
  constructor.
  - intros e i Hi. destruct (lt_dec e (n_edges g)) as [He|He].
    + specialize (H e (Hin e He)). apply andb_true_iff in H. destruct H as [H _].
      rewrite forallb_forall in H. specialize (H i Hi).
      apply andb_true_iff in H. destruct H as [H _]. apply andb_true_iff in H. destruct H as [H _].
      apply Nat.ltb_lt. exact H.
    + destruct (Hov e He) as [E _]. rewrite E in Hi. destruct Hi.
  - intros e i Hi. destruct (lt_dec e (n_edges g)) as [He|He].
    + specialize (H e (Hin e He)). apply andb_true_iff in H. destruct H as [H _].
      rewrite forallb_forall in H. specialize (H i Hi).
      apply andb_true_iff in H. destruct H as [H _]. apply andb_true_iff in H. destruct H as [_ H].
      apply Nat.ltb_lt. exact H.
    + destruct (Hov e He) as [E _]. rewrite E in Hi. destruct Hi.
  - intros e d Hd. destruct (lt_dec e (n_edges g)) as [He|He].
    + specialize (H e (Hin e He)). apply andb_true_iff in H. destruct H as [_ H].
      rewrite forallb_forall in H. specialize (H d Hd).
      apply andb_true_iff in H. destruct H as [_ H]. apply memb_In. exact H.
    + destruct (Hov e He) as [_ E]. rewrite E in Hd. destruct Hd.
  - intros e i Hi. destruct (lt_dec e (n_edges g)) as [He|He].
    + specialize (H e (Hin e He)). apply andb_true_iff in H. destruct H as [H _].
      rewrite forallb_forall in H. specialize (H i Hi).
      apply andb_true_iff in H. destruct H as [_ H]. apply memb_In. exact H.
    + destruct (Hov e He) as [E _]. rewrite E in Hi. destruct Hi.
Qed.

(* ------------------------------------------------------------------ the plan invariant *)
Definition sched (p : plan) (A F : list nat) : list nat := p_ready p ++ p_delayed p ++ A ++ F.

Lemma air_mono g p p' e :
  (forall x, p_oready p x = true -> p_oready p' x = true) ->
  all_inputs_ready g p e = true -> all_inputs_ready g p' e = true.
Proof.
  unfold all_inputs_ready. rewrite !forallb_forall. intros H H1 x Hx. apply H. apply H1. exact Hx.
Qed.

Lemma air_false g p e : all_inputs_ready g p e = false ->
  exists i, In i (ins g e) /\ p_oready p i = false.
Proof.
  unfold all_inputs_ready. induction (ins g e) as [|i l IH]; cbn [forallb]; [discriminate|].
  destruct (p_oready p i) eqn:E; cbn [andb].
  - intros H. destruct (IH H) as [j [Hj Ej]]. exists j. split; [right; exact Hj|exact Ej].
  - intros _. exists i. split; [left; reflexivity|exact E].
Qed.

Lemma air_in g p e i : all_inputs_ready g p e = true -> In i (ins g e) -> p_oready p i = true.
Proof. unfold all_inputs_ready. rewrite forallb_forall. intros H Hi. apply H. exact Hi. Qed.

Section Inv.
Variable g : graph.
Variable cfg : config.
Variable rank : nat -> nat.
Hypothesis Hwf : wf_graph g rank.

(* [A] = active edges: popped from ready_ by FindWork and not yet through EdgeFinished (the running
   commands, plus momentarily a phony edge being started);  [F] = edges whose command failed;
   [X] = edges exempt from the "if all inputs are ready it is scheduled" clauses: the out-edges that
   NodeFinished is about to visit;  [Q] = pools for which the "delayed => pool full" clause is
   claimed (all pools, except in the middle of ScheduleInitialEdges / before RetrieveReadyEdges). *)
Record pinv (Q : nat -> Prop) (X A F : list nat) (p : plan) : Prop := {
  pi_nodup : NoDup (sched p A F);
  pi_sched : forall e, In e (sched p A F) ->
             is_wanted (p_want p) e = true /\ all_inputs_ready g p e = true;
  pi_tofinish : forall e, p_want p e = Some WToFinish -> In e (sched p A F);
  pi_tostart : forall e, p_want p e = Some WToStart -> all_inputs_ready g p e = true ->
               In e (sched p A F) \/ In e X;
  pi_nothing : forall e, p_want p e = Some WNothing -> all_inputs_ready g p e = true -> In e X;
  pi_exempt : forall x, In x X -> In x (sched p A F) -> p_want p x = Some WToFinish;
  pi_oready : forall e, p_oready p e = true -> p_want p e = None;
  pi_oready_closed : forall e, p_oready p e = true -> all_inputs_ready g p e = true;
  pi_closed : forall e i, p_want p e <> None -> In i (ins g e) -> p_oready p i = false ->
              p_want p i <> None;
  pi_range : forall e, p_want p e <> None -> e < n_edges g;
  pi_use : forall q, 0 < depth g q ->
           p_use p q = cnt g q (p_ready p) + cnt g q A /\ p_use p q <= depth g q;
  pi_full : forall q, Q q -> 0 < depth g q -> delayed_of g q (p_delayed p) <> [] ->
            p_use p q = depth g q;
  pi_pool0 : forall e, In e (p_delayed p) -> 0 < depth g (pool g e);
  pi_wanted : p_wanted p = count_if (is_wanted (p_want p)) (all_edges g);
  pi_tokens : p_tokens p = match c_jobserver cfg with None => 0 | Some _ => length A end }.

Definition QT : nat -> Prop := fun _ => True.

Lemma pinv_weaken Q Q' X X' A F p :
  (forall q, Q' q -> Q q) -> (forall x, In x X -> In x X') ->
  (forall x, In x X' -> In x X \/ ~ In x (sched p A F) \/ p_want p x = Some WToFinish) ->
  pinv Q X A F p -> pinv Q' X' A F p.
Proof.
  intros HQ HX HX' [I1 I2 I3 I4 I5 I6 I7 I8 I9 I10 I11 I12 I13 I14 I15].
  constructor; try assumption.
  - intros e H1 H2. destruct (I4 e H1 H2) as [H|H]; [left; exact H|right; apply HX; exact H].
  - intros e H1 H2. apply HX. apply (I5 e H1 H2).
  - intros x Hx Hs. destruct (HX' x Hx) as [H|[H|H]]; [apply I6; assumption|tauto|exact H].
  - intros q Hq. apply I12. apply HQ. exact Hq.
Qed.

(* an exempt edge that does not need the exemption can be dropped from X *)
Lemma pinv_drop Q d X A F p :
  pinv Q (d :: X) A F p ->
  (p_want p d = Some WToStart -> all_inputs_ready g p d = true -> In d (sched p A F) \/ In d X) ->
  (p_want p d = Some WNothing -> all_inputs_ready g p d = true -> In d X) ->
  pinv Q X A F p.
Proof.
  intros [I1 I2 I3 I4 I5 I6 I7 I8 I9 I10 I11 I12 I13 I14 I15] H1 H2.
  constructor; try assumption.
  - intros e He Ha. destruct (I4 e He Ha) as [H|[<-|H]]; [left; exact H|apply H1; assumption|right; exact H].
  - intros e He Ha. destruct (I5 e He Ha) as [<-|H]; [apply H2; assumption|exact H].
  - intros x Hx Hs. apply I6; [right; exact Hx|exact Hs].
Qed.

Lemma sched_perm p p' A F :
  Permutation (p_ready p' ++ p_delayed p') (p_ready p ++ p_delayed p) ->
  Permutation (sched p' A F) (sched p A F).
Proof.
  intros H. unfold sched. rewrite !app_assoc. apply Permutation_app_tail. apply Permutation_app_tail.
  exact H.
Qed.

(* RetrieveReadyEdges keeps the invariant and fills pool q *)
Lemma retrieve_pinv Q X A F p prio q :
  pinv Q X A F p -> pinv (fun r => Q r \/ r = q) X A F (retrieve g prio q p).
Proof.
  intros [I1 I2 I3 I4 I5 I6 I7 I8 I9 I10 I11 I12 I13 I14 I15].
  assert (HndD : NoDup (p_delayed p)).
  { unfold sched in I1. apply NoDup_app_iff in I1. destruct I1 as [_ [I1 _]].
    apply NoDup_app_iff in I1. tauto. }
  destruct (retrieve_spec g prio q p HndD) as [mv [[R1 R2 R3 R4 R5 R6 R7 R8 R9 R10 R11] Hcomp]].
  set (p' := retrieve g prio q p) in *.
  assert (Hperm : Permutation (sched p' A F) (sched p A F)).
  { apply sched_perm. rewrite R1. rewrite <- app_assoc.
    rewrite (Permutation_app_comm mv). rewrite <- app_assoc. apply Permutation_app_head.
    rewrite Permutation_app_comm. symmetry. exact R2. }
  assert (Hair : forall e, all_inputs_ready g p' e = all_inputs_ready g p e).
  { intros e. unfold all_inputs_ready. rewrite R8. reflexivity. }
  assert (HinD : forall x, In x (p_delayed p') -> In x (p_delayed p)).
  { intros x Hx. apply (Permutation_in _ (Permutation_sym R2)). apply in_or_app. right. exact Hx. }
  constructor.
  - apply (Permutation_NoDup (Permutation_sym Hperm)). exact I1.
  - intros e He. rewrite R7, Hair. apply I2. apply (Permutation_in _ Hperm). exact He.
  - intros e He. rewrite R7 in He. apply (Permutation_in _ (Permutation_sym Hperm)). apply I3. exact He.
  - intros e He Ha. rewrite R7 in He. rewrite Hair in Ha. destruct (I4 e He Ha) as [H|H]; [left|right; exact H].
    apply (Permutation_in _ (Permutation_sym Hperm)). exact H.
  - intros e He Ha. rewrite R7 in He. rewrite Hair in Ha. apply I5; assumption.
  - intros x Hx Hs. rewrite R7. apply I6; [exact Hx|]. apply (Permutation_in _ Hperm). exact Hs.
  - intros e He. rewrite R7. rewrite R8 in He. apply I7. exact He.
  - intros e He. rewrite Hair. rewrite R8 in He. apply I8. exact He.
  - intros e i He Hi Ho. rewrite R7 in *. rewrite R8 in Ho. eapply I9; eassumption.
  - intros e He. rewrite R7 in He. apply I10. exact He.
  - intros r Hr. destruct (Nat.eq_dec r q) as [->|Hne].
    + destruct (I11 q Hr) as [Hu Hle]. rewrite R4. rewrite (cnt_perm g q _ _ R1), cnt_app.
      rewrite (cnt_all_in g q mv R3). split; [lia|].
      destruct mv as [|m mv']; [cbn [length]; lia|]. rewrite <- R4. apply R6. congruence.
    + destruct (I11 r Hr) as [Hu Hle]. rewrite (R5 r Hne). rewrite (cnt_perm g r _ _ R1), cnt_app.
      rewrite (cnt_none_in g r mv); [split; [lia|exact Hle]|].
      intros x Hx. rewrite (R3 x Hx). congruence.
  - intros r HQ Hr Hd. destruct (Nat.eq_dec r q) as [->|Hne].
    + destruct Hcomp as [Hc|Hc]; [congruence|].
      destruct (I11 q Hr) as [Hu Hle].
      assert (p_use p' q <= depth g q).
      { destruct mv as [|m mv']; [rewrite R4; cbn [length]; lia|apply R6; congruence]. }
      lia.
    + destruct HQ as [HQ|HQ]; [|congruence]. rewrite (R5 r Hne). apply I12; [exact HQ|exact Hr|].
      intros Hnil. apply Hd.
      destruct (delayed_of g r (p_delayed p')) as [|y l] eqn:E; [reflexivity|].
      assert (Hy : In y (delayed_of g r (p_delayed p'))) by (rewrite E; left; reflexivity).
      apply delayed_of_In in Hy. destruct Hy as [Hy1 Hy2].
      assert (Hy' : In y (delayed_of g r (p_delayed p))) by (apply delayed_of_In; split; [apply HinD; exact Hy1|exact Hy2]).
      rewrite Hnil in Hy'. destruct Hy'.
  - intros e He. apply I13. apply HinD. exact He.
  - rewrite R9, R7. exact I14.
  - rewrite R11. exact I15.
Qed.

End Inv.
