(* The dependency scan WITH scan-time dyndep loads: transliteration of
     DependencyScan::RecomputeNodeDirty (src/graph.cc), the block
        if (edge->dyndep_ && edge->dyndep_->dyndep_pending()) { RecomputeNodeDirty(dyndep_) ; LoadDyndeps }
     DyndepLoader::{LoadDyndeps, UpdateEdge} (src/dyndep.cc)
   on top of ScanDefs.v (which has no dyndep).  The graph becomes part of the mutable state: a load
   appends implicit outputs (ei_outs, g_producer), sets restat, splices implicit inputs in front of the
   order-only block (es_ins / es_nimp) and clears the node's dyndep_pending flag; everything the rest of the
   DFS does is done with the graph AS IT IS AT THAT MOMENT.  ONLY definitions.

   The content of a dyndep file is an input table (DyndepParser has its own model in coq/Dyndep):
   [DdMissing] / [DdBad] (any error of DyndepParser::Load, including "no build statement exists for" and
   "multiple statements for") / [DdParsed entries] in file order, one entry per build statement, the edge
   being the in_edge of the named output at parse time.

   [di_outedges dd] is Node::out_edges() of the dyndep node as the manifest parser left it (one entry per
   occurrence of the node in an input list, statements in manifest order).  Out edges added during the scan
   (deps loads, UpdateEdge itself: LoadDyndeps iterates over a COPY) cannot matter: a statement bound to
   [dd] only gets new inputs after its own first visit, and that visit already decided the load of [dd]. *)
From NinjaV Require Import Base.Bytes Engine.ScanDefs.
Local Open Scope Z_scope.

Record dyn_entry := mkDE {
  de_edge : edge;            (* statement named by the `build out ...: dyndep` line *)
  de_outs : list node;       (* implicit outputs *)
  de_ins : list node;        (* implicit inputs *)
  de_restat : bool
}.

Inductive dd_state := DdMissing | DdBad | DdParsed (entries : list dyn_entry).

Record dyn_info := mkDI {
  di_dyndep : edge -> option node;     (* Edge::dyndep_ *)
  di_outedges : node -> list edge;     (* Node::out_edges() of a dyndep node after manifest parsing *)
  di_file : node -> dd_state
}.

Definition no_dyndep : dyn_info := mkDI (fun _ => None) (fun _ => []) (fun _ => DdMissing).

(* mutable during the scan: the graph, the scan state, Node::dyndep_pending_ *)
Record dstate := mkD {
  d_g : graph;
  d_s : sstate;
  d_pending : node -> bool
}.

Definition with_s (d : dstate) (s : sstate) : dstate := mkD (d_g d) s (d_pending d).

Inductive dyn_err :=
| DeLoad (dd : node)                       (* "loading 'dd': ..." or a parse error of the file *)
| DeNotMentioned (e : edge) (dd : node)    (* "'out' not mentioned in its dyndep file 'dd'" *)
| DeExtra (dd : node) (e : edge)           (* "dyndep file 'dd' mentions output 'out' whose build statement does not have a dyndep binding for the file" *)
| DeMultiple (n : node).                   (* "multiple rules generate n" *)

Inductive dres (A : Type) :=
| DOk (a : A)
| DCycle (p : list node)
| DLoadErr (e : edge)
| DOutOfFuel
| DDyn (err : dyn_err).
Arguments DOk {A} a.
Arguments DCycle {A} p.
Arguments DLoadErr {A} e.
Arguments DOutOfFuel {A}.
Arguments DDyn {A} err.

(* ------------------------------------------------------------------ graph updates *)
Definition g_set_edge (g : graph) (e : edge) (ei : edge_info) : graph :=
  mkGraph (g_nedges g) (fun e' => if Nat.eqb e' e then ei else g_edge g e') (g_producer g) (g_byloader g).
Definition g_set_producer (g : graph) (n : node) (e : edge) : graph :=
  mkGraph (g_nedges g) (g_edge g) (fun n' => if Nat.eqb n' n then Some e else g_producer g n') (g_byloader g).

(* the loop "for (Node* node : dyndeps->implicit_outputs_) { if (node->in_edge()) error; node->set_in_edge(edge); }" *)
Fixpoint set_in_edges (e : edge) (outs : list node) (g : graph) : dres graph :=
  match outs with
  | [] => DOk g
  | n :: outs' =>
    match g_producer g n with
    | Some _ => DDyn (DeMultiple n)
    | None => set_in_edges e outs' (g_set_producer g n e)
    end
  end.

(* DyndepLoader::UpdateEdge *)
Definition update_edge (d : dstate) (en : dyn_entry) : dres dstate :=
  let e := de_edge en in
  let g := d_g d in
  let ei := g_edge g e in
  let ei' := mkEdge (ei_ins ei) (ei_nimp ei) (ei_noo ei) (ei_outs ei ++ de_outs en) (ei_vals ei)
                    (ei_phony ei) (ei_restat ei || de_restat en) (ei_generator ei) (ei_deps ei) (ei_hash ei) in
  match set_in_edges e (de_outs en) (g_set_edge g e ei') with
  | DOk g2 => DOk (mkD g2 (splice_deps g2 (d_s d) e (de_ins en)) (d_pending d))
  | DCycle p => DCycle p
  | DLoadErr e' => DLoadErr e'
  | DOutOfFuel => DOutOfFuel
  | DDyn err => DDyn err
  end.

Definition find_entry (e : edge) (entries : list dyn_entry) : option dyn_entry :=
  find (fun en => Nat.eqb (de_edge en) e) entries.

Definition opt_is (o : option node) (n : node) : bool :=
  match o with Some x => Nat.eqb x n | None => false end.

Section ScanDyn.
Variable di : dyn_info.
Variable w : world.

(* the loop over the copy of node->out_edges() in LoadDyndeps; [used] = entries with used_ set *)
Fixpoint update_edges (dd : node) (entries : list dyn_entry) (oes : list edge) (d : dstate)
         (used : list edge) : dres (dstate * list edge) :=
  match oes with
  | [] => DOk (d, used)
  | e :: oes' =>
    if negb (opt_is (di_dyndep di e) dd) then update_edges dd entries oes' d used
    else match find_entry e entries with
         | None => DDyn (DeNotMentioned e dd)
         | Some en =>
           match update_edge d en with
           | DOk d' => update_edges dd entries oes' d' (e :: used)
           | DCycle p => DCycle p
           | DLoadErr e' => DLoadErr e'
           | DOutOfFuel => DOutOfFuel
           | DDyn err => DDyn err
           end
         end
  end.

(* DyndepLoader::LoadDyndeps(node) *)
Definition load_dyndeps (dd : node) (d : dstate) : dres dstate :=
  let d0 := mkD (d_g d) (d_s d) (fun n => if Nat.eqb n dd then false else d_pending d n) in
  match di_file di dd with
  | DdMissing | DdBad => DDyn (DeLoad dd)
  | DdParsed entries =>
    match update_edges dd entries (di_outedges di dd) d0 [] with
    | DOk (d1, used) =>
      match find (fun en => negb (mem_node (de_edge en) used)) entries with
      | Some en => DDyn (DeExtra dd (de_edge en))
      | None => DOk d1
      end
    | DCycle p => DCycle p
    | DLoadErr e' => DLoadErr e'
    | DOutOfFuel => DOutOfFuel
    | DDyn err => DDyn err
    end
  end.

Definition dv := (dstate * list node)%type.

Fixpoint dvisit_all (visit : node -> dv -> dres dv) (l : list node) (a : dv) : dres dv :=
  match l with
  | [] => DOk a
  | n :: l' =>
    match visit n a with
    | DOk a' => dvisit_all visit l' a'
    | err => err
    end
  end.

(* "if (edge->dyndep_ && edge->dyndep_->dyndep_pending()) { ... }" inside "if (!edge->deps_loaded_)" *)
Definition dyndep_step (visit : node -> dv -> dres dv) (e : edge) (was_loaded : bool) (x : dv) : dres dv :=
  if was_loaded then DOk x
  else match di_dyndep di e with
       | None => DOk x
       | Some dd =>
         if d_pending (fst x) dd then
           match visit dd x with
           | DOk (d1, vs1) =>
             let ready := match g_producer (d_g d1) dd with
                          | None => true
                          | Some pe => es_ready (st_edge (d_s d1) pe)
                          end in
             if ready then
               match load_dyndeps dd d1 with
               | DOk d2 => DOk (d2, vs1)
               | DCycle p => DCycle p
               | DLoadErr e' => DLoadErr e'
               | DOutOfFuel => DOutOfFuel
               | DDyn err => DDyn err
               end
             else DOk (d1, vs1)
           | err => err
           end
         else DOk x
       end.

(* ScanDefs.after_inputs with the graph of the moment *)
Definition after_inputs_dyn (visit : node -> dv -> dres dv) (e : edge)
           (was_loaded rev_missing rev_dirty : bool) (d3 : dstate) (vs : list node) : dres dv :=
  let g := d_g d3 in
  let s3 := d_s d3 in
  let ins0 := es_ins (st_edge s3 e) in
  let '(s4, mri, dirty) := eval_inputs g e ins0 0 s3 None false in
  let '(dirty1, s5) := if dirty then (true, s4) else outputs_dirty_all g w e (edge_outs g e) mri s4 in
  if was_loaded then
    DOk (with_s d3 (finish_edge g (if rev_missing then set_deps_missing s5 e true else s5) e
                                (dirty1 || rev_dirty || rev_missing)), vs)
  else if dirty1 then
    if load_deps_try g w s5 e then DOk (with_s d3 (finish_edge g s5 e true), vs)
    else DOk (with_s d3 (finish_edge g (set_deps_missing s5 e true) e true), vs)
  else
    match load_deps g w s5 e with
    | LdErr => DLoadErr e
    | LdFail => DOk (with_s d3 (finish_edge g (set_deps_missing s5 e true) e true), vs)
    | LdOk new_ins =>
      let first_idx := (length (es_ins (st_edge s5 e)) - ei_noo (g_edge g e))%nat in
      let s6 := splice_deps g s5 e new_ins in
      match dvisit_all visit new_ins (with_s d3 s6, vs) with
      | DOk (d7, vs7) =>
        let g7 := d_g d7 in
        let '(s8, mri2, dirty2) := eval_inputs g7 e new_ins first_idx (d_s d7) mri false in
        let dirty3 := if negb dirty2 && negb (opt_node_eqb mri mri2)
                      then outputs_dirty_depfile g7 w e mri2 s8 else dirty2 in
        DOk (with_s d7 (finish_edge g7 s8 e dirty3), vs7)
      | err => err
      end
    end.

(* DependencyScan::RecomputeNodeDirty *)
Fixpoint recompute_node_dirty_dyn (fuel : nat) (stack : list node) (n : node) (x : dv) : dres dv :=
  match fuel with
  | O => DOutOfFuel
  | S fuel' =>
    let '(d, vs) := x in
    let g := d_g d in
    let s := d_s d in
    match g_producer g n with
    | None =>
      if n_known (st_node s n) then DOk x
      else let s1 := stat_if_necessary w s n in
           DOk (with_s d (set_dirty s1 n (negb (n_exists (st_node s1 n)))), vs)
    | Some e =>
      match es_mark (st_edge s e) with
      | VisitDone => DOk x
      | VisitInStack => DCycle (cycle_path g stack n e)
      | VisitNone =>
        let vs1 := vs ++ ei_vals (g_edge g e) in
        let was_loaded := es_deps_loaded (st_edge s e) in
        let rev_missing := was_loaded && es_deps_missing (st_edge s e) in
        let rev_dirty := was_loaded && existsb (fun o => ns_dirty (st_node s o)) (edge_outs g e) in
        let s1 := enter_edge s e in
        let stack1 := stack ++ [n] in
        let visit := recompute_node_dirty_dyn fuel' stack1 in
        match dyndep_step visit e was_loaded (with_s d s1, vs1) with
        | DOk (d2, vs2) =>
          let s2 := stat_outputs w (d_s d2) (edge_outs (d_g d2) e) in
          match dvisit_all visit (es_ins (st_edge s2 e)) (with_s d2 s2, vs2) with
          | DOk (d3, vs3) => after_inputs_dyn visit e was_loaded rev_missing rev_dirty d3 vs3
          | err => err
          end
        | err => err
        end
      end
    end
  end.

(* DependencyScan::RecomputeDirty (fuel: the number of edges and of validation entries never changes) *)
Fixpoint recompute_dirty_loop_dyn (qfuel : nat) (queue : list node) (d : dstate) (found : list node)
  : dres dv :=
  match queue with
  | [] => DOk (d, found)
  | n :: queue' =>
    match qfuel with
    | O => DOutOfFuel
    | S qfuel' =>
      match recompute_node_dirty_dyn (scan_fuel (d_g d)) [] n (d, []) with
      | DOk (d', newv) => recompute_dirty_loop_dyn qfuel' (queue' ++ newv) d' (found ++ newv)
      | err => err
      end
    end
  end.

Definition recompute_dirty_dyn (d : dstate) (n : node) : dres dv :=
  recompute_dirty_loop_dyn (queue_fuel (d_g d)) [n] d [].

Inductive scan_dyn_result :=
| SdCycle (p : list node)
| SdMissing (n : node) (dependent : option node)
| SdLoadErr (e : edge)
| SdOutOfFuel
| SdDyn (err : dyn_err)
| SdOk (d : dstate) (p : plan).

(* Builder::AddTarget: the plan is built on the graph as the scan left it (dyndep_walk = NULL) *)
Fixpoint add_validation_targets_dyn (d : dstate) (vnodes : list node) (p : plan) : scan_dyn_result :=
  match vnodes with
  | [] => SdOk d p
  | v :: vnodes' =>
    match g_producer (d_g d) v with
    | None => add_validation_targets_dyn d vnodes' p
    | Some ve =>
      if es_ready (st_edge (d_s d) ve) then add_validation_targets_dyn d vnodes' p
      else match plan_add_target (d_g d) (d_s d) v p with
           | None => SdOutOfFuel
           | Some (true, _, p') => add_validation_targets_dyn d vnodes' p'
           | Some (false, Some (m, dep), _) => SdMissing m dep
           | Some (false, None, p') => SdOk d p'
           end
    end
  end.

Definition builder_add_target_dyn (d : dstate) (p : plan) (t : node) : scan_dyn_result :=
  match recompute_dirty_dyn d t with
  | DCycle c => SdCycle c
  | DLoadErr e => SdLoadErr e
  | DOutOfFuel => SdOutOfFuel
  | DDyn err => SdDyn err
  | DOk (d', vnodes) =>
    let need := match g_producer (d_g d') t with
                | None => true
                | Some e => negb (es_ready (st_edge (d_s d') e))
                end in
    if need then
      match plan_add_target (d_g d') (d_s d') t p with
      | None => SdOutOfFuel
      | Some (true, _, p') => add_validation_targets_dyn d' vnodes p'
      | Some (false, Some (m, dep), _) => SdMissing m dep
      | Some (false, None, p') => SdOk d' p'
      end
    else add_validation_targets_dyn d' vnodes p
  end.

Fixpoint add_targets_dyn (d : dstate) (p : plan) (targets : list node) : scan_dyn_result :=
  match targets with
  | [] => SdOk d p
  | t :: targets' =>
    match builder_add_target_dyn d p t with
    | SdOk d' p' => add_targets_dyn d' p' targets'
    | err => err
    end
  end.

End ScanDyn.

(* ManifestParser: edge->dyndep_->set_dyndep_pending(true) for every statement with a dyndep binding *)
Definition init_pending (di : dyn_info) (g : graph) (n : node) : bool :=
  existsb (fun e => opt_is (di_dyndep di e) n) (seq 0 (g_nedges g)).

Definition init_dstate (di : dyn_info) (g : graph) : dstate :=
  mkD g (init_state g) (init_pending di g).

Definition scan_dyn (di : dyn_info) (g : graph) (w : world) (targets : list node) : scan_dyn_result :=
  add_targets_dyn di w (init_dstate di g) init_plan targets.

(* the result of the dyndep-free scan, seen as a result of this one *)
Definition embed_result (g : graph) (pend : node -> bool) (r : scan_result) : scan_dyn_result :=
  match r with
  | ScanCycle p => SdCycle p
  | ScanMissing n dep => SdMissing n dep
  | ScanLoadErr e => SdLoadErr e
  | ScanOutOfFuel => SdOutOfFuel
  | ScanOk s p => SdOk (mkD g s pend) p
  end.

(* ------------------------------------------------------------------ writing the dyndep information into the manifest *)
(* What UpdateEdge would do to the statement, done before the scan: implicit outputs appended, restat,
   implicit inputs spliced in front of the order-only block (the dyndep file itself stays the input the
   manifest made it: ManifestParser requires the `dyndep` binding to name one of the inputs). *)
Definition inline_entry (g : graph) (en : dyn_entry) : graph :=
  let e := de_edge en in
  let ei := g_edge g e in
  let ei' := mkEdge (splice (ei_ins ei) (ei_noo ei) (de_ins en)) (ei_nimp ei + length (de_ins en))%nat (ei_noo ei)
                    (ei_outs ei ++ de_outs en) (ei_vals ei)
                    (ei_phony ei) (ei_restat ei || de_restat en) (ei_generator ei) (ei_deps ei) (ei_hash ei) in
  fold_left (fun g' o => g_set_producer g' o e) (de_outs en) (g_set_edge g e ei').

(* every dyndep file named by a binding of statements 0..k-1, each once, in order of first binding *)
Fixpoint dd_files (di : dyn_info) (k : nat) : list node :=
  match k with
  | O => []
  | S k' => let l := dd_files di k' in
            match di_dyndep di k' with
            | Some dd => if mem_node dd l then l else l ++ [dd]
            | None => l
            end
  end.

Definition inline_file (di : dyn_info) (g : graph) (dd : node) : graph :=
  match di_file di dd with
  | DdParsed entries => fold_left inline_entry entries g
  | _ => g
  end.

Definition inline (di : dyn_info) (g : graph) : graph :=
  fold_left (inline_file di) (dd_files di (g_nedges g)) g.

(* verdicts of a scan: dirty flag of every node < nn, (ready, want) of every edge, plan counters, or the error *)
Inductive verdict :=
| VCycle | VMissing (n : node) (dep : option node) | VLoadErr (e : edge) | VOutOfFuel | VDyn (err : dyn_err)
| VOk (dirty : list bool) (edges : list (bool * option want)) (wanted commands : nat).

Definition verdict_ok (nn ne : nat) (s : sstate) (p : plan) : verdict :=
  VOk (map (fun n => ns_dirty (st_node s n)) (seq 0 nn))
      (map (fun e => (es_ready (st_edge s e), p_want p e)) (seq 0 ne))
      (p_wanted p) (p_commands p).

Definition verdict_of_scan (nn : nat) (g : graph) (r : scan_result) : verdict :=
  match r with
  | ScanCycle _ => VCycle
  | ScanMissing n dep => VMissing n dep
  | ScanLoadErr e => VLoadErr e
  | ScanOutOfFuel => VOutOfFuel
  | ScanOk s p => verdict_ok nn (g_nedges g) s p
  end.

Definition verdict_of_scan_dyn (nn : nat) (r : scan_dyn_result) : verdict :=
  match r with
  | SdCycle _ => VCycle
  | SdMissing n dep => VMissing n dep
  | SdLoadErr e => VLoadErr e
  | SdOutOfFuel => VOutOfFuel
  | SdDyn err => VDyn err
  | SdOk d p => verdict_ok nn (g_nedges (d_g d)) (d_s d) p
  end.
