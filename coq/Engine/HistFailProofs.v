(* Proofs about the history model with failing commands (HistFailDefs.v).  No axioms.
   Part S2: acceptance of a scan is monotone ([scan_accepts_mono]): same sources, nothing clean became
           dirty, targets needed by the accepted scan => accepted (extends HistProofs.scan_accepts,
           which needs an all-clean graph).
   Part A: what one failing command does ([fail_edge_spec]).
   Part B: GoodF (= StateOkF /\ LogSoundF) is kept by every step ([goodF_frame], [goodF_run],
           [goodF_fail]).
   Part C: [late], [StaleEntry], [TaintOk]: soundness of the booleans, stability under every step,
           and "a stale entry makes the output must_dirty" ([stale_md]).
   Part D: one successful invocation from a GoodF state in which no tainted output is validated by
           an old log entry yields the clean contents ([scan_clean_correctF], [C01F_build]).
   Part E: the shape of a failing invocation ([build_uptoF_shape], [failed_invocation]) and C05
           (c)/(a)/(b): [C05_failed_not_recorded_proof], [C05_dependents_not_started_proof],
           [C05_exit_failed_proof].
   Part F: "so the next invocation runs it again": [C05_next_invocation_reruns_proof] (premise
           [rerun_reason]), [next_invocation_accepted_proof], [rerun_reason_untouched_proof],
           [C05_reruns_untouched_or_deleted_proof] (no premise), [C05_no_success_without_rerun_proof].
   Part G: histories: [goodF_hist_proof], [C01F_history_proof],
           [C01_after_failures_untouched_or_deleted_proof], [good_fhist_no_wrote_proof].
   After the section: the refutations by computation ([C05_next_invocation_reruns_refuted_proof],
           [C01F_history_refuted_proof], [C01_failed_cmd_rewrote_output_refuted_proof]: the listed
           finding failed-cmd-rewrote-output) and the non-vacuity witnesses. *)
From NinjaV Require Import Engine.CrashDefs.
From NinjaV Require Import Base.Bytes Engine.ScanDefs Engine.ScanSpec Engine.ScanProofs Engine.HistDefs Engine.HistProofs Engine.HistFailDefs.
Local Open Scope Z_scope.

(* ================================================================== Part S2: acceptance is monotone *)
(* HistProofs.scan_accepts covers a graph in which nothing must be remade.  Here: when a scan of the
   targets was accepted in world [w0], it is accepted in every world [w] with the same sources in
   which nothing became dirty that was clean (the only refusal left in a topologically ordered
   fragment-AB graph is "missing and no known rule", and Plan::AddSubTarget meets a source only
   below statements that are not ready). *)
Section ScanMono.
Variable g : graph.
Hypothesis Hwf : wf_spec g.
Hypothesis Hwg : wf_graph g.
Hypothesis Hfrag : frag_AB g = true.
Hypothesis Htopo : topo_ordered g = true.
Hypothesis Hnip : no_inputless_phony g = true.
Variable T : list node.      (* the targets of the scan that is to be accepted *)
Variable T0 : list node.     (* the targets of the scan that was accepted *)

Notation ready s e := (es_ready (st_edge s e)).
Notation mark_of s e := (es_mark (st_edge s e)).

(* specification-level "outputs_ready_ is false" *)
Inductive unready (w : world) : edge -> Prop :=
| ur_own e o : In o (ei_outs (g_edge g e)) -> must_dirty g w o -> unready w e
| ur_in e i e' : In i (ei_ins (g_edge g e)) -> g_producer g i = Some e' -> unready w e' -> unready w e.

Lemma unready_of_flag w s : SInv g w s -> RI g s ->
  forall e, (e < g_nedges g)%nat -> mark_of s e = VisitDone -> ready s e = false -> unready w e.
Proof.
  intros [S1 _] HR. induction e as [e IH] using lt_wf_ind. intros He Hd Hr.
  destruct (HR e Hd) as [_ [Ifin [_ [_ Iun]]]].
  destruct (Iun Hr) as [[o [Ho Hdo]]|[i [e' [Hi [Hp Hr']]]]].
  - apply (ur_own w e o Ho). apply (proj1 (S1 o ltac:(unfold node_final; rewrite (o_prod g Hwf e o Ho); exact Hd))).
    exact Hdo.
  - apply (ur_in w e i e' Hi Hp).
    pose proof (in_below g Htopo e i He Hi) as Hb. unfold below in Hb. rewrite Hp in Hb.
    pose proof (Ifin i Hi) as Fi. unfold node_final in Fi. rewrite Hp in Fi.
    apply (IH e' Hb ltac:(lia) Fi Hr').
Qed.

Lemma ast_loop_err (visit : node -> plan -> ast_res) : forall ins p m d p',
  ast_loop visit ins p = Some (false, Some (m, d), p') ->
  exists i q, In i ins /\ visit i q = Some (false, Some (m, d), p').
Proof.
  induction ins as [|i ins IH]; intros p m d p' H; cbn [ast_loop] in H; [discriminate|].
  destruct (visit i p) as [[[b err] q]|] eqn:Hv; [|discriminate].
  assert (Hcase : (b = false /\ exists er, err = Some er) \/ ast_loop visit ins q = Some (false, Some (m, d), p')).
  { destruct b; [right; exact H|]. destruct err as [er|]; [left; split; [reflexivity|exists er; reflexivity]|right; exact H]. }
  destruct Hcase as [[-> [er ->]]|Hrec].
  - inversion H; subst. exists i, p. split; [left; reflexivity|exact Hv].
  - destruct (IH q m d p' Hrec) as [j [q' [Hj Hq']]]. exists j, q'. split; [right; exact Hj|exact Hq'].
Qed.

(* where Plan::AddSubTarget's "missing and no known rule" comes from *)
Lemma ast_err s : RI g s -> forall f dep n p m d p',
  add_sub_target g f s dep n p = Some (false, Some (m, d), p') ->
  node_final g s n -> reach g T n ->
  g_producer g m = None /\ ns_dirty (st_node s m) = true /\ g_byloader g m = false /\ node_final g s m /\
  (In m T \/ exists e, neededE g T e /\ mark_of s e = VisitDone /\ ready s e = false /\
                        In m (ei_ins (g_edge g e))) \/
  (g_producer g m = None /\ ns_dirty (st_node s m) = true /\ g_byloader g m = false /\ node_final g s m /\ m = n).
Proof.
  intros HR. induction f as [|f IH]; intros dep n p m d p' H Fn Rn; [discriminate|].
  cbn [add_sub_target] in H. destruct (g_producer g n) as [e|] eqn:Hp.
  - destruct (es_ready (st_edge s e)) eqn:Hr; [discriminate|].
    destruct (p_want p e) as [v|]; cbn [negb] in H; [discriminate|].
    apply ast_loop_err in H. destruct H as [i [q [Hi Hv]]].
    unfold node_final in Fn. rewrite Hp in Fn.
    destruct (HR e Fn) as [Iins [Ifin _]]. rewrite Iins in Hi.
    assert (Ri : reach g T i).
    { apply (reach_step g (manifest_ins g) T n i Rn). exists e. split; [exact Hp|exact Hi]. }
    assert (Hne : neededE g T e) by (exists n; split; assumption).
    destruct (IH (Some n) i q m d p' Hv (Ifin i Hi) Ri) as [Hl|[A [B [C [D ->]]]]]; [left; exact Hl|].
    left. split; [exact A|]. split; [exact B|]. split; [exact C|]. split; [exact D|].
    right. exists e. split; [exact Hne|]. split; [exact Fn|]. split; [exact Hr|exact Hi].
  - destruct (ns_dirty (st_node s n) && negb (g_byloader g n))%bool eqn:Hd; [|discriminate].
    inversion H; subst. apply andb_true_iff in Hd. destruct Hd as [Hd Hb]. apply negb_true_iff in Hb.
    right. split; [exact Hp|]. split; [exact Hd|]. split; [exact Hb|]. split; [exact Fn|reflexivity].
Qed.

Lemma add_targets_missing_path w : forall rest s p m d,
  incl rest T -> add_targets g w s p rest = ScanMissing m d ->
  SInv g w s -> RI g s -> PI g T s noX p ->
  g_producer g m = None /\ w_mtime w m = 0 /\ g_byloader g m = false /\
  (In m T \/ exists e, neededE g T e /\ unready w e /\ In m (ei_ins (g_edge g e))).
Proof.
  induction rest as [|t rest IH]; intros s p m d Hinc H HS HR HP; cbn [add_targets] in H; [discriminate|].
  assert (Ht : In t T) by (apply Hinc; left; reflexivity).
  destruct (builder_add_target g w s p t) as [c|m0 d0|e| |s1 p1] eqn:Hb; try discriminate.
  2:{ destruct (bat_GI g w Hwf Hwg Hfrag T s p t s1 p1 Ht Hb HS HR HP) as [HS1 [HR1 [_ [_ [HP1 _]]]]].
      apply (IH s1 p1 m d (fun x Hx => Hinc x (or_intror Hx)) H HS1 HR1 HP1). }
  inversion H; subst m0 d0. clear H. unfold builder_add_target in Hb.
  destruct (recompute_dirty g w s t) as [[s1 vn]|c|e|] eqn:Hrd; try discriminate.
  unfold recompute_dirty in Hrd.
  destruct (loop_all g w Hwf Hwg Hfrag _ _ _ _ _ _ Hrd HS HR) as [HS1 [HR1 [V1 [F1 Hvn]]]]. subst vn.
  specialize (F1 t (or_introl eq_refl)).
  assert (Hplan : plan_add_target g s1 t p = Some (false, Some (m, d), p) \/
                  exists p', plan_add_target g s1 t p = Some (false, Some (m, d), p')).
  { destruct (match g_producer g t with Some e => negb (es_ready (st_edge s1 e)) | None => true end);
      [|cbn [add_validation_targets] in Hb; discriminate].
    destruct (plan_add_target g s1 t p) as [[[b err] pa]|]; [|discriminate].
    destruct b; [cbn [add_validation_targets] in Hb; discriminate|].
    destruct err as [[m1 d1]|]; [|discriminate]. inversion Hb; subst. right. exists pa. reflexivity. }
  assert (Hplan' : exists p', plan_add_target g s1 t p = Some (false, Some (m, d), p')).
  { destruct Hplan as [Hx|Hx]; [exists p; exact Hx|exact Hx]. }
  destruct Hplan' as [p' Ha]. unfold plan_add_target in Ha.
  assert (Rt : reach g T t) by (apply reach_target; exact Ht).
  pose proof HS1 as [S1 _].
  assert (Hzero : forall x, g_producer g x = None -> ns_dirty (st_node s1 x) = true -> node_final g s1 x -> w_mtime w x = 0).
  { intros x Hpx Hdx Fx. apply (must_dirty_leaf_inv g w x); [|exact Hpx]. apply (proj1 (S1 x Fx)). exact Hdx. }
  destruct (ast_err s1 HR1 _ None t p m d p' Ha F1 Rt) as [[A [B [C [D Hcase]]]]|[A [B [C [D ->]]]]].
  - split; [exact A|]. split; [apply (Hzero m A B D)|]. split; [exact C|].
    destruct Hcase as [Hin|[e [Hne [Hd [Hr Hi]]]]]; [left; exact Hin|].
    right. exists e. split; [exact Hne|]. split; [|exact Hi].
    destruct Hne as [n [_ Hpn]]. apply (unready_of_flag w s1 HS1 HR1 e (Hwg n e Hpn) Hd Hr).
  - split; [exact A|]. split; [apply (Hzero t A B D)|]. split; [exact C|]. left. exact Ht.
Qed.

(* in an accepted scan the statements that are unready by specification are not ready *)
Lemma flag_of_unready w0 w s p : scan g w0 T0 = ScanOk s p ->
  (forall n, ~ must_dirty g w0 n -> ~ must_dirty g w n) ->
  forall e, unready w e -> neededE g T0 e -> ready s e = false.
Proof.
  intros Hs Hmono. destruct (accepted_facts g w0 Hwf Hwg Hfrag T0 s p Hs) as [[S1 _] [HR _]].
  intros e H. induction H as [e o Ho Hmd|e i e' Hi Hp Hun IH]; intros [n [Rn Hpn]].
  - destruct (reach_final g w0 Hwf Hwg Hfrag T0 s p Hs n Rn) as [Fn _].
    unfold node_final in Fn. rewrite Hpn in Fn.
    destruct (HR e Fn) as [_ [_ [_ [Idirty _]]]].
    destruct (ready s e) eqn:Hr; [exfalso|reflexivity].
    destruct (ns_dirty (st_node s o)) eqn:Hdo.
    + destruct (Idirty o Ho Hdo) as [Hph|Hr']; [|congruence].
      apply (nip_edge g e Hnip (Hwg n e Hpn) Hph).
    + apply (Hmono o); [|exact Hmd]. intros Hmd0.
      assert (Fo : node_final g s o) by (unfold node_final; rewrite (o_prod g Hwf e o Ho); exact Fn).
      apply (proj1 (S1 o Fo)) in Hmd0. congruence.
  - destruct (reach_final g w0 Hwf Hwg Hfrag T0 s p Hs n Rn) as [Fn _].
    unfold node_final in Fn. rewrite Hpn in Fn.
    destruct (HR e Fn) as [_ [_ [Irdy _]]].
    apply (Irdy i e' Hi Hp). apply IH. exists i. split; [|exact Hp].
    apply (reach_step g (manifest_ins g) T0 n i Rn). exists e. split; assumption.
Qed.

Theorem scan_accepts_mono w0 w s p :
  scan g w0 T0 = ScanOk s p ->
  (forall e, neededE g T e -> neededE g T0 e) ->
  (forall t, In t T -> g_producer g t = None -> In t T0) ->
  (forall n, ~ must_dirty g w0 n -> ~ must_dirty g w n) ->
  (forall n, g_producer g n = None -> w_mtime w n = w_mtime w0 n) ->
  exists s' p', scan g w T = ScanOk s' p'.
Proof.
  intros Hs Hsub Hleaf Hmono Hsrc. destruct (scan g w T) as [c|m d|e| |s' p'] eqn:H.
  - exfalso. apply (C17_no_false_positive g w T (topo_acyclic g w Hwg Hfrag Htopo) c H).
  - exfalso.
    destruct (add_targets_missing_path w T (init_state g) init_plan m d (incl_refl T) H
                (SInv_init g w) (RI_init g) (PI_init g T)) as [Hp [Hz [Hb Hcase]]].
    rewrite (Hsrc m Hp) in Hz.
    destruct Hcase as [Hin|[e [Hne [Hun Hi]]]].
    + destruct (scan_leaf_targets g w0 Hwf Hwg Hfrag T0 s p Hs m (Hleaf m Hin Hp) Hp) as [Hnz|Hb']; [contradiction|congruence].
    + apply Hsub in Hne.
      pose proof (flag_of_unready w0 w s p Hs Hmono e Hun Hne) as Hr.
      destruct (accepted_facts g w0 Hwf Hwg Hfrag T0 s p Hs) as [[S1 _] [HR [[_ [_ [_ P3]]] _]]].
      destruct Hne as [n [Rn Hpn]].
      destruct (reach_final g w0 Hwf Hwg Hfrag T0 s p Hs n Rn) as [Fn Pn].
      destruct (Pn e Hpn Hr) as [Hw _].
      pose proof (P3 e Hw (fun F => F) m Hi) as Pm. unfold post in Pm. rewrite Hp, Hb in Pm.
      unfold node_final in Fn. rewrite Hpn in Fn. destruct (HR e Fn) as [_ [Ifin _]].
      assert (Hdm : ns_dirty (st_node s m) = true).
      { apply (proj1 (S1 m (Ifin m Hi))). apply md_leaf; assumption. }
      rewrite Hdm in Pm. discriminate.
  - exfalso. apply (add_targets_no_loaderr g w Hwf Hwg Hfrag T (init_state g) init_plan e H (SInv_init g w)).
  - exfalso. apply (scan_fuel_sufficient g w Hwg T H).
  - exists s', p'. reflexivity.
Qed.

End ScanMono.

Section HistF.
Variable cmd : edge -> N -> snapshot -> node -> content.
Variable g : graph.
Hypothesis Hwf : wf_spec g.
Hypothesis Hwg : wf_graph g.
Hypothesis Hfrag : frag_AB g = true.
Hypothesis Htopo : topo_ordered g = true.
Hypothesis Hgen : forall e h h' S o,
  ei_generator (g_edge g e) = true -> cmd e h S o = cmd e h' S o.

Notation G st := (graph_of g st).
Notation W st := (world_of st).
Notation outs e := (ei_outs (g_edge g e)).
Notation phony e := (ei_phony (g_edge g e)).

Lemma out_lt e o : In o (outs e) -> (e < g_nedges g)%nat.
Proof. intros Ho. apply (Hwg o e). apply (o_prod g Hwf e o Ho). Qed.

(* the disk changed only by deletions and by writes with ticks after [st]'s clock *)
Definition Chg (st st' : hstate) : Prop :=
  forall n, h_disk st' n = h_disk st n \/ h_disk st' n = None \/
            exists m c, h_disk st' n = Some (m, c) /\ h_clock st < m.

(* ================================================================== Part A: one failing command *)
Lemma delete_outs_spec : forall os st,
  let st' := delete_outs os st in
  h_clock st' = h_clock st /\ h_blog st' = h_blog st /\ h_hash st' = h_hash st /\
  h_ghost st' = h_ghost st /\ h_trace st' = h_trace st /\
  (forall n, In n os -> h_disk st' n = None) /\
  (forall n, ~ In n os -> h_disk st' n = h_disk st n) /\
  (forall n, h_disk st' n = h_disk st n \/ h_disk st' n = None).
Proof.
  induction os as [|o os IH]; intros st; cbn zeta.
  - cbn [delete_outs fold_left]. repeat split; try reflexivity.
    + intros n [].
    + intros n. left; reflexivity.
  - change (delete_outs (o :: os) st) with (delete_outs os (delete_file st o)).
    destruct (IH (delete_file st o)) as [C [B [Hh [Gh [Tr [D1 [D2 D3]]]]]]]. cbn zeta in *.
    set (st' := delete_outs os (delete_file st o)) in *.
    cbn [delete_file h_clock h_blog h_hash h_ghost h_trace h_disk] in *.
    split; [exact C|]. split; [exact B|]. split; [exact Hh|]. split; [exact Gh|]. split; [exact Tr|].
    assert (Ho : h_disk st' o = None).
    { destruct (D3 o) as [E|E]; [|exact E]. rewrite E. apply upd_same. }
    split; [|split].
    + intros n [<-|Hn]; [exact Ho|apply D1; exact Hn].
    + intros n Hn. rewrite D2 by (intros Hi; apply Hn; right; exact Hi).
      apply upd_other. intros ->. apply Hn. left; reflexivity.
    + intros n. destruct (D3 n) as [E|E]; [|right; exact E].
      destruct (Nat.eq_dec n o) as [->|Hne]; [right; exact Ho|].
      left. rewrite E. apply upd_other. exact Hne.
Qed.

Lemma fail_edge_spec st e k :
  0 <= h_clock st -> (forall n m c, h_disk st n = Some (m, c) -> 0 < m <= h_clock st) ->
  let st' := fail_edge g st e k in
  h_blog st' = h_blog st /\ h_hash st' = h_hash st /\ h_trace st' = e :: h_trace st /\
  h_clock st < h_clock st' /\
  (forall n m c, h_disk st' n = Some (m, c) -> 0 < m <= h_clock st') /\
  (forall n, ~ In n (outs e) -> h_disk st' n = h_disk st n /\ h_ghost st' n = h_ghost st n) /\
  Chg st st' /\
  (forall n, h_ghost st' n = None \/
             (h_ghost st' n = h_ghost st n /\ (h_disk st' n = h_disk st n \/ h_disk st' n = None))) /\
  match k with
  | FailUntouched => (forall n, h_disk st' n = h_disk st n) /\ h_ghost st' = h_ghost st
  | FailDeleted => (forall o, In o (outs e) -> h_disk st' o = None) /\ h_ghost st' = h_ghost st
  | FailWrote f =>
    forall o, In o (outs e) ->
      h_ghost st' o = None /\ exists m, h_disk st' o = Some (m, f o) /\ h_clock st + 1 < m
  end.
Proof.
  intros Hc Hd. cbn zeta. unfold fail_edge. destruct k as [| |f].
  - cbn [push_trace tick h_blog h_hash h_trace h_clock h_disk h_ghost].
    split; [reflexivity|]. split; [reflexivity|]. split; [reflexivity|]. split; [lia|].
    split; [intros n m c Hn; specialize (Hd n m c Hn); lia|].
    split; [intros n _; split; reflexivity|].
    split; [intros n; left; reflexivity|].
    split; [intros n; right; split; [reflexivity|left; reflexivity]|].
    split; [intros n; reflexivity|reflexivity].
  - destruct (delete_outs_spec (outs e) (tick st)) as [C [B [Hh [Gh [Tr [D1 [D2 D3]]]]]]]. cbn zeta in *.
    set (st2 := delete_outs (outs e) (tick st)) in *.
    cbn [push_trace h_blog h_hash h_trace h_clock h_disk h_ghost].
    cbn [tick h_blog h_hash h_trace h_clock h_disk h_ghost] in *.
    split; [exact B|]. split; [exact Hh|]. split; [rewrite Tr; reflexivity|]. split; [lia|].
    split; [|split; [|split; [|split; [|split]]]].
    + intros n m c Hn. destruct (D3 n) as [E|E]; [|congruence]. rewrite E in Hn.
      specialize (Hd n m c Hn). lia.
    + intros n Hn. split; [apply D2; exact Hn|rewrite Gh; reflexivity].
    + intros n. destruct (D3 n) as [E|E]; [left; exact E|right; left; exact E].
    + intros n. right. split; [rewrite Gh; reflexivity|]. apply D3.
    + exact D1.
    + exact Gh.
  - destruct (write_outs_spec false f (outs e) (tick st)) as [B [Hh [Gh [Tr [C [D [E [_ K]]]]]]]].
    cbn zeta in *. set (st2 := write_outs false f (outs e) (tick st)) in *.
    cbn [push_trace forget_ghost h_blog h_hash h_trace h_clock h_disk h_ghost].
    cbn [tick h_blog h_hash h_trace h_clock h_disk h_ghost] in *.
    split; [exact B|]. split; [exact Hh|]. split; [rewrite Tr; reflexivity|]. split; [lia|].
    split; [|split; [|split; [|split]]].
    + intros n m c Hn. destruct (E n) as [En|[m1 [Em [Hm _]]]].
      * rewrite En in Hn. specialize (Hd n m c Hn). lia.
      * rewrite Em in Hn. inversion Hn; subst. lia.
    + intros n Hn. split; [apply D; exact Hn|]. rewrite (mem_node_false n _ Hn), Gh. reflexivity.
    + intros n. destruct (E n) as [En|[m1 [Em [Hm _]]]]; [left; exact En|].
      right; right. exists m1, (f n). split; [exact Em|lia].
    + intros n. destruct (in_dec Nat.eq_dec n (outs e)) as [Hin|Hnin].
      * left. rewrite (proj2 (mem_node_In n _) Hin). reflexivity.
      * right. rewrite (mem_node_false n _ Hnin), Gh. split; [reflexivity|]. left. apply D; exact Hnin.
    + intros o Ho. rewrite (proj2 (mem_node_In o _) Ho). split; [reflexivity|].
      destruct (K eq_refl o Ho) as [m [Em Hm]]. exists m. split; [exact Em|lia].
Qed.

(* ================================================================== Part B: GoodF is kept *)
Lemma goodF_of_good st : Good cmd g st -> GoodF cmd g st.
Proof.
  intros [[A [B [C [D E]]]] L]. split.
  - split; [exact A|]. split; [exact B|]. split; [exact C|]. split; [exact D|].
    intros n e He Hph Hd _. apply (E n e He Hph Hd).
  - intros e o h m mo c S Hph Ho Hb Hd Hg.
    destruct (L e o h m mo c Hph Ho Hb Hd) as [S' [HS' R]]. rewrite Hg in HS'. inversion HS'; subst S'. exact R.
Qed.

(* without tainted outputs GoodF is Good *)
Lemma good_of_goodF st :
  GoodF cmd g st -> (forall e o, phony e = false -> In o (outs e) -> tainted st o = false) ->
  Good cmd g st.
Proof.
  intros [[A [B [C [D E]]]] L] Hnt.
  assert (Hgh : forall e o, phony e = false -> In o (outs e) -> h_disk st o <> None -> h_ghost st o <> None).
  { intros e o Hph Ho Hd Hg. specialize (Hnt e o Hph Ho). unfold tainted in Hnt. rewrite Hg in Hnt.
    destruct (h_disk st o); [discriminate|contradiction]. }
  split.
  - split; [exact A|]. split; [exact B|]. split; [exact C|]. split; [exact D|].
    intros n e He Hph Hd. apply (E n e He Hph Hd). apply (Hgh e n Hph (p_out g Hwf n e He) Hd).
  - intros e o h m mo c Hph Ho Hb Hd.
    destruct (h_ghost st o) as [S|] eqn:Hg.
    + exists S. split; [reflexivity|]. apply (L e o h m mo c S Hph Ho Hb Hd Hg).
    + exfalso. apply (Hgh e o Hph Ho); [rewrite Hd; discriminate|exact Hg].
Qed.

(* the frame rule: [X] are the outputs whose log entry and snapshot the step wrote *)
Lemma goodF_frame st st' (X : list node) :
  GoodF cmd g st ->
  h_clock st <= h_clock st' ->
  (forall n m c, h_disk st' n = Some (m, c) -> 0 < m <= h_clock st') ->
  Chg st st' ->
  (forall n e, g_producer g n = Some e -> phony e = true -> h_disk st' n = None) ->
  (forall n, ~ In n X -> h_blog st' n = h_blog st n) ->
  (forall n e, g_producer g n = Some e -> ~ In n X ->
     h_ghost st' n = None \/
     (h_ghost st' n = h_ghost st n /\ (h_disk st' n = h_disk st n \/ h_disk st' n = None))) ->
  (forall o, In o X ->
     (forall h m, h_blog st' o = Some (h, m) -> m <= h_clock st') /\ h_blog st' o <> None /\
     forall e h m mo c S, phony e = false -> In o (outs e) ->
       h_blog st' o = Some (h, m) -> h_disk st' o = Some (mo, c) -> h_ghost st' o = Some S ->
       map fst S = nonoo_ins g e /\ c = cmd e h S o /\ snap_fresh g st' m S) ->
  GoodF cmd g st'.
Proof.
  intros [[A [B [C [D E]]]] L] Hc Hd Hchg HD F1 F2 HX. split.
  - split; [lia|]. split; [exact Hd|]. split; [|split; [exact HD|]].
    + intros n h m Hn. destruct (in_dec Nat.eq_dec n X) as [Hin|Hnin].
      * apply (proj1 (HX n Hin) h m Hn).
      * rewrite (F1 n Hnin) in Hn. specialize (C n h m Hn). lia.
    + intros n e He Hph Hdn Hgn. destruct (in_dec Nat.eq_dec n X) as [Hin|Hnin].
      * apply (proj1 (proj2 (HX n Hin))).
      * rewrite (F1 n Hnin). destruct (F2 n e He Hnin) as [Hg|[Hg [Hdd|Hdd]]]; [contradiction| |contradiction].
        apply (E n e He Hph); [rewrite <- Hdd; exact Hdn|rewrite <- Hg; exact Hgn].
  - intros e o h m mo c S Hph Ho Hb Hdo Hg. destruct (in_dec Nat.eq_dec o X) as [Hin|Hnin].
    + apply (proj2 (proj2 (HX o Hin)) e h m mo c S Hph Ho Hb Hdo Hg).
    + rewrite (F1 o Hnin) in Hb.
      destruct (F2 o e (o_prod g Hwf e o Ho) Hnin) as [Hg'|[Hg' [Hdd|Hdd]]]; [congruence| |congruence].
      rewrite Hg' in Hg. rewrite Hdd in Hdo.
      destruct (L e o h m mo c S Hph Ho Hb Hdo Hg) as [HmS [HcS Hf]].
      split; [exact HmS|]. split; [exact HcS|].
      intros i ci Hi. destruct (Hf i ci Hi) as [P1 P2]. split; [exact P1|].
      intros mi c' Hdi Hle. destruct (Hchg i) as [Hs|[Hn|[mx [cx [Hx Hmx]]]]].
      * rewrite Hs in Hdi. apply (P2 mi c' Hdi Hle).
      * congruence.
      * rewrite Hx in Hdi. inversion Hdi; subst. specialize (C o h m Hb). lia.
Qed.

Lemma goodF_edit st n c : GoodF cmd g st -> is_source g n = true -> GoodF cmd g (write_file st n c).
Proof.
  intros HG Hs. unfold is_source in Hs. destruct (g_producer g n) eqn:Hp; [discriminate|].
  pose proof HG as [[A [B [C [D E]]]] L].
  apply (goodF_frame st _ [] HG); unfold Chg; cbn [write_file h_clock h_disk h_blog h_ghost].
  - lia.
  - intros n' m c'. unfold upd. destruct (Nat.eqb n' n).
    + intros H; inversion H; subst. lia.
    + intros H. specialize (B n' m c' H). lia.
  - intros n'. unfold upd. destruct (Nat.eqb n' n); [|left; reflexivity].
    right; right. exists (h_clock st + 1), c. split; [reflexivity|lia].
  - intros n' e He Hph. rewrite upd_other by (intros ->; congruence). apply (D n' e He Hph).
  - intros n' _. reflexivity.
  - intros n' e He _. right. split; [reflexivity|]. left. apply upd_other. intros ->. congruence.
  - intros o [].
Qed.

Lemma goodF_delete st n : GoodF cmd g st -> GoodF cmd g (delete_file st n).
Proof.
  intros HG. pose proof HG as [[A [B [C [D E]]]] L].
  apply (goodF_frame st _ [] HG); unfold Chg; cbn [delete_file h_clock h_disk h_blog h_ghost].
  - lia.
  - intros n' m c'. unfold upd. destruct (Nat.eqb n' n); [discriminate|apply B].
  - intros n'. unfold upd. destruct (Nat.eqb n' n); [right; left; reflexivity|left; reflexivity].
  - intros n' e He Hph. unfold upd. destruct (Nat.eqb n' n); [reflexivity|apply (D n' e He Hph)].
  - intros n' _. reflexivity.
  - intros n' e He _. right. split; [reflexivity|]. unfold upd. destruct (Nat.eqb n' n); [right|left]; reflexivity.
  - intros o [].
Qed.

Lemma goodF_setcmd st e h : GoodF cmd g st -> GoodF cmd g (set_cmd st e h).
Proof. intros H. exact H. Qed.

Lemma goodF_run st e :
  GoodF cmd g st -> (e < g_nedges g)%nat -> phony e = false -> GoodF cmd g (run_edge cmd g st e).
Proof.
  intros HG He Hph. pose proof HG as [[A [B [C [D E]]]] L].
  destruct (run_edge_spec cmd g st e A B) as [Hh [Hc [Hout [Hfs [Hd [[m [Hm Hlog]] _]]]]]]. cbn zeta in *.
  set (st' := run_edge cmd g st e) in *.
  apply (goodF_frame st st' (outs e) HG).
  - lia.
  - exact Hd.
  - intros n. destruct (Hfs n) as [Hs|[mx [Hx [Hmx _]]]]; [left; exact Hs|].
    right; right. exists mx, (cmd e (h_hash st e) (reads g st e) n). split; [exact Hx|lia].
  - intros n e' He' Hph'. assert (Hnin : ~ In n (outs e)).
    { intros Hin. rewrite (o_prod g Hwf e n Hin) in He'. inversion He'; subst. congruence. }
    rewrite (proj1 (Hout n Hnin)). apply (D n e' He' Hph').
  - intros n Hn. apply (proj1 (proj2 (Hout n Hn))).
  - intros n e' _ Hn. right. destruct (Hout n Hn) as [E1 [_ E3]]. split; [exact E3|left; exact E1].
  - intros o Hin. destruct (Hlog o Hin) as [Hb' [Hg' [mo' Hd']]]. split; [|split].
    + intros h0 m0 Hb0. rewrite Hb' in Hb0. inversion Hb0; subst. lia.
    + rewrite Hb'. discriminate.
    + intros e1 h1 m1 mo c S Hph1 Ho Hb Hdo Hg.
      assert (e1 = e) by (pose proof (o_prod g Hwf e1 o Ho) as H1; rewrite (o_prod g Hwf e o Hin) in H1; congruence).
      subst e1. rewrite Hb' in Hb. inversion Hb; subst h1 m1.
      rewrite Hd' in Hdo. inversion Hdo; subst mo c. rewrite Hg' in Hg. inversion Hg; subst S.
      split; [unfold reads; rewrite map_map; cbn [fst]; apply map_id|]. split; [reflexivity|].
      intros i ci Hi. unfold reads in Hi. apply in_map_iff in Hi. destruct Hi as [i' [Hi' Hin']].
      inversion Hi'; subst i' ci. split.
      * intros e' He' Hph'. unfold content_of. rewrite (D i e' He' Hph'). reflexivity.
      * intros mi c' Hdi _.
        assert (Hni : ~ In i (outs e)).
        { apply (not_out_of_below g Hwf e e i); [apply (in_below g Htopo e i He (nonoo_in g e i Hin'))|lia]. }
        rewrite (proj1 (Hout i Hni)) in Hdi. unfold content_of. rewrite Hdi. reflexivity.
Qed.

Lemma goodF_fail st e k : GoodF cmd g st -> phony e = false -> GoodF cmd g (fail_edge g st e k).
Proof.
  intros HG Hph. pose proof HG as [[A [B [C [D E]]]] L].
  destruct (fail_edge_spec st e k A B) as [Hb [Hh [Htr [Hc [Hd [Hout [Hchg [Hgh _]]]]]]]]. cbn zeta in *.
  apply (goodF_frame st _ [] HG).
  - lia.
  - exact Hd.
  - exact Hchg.
  - intros n e' He' Hph'. assert (Hnin : ~ In n (outs e)).
    { intros Hin. rewrite (o_prod g Hwf e n Hin) in He'. inversion He'; subst. congruence. }
    rewrite (proj1 (Hout n Hnin)). apply (D n e' He' Hph').
  - intros n _. rewrite Hb. reflexivity.
  - intros n e' _ _. apply Hgh.
  - intros o [].
Qed.

(* a property kept by every successful command is kept by the loop *)
Lemma build_upto_ind (P : hstate -> Prop) p st :
  (forall st1 e, P st1 -> (e < g_nedges g)%nat -> phony e = false -> P (run_edge cmd g st1 e)) ->
  P st -> forall k, (k <= g_nedges g)%nat -> P (build_upto cmd g p k st).
Proof.
  intros Hrun H0. induction k as [|k IH]; intros Hk; [exact H0|].
  rewrite build_upto_S. unfold build_step.
  destruct (want_start p k && negb (phony k) && dirty_now g (build_upto cmd g p k st) k)%bool eqn:Hc;
    [|apply IH; lia].
  apply andb_true_iff in Hc. destruct Hc as [Hc _]. apply andb_true_iff in Hc. destruct Hc as [_ Hph].
  apply negb_true_iff in Hph. apply Hrun; [apply IH; lia|lia|exact Hph].
Qed.

Lemma goodF_build_upto p st k : GoodF cmd g st -> (k <= g_nedges g)%nat -> GoodF cmd g (build_upto cmd g p k st).
Proof. intros HG. apply (build_upto_ind (GoodF cmd g) p st); [intros st1 e; apply goodF_run|exact HG]. Qed.

(* ================================================================== Part C: late, StaleEntry, TaintOk *)
Lemma lateb_sound st m : forall fuel i, lateb g fuel st m i = true -> late g st m i.
Proof.
  induction fuel as [|f IH]; intros i H; cbn [lateb] in H; [discriminate|].
  destruct (h_disk st i) as [[mi c]|] eqn:Hd.
  - apply (late_file g st m i mi c Hd). apply Z.ltb_lt. exact H.
  - destruct (g_producer g i) as [e'|] eqn:Hp.
    + destruct (phony e') eqn:Hph.
      * apply existsb_exists in H. destruct H as [i' [Hi' Hl]].
        apply (late_phony g st m i e' i' Hd Hp Hph Hi'). apply IH. exact Hl.
      * apply (late_missing g st m i Hd). intros e2 He2. rewrite Hp in He2. inversion He2; subst e2. exact Hph.
    + apply (late_missing g st m i Hd). intros e2 He2. rewrite Hp in He2. discriminate.
Qed.

Lemma stale_entryb_sound wh st e o : stale_entryb g wh st e o = true -> StaleEntry g wh st e o.
Proof.
  unfold stale_entryb, StaleEntry. destruct (h_blog st o) as [[h m]|].
  - intros H. apply orb_true_iff in H. destruct H as [H|H].
    + left. apply andb_true_iff in H. destruct H as [H H3]. apply andb_true_iff in H. destruct H as [H1 H2].
      split; [exact H1|]. split; [apply negb_true_iff; exact H2|].
      apply negb_true_iff in H3. apply N.eqb_neq. exact H3.
    + right. apply existsb_exists in H. destruct H as [i [Hi Hl]]. exists i. split; [exact Hi|].
      apply (lateb_sound st m _ i Hl).
  - intros H. apply negb_true_iff. exact H.
Qed.

Lemma taint_okb_sound wh st : taint_okb g wh st = true -> TaintOk g wh st.
Proof.
  intros H e o Hph Ho Ht. pose proof (edges_all_spec g _ e H (out_lt e o Ho)) as He. cbn beta in He.
  rewrite Hph in He. cbn [orb] in He. rewrite forallb_forall in He. specialize (He o Ho).
  rewrite Ht in He. cbn [negb orb] in He. apply stale_entryb_sound. exact He.
Qed.

Lemma stale_weaken st e o : StaleEntry g false st e o -> StaleEntry g true st e o.
Proof.
  unfold StaleEntry. destruct (h_blog st o) as [[h m]|]; [|auto].
  intros [[Hw _]|H]; [discriminate|right; exact H].
Qed.

Lemma taintok_weaken st : TaintOk g false st -> TaintOk g true st.
Proof. intros H e o Hph Ho Ht. apply stale_weaken. apply (H e o Hph Ho Ht). Qed.

(* [late] survives deletions and writes with later ticks *)
Lemma late_mono st st' m :
  (forall n e, g_producer g n = Some e -> phony e = true -> h_disk st n = None) ->
  m <= h_clock st -> Chg st st' ->
  forall i, late g st m i -> late g st' m i.
Proof.
  intros HD Hm Hchg i H. induction H as [i mi c Hd Hlt|i Hd Hnp|i e' i' Hd Hp Hph Hi' Hl IH].
  - destruct (Hchg i) as [Hs|[Hn|[mx [cx [Hx Hmx]]]]].
    + apply (late_file g st' m i mi c); [rewrite Hs; exact Hd|exact Hlt].
    + apply (late_missing g st' m i Hn). intros e' He'. destruct (phony e') eqn:Hph; [|reflexivity].
      rewrite (HD i e' He' Hph) in Hd. discriminate.
    + apply (late_file g st' m i mx cx Hx). lia.
  - destruct (Hchg i) as [Hs|[Hn|[mx [cx [Hx Hmx]]]]].
    + apply (late_missing g st' m i); [rewrite Hs; exact Hd|exact Hnp].
    + apply (late_missing g st' m i Hn Hnp).
    + apply (late_file g st' m i mx cx Hx). lia.
  - destruct (Hchg i) as [Hs|[Hn|[mx [cx [Hx Hmx]]]]].
    + apply (late_phony g st' m i e' i'); [rewrite Hs; exact Hd|exact Hp|exact Hph|exact Hi'|exact IH].
    + apply (late_phony g st' m i e' i' Hn Hp Hph Hi' IH).
    + apply (late_file g st' m i mx cx Hx). lia.
Qed.

Lemma stale_mono wh st st' e o :
  StateOkF g st -> Chg st st' -> h_blog st' o = h_blog st o ->
  (wh = true -> h_hash st' e = h_hash st e) ->
  StaleEntry g wh st e o -> StaleEntry g wh st' e o.
Proof.
  intros [A [B [C [D E]]]] Hchg Hb Hh. unfold StaleEntry. rewrite Hb.
  destruct (h_blog st o) as [[h m]|] eqn:Hbo; [|auto].
  intros [[Hw [Hg Hne]]|[i [Hi Hl]]].
  - left. split; [exact Hw|]. split; [exact Hg|]. rewrite (Hh Hw). exact Hne.
  - right. exists i. split; [exact Hi|]. apply (late_mono st st' m D (C o h m Hbo) Hchg i Hl).
Qed.

(* a late input is either to be remade itself or newer than [m] *)
Lemma late_cases st m i : StateOkF g st -> late g st m i ->
  must_dirty (G st) (W st) i \/ newer_than (G st) (W st) m i.
Proof.
  intros [A [B [C [D E]]]] H. induction H as [i mi c Hd Hlt|i Hd Hnp|i e' i' Hd Hp Hph Hi' Hl IH].
  - right. apply nt_file; cbn [world_of w_mtime]; unfold mtime_of; rewrite Hd; [|exact Hlt].
    specialize (B i mi c Hd). lia.
  - left. destruct (g_producer g i) as [e'|] eqn:Hp.
    + apply (md_base g Hwf st e' i (p_out g Hwf i e' Hp) (Hnp e' eq_refl)).
      left. cbn [world_of w_mtime]. unfold mtime_of. rewrite Hd. reflexivity.
    + apply md_leaf; [exact Hp|]. cbn [world_of w_mtime]. unfold mtime_of. rewrite Hd. reflexivity.
  - assert (Hz : w_mtime (W st) i = 0) by (cbn [world_of w_mtime]; unfold mtime_of; rewrite Hd; reflexivity).
    destruct IH as [Hmd|Hnt].
    + left. apply (md_input (G st) (W st) i e' i' Hp); [|exact Hmd].
      rewrite (spec_ins_AB g Hfrag st (W st) e' (Hwg i e' Hp)). exact Hi'.
    + right. apply (nt_phony (G st) (W st) m i e' i' Hz Hp Hph Hi' Hnt).
Qed.

(* what a stale entry means to the scan *)
Lemma stale_md st e o : StateOkF g st -> phony e = false -> In o (outs e) ->
  StaleEntry g true st e o -> must_dirty (G st) (W st) o.
Proof.
  intros HS Hph Ho H. pose proof (out_lt e o Ho) as He. unfold StaleEntry in H.
  destruct (h_blog st o) as [[h m]|] eqn:Hb.
  - destruct H as [[_ [Hg Hne]]|[i [Hi Hl]]].
    + apply (md_base g Hwf st e o Ho Hph). right. cbn [world_of w_blog]. rewrite Hb.
      split; [exact Hg|exact Hne].
    + destruct (late_cases st m i HS Hl) as [Hmd|Hnt].
      * apply (md_input (G st) (W st) o e i (o_prod g Hwf e o Ho)); [|exact Hmd].
        rewrite (spec_ins_AB g Hfrag st (W st) e He). exact Hi.
      * apply (md_time g Hwf Hfrag st e o h m i He Ho Hph Hb Hi Hnt).
  - apply (md_base g Hwf st e o Ho Hph). right. cbn [world_of w_blog]. rewrite Hb. exact H.
Qed.

(* the frame rule for TaintOk *)
Lemma taintok_frame wh st st' :
  StateOkF g st -> TaintOk g wh st -> Chg st st' ->
  (wh = true -> h_hash st' = h_hash st) ->
  (forall e o, phony e = false -> In o (outs e) -> tainted st' o = true ->
     h_blog st' o = h_blog st o /\ (tainted st o = true \/ StaleEntry g wh st e o)) ->
  TaintOk g wh st'.
Proof.
  intros HS HT Hchg Hh Hnew e o Hph Ho Ht.
  destruct (Hnew e o Hph Ho Ht) as [Hb Hold].
  apply (stale_mono wh st st' e o HS Hchg Hb).
  - intros Hw. rewrite (Hh Hw). reflexivity.
  - destruct Hold as [Ht0|Hs]; [apply (HT e o Hph Ho Ht0)|exact Hs].
Qed.

Lemma tainted_eq st st' o :
  h_disk st' o = h_disk st o -> h_ghost st' o = h_ghost st o -> tainted st' o = tainted st o.
Proof. intros Hd Hg. unfold tainted. rewrite Hd, Hg. reflexivity. Qed.

Lemma taintok_edit wh st n c :
  StateOkF g st -> TaintOk g wh st -> is_source g n = true -> TaintOk g wh (write_file st n c).
Proof.
  intros HS HT Hs. unfold is_source in Hs. destruct (g_producer g n) eqn:Hp; [discriminate|].
  apply (taintok_frame wh st _ HS HT).
  - intros n'. cbn [write_file h_disk h_clock]. unfold upd. destruct (Nat.eqb n' n); [|left; reflexivity].
    right; right. exists (h_clock st + 1), c. split; [reflexivity|lia].
  - intros _. reflexivity.
  - intros e o Hph Ho Ht. split; [reflexivity|]. left. rewrite <- Ht. symmetry. apply tainted_eq; [|reflexivity].
    cbn [write_file h_disk]. apply upd_other. intros ->. rewrite (o_prod g Hwf e n Ho) in Hp. discriminate.
Qed.

Lemma taintok_delete wh st n : StateOkF g st -> TaintOk g wh st -> TaintOk g wh (delete_file st n).
Proof.
  intros HS HT. apply (taintok_frame wh st _ HS HT).
  - intros n'. cbn [delete_file h_disk]. unfold upd. destruct (Nat.eqb n' n); [right; left|left]; reflexivity.
  - intros _. reflexivity.
  - intros e o Hph Ho Ht. split; [reflexivity|]. left. unfold tainted in *.
    cbn [delete_file h_disk h_ghost] in Ht. unfold upd in Ht. destruct (Nat.eqb o n); [discriminate|exact Ht].
Qed.

(* a changed command line: only the form without the hash clause is kept *)
Lemma late_setcmd st e h m i : late g st m i -> late g (set_cmd st e h) m i.
Proof.
  intros Hl. induction Hl as [i mi c Hd Hlt|i Hd Hnp|i e2 i' Hd Hp Hph2 Hi' Hl IH].
  - apply (late_file g (set_cmd st e h) m i mi c Hd Hlt).
  - apply (late_missing g (set_cmd st e h) m i Hd Hnp).
  - apply (late_phony g (set_cmd st e h) m i e2 i' Hd Hp Hph2 Hi' IH).
Qed.

Lemma taintok_setcmd st e h : TaintOk g false st -> TaintOk g false (set_cmd st e h).
Proof.
  intros HT e' o Hph Ho Ht. specialize (HT e' o Hph Ho Ht). unfold StaleEntry in *.
  cbn [set_cmd h_blog] in *. destruct (h_blog st o) as [[h0 m]|]; [|exact HT].
  destruct HT as [[Hw _]|[i [Hi Hl]]]; [discriminate|]. right. exists i. split; [exact Hi|].
  apply late_setcmd. exact Hl.
Qed.

Lemma taintok_run wh st e :
  GoodF cmd g st -> TaintOk g wh st -> (e < g_nedges g)%nat -> phony e = false ->
  TaintOk g wh (run_edge cmd g st e).
Proof.
  intros HG HT He Hph. pose proof HG as [[A [B [C [D E]]]] L].
  destruct (run_edge_spec cmd g st e A B) as [Hh [Hc [Hout [Hfs [Hd [[m [Hm Hlog]] _]]]]]]. cbn zeta in *.
  apply (taintok_frame wh st _ (proj1 HG) HT).
  - intros n. destruct (Hfs n) as [Hs|[mx [Hx [Hmx _]]]]; [left; exact Hs|].
    right; right. exists mx, (cmd e (h_hash st e) (reads g st e) n). split; [exact Hx|lia].
  - intros _. exact Hh.
  - intros e1 o Hph1 Ho Ht. destruct (in_dec Nat.eq_dec o (outs e)) as [Hin|Hnin].
    + exfalso. destruct (Hlog o Hin) as [_ [Hg' _]]. unfold tainted in Ht. rewrite Hg' in Ht.
      destruct (h_disk (run_edge cmd g st e) o); discriminate.
    + destruct (Hout o Hnin) as [E1 [E2 E3]]. split; [exact E2|]. left. rewrite <- Ht. symmetry.
      apply tainted_eq; assumption.
Qed.

(* a failing command: a FailWrote needs a reason from the log for every output, judged in the
   state the command is started in *)
Lemma taintok_fail wh st e k :
  GoodF cmd g st -> TaintOk g wh st -> phony e = false ->
  (forall f, k = FailWrote f -> forall o, In o (outs e) -> StaleEntry g wh st e o) ->
  TaintOk g wh (fail_edge g st e k).
Proof.
  intros HG HT Hph Hk. pose proof HG as [[A [B [C [D E]]]] L].
  destruct (fail_edge_spec st e k A B) as [Hb [Hh [Htr [Hc [Hd [Hout [Hchg [Hgh Hkind]]]]]]]]. cbn zeta in *.
  apply (taintok_frame wh st _ (proj1 HG) HT Hchg).
  - intros _. exact Hh.
  - intros e1 o Hph1 Ho Ht. split; [rewrite Hb; reflexivity|].
    destruct (in_dec Nat.eq_dec o (outs e)) as [Hin|Hnin].
    + assert (e1 = e) by (pose proof (o_prod g Hwf e1 o Ho) as H1; rewrite (o_prod g Hwf e o Hin) in H1; congruence).
      subst e1. destruct k as [| |f].
      * left. destruct Hkind as [K1 K2]. rewrite <- Ht. symmetry. apply tainted_eq; [apply K1|rewrite K2; reflexivity].
      * exfalso. destruct Hkind as [K1 _]. unfold tainted in Ht. rewrite (K1 o Hin) in Ht. discriminate.
      * right. apply (Hk f eq_refl o Hin).
    + left. destruct (Hout o Hnin) as [E1 E2]. rewrite <- Ht. symmetry. apply tainted_eq; assumption.
Qed.

Lemma fault_benign_sound st e k : fault_benign g st e k = true ->
  forall f, k = FailWrote f -> forall o, In o (outs e) -> StaleEntry g false st e o.
Proof.
  intros H f -> o Ho. cbn [fault_benign] in H. rewrite forallb_forall in H.
  apply stale_entryb_sound. apply (H o Ho).
Qed.

(* ================================================================== Part D: one successful invocation *)
(* scan_clean_correct of HistProofs under the weaker invariant: a tainted output is never judged
   clean ([TaintOk] + [stale_md]), so an output the scan judges clean has its ghost snapshot *)
Theorem scan_clean_correctF st : GoodF cmd g st -> TaintOk g true st ->
  forall e, (e < g_nedges g)%nat -> phony e = false ->
  forall o, In o (outs e) -> ~ must_dirty (G st) (W st) o ->
  exists m c, h_disk st o = Some (m, c) /\ clean_of cmd g st o = Some c.
Proof.
  intros HG HT. pose proof HG as [[A [B [C [D E]]]] L].
  induction e as [e IH] using lt_wf_ind. intros He Hph o Ho Hc.
  destruct (h_disk st o) as [[mo c]|] eqn:Hdo.
  2:{ exfalso. apply Hc. apply (md_base g Hwf st e o Ho Hph). left. cbn [world_of w_mtime]. unfold mtime_of. rewrite Hdo. reflexivity. }
  destruct (h_ghost st o) as [S|] eqn:Hgo.
  2:{ exfalso. apply Hc. apply (stale_md st e o (proj1 HG) Hph Ho). apply (HT e o Hph Ho).
      unfold tainted. rewrite Hdo, Hgo. reflexivity. }
  destruct (h_blog st o) as [[h m]|] eqn:Hbo.
  2:{ exfalso. apply (E o e (o_prod g Hwf e o Ho) Hph); [rewrite Hdo; discriminate|rewrite Hgo; discriminate|exact Hbo]. }
  destruct (L e o h m mo c S Hph Ho Hbo Hdo Hgo) as [HmS [HcS Hf]].
  exists mo, c. split; [reflexivity|].
  unfold clean_of. rewrite (clean_build_out cmd g Htopo (h_hash st) (sources_of g st) e o He (o_prod g Hwf e o Ho)). rewrite Hph.
  change (clean_build cmd g (h_hash st) (sources_of g st)) with (clean_of cmd g st).
  assert (HSeq : S = map (fun i => (i, clean_of cmd g st i)) (nonoo_ins g e)).
  { apply snapshot_eq; [exact HmS|]. intros i ci Hi.
    assert (Hin : In i (nonoo_ins g e)) by (rewrite <- HmS; apply (in_map fst S (i, ci) Hi)).
    destruct (Hf i ci Hi) as [F1 F2].
    assert (Hci : ~ must_dirty (G st) (W st) i) by (apply (clean_input g Hwg Hfrag st (W st) o e i (o_prod g Hwf e o Ho) Hin Hc)).
    assert (Hfresh : forall mi c', h_disk st i = Some (mi, c') -> ci = Some c').
    { intros mi c' Hdi. apply (F2 mi c' Hdi). destruct (Z_le_gt_dec mi m) as [Hle|Hgt]; [exact Hle|].
      exfalso. apply Hc. apply (md_time g Hwf Hfrag st e o h m i He Ho Hph Hbo Hin).
      apply nt_file; cbn [world_of w_mtime]; unfold mtime_of; rewrite Hdi; [|lia].
      specialize (B i mi c' Hdi). lia. }
    destruct (g_producer g i) as [e'|] eqn:Hpi.
    - pose proof (in_below g Htopo e i He (nonoo_in g e i Hin)) as Hlt. unfold below in Hlt. rewrite Hpi in Hlt.
      assert (He' : (e' < g_nedges g)%nat) by lia.
      destruct (phony e') eqn:Hph'.
      + rewrite (F1 e' eq_refl Hph'). unfold clean_of.
        rewrite (clean_build_out cmd g Htopo _ _ e' i He' Hpi), Hph'. reflexivity.
      + destruct (IH e' Hlt He' Hph' i (p_out g Hwf i e' Hpi) Hci) as [mi [c' [Hdi Hcl]]].
        rewrite Hcl. apply (Hfresh mi c' Hdi).
    - rewrite (clean_of_leaf cmd g st i Hpi). unfold content_of.
      destruct (h_disk st i) as [[mi c']|] eqn:Hdi; [apply (Hfresh mi c' eq_refl)|].
      exfalso. apply Hci. apply md_leaf; [exact Hpi|]. cbn [world_of w_mtime]. unfold mtime_of. rewrite Hdi. reflexivity. }
  rewrite <- HSeq. f_equal. rewrite HcS.
  destruct (ei_generator (g_edge g e)) eqn:Hgn; [apply Hgen; exact Hgn|].
  destruct (N.eq_dec h (h_hash st e)) as [->|Hne]; [reflexivity|].
  exfalso. apply Hc. apply (md_base g Hwf st e o Ho Hph). right. cbn [world_of w_blog]. rewrite Hbo.
  split; [exact Hgn|exact Hne].
Qed.

(* ---- the loop of one accepted invocation, from a GoodF state *)
Section OneBuild.
Variables (st0 : hstate) (T : list node) (s0 : sstate) (p0 : plan).
Hypothesis HG0 : GoodF cmd g st0.
Hypothesis Hscan : scan (G st0) (W st0) T = ScanOk s0 p0.

Notation stk k := (build_upto cmd g p0 k st0).

(* what the commands run so far have changed *)
Definition Chg0 (st : hstate) : Prop :=
  forall n, h_disk st n = h_disk st0 n \/ exists m c, h_disk st n = Some (m, c) /\ h_clock st0 < m.

Lemma build_inv1F k : (k <= g_nedges g)%nat ->
  GoodF cmd g (stk k) /\ h_hash (stk k) = h_hash st0 /\ Frame g st0 p0 k (stk k) /\
  h_clock st0 <= h_clock (stk k) /\ Chg0 (stk k).
Proof.
  induction k as [|k IH]; intros Hk.
  - split; [exact HG0|]. split; [reflexivity|]. split; [intros n; left; repeat split; reflexivity|].
    split; [cbn; lia|intros n; left; reflexivity].
  - destruct IH as [HGk [Hh [Hf [Hcl Hch]]]]; [lia|]. rewrite build_upto_S. set (st := stk k) in *.
    unfold build_step.
    destruct (want_start p0 k && negb (phony k) && dirty_now g st k)%bool eqn:Hc.
    + apply andb_true_iff in Hc. destruct Hc as [Hc _]. apply andb_true_iff in Hc. destruct Hc as [Hw Hph].
      apply negb_true_iff in Hph.
      pose proof HGk as [[A [B C]] L].
      destruct (run_edge_spec cmd g st k A B) as [Hh' [Hc' [Hout [Hfs _]]]]. cbn zeta in *.
      split; [apply goodF_run; [exact HGk|lia|exact Hph]|].
      split; [congruence|]. split; [|split; [lia|]].
      * intros n. destruct (in_dec Nat.eq_dec n (outs k)) as [Hin|Hnin].
        -- right. exists k. split; [apply (o_prod g Hwf); exact Hin|]. split; [lia|]. split; assumption.
        -- destruct (Hout n Hnin) as [E1 [E2 E3]]. rewrite E1, E2, E3.
           destruct (Hf n) as [Hs|[e [He [Hlt Hr]]]]; [left; exact Hs|].
           right. exists e. split; [exact He|]. split; [lia|exact Hr].
      * intros n. destruct (Hfs n) as [Hs|[mx [Hx [Hmx _]]]].
        -- rewrite Hs. apply Hch.
        -- right. exists mx, (cmd k (h_hash st k) (reads g st k) n). split; [exact Hx|lia].
    + split; [exact HGk|]. split; [exact Hh|]. split; [|split; [exact Hcl|exact Hch]].
      intros n. destruct (Hf n) as [Hs|[e [He [Hlt Hr]]]]; [left; exact Hs|].
      right. exists e. split; [exact He|]. split; [lia|exact Hr].
Qed.

Lemma chg0_chg st : Chg0 st -> Chg st0 st.
Proof. intros H n. destruct (H n) as [E|E]; [left; exact E|right; right; exact E]. Qed.

Lemma taintok_build_upto wh k : TaintOk g wh st0 -> (k <= g_nedges g)%nat -> TaintOk g wh (stk k).
Proof.
  intros HT Hk.
  apply (build_upto_ind (fun st => GoodF cmd g st /\ TaintOk g wh st) p0 st0); [|split; assumption|exact Hk].
  intros st1 e [H1 H2] He Hph. split; [apply goodF_run; assumption|apply taintok_run; assumption].
Qed.

Hypothesis HT0 : TaintOk g true st0.

(* C01, the loop invariant (HistProofs.build_inv_c01 under the weaker invariant) *)
Lemma build_inv_c01F k : (k <= g_nedges g)%nat ->
  forall e, (e < k)%nat -> needed g T e -> phony e = false ->
  forall o, In o (outs e) ->
    exists m c, h_disk (stk k) o = Some (m, c) /\ clean_of cmd g st0 o = Some c.
Proof.
  induction k as [|k IH]; intros Hk e He Hn Hph o Ho; [lia|].
  destruct (build_inv1F k) as [HGk [Hh [Hf _]]]; [lia|].
  pose proof (taintok_build_upto true k HT0 ltac:(lia)) as HTk.
  assert (IHk : forall e', (e' < k)%nat -> needed g T e' -> phony e' = false ->
            forall o', In o' (outs e') ->
            exists m c, h_disk (stk k) o' = Some (m, c) /\ clean_of cmd g st0 o' = Some c)
    by (apply IH; lia).
  set (st := stk k) in *.
  destruct (Nat.eq_dec e k) as [->|Hne].
  2:{ destruct (IHk e ltac:(lia) Hn Hph o Ho) as [m [c [Hd Hcl]]].
      destruct (step_cases cmd g st0 p0 k) as [[Hs _]|[Hs _]]; rewrite Hs; fold st; [|exists m, c; split; assumption].
      pose proof HGk as [[A [B _]] _].
      destruct (run_edge_spec cmd g st k A B) as [_ [_ [Hout _]]]. cbn zeta in Hout.
      assert (Hnin : ~ In o (outs k)).
      { intros Hin. pose proof (o_prod g Hwf k o Hin) as H1. rewrite (o_prod g Hwf e o Ho) in H1. congruence. }
      exists m, c. rewrite (proj1 (Hout o Hnin)). split; assumption. }
  assert (Hcl : clean_of cmd g st0 o =
                Some (cmd k (h_hash st0 k) (map (fun i => (i, clean_of cmd g st0 i)) (nonoo_ins g k)) o)).
  { unfold clean_of. rewrite (clean_build_out cmd g Htopo _ _ k o Hk (o_prod g Hwf k o Ho)), Hph. reflexivity. }
  destruct (step_cases cmd g st0 p0 k) as [[Hs [Hw _]]|[Hs Hskip]]; rewrite Hs; fold st.
  - pose proof HGk as [[A [B [C [D E]]]] L].
    destruct (run_edge_spec cmd g st k A B) as [_ [_ [_ [_ [_ [[m [_ Hlog]] _]]]]]]. cbn zeta in Hlog.
    destruct (Hlog o Ho) as [_ [_ [mo Hd]]]. exists mo. eexists. split; [exact Hd|].
    rewrite Hcl, Hh. f_equal. f_equal. unfold reads. apply map_ext_in. intros i Hi. f_equal.
    destruct Hn as [n [Rn Hpn]].
    destruct (g_producer g i) as [e'|] eqn:Hpi.
    + pose proof (in_below g Htopo k i Hk (nonoo_in g k i Hi)) as Hlt. unfold below in Hlt. rewrite Hpi in Hlt.
      destruct (phony e') eqn:Hph'.
      * unfold content_of. rewrite (D i e' Hpi Hph'). unfold clean_of.
        rewrite (clean_build_out cmd g Htopo _ _ e' i ltac:(lia) Hpi), Hph'. reflexivity.
      * assert (Hn' : needed g T e').
        { exists i. split; [|exact Hpi]. apply (reach_step g (manifest_ins g) T n i Rn).
          exists k. split; [exact Hpn|apply nonoo_in; exact Hi]. }
        destruct (IHk e' Hlt Hn' Hph' i (p_out g Hwf i e' Hpi)) as [mi [ci [Hdi Hci]]].
        unfold content_of. rewrite Hdi, Hci. reflexivity.
    + rewrite (clean_of_leaf cmd g st0 i Hpi). unfold content_of. rewrite (frame_leaf g st0 p0 k st i Hf Hpi). reflexivity.
  - destruct Hskip as [Hp|[Hw|Hdn]]; [congruence| |].
    + assert (Hc0 : ~ must_dirty (G st0) (W st0) o).
      { intros Hmd.
        destruct (want_complete g Hwf Hwg Hfrag st0 T s0 p0 Hscan k Hn (ex_intro _ o (conj Ho Hmd))) as [Hw' _]; [|congruence].
        intros [Hp _]. congruence. }
      destruct (scan_clean_correctF st0 HG0 HT0 k Hk Hph o Ho Hc0) as [m [c [Hd Hc]]].
      exists m, c. split; [|exact Hc].
      rewrite (proj1 (frame_later g st0 p0 k st o k Hf (o_prod g Hwf k o Ho) (le_n k))). exact Hd.
    + pose proof (dirty_now_spec g Hwf Hwg Hfrag st k Hdn o Ho) as Hc.
      destruct (scan_clean_correctF st HGk HTk k Hk Hph o Ho Hc) as [m [c [Hd Hcc]]].
      exists m, c. split; [exact Hd|]. rewrite <- Hcc. symmetry. apply clean_of_ext; [exact Hh|].
      intros x Hx. unfold content_of. rewrite (frame_leaf g st0 p0 k st x Hf Hx). reflexivity.
Qed.

End OneBuild.

Theorem goodF_build st T st' : GoodF cmd g st -> build cmd g st T = Some st' -> GoodF cmd g st'.
Proof.
  intros HG H. unfold build in H.
  destruct (scan (G st) (W st) T) as [c|m d|e| |s p] eqn:Hs; try discriminate. inversion H; subst st'.
  apply goodF_build_upto; [exact HG|apply le_n].
Qed.

(* C01 for one invocation with failures in the past: from a state satisfying the weaker invariant in
   which no tainted output is validated by an old log entry, a successful build leaves every node
   the targets need with the content of a from-scratch build *)
Theorem C01F_build st T st' :
  GoodF cmd g st -> TaintOk g true st -> build cmd g st T = Some st' ->
  forall n, reach g T n -> content_of st' n = clean_of cmd g st' n.
Proof.
  intros HG HT H n Rn. pose proof (goodF_build st T st' HG H) as HG'.
  unfold build in H.
  destruct (scan (G st) (W st) T) as [c|m d|e| |s p] eqn:Hs; try discriminate. inversion H; subst st'.
  set (st' := build_upto cmd g p (g_nedges g) st) in *.
  destruct (build_inv1F st p HG (g_nedges g) (le_n _)) as [_ [Hh [Hf _]]].
  destruct (g_producer g n) as [e|] eqn:Hp; [|symmetry; apply clean_of_leaf; exact Hp].
  pose proof (Hwg n e Hp) as He.
  rewrite (clean_of_ext cmd g st st' Hh)
    by (intros x Hx; unfold content_of; rewrite (frame_leaf g st p _ st' x Hf Hx); reflexivity).
  destruct (phony e) eqn:Hph.
  - destruct HG' as [[_ [_ [_ [D _]]]] _]. unfold content_of. rewrite (D n e Hp Hph).
    unfold clean_of. rewrite (clean_build_out cmd g Htopo _ _ e n He Hp), Hph. reflexivity.
  - destruct (build_inv_c01F st T s p HG Hs HT (g_nedges g) (le_n _) e He (ex_intro _ n (conj Rn Hp)) Hph n (p_out g Hwf n e Hp))
      as [m [c [Hd Hc]]].
    unfold content_of. unfold st'. rewrite Hd, Hc. reflexivity.
Qed.

(* the same with the hypothesis as the boolean [taint_safe] *)
Theorem C01F_build_bool_proof st T st' :
  GoodF cmd g st -> taint_safe g st = true -> build cmd g st T = Some st' ->
  forall n, reach g T n -> content_of st' n = clean_of cmd g st' n.
Proof. intros HG Hts. apply (C01F_build st T st' HG (taint_okb_sound true st Hts)). Qed.

(* ================================================================== Part E: the failing invocation *)
(* statement [j] is started by the loop over plan [p] from [st] *)
Definition ran (p : plan) (st : hstate) (j : edge) : bool :=
  want_start p j && negb (phony j) && dirty_now g (build_upto cmd g p j st) j.

Lemma run_edge_trace st e : h_trace (run_edge cmd g st e) = e :: h_trace st.
Proof.
  unfold run_edge, finish_run. cbn [record h_trace].
  destruct (write_outs_spec (ei_restat (g_edge g e)) (cmd e (h_hash st e) (reads g st e)) (outs e) (tick st))
    as [_ [_ [_ [Tr _]]]]. cbn zeta in Tr. rewrite Tr. reflexivity.
Qed.

Lemma build_upto_ran p st k :
  build_upto cmd g p (S k) st =
  if ran p st k then run_edge cmd g (build_upto cmd g p k st) k else build_upto cmd g p k st.
Proof. rewrite build_upto_S. reflexivity. Qed.

Lemma trace_build_upto p st k :
  exists l, h_trace (build_upto cmd g p k st) = l ++ h_trace st /\
            forall e, In e l <-> ((e < k)%nat /\ ran p st e = true).
Proof.
  induction k as [|k [l [Hl Hin]]].
  - exists []. split; [reflexivity|]. intros e. split; [intros []|intros [H _]; lia].
  - rewrite build_upto_ran. destruct (ran p st k) eqn:Hr.
    + exists (k :: l). split; [rewrite run_edge_trace, Hl; reflexivity|].
      intros e. split.
      * intros [<-|He]; [split; [lia|exact Hr]|]. apply Hin in He. split; [lia|apply He].
      * intros [Hlt He]. destruct (Nat.eq_dec e k) as [->|Hne]; [left; reflexivity|].
        right. apply Hin. split; [lia|exact He].
    + exists l. split; [exact Hl|]. intros e. split.
      * intros He. apply Hin in He. split; [lia|apply He].
      * intros [Hlt He]. apply Hin. split; [|exact He].
        destruct (Nat.eq_dec e k) as [->|Hne]; [congruence|lia].
Qed.

Lemma trace_delta_app st st' l : h_trace st' = l ++ h_trace st -> trace_delta st st' = l.
Proof.
  intros H. unfold trace_delta. rewrite H, app_length.
  replace (length l + length (h_trace st) - length (h_trace st))%nat with (length l) by lia.
  rewrite firstn_app, firstn_all, Nat.sub_diag. cbn [firstn]. apply app_nil_r.
Qed.

Lemma build_uptoF_S fs p k st :
  build_uptoF cmd g fs p (S k) st = build_stepF cmd g fs p (build_uptoF cmd g fs p k st) k.
Proof. unfold build_uptoF. rewrite seq_S, fold_left_app. reflexivity. Qed.

(* the loop with faults: either no statement that is started has a fault and the loop is the one of
   [build]; or the first such statement [e] is started in the state [build] reaches before it,
   fails, and nothing else happens *)
Lemma build_uptoF_shape fs p st k :
  (build_uptoF cmd g fs p k st = (build_upto cmd g p k st, None) /\
   forall j, (j < k)%nat -> ran p st j = true -> fault_of fs j = None) \/
  exists e kd, (e < k)%nat /\
    build_uptoF cmd g fs p k st =
      (fail_edge g (build_upto cmd g p e st) e kd, Some (e, kd, build_upto cmd g p e st)) /\
    fault_of fs e = Some kd /\ ran p st e = true /\
    forall j, (j < e)%nat -> ran p st j = true -> fault_of fs j = None.
Proof.
  induction k as [|k IH].
  - left. split; [reflexivity|]. intros j Hj. lia.
  - rewrite build_uptoF_S. destruct IH as [[Hacc Hno]|[e [kd [He [Hacc R]]]]].
    + rewrite Hacc. unfold build_stepF. fold (ran p st k). rewrite build_upto_ran.
      destruct (ran p st k) eqn:Hr.
      * destruct (fault_of fs k) as [kd|] eqn:Hf.
        -- right. exists k, kd. split; [lia|]. split; [reflexivity|]. split; [exact Hf|]. split; [exact Hr|exact Hno].
        -- left. split; [reflexivity|]. intros j Hj Hrj.
           destruct (Nat.eq_dec j k) as [->|Hne]; [exact Hf|apply Hno; [lia|exact Hrj]].
      * left. split; [reflexivity|]. intros j Hj Hrj.
        destruct (Nat.eq_dec j k) as [->|Hne]; [congruence|apply Hno; [lia|exact Hrj]].
    + right. exists e, kd. split; [lia|]. rewrite Hacc. split; [reflexivity|exact R].
Qed.

Lemma buildF_full_inv st T fs st' r :
  buildF_full cmd g st T fs = Some (st', r) ->
  exists s p, scan (G st) (W st) T = ScanOk s p /\
    match r with
    | None =>
      st' = build_upto cmd g p (g_nedges g) st /\
      forall j, (j < g_nedges g)%nat -> ran p st j = true -> fault_of fs j = None
    | Some (e, kd, stk) =>
      (e < g_nedges g)%nat /\ stk = build_upto cmd g p e st /\ st' = fail_edge g stk e kd /\
      fault_of fs e = Some kd /\ ran p st e = true /\
      forall j, (j < e)%nat -> ran p st j = true -> fault_of fs j = None
    end.
Proof.
  unfold buildF_full. intros H.
  destruct (scan (G st) (W st) T) as [c|m d|e0| |s p] eqn:Hs; try discriminate.
  exists s, p. split; [reflexivity|]. inversion H as [H1]. clear H.
  destruct (build_uptoF_shape fs p st (g_nedges g)) as [[Hacc Hno]|[e [kd [He [Hacc R]]]]];
    rewrite Hacc in H1; inversion H1; subst.
  - split; [reflexivity|exact Hno].
  - split; [exact He|]. split; [reflexivity|]. split; [reflexivity|exact R].
Qed.

Lemma buildF_of_full st T fs st' failed :
  buildF cmd g st T fs = Some (st', failed) ->
  exists r, buildF_full cmd g st T fs = Some (st', r) /\ failed = is_some r.
Proof.
  unfold buildF. destruct (buildF_full cmd g st T fs) as [[st1 r]|]; [|discriminate].
  intros H. inversion H; subst. exists r. split; reflexivity.
Qed.

(* without faults the invocation is [build] *)
Theorem buildF_nofault st T :
  buildF cmd g st T [] = match build cmd g st T with Some st' => Some (st', false) | None => None end.
Proof.
  unfold buildF, buildF_full, build.
  destruct (scan (G st) (W st) T) as [c|m d|e0| |s p]; try reflexivity.
  destruct (build_uptoF_shape [] p st (g_nedges g)) as [[Hacc _]|[e [kd [_ [_ [Hf _]]]]]]; [|discriminate].
  rewrite Hacc. reflexivity.
Qed.

(* what the successful prefix touches: outputs of statements that were run *)
Lemma touched_build_upto p st k : GoodF cmd g st -> (k <= g_nedges g)%nat ->
  forall n, (h_disk (build_upto cmd g p k st) n = h_disk st n /\
             h_blog (build_upto cmd g p k st) n = h_blog st n /\
             h_ghost (build_upto cmd g p k st) n = h_ghost st n) \/
            exists j, g_producer g n = Some j /\ (j < k)%nat /\ ran p st j = true.
Proof.
  intros HG. induction k as [|k IH]; intros Hk n; [left; repeat split; reflexivity|].
  rewrite build_upto_ran. destruct (ran p st k) eqn:Hr.
  - pose proof (goodF_build_upto p st k HG ltac:(lia)) as [[A [B _]] _].
    destruct (run_edge_spec cmd g (build_upto cmd g p k st) k A B) as [_ [_ [Hout _]]]. cbn zeta in Hout.
    destruct (in_dec Nat.eq_dec n (outs k)) as [Hin|Hnin].
    + right. exists k. split; [apply (o_prod g Hwf); exact Hin|]. split; [lia|exact Hr].
    + destruct (Hout n Hnin) as [E1 [E2 E3]]. rewrite E1, E2, E3.
      destruct (IH ltac:(lia) n) as [Hs|[j [Hj [Hlt Hrj]]]]; [left; exact Hs|].
      right. exists j. split; [exact Hj|]. split; [lia|exact Hrj].
  - destruct (IH ltac:(lia) n) as [Hs|[j [Hj [Hlt Hrj]]]]; [left; exact Hs|].
    right. exists j. split; [exact Hj|]. split; [lia|exact Hrj].
Qed.

(* the picture of a failed invocation all C05 clauses are read off from *)
Lemma failed_invocation st T fs st1 e kd stk :
  GoodF cmd g st -> buildF_full cmd g st T fs = Some (st1, Some (e, kd, stk)) ->
  exists s p l,
    scan (G st) (W st) T = ScanOk s p /\ (e < g_nedges g)%nat /\
    stk = build_upto cmd g p e st /\ st1 = fail_edge g stk e kd /\ GoodF cmd g stk /\
    fault_of fs e = Some kd /\ want_start p e = true /\ phony e = false /\ dirty_now g stk e = true /\
    h_trace stk = l ++ h_trace st /\ trace_delta st st1 = e :: l /\
    (forall j, In j l <-> ((j < e)%nat /\ ran p st j = true)) /\
    (forall j, In j l -> fault_of fs j = None).
Proof.
  intros HG H. destruct (buildF_full_inv st T fs st1 _ H) as [s [p [Hs [He [Hstk [Hst1 [Hf [Hr Hno]]]]]]]].
  destruct (trace_build_upto p st e) as [l [Hl Hin]].
  exists s, p, l. split; [exact Hs|]. split; [exact He|]. split; [exact Hstk|]. split; [exact Hst1|].
  assert (HGk : GoodF cmd g stk) by (rewrite Hstk; apply goodF_build_upto; [exact HG|lia]).
  split; [exact HGk|]. split; [exact Hf|].
  unfold ran in Hr. apply andb_true_iff in Hr. destruct Hr as [Hr Hdn]. apply andb_true_iff in Hr.
  destruct Hr as [Hw Hph]. apply negb_true_iff in Hph. rewrite <- Hstk in Hdn.
  split; [exact Hw|]. split; [exact Hph|]. split; [exact Hdn|].
  split; [rewrite Hstk; exact Hl|]. split; [|split; [exact Hin|]].
  - apply trace_delta_app. pose proof HGk as [[A [B _]] _].
    destruct (fail_edge_spec stk e kd A B) as [_ [_ [Htr _]]]. cbn zeta in Htr.
    rewrite Hst1, Htr, Hstk, Hl. reflexivity.
  - intros j Hj. apply Hin in Hj. apply Hno; apply Hj.
Qed.

(* C05 (b): the exit flag is "failed" exactly when a command with a fault was started; that command
   is the LAST one started (nothing is started after it); without one the invocation is [build] *)
Theorem C05_exit_failed_proof st T fs st' failed :
  GoodF cmd g st -> buildF cmd g st T fs = Some (st', failed) ->
  (failed = false ->
     build cmd g st T = Some st' /\ forall e, In e (trace_delta st st') -> fault_of fs e = None) /\
  (failed = true ->
     exists e kd rest, trace_delta st st' = e :: rest /\ fault_of fs e = Some kd /\
                       forall e', In e' rest -> fault_of fs e' = None).
Proof.
  intros HG H. destruct (buildF_of_full st T fs st' failed H) as [r [Hfull ->]].
  destruct r as [[[e kd] stk]|]; cbn [is_some]; (split; [intros Hx|intros Hx]; try discriminate).
  - destruct (failed_invocation st T fs st' e kd stk HG Hfull)
      as [s [p [l [_ [_ [_ [_ [_ [Hf [_ [_ [_ [_ [Hd [_ Hno]]]]]]]]]]]]]]].
    exists e, kd, l. split; [exact Hd|]. split; [exact Hf|exact Hno].
  - destruct (buildF_full_inv st T fs st' None Hfull) as [s [p [Hs [Hst' Hno]]]].
    split; [unfold build; rewrite Hs, Hst'; reflexivity|].
    destruct (trace_build_upto p st (g_nedges g)) as [l [Hl Hin]].
    rewrite (trace_delta_app st st' l) by (rewrite Hst'; exact Hl).
    intros e He. apply Hin in He. apply Hno; apply He.
Qed.

(* C05 (c): the failed command [e] -- the last one started -- leaves the build log as it found it:
   the entries of its outputs are the ones from BEFORE the invocation (an old entry of an earlier
   successful run stays, no new one), and the only entries that changed in this invocation belong
   to outputs of commands that succeeded in it *)
Theorem C05_failed_not_recorded_proof st T fs st' :
  GoodF cmd g st -> buildF cmd g st T fs = Some (st', true) ->
  exists e rest, trace_delta st st' = e :: rest /\ fault_of fs e <> None /\
    (forall o, In o (outs e) -> h_blog st' o = h_blog st o) /\
    (forall n, h_blog st' n = h_blog st n \/
               exists j, g_producer g n = Some j /\ In j rest /\ fault_of fs j = None).
Proof.
  intros HG H. destruct (buildF_of_full st T fs st' true H) as [r [Hfull Hr]].
  destruct r as [[[e kd] stk]|]; [|discriminate].
  destruct (failed_invocation st T fs st' e kd stk HG Hfull)
    as [s [p [l [_ [He [Hstk [Hst1 [HGk [Hf [_ [_ [_ [_ [Hd [Hin Hno]]]]]]]]]]]]]]].
  exists e, l. split; [exact Hd|]. split; [rewrite Hf; discriminate|].
  pose proof HGk as [[A [B _]] _].
  destruct (fail_edge_spec stk e kd A B) as [Hb _]. cbn zeta in Hb. rewrite <- Hst1 in Hb.
  assert (Hall : forall n, h_blog st' n = h_blog st n \/
                           exists j, g_producer g n = Some j /\ In j l /\ fault_of fs j = None).
  { intros n. rewrite Hb, Hstk.
    destruct (touched_build_upto p st e HG ltac:(lia) n) as [[_ [E _]]|[j [Hj [Hlt Hrj]]]]; [left; exact E|].
    right. exists j. split; [exact Hj|].
    assert (Hjl : In j l) by (apply Hin; split; assumption). split; [exact Hjl|apply Hno; exact Hjl]. }
  split; [|exact Hall].
  intros o Ho. destruct (Hall o) as [E|[j [Hj [Hjl _]]]]; [exact E|].
  rewrite (o_prod g Hwf e o Ho) in Hj. inversion Hj; subst j. apply Hin in Hjl. lia.
Qed.

Lemma dep_lt e d : depends_on g e d -> (d < g_nedges g)%nat -> (e < d)%nat.
Proof.
  intros H. induction H as [d i Hi Hp|d i e' Hi Hp Hdep IH]; intros Hd.
  - pose proof (in_below g Htopo d i Hd Hi) as Hb. unfold below in Hb. rewrite Hp in Hb. exact Hb.
  - pose proof (in_below g Htopo d i Hd Hi) as Hb. unfold below in Hb. rewrite Hp in Hb.
    specialize (IH ltac:(lia)). lia.
Qed.

(* C05 (a): no statement that depends on an output of the failed command [e] -- transitively,
   through inputs of every kind -- is started in that invocation, and its outputs and their log
   entries are exactly as before the invocation *)
Theorem C05_dependents_not_started_proof st T fs st' :
  GoodF cmd g st -> buildF cmd g st T fs = Some (st', true) ->
  exists e rest, trace_delta st st' = e :: rest /\
    forall d, depends_on g e d ->
      ~ In d (trace_delta st st') /\
      forall o, In o (outs d) -> h_disk st' o = h_disk st o /\ h_blog st' o = h_blog st o.
Proof.
  intros HG H. destruct (buildF_of_full st T fs st' true H) as [r [Hfull Hr]].
  destruct r as [[[e kd] stk]|]; [|discriminate].
  destruct (failed_invocation st T fs st' e kd stk HG Hfull)
    as [s [p [l [_ [He [Hstk [Hst1 [HGk [Hf [_ [_ [_ [_ [Hd [Hin Hno]]]]]]]]]]]]]]].
  exists e, l. split; [exact Hd|]. intros d Hdep. split.
  - rewrite Hd. intros [<-|Hdl].
    + pose proof (dep_lt e e Hdep He). lia.
    + apply Hin in Hdl. destruct Hdl as [Hlt _]. pose proof (dep_lt e d Hdep ltac:(lia)). lia.
  - intros o Ho. pose proof (out_lt d o Ho) as Hdn. pose proof (dep_lt e d Hdep Hdn) as Hed.
    pose proof HGk as [[A [B _]] _].
    destruct (fail_edge_spec stk e kd A B) as [Hb [_ [_ [_ [_ [Hout _]]]]]]. cbn zeta in Hb, Hout.
    rewrite <- Hst1 in Hb, Hout.
    assert (Hnin : ~ In o (outs e)).
    { intros Hi. pose proof (o_prod g Hwf e o Hi) as H1. rewrite (o_prod g Hwf d o Ho) in H1. inversion H1. lia. }
    rewrite (proj1 (Hout o Hnin)), Hb, Hstk.
    destruct (touched_build_upto p st e HG ltac:(lia) o) as [[E1 [E2 _]]|[j [Hj [Hlt _]]]]; [split; assumption|].
    rewrite (o_prod g Hwf d o Ho) in Hj. inversion Hj; subst j. lia.
Qed.

(* ================================================================== Part F: the next invocation *)
(* [dirty_now] is ScanDefs' flag, i.e. [must_dirty], whenever its scan of the outputs is accepted
   (its other branch answers "dirty" defensively) *)
Lemma dirty_now_md st e : dirty_now g st e = true ->
  (exists s p, scan (G st) (W st) (outs e) = ScanOk s p) ->
  exists o, In o (outs e) /\ must_dirty (G st) (W st) o.
Proof.
  unfold dirty_now. intros H [s [p Hs]]. rewrite Hs in H. apply existsb_exists in H.
  destruct H as [o [Ho Hd]]. exists o. split; [exact Ho|].
  assert (Hr : reach (G st) (outs e) o) by (apply reach_target; exact Ho).
  destruct (scan_reach_ok (G st) (W st) Hwf Hwg Hfrag (outs e) s p Hs o Hr) as [Hok _].
  apply Hok. exact Hd.
Qed.

Lemma build_upto_idle_prefix p st k :
  (forall j, (j < k)%nat -> want_start p j = false) -> build_upto cmd g p k st = st.
Proof.
  induction k as [|k IH]; intros H; [reflexivity|].
  rewrite build_upto_S, IH by (intros j Hj; apply H; lia). unfold build_step. rewrite (H k) by lia. reflexivity.
Qed.

(* the statement is run by the next invocation as soon as it is needed and still must_dirty when the
   invocation starts and when its turn comes *)
Lemma rerun_core st1 T st2 e :
  GoodF cmd g st1 -> needed g T e -> (e < g_nedges g)%nat -> phony e = false ->
  (forall s1 p1, scan (G st1) (W st1) T = ScanOk s1 p1 ->
     (exists o, In o (outs e) /\ must_dirty (G st1) (W st1) o) /\
     (exists o, In o (outs e) /\ must_dirty (G st1) (W (build_upto cmd g p1 e st1)) o)) ->
  build cmd g st1 T = Some st2 -> In e (trace_delta st1 st2).
Proof.
  intros HG Hn He Hph Hmd H. unfold build in H.
  destruct (scan (G st1) (W st1) T) as [c|m d|e0| |s1 p1] eqn:Hs; try discriminate. inversion H; subst st2.
  destruct (trace_build_upto p1 st1 (g_nedges g)) as [l [Hl Hin]].
  rewrite (trace_delta_app st1 _ l Hl). apply Hin. split; [exact He|].
  destruct (Hmd s1 p1 eq_refl) as [Hmd1 [o [Ho Hmd2]]].
  unfold ran. rewrite Hph. cbn [negb]. rewrite andb_true_r.
  destruct (want_complete g Hwf Hwg Hfrag st1 T s1 p1 Hs e Hn Hmd1) as [Hw _]; [intros [Hp _]; congruence|].
  rewrite Hw. cbn [andb].
  destruct (dirty_now g (build_upto cmd g p1 e st1) e) eqn:Hdn; [reflexivity|exfalso].
  apply (dirty_now_spec g Hwf Hwg Hfrag _ e Hdn o Ho).
  destruct (build_inv1F st1 p1 HG e ltac:(lia)) as [_ [Hh _]].
  rewrite (G_hash_eq g st1 _ Hh). exact Hmd2.
Qed.

(* C05 "so the next invocation runs it again".  [st] satisfies the invariant; an invocation fails
   at statement [e] (started in [stk], fault [kd]); nothing else changes; ninja is run again for
   the same targets and gets past its scan: then [e] is among the commands it starts, PROVIDED
   [rerun_reason]: nothing for FailDeleted; for FailUntouched that the statement was dirty
   (specification of the flags) -- here the state has to be Good and the graph without input-less
   phony statements (the statements before [e] must not run again); for FailWrote that the LOG gives
   a reason (no entry / other hash / entry older than an input).  Without [rerun_reason] the
   statement is false: [C05_next_invocation_reruns_refuted]. *)
Theorem C05_next_invocation_reruns_proof st T fs st1 e kd stk st2 :
  GoodF cmd g st ->
  buildF_full cmd g st T fs = Some (st1, Some (e, kd, stk)) ->
  rerun_reason g stk e kd ->
  (kd = FailUntouched -> Good cmd g st /\ no_inputless_phony g = true) ->
  build cmd g st1 T = Some st2 ->
  In e (trace_delta st1 st2).
Proof.
  intros HG Hfull Hreason Hunt Hb.
  destruct (failed_invocation st T fs st1 e kd stk HG Hfull)
    as [s [p [l [Hs [He [Hstk [Hst1 [HGk [Hf [Hw [Hph [Hdn _]]]]]]]]]]]].
  destruct (want_sound g Hwf Hwg Hfrag st T s p Hs e Hw) as [Hn [o0 [Ho0 _]]].
  pose proof (goodF_fail stk e kd HGk Hph) as HG1. rewrite <- Hst1 in HG1.
  pose proof HGk as [[A [B _]] _].
  destruct (fail_edge_spec stk e kd A B) as [Hb1 [Hh1 [_ [_ [_ [_ [Hchg1 [_ Hkind]]]]]]]]. cbn zeta in *.
  rewrite <- Hst1 in Hb1, Hh1, Hchg1, Hkind.
  apply (rerun_core st1 T st2 e HG1 Hn He Hph); [|exact Hb].
  intros s1 p1 Hs1.
  destruct (build_inv1F st1 p1 HG1 e ltac:(lia)) as [HGk' [Hh' [Hf' [_ Hch']]]].
  set (stk' := build_upto cmd g p1 e st1) in *.
  destruct kd as [| |f].
  - (* FailUntouched: the world is the one the command was started in, and nothing before [e] runs *)
    destruct (Hunt eq_refl) as [HGood Hnip]. destruct Hreason as [o [Ho Hmd]].
    assert (HW : W st1 = W stk /\ G st1 = G stk) by (rewrite Hst1; split; reflexivity).
    destruct HW as [HW HGr].
    assert (Hidle : stk' = st1).
    { apply build_upto_idle_prefix. intros j Hj. destruct (want_start p1 j) eqn:Hwj; [exfalso|reflexivity].
      destruct (want_sound g Hwf Hwg Hfrag st1 T s1 p1 Hs1 j Hwj) as [Hnj [o' [Ho' Hmd']]].
      rewrite HW, HGr, Hstk in Hmd'.
      destruct (build_inv1 cmd g Hwf Htopo st p HGood e ltac:(lia)) as [_ [Hh0 _]].
      rewrite (G_hash_eq g st _ Hh0) in Hmd'.
      apply (build_inv_c02 cmd g Hwf Hwg Hfrag Htopo st T s p HGood Hs e Hnip ltac:(lia) j Hj Hnj o' Ho' Hmd'). }
    rewrite Hidle. split; exists o; (split; [exact Ho|]); rewrite HW, HGr; exact Hmd.
  - (* FailDeleted: the outputs are missing *)
    destruct Hkind as [K1 _].
    split; exists o0; (split; [exact Ho0|]).
    + apply (md_base g Hwf st1 e o0 Ho0 Hph). left. cbn [world_of w_mtime]. unfold mtime_of.
      rewrite (K1 o0 Ho0). reflexivity.
    + rewrite <- (G_hash_eq g st1 stk' Hh'). apply (md_base g Hwf stk' e o0 Ho0 Hph). left.
      cbn [world_of w_mtime]. unfold mtime_of.
      rewrite (proj1 (frame_later g st1 p1 e stk' o0 e Hf' (o_prod g Hwf e o0 Ho0) (le_n e))), (K1 o0 Ho0).
      reflexivity.
  - (* FailWrote: the log entry is stale, and stays so *)
    destruct Hreason as [o [Ho Hst]].
    assert (Hst1' : StaleEntry g true st1 e o).
    { apply (stale_mono true stk st1 e o (proj1 HGk) Hchg1); [rewrite Hb1; reflexivity| |exact Hst].
      intros _. rewrite Hh1. reflexivity. }
    split; exists o; (split; [exact Ho|]).
    + apply (stale_md st1 e o (proj1 HG1) Hph Ho Hst1').
    + rewrite <- (G_hash_eq g st1 stk' Hh'). apply (stale_md stk' e o (proj1 HGk') Hph Ho).
      apply (stale_mono true st1 stk' e o (proj1 HG1) (chg0_chg st1 stk' Hch')); [| |exact Hst1'].
      * apply (proj2 (frame_later g st1 p1 e stk' o e Hf' (o_prod g Hwf e o Ho) (le_n e))).
      * intros _. rewrite Hh'. reflexivity.
Qed.

(* the next invocation IS accepted (input-less phony statements excluded): the sources are the same
   and nothing that was clean became dirty, so [scan_accepts_mono] applies *)
Theorem next_invocation_accepted_proof st T fs st1 e kd stk :
  GoodF cmd g st -> no_inputless_phony g = true ->
  buildF_full cmd g st T fs = Some (st1, Some (e, kd, stk)) ->
  exists st2, build cmd g st1 T = Some st2.
Proof.
  intros HG Hnip Hfull.
  destruct (failed_invocation st T fs st1 e kd stk HG Hfull)
    as [s [p [l [Hs [He [Hstk [Hst1 [HGk [Hf [Hw [Hph [Hdn _]]]]]]]]]]]].
  destruct (want_sound g Hwf Hwg Hfrag st T s p Hs e Hw) as [_ [o0 [Ho0 Hmd0]]].
  destruct (build_inv1F st p HG e ltac:(lia)) as [_ [Hh [Hfr _]]]. rewrite <- Hstk in Hh, Hfr.
  pose proof HGk as [[A [B _]] _].
  destruct (fail_edge_spec stk e kd A B) as [Hb1 [Hh1 [_ [_ [_ [Hout1 _]]]]]]. cbn zeta in *.
  rewrite <- Hst1 in Hb1, Hh1, Hout1.
  assert (HGr : G st1 = G st) by (apply G_hash_eq; congruence).
  assert (Hagree : agree_clean g st (W st) (W st1)).
  { intros n Hc. destruct (frame_clean g Hwf Hwg Hfrag st T s p Hs e stk Hfr n Hc) as [E1 E2].
    cbn [world_of w_mtime w_blog] in *. rewrite Hb1. split; [|exact E2]. rewrite <- E1. unfold mtime_of.
    destruct (in_dec Nat.eq_dec n (outs e)) as [Hin|Hnin]; [|rewrite (proj1 (Hout1 n Hnin)); reflexivity].
    exfalso. apply Hc.
    apply (must_dirty_same_prod (G st) (W st) o0 n e (o_prod g Hwf e o0 Ho0) (o_prod g Hwf e n Hin) Hmd0). }
  destruct (scan_accepts_mono (G st) Hwf Hwg Hfrag Htopo Hnip T T (W st) (W st1) s p Hs (fun e0 H0 => H0) (fun t H0 _ => H0))
    as [s' [p' Hs']].
  - intros n Hc Hmd. apply (clean_stable g Hwf Hwg Hfrag st (W st) (W st1) Hagree n Hmd Hc).
  - intros n Hp. change (g_producer g n = None) in Hp. cbn [world_of w_mtime]. unfold mtime_of.
    assert (Hnin : ~ In n (outs e)) by (intros Hin; rewrite (o_prod g Hwf e n Hin) in Hp; discriminate).
    rewrite (proj1 (Hout1 n Hnin)), (frame_leaf g st p e stk n Hfr Hp). reflexivity.
  - unfold build. rewrite HGr, Hs'. eexists. reflexivity.
Qed.

(* ... so, all premises being about the failing invocation: the next invocation gets to its build
   phase and starts the failed command again *)
Theorem C05_next_invocation_accepted_and_reruns_proof st T fs st1 e kd stk :
  GoodF cmd g st -> no_inputless_phony g = true ->
  buildF_full cmd g st T fs = Some (st1, Some (e, kd, stk)) ->
  rerun_reason g stk e kd ->
  (kd = FailUntouched -> Good cmd g st) ->
  exists st2, build cmd g st1 T = Some st2 /\ In e (trace_delta st1 st2).
Proof.
  intros HG Hnip Hfull Hreason Hunt.
  destruct (next_invocation_accepted_proof st T fs st1 e kd stk HG Hnip Hfull) as [st2 Hb].
  exists st2. split; [exact Hb|].
  apply (C05_next_invocation_reruns_proof st T fs st1 e kd stk st2 HG Hfull Hreason); [|exact Hb].
  intros Hk. split; [apply Hunt; exact Hk|exact Hnip].
Qed.

(* whatever faults the next invocation has: it cannot exit successfully without having started the
   failed command again *)
Theorem C05_no_success_without_rerun_proof st T fs st1 e kd stk fs' st2 :
  GoodF cmd g st ->
  buildF_full cmd g st T fs = Some (st1, Some (e, kd, stk)) ->
  rerun_reason g stk e kd ->
  (kd = FailUntouched -> Good cmd g st /\ no_inputless_phony g = true) ->
  buildF cmd g st1 T fs' = Some (st2, false) ->
  In e (trace_delta st1 st2).
Proof.
  intros HG Hfull Hreason Hunt Hb.
  destruct (failed_invocation st T fs st1 e kd stk HG Hfull)
    as [s [p [l [_ [_ [_ [Hst1 [HGk [_ [_ [Hph _]]]]]]]]]]].
  assert (HG1 : GoodF cmd g st1) by (rewrite Hst1; apply goodF_fail; assumption).
  destruct (C05_exit_failed_proof st1 T fs' st2 false HG1 Hb) as [Hsucc _].
  destruct (Hsucc eq_refl) as [Hb' _].
  apply (C05_next_invocation_reruns_proof st T fs st1 e kd stk st2 HG Hfull Hreason Hunt Hb').
Qed.

(* what the outputs of a needed statement need, the targets need *)
Lemma needed_outs st T e e' : needed g T e -> neededE (G st) (outs e) e' -> neededE (G st) T e'.
Proof.
  intros [n0 [R0 P0]] [n [Rn Pn]]. apply (needed_G g T st). change (g_producer g n = Some e') in Pn.
  apply (reach_G g st) in Rn.
  assert (Hall : forall z, reach g (outs e) z -> In z (outs e) \/ reach g T z).
  { intros z Rz. induction Rz as [t Ht|x y Hx IH [ex [Hex Hin]]]; [left; exact Ht|]. right.
    destruct IH as [Hxo|Hxr].
    - rewrite (o_prod g Hwf e x Hxo) in Hex. inversion Hex; subst ex.
      apply (reach_step g (manifest_ins g) T n0 y R0). exists e. split; assumption.
    - apply (reach_step g (manifest_ins g) T x y Hxr). exists ex. split; assumption. }
  destruct (Hall n Rn) as [Ho|Hr].
  - rewrite (o_prod g Hwf e n Ho) in Pn. inversion Pn; subst e'. exists n0. split; assumption.
  - exists n. split; assumption.
Qed.

(* FailUntouched needs no premise: the re-evaluation scan of [dirty_now] is accepted, so the failed
   statement was must_dirty when it was started *)
Theorem rerun_reason_untouched_proof st T fs st1 e stk :
  GoodF cmd g st -> no_inputless_phony g = true ->
  buildF_full cmd g st T fs = Some (st1, Some (e, FailUntouched, stk)) ->
  rerun_reason g stk e FailUntouched.
Proof.
  intros HG Hnip Hfull.
  destruct (failed_invocation st T fs st1 e FailUntouched stk HG Hfull)
    as [s [p [l [Hs [He [Hstk [_ [HGk [_ [Hw [Hph [Hdn _]]]]]]]]]]]].
  destruct (want_sound g Hwf Hwg Hfrag st T s p Hs e Hw) as [Hn _].
  destruct (build_inv1F st p HG e ltac:(lia)) as [_ [Hh [Hfr _]]]. rewrite <- Hstk in Hh, Hfr.
  assert (HGr : G stk = G st) by (apply G_hash_eq; exact Hh).
  apply (dirty_now_md stk e Hdn). rewrite HGr.
  apply (scan_accepts_mono (G st) Hwf Hwg Hfrag Htopo Hnip (outs e) T (W st) (W stk) s p Hs).
  - intros e' He'. apply (needed_outs st T e e' Hn He').
  - intros t Ht Hp. change (g_producer g t = None) in Hp. rewrite (o_prod g Hwf e t Ht) in Hp. discriminate.
  - intros n Hc Hmd.
    apply (clean_stable g Hwf Hwg Hfrag st (W st) (W stk) (frame_clean g Hwf Hwg Hfrag st T s p Hs e stk Hfr) n Hmd Hc).
  - intros n Hp. change (g_producer g n = None) in Hp. cbn [world_of w_mtime]. unfold mtime_of.
    rewrite (frame_leaf g st p e stk n Hfr Hp). reflexivity.
Qed.

(* C05 "so the next invocation runs it again" for the faults that leave no new file behind: no
   premise beyond the failing invocation itself *)
Theorem C05_reruns_untouched_or_deleted_proof st T fs st1 e kd stk :
  Good cmd g st -> no_inputless_phony g = true ->
  buildF_full cmd g st T fs = Some (st1, Some (e, kd, stk)) ->
  kd = FailUntouched \/ kd = FailDeleted ->
  exists st2, build cmd g st1 T = Some st2 /\ In e (trace_delta st1 st2).
Proof.
  intros HGood Hnip Hfull Hkd. pose proof (goodF_of_good st HGood) as HG.
  apply (C05_next_invocation_accepted_and_reruns_proof st T fs st1 e kd stk HG Hnip Hfull); [|intros _; exact HGood].
  destruct Hkd as [->| ->]; [|exact I].
  apply (rerun_reason_untouched_proof st T fs st1 e stk HG Hnip Hfull).
Qed.

(* the premise for FailUntouched from the model's own test, when its scan is accepted *)
Theorem rerun_reason_untouched_of_accepted st T fs st1 e stk :
  GoodF cmd g st -> buildF_full cmd g st T fs = Some (st1, Some (e, FailUntouched, stk)) ->
  (exists s p, scan (G stk) (W stk) (outs e) = ScanOk s p) ->
  rerun_reason g stk e FailUntouched.
Proof.
  intros HG Hfull Hacc.
  destruct (failed_invocation st T fs st1 e FailUntouched stk HG Hfull)
    as [s [p [l [_ [_ [_ [_ [_ [_ [_ [_ [Hdn _]]]]]]]]]]]].
  apply (dirty_now_md stk e Hdn Hacc).
Qed.

(* ================================================================== Part G: histories with failures *)
Theorem goodF_init_proof : GoodF cmd g (init_hstate g).
Proof. apply goodF_of_good. apply good_init. Qed.

Theorem goodF_buildF_proof st T fs st' failed :
  GoodF cmd g st -> buildF cmd g st T fs = Some (st', failed) -> GoodF cmd g st'.
Proof.
  intros HG H. destruct (buildF_of_full st T fs st' failed H) as [r [Hfull _]].
  destruct r as [[[e kd] stk]|].
  - destruct (failed_invocation st T fs st' e kd stk HG Hfull)
      as [s [p [l [_ [_ [_ [Hst1 [HGk [_ [_ [Hph _]]]]]]]]]]].
    rewrite Hst1. apply goodF_fail; assumption.
  - destruct (buildF_full_inv st T fs st' None Hfull) as [s [p [_ [Hst' _]]]].
    rewrite Hst'. apply goodF_build_upto; [exact HG|apply le_n].
Qed.

Theorem goodF_step_proof st s :
  GoodF cmd g st -> fstep_ok g s = true -> GoodF cmd g (apply_fstep cmd g st s).
Proof.
  intros HG Hok. destruct s as [[n c|n|e h|T]|T fs]; cbn [apply_fstep apply_step fstep_ok step_ok] in *.
  - apply goodF_edit; assumption.
  - apply goodF_delete; exact HG.
  - apply goodF_setcmd; exact HG.
  - destruct (build cmd g st T) as [st'|] eqn:Hb; [|exact HG]. apply (goodF_build st T st' HG Hb).
  - destruct (buildF cmd g st T fs) as [[st' fl]|] eqn:Hb; [|exact HG].
    apply (goodF_buildF_proof st T fs st' fl HG Hb).
Qed.

(* the invariant of ALL histories: source edits, deletions, command-line changes, successful and
   failing invocations with arbitrary faults *)
Theorem goodF_hist_proof : forall h st,
  GoodF cmd g st -> fhist_ok g h = true -> GoodF cmd g (run_fhist cmd g st h).
Proof.
  induction h as [|x h IH]; intros st HG Hok; [exact HG|].
  cbn [fhist_ok forallb] in Hok. apply andb_true_iff in Hok. destruct Hok as [Hx Hh].
  change (run_fhist cmd g st (x :: h)) with (run_fhist cmd g (apply_fstep cmd g st x) h).
  apply IH; [apply goodF_step_proof; assumption|exact Hh].
Qed.

(* C01 after any history with failures, under the boolean hypothesis on the state ninja is started in *)
Theorem C01F_history_proof h T st' :
  fhist_ok g h = true ->
  taint_safe g (run_fhist cmd g (init_hstate g) h) = true ->
  build cmd g (run_fhist cmd g (init_hstate g) h) T = Some st' ->
  forall n, reach g T n -> content_of st' n = clean_of cmd g st' n.
Proof.
  intros Hok Hts Hb.
  apply (C01F_build _ T st' (goodF_hist_proof h _ goodF_init_proof Hok) (taint_okb_sound true _ Hts) Hb).
Qed.

(* ---- benign failures keep the robust form of the hypothesis *)
Definition InvF (st : hstate) : Prop := GoodF cmd g st /\ TaintOk g false st.

Lemma invF_init : InvF (init_hstate g).
Proof. split; [apply goodF_init_proof|]. intros e o _ _ Ht. cbn in Ht. discriminate. Qed.

Lemma invF_step st s :
  InvF st -> fstep_ok g s = true -> benign_step cmd g st s = true -> InvF (apply_fstep cmd g st s).
Proof.
  intros [HG HT] Hok Hben. split; [apply goodF_step_proof; assumption|].
  destruct s as [[n c|n|e h|T]|T fs]; cbn [apply_fstep apply_step fstep_ok step_ok] in *.
  - apply taintok_edit; [exact (proj1 HG)|exact HT|exact Hok].
  - apply taintok_delete; [exact (proj1 HG)|exact HT].
  - apply taintok_setcmd; exact HT.
  - unfold build. destruct (scan (G st) (W st) T) as [c|m d|e0| |s p]; try exact HT.
    apply (taintok_build_upto st p HG false (g_nedges g) HT (le_n _)).
  - unfold buildF. cbn [benign_step] in Hben.
    destruct (buildF_full cmd g st T fs) as [[st' r]|] eqn:Hfull; [|exact HT].
    destruct r as [[[e kd] stk]|].
    + destruct (failed_invocation st T fs st' e kd stk HG Hfull)
        as [s [p [l [_ [He [Hstk [Hst1 [HGk [_ [_ [Hph _]]]]]]]]]]].
      rewrite Hst1. apply (taintok_fail false stk e kd HGk); [|exact Hph|apply fault_benign_sound; exact Hben].
      rewrite Hstk. apply (taintok_build_upto st p HG false e HT). lia.
    + destruct (buildF_full_inv st T fs st' None Hfull) as [s [p [_ [Hst' _]]]].
      rewrite Hst'. apply (taintok_build_upto st p HG false (g_nedges g) HT (le_n _)).
Qed.

Lemma invF_hist : forall h st,
  InvF st -> fhist_ok g h = true -> fhist_benign cmd g st h = true -> InvF (run_fhist cmd g st h).
Proof.
  induction h as [|x h IH]; intros st HI Hok Hben; [exact HI|].
  cbn [fhist_ok forallb] in Hok. apply andb_true_iff in Hok. destruct Hok as [Hx Hh].
  cbn [fhist_benign] in Hben. apply andb_true_iff in Hben. destruct Hben as [Bx Bh].
  change (run_fhist cmd g st (x :: h)) with (run_fhist cmd g (apply_fstep cmd g st x) h).
  apply IH; [apply invF_step; assumption|exact Hh|exact Bh].
Qed.

(* C01 after histories whose failures are all benign: every fault that fired was FailUntouched,
   FailDeleted, or a FailWrote on a statement whose outputs had no log entry that could validate the
   rewritten files (none at all -- not a generator rule --, or one older than an input).  Then EVERY
   later successful invocation (the history is arbitrary, so this covers every point after it)
   leaves the clean-build contents. *)
Theorem C01_after_failures_untouched_or_deleted_proof h T st' :
  fhist_ok g h = true ->
  fhist_benign cmd g (init_hstate g) h = true ->
  build cmd g (run_fhist cmd g (init_hstate g) h) T = Some st' ->
  forall n, reach g T n -> content_of st' n = clean_of cmd g st' n.
Proof.
  intros Hok Hben Hb. destruct (invF_hist h _ invF_init Hok Hben) as [HG HT].
  apply (C01F_build _ T st' HG (taintok_weaken _ HT) Hb).
Qed.

(* the same for an invocation given as BuildF that exits successfully *)
Theorem C01_after_failures_buildF_proof h T fs st' :
  fhist_ok g h = true ->
  fhist_benign cmd g (init_hstate g) h = true ->
  buildF cmd g (run_fhist cmd g (init_hstate g) h) T fs = Some (st', false) ->
  forall n, reach g T n -> content_of st' n = clean_of cmd g st' n.
Proof.
  intros Hok Hben Hb. destruct (invF_hist h _ invF_init Hok Hben) as [HG HT].
  destruct (C05_exit_failed_proof _ T fs st' false HG Hb) as [Hsucc _].
  destruct (Hsucc eq_refl) as [Hb' _].
  apply (C01F_build _ T st' HG (taintok_weaken _ HT) Hb').
Qed.

(* ---- histories without FailWrote: benign, and even [Good] of HistDefs is kept, so that every
   theorem of HistProofs (C01, C02) applies to the states they reach *)
Lemma fault_of_no_wrote fs e f :
  no_wrote_faults fs = true ->
  fault_of fs e = Some (FailWrote f) -> False.
Proof.
  induction fs as [|[e' k] fs IH]; cbn [fault_of forallb snd]; [discriminate|].
  intros H. apply andb_true_iff in H. destruct H as [H1 H2].
  destruct (Nat.eqb e' e); [|apply IH; exact H2].
  intros Hk. inversion Hk; subst k. discriminate.
Qed.

Lemma good_delete_outs : forall os st, Good cmd g st -> Good cmd g (delete_outs os st).
Proof.
  induction os as [|o os IH]; intros st HG; [exact HG|].
  change (delete_outs (o :: os) st) with (delete_outs os (delete_file st o)). apply IH.
  apply (good_step cmd g Hwf Htopo st (Delete o) HG eq_refl).
Qed.

Lemma good_fail st e k :
  Good cmd g st -> (forall f, k <> FailWrote f) -> Good cmd g (fail_edge g st e k).
Proof.
  intros HG Hk. destruct k as [| |f]; [| |exfalso; apply (Hk f); reflexivity].
  - exact (good_tick cmd g st HG).
  - exact (good_delete_outs (outs e) (tick st) (good_tick cmd g st HG)).
Qed.

Lemma good_buildF_no_wrote st T fs st' fl :
  Good cmd g st -> no_wrote_faults fs = true ->
  buildF cmd g st T fs = Some (st', fl) -> Good cmd g st'.
Proof.
  intros HG Hnw H. destruct (buildF_of_full st T fs st' fl H) as [r [Hfull _]].
  destruct (buildF_full_inv st T fs st' r Hfull) as [s [p [_ Hr]]].
  destruct r as [[[e kd] stk]|].
  - destruct Hr as [He [Hstk [Hst1 [Hf _]]]]. rewrite Hst1. apply good_fail.
    + rewrite Hstk. apply (build_inv1 cmd g Hwf Htopo st p HG e). lia.
    + intros f ->. apply (fault_of_no_wrote fs e f Hnw Hf).
  - destruct Hr as [Hst' _]. rewrite Hst'. apply (build_inv1 cmd g Hwf Htopo st p HG (g_nedges g) (le_n _)).
Qed.

Theorem good_fhist_no_wrote_proof : forall h st,
  Good cmd g st -> fhist_ok g h = true -> forallb no_wrote h = true ->
  Good cmd g (run_fhist cmd g st h).
Proof.
  induction h as [|x h IH]; intros st HG Hok Hnw; [exact HG|].
  cbn [fhist_ok forallb] in Hok, Hnw. apply andb_true_iff in Hok. destruct Hok as [Hx Hh].
  apply andb_true_iff in Hnw. destruct Hnw as [Nx Nh].
  change (run_fhist cmd g st (x :: h)) with (run_fhist cmd g (apply_fstep cmd g st x) h).
  apply IH; [|exact Hh|exact Nh].
  destruct x as [s|T fs]; cbn [apply_fstep fstep_ok no_wrote] in *.
  - apply (good_step cmd g Hwf Htopo st s HG Hx).
  - destruct (buildF cmd g st T fs) as [[st' fl]|] eqn:Hb; [|exact HG].
    apply (good_buildF_no_wrote st T fs st' fl HG Nx Hb).
Qed.

Theorem no_wrote_benign_proof : forall h st,
  GoodF cmd g st -> fhist_ok g h = true -> forallb no_wrote h = true ->
  fhist_benign cmd g st h = true.
Proof.
  induction h as [|x h IH]; intros st HG Hok Hnw; [reflexivity|].
  cbn [fhist_ok forallb] in Hok, Hnw. apply andb_true_iff in Hok. destruct Hok as [Hx Hh].
  apply andb_true_iff in Hnw. destruct Hnw as [Nx Nh].
  cbn [fhist_benign]. apply andb_true_iff. split; [|apply IH; [apply goodF_step_proof; assumption|exact Hh|exact Nh]].
  destruct x as [s|T fs]; [reflexivity|]. cbn [benign_step no_wrote] in *.
  destruct (buildF_full cmd g st T fs) as [[st' [[[e kd] stk]|]]|] eqn:Hfull; try reflexivity.
  destruct (buildF_full_inv st T fs st' _ Hfull) as [s [p [_ [_ [_ [_ [Hf _]]]]]]].
  destruct kd as [| |f]; try reflexivity. exfalso. apply (fault_of_no_wrote fs e f Nx Hf).
Qed.

End HistF.

(* ================================================================== the examples are models *)
Lemma ExFail_wf_spec gn : wf_spec (ExFail.mk gn).
Proof.
  split; [|split].
  - intros e o Ho. destruct e as [|e]; cbn in Ho; [destruct Ho as [<-|[]]; reflexivity|destruct Ho].
  - intros n e Hp. destruct n as [|[|n]]; cbn in Hp; try discriminate. inversion Hp; subst. cbn. left; reflexivity.
  - intros e Hd. exfalso. apply Hd. destruct e as [|e]; reflexivity.
Qed.

Lemma ExFail_wf_graph gn : wf_graph (ExFail.mk gn).
Proof. intros n e Hp. destruct n as [|[|n]]; cbn in Hp; try discriminate. inversion Hp; subst. cbn. lia. Qed.

Lemma ExFail_gen gn : forall e h h' S o,
  ei_generator (g_edge (ExFail.mk gn) e) = true -> Ex.cmd e h S o = Ex.cmd e h' S o.
Proof. intros e h h' S o H. destruct e as [|e]; [reflexivity|cbn in H; discriminate]. Qed.

Lemma run_fhist_plain cmd g : forall h st, run_fhist cmd g st (map Plain h) = run_hist cmd g st h.
Proof. induction h as [|x h IH]; intros st; [reflexivity|]. cbn [map run_fhist run_hist fold_left apply_fstep]. apply IH. Qed.

Lemma ExFail_st3_good : Good Ex.cmd ExFail.g ExFail.st3.
Proof.
  change ExFail.st3 with (run_fhist Ex.cmd ExFail.g (init_hstate ExFail.g) (map Plain [Edit 0 5; Build [1%nat]; Delete 1])).
  rewrite run_fhist_plain.
  apply (good_hist Ex.cmd ExFail.g (ExFail_wf_spec false) eq_refl); [apply good_init|reflexivity].
Qed.

(* ================================================================== the refutations *)
(* [C05_next_invocation_reruns_proof] without its premise [rerun_reason] (and with the strongest
   form of the other premises) *)
Definition C05_next_invocation_reruns_full : Prop :=
  forall (cmd : edge -> N -> snapshot -> node -> content) (g : graph),
    wf_spec g -> wf_graph g -> frag_AB g = true -> topo_ordered g = true ->
    no_inputless_phony g = true ->
  forall (st : hstate) (T : list node) (fs : faults) (st1 : hstate)
         (e : edge) (kd : fail_kind) (stk st2 : hstate),
    Good cmd g st ->
    buildF_full cmd g st T fs = Some (st1, Some (e, kd, stk)) ->
    build cmd g st1 T = Some st2 ->
    In e (trace_delta st1 st2).

(* the listed finding failed-cmd-rewrote-output: out had a valid entry, was deleted, the command
   ran again, rewrote out and failed; the next invocation starts nothing *)
Theorem C05_next_invocation_reruns_refuted_proof : ~ C05_next_invocation_reruns_full.
Proof.
  intros Hfull.
  assert (Hw : exists st1 stk st2,
             buildF_full Ex.cmd ExFail.g ExFail.st3 [1%nat] [(0%nat, FailWrote ExFail.garbage)]
               = Some (st1, Some (0%nat, FailWrote ExFail.garbage, stk)) /\
             build Ex.cmd ExFail.g st1 [1%nat] = Some st2 /\ trace_delta st1 st2 = []).
  { eexists. eexists. eexists. split; [vm_compute; reflexivity|]. split; vm_compute; reflexivity. }
  destruct Hw as [st1 [stk [st2 [H1 [H2 H3]]]]].
  pose proof (Hfull Ex.cmd ExFail.g (ExFail_wf_spec false) (ExFail_wf_graph false) eq_refl eq_refl eq_refl
                ExFail.st3 [1%nat] _ st1 0%nat _ stk st2 ExFail_st3_good H1 H2) as Hin.
  rewrite H3 in Hin. destruct Hin.
Qed.

(* C01_history of HistProofs stated for histories with failing invocations *)
Definition C01F_history_full : Prop :=
  forall (cmd : edge -> N -> snapshot -> node -> content) (g : graph),
    wf_spec g -> wf_graph g -> frag_AB g = true -> topo_ordered g = true ->
    (forall (e : edge) (h h' : N) (S : snapshot) (o : node),
       ei_generator (g_edge g e) = true -> cmd e h S o = cmd e h' S o) ->
  forall (h : list fstep) (T : list node) (st' : hstate),
    fhist_ok g h = true ->
    build cmd g (run_fhist cmd g (init_hstate g) h) T = Some st' ->
    forall n : node, reach g T n -> content_of st' n = clean_of cmd g st' n.

Theorem C01F_history_refuted_proof : ~ C01F_history_full.
Proof.
  intros Hfull.
  pose proof (Hfull Ex.cmd ExFail.g (ExFail_wf_spec false) (ExFail_wf_graph false) eq_refl eq_refl
                (ExFail_gen false) ExFail.hist4 [1%nat] ExFail.st4 eq_refl
                (proj1 ExFail.next_invocation_idle) 1%nat
                (reach_target ExFail.g (manifest_ins ExFail.g) [1%nat] 1%nat (or_introl eq_refl))) as H.
  vm_compute in H. discriminate.
Qed.

(* the witness in full: the graph  build out: cc src , the history
     src := 5 ; ninja out (ok) ; rm out ; ninja out (command rewrites out with 999 and FAILS)
   after which the state satisfies the invariant GoodF but NOT the hypothesis [taint_safe]; the
   next  ninja out  is accepted, starts nothing, changes nothing, exits successfully, and out (needed
   by the target) holds 999 where a clean build gives 2 *)
Theorem C01_failed_cmd_rewrote_output_refuted_proof :
  exists (g : graph) (h : list fstep) (T : list node) (st' : hstate) (n : node),
    frag_AB g && topo_ordered g && no_inputless_phony g && fhist_ok g h = true /\
    GoodF Ex.cmd g (run_fhist Ex.cmd g (init_hstate g) h) /\
    taint_safe g (run_fhist Ex.cmd g (init_hstate g) h) = false /\
    build Ex.cmd g (run_fhist Ex.cmd g (init_hstate g) h) T = Some st' /\
    trace_delta (run_fhist Ex.cmd g (init_hstate g) h) st' = [] /\
    reach g T n /\
    content_of st' n = Some 999%N /\ clean_of Ex.cmd g st' n = Some 2%N.
Proof.
  exists ExFail.g, ExFail.hist4, [1%nat], ExFail.st4, 1%nat.
  split; [vm_compute; reflexivity|]. split; [|split; [vm_compute; reflexivity|]].
  - apply (goodF_hist_proof Ex.cmd ExFail.g (ExFail_wf_spec false) eq_refl ExFail.hist4);
      [apply goodF_init_proof|reflexivity].
  - split; [exact (proj1 ExFail.next_invocation_idle)|]. split; [vm_compute; reflexivity|].
    split; [apply reach_target; left; reflexivity|]. split; vm_compute; reflexivity.
Qed.

(* ================================================================== non-vacuity *)
(* a failing invocation from a state satisfying the invariant (premises of the three C05 clauses) *)
Theorem C05_failing_invocation_nonvacuous_proof :
  exists st st', GoodF Ex.cmd Ex.g st /\
    buildF Ex.cmd Ex.g st [5%nat] [(1%nat, FailWrote ExFail.garbage)] = Some (st', true) /\
    trace_delta st st' = [1; 0]%nat /\ depends_on Ex.g 1%nat 2%nat /\ depends_on Ex.g 1%nat 3%nat.
Proof.
  exists (run_fhist Ex.cmd Ex.g Ex.st0 (map Plain (Ex.hist5 ++ [Edit 0 14]))). eexists.
  split; [|split; [vm_compute; reflexivity|split; [vm_compute; reflexivity|split]]].
  - rewrite run_fhist_plain. apply goodF_of_good.
    apply (good_hist Ex.cmd Ex.g Ex_wf_spec eq_refl); [apply good_init|reflexivity].
  - apply (dep_direct Ex.g 1%nat 2%nat 3%nat); [left; reflexivity|reflexivity].
  - apply (dep_trans Ex.g 1%nat 3%nat 4%nat 2%nat); [left; reflexivity|reflexivity|].
    apply (dep_direct Ex.g 1%nat 2%nat 3%nat); [left; reflexivity|reflexivity].
Qed.

(* the premises of [C05_next_invocation_reruns_proof], for each kind of fault *)
Theorem C05_next_invocation_reruns_nonvacuous_proof :
  forall kd, kd = FailUntouched \/ kd = FailDeleted \/ kd = FailWrote ExFail.garbage ->
  exists st st1 stk st2,
    Good Ex.cmd Ex.g st /\ no_inputless_phony Ex.g = true /\
    buildF_full Ex.cmd Ex.g st [5%nat] [(1%nat, kd)] = Some (st1, Some (1%nat, kd, stk)) /\
    rerun_reason Ex.g stk 1%nat kd /\
    build Ex.cmd Ex.g st1 [5%nat] = Some st2 /\ In 1%nat (trace_delta st1 st2).
Proof.
  intros kd Hkd.
  set (st := run_fhist Ex.cmd Ex.g Ex.st0 (map Plain (Ex.hist5 ++ [Edit 1 21]))).
  assert (HGood : Good Ex.cmd Ex.g st).
  { unfold st. rewrite run_fhist_plain.
    apply (good_hist Ex.cmd Ex.g Ex_wf_spec eq_refl); [apply good_init|reflexivity]. }
  assert (Hstale : forall stk, stale_entryb Ex.g true stk 1%nat 3%nat = true ->
                               exists o, In o (ei_outs (g_edge Ex.g 1%nat)) /\ StaleEntry Ex.g true stk 1%nat o).
  { intros stk H. exists 3%nat. split; [left; reflexivity|]. apply (stale_entryb_sound Ex.g). exact H. }
  exists st. destruct Hkd as [-> | [-> | ->]]; eexists; eexists; eexists;
    (split; [exact HGood|]); (split; [reflexivity|]); (split; [vm_compute; reflexivity|]).
  - split; [|split; [vm_compute; reflexivity|vm_compute; right; left; reflexivity]].
    cbn [rerun_reason].
    apply (dirty_now_md Ex.g Ex_wf_spec Ex_wf_graph eq_refl); [vm_compute; reflexivity|].
    eexists. eexists. vm_compute. reflexivity.
  - split; [exact I|]. split; [vm_compute; reflexivity|vm_compute; right; left; reflexivity].
  - split; [apply Hstale; vm_compute; reflexivity|].
    split; [vm_compute; reflexivity|vm_compute; right; left; reflexivity].
Qed.

(* the premises of [C01F_build] / [C01F_history_proof] / [C01_after_failures_..._proof]: a reachable
   state with a tainted output in which the hypothesis holds, and the successful invocation *)
Theorem C01F_nonvacuous_proof :
  fhist_ok Ex.g ExF.hist7 = true /\ tainted ExF.st7 3%nat = true /\
  taint_safe Ex.g ExF.st7 = true /\ fhist_benign Ex.cmd Ex.g Ex.st0 ExF.hist7 = true /\
  GoodF Ex.cmd Ex.g ExF.st7 /\ ~ Good Ex.cmd Ex.g ExF.st7 /\
  exists st', build Ex.cmd Ex.g ExF.st7 [5%nat] = Some st' /\ reach Ex.g [5%nat] 3%nat /\
              content_of st' 3%nat = clean_of Ex.cmd Ex.g st' 3%nat.
Proof.
  split; [vm_compute; reflexivity|]. split; [vm_compute; reflexivity|]. split; [vm_compute; reflexivity|].
  split; [vm_compute; reflexivity|]. split; [|split].
  - apply (goodF_hist_proof Ex.cmd Ex.g Ex_wf_spec eq_refl ExF.hist7); [apply goodF_init_proof|reflexivity].
  - (* x.o is on disk with a log entry, and its content is not what the ghost snapshot gives *)
    intros [_ L].
    assert (Hb : exists h m, h_blog ExF.st7 3%nat = Some (h, m)) by (eexists; eexists; vm_compute; reflexivity).
    assert (Hd : exists mo, h_disk ExF.st7 3%nat = Some (mo, 999%N)) by (eexists; vm_compute; reflexivity).
    destruct Hb as [h [m Hb]]. destruct Hd as [mo Hd].
    destruct (L 1%nat 3%nat h m mo 999%N eq_refl (or_introl eq_refl) Hb Hd) as [S [HS _]].
    vm_compute in HS. discriminate.
  - eexists. split; [vm_compute; reflexivity|]. split; [|vm_compute; reflexivity].
    apply (reach_step Ex.g (manifest_ins Ex.g) [5%nat] 4%nat 3%nat).
    + apply (reach_step Ex.g (manifest_ins Ex.g) [5%nat] 5%nat 4%nat).
      * apply reach_target. left; reflexivity.
      * exists 3%nat. split; [reflexivity|left; reflexivity].
    + exists 2%nat. split; [reflexivity|left; reflexivity].
Qed.

(* the premises of [good_fhist_no_wrote_proof] / [no_wrote_benign_proof] *)
Theorem no_wrote_nonvacuous_proof :
  forallb no_wrote (ExFail.hist_with FailDeleted) = true /\ fhist_ok ExFail.g (ExFail.hist_with FailDeleted) = true /\
  exists st st', run_fhist Ex.cmd ExFail.g (init_hstate ExFail.g) (firstn 3 (ExFail.hist_with FailDeleted)) = st /\
                 buildF Ex.cmd ExFail.g st [1%nat] [(0%nat, FailDeleted)] = Some (st', true).
Proof.
  split; [reflexivity|]. split; [reflexivity|]. eexists. eexists. split; [reflexivity|vm_compute; reflexivity].
Qed.
