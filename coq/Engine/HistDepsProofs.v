(* Proofs about the history-level model with discovered dependencies (HistDepsDefs.v).  No axioms.
   Part A : the inlined manifest [inline g hid] is a fragment-AB manifest; one command of the deps
            variant is one command of the inlined variant ([drun_edge_h]); the invariants [Good] (for the
            inlined manifest) and [DepsOk] (records = last successful run's reads, not older than the
            output) are kept by every history step ([goodd_hist]); the loop invariant of one build
            ([dbuild_inv1]).
   Part SD: what an accepted scan of a manifest WITH deps statements means (HistProofs' Part S redone for
            fragment D): [RD] = outputs_ready_ / inputs final / what the scan did about the record
            ([RDat] clauses 5, 6: spliced, or dirty for an own reason, or deps_missing_ <-> record
            unusable); [PID] = the want map closed under the inputs the scan LEFT in the edges;
            [scan_want_soundD], [scan_want_completeD]; no load error ([scan_no_loaderrD]); a refusal
            "missing and no known rule" comes with a chain of not-ready statements
            ([add_targets_missing_D], [nrpath]); [transfer_contra]: such a chain in one manifest
            refutes acceptance by the other.
   Part B : the commands one build runs ([dbuild_trace]); (iv) [C10_stale_record_reruns_proof].
   Part E : [must_dirty] is the same for the deps manifest + deps log and for the inlined manifest
            ([md_d_i], [md_i_d]); the two scans want the same statements ([want_eq]).
   Part G : the two manifests accept or refuse together ([accept_equiv]).
   Part C : PERSIST ([persist]): a statement dirty at the scan that reads from no restat statement is
            still dirty for Plan::CleanNode's test (on [graph_now]) when its turn comes; (ii)
            [C10_changed_dep_reruns_proof], (iii) [C10_missing_dep_dirty_proof]; the two builds step by
            step ([step_dirty_eq], [equiv_upto]).
   Part F : histories: [C10_equiv_states] / [C10_equiv_present_states], C01 and C02 for the deps
            manifest; then the example projects, the full statements with the side conditions as
            switches, and the two findings as refutations with concrete witnesses. *)
From NinjaV Require Import Engine.CrashDefs.
From NinjaV Require Import Base.Bytes Engine.ScanDefs Engine.ScanSpec Engine.ScanProofs Engine.HistDefs Engine.HistProofs Engine.HistDepsDefs.
Local Open Scope Z_scope.

(* ================================================================== Part A *)
Lemma andb_true_split a b : (a && b)%bool = true -> a = true /\ b = true.
Proof. intros H. apply andb_true_iff in H. exact H. Qed.

Lemma mem_node_In n l : mem_node n l = true <-> In n l.
Proof.
  unfold mem_node. rewrite existsb_exists. split.
  - intros [x [Hx He]]. apply Nat.eqb_eq in He. subst. exact Hx.
  - intros H. exists n. split; [exact H|apply Nat.eqb_refl].
Qed.

Lemma mem_node_false n l : ~ In n l -> mem_node n l = false.
Proof. intros H. destruct (mem_node n l) eqn:E; [|reflexivity]. apply mem_node_In in E. contradiction. Qed.

Lemma frag_D_edge g e : frag_D g = true -> (e < g_nedges g)%nat ->
  ei_deps (g_edge g e) <> DepsDepfile /\ ei_vals (g_edge g e) = [] /\
  (ei_deps (g_edge g e) = DepsLog ->
   ei_phony (g_edge g e) = false /\ ei_outs (g_edge g e) <> [] /\
   (ei_noo (g_edge g e) <= length (ei_ins (g_edge g e)))%nat).
Proof.
  intros Hf He. pose proof (edges_all_spec g _ e Hf He) as H. cbn beta zeta in H.
  apply andb_true_split in H. destruct H as [H H3]. apply andb_true_split in H. destruct H as [H1 H2].
  split; [intros Hd; rewrite Hd in H1; discriminate|]. split; [apply is_nil_true; exact H2|].
  intros Hd. rewrite Hd in H3. cbn [is_deps_log negb orb] in H3.
  apply andb_true_split in H3. destruct H3 as [H3 H5]. apply andb_true_split in H3. destruct H3 as [H3 H4].
  split; [apply negb_true_iff; exact H3|]. split.
  - intros Hn. rewrite Hn in H4. discriminate.
  - apply Nat.leb_le. exact H5.
Qed.

Lemma frag_ABD_edge g hid e : frag_ABD g hid = true -> (e < g_nedges g)%nat ->
  (forall i, In i (ei_ins (g_edge g e)) -> g_byloader g i = false) /\
  (ei_deps (g_edge g e) <> DepsLog -> hid e = []).
Proof.
  intros Hf He. unfold frag_ABD in Hf. apply andb_true_split in Hf. destruct Hf as [_ Hf].
  pose proof (edges_all_spec g _ e Hf He) as H. cbn beta zeta in H.
  apply andb_true_split in H. destruct H as [H1 H2]. split.
  - intros i Hi. rewrite forallb_forall in H1. specialize (H1 i Hi). apply negb_true_iff in H1. exact H1.
  - intros Hd. destruct (ei_deps (g_edge g e)); cbn [is_deps_log orb] in H2;
      [apply is_nil_true; exact H2|apply is_nil_true; exact H2|congruence].
Qed.

Lemma frag_ABD_D g hid : frag_ABD g hid = true -> frag_D g = true.
Proof. intros H. unfold frag_ABD in H. apply andb_true_split in H. apply H. Qed.

Lemma deps_kind_cases g e : frag_D g = true -> (e < g_nedges g)%nat ->
  ei_deps (g_edge g e) = DepsNone \/ ei_deps (g_edge g e) = DepsLog.
Proof.
  intros Hf He. destruct (frag_D_edge g e Hf He) as [H _].
  destruct (ei_deps (g_edge g e)); [left; reflexivity|congruence|right; reflexivity].
Qed.

(* ---- the inlined manifest *)
Lemma splice_nil_r ins noo : splice ins noo [] = ins.
Proof. unfold splice. cbn [app]. apply firstn_skipn. Qed.

Lemma nonoo_splice ins noo h : (noo <= length ins)%nat ->
  (if Nat.ltb (length (splice ins noo h)) noo then splice ins noo h
   else firstn (length (splice ins noo h) - noo) (splice ins noo h)) =
  firstn (length ins - noo) ins ++ h.
Proof.
  intros Hn. unfold splice.
  set (k := (length ins - noo)%nat).
  assert (Hk : length (firstn k ins) = k) by (apply firstn_length_le; unfold k; lia).
  assert (Hl : length (firstn k ins ++ h ++ skipn k ins) = (length ins + length h)%nat).
  { rewrite !app_length, Hk, skipn_length. unfold k. lia. }
  rewrite Hl. destruct (Nat.ltb_spec (length ins + length h) noo) as [Hlt|_]; [lia|].
  replace (length ins + length h - noo)%nat with (length (firstn k ins ++ h) + 0)%nat
    by (rewrite app_length, Hk; unfold k; lia).
  rewrite app_assoc, firstn_app_2. cbn [firstn]. apply app_nil_r.
Qed.

Lemma nonoo_inline g hid e : frag_ABD g hid = true -> (e < g_nedges g)%nat ->
  nonoo_ins (inline g hid) e = read_ins g hid e.
Proof.
  intros Hf He. unfold read_ins.
  destruct (deps_kind_cases g e (frag_ABD_D g hid Hf) He) as [Hd|Hd].
  - rewrite (proj2 (frag_ABD_edge g hid e Hf He)) by congruence. rewrite app_nil_r.
    unfold nonoo_ins. cbn [inline g_edge inline_edge ei_ins ei_noo].
    rewrite (proj2 (frag_ABD_edge g hid e Hf He)) by congruence. rewrite splice_nil_r. reflexivity.
  - destruct (frag_D_edge g e (frag_ABD_D g hid Hf) He) as [_ [_ H]]. destruct (H Hd) as [_ [_ Hn]].
    unfold nonoo_ins at 1. cbn [inline g_edge inline_edge ei_ins ei_noo]. cbn zeta.
    rewrite (nonoo_splice _ _ (hid e) Hn). unfold nonoo_ins. cbn zeta.
    destruct (Nat.ltb_spec (length (ei_ins (g_edge g e))) (ei_noo (g_edge g e))); [lia|reflexivity].
Qed.

Lemma inline_ins_in g hid e i :
  In i (ei_ins (g_edge (inline g hid) e)) <-> In i (ei_ins (g_edge g e)) \/ In i (hid e).
Proof. cbn [inline g_edge inline_edge ei_ins]. apply in_splice. Qed.

Lemma wf_spec_inline g hid : wf_spec g -> wf_spec (inline g hid).
Proof.
  intros [A [B _]]. split; [exact A|]. split; [exact B|].
  intros e Hd. exfalso. apply Hd. reflexivity.
Qed.

Lemma wf_graph_inline g hid : wf_graph g -> wf_graph (inline g hid).
Proof. intros H. exact H. Qed.

Lemma frag_AB_inline g hid : frag_D g = true -> frag_AB (inline g hid) = true.
Proof.
  intros Hf. unfold frag_AB, edges_all. apply forallb_forall. intros e He. apply in_seq in He.
  destruct (frag_D_edge g e Hf) as [_ [Hv _]]; [cbn [inline g_nedges] in He; lia|].
  cbn [inline g_edge inline_edge ei_deps ei_vals ei_ins g_byloader deps_none]. rewrite Hv. cbn [is_nil andb].
  apply forallb_forall. intros i _. reflexivity.
Qed.

Lemma topo_of_inline g hid : topo_ordered (inline g hid) = true -> topo_ordered g = true.
Proof.
  intros Ht. unfold topo_ordered, edges_all. apply forallb_forall. intros e He. apply in_seq in He.
  pose proof (edges_all_spec (inline g hid) _ e Ht) as H. cbn beta in H.
  specialize (H ltac:(cbn [inline g_nedges]; lia)). rewrite forallb_forall in H.
  apply forallb_forall. intros i Hi. apply (H i). apply inline_ins_in. left; exact Hi.
Qed.

(* ---- where "missing and no known rule" comes from: a chain of statements that are not ready *)
Inductive nrpath (g : graph) (s : sstate) : node -> node -> Prop :=
| nrp_here n : nrpath g s n n
| nrp_step n e i m :
    g_producer g n = Some e -> es_ready (st_edge s e) = false -> In i (es_ins (st_edge s e)) ->
    nrpath g s i m -> nrpath g s n m.

Lemma ast_loop_missing_in (visit : node -> plan -> ast_res) : forall ins p err p',
  ast_loop visit ins p = Some (false, Some err, p') ->
  exists i q q', In i ins /\ visit i q = Some (false, Some err, q').
Proof.
  induction ins as [|i ins IH]; intros p err p' H; cbn [ast_loop] in H; [discriminate|].
  destruct (visit i p) as [[[b e0] q]|] eqn:Hv; [|discriminate].
  assert (Hrec : ast_loop visit ins q = Some (false, Some err, p') ->
                 exists i0 q0 q', In i0 (i :: ins) /\ visit i0 q0 = Some (false, Some err, q')).
  { intros H'. destruct (IH q err p' H') as [i0 [q0 [q' [Hi Hv0]]]]. exists i0, q0, q'. split; [right; exact Hi|exact Hv0]. }
  destruct b; [apply Hrec; exact H|].
  destruct e0 as [er|]; [|apply Hrec; exact H].
  inversion H; subst. exists i, p, p'. split; [left; reflexivity|exact Hv].
Qed.

Lemma ast_missing_path g : forall f s dep n p m d p',
  add_sub_target g f s dep n p = Some (false, Some (m, d), p') ->
  nrpath g s n m /\ g_byloader g m = false /\ g_producer g m = None /\ ns_dirty (st_node s m) = true.
Proof.
  induction f as [|f IH]; intros s dep n p m d p' H; [discriminate|]. cbn [add_sub_target] in H.
  destruct (g_producer g n) as [e|] eqn:Hp.
  - destruct (es_ready (st_edge s e)) eqn:Hr; [discriminate|].
    destruct (negb match p_want p e with None => true | Some _ => false end); [discriminate|].
    destruct (ast_loop_missing_in _ _ _ _ _ H) as [i [q [q' [Hi Hv]]]].
    destruct (IH _ _ _ _ _ _ _ Hv) as [Hpath Hrest]. split; [|exact Hrest].
    apply (nrp_step g s n e i m Hp Hr Hi Hpath).
  - destruct (ns_dirty (st_node s n) && negb (g_byloader g n))%bool eqn:Hc; [|discriminate].
    inversion H; subst m d p'. apply andb_true_iff in Hc. destruct Hc as [Hd Hb]. apply negb_true_iff in Hb.
    split; [apply nrp_here|]. split; [exact Hb|]. split; [exact Hp|exact Hd].
Qed.

(* ================================================================== Part SD: scan and plan with a deps log *)
(* The facts HistProofs' Part S proves for fragment AB, for manifests whose statements may have
   [deps = gcc]: [RD] is [RI] with the inputs the scan left in the edge ([es_ins]) plus what the scan
   did about the record ([RDat], clauses 5 and 6); [PID] is [PI] closed under the CURRENT inputs. *)
Section ScanD.
Local Open Scope nat_scope.
Variable g : graph.
Variable w : world.
Hypothesis Hwf : wf_spec g.
Hypothesis Hwg : wf_graph g.
Hypothesis HfD : frag_D g = true.

Notation mark_of s e := (es_mark (st_edge s e)).
Notation ins_of s e := (es_ins (st_edge s e)).
Notation rnd := (recompute_node_dirty g w).
Notation nd s n := (st_node s n).
Notation ready s e := (es_ready (st_edge s e)).
Notation missing s e := (es_deps_missing (st_edge s e)).
Notation outs e := (ei_outs (g_edge g e)).
Notation eins e := (ei_ins (g_edge g e)).
Notation noo e := (ei_noo (g_edge g e)).

Lemma out_prodD e o : In o (outs e) -> g_producer g o = Some e.
Proof. apply (proj1 Hwf). Qed.
Lemma prod_outD n e : g_producer g n = Some e -> In n (outs e).
Proof. apply (proj1 (proj2 Hwf)). Qed.

Lemma spec_load_recorded e l : spec_load g w e = LdOk l -> incl l (recorded_deps g w e).
Proof.
  unfold spec_load, recorded_deps.
  destruct (ei_deps (g_edge g e)).
  - intros H; inversion H; subst. apply incl_nil_l.
  - destruct (outs e) as [|o0 os]; [discriminate|].
    destruct (w_depfile w e) as [| | |douts dins]; try discriminate.
    destruct douts as [|p douts]; [discriminate|].
    destruct (negb (Nat.eqb p o0)); [discriminate|].
    destruct (forallb _ _); [|discriminate].
    intros H; inversion H; subst. apply incl_refl.
  - destruct (outs e) as [|o0 os]; [discriminate|].
    destruct (w_dlog w o0) as [[dm nodes]|]; [|discriminate].
    destruct (Z.gtb _ _); [discriminate|].
    intros H; inversion H; subst. apply incl_refl.
Qed.

(* the probe agrees with the load when the output's mtime is the disk's *)
Lemma load_try_spec s e : e < g_nedges g ->
  (forall o, In o (outs e) -> ns_mtime (nd s o) = w_mtime w o) ->
  load_deps_try g w s e = match spec_load g w e with LdFail => false | _ => true end.
Proof.
  intros He Hm. unfold load_deps_try, spec_load, edge_outs.
  destruct (frag_D_edge g e HfD He) as [Hnd [_ Hlog]].
  destruct (ei_deps (g_edge g e)) eqn:Hd; [reflexivity|congruence|].
  destruct (Hlog eq_refl) as [_ [Hne _]].
  destruct (outs e) as [|o0 os]; [congruence|].
  rewrite (Hm o0 (or_introl eq_refl)).
  destruct (w_dlog w o0) as [[dm nodes]|]; [|reflexivity].
  destruct (Z.gtb (w_mtime w o0) dm); reflexivity.
Qed.

Lemma spec_load_not_err e : e < g_nedges g -> spec_load g w e <> LdErr.
Proof.
  intros He. unfold spec_load.
  destruct (frag_D_edge g e HfD He) as [Hnd [_ Hlog]].
  destruct (ei_deps (g_edge g e)) eqn:Hd; [discriminate|congruence|].
  destruct (Hlog eq_refl) as [_ [Hne _]].
  destruct (outs e) as [|o0 os]; [congruence|].
  destruct (w_dlog w o0) as [[dm nodes]|]; [|discriminate].
  destruct (Z.gtb (w_mtime w o0) dm); discriminate.
Qed.

(* ---- small facts about the state updates *)
Lemma finish_edge_missing e s d : missing (finish_edge g s e d) e = missing s e.
Proof.
  unfold finish_edge, set_mark. rewrite upd_edge_same. cbn [es_deps_missing].
  destruct d; cbn [andb]; [|reflexivity].
  destruct (negb _).
  - unfold set_ready. rewrite upd_edge_same. cbn [es_deps_missing].
    rewrite (st_edge_mark_outputs_dirty (edge_outs g e) s). reflexivity.
  - rewrite (st_edge_mark_outputs_dirty (edge_outs g e) s). reflexivity.
Qed.

Lemma eval_inputs_missing e : forall l idx s mri d s' mri' d',
  eval_inputs g e l idx s mri d = (s', mri', d') -> missing s' e = missing s e.
Proof.
  induction l as [|i l IH]; intros idx s mri d s' mri' d' H; cbn [eval_inputs] in H.
  - inversion H; subst. reflexivity.
  - set (s1 := match g_producer g i with
               | Some ie => if es_ready (st_edge s ie) then s else set_ready s e false
               | None => s end) in *.
    assert (E1 : missing s1 e = missing s e).
    { subst s1. destruct (g_producer g i) as [ie|]; [|reflexivity].
      destruct (es_ready (st_edge s ie)); [reflexivity|].
      unfold set_ready. rewrite upd_edge_same. reflexivity. }
    rewrite <- E1. destruct (is_order_only _ _ _); [eapply IH; exact H|].
    destruct (ns_dirty (st_node s1 i)); eapply IH; exact H.
Qed.

Lemma eval_inputs_ready_mono e l idx s mri d s' mri' d' :
  eval_inputs g e l idx s mri d = (s', mri', d') -> ready s e = false -> ready s' e = false.
Proof.
  intros H Hr. destruct (ready s' e) eqn:Hr'; [|reflexivity].
  destruct (eval_inputs_ready g e _ _ _ _ _ _ _ _ H Hr') as [Hc _]. congruence.
Qed.

(* ---- the invariant about a finished statement *)
Definition RDat (s : sstate) (e : edge) : Prop :=
  (forall i, In i (ins_of s e) -> node_final g s i) /\
  (forall i e', In i (ins_of s e) -> g_producer g i = Some e' -> ready s e' = false -> ready s e = false) /\
  (forall o, In o (outs e) -> ns_dirty (nd s o) = true ->
             (ei_phony (g_edge g e) = true /\ ins_of s e = []) \/ ready s e = false) /\
  (ready s e = false ->
   (exists o, In o (outs e) /\ ns_dirty (nd s o) = true) \/
   (exists i e', In i (ins_of s e) /\ g_producer g i = Some e' /\ ready s e' = false)) /\
  ((ins_of s e = eins e /\ (missing s e = true \/ own_dirty g w e)) \/
   (exists l, spec_load g w e = LdOk l /\ ins_of s e = splice (eins e) (noo e) l /\ missing s e = false)) /\
  (spec_load g w e = LdFail <-> missing s e = true).

Definition RD (s : sstate) : Prop := forall e, mark_of s e = VisitDone -> RDat s e.

Lemma RD_keep a b e :
  RD a -> mark_of a e = VisitDone ->
  (forall e', mark_of a e' = VisitDone -> st_edge b e' = st_edge a e') ->
  (forall n, node_final g a n -> node_final g b n /\ nd b n = nd a n) ->
  RDat b e.
Proof.
  intros HR He H1 H2. destruct (HR e He) as [B [C [D [E [F G]]]]].
  assert (Hfo : forall o, In o (outs e) -> node_final g a o).
  { intros o Ho. unfold node_final. rewrite (out_prodD e o Ho). exact He. }
  assert (Hfi : forall i e', In i (ins_of a e) -> g_producer g i = Some e' -> st_edge b e' = st_edge a e').
  { intros i e' Hi Hp. pose proof (B i Hi) as Hf. unfold node_final in Hf. rewrite Hp in Hf. apply (H1 e' Hf). }
  unfold RDat. rewrite (H1 e He).
  split; [intros i Hi; apply (H2 i (B i Hi))|]. split; [|split; [|split; [|split; [exact F|exact G]]]].
  - intros i e' Hi Hp Hr. rewrite (Hfi i e' Hi Hp) in Hr. apply (C i e' Hi Hp Hr).
  - intros o Ho Hd. rewrite (proj2 (H2 o (Hfo o Ho))) in Hd. apply (D o Ho Hd).
  - intros Hr. destruct (E Hr) as [[o [Ho Hd]]|[i [e' [Hi [Hp Hr']]]]].
    + left. exists o. split; [exact Ho|]. rewrite (proj2 (H2 o (Hfo o Ho))). exact Hd.
    + right. exists i, e'. split; [exact Hi|]. split; [exact Hp|]. rewrite (Hfi i e' Hi Hp). exact Hr'.
Qed.

Lemma RD_vrel a b e : RD a -> vrel g a b -> mark_of a e = VisitDone -> RDat b e.
Proof.
  intros HR V He. apply (RD_keep a b e HR He).
  - intros e' He'. apply (ext_marked a b e' (proj1 V)). rewrite He'. discriminate.
  - intros n Hn. apply (final_vrel g a b n V Hn).
Qed.

Lemma RD_lstep e a b e' :
  RD a -> lstep g e a b -> mark_of a e <> VisitDone -> e' <> e -> mark_of b e' = VisitDone -> RDat b e'.
Proof.
  intros HR [L1 L2] Ma Hne Hb.
  assert (Ha : mark_of a e' = VisitDone) by (rewrite <- (L1 e' Hne); exact Hb).
  apply (RD_keep a b e' HR Ha).
  - intros e2 H2. apply L1. intros ->. contradiction.
  - intros n Hn.
    assert (Hno : ~ In n (edge_outs g e)).
    { intros Hin. unfold node_final in Hn. rewrite (out_prodD e n Hin) in Hn. contradiction. }
    split; [|apply L2; exact Hno].
    unfold node_final in *. destruct (g_producer g n) as [e2|].
    + rewrite L1; [exact Hn|]. intros ->. contradiction.
    + rewrite (L2 n Hno). exact Hn.
Qed.

(* the frame stays open: RD is kept as a whole *)
Lemma RD_lstep_open e a b :
  RD a -> lstep g e a b -> mark_of a e = VisitInStack -> mark_of b e = VisitInStack -> RD b.
Proof.
  intros HR L Ma Mb e' He'. assert (Hne : e' <> e) by (intros ->; congruence).
  apply (RD_lstep e a b e' HR L); [rewrite Ma; discriminate|exact Hne|exact He'].
Qed.

Lemma nrpath_final s n m : RD s -> nrpath g s n m -> node_final g s n -> node_final g s m.
Proof.
  intros HR H. induction H as [n|n e i m Hp Hr Hi Hpath IH]; intros Fn; [exact Fn|].
  apply IH. assert (Hd : mark_of s e = VisitDone) by (unfold node_final in Fn; rewrite Hp in Fn; exact Fn).
  destruct (HR e Hd) as [D1 _]. apply D1. exact Hi.
Qed.

(* a node that is final while [e] is in the stack survives a local step of [e] *)
Lemma final_lstep e a b i :
  lstep g e a b -> mark_of a e = VisitInStack -> node_final g a i ->
  node_final g b i /\ nd b i = nd a i /\ forall e', g_producer g i = Some e' -> st_edge b e' = st_edge a e'.
Proof.
  intros [L1 L2] Ma Hf.
  assert (Hno : ~ In i (edge_outs g e)) by (apply (final_not_out g Hwf a e i Ma Hf)).
  assert (Hpe : forall e', g_producer g i = Some e' -> e' <> e).
  { intros e' Hp ->. apply Hno. apply prod_outD. exact Hp. }
  split; [|split; [apply L2; exact Hno|intros e' Hp; apply L1; apply Hpe; exact Hp]].
  unfold node_final in *. destruct (g_producer g i) as [e'|] eqn:Hp.
  - rewrite (L1 e' (Hpe e' eq_refl)). exact Hf.
  - rewrite (L2 i Hno). exact Hf.
Qed.

(* ---- the three ways out of RecomputeNodeDirty (first visit) *)
Lemma after_inputs_shape visit e rm rd s3 vs3 s' vs' :
  after_inputs g w visit e false rm rd s3 vs3 = SOk (s', vs') ->
  exists s4 mri dirty dirty1 s5,
    eval_inputs g e (ins_of s3 e) 0 s3 None false = (s4, mri, dirty) /\
    (if dirty then (true, s4) else outputs_dirty_all g w e (edge_outs g e) mri s4) = (dirty1, s5) /\
    ((dirty1 = true /\ vs' = vs3 /\
      exists b, load_deps_try g w s5 e = negb b /\
                s' = finish_edge g (if b then set_deps_missing s5 e true else s5) e true) \/
     (dirty1 = false /\ load_deps g w s5 e = LdFail /\ vs' = vs3 /\
      s' = finish_edge g (set_deps_missing s5 e true) e true) \/
     (dirty1 = false /\ exists l s7 s8 mri2 dirty2,
        load_deps g w s5 e = LdOk l /\
        visit_all visit l (splice_deps g s5 e l, vs3) = SOk (s7, vs') /\
        eval_inputs g e l (length (ins_of s5 e) - noo e) s7 mri false = (s8, mri2, dirty2) /\
        s' = finish_edge g s8 e (if negb dirty2 && negb (opt_node_eqb mri mri2)
                                 then outputs_dirty_depfile g w e mri2 s8 else dirty2))).
Proof.
  unfold after_inputs.
  destruct (eval_inputs g e (ins_of s3 e) 0 s3 None false) as [[s4 mri] dirty] eqn:Hev.
  destruct (if dirty then (true, s4) else outputs_dirty_all g w e (edge_outs g e) mri s4) as [dirty1 s5] eqn:Hod.
  intros H. exists s4, mri, dirty, dirty1, s5. split; [reflexivity|]. split; [exact Hod|].
  destruct dirty1.
  - left. split; [reflexivity|].
    destruct (load_deps_try g w s5 e) eqn:Ht; inversion H; subst s' vs'.
    + split; [reflexivity|]. exists false. split; reflexivity.
    + split; [reflexivity|]. exists true. split; reflexivity.
  - destruct (load_deps g w s5 e) as [| |l] eqn:Hl; [| discriminate |].
    + right; left. inversion H; subst s' vs'. repeat split; reflexivity.
    + right; right. split; [reflexivity|].
      destruct (visit_all visit l (splice_deps g s5 e l, vs3)) as [[s7 vs7]|c|e'|] eqn:Hv; try discriminate.
      destruct (eval_inputs g e l (length (ins_of s5 e) - noo e) s7 mri false) as [[s8 mri2] dirty2] eqn:He2.
      inversion H; subst s' vs'. exists l, s7, s8, mri2, dirty2.
      split; [reflexivity|]. split; [exact Hv|]. split; [exact He2|reflexivity].
Qed.

(* "dirty before the deps are looked at" means dirty for a reason of its own *)
Lemma dirty1_own e s3 s4 mri dirty dirty1 s5 :
  SInv g w s3 -> mark_of s3 e = VisitInStack -> ins_of s3 e = eins e ->
  (forall i, In i (eins e) -> node_final g s3 i) ->
  (forall o, In o (edge_outs g e) -> statted w s3 o) ->
  eval_inputs g e (ins_of s3 e) 0 s3 None false = (s4, mri, dirty) ->
  (if dirty then (true, s4) else outputs_dirty_all g w e (edge_outs g e) mri s4) = (dirty1, s5) ->
  dirty1 = true -> own_dirty g w e.
Proof.
  intros HS3 M3 I3 F3 T3 He Hod Hd1.
  pose proof (eval_inputs_spec g e _ _ _ _ _ _ _ _ He) as Hev. cbn zeta in Hev.
  rewrite I3, sel_nonoo in Hev. destruct Hev as [ED [EL EM]].
  pose proof (st_node_eval_inputs g e _ _ _ _ _ _ _ _ He) as N4.
  pose proof (local_eval_inputs g e _ _ _ _ _ _ _ _ He) as L34.
  assert (I4 : ins_of s4 e = eins e) by (rewrite (proj2 (proj2 L34)); exact I3).
  assert (OKi : forall i, In i (nonoo_ins g e) -> node_ok g w s3 i).
  { intros i Hi. apply (proj1 HS3). apply F3. apply (nonoo_incl g e). exact Hi. }
  assert (T4 : forall o, In o (edge_outs g e) -> statted w s4 o).
  { intros o Ho. unfold statted. rewrite N4. apply T3; exact Ho. }
  destruct dirty.
  - left. destruct (proj1 ED eq_refl) as [Hf|[i [Hi Hd]]]; [discriminate|].
    exists i. split; [exact Hi|]. apply (proj1 (OKi i Hi)). exact Hd.
  - assert (Hclean : forall i, In i (nonoo_ins g e) -> ns_dirty (nd s3 i) = false).
    { intros i Hi. destruct (ns_dirty (nd s3 i)) eqn:Di; [|reflexivity].
      assert (false = true) by (apply ED; right; exists i; split; assumption). discriminate. }
    assert (HN0 : forall x, lt_mri s3 x mri <-> exists i, In i (nonoo_ins g e) /\ newer_than g w x i).
    { intros x. rewrite EL. cbn [lt_mri]. split.
      - intros [[]|[i [Hi [Di Hx]]]]. exists i. split; [exact Hi|]. apply (proj2 (OKi i Hi) Di x). exact Hx.
      - intros [i [Hi Hx]]. right. exists i. split; [exact Hi|]. split; [apply Hclean; exact Hi|].
        apply (proj2 (OKi i Hi) (Hclean i Hi) x). exact Hx. }
    assert (HMf : forall m, mri = Some m -> node_final g s3 m).
    { intros m Hm. destruct (EM m Hm) as [Hc|[Hc _]]; [discriminate|]. apply F3. apply (nonoo_incl g e). exact Hc. }
    destruct (ei_phony (g_edge g e)) eqn:Hph.
    + right; left.
      assert (Hmri_out : forall m, mri = Some m -> ~ In m (edge_outs g e)).
      { intros m Hm. apply (final_not_out g Hwf s3 e m M3). apply HMf; exact Hm. }
      subst dirty1.
      destruct (oda_phony g w e mri Hph (edge_outs g e) Hmri_out s4 true s5 Hod) as [_ [_ [_ [C5 _]]]].
      destruct (proj1 C5 eq_refl) as [Hi0 [Hv0 [o' [Ho' Hx']]]]. rewrite I4 in Hi0.
      split; [exact Hph|]. split; [exact Hi0|]. split; [exact Hv0|]. exists o'. split; [exact Ho'|].
      apply (statted_missing w s4 o' (T4 o' Ho')). exact Hx'.
    + right; right. split; [exact Hph|].
      rewrite (oda_nonphony g w e mri Hph) in Hod. inversion Hod as [[Hex Hs5]]. subst dirty1.
      apply existsb_exists in Hex. destruct Hex as [o [Ho Hr]]. exists o. split; [exact Ho|].
      rewrite (odf_spec g w e o _ s4 (proj1 (T4 o Ho)) (proj1 (proj2 (T4 o Ho)))) in Hr.
      unfold out_reason. destruct Hr as [Hb|Ht]; [left; exact Hb|right].
      revert Ht. apply time_reason_iff. intros x. rewrite lt_opt_mri. unfold lt_mri. rewrite N4.
      symmetry. apply HN0.
Qed.

Lemma rnd_RD : forall f stack n s vs s' vs',
  rnd f stack n (s, vs) = SOk (s', vs') -> SInv g w s -> RD s -> RD s'.
Proof.
  induction f as [|f IH]; intros stack n s vs s' vs' H HS HR; [discriminate|].
  destruct (rnd_spec g w Hwf _ _ _ _ _ _ _ H HS) as [HS' [V' F']].
  destruct (g_producer g n) as [e|] eqn:Hp.
  2:{ cbn [recompute_node_dirty] in H. rewrite Hp in H.
      assert (E : st_edge s' = st_edge s).
      { destruct (n_known (st_node s n)); inversion H; subst; [reflexivity|].
        cbn [set_dirty upd_node st_edge]. apply st_edge_stat_if_necessary. }
      intros e He. apply (RD_vrel s s' e HR V'). rewrite <- E. exact He. }
  destruct (mark_of s e) eqn:Hm.
  2:{ cbn [recompute_node_dirty] in H. rewrite Hp, Hm in H. discriminate. }
  2:{ cbn [recompute_node_dirty] in H. rewrite Hp, Hm in H. inversion H; subst. exact HR. }
  pose proof (Hwg n e Hp) as He.
  rewrite (rnd_none_unfold g w f stack n e s vs Hp Hm) in H.
  destruct HS as [S1 [S2 [S3 S4]]]. destruct (S3 e Hm) as [Hdl Hins]. rewrite Hdl in H.
  destruct (s2_props g w e s) as [A2 [M2 I2]].
  set (s2 := stat_outputs w (enter_edge s e) (edge_outs g e)) in *.
  assert (LS2 : lstep g e s s2).
  { split; [exact A2|]. intros n' Hn'. subst s2. rewrite stat_outputs_other by exact Hn'. reflexivity. }
  assert (HS2 : SInv g w s2).
  { apply (SInv_lstep g w Hwf e s s2 (conj S1 (conj S2 (conj S3 S4))) LS2); [rewrite Hm; discriminate|exact M2]. }
  assert (HR2 : RD s2).
  { intros e' He'. assert (Hne : e' <> e) by (intros ->; congruence).
    apply (RD_lstep e s s2 e' HR LS2); [rewrite Hm; discriminate|exact Hne|exact He']. }
  assert (T2 : forall o, In o (edge_outs g e) -> statted w s2 o).
  { intros o Ho. subst s2. apply stat_outputs_statted; [exact Ho|].
    intros o' Ho'. left. change (nd (enter_edge s e) o') with (nd s o').
    apply (S2 o' e (out_prodD e o' Ho') Hm). }
  assert (R2 : ready s2 e = true /\ missing s2 e = false).
  { subst s2. rewrite st_edge_stat_outputs. unfold enter_edge. rewrite upd_edge_same. split; reflexivity. }
  set (visit := rnd f (stack ++ [n])) in *.
  assert (Hvisit : forall l sa va sb vb, SInv g w sa /\ RD sa -> visit_all visit l (sa, va) = SOk (sb, vb) ->
            (SInv g w sb /\ RD sb) /\ vrel g sa sb /\ forall i, In i l -> node_final g sb i).
  { intros l sa va sb vb Pa V.
    apply (visit_all_rel (fun a : sv => SInv g w (fst a) /\ RD (fst a))
                         (fun a b : sv => vrel g (fst a) (fst b))
                         (fun (i : node) (a : sv) => node_final g (fst a) i) visit
                         (fun a => vrel_refl g (fst a))
                         (fun a b c => vrel_trans g (fst a) (fst b) (fst c))
                         (fun i a0 a1 HRel HQ => proj1 (final_vrel g (fst a0) (fst a1) i HRel HQ))
                         l) with (a := (sa, va)) (a' := (sb, vb)); [|exact Pa|exact V].
    intros i [sa0 va0] [sb0 vb0] _ [HSa HRa] Hv. cbn [fst] in *.
    destruct (rnd_spec g w Hwf _ _ _ _ _ _ _ Hv HSa) as [HSb [Vab Fb]].
    split; [split; [exact HSb|apply (IH _ _ _ _ _ _ Hv HSa HRa)]|]. split; assumption. }
  destruct (visit_all visit (ins_of s2 e) (s2, vs ++ ei_vals (g_edge g e))) as [[s3 vs3]|c|e'|] eqn:V1;
    try discriminate.
  destruct (Hvisit _ _ _ _ _ (conj HS2 HR2) V1) as [[HS3 HR3] [V23 F3]].
  assert (E23 : st_edge s3 e = st_edge s2 e) by (apply (ext_marked s2 s3 e (proj1 V23)); rewrite M2; discriminate).
  assert (M3 : mark_of s3 e = VisitInStack) by (rewrite E23; exact M2).
  assert (I3 : ins_of s3 e = eins e) by (rewrite E23, I2; exact Hins).
  assert (T3 : forall o, In o (edge_outs g e) -> statted w s3 o).
  { intros o Ho. unfold statted. rewrite (proj2 V23 o); [apply T2; exact Ho|].
    unfold settled. rewrite (out_prodD e o Ho), M2. discriminate. }
  rewrite I2, Hins in F3.
  destruct (after_inputs_shape visit e _ _ s3 vs3 s' vs' H) as [s4 [mri [dirty [dirty1 [s5 [Hev [Hod Hbr]]]]]]].
  pose proof (local_eval_inputs g e _ _ _ _ _ _ _ _ Hev) as L34.
  pose proof (st_node_eval_inputs g e _ _ _ _ _ _ _ _ Hev) as N34.
  assert (E45 : st_edge s5 = st_edge s4).
  { destruct dirty; [inversion Hod; subst; reflexivity|].
    pose proof (st_edge_outputs_dirty_all g w e mri (edge_outs g e) s4) as Hx. rewrite Hod in Hx. exact Hx. }
  assert (N45 : (forall x, ~ In x (edge_outs g e) -> nd s5 x = nd s4 x) /\
                (forall x, ns_dirty (nd s5 x) = ns_dirty (nd s4 x))).
  { destruct dirty; [inversion Hod; subst; split; reflexivity|]. apply (oda_nodes g w e mri _ _ _ _ Hod). }
  assert (LS35 : lstep g e s3 s5).
  { split.
    - intros e' Hne. rewrite E45. apply (proj1 L34 e' Hne).
    - intros x Hx. rewrite (proj1 N45 x Hx), N34. reflexivity. }
  assert (M5 : mark_of s5 e = VisitInStack) by (rewrite E45, (proj1 (proj2 L34)); exact M3).
  assert (I5 : ins_of s5 e = eins e) by (rewrite E45, (proj2 (proj2 L34)); exact I3).
  assert (Mi5 : missing s5 e = false).
  { rewrite E45, (eval_inputs_missing e _ _ _ _ _ _ _ _ Hev), E23. apply R2. }
  assert (HR5 : RD s5) by (apply (RD_lstep_open e s3 s5 HR3 LS35 M3 M5)).
  assert (Hown : dirty1 = true -> own_dirty g w e).
  { apply (dirty1_own e s3 s4 mri dirty dirty1 s5 HS3 M3 I3 F3 T3 Hev Hod). }
  assert (Dout5 : forall o, In o (edge_outs g e) -> ns_dirty (nd s5 o) = false).
  { intros o Ho. rewrite (proj2 N45 o), N34. apply (T3 o Ho). }
  (* the outputs of a deps statement still carry the disk's mtime *)
  assert (Hmt5 : ei_deps (g_edge g e) = DepsLog ->
                 forall o, In o (edge_outs g e) -> ns_mtime (nd s5 o) = w_mtime w o).
  { intros Hdk o Ho. destruct (frag_D_edge g e HfD He) as [_ [_ Hlog]]. destruct (Hlog Hdk) as [Hph _].
    assert (s5 = s4).
    { destruct dirty; [inversion Hod; reflexivity|]. rewrite (oda_nonphony g w e mri Hph) in Hod. inversion Hod; reflexivity. }
    subst s5. rewrite N34. apply (T3 o Ho). }
  assert (Hload : load_deps g w s5 e = spec_load g w e).
  { destruct (deps_kind_cases g e HfD He) as [Hdk|Hdk].
    - rewrite (load_deps_none g w e s5 Hdk), (spec_load_none g w e Hdk). reflexivity.
    - apply load_deps_eq. apply (Hmt5 Hdk). }
  assert (Htry : load_deps_try g w s5 e = match spec_load g w e with LdFail => false | _ => true end).
  { destruct (deps_kind_cases g e HfD He) as [Hdk|Hdk].
    - unfold load_deps_try. rewrite Hdk, (spec_load_none g w e Hdk). reflexivity.
    - apply (load_try_spec s5 e He (Hmt5 Hdk)). }
  (* closing the frame from a state [sX] reached from s5 by local steps, without splicing *)
  assert (Close : forall sX, lstep g e s5 sX -> mark_of sX e = VisitInStack -> ins_of sX e = eins e ->
            ready sX e = ready s5 e ->
            (missing sX e = true \/ own_dirty g w e) ->
            (spec_load g w e = LdFail <-> missing sX e = true) ->
            RD (finish_edge g sX e true)).
  { intros sX LSX MX IX RX HD5 HD6.
    assert (LS3X : lstep g e s3 sX) by (apply (lstep_trans g e s3 s5 sX LS35 LSX)).
    pose proof (lstep_finish g e sX true) as LSf.
    destruct (finish_edge_props g e sX true) as [A9 [M9 I9]].
    destruct (st_node_finish_edge g e sX true) as [_ [N9 [_ N9t]]].
    set (s9 := finish_edge g sX e true) in *.
    assert (Keep : forall i, node_final g s3 i ->
              node_final g s9 i /\ forall ie, g_producer g i = Some ie -> st_edge s9 ie = st_edge s3 ie).
    { intros i Hf. destruct (final_lstep e s3 sX i LS3X M3 Hf) as [FX [_ EX]].
      assert (Hno : ~ In i (edge_outs g e)) by (apply (final_not_out g Hwf s3 e i M3 Hf)).
      assert (Hpe : forall ie, g_producer g i = Some ie -> ie <> e).
      { intros ie Hpi ->. apply Hno. apply prod_outD. exact Hpi. }
      split.
      - unfold node_final in *. destruct (g_producer g i) as [ie|] eqn:Hpi.
        + rewrite (A9 ie (Hpe ie eq_refl)). exact FX.
        + rewrite (N9 i Hno). exact FX.
      - intros ie Hpi. rewrite (A9 ie (Hpe ie Hpi)). apply EX. exact Hpi. }
    intros e' He'. destruct (Nat.eq_dec e' e) as [->|Hne].
    2:{ assert (HRX : RD sX) by (apply (RD_lstep_open e s5 sX HR5 LSX M5 MX)).
        apply (RD_lstep e sX s9 e' HRX LSf); [rewrite MX; discriminate|exact Hne|exact He']. }
    assert (I9' : ins_of s9 e = eins e) by (rewrite I9; exact IX).
    assert (Hr9 : ready s9 e = if negb (ei_phony (g_edge g e) && is_nil (eins e)) then false else ready s4 e).
    { unfold s9. rewrite finish_edge_ready. cbn [andb]. rewrite IX, RX, E45. reflexivity. }
    unfold RDat. rewrite I9'.
    split; [intros i Hi; apply (Keep i (F3 i Hi))|]. split; [|split; [|split; [|split]]].
    - intros i ie Hi Hpi Hr. rewrite (proj2 (Keep i (F3 i Hi)) ie Hpi) in Hr.
      rewrite Hr9. destruct (negb _); [reflexivity|].
      destruct (ready s4 e) eqn:Hr4; [|reflexivity].
      destruct (eval_inputs_ready g e _ _ _ _ _ _ _ _ Hev Hr4) as [_ Hall].
      rewrite I3 in Hall. rewrite (Hall i ie Hi Hpi) in Hr. discriminate.
    - intros o Ho _. rewrite Hr9.
      destruct (ei_phony (g_edge g e)); cbn [andb negb]; [|right; reflexivity].
      destruct (is_nil (eins e)) eqn:Hnil; cbn [negb]; [|right; reflexivity].
      left. split; [reflexivity|apply is_nil_true; exact Hnil].
    - intros Hr. rewrite Hr9 in Hr. destruct (negb (ei_phony (g_edge g e) && is_nil (eins e))).
      + left. exists n. split; [apply prod_outD; exact Hp|]. apply (N9t eq_refl n). apply prod_outD; exact Hp.
      + right. destruct (eval_inputs_unready g e _ _ _ _ _ _ _ _ Hev Hr) as [Hr3|[i [ie [Hi [Hpi Hri]]]]].
        * exfalso. rewrite E23 in Hr3. rewrite (proj1 R2) in Hr3. discriminate.
        * rewrite I3 in Hi. exists i, ie. split; [exact Hi|]. split; [exact Hpi|].
          rewrite (proj2 (Keep i (F3 i Hi)) ie Hpi). exact Hri.
    - left. split; [reflexivity|]. unfold s9. rewrite finish_edge_missing. exact HD5.
    - unfold s9. rewrite finish_edge_missing. exact HD6. }
  assert (CloseM : spec_load g w e = LdFail -> RD (finish_edge g (set_deps_missing s5 e true) e true)).
  { intros Hfail. pose proof (local_set_deps_missing e s5 true) as Lm.
    apply Close.
    - apply lstep_of_local; [exact Lm|reflexivity].
    - rewrite (proj1 (proj2 Lm)). exact M5.
    - rewrite (proj2 (proj2 Lm)). exact I5.
    - unfold set_deps_missing. rewrite upd_edge_same. reflexivity.
    - left. unfold set_deps_missing. rewrite upd_edge_same. reflexivity.
    - split; [intros _; unfold set_deps_missing; rewrite upd_edge_same; reflexivity|intros _; exact Hfail]. }
  destruct Hbr as [[Hd1 [_ [b [Hb Hs']]]]|[[Hd1 [Hl [_ Hs']]]|[Hd1 [l [s7 [s8 [mri2 [dirty2 [Hl [V2 [He2 Hs']]]]]]]]]]];
    subst s'.
  - (* dirty before the deps are looked at: the record is only probed *)
    destruct b.
    { apply CloseM. rewrite Htry in Hb. destruct (spec_load g w e); [reflexivity|discriminate|discriminate]. }
    apply Close; [apply lstep_refl|exact M5|exact I5|reflexivity|right; apply Hown; exact Hd1|].
    split; [intros Hf; rewrite Htry, Hf in Hb; discriminate|intros Hmx; rewrite Mi5 in Hmx; discriminate].
  - apply CloseM. rewrite <- Hload. exact Hl.
  - (* the record is loaded: spliced, visited, re-checked *)
    rewrite Hload in Hl.
    destruct (splice_deps_props g e s5 l) as [A6 [Mk6 Ik6]].
    set (s6 := splice_deps g s5 e l) in *.
    assert (LS56 : lstep g e s5 s6) by (split; [exact A6|intros x _; reflexivity]).
    assert (M6 : mark_of s6 e = VisitInStack) by (rewrite Mk6; exact M5).
    assert (HS5 : SInv g w s5) by (apply (SInv_lstep g w Hwf e s3 s5 HS3 LS35); [rewrite M3; discriminate|exact M5]).
    assert (HS6 : SInv g w s6) by (apply (SInv_lstep g w Hwf e s5 s6 HS5 LS56); [rewrite M5; discriminate|exact M6]).
    assert (HR6 : RD s6) by (apply (RD_lstep_open e s5 s6 HR5 LS56 M5 M6)).
    assert (R6 : ready s6 e = ready s5 e /\ missing s6 e = missing s5 e).
    { unfold s6, splice_deps, set_ins. rewrite upd_edge_same. split; reflexivity. }
    destruct (Hvisit _ _ _ _ _ (conj HS6 HR6) V2) as [[HS7 HR7] [V67 F7]].
    assert (E67 : st_edge s7 e = st_edge s6 e) by (apply (ext_marked s6 s7 e (proj1 V67)); rewrite M6; discriminate).
    assert (M7 : mark_of s7 e = VisitInStack) by (rewrite E67; exact M6).
    pose proof (local_eval_inputs g e _ _ _ _ _ _ _ _ He2) as L78.
    pose proof (st_node_eval_inputs g e _ _ _ _ _ _ _ _ He2) as N78.
    assert (LS78 : lstep g e s7 s8) by (apply lstep_of_local; assumption).
    assert (M8 : mark_of s8 e = VisitInStack) by (rewrite (proj1 (proj2 L78)); exact M7).
    assert (HR8 : RD s8) by (apply (RD_lstep_open e s7 s8 HR7 LS78 M7 M8)).
    assert (I8 : ins_of s8 e = splice (eins e) (noo e) l) by (rewrite (proj2 (proj2 L78)), E67, Ik6, I5; reflexivity).
    set (d3 := if negb dirty2 && negb (opt_node_eqb mri mri2) then outputs_dirty_depfile g w e mri2 s8 else dirty2) in *.
    pose proof (lstep_finish g e s8 d3) as LSf.
    destruct (finish_edge_props g e s8 d3) as [A9 [M9 I9]].
    destruct (st_node_finish_edge g e s8 d3) as [_ [N9 [N9f N9t]]].
    set (s9 := finish_edge g s8 e d3) in *.
    assert (LS36 : lstep g e s3 s6) by (apply (lstep_trans g e s3 s5 s6 LS35 LS56)).
    assert (LS79 : lstep g e s7 s9) by (apply (lstep_trans g e s7 s8 s9 LS78 LSf)).
    (* a node final in s7 stays as it is *)
    assert (Keep7 : forall i, node_final g s7 i ->
              node_final g s9 i /\ forall ie, g_producer g i = Some ie -> st_edge s9 ie = st_edge s7 ie).
    { intros i Hf. destruct (final_lstep e s7 s8 i LS78 M7 Hf) as [F8 [_ E8]].
      assert (Hno : ~ In i (edge_outs g e)) by (apply (final_not_out g Hwf s7 e i M7 Hf)).
      assert (Hpe : forall ie, g_producer g i = Some ie -> ie <> e).
      { intros ie Hpi ->. apply Hno. apply prod_outD. exact Hpi. }
      split.
      - unfold node_final in *. destruct (g_producer g i) as [ie|] eqn:Hpi.
        + rewrite (A9 ie (Hpe ie eq_refl)). exact F8.
        + rewrite (N9 i Hno). exact F8.
      - intros ie Hpi. rewrite (A9 ie (Hpe ie Hpi)). apply E8. exact Hpi. }
    assert (Keep37 : forall i, node_final g s3 i ->
              node_final g s7 i /\ forall ie, g_producer g i = Some ie -> st_edge s7 ie = st_edge s3 ie).
    { intros i Hf. destruct (final_lstep e s3 s6 i LS36 M3 Hf) as [F6 [_ E6]].
      destruct (final_vrel g s6 s7 i V67 F6) as [F7' _]. split; [exact F7'|].
      intros ie Hpi. rewrite <- (E6 ie Hpi). apply (ext_marked s6 s7 ie (proj1 V67)).
      unfold node_final in F6. rewrite Hpi in F6. rewrite F6. discriminate. }
    assert (Fall : forall i, In i (splice (eins e) (noo e) l) -> node_final g s7 i).
    { intros i Hi. apply in_splice in Hi. destruct Hi as [Hi|Hi]; [apply (Keep37 i (F3 i Hi))|apply F7; exact Hi]. }
    assert (R48 : ready s4 e = false -> ready s8 e = false).
    { intros Hr. apply (eval_inputs_ready_mono e _ _ _ _ _ _ _ _ He2). rewrite E67, (proj1 R6), E45. exact Hr. }
    intros e' He'. destruct (Nat.eq_dec e' e) as [->|Hne].
    2:{ apply (RD_lstep e s8 s9 e' HR8 LSf); [rewrite M8; discriminate|exact Hne|exact He']. }
    assert (I9' : ins_of s9 e = splice (eins e) (noo e) l) by (rewrite I9; exact I8).
    assert (Hr9 : ready s9 e = if d3 && negb (ei_phony (g_edge g e) && is_nil (ins_of s8 e)) then false else ready s8 e).
    { unfold s9. apply finish_edge_ready. }
    unfold RDat. rewrite I9'.
    split; [intros i Hi; apply (Keep7 i (Fall i Hi))|]. split; [|split; [|split; [|split]]].
    + intros i ie Hi Hpi Hr. rewrite (proj2 (Keep7 i (Fall i Hi)) ie Hpi) in Hr.
      rewrite Hr9. destruct (d3 && _)%bool; [reflexivity|].
      apply in_splice in Hi. destruct Hi as [Hi|Hi].
      * apply R48. rewrite (proj2 (Keep37 i (F3 i Hi)) ie Hpi) in Hr.
        destruct (ready s4 e) eqn:Hr4; [|reflexivity].
        destruct (eval_inputs_ready g e _ _ _ _ _ _ _ _ Hev Hr4) as [_ Hall].
        rewrite I3 in Hall. rewrite (Hall i ie Hi Hpi) in Hr. discriminate.
      * destruct (ready s8 e) eqn:Hr8; [|reflexivity].
        destruct (eval_inputs_ready g e _ _ _ _ _ _ _ _ He2 Hr8) as [_ Hall].
        rewrite (Hall i ie Hi Hpi) in Hr. discriminate.
    + intros o Ho Hd. destruct d3 eqn:Hd3.
      * rewrite Hr9. cbn [andb]. rewrite I8.
        destruct (ei_phony (g_edge g e)); cbn [andb negb]; [|right; reflexivity].
        destruct (is_nil (splice (eins e) (noo e) l)) eqn:Hnil; cbn [negb]; [|right; reflexivity].
        left. split; [reflexivity|apply is_nil_true; exact Hnil].
      * exfalso. rewrite (N9f eq_refl o), N78 in Hd.
        assert (Hs : settled g s6 o) by (unfold settled; rewrite (out_prodD e o Ho), M6; discriminate).
        rewrite (proj2 V67 o Hs) in Hd. change (nd s6 o) with (nd s5 o) in Hd.
        rewrite (Dout5 o Ho) in Hd. discriminate.
    + intros Hr. rewrite Hr9 in Hr.
      destruct (d3 && negb (ei_phony (g_edge g e) && is_nil (ins_of s8 e)))%bool eqn:Hcond.
      * left. exists n. split; [apply prod_outD; exact Hp|].
        apply andb_true_iff in Hcond. destruct Hcond as [Hd3 _]. apply (N9t Hd3 n). apply prod_outD; exact Hp.
      * right. destruct (eval_inputs_unready g e _ _ _ _ _ _ _ _ He2 Hr) as [Hr7|[i [ie [Hi [Hpi Hri]]]]].
        -- rewrite E67, (proj1 R6), E45 in Hr7.
           destruct (eval_inputs_unready g e _ _ _ _ _ _ _ _ Hev Hr7) as [Hr3|[i [ie [Hi [Hpi Hri]]]]].
           ++ exfalso. rewrite E23 in Hr3. rewrite (proj1 R2) in Hr3. discriminate.
           ++ rewrite I3 in Hi. exists i, ie. split; [apply in_splice; left; exact Hi|]. split; [exact Hpi|].
              assert (Hfi : node_final g s7 i) by (apply (Keep37 i (F3 i Hi))).
              rewrite (proj2 (Keep7 i Hfi) ie Hpi), (proj2 (Keep37 i (F3 i Hi)) ie Hpi). exact Hri.
        -- exists i, ie. split; [apply in_splice; right; exact Hi|]. split; [exact Hpi|].
           rewrite (proj2 (Keep7 i (F7 i Hi)) ie Hpi). exact Hri.
    + right. exists l. split; [exact Hl|]. split; [reflexivity|].
      unfold s9. rewrite finish_edge_missing, (eval_inputs_missing e _ _ _ _ _ _ _ _ He2), E67, (proj2 R6). exact Mi5.
    + unfold s9. rewrite finish_edge_missing, (eval_inputs_missing e _ _ _ _ _ _ _ _ He2), E67, (proj2 R6), Mi5.
      split; [intros Hf; rewrite Hf in Hl; discriminate|discriminate].
Qed.

(* no validations: the list of validation nodes stays as it is *)
Lemma rnd_vsD : forall f stack n s vs s' vs',
  rnd f stack n (s, vs) = SOk (s', vs') -> vs' = vs.
Proof.
  induction f as [|f IH]; intros stack n s vs s' vs' H; [discriminate|].
  destruct (g_producer g n) as [e|] eqn:Hp.
  2:{ cbn [recompute_node_dirty] in H. rewrite Hp in H.
      destruct (n_known (st_node s n)); inversion H; reflexivity. }
  destruct (mark_of s e) eqn:Hm.
  2:{ cbn [recompute_node_dirty] in H. rewrite Hp, Hm in H. discriminate. }
  2:{ cbn [recompute_node_dirty] in H. rewrite Hp, Hm in H. inversion H; reflexivity. }
  destruct (frag_D_edge g e HfD (Hwg n e Hp)) as [_ [Hvals _]].
  destruct (rnd_none_ok g w f stack n e s vs Hp Hm s' vs' H)
    as [s3 [vs3 [s5 [new_ins [s6 [s7 [s8 [d [V1 [_ [_ [V2 _]]]]]]]]]]]].
  rewrite Hvals, app_nil_r in V1.
  assert (Hall : forall l a a', visit_all (rnd f (stack ++ [n])) l a = SOk a' -> snd a' = snd a).
  { intros l a a' V.
    destruct (visit_all_rel (fun _ : sv => True) (fun a b : sv => snd b = snd a) (fun _ _ => True)
                            (rnd f (stack ++ [n])) (fun a => eq_refl)
                            (fun a b c H1 H2 => eq_trans H2 H1) (fun _ _ _ _ _ => I) l)
      with (a := a) (a' := a') as [_ [HR _]]; [|exact I|exact V|exact HR].
    intros i [sa va] [sb vb] _ _ Hv. split; [exact I|]. split; [|exact I]. cbn [snd].
    apply (IH _ _ _ _ _ _ Hv). }
  pose proof (Hall _ _ _ V1) as E1. pose proof (Hall _ _ _ V2) as E2. cbn [snd] in E1, E2. congruence.
Qed.

Lemma loop_allD : forall qf queue s found s' vs',
  recompute_dirty_loop g w qf queue s found = SOk (s', vs') -> SInv g w s -> RD s ->
  SInv g w s' /\ RD s' /\ vrel g s s' /\ (forall n, In n queue -> node_final g s' n) /\ vs' = found.
Proof.
  induction qf as [|qf IH]; intros queue s found s' vs' H HS HR; destruct queue as [|n queue];
    cbn [recompute_dirty_loop] in H; try discriminate.
  - inversion H; subst. split; [exact HS|]. split; [exact HR|]. split; [apply vrel_refl|]. split; [intros n []|reflexivity].
  - inversion H; subst. split; [exact HS|]. split; [exact HR|]. split; [apply vrel_refl|]. split; [intros n []|reflexivity].
  - destruct (rnd (scan_fuel g) [] n (s, [])) as [[s1 newv]|c|e|] eqn:Hv; try discriminate.
    destruct (rnd_spec g w Hwf _ _ _ _ _ _ _ Hv HS) as [HS1 [V1 F1]].
    pose proof (rnd_RD _ _ _ _ _ _ _ Hv HS HR) as HR1.
    pose proof (rnd_vsD _ _ _ _ _ _ _ Hv) as Hnv. subst newv. rewrite !app_nil_r in H.
    destruct (IH _ _ _ _ _ H HS1 HR1) as [HS' [HR' [V' [F' Hvs]]]].
    split; [exact HS'|]. split; [exact HR'|]. split; [apply (vrel_trans g s s1 s' V1 V')|].
    split; [|exact Hvs].
    intros m [<-|Hm]; [apply (proj1 (final_vrel g s1 s' n V' F1))|apply F'; exact Hm].
Qed.

(* ---- a deps statement has an output: loading a record never fails hard *)
Lemma load_deps_not_err s e : (e < g_nedges g) -> load_deps g w s e <> LdErr.
Proof.
  intros He. unfold load_deps, edge_outs.
  destruct (frag_D_edge g e HfD He) as [Hnd [_ Hlog]].
  destruct (ei_deps (g_edge g e)) eqn:Hd; [discriminate|congruence|].
  destruct (Hlog eq_refl) as [_ [Hne _]].
  destruct (outs e) as [|o0 os]; [congruence|].
  destruct (w_dlog w o0) as [[dm nodes]|]; [|discriminate].
  destruct (Z.gtb _ _); discriminate.
Qed.

Lemma rnd_no_loaderrD : forall f stack n s vs e',
  rnd f stack n (s, vs) = SLoadErr e' -> False.
Proof.
  induction f as [|f IH]; intros stack n s vs e' H; [discriminate|].
  destruct (g_producer g n) as [e|] eqn:Hp.
  2:{ cbn [recompute_node_dirty] in H. rewrite Hp in H. destruct (n_known (st_node s n)); discriminate. }
  destruct (mark_of s e) eqn:Hm.
  2:{ cbn [recompute_node_dirty] in H. rewrite Hp, Hm in H. discriminate. }
  2:{ cbn [recompute_node_dirty] in H. rewrite Hp, Hm in H. discriminate. }
  pose proof (Hwg n e Hp) as He.
  rewrite (rnd_none_unfold g w f stack n e s vs Hp Hm) in H.
  set (s2 := stat_outputs w (enter_edge s e) (edge_outs g e)) in *.
  set (visit := rnd f (stack ++ [n])) in *.
  assert (Hva : forall l a, visit_all visit l a = SLoadErr e' -> False).
  { intros l a V.
    destruct (visit_all_err (fun _ : sv => True) visit l a (SLoadErr e')) as [i [[sa va] [_ [_ Hv]]]];
      [intros; exact I|exact I|exact V|exact I|].
    apply (IH _ _ _ _ _ Hv). }
  destruct (visit_all visit (ins_of s2 e) (s2, vs ++ ei_vals (g_edge g e))) as [[s3 vs3]|c|e1|] eqn:V1; try discriminate.
  2:{ inversion H; subst e1. apply (Hva _ _ V1). }
  unfold after_inputs in H.
  destruct (eval_inputs g e (ins_of s3 e) 0 s3 None false) as [[s4 mri] dirty].
  destruct (if dirty then (true, s4) else outputs_dirty_all g w e (edge_outs g e) mri s4) as [dirty1 s5].
  destruct (es_deps_loaded (st_edge s e)); [discriminate|].
  destruct dirty1; [destruct (load_deps_try g w s5 e); discriminate|].
  destruct (load_deps g w s5 e) as [| |l] eqn:Hl; [discriminate|apply (load_deps_not_err s5 e He Hl)|].
  destruct (visit_all visit l (splice_deps g s5 e l, vs3)) as [[s7 vs7]|c|e1|] eqn:V2; try discriminate.
  - destruct (eval_inputs g e l _ s7 mri false) as [[s8 mri2] dirty2]. discriminate.
  - inversion H; subst e1. apply (Hva _ _ V2).
Qed.

Lemma scan_no_loaderrD T e : scan g w T <> ScanLoadErr e.
Proof.
  unfold scan. generalize (init_state g) init_plan. induction T as [|t T IH]; intros s p H; cbn [add_targets] in H; [discriminate|].
  pose proof (bat_result g w s p t) as Hb.
  destruct (builder_add_target g w s p t) as [c|m0 d0|e0| |s1 p1]; try discriminate.
  - inversion H; subst e0. unfold recompute_dirty in Hb.
    assert (Hloop : forall qf queue s0 found, recompute_dirty_loop g w qf queue s0 found = SLoadErr e -> False).
    { induction qf as [|qf IHq]; intros queue s0 found Hq; destruct queue as [|n queue]; cbn [recompute_dirty_loop] in Hq; try discriminate.
      destruct (rnd (scan_fuel g) [] n (s0, [])) as [[s1 newv]|c|e1|] eqn:Hv; try discriminate.
      - apply (IHq _ _ _ Hq).
      - apply (rnd_no_loaderrD _ _ _ _ _ _ Hv). }
    apply (Hloop _ _ _ _ Hb).
  - apply (IH s1 p1 H).
Qed.

(* the inputs the scan left in a finished statement are manifest inputs or recorded deps *)
Lemma RD_ins s e : RDat s e -> forall i, In i (ins_of s e) -> In i (eins e) \/ In i (valid_deps g w e).
Proof.
  intros [_ [_ [_ [_ [[[Hi _]|[l [Hl [Hi _]]]] _]]]]] i H.
  - left. rewrite <- Hi. exact H.
  - rewrite Hi in H. apply in_splice in H. unfold valid_deps. rewrite Hl. exact H.
Qed.

Lemma RD_manifest s e : RDat s e -> incl (eins e) (ins_of s e).
Proof.
  intros [_ [_ [_ [_ [[[Hi _]|[l [Hl [Hi _]]]] _]]]]] i H.
  - rewrite Hi. exact H.
  - rewrite Hi. apply in_splice. left; exact H.
Qed.

Lemma valid_in_pot e : incl (valid_deps g w e) (pot_ins g w e).
Proof.
  intros i Hi. unfold pot_ins. apply in_or_app. right. unfold valid_deps in Hi.
  destruct (spec_load g w e) as [| |l] eqn:Hl; try destruct Hi. apply (spec_load_recorded e l Hl). exact Hi.
Qed.

Lemma RD_pot s e : RDat s e -> incl (ins_of s e) (pot_ins g w e).
Proof.
  intros H i Hi. destruct (RD_ins s e H i Hi) as [Hm|Hv].
  - unfold pot_ins. apply in_or_app. left; exact Hm.
  - apply valid_in_pot. exact Hv.
Qed.

(* ---- Plan::AddSubTarget *)
Section PlanD.
Variable T : list node.

Definition reachP : node -> Prop := reach_via g (pot_ins g w) T.
Definition neededP (e : edge) : Prop := exists n, reachP n /\ g_producer g n = Some e.

Definition closed_atD (s : sstate) (p : plan) (e : edge) : Prop :=
  forall i, In i (ins_of s e) -> post g s i p.

Definition PID (s : sstate) (X : edge -> Prop) (p : plan) : Prop :=
  (forall e, p_want p e <> Some WantToFinish) /\
  (forall e, wantd p e -> mark_of s e = VisitDone /\ neededP e /\ ready s e = false) /\
  (forall e, p_want p e = Some WantToStart ->
             exists n, g_producer g n = Some e /\ ns_dirty (nd s n) = true) /\
  (forall e, wantd p e -> ~ X e -> closed_atD s p e).

Lemma ast_loop_PID (s : sstate) (X : edge -> Prop) (visit : node -> plan -> ast_res) :
  (forall i q b err q', visit i q = Some (b, err, q') -> (b = true \/ err = None) ->
     reachP i -> node_final g s i -> PID s X q -> PID s X q' /\ ple q q' /\ post g s i q') ->
  forall ins q b err q',
    ast_loop visit ins q = Some (b, err, q') -> (b = true \/ err = None) ->
    (forall i, In i ins -> reachP i /\ node_final g s i) -> PID s X q ->
    PID s X q' /\ ple q q' /\ forall i, In i ins -> post g s i q'.
Proof.
  intros Hvisit. induction ins as [|i ins IH]; intros q b err q' H Hok Hins HP; cbn [ast_loop] in H.
  - inversion H; subst. split; [exact HP|]. split; [apply ple_refl|intros i []].
  - destruct (visit i q) as [[[bi erri] qi]|] eqn:Hv; [|discriminate].
    destruct (Hins i (or_introl eq_refl)) as [Ri Fi].
    assert (Hcont : ast_loop visit ins qi = Some (b, err, q') /\ (bi = true \/ erri = None)).
    { destruct bi; [split; [exact H|left; reflexivity]|].
      destruct erri as [er|]; [|split; [exact H|right; reflexivity]].
      inversion H; subst. destruct Hok; discriminate. }
    destruct Hcont as [H' Hoki].
    destruct (Hvisit i q bi erri qi Hv Hoki Ri Fi HP) as [HPi [Li Pi]].
    destruct (IH qi b err q' H' Hok (fun j Hj => Hins j (or_intror Hj)) HPi) as [HP' [L' P']].
    split; [exact HP'|]. split; [apply (ple_trans q qi q' Li L')|].
    intros j [<-|Hj]; [apply (post_mono g s i qi q' L' Pi)|apply P'; exact Hj].
Qed.

Lemma ast_PID (s : sstate) : RD s -> forall f X dep n p b err p',
  add_sub_target g f s dep n p = Some (b, err, p') -> (b = true \/ err = None) ->
  reachP n -> node_final g s n -> PID s X p ->
  PID s X p' /\ ple p p' /\ post g s n p'.
Proof.
  intros HR. induction f as [|f IH]; intros X dep n p b err p' H Hok Rn Fn HP; [discriminate|].
  cbn [add_sub_target] in H. unfold post.
  destruct (g_producer g n) as [e|] eqn:Hp.
  2:{ destruct (ns_dirty (st_node s n) && negb (g_byloader g n))%bool eqn:Hd; inversion H; subst.
      - destruct Hok; discriminate.
      - split; [exact HP|]. split; [apply ple_refl|reflexivity]. }
  destruct (es_ready (st_edge s e)) eqn:Hr.
  { inversion H; subst. split; [exact HP|]. split; [apply ple_refl|discriminate]. }
  unfold node_final in Fn. rewrite Hp in Fn.
  destruct HP as [P0 [P1 [P2 P3]]].
  set (w0 := match p_want p e with None => WantNothing | Some v => v end) in *.
  set (v2 := if ns_dirty (st_node s n) && match w0 with WantNothing => true | _ => false end
             then WantToStart else w0).
  set (p2 := if ns_dirty (st_node s n) && match w0 with WantNothing => true | _ => false end
             then edge_wanted g (set_want (set_want p e w0) e WantToStart) e else set_want p e w0) in *.
  assert (W2 : forall e', p_want p2 e' = if Nat.eqb e' e then Some v2 else p_want p e').
  { intros e'. subst p2 v2.
    destruct (ns_dirty (st_node s n) && match w0 with WantNothing => true | _ => false end)%bool;
      cbn [edge_wanted set_want p_want]; destruct (Nat.eqb e' e); reflexivity. }
  assert (Hw0 : w0 <> WantToFinish).
  { subst w0. destruct (p_want p e) as [v|] eqn:Wp; [|discriminate]. intros ->. apply (P0 e Wp). }
  assert (Hv2 : v2 <> WantToFinish /\ (w0 = WantToStart -> v2 = WantToStart) /\
                (ns_dirty (st_node s n) = true -> v2 = WantToStart) /\
                (v2 = WantToStart -> ns_dirty (st_node s n) = true \/ p_want p e = Some WantToStart)).
  { subst v2. destruct (ns_dirty (st_node s n)); cbn [andb].
    - destruct w0 eqn:Ew; [| |contradiction].
      + repeat split; try discriminate; try reflexivity. intros _; left; reflexivity.
      + repeat split; try discriminate; try reflexivity. intros _; left; reflexivity.
    - split; [exact Hw0|]. split; [auto|]. split; [discriminate|].
      intros Hw. right. subst w0. destruct (p_want p e); [congruence|discriminate]. }
  destruct Hv2 as [V2a [V2b [V2c V2d]]].
  assert (L2 : ple p p2).
  { intros e'. unfold wantd. rewrite W2. destruct (Nat.eqb_spec e' e) as [->|Hne]; [|split; auto].
    split; [intros _; discriminate|]. intros Wp. f_equal. apply V2b. subst w0. rewrite Wp. reflexivity. }
  assert (HP2 : forall X' : edge -> Prop, (forall e', X e' -> X' e') -> (wantd p e -> ~ X e -> ~ X' e) ->
                           (p_want p e = None -> X' e) -> PID s X' p2).
  { intros X' HX1 HX2 HX3. split; [|split; [|split]].
    - intros e'. rewrite W2. destruct (Nat.eqb e' e); [congruence|apply P0].
    - intros e'. unfold wantd. rewrite W2. destruct (Nat.eqb_spec e' e) as [->|Hne]; [|apply P1].
      intros _. split; [exact Fn|]. split; [exists n; split; assumption|exact Hr].
    - intros e'. rewrite W2. destruct (Nat.eqb_spec e' e) as [->|Hne]; [|apply P2].
      intros Hw. inversion Hw as [Hw']. destruct (V2d Hw') as [Hd|Hd]; [exists n; split; assumption|apply P2; exact Hd].
    - intros e' Hw HnX. intros i Hi. apply (post_mono g s i p p2 L2).
      destruct (Nat.eq_dec e' e) as [Heq|Hne].
      + subst e'. destruct (p_want p e) eqn:Wp.
        * apply (P3 e); [unfold wantd; rewrite Wp; discriminate| |exact Hi].
          intros HXe. apply HnX. apply HX1. exact HXe.
        * exfalso. apply HnX. apply HX3. reflexivity.
      + unfold wantd in Hw. rewrite W2 in Hw. apply Nat.eqb_neq in Hne. rewrite Hne in Hw.
        apply (P3 e' Hw); [|exact Hi]. intros HXe. apply HnX. apply HX1. exact HXe. }
  assert (Hpost2 : forall q, ple p2 q ->
            wantd q e /\ (ns_dirty (st_node s n) = true -> p_want q e = Some WantToStart)).
  { intros q Lq. destruct (Lq e) as [Lq1 Lq2]. split.
    - apply Lq1. unfold wantd. rewrite W2, Nat.eqb_refl. discriminate.
    - intros Hd. apply Lq2. rewrite W2, Nat.eqb_refl. f_equal. apply V2c. exact Hd. }
  destruct (p_want p e) as [v|] eqn:Wp; cbn [negb] in H.
  - inversion H; subst b err p'.
    split; [apply (HP2 X); [auto|auto|discriminate]|]. split; [exact L2|].
    intros _. apply Hpost2. apply ple_refl.
  - pose proof (HR e Fn) as HRe. destruct HRe as [Ifin HRrest].
    pose proof (RD_pot s e (HR e Fn)) as Hpot.
    set (X' := fun x => X x \/ x = e).
    assert (HP2' : PID s X' p2).
    { apply HP2; [intros e' Hx; left; exact Hx| |intros _; right; reflexivity].
      intros Hw. exfalso. apply Hw. exact Wp. }
    destruct (ast_loop_PID s X' (add_sub_target g f s (Some n))
                (fun i q b0 err0 q' Hv Hok0 Ri Fi HPq => IH X' (Some n) i q b0 err0 q' Hv Hok0 Ri Fi HPq)
                (ins_of s e) p2 b err p' H Hok) as [HP' [L' Pins]]; [|exact HP2'|].
    { intros i Hi. split; [|apply Ifin; exact Hi].
      apply (reach_step g (pot_ins g w) T n i Rn). exists e. split; [exact Hp|apply Hpot; exact Hi]. }
    destruct HP' as [Q0 [Q1 [Q2 Q3]]].
    split; [|split; [apply (ple_trans p p2 p' L2 L')|intros _; apply Hpost2; exact L']].
    split; [exact Q0|]. split; [exact Q1|]. split; [exact Q2|].
    intros e' Hw HnX. destruct (Nat.eq_dec e' e) as [->|Hne]; [exact Pins|].
    apply (Q3 e' Hw). intros [Hx|Hx]; [apply HnX; exact Hx|contradiction].
Qed.

Lemma PID_vrel a b X p : RD a -> vrel g a b -> PID a X p -> PID b X p.
Proof.
  intros HR V [P0 [P1 [P2 P3]]].
  assert (E : forall e, mark_of a e = VisitDone -> st_edge b e = st_edge a e).
  { intros e He. apply (ext_marked a b e (proj1 V)). rewrite He. discriminate. }
  split; [exact P0|]. split; [|split].
  - intros e Hw. destruct (P1 e Hw) as [A [B C]]. rewrite (E e A). repeat split; assumption.
  - intros e Hw. destruct (P2 e Hw) as [n [Hp Hd]]. exists n. split; [exact Hp|].
    assert (Fn : node_final g a n).
    { unfold node_final. rewrite Hp. apply (P1 e). unfold wantd. rewrite Hw. discriminate. }
    rewrite (proj2 (final_vrel g a b n V Fn)). exact Hd.
  - intros e Hw HnX i Hi. destruct (P1 e Hw) as [A _]. destruct (HR e A) as [Ifin _].
    rewrite (E e A) in Hi. apply (post_vrel g a b i p V (Ifin i Hi)). apply (P3 e Hw HnX i Hi).
Qed.

Lemma bat_GID s p t s1 p1 :
  In t T -> builder_add_target g w s p t = ScanOk s1 p1 ->
  SInv g w s -> RD s -> PID s noX p ->
  SInv g w s1 /\ RD s1 /\ vrel g s s1 /\ node_final g s1 t /\
  PID s1 noX p1 /\ ple p p1 /\ post g s1 t p1.
Proof.
  intros Ht Hb HS HR HP. unfold builder_add_target in Hb.
  destruct (recompute_dirty g w s t) as [[s1' vn]|c|e|] eqn:Hrd; try discriminate.
  unfold recompute_dirty in Hrd.
  destruct (loop_allD _ _ _ _ _ _ Hrd HS HR) as [HS1 [HR1 [V1 [F1 Hvn]]]]. subst vn.
  specialize (F1 t (or_introl eq_refl)).
  pose proof (PID_vrel s s1' noX p HR V1 HP) as HP1.
  assert (Rt : reachP t) by (apply reach_target; exact Ht).
  destruct (match g_producer g t with Some e => negb (es_ready (st_edge s1' e)) | None => true end) eqn:Hneed.
  - unfold plan_add_target in Hb.
    destruct (add_sub_target g (plan_fuel g) s1' None t p) as [[[b err] pa]|] eqn:Ha; [|discriminate].
    assert (Hres : (b = true \/ err = None) /\ s1 = s1' /\ p1 = pa).
    { destruct b; [cbn [add_validation_targets] in Hb; inversion Hb; subst; split; [left; reflexivity|split; reflexivity]|].
      destruct err as [[m d]|]; [discriminate|]. inversion Hb; subst. split; [right; reflexivity|split; reflexivity]. }
    destruct Hres as [Hok [-> ->]].
    destruct (ast_PID s1' HR1 _ _ _ _ _ _ _ _ Ha Hok Rt F1 HP1) as [HPa [La Pa]].
    split; [exact HS1|]. split; [exact HR1|]. split; [exact V1|]. split; [exact F1|].
    split; [exact HPa|]. split; [exact La|exact Pa].
  - cbn [add_validation_targets] in Hb. inversion Hb; subst s1' p1.
    split; [exact HS1|]. split; [exact HR1|]. split; [exact V1|]. split; [exact F1|].
    split; [exact HP1|]. split; [apply ple_refl|].
    unfold post. destruct (g_producer g t) as [e|]; [|discriminate].
    apply negb_false_iff in Hneed. intros Hr. congruence.
Qed.

Lemma add_targets_GID : forall rest s p s' p' (Dn : node -> Prop),
  incl rest T ->
  add_targets g w s p rest = ScanOk s' p' ->
  SInv g w s -> RD s -> PID s noX p ->
  (forall t, Dn t -> node_final g s t /\ post g s t p) ->
  SInv g w s' /\ RD s' /\ PID s' noX p' /\
  (forall t, Dn t \/ In t rest -> node_final g s' t /\ post g s' t p').
Proof.
  induction rest as [|t rest IH]; intros s p s' p' Dn Hinc H HS HR HP HD; cbn [add_targets] in H.
  - inversion H; subst. split; [exact HS|]. split; [exact HR|]. split; [exact HP|].
    intros t [Ht|[]]. apply HD; exact Ht.
  - destruct (builder_add_target g w s p t) as [c|m d|e| |s1 p1] eqn:Hb; try discriminate.
    destruct (bat_GID s p t s1 p1 (Hinc t (or_introl eq_refl)) Hb HS HR HP)
      as [HS1 [HR1 [V1 [F1 [HP1 [L1 Pt]]]]]].
    destruct (IH s1 p1 s' p' (fun x => Dn x \/ x = t) (fun x Hx => Hinc x (or_intror Hx)) H HS1 HR1 HP1)
      as [HS' [HR' [HP' HD']]].
    { intros x [Hx|Hx]; [|subst x; split; assumption].
      destruct (HD x Hx) as [Fx Px]. split; [apply (proj1 (final_vrel g s s1 x V1 Fx))|].
      apply (post_mono g s1 x p p1 L1). apply (post_vrel g s s1 x p V1 Fx Px). }
    split; [exact HS'|]. split; [exact HR'|]. split; [exact HP'|].
    intros x [Hx|[<-|Hx]]; apply HD'; [left; left; exact Hx|left; right; reflexivity|right; exact Hx].
Qed.

(* a refused request: the missing source is reached from a target through statements that are not ready *)
Lemma add_targets_missing_D : forall rest s p m d,
  incl rest T -> add_targets g w s p rest = ScanMissing m d ->
  SInv g w s -> RD s -> PID s noX p ->
  exists t s1, In t rest /\ SInv g w s1 /\ RD s1 /\ node_final g s1 t /\ nrpath g s1 t m /\
               g_byloader g m = false /\ g_producer g m = None /\ ns_dirty (nd s1 m) = true.
Proof.
  induction rest as [|t rest IH]; intros s p m d Hinc H HS HR HP; cbn [add_targets] in H; [discriminate|].
  destruct (builder_add_target g w s p t) as [c|m0 d0|e| |s1 p1] eqn:Hb; try discriminate.
  2:{ destruct (bat_GID s p t s1 p1 (Hinc t (or_introl eq_refl)) Hb HS HR HP) as [HS1 [HR1 [_ [_ [HP1 _]]]]].
      destruct (IH s1 p1 m d (fun x Hx => Hinc x (or_intror Hx)) H HS1 HR1 HP1) as [t' [s' [Ht' Hrest]]].
      exists t', s'. split; [right; exact Ht'|exact Hrest]. }
  inversion H; subst m0 d0. clear H. unfold builder_add_target in Hb.
  destruct (recompute_dirty g w s t) as [[s1 vn]|c|e|] eqn:Hrd; try discriminate.
  unfold recompute_dirty in Hrd.
  destruct (loop_allD _ _ _ _ _ _ Hrd HS HR) as [HS1 [HR1 [_ [F1 Hvn]]]]. subst vn.
  specialize (F1 t (or_introl eq_refl)).
  exists t, s1. split; [left; reflexivity|]. split; [exact HS1|]. split; [exact HR1|]. split; [exact F1|].
  destruct (match g_producer g t with Some e => negb (es_ready (st_edge s1 e)) | None => true end).
  - unfold plan_add_target in Hb.
    destruct (add_sub_target g (plan_fuel g) s1 None t p) as [[[b err] pa]|] eqn:Ha; [|discriminate].
    destruct b; [cbn [add_validation_targets] in Hb; discriminate|].
    destruct err as [[m1 d1]|]; [|discriminate]. inversion Hb; subst m1 d1.
    apply (ast_missing_path g _ _ _ _ _ _ _ _ Ha).
  - cbn [add_validation_targets] in Hb. discriminate.
Qed.

Lemma RD_init : RD (init_state g).
Proof. intros e He. cbn in He. discriminate. Qed.

Lemma PID_init : PID (init_state g) noX init_plan.
Proof.
  split; [intros e; cbn; discriminate|]. split; [intros e Hw; exfalso; apply Hw; reflexivity|].
  split; [intros e Hw; cbn in Hw; discriminate|intros e Hw; exfalso; apply Hw; reflexivity].
Qed.

Section AcceptedD.
Variables (s : sstate) (p : plan).
Hypothesis Hscan : scan g w T = ScanOk s p.

Lemma accepted_factsD :
  SInv g w s /\ RD s /\ PID s noX p /\ forall t, In t T -> node_final g s t /\ post g s t p.
Proof.
  destruct (add_targets_GID T (init_state g) init_plan s p (fun _ => False) (incl_refl T) Hscan
              (SInv_init g w) RD_init PID_init) as [A [B [C D]]]; [intros t []|].
  split; [exact A|]. split; [exact B|]. split; [exact C|]. intros t Ht. apply D. right; exact Ht.
Qed.

(* nodes reachable from the targets through the inputs the scan LEFT in the statements *)
Definition reachS : node -> Prop := reach_via g (fun e => ins_of s e) T.

Lemma reach_finalD n : reachS n ->
  node_final g s n /\
  forall e, g_producer g n = Some e -> ready s e = false ->
            wantd p e /\ (ns_dirty (nd s n) = true -> p_want p e = Some WantToStart).
Proof.
  destruct accepted_factsD as [HS [HR [[P0 [P1 [P2 P3]]] HT]]].
  intros Hn. induction Hn as [t Ht|x y Hx IHx [ex [Hex Hin]]].
  - destruct (HT t Ht) as [Ft Pt]. split; [exact Ft|]. intros e He. unfold post in Pt. rewrite He in Pt. exact Pt.
  - destruct IHx as [Fx Px]. unfold node_final in Fx. rewrite Hex in Fx.
    destruct (HR ex Fx) as [Ifin [Irdy _]]. split; [apply Ifin; exact Hin|].
    intros ey Hey Hr. pose proof (Irdy y ey Hin Hey Hr) as Hrx.
    destruct (Px ex Hex Hrx) as [Hw _].
    pose proof (P3 ex Hw (fun F => F) y Hin) as Py. unfold post in Py. rewrite Hey in Py. apply Py. exact Hr.
Qed.

(* kWantToStart only for statements the targets need (through manifest inputs or recorded deps),
   with outputs that must be remade *)
Theorem scan_want_soundD e :
  p_want p e = Some WantToStart ->
  neededP e /\ mark_of s e = VisitDone /\ ready s e = false /\
  exists o, In o (outs e) /\ must_dirty g w o.
Proof.
  destruct accepted_factsD as [[S1 _] [HR [[P0 [P1 [P2 P3]]] HT]]].
  intros Hw. assert (Hwd : wantd p e) by (unfold wantd; rewrite Hw; discriminate).
  destruct (P1 e Hwd) as [Hd [Hn Hr]]. split; [exact Hn|]. split; [exact Hd|]. split; [exact Hr|].
  destruct (P2 e Hw) as [n [Hp Hdirty]]. exists n. split; [apply prod_outD; exact Hp|].
  assert (Fn : node_final g s n) by (unfold node_final; rewrite Hp; exact Hd).
  apply (proj1 (S1 n Fn)). exact Hdirty.
Qed.

(* every statement reached through the inputs the scan left whose outputs must be remade is
   kWantToStart (the input-less phony excepted), and the inputs of a wanted statement are in the plan *)
Theorem scan_want_completeD e :
  (exists n, reachS n /\ g_producer g n = Some e) ->
  (exists o, In o (outs e) /\ must_dirty g w o) ->
  ~ (ei_phony (g_edge g e) = true /\ eins e = []) ->
  p_want p e = Some WantToStart /\ closed_atD s p e.
Proof.
  intros [n [Rn Hp]] [o [Ho Hmd]] Hnp.
  destruct accepted_factsD as [[S1 _] [HR [[P0 [P1 [P2 P3]]] HT]]].
  destruct (reach_finalD n Rn) as [Fn Pn].
  assert (Hd : mark_of s e = VisitDone) by (unfold node_final in Fn; rewrite Hp in Fn; exact Fn).
  assert (Hdn : ns_dirty (nd s n) = true).
  { apply (proj1 (S1 n Fn)). apply (must_dirty_same_prod g w o n e (out_prodD e o Ho) Hp Hmd). }
  pose proof (HR e Hd) as HRe. destruct HRe as [_ [_ [Idirty _]]].
  destruct (Idirty n (prod_outD n e Hp) Hdn) as [[Hph Hnil]|Hr].
  { exfalso. apply Hnp. split; [exact Hph|]. pose proof (RD_manifest s e (HR e Hd)) as Hinc.
    destruct (eins e) as [|i l]; [reflexivity|]. specialize (Hinc i (or_introl eq_refl)). rewrite Hnil in Hinc. destruct Hinc. }
  destruct (Pn e Hp Hr) as [Hw Hts]. split; [apply Hts; exact Hdn|].
  apply (P3 e Hw (fun F => F)).
Qed.

(* every node reached has been looked at: its flag is the specified one *)
Theorem scan_reach_okD n : reachS n -> node_ok g w s n.
Proof.
  destruct accepted_factsD as [[S1 _] _]. intros Rn. apply S1. apply (reach_finalD n Rn).
Qed.

End AcceptedD.
End PlanD.
End ScanD.

(* ================================================================== Part B: one build of the deps variant *)
Lemma wf_spec_now g s : wf_spec g -> wf_spec (graph_now g s).
Proof.
  intros [A [B _]]. split; [exact A|]. split; [exact B|].
  intros e Hd. exfalso. apply Hd. reflexivity.
Qed.

Lemma frag_AB_now g s : frag_D g = true -> frag_AB (graph_now g s) = true.
Proof.
  intros Hf. unfold frag_AB, edges_all. apply forallb_forall. intros e He. apply in_seq in He.
  destruct (frag_D_edge g e Hf) as [_ [Hv _]]; [cbn [graph_now g_nedges] in He; lia|].
  cbn [graph_now g_edge edge_now ei_deps ei_vals ei_ins g_byloader deps_none]. rewrite Hv. cbn [is_nil andb].
  apply forallb_forall. intros i _. reflexivity.
Qed.

(* a statement some output of which must be remade is dirty for HistDefs' test *)
Lemma dirty_now_complete g' st e :
  wf_spec g' -> wf_graph g' -> frag_AB g' = true ->
  (exists o, In o (ei_outs (g_edge g' e)) /\ must_dirty (graph_of g' st) (world_of st) o) ->
  dirty_now g' st e = true.
Proof.
  intros Hwf' Hwg' Hfr [o [Ho Hmd]]. unfold dirty_now.
  destruct (scan (graph_of g' st) (world_of st) (ei_outs (g_edge g' e))) as [c|m d|e'| |s p] eqn:Hs; try reflexivity.
  assert (Hr : reach (graph_of g' st) (ei_outs (g_edge g' e)) o) by (apply reach_target; exact Ho).
  pose proof (scan_reach_ok (graph_of g' st) (world_of st) Hwf' Hwg' Hfr _ s p Hs o Hr) as [Hok _].
  apply existsb_exists. exists o. split; [exact Ho|]. apply Hok. exact Hmd.
Qed.


(* ================================================================== Part C: what is dirty at the scan is still dirty at its turn *)
(* ---- the restat-free cone *)
Lemma taint_length g hid k : length (taint g hid k) = k.
Proof. induction k as [|k IH]; [reflexivity|]. cbn [taint]. rewrite app_length, IH. cbn [length]. lia. Qed.

Lemma taint_prefix g hid k k' u : (u < k)%nat -> (k <= k')%nat ->
  nth u (taint g hid k') false = nth u (taint g hid k) false.
Proof.
  intros Hu Hk. induction Hk as [|k' Hk IH]; [reflexivity|].
  cbn [taint]. rewrite app_nth1 by (rewrite taint_length; lia). exact IH.
Qed.

Lemma existsb_ext_in' {A : Type} (f f' : A -> bool) : forall l,
  (forall a, In a l -> f a = f' a) -> existsb f l = existsb f' l.
Proof.
  induction l as [|a l IH]; intros H; [reflexivity|]. cbn [existsb].
  rewrite (H a (or_introl eq_refl)), IH; [reflexivity|]. intros b Hb. apply H. right; exact Hb.
Qed.

Lemma tainted_spec g hid u :
  topo_ordered (inline g hid) = true -> frag_ABD g hid = true -> (u < g_nedges g)%nat ->
  tainted g hid u = (ei_restat (g_edge g u) || reads_tainted g hid u)%bool.
Proof.
  intros Ht Hf Hu. unfold tainted.
  rewrite (taint_prefix g hid (S u) (g_nedges g) u) by lia.
  cbn [taint]. rewrite app_nth2 by (rewrite taint_length; lia).
  rewrite taint_length, Nat.sub_diag. cbn [nth]. f_equal.
  unfold reads_tainted. apply existsb_ext_in'.
  intros i Hi. destruct (g_producer g i) as [u'|] eqn:Hp; [|reflexivity].
  unfold tainted. symmetry. apply taint_prefix; [|lia].
  pose proof (edges_all_spec (inline g hid) _ u Ht) as H. cbn beta in H.
  specialize (H ltac:(cbn [inline g_nedges]; exact Hu)). rewrite forallb_forall in H.
  assert (Hin : In i (ei_ins (g_edge (inline g hid) u))).
  { rewrite <- (nonoo_inline g hid u Hf Hu) in Hi. apply (nonoo_incl (inline g hid) u). exact Hi. }
  specialize (H i Hin). cbn [inline g_producer] in H. rewrite Hp in H. apply Nat.ltb_lt. exact H.
Qed.



(* ---- a request one manifest refuses for a missing source is refused by the other one as well *)
Section Transfer.
Local Open Scope nat_scope.
Variables (gA gB : graph) (wA wB : world) (T : list node).
Variables (sA sB : sstate) (pB : plan).
Hypothesis HwfA : wf_spec gA.
Hypothesis HwgA : wf_graph gA.
Hypothesis HfA : frag_D gA = true.
Hypothesis HwfB : wf_spec gB.
Hypothesis HwgB : wf_graph gB.
Hypothesis HfB : frag_D gB = true.
Hypothesis Hprod : forall n, g_producer gB n = g_producer gA n.
Hypothesis Houts : forall e, ei_outs (g_edge gB e) = ei_outs (g_edge gA e).
Hypothesis Hmt : forall n, w_mtime wB n = w_mtime wA n.
Hypothesis HSA : SInv gA wA sA.
Hypothesis HRA : RD gA wA sA.
Hypothesis HscanB : scan gB wB T = ScanOk sB pB.
Hypothesis Hmd : forall n, must_dirty gA wA n -> must_dirty gB wB n.
Hypothesis Hins : forall e i, e < g_nedges gA ->
  es_mark (st_edge sA e) = VisitDone -> es_mark (st_edge sB e) = VisitDone ->
  In i (es_ins (st_edge sA e)) ->
  In i (es_ins (st_edge sB e)) \/ (g_producer gA i = None /\ w_mtime wA i <> 0%Z).
Hypothesis Htopo : forall e i e', e < g_nedges gA -> es_mark (st_edge sA e) = VisitDone ->
  In i (es_ins (st_edge sA e)) -> g_producer gA i = Some e' -> e' < e.
Hypothesis HnipB : forall e, e < g_nedges gA -> es_mark (st_edge sB e) = VisitDone ->
  ~ (ei_phony (g_edge gB e) = true /\ es_ins (st_edge sB e) = []).
Hypothesis HblB : forall e m, e < g_nedges gA -> es_mark (st_edge sB e) = VisitDone ->
  In m (es_ins (st_edge sB e)) -> g_producer gA m = None -> w_mtime wA m = 0%Z -> g_byloader gB m = false.
Hypothesis HblT : forall t, In t T -> g_byloader gB t = false.

Let AFB := accepted_factsD gB wB HwfB HwgB HfB T sB pB HscanB.

Lemma nonready_transfer : forall e, e < g_nedges gA ->
  es_mark (st_edge sA e) = VisitDone -> es_mark (st_edge sB e) = VisitDone ->
  es_ready (st_edge sA e) = false -> es_ready (st_edge sB e) = false.
Proof.
  induction e as [e IH] using lt_wf_ind. intros He HdA HdB Hr.
  destruct AFB as [[S1B _] [HRB _]]. destruct HSA as [S1A _].
  destruct (HRA e HdA) as [D1A [_ [_ [D4A _]]]]. destruct (HRB e HdB) as [D1B [D2B [D3B _]]].
  destruct (D4A Hr) as [[o [Ho Hdo]]|[i [e' [Hi [Hp Hr']]]]].
  - assert (FA : node_final gA sA o) by (unfold node_final; rewrite (proj1 HwfA e o Ho); exact HdA).
    pose proof (Hmd o (proj1 (proj1 (S1A o FA)) Hdo)) as HmB.
    assert (HoB : In o (ei_outs (g_edge gB e))) by (rewrite Houts; exact Ho).
    assert (FB : node_final gB sB o) by (unfold node_final; rewrite (proj1 HwfB e o HoB); exact HdB).
    destruct (D3B o HoB (proj2 (proj1 (S1B o FB)) HmB)) as [Hc|Hrb]; [|exact Hrb].
    exfalso. apply (HnipB e He HdB Hc).
  - pose proof (Htopo e i e' He HdA Hi Hp) as Hlt.
    assert (HdA' : es_mark (st_edge sA e') = VisitDone).
    { pose proof (D1A i Hi) as F. unfold node_final in F. rewrite Hp in F. exact F. }
    destruct (Hins e i He HdA HdB Hi) as [HiB|[Hc _]]; [|congruence].
    assert (HdB' : es_mark (st_edge sB e') = VisitDone).
    { pose proof (D1B i HiB) as F. unfold node_final in F. rewrite Hprod, Hp in F. exact F. }
    apply (D2B i e' HiB); [rewrite Hprod; exact Hp|].
    apply (IH e' Hlt ltac:(lia) HdA' HdB' Hr').
Qed.

Lemma walk_transfer : forall n m, nrpath gA sA n m ->
  node_final gA sA n -> node_final gB sB n -> post gB sB n pB ->
  g_producer gA m = None -> w_mtime wA m = 0%Z ->
  post gB sB m pB /\ node_final gB sB m /\
  (m = n \/ exists e, e < g_nedges gA /\ es_mark (st_edge sB e) = VisitDone /\ In m (es_ins (st_edge sB e))).
Proof.
  intros n m H. induction H as [n|n e i m Hp Hr Hi Hpath IH]; intros FA FB Pn Hpm Hz.
  - split; [exact Pn|]. split; [exact FB|left; reflexivity].
  - destruct AFB as [_ [HRB [[_ [_ [_ P3]]] _]]].
    pose proof (HwgA n e Hp) as He.
    assert (HdA : es_mark (st_edge sA e) = VisitDone) by (unfold node_final in FA; rewrite Hp in FA; exact FA).
    assert (HdB : es_mark (st_edge sB e) = VisitDone) by (unfold node_final in FB; rewrite Hprod, Hp in FB; exact FB).
    pose proof (nonready_transfer e He HdA HdB Hr) as HrB.
    unfold post in Pn. rewrite Hprod, Hp in Pn. destruct (Pn HrB) as [Hw _].
    destruct (HRA e HdA) as [D1A _]. destruct (HRB e HdB) as [D1B _].
    destruct (Hins e i He HdA HdB Hi) as [HiB|[Hpi Hnz]].
    + destruct (IH (D1A i Hi) (D1B i HiB) (P3 e Hw (fun F => F) i HiB) Hpm Hz) as [Pm [Fm Hwhere]].
      split; [exact Pm|]. split; [exact Fm|]. right.
      destruct Hwhere as [->|Hex]; [exists e; split; [exact He|split; [exact HdB|exact HiB]]|exact Hex].
    + exfalso. inversion Hpath as [n0 Heq|n0 e0 i0 m0 Hp0 _ _ _]; subst; [contradiction|congruence].
Qed.

Theorem transfer_contra t m : In t T -> node_final gA sA t -> nrpath gA sA t m ->
  g_producer gA m = None -> ns_dirty (st_node sA m) = true ->
  (node_final gA sA m) -> False.
Proof.
  intros Ht FA Hpath Hpm Hd FmA.
  destruct AFB as [[S1B _] [_ [_ HT]]]. destruct HSA as [S1A _].
  assert (Hz : w_mtime wA m = 0%Z).
  { apply (must_dirty_leaf_inv gA wA m (proj1 (proj1 (S1A m FmA)) Hd) Hpm). }
  destruct (HT t Ht) as [FB Pt].
  destruct (walk_transfer t m Hpath FA FB Pt Hpm Hz) as [Pm [Fm Hwhere]].
  unfold post in Pm. rewrite Hprod, Hpm in Pm.
  assert (HdB : ns_dirty (st_node sB m) = true).
  { apply (proj2 (proj1 (S1B m Fm))). apply md_leaf; [rewrite Hprod; exact Hpm|rewrite Hmt; exact Hz]. }
  rewrite HdB in Pm. cbn [andb] in Pm. apply negb_false_iff in Pm.
  destruct Hwhere as [->|[e [He [HdBe Hin]]]].
  - rewrite (HblT t Ht) in Pm. discriminate.
  - rewrite (HblB e m He HdBe Hin Hpm Hz) in Pm. discriminate.
Qed.

End Transfer.

(* ---- "missing and no known rule" is only ever said about a node of the manifest *)
Lemma ast_loop_missing (visit : node -> plan -> ast_res) : forall ins p err p',
  ast_loop visit ins p = Some (false, Some err, p') ->
  exists i q q', visit i q = Some (false, Some err, q').
Proof.
  induction ins as [|i ins IH]; intros p err p' H; cbn [ast_loop] in H; [discriminate|].
  destruct (visit i p) as [[[b e0] q]|] eqn:Hv; [|discriminate].
  destruct b.
  - apply (IH q err p' H).
  - destruct e0 as [er|].
    + inversion H; subst. exists i, p, p'. exact Hv.
    + apply (IH q err p' H).
Qed.

Lemma ast_missing g : forall f s dep n p m d p',
  add_sub_target g f s dep n p = Some (false, Some (m, d), p') ->
  g_byloader g m = false /\ g_producer g m = None /\ ns_dirty (st_node s m) = true.
Proof.
  induction f as [|f IH]; intros s dep n p m d p' H; [discriminate|]. cbn [add_sub_target] in H.
  destruct (g_producer g n) as [e|] eqn:Hp.
  - destruct (es_ready (st_edge s e)); [discriminate|].
    destruct (negb match p_want p e with None => true | Some _ => false end); [discriminate|].
    destruct (ast_loop_missing _ _ _ _ _ H) as [i [q [q' Hv]]]. apply (IH _ _ _ _ _ _ _ Hv).
  - destruct (ns_dirty (st_node s n) && negb (g_byloader g n))%bool eqn:Hc; [|discriminate].
    inversion H; subst m d p'. apply andb_true_iff in Hc. destruct Hc as [Hd Hb]. apply negb_true_iff in Hb.
    split; [exact Hb|]. split; [exact Hp|exact Hd].
Qed.

Lemma scan_missing_byloader g w : forall T s p m d,
  add_targets g w s p T = ScanMissing m d -> g_byloader g m = false.
Proof.
  induction T as [|t T IH]; intros s p m d H; cbn [add_targets] in H; [discriminate|].
  destruct (builder_add_target g w s p t) as [c|m0 d0|e| |s1 p1] eqn:Hb; try discriminate.
  2:{ apply (IH s1 p1 m d H). }
  inversion H; subst m0 d0. clear H. unfold builder_add_target in Hb.
  destruct (recompute_dirty g w s t) as [[s1 vn]|c|e|]; try discriminate.
  assert (Havt : forall vnodes p0, add_validation_targets g s1 vnodes p0 = ScanMissing m d -> g_byloader g m = false).
  { induction vnodes as [|v vnodes IHv]; intros p0 H; cbn [add_validation_targets] in H; [discriminate|].
    destruct (g_producer g v) as [ve|]; [|apply (IHv p0 H)].
    destruct (es_ready (st_edge s1 ve)); [apply (IHv p0 H)|].
    unfold plan_add_target in H.
    destruct (add_sub_target g (plan_fuel g) s1 None v p0) as [[[b err] p']|] eqn:Ha; [|discriminate].
    destruct b; [apply (IHv p' H)|]. destruct err as [[m1 d1]|]; [|discriminate].
    inversion H; subst m1 d1. apply (ast_missing g _ _ _ _ _ _ _ _ Ha). }
  destruct (match g_producer g t with Some e => negb (es_ready (st_edge s1 e)) | None => true end).
  - unfold plan_add_target in Hb.
    destruct (add_sub_target g (plan_fuel g) s1 None t p) as [[[b err] p']|] eqn:Ha; [|discriminate].
    destruct b; [apply (Havt vn p' Hb)|]. destruct err as [[m1 d1]|]; [|discriminate].
    inversion Hb; subst m1 d1. apply (ast_missing g _ _ _ _ _ _ _ _ Ha).
  - apply (Havt vn p Hb).
Qed.

(* ---- comparing the declarative dirty state of two manifests over the same nodes *)
Lemma newer_ext (g1 g2 : graph) (w1 w2 : world) :
  (forall n, w_mtime w2 n = w_mtime w1 n) -> (forall n, g_producer g2 n = g_producer g1 n) ->
  (forall n e, g_producer g1 n = Some e -> ei_phony (g_edge g1 e) = true ->
               ei_phony (g_edge g2 e) = true /\ incl (nonoo_ins g1 e) (nonoo_ins g2 e)) ->
  forall x i, newer_than g1 w1 x i -> newer_than g2 w2 x i.
Proof.
  intros Hm Hp Hph x i H. induction H as [i Hnz Hlt|i Hz Hlt|i e j Hz Hpi Hphe Hj Hn IH].
  - apply nt_file; rewrite Hm; assumption.
  - apply nt_missing; [rewrite Hm|]; assumption.
  - destruct (Hph i e Hpi Hphe) as [Hph2 Hinc].
    apply (nt_phony g2 w2 x i e j); [rewrite Hm; exact Hz|rewrite Hp; exact Hpi|exact Hph2|apply Hinc; exact Hj|exact IH].
Qed.

Definition same_static (g1 g2 : graph) : Prop :=
  forall e, ei_phony (g_edge g2 e) = ei_phony (g_edge g1 e) /\
            ei_restat (g_edge g2 e) = ei_restat (g_edge g1 e) /\
            ei_generator (g_edge g2 e) = ei_generator (g_edge g1 e) /\
            ei_hash (g_edge g2 e) = ei_hash (g_edge g1 e) /\
            ei_outs (g_edge g2 e) = ei_outs (g_edge g1 e) /\
            ei_vals (g_edge g2 e) = ei_vals (g_edge g1 e).

Lemma md_transfer (g1 g2 : graph) (w1 w2 : world) :
  (forall n, w_mtime w2 n = w_mtime w1 n) -> (forall n, w_blog w2 n = w_blog w1 n) ->
  (forall n, g_producer g2 n = g_producer g1 n) -> same_static g1 g2 ->
  (forall x i, newer_than g1 w1 x i -> newer_than g2 w2 x i) ->
  (forall n e, g_producer g1 n = Some e ->
     (forall n', g_producer g1 n' = Some e -> must_dirty g2 w2 n') \/
     (incl (spec_ins g1 w1 e) (spec_ins g2 w2 e) /\ spec_load g1 w1 e <> LdFail /\
      (ei_phony (g_edge g1 e) = true -> ei_ins (g_edge g1 e) = [] -> ei_ins (g_edge g2 e) = []))) ->
  forall n, must_dirty g1 w1 n -> must_dirty g2 w2 n.
Proof.
  intros Hm Hb Hp Hst HN Hc n H.
  induction H as [n Hpn Hz|n e i Hpn Hi Hd IH|n e o Hpn Hph Hin Hv Ho Hz|n e o Hpn Hph Ho Hr|n e Hpn Hl].
  - apply md_leaf; [rewrite Hp; exact Hpn|rewrite Hm; exact Hz].
  - destruct (Hc n e Hpn) as [Hall|[Hinc _]]; [apply Hall; exact Hpn|].
    apply (md_input g2 w2 n e i); [rewrite Hp; exact Hpn|apply Hinc; exact Hi|exact IH].
  - destruct (Hc n e Hpn) as [Hall|[_ [_ Hnil]]]; [apply Hall; exact Hpn|].
    destruct (Hst e) as [E1 [_ [_ [_ [E5 E6]]]]].
    apply (md_phony g2 w2 n e o); [rewrite Hp; exact Hpn|rewrite E1; exact Hph|apply Hnil; assumption|rewrite E6; exact Hv|rewrite E5; exact Ho|rewrite Hm; exact Hz].
  - destruct (Hc n e Hpn) as [Hall|[Hinc _]]; [apply Hall; exact Hpn|].
    destruct (Hst e) as [E1 [E2 [E3 [E4 [E5 _]]]]].
    apply (md_self g2 w2 n e o); [rewrite Hp; exact Hpn|rewrite E1; exact Hph|rewrite E5; exact Ho|].
    assert (HNN : forall x, (exists i, In i (spec_ins g1 w1 e) /\ newer_than g1 w1 x i) ->
                            exists i, In i (spec_ins g2 w2 e) /\ newer_than g2 w2 x i).
    { intros x [i [Hi Hn]]. exists i. split; [apply Hinc; exact Hi|apply HN; exact Hn]. }
    unfold out_reason, base_reason, time_reason, used_restat in *. rewrite Hm, Hb, E2, E3, E4.
    destruct Hr as [Hbase|[[Hu Hn]|Ht]]; [left; exact Hbase|right; left; split; [exact Hu|apply HNN; exact Hn]|].
    right; right. destruct (w_blog w1 o) as [[h m]|]; [apply HNN; exact Ht|exact Ht].
  - destruct (Hc n e Hpn) as [Hall|[_ [Hnf _]]]; [apply Hall; exact Hpn|contradiction].
Qed.

Lemma existsb_false {A : Type} (f : A -> bool) l : (forall a, In a l -> f a = false) -> existsb f l = false.
Proof.
  induction l as [|a l IH]; intros H; [reflexivity|]. cbn [existsb].
  rewrite (H a (or_introl eq_refl)), IH; [reflexivity|]. intros b Hb. apply H. right; exact Hb.
Qed.

(* when nothing the statement needs must be remade, HistDefs' test says clean *)
Lemma dirty_now_false g' X k :
  wf_spec g' -> wf_graph g' -> frag_AB g' = true -> topo_ordered g' = true ->
  (forall e, neededE (graph_of g' X) (ei_outs (g_edge g' k)) e ->
             forall o, In o (ei_outs (g_edge g' e)) -> ~ must_dirty (graph_of g' X) (world_of X) o) ->
  dirty_now g' X k = false.
Proof.
  intros Hwf' Hwg' Hfr Htp Hclean. unfold dirty_now.
  destruct (scan_accepts (graph_of g' X) (world_of X) Hwf' Hwg' Hfr (ei_outs (g_edge g' k)) Htp) as [s [p Hs]].
  - intros t Ht Hpt. exfalso. cbn [graph_of g_producer] in Hpt. rewrite (proj1 Hwf' k t Ht) in Hpt. discriminate.
  - exact Hclean.
  - rewrite Hs. apply existsb_false. intros o Ho.
    destruct (ns_dirty (st_node s o)) eqn:Hd; [|reflexivity]. exfalso.
    assert (Hr : reach (graph_of g' X) (ei_outs (g_edge g' k)) o) by (apply reach_target; exact Ho).
    pose proof (scan_reach_ok (graph_of g' X) (world_of X) Hwf' Hwg' Hfr _ s p Hs o Hr) as [Hok _].
    apply (Hclean k (ex_intro _ o (conj Hr (proj1 Hwf' k o Ho))) o Ho). apply Hok. exact Hd.
Qed.

Lemma run_edge_trace cmd g st e : h_trace (run_edge cmd g st e) = e :: h_trace st.
Proof.
  unfold run_edge, finish_run. cbn [record h_trace].
  destruct (write_outs_spec (ei_restat (g_edge g e)) (cmd e (h_hash st e) (reads g st e))
              (ei_outs (g_edge g e)) (tick st)) as [_ [_ [_ [Tr _]]]].
  cbn zeta in Tr. rewrite Tr. reflexivity.
Qed.

Section PartA.
Variable cmd : edge -> N -> snapshot -> node -> content.
Variable g : graph.
Variable hid : edge -> list node.
Hypothesis Hwf : wf_spec g.
Hypothesis Hwg : wf_graph g.
Hypothesis Hfrag : frag_ABD g hid = true.
Hypothesis Htopo : topo_ordered (inline g hid) = true.

Notation gi := (inline g hid).
Notation outs e := (ei_outs (g_edge g e)).
Notation phony e := (ei_phony (g_edge g e)).

Let HfD : frag_D g = true := frag_ABD_D g hid Hfrag.
Let Hwfi : wf_spec gi := wf_spec_inline g hid Hwf.

Lemma o_prod_d e o : In o (outs e) -> g_producer g o = Some e.
Proof. apply (proj1 Hwf). Qed.

(* one command of the deps variant is one command of the inlined variant *)
Lemma drun_edge_h ds e : (e < g_nedges g)%nat ->
  d_h (drun_edge cmd g hid ds e) = run_edge cmd gi (d_h ds) e.
Proof.
  intros He. unfold drun_edge, run_edge. cbn [d_h]. unfold dreads, reads.
  rewrite (nonoo_inline g hid e Hfrag He). reflexivity.
Qed.

Lemma drun_edge_deps ds e :
  d_deps (drun_edge cmd g hid ds e) =
  record_deps g hid (d_h (drun_edge cmd g hid ds e)) e (d_deps ds).
Proof. reflexivity. Qed.

Definition GoodD (ds : dstate) : Prop := Good cmd gi (d_h ds) /\ DepsOk g hid ds.

Lemma goodd_init : GoodD (init_dstate g).
Proof.
  split; [apply (good_init cmd gi)|]. split.
  - intros o dm l H. discriminate.
  - intros e o _ _ H. exfalso. apply H. reflexivity.
Qed.

Lemma depsok_lift f ds :
  DepsOk g hid ds ->
  h_blog (f (d_h ds)) = h_blog (d_h ds) ->
  (forall e o, ei_deps (g_edge g e) = DepsLog -> In o (outs e) ->
               mtime_of (f (d_h ds)) o <= mtime_of (d_h ds) o) ->
  DepsOk g hid (dlift f ds).
Proof.
  intros [A B] Hb Hm. split; [exact A|].
  intros e o Hd Ho Hbl. cbn [dlift d_h d_deps] in *. rewrite Hb in Hbl.
  destruct (B e o Hd Ho Hbl) as [dm [Hr Hle]]. exists dm. split; [exact Hr|].
  specialize (Hm e o Hd Ho). lia.
Qed.

Lemma goodd_edit ds n c : GoodD ds -> is_source g n = true ->
  GoodD (dlift (fun st => write_file st n c) ds).
Proof.
  intros [HG HD] Hs. split.
  - cbn [dlift d_h]. split; [apply (stateok_edit gi); [exact (proj1 HG)|exact Hs]|].
    apply (logsound_edit cmd gi Hwfi); assumption.
  - apply depsok_lift; [exact HD|reflexivity|].
    intros e o _ Ho. unfold mtime_of. cbn [write_file h_disk]. unfold upd.
    destruct (Nat.eqb_spec o n) as [->|_]; [|lia].
    unfold is_source in Hs. rewrite (o_prod_d e n Ho) in Hs. discriminate.
Qed.

Lemma goodd_delete ds n : GoodD ds -> GoodD (dlift (fun st => delete_file st n) ds).
Proof.
  intros [HG HD]. split.
  - cbn [dlift d_h]. split; [apply (stateok_delete gi); exact (proj1 HG)|apply (logsound_delete cmd gi); exact HG].
  - apply depsok_lift; [exact HD|reflexivity|].
    intros e o _ _. unfold mtime_of. cbn [delete_file h_disk]. unfold upd.
    destruct (Nat.eqb o n); [|lia].
    destruct (h_disk (d_h ds) o) as [[m c]|] eqn:Hd; [|lia].
    destruct HG as [[_ [B _]] _]. specialize (B o m c Hd). lia.
Qed.

Lemma goodd_setcmd ds e h : GoodD ds -> GoodD (dlift (fun st => set_cmd st e h) ds).
Proof.
  intros [HG HD]. split; [exact HG|].
  apply depsok_lift; [exact HD|reflexivity|]. intros e' o _ _. unfold mtime_of. cbn [set_cmd h_disk]. lia.
Qed.

(* what one command does to the state of the deps variant *)
Lemma drun_edge_spec ds e : GoodD ds -> (e < g_nedges g)%nat -> phony e = false ->
  let ds' := drun_edge cmd g hid ds e in
  GoodD ds' /\
  h_hash (d_h ds') = h_hash (d_h ds) /\
  h_trace (d_h ds') = e :: h_trace (d_h ds) /\
  (forall n, ~ In n (outs e) ->
     h_disk (d_h ds') n = h_disk (d_h ds) n /\ h_blog (d_h ds') n = h_blog (d_h ds) n /\
     h_ghost (d_h ds') n = h_ghost (d_h ds) n /\ d_deps ds' n = d_deps ds n) /\
  (forall o, In o (outs e) -> h_blog (d_h ds') o <> None /\ h_disk (d_h ds') o <> None).
Proof.
  intros [HG HD] He Hph. cbn zeta.
  pose proof (drun_edge_h ds e He) as Eh.
  destruct HG as [[A [B [C [D E]]]] L].
  destruct (run_edge_spec cmd gi (d_h ds) e A B) as [Hh [Hc [Hout [Hfs [Hd [[m [Hm Hlog]] _]]]]]]. cbn zeta in *.
  rewrite <- Eh in *. set (ds' := drun_edge cmd g hid ds e) in *.
  assert (HG' : Good cmd gi (d_h ds')).
  { rewrite Eh. apply (good_run cmd gi Hwfi Htopo); [split; [split; [exact A|split; [exact B|split; [exact C|split; [exact D|exact E]]]]|exact L]|exact He|exact Hph]. }
  assert (Hrec : forall n, ~ In n (outs e) -> d_deps ds' n = d_deps ds n).
  { intros n Hn. unfold ds'. rewrite drun_edge_deps. unfold record_deps.
    destruct (is_deps_log (ei_deps (g_edge g e))); [|reflexivity]. rewrite (mem_node_false n _ Hn). reflexivity. }
  split; [split; [exact HG'|]|].
  - destruct HD as [D1 D2]. split.
    + intros o dm l Hr. destruct (in_dec Nat.eq_dec o (outs e)) as [Hin|Hnin].
      * unfold ds' in Hr. rewrite drun_edge_deps in Hr. unfold record_deps in Hr.
        destruct (ei_deps (g_edge g e)) eqn:Hdk; cbn [is_deps_log] in Hr;
          [apply (D1 o dm l Hr)|apply (D1 o dm l Hr)|].
        rewrite (proj2 (mem_node_In o _) Hin) in Hr. inversion Hr; subst dm l. split.
        -- unfold mtime_of. destruct (h_disk _ o) as [[mo c]|] eqn:Hdo; [|lia]. fold ds' in Hdo. specialize (Hd o mo c Hdo). lia.
        -- exists e. split; [exact Hin|]. split; [exact Hdk|reflexivity].
      * rewrite (Hrec o Hnin) in Hr. apply (D1 o dm l Hr).
    + intros e' o Hdk Ho Hbl. destruct (in_dec Nat.eq_dec o (outs e)) as [Hin|Hnin].
      * assert (e' = e) by (pose proof (o_prod_d e' o Ho) as H1; rewrite (o_prod_d e o Hin) in H1; congruence). subst e'.
        exists (mtime_of (d_h ds') o). split; [|lia].
        unfold ds' at 1. rewrite drun_edge_deps. unfold record_deps. rewrite Hdk. cbn [is_deps_log].
        rewrite (proj2 (mem_node_In o _) Hin). reflexivity.
      * destruct (Hout o Hnin) as [E1 [E2 _]]. rewrite E2 in Hbl.
        destruct (D2 e' o Hdk Ho Hbl) as [dm [Hr Hle]]. exists dm. rewrite (Hrec o Hnin). split; [exact Hr|].
        unfold mtime_of in *. rewrite E1. exact Hle.
  - split; [exact Hh|]. split; [rewrite Eh; apply run_edge_trace|]. split.
    + intros n Hn. destruct (Hout n Hn) as [E1 [E2 E3]]. repeat split; [exact E1|exact E2|exact E3|apply Hrec; exact Hn].
    + intros o Ho. destruct (Hlog o Ho) as [Hb [_ [mo Hdo]]]. rewrite Hb, Hdo. split; discriminate.
Qed.

(* ---- one invocation: the loop invariant *)
Section BuildD.
Variables (ds0 : dstate) (s0 : sstate) (p0 : plan).
Hypothesis HG0 : GoodD ds0.

Notation dstk k := (dbuild_upto cmd g hid s0 p0 k ds0).

Lemma dbuild_upto_S k : dstk (S k) = dbuild_step cmd g hid s0 p0 (dstk k) k.
Proof. unfold dbuild_upto. rewrite seq_S, fold_left_app. reflexivity. Qed.

Lemma dstep_cases k :
  (dstk (S k) = drun_edge cmd g hid (dstk k) k /\ want_start p0 k = true /\ phony k = false /\
   dirty_now_d g s0 (dstk k) k = true) \/
  (dstk (S k) = dstk k /\
   (phony k = true \/ want_start p0 k = false \/ dirty_now_d g s0 (dstk k) k = false)).
Proof.
  rewrite dbuild_upto_S. unfold dbuild_step.
  destruct (want_start p0 k); [|right; split; [reflexivity|right; left; reflexivity]].
  destruct (phony k); [right; split; [reflexivity|left; reflexivity]|].
  destruct (dirty_now_d g s0 (dstk k) k); [left; repeat split; reflexivity|].
  right; split; [reflexivity|right; right; reflexivity].
Qed.

(* only outputs of wanted real statements below [k] have changed *)
Definition FrameD (k : nat) (ds : dstate) : Prop :=
  forall n, (h_disk (d_h ds) n = h_disk (d_h ds0) n /\ h_blog (d_h ds) n = h_blog (d_h ds0) n /\
             h_ghost (d_h ds) n = h_ghost (d_h ds0) n /\ d_deps ds n = d_deps ds0 n) \/
            (exists e, g_producer g n = Some e /\ (e < k)%nat /\ want_start p0 e = true /\ phony e = false).

Lemma dbuild_inv1 k : (k <= g_nedges g)%nat ->
  GoodD (dstk k) /\ h_hash (d_h (dstk k)) = h_hash (d_h ds0) /\ FrameD k (dstk k) /\
  h_clock (d_h ds0) <= h_clock (d_h (dstk k)).
Proof.
  induction k as [|k IH]; intros Hk.
  - split; [exact HG0|]. split; [reflexivity|]. split; [|cbn; lia]. intros n. left. repeat split; reflexivity.
  - destruct IH as [HGk [Hh [Hf Hcl]]]; [lia|].
    destruct (dstep_cases k) as [[Hs [Hw [Hph _]]]|[Hs _]]; rewrite Hs.
    + destruct (drun_edge_spec (dstk k) k HGk ltac:(lia) Hph) as [HG' [Hh' [_ [Hout _]]]]. cbn zeta in *.
      split; [exact HG'|]. split; [congruence|]. split.
      * intros n. destruct (in_dec Nat.eq_dec n (outs k)) as [Hin|Hnin].
        -- right. exists k. split; [apply o_prod_d; exact Hin|]. split; [lia|]. split; assumption.
        -- destruct (Hout n Hnin) as [E1 [E2 [E3 E4]]]. rewrite E1, E2, E3, E4.
           destruct (Hf n) as [Hsm|[e [He [Hlt Hr]]]]; [left; exact Hsm|].
           right. exists e. split; [exact He|]. split; [lia|exact Hr].
      * rewrite (drun_edge_h (dstk k) k ltac:(lia)).
        destruct (proj1 HGk) as [[A [B _]] _].
        destruct (run_edge_spec cmd gi (d_h (dstk k)) k A B) as [_ [Hc _]]. cbn zeta in Hc. lia.
    + split; [exact HGk|]. split; [exact Hh|]. split; [|exact Hcl].
      intros n. destruct (Hf n) as [Hsm|[e [He [Hlt Hr]]]]; [left; exact Hsm|].
      right. exists e. split; [exact He|]. split; [lia|exact Hr].
Qed.

End BuildD.

Lemma goodd_build ds T ds' : GoodD ds -> dbuild cmd g hid ds T = Some ds' -> GoodD ds'.
Proof.
  intros HG H. unfold dbuild in H. destruct (dscan g ds T) as [c|m d|e| |s p]; try discriminate.
  inversion H; subst ds'. apply (dbuild_inv1 ds s p HG (g_nedges g) (le_n _)).
Qed.

Theorem goodd_step ds x : GoodD ds -> step_ok g x = true -> GoodD (dapply_step cmd g hid ds x).
Proof.
  intros HG Hok. destruct x as [n c|n|e h|T]; cbn [dapply_step step_ok] in *.
  - apply goodd_edit; assumption.
  - apply goodd_delete; exact HG.
  - apply goodd_setcmd; exact HG.
  - destruct (dbuild cmd g hid ds T) as [ds'|] eqn:Hb; [|exact HG]. apply (goodd_build ds T ds' HG Hb).
Qed.

Theorem goodd_hist : forall h ds, GoodD ds -> hist_ok g h = true -> GoodD (drun_hist cmd g hid ds h).
Proof.
  induction h as [|x h IH]; intros ds HG Hok; [exact HG|].
  cbn [hist_ok forallb] in Hok. apply andb_true_iff in Hok. destruct Hok as [Hx Hh].
  change (drun_hist cmd g hid ds (x :: h)) with (drun_hist cmd g hid (dapply_step cmd g hid ds x) h).
  apply IH; [apply goodd_step; assumption|exact Hh].
Qed.



Notation Gd ds := (graph_of g (d_h ds)).
Notation Wd ds := (world_of_d ds).
Notation eins e := (ei_ins (g_edge g e)).

Lemma Gd_wf ds : wf_spec (Gd ds).
Proof. exact Hwf. Qed.
Lemma Gd_wg ds : wf_graph (Gd ds).
Proof. exact Hwg. Qed.
Lemma Gd_frag ds : frag_D (Gd ds) = true.
Proof. exact HfD. Qed.

Lemma drun_edge_trace ds e :
  h_trace (d_h (drun_edge cmd g hid ds e)) = e :: h_trace (d_h ds).
Proof.
  unfold drun_edge, finish_run. cbn [d_h record h_trace].
  destruct (write_outs_spec (ei_restat (g_edge g e)) (cmd e (h_hash (d_h ds) e) (dreads g hid (d_h ds) e))
              (ei_outs (g_edge g e)) (tick (d_h ds))) as [_ [_ [_ [Tr _]]]].
  cbn zeta in Tr. rewrite Tr. reflexivity.
Qed.

(* the commands one invocation runs *)
Lemma dbuild_trace ds0 s0 p0 k :
  exists l, h_trace (d_h (dbuild_upto cmd g hid s0 p0 k ds0)) = l ++ h_trace (d_h ds0) /\
    forall e, In e l <->
      (e < k)%nat /\ want_start p0 e = true /\ phony e = false /\
      dirty_now_d g s0 (dbuild_upto cmd g hid s0 p0 e ds0) e = true.
Proof.
  induction k as [|k [l [Hl Hin]]].
  - exists []. split; [reflexivity|]. intros e. split; [intros []|intros [H _]; lia].
  - destruct (dstep_cases ds0 s0 p0 k) as [[Hs [Hw [Hph Hd]]]|[Hs Hskip]]; rewrite Hs.
    + exists (k :: l). split; [rewrite drun_edge_trace, Hl; reflexivity|].
      intros e. cbn [In]. rewrite Hin. split.
      * intros [<-|[Hlt Hr]]; [split; [lia|]; split; [exact Hw|]; split; [exact Hph|exact Hd]|split; [lia|exact Hr]].
      * intros [Hlt Hr]. destruct (Nat.eq_dec k e) as [Heq|Hne]; [left; exact Heq|right; split; [lia|exact Hr]].
    + exists l. split; [exact Hl|]. intros e. rewrite Hin. split.
      * intros [Hlt Hr]. split; [lia|exact Hr].
      * intros [Hlt [Hw [Hph Hd]]]. split; [|split; [exact Hw|split; [exact Hph|exact Hd]]].
        destruct (Nat.eq_dec e k) as [->|Hne]; [|lia]. exfalso.
        destruct Hskip as [Hx|[Hx|Hx]]; congruence.
Qed.

Lemma ran_since_app (l : list edge) st st' : h_trace st' = l ++ h_trace st -> ran_since st st' = l.
Proof.
  intros H. unfold ran_since. rewrite H, app_length.
  replace (length l + length (h_trace st) - length (h_trace st))%nat with (length l + 0)%nat by lia.
  rewrite firstn_app_2. cbn [firstn]. apply app_nil_r.
Qed.

(* nodes the targets reach through manifest inputs are reached through the inputs the scan left *)
Lemma reach_manifest_S ds T s p : dscan g ds T = ScanOk s p ->
  forall n, reach g T n -> reachS (Gd ds) T s n.
Proof.
  intros Hs n Hn. induction Hn as [t Ht|x y Hx IH [ex [Hex Hin]]]; [apply reach_target; exact Ht|].
  apply (reach_step (Gd ds) _ T x y IH). exists ex. split; [exact Hex|].
  destruct (reach_finalD (Gd ds) (Wd ds) (Gd_wf ds) (Gd_wg ds) (Gd_frag ds) T s p Hs x IH) as [Fx _].
  unfold node_final in Fx. change (g_producer (Gd ds) x) with (g_producer g x) in Fx. rewrite Hex in Fx.
  destruct (accepted_factsD (Gd ds) (Wd ds) (Gd_wf ds) (Gd_wg ds) (Gd_frag ds) T s p Hs) as [_ [HR _]].
  apply (RD_manifest (Gd ds) (Wd ds) s ex (HR ex Fx)). exact Hin.
Qed.

(* (iv) a statement whose record is missing or older than its output is re-run *)
Theorem C10_stale_record_reruns_proof ds T ds' e o0 os :
  (e < g_nedges g)%nat -> ei_deps (g_edge g e) = DepsLog -> outs e = o0 :: os ->
  (d_deps ds o0 = None \/ exists dm l, d_deps ds o0 = Some (dm, l) /\ dm < mtime_of (d_h ds) o0) ->
  (exists n, reach g T n /\ g_producer g n = Some e) ->
  dbuild cmd g hid ds T = Some ds' ->
  In e (ran_since (d_h ds) (d_h ds')).
Proof.
  intros He Hdk Ho Hrec [n [Rn Hp]] Hb. unfold dbuild in Hb.
  destruct (dscan g ds T) as [c|m d|e'| |s p] eqn:Hs; try discriminate. inversion Hb; subst ds'. clear Hb.
  destruct (dbuild_trace ds s p (g_nedges g)) as [l [Hl Hin]].
  rewrite (ran_since_app l _ _ Hl). apply Hin.
  assert (Hfail : spec_load (Gd ds) (Wd ds) e = LdFail).
  { unfold spec_load. cbn [graph_of g_edge set_hash ei_deps ei_outs]. rewrite Hdk, Ho.
    cbn [world_of_d w_dlog w_mtime]. destruct Hrec as [->|[dm [l0 [-> Hlt]]]]; [reflexivity|].
    destruct (Z.gtb_spec (mtime_of (d_h ds) o0) dm); [reflexivity|lia]. }
  destruct (frag_D_edge g e HfD He) as [_ [_ Hlog]]. destruct (Hlog Hdk) as [Hph _].
  pose proof (reach_manifest_S ds T s p Hs n Rn) as RSn.
  destruct (scan_want_completeD (Gd ds) (Wd ds) (Gd_wf ds) (Gd_wg ds) (Gd_frag ds) T s p Hs e) as [Hw _].
  - exists n. split; [exact RSn|exact Hp].
  - exists o0. split; [cbn [graph_of g_edge set_hash ei_outs]; rewrite Ho; left; reflexivity|].
    apply (md_deps (Gd ds) (Wd ds) o0 e); [|exact Hfail].
    apply (proj1 Hwf e o0). rewrite Ho. left; reflexivity.
  - intros [Hx _]. cbn [graph_of g_edge set_hash ei_phony] in Hx. congruence.
  - split; [exact He|]. split; [apply want_start_iff; exact Hw|]. split; [exact Hph|].
    unfold dirty_now_d. apply orb_true_iff. left.
    destruct (reach_finalD (Gd ds) (Wd ds) (Gd_wf ds) (Gd_wg ds) (Gd_frag ds) T s p Hs n RSn) as [Fn _].
    unfold node_final in Fn. change (g_producer (Gd ds) n) with (g_producer g n) in Fn. rewrite Hp in Fn.
    destruct (accepted_factsD (Gd ds) (Wd ds) (Gd_wf ds) (Gd_wg ds) (Gd_frag ds) T s p Hs) as [_ [HR _]].
    destruct (HR e Fn) as [_ [_ [_ [_ [_ H6]]]]]. apply (proj1 H6). exact Hfail.
Qed.


(* ================================================================== Part E: the deps manifest against the inlined manifest *)
Notation Gi ds := (graph_of gi (d_h ds)).
Notation Wi ds := (world_of (d_h ds)).

Lemma spec_ins_i st w e : (e < g_nedges g)%nat -> spec_ins (graph_of gi st) w e = read_ins g hid e.
Proof.
  intros He. unfold spec_ins, valid_deps, spec_load. cbn [graph_of inline g_edge inline_edge set_hash ei_deps].
  rewrite app_nil_r. change (nonoo_ins (graph_of gi st) e) with (nonoo_ins gi e). apply (nonoo_inline g hid e Hfrag He).
Qed.

Lemma hid_none e : (e < g_nedges g)%nat -> ei_deps (g_edge g e) = DepsNone -> hid e = [].
Proof. intros He Hd. apply (proj2 (frag_ABD_edge g hid e Hfrag He)). congruence. Qed.

Lemma phony_hid e : (e < g_nedges g)%nat -> phony e = true -> hid e = [].
Proof.
  intros He Hph. destruct (deps_kind_cases g e HfD He) as [Hd|Hd]; [apply hid_none; assumption|].
  destruct (frag_D_edge g e HfD He) as [_ [_ H]]. destruct (H Hd) as [Hc _]. congruence.
Qed.

(* what the record of a statement is worth, in a state that satisfies the invariants *)
Lemma load_cases ds e : GoodD ds -> (e < g_nedges g)%nat ->
  (spec_load (Gd ds) (Wd ds) e = LdFail /\ phony e = false /\
   exists o0, In o0 (outs e) /\ h_disk (d_h ds) o0 = None) \/
  (exists l, spec_load (Gd ds) (Wd ds) e = LdOk l /\ spec_ins (Gd ds) (Wd ds) e = read_ins g hid e).
Proof.
  intros HG He. destruct (deps_kind_cases g e HfD He) as [Hd|Hd].
  - right. exists []. split; [apply spec_load_none; exact Hd|].
    unfold spec_ins, valid_deps. rewrite (spec_load_none (Gd ds) (Wd ds) e Hd). unfold read_ins. rewrite (hid_none e He Hd). reflexivity.
  - destruct (frag_D_edge g e HfD He) as [_ [_ H]]. destruct (H Hd) as [Hph [Hne _]].
    destruct (outs e) as [|o0 os] eqn:Hos; [congruence|].
    assert (Ho0 : In o0 (outs e)) by (rewrite Hos; left; reflexivity).
    assert (Hnolog : h_blog (d_h ds) o0 = None -> h_disk (d_h ds) o0 = None).
    { intros Hb. destruct HG as [[[_ [_ [_ [_ E]]]] _] _].
      destruct (h_disk (d_h ds) o0) eqn:Hdo; [|reflexivity]. exfalso.
      apply (E o0 e (o_prod_d e o0 Ho0) Hph); [rewrite Hdo; discriminate|exact Hb]. }
    destruct HG as [_ [D1 D2]].
    unfold spec_load, spec_ins, valid_deps, spec_load. cbn [graph_of g_edge set_hash ei_deps ei_outs]. rewrite Hd, Hos.
    cbn [world_of_d w_dlog w_mtime].
    destruct (d_deps ds o0) as [[dm l]|] eqn:Hr.
    + destruct (Z.gtb_spec (mtime_of (d_h ds) o0) dm) as [Hgt|Hle].
      * left. split; [reflexivity|]. split; [exact Hph|]. exists o0. split; [left; reflexivity|]. apply Hnolog.
        destruct (h_blog (d_h ds) o0) eqn:Hb; [|reflexivity]. exfalso.
        destruct (D2 e o0 Hd Ho0 ltac:(rewrite Hb; discriminate)) as [dm' [Hr' Hle]]. rewrite Hr in Hr'. inversion Hr'; subst. lia.
      * right. exists l. split; [reflexivity|].
        destruct (D1 o0 dm l Hr) as [_ [e' [Ho' [_ Hh]]]].
        assert (e' = e) by (pose proof (o_prod_d e' o0 Ho') as H1; rewrite (o_prod_d e o0 Ho0) in H1; congruence).
        subst e' l. reflexivity.
    + left. split; [reflexivity|]. split; [exact Hph|]. exists o0. split; [left; reflexivity|]. apply Hnolog.
      destruct (h_blog (d_h ds) o0) eqn:Hb; [|reflexivity]. exfalso.
      destruct (D2 e o0 Hd Ho0 ltac:(rewrite Hb; discriminate)) as [dm' [Hr' _]]. congruence.
Qed.

Lemma static_d_i ds : same_static (Gd ds) (Gi ds).
Proof. intros e. repeat split; reflexivity. Qed.
Lemma static_i_d ds : same_static (Gi ds) (Gd ds).
Proof. intros e. repeat split; reflexivity. Qed.

Lemma newer_d_i ds x i : newer_than (Gd ds) (Wd ds) x i -> newer_than (Gi ds) (Wi ds) x i.
Proof.
  apply newer_ext; [reflexivity|reflexivity|].
  intros n e Hp Hph. split; [exact Hph|].
  change (nonoo_ins (Gd ds) e) with (nonoo_ins g e). change (nonoo_ins (Gi ds) e) with (nonoo_ins gi e).
  rewrite (nonoo_inline g hid e Hfrag (Hwg n e Hp)). unfold read_ins. apply incl_appl, incl_refl.
Qed.

Lemma newer_i_d ds x i : newer_than (Gi ds) (Wi ds) x i -> newer_than (Gd ds) (Wd ds) x i.
Proof.
  apply newer_ext; [reflexivity|reflexivity|].
  intros n e Hp Hph. split; [exact Hph|].
  change (nonoo_ins (Gd ds) e) with (nonoo_ins g e). change (nonoo_ins (Gi ds) e) with (nonoo_ins gi e).
  rewrite (nonoo_inline g hid e Hfrag (Hwg n e Hp)). unfold read_ins.
  rewrite (phony_hid e (Hwg n e Hp) Hph), app_nil_r. apply incl_refl.
Qed.

(* the declarative dirty state is the same for the two manifests *)
Lemma md_d_i ds n : GoodD ds -> must_dirty (Gd ds) (Wd ds) n -> must_dirty (Gi ds) (Wi ds) n.
Proof.
  intros HG. apply md_transfer; [reflexivity|reflexivity|reflexivity|apply static_d_i|apply newer_d_i|].
  intros n0 e Hp. pose proof (Hwg n0 e Hp) as He.
  destruct (load_cases ds e HG He) as [[Hf [Hph [o0 [Ho0 Hdo]]]]|[l [Hl Hsi]]].
  - left. intros n' Hp'. apply (md_self (Gi ds) (Wi ds) n' e o0 Hp' Hph Ho0).
    left. left. cbn [world_of w_mtime]. unfold mtime_of. rewrite Hdo. reflexivity.
  - right. split; [rewrite Hsi, (spec_ins_i (d_h ds) (Wi ds) e He); apply incl_refl|]. split; [congruence|].
    intros Hph Hnil. change (ei_ins (g_edge (Gd ds) e)) with (eins e) in Hnil.
    cbn [graph_of inline g_edge inline_edge set_hash ei_ins]. rewrite Hnil, (phony_hid e He Hph). apply splice_nil_r.
Qed.

Lemma md_i_d ds n : GoodD ds -> must_dirty (Gi ds) (Wi ds) n -> must_dirty (Gd ds) (Wd ds) n.
Proof.
  intros HG. apply md_transfer; [reflexivity|reflexivity|reflexivity|apply static_i_d|apply newer_i_d|].
  intros n0 e Hp. pose proof (Hwg n0 e Hp) as He.
  destruct (load_cases ds e HG He) as [[Hf _]|[l [Hl Hsi]]].
  - left. intros n' Hp'. apply (md_deps (Gd ds) (Wd ds) n' e Hp' Hf).
  - right. split; [rewrite Hsi, (spec_ins_i (d_h ds) (Wi ds) e He); apply incl_refl|]. split.
    + unfold spec_load. cbn [graph_of inline g_edge inline_edge set_hash ei_deps]. discriminate.
    + intros _ Hnil. cbn [graph_of inline g_edge inline_edge set_hash ei_ins] in Hnil.
      change (ei_ins (g_edge (Gd ds) e)) with (eins e).
      destruct (eins e) as [|x xs]; [reflexivity|]. exfalso.
      assert (Hx : In x (splice (x :: xs) (ei_noo (g_edge g e)) (hid e))) by (apply in_splice; left; left; reflexivity).
      rewrite Hnil in Hx. destruct Hx.
Qed.

(* ---- the statements the targets need *)
Lemma pot_in_inline ds e : GoodD ds -> incl (pot_ins (Gd ds) (Wd ds) e) (ei_ins (g_edge gi e)).
Proof.
  intros HG i Hi. unfold pot_ins in Hi. apply in_app_or in Hi. apply inline_ins_in.
  destruct Hi as [Hi|Hi]; [left; exact Hi|right].
  unfold recorded_deps in Hi. cbn [graph_of g_edge set_hash ei_deps ei_outs] in Hi.
  destruct (ei_deps (g_edge g e)) eqn:Hd; [destruct Hi| |].
  - cbn [world_of_d w_depfile] in Hi. destruct Hi.
  - destruct (outs e) as [|o0 os] eqn:Hos; [destruct Hi|]. cbn [world_of_d w_dlog] in Hi.
    destruct (d_deps ds o0) as [[dm l]|] eqn:Hr; [|destruct Hi].
    destruct (proj1 (proj2 HG) o0 dm l Hr) as [_ [e' [Ho' [_ Hh]]]].
    assert (e' = e); [|subst; exact Hi].
    pose proof (o_prod_d e' o0 Ho') as H1. rewrite (o_prod_d e o0) in H1 by (rewrite Hos; left; reflexivity). congruence.
Qed.

Lemma needed_d_i ds T e : GoodD ds -> neededP (Gd ds) (Wd ds) T e -> needed gi T e.
Proof.
  intros HG [n [Rn Hp]]. exists n. split; [|exact Hp]. unfold reachP in Rn. clear Hp.
  induction Rn as [t Ht|x y Hx IH [ex [Hex Hin]]]; [apply reach_target; exact Ht|].
  apply (reach_step gi (manifest_ins gi) T x y IH). exists ex. split; [exact Hex|].
  apply (pot_in_inline ds ex HG). exact Hin.
Qed.

Section Ordered.
Hypothesis Hord : hidden_reads_ordered g hid = true.
Hypothesis Hnip : no_inputless_phony g = true.

Lemma hid_generated e i u : (e < g_nedges g)%nat -> In i (hid e) -> g_producer g i = Some u -> In i (eins e).
Proof.
  intros He Hi Hp. pose proof (edges_all_spec g _ e Hord He) as H. cbn beta in H.
  rewrite forallb_forall in H. specialize (H i Hi). rewrite Hp in H. apply mem_node_In. exact H.
Qed.

Lemma reach_i_S ds T s p : dscan g ds T = ScanOk s p ->
  forall n, reach gi T n -> g_producer g n = None \/ reachS (Gd ds) T s n.
Proof.
  intros Hs n Hn. induction Hn as [t Ht|x y Hx IH [ex [Hex Hin]]]; [right; apply reach_target; exact Ht|].
  cbn [inline g_producer] in Hex.
  destruct IH as [Hc|IH]; [congruence|].
  destruct (g_producer g y) as [u|] eqn:Hpy; [right|left; reflexivity].
  apply (reach_step (Gd ds) _ T x y IH). exists ex. split; [exact Hex|].
  destruct (reach_finalD (Gd ds) (Wd ds) (Gd_wf ds) (Gd_wg ds) (Gd_frag ds) T s p Hs x IH) as [Fx _].
  unfold node_final in Fx. change (g_producer (Gd ds) x) with (g_producer g x) in Fx. rewrite Hex in Fx.
  destruct (accepted_factsD (Gd ds) (Wd ds) (Gd_wf ds) (Gd_wg ds) (Gd_frag ds) T s p Hs) as [_ [HR _]].
  apply (RD_manifest (Gd ds) (Wd ds) s ex (HR ex Fx)).
  change (ei_ins (g_edge (Gd ds) ex)) with (eins ex).
  apply inline_ins_in in Hin. destruct Hin as [Hin|Hin]; [exact Hin|].
  apply (hid_generated ex y u (Hwg x ex Hex) Hin Hpy).
Qed.

Lemma nip_inline : no_inputless_phony gi = true.
Proof.
  unfold no_inputless_phony, edges_all. apply forallb_forall. intros e He. apply in_seq in He.
  cbn [inline g_nedges] in He. pose proof (edges_all_spec g _ e Hnip ltac:(lia)) as H. cbn beta in H.
  cbn [inline g_edge inline_edge ei_phony ei_ins].
  destruct (phony e) eqn:Hph; [|reflexivity]. cbn [andb] in *.
  rewrite (phony_hid e ltac:(lia) Hph), splice_nil_r. exact H.
Qed.

(* the two scans want the same statements *)
Lemma want_eq ds T s p si pi :
  GoodD ds -> dscan g ds T = ScanOk s p -> scan (Gi ds) (Wi ds) T = ScanOk si pi ->
  forall e, want_start p e = want_start pi e.
Proof.
  intros HG Hs Hsi e.
  assert (Hwi : wf_spec (Gi ds)) by exact Hwfi.
  assert (Hgi : wf_graph (Gi ds)) by exact Hwg.
  assert (Hfi : frag_AB (Gi ds) = true) by exact (frag_AB_inline g hid HfD).
  destruct (want_start p e) eqn:Hw; symmetry.
  - apply want_start_iff in Hw.
    destruct (scan_want_soundD (Gd ds) (Wd ds) (Gd_wf ds) (Gd_wg ds) (Gd_frag ds) T s p Hs e Hw) as [Hn [_ [_ [o [Ho Hmd]]]]].
    pose proof (needed_d_i ds T e HG Hn) as Hni.
    assert (He : (e < g_nedges g)%nat) by (destruct Hni as [n [_ Hp]]; apply (Hwg n e Hp)).
    apply want_start_iff.
    apply (scan_want_complete (Gi ds) (Wi ds) Hwi Hgi Hfi T si pi Hsi e).
    + apply (needed_G gi T (d_h ds) e). exact Hni.
    + exists o. split; [exact Ho|apply (md_d_i ds o HG Hmd)].
    + intros [Hph Hnil]. apply (nip_edge gi e nip_inline He). split; [exact Hph|exact Hnil].
  - destruct (want_start pi e) eqn:Hwi'; [exfalso|reflexivity]. apply want_start_iff in Hwi'.
    destruct (scan_want_sound (Gi ds) (Wi ds) Hwi Hgi Hfi T si pi Hsi e Hwi') as [Hn [o [Ho Hmd]]].
    apply (needed_G gi T (d_h ds) e) in Hn. destruct Hn as [n [Rn Hp]].
    assert (He : (e < g_nedges g)%nat) by (apply (Hwg n e Hp)).
    destruct (reach_i_S ds T s p Hs n Rn) as [Hc|RS]; [cbn [inline g_producer] in Hp; congruence|].
    destruct (scan_want_completeD (Gd ds) (Wd ds) (Gd_wf ds) (Gd_wg ds) (Gd_frag ds) T s p Hs e) as [Hwd _].
    + exists n. split; [exact RS|exact Hp].
    + exists o. split; [exact Ho|apply (md_i_d ds o HG Hmd)].
    + intros [Hph Hnil]. apply (nip_edge g e Hnip He). split; [exact Hph|exact Hnil].
    + apply want_start_iff in Hwd. congruence.
Qed.

End Ordered.

Lemma untainted_deps e : no_restat_upstream_of_deps g hid = true -> (e < g_nedges g)%nat ->
  ei_deps (g_edge g e) = DepsLog -> reads_tainted g hid e = false.
Proof.
  intros Hn He Hd. pose proof (edges_all_spec g _ e Hn He) as H. cbn beta in H.
  rewrite Hd in H. cbn [is_deps_log negb orb] in H. apply negb_true_iff in H. exact H.
Qed.

(* ================================================================== Part G: the two manifests accept or refuse together *)
Lemma frag_D_inline : frag_D gi = true.
Proof.
  unfold frag_D, edges_all. apply forallb_forall. intros e He. apply in_seq in He.
  destruct (frag_D_edge g e HfD) as [_ [Hv _]]; [cbn [inline g_nedges] in He; lia|].
  cbn [inline g_edge inline_edge ei_deps ei_vals not_depfile is_deps_log negb orb]. rewrite Hv. reflexivity.
Qed.

Lemma Gi_wf ds : wf_spec (Gi ds).
Proof. exact Hwfi. Qed.
Lemma Gi_wg ds : wf_graph (Gi ds).
Proof. exact Hwg. Qed.
Lemma Gi_fragD ds : frag_D (Gi ds) = true.
Proof. exact frag_D_inline. Qed.

Lemma acyclic_d ds : GoodD ds -> acyclic (Gd ds) (Wd ds).
Proof.
  intros HG c Hc.
  set (ins' := fun e => if Nat.ltb e (g_nedges g) then pot_ins (Gd ds) (Wd ds) e else []).
  assert (Hrk : ranked_via (Gd ds) ins' (fun e => e)).
  { intros e i e' Hi Hp. unfold ins' in Hi. destruct (Nat.ltb_spec e (g_nedges g)) as [He|He]; [|destruct Hi].
    apply (pot_in_inline ds e HG) in Hi.
    pose proof (edges_all_spec gi _ e Htopo) as H. cbn beta in H.
    specialize (H ltac:(cbn [inline g_nedges]; exact He)). rewrite forallb_forall in H.
    specialize (H i Hi). cbn [inline g_producer] in H. cbn [graph_of g_producer] in Hp. rewrite Hp in H.
    apply Nat.ltb_lt. exact H. }
  apply (ranked_acyclic (Gd ds) ins' _ Hrk c). destruct Hc as [Hw [Hlen Hhd]]. split; [|split; assumption].
  clear Hlen Hhd. induction Hw as [x|x y l Hs Hw IH]; [apply walk_one|].
  apply walk_cons; [|exact IH]. destruct Hs as [e [He Hin]]. exists e. split; [exact He|].
  unfold ins'. rewrite (proj2 (Nat.ltb_lt _ _) (Hwg x e He)). exact Hin.
Qed.

Section Accept.
Hypothesis Hord : hidden_reads_ordered g hid = true.
Hypothesis Hnip : no_inputless_phony g = true.

Lemma hidden_present_spec st e i : hidden_srcs_present g hid st = true -> (e < g_nedges g)%nat ->
  In i (hid e) -> g_producer g i = None -> h_disk st i <> None.
Proof.
  intros H He Hi Hp. pose proof (edges_all_spec g _ e H He) as H1. cbn beta in H1.
  rewrite forallb_forall in H1. specialize (H1 i Hi). unfold is_source in H1. rewrite Hp in H1.
  cbn [negb orb] in H1. destruct (h_disk st i); [discriminate|discriminate].
Qed.

(* refused by the deps manifest => refused by the inlined manifest *)
Lemma missing_d_i ds T m d si pi : GoodD ds ->
  dscan g ds T = ScanMissing m d -> scan (Gi ds) (Wi ds) T = ScanOk si pi -> False.
Proof.
  intros HG Hd Hi. unfold dscan, scan in Hd.
  destruct (add_targets_missing_D (Gd ds) (Wd ds) (Gd_wf ds) (Gd_wg ds) (Gd_frag ds) T T _ _ m d (incl_refl T) Hd
              (SInv_init (Gd ds) (Wd ds)) (RD_init (Gd ds) (Wd ds)) (PID_init (Gd ds) (Wd ds) T))
    as [t [s1 [Ht [HS1 [HR1 [Ft [Hpath [_ [Hpm Hdm]]]]]]]]].
  destruct (accepted_factsD (Gi ds) (Wi ds) (Gi_wf ds) (Gi_wg ds) (Gi_fragD ds) T si pi Hi) as [_ [HRB _]].
  apply (transfer_contra (Gd ds) (Gi ds) (Wd ds) (Wi ds) T s1 si pi (Gd_wf ds) (Gd_wg ds)
           (Gi_wf ds) (Gi_wg ds) (Gi_fragD ds)) with (t := t) (m := m); try assumption; try reflexivity.
  - intros n. apply (md_d_i ds n HG).
  - intros e i He HdA HdB Hin. left.
    apply (RD_manifest (Gi ds) (Wi ds) si e (HRB e HdB)).
    change (ei_ins (g_edge (Gi ds) e)) with (ei_ins (g_edge gi e)).
    apply (pot_in_inline ds e HG). apply (RD_pot (Gd ds) (Wd ds) s1 e (HR1 e HdA)). exact Hin.
  - intros e i e' He HdA Hin Hp.
    assert (Hgi : In i (ei_ins (g_edge gi e))).
    { apply (pot_in_inline ds e HG). apply (RD_pot (Gd ds) (Wd ds) s1 e (HR1 e HdA)). exact Hin. }
    pose proof (edges_all_spec gi _ e Htopo) as H. cbn beta in H.
    specialize (H ltac:(cbn [inline g_nedges]; exact He)). rewrite forallb_forall in H.
    specialize (H i Hgi). cbn [inline g_producer] in H. cbn [graph_of g_producer] in Hp. rewrite Hp in H.
    apply Nat.ltb_lt. exact H.
  - intros e He HdB [Hph Hnil]. apply (nip_edge g e Hnip He). split; [exact Hph|].
    pose proof (RD_manifest (Gi ds) (Wi ds) si e (HRB e HdB)) as Hinc.
    destruct (eins e) as [|x xs] eqn:Hx; [reflexivity|]. exfalso.
    assert (Hxi : In x (ei_ins (g_edge (Gi ds) e))).
    { change (ei_ins (g_edge (Gi ds) e)) with (ei_ins (g_edge gi e)). apply inline_ins_in. left. rewrite Hx. left; reflexivity. }
    specialize (Hinc x Hxi). rewrite Hnil in Hinc. destruct Hinc.
  - apply (nrpath_final (Gd ds) (Wd ds) s1 t m HR1 Hpath Ft).
Qed.

(* refused by the inlined manifest => refused by the deps manifest, when the hidden sources exist
   and the targets are manifest nodes *)
Lemma missing_i_d ds T m d s p : GoodD ds ->
  hidden_srcs_present g hid (d_h ds) = true -> targets_known g T = true ->
  scan (Gi ds) (Wi ds) T = ScanMissing m d -> dscan g ds T = ScanOk s p -> False.
Proof.
  intros HG Hpres HT Hi Hd. unfold scan in Hi.
  destruct (add_targets_missing_D (Gi ds) (Wi ds) (Gi_wf ds) (Gi_wg ds) (Gi_fragD ds) T T _ _ m d (incl_refl T) Hi
              (SInv_init (Gi ds) (Wi ds)) (RD_init (Gi ds) (Wi ds)) (PID_init (Gi ds) (Wi ds) T))
    as [t [s1 [Ht [HS1 [HR1 [Ft [Hpath [_ [Hpm Hdm]]]]]]]]].
  destruct (accepted_factsD (Gd ds) (Wd ds) (Gd_wf ds) (Gd_wg ds) (Gd_frag ds) T s p Hd) as [_ [HRB _]].
  assert (InsA : forall e i, es_mark (st_edge s1 e) = VisitDone -> In i (es_ins (st_edge s1 e)) ->
                             In i (eins e) \/ In i (hid e)).
  { intros e i HdA Hin. destruct (RD_ins (Gi ds) (Wi ds) s1 e (HR1 e HdA) i Hin) as [Hm|Hv].
    - apply inline_ins_in. exact Hm.
    - unfold valid_deps, spec_load in Hv. cbn [graph_of inline g_edge inline_edge set_hash ei_deps] in Hv. destruct Hv. }
  apply (transfer_contra (Gi ds) (Gd ds) (Wi ds) (Wd ds) T s1 s p (Gi_wf ds) (Gi_wg ds)
           (Gd_wf ds) (Gd_wg ds) (Gd_frag ds)) with (t := t) (m := m); try assumption; try reflexivity.
  - intros n. apply (md_i_d ds n HG).
  - intros e i He HdA HdB Hin.
    pose proof (RD_manifest (Gd ds) (Wd ds) s e (HRB e HdB)) as Hman.
    change (ei_ins (g_edge (Gd ds) e)) with (eins e) in Hman.
    destruct (InsA e i HdA Hin) as [Hm|Hh]; [left; apply Hman; exact Hm|].
    destruct (g_producer g i) as [u|] eqn:Hpi.
    + left. apply Hman. apply (hid_generated Hord e i u He Hh Hpi).
    + right. split; [exact Hpi|]. cbn [world_of w_mtime]. unfold mtime_of.
      pose proof (hidden_present_spec (d_h ds) e i Hpres He Hh Hpi) as Hne.
      destruct (h_disk (d_h ds) i) as [[mi ci]|] eqn:Hdi; [|congruence].
      destruct HG as [[[_ [B _]] _] _]. specialize (B i mi ci Hdi). lia.
  - intros e i e' He HdA Hin Hp.
    assert (Hgi : In i (ei_ins (g_edge gi e))) by (apply inline_ins_in; apply (InsA e i HdA Hin)).
    pose proof (edges_all_spec gi _ e Htopo) as H. cbn beta in H.
    specialize (H ltac:(cbn [inline g_nedges]; exact He)). rewrite forallb_forall in H.
    specialize (H i Hgi). cbn [inline g_producer] in H. cbn [graph_of inline g_producer] in Hp. rewrite Hp in H.
    apply Nat.ltb_lt. exact H.
  - intros e He HdB [Hph Hnil]. apply (nip_edge g e Hnip He). split; [exact Hph|].
    pose proof (RD_manifest (Gd ds) (Wd ds) s e (HRB e HdB)) as Hinc.
    change (ei_ins (g_edge (Gd ds) e)) with (eins e) in Hinc.
    destruct (eins e) as [|x xs]; [reflexivity|]. exfalso.
    specialize (Hinc x (or_introl eq_refl)). rewrite Hnil in Hinc. destruct Hinc.
  - intros e m0 He HdB Hin Hp0 Hz. cbn [graph_of g_byloader].
    destruct (RD_ins (Gd ds) (Wd ds) s e (HRB e HdB) m0 Hin) as [Hm|Hv].
    + apply (proj1 (frag_ABD_edge g hid e Hfrag He) m0 Hm).
    + exfalso. unfold valid_deps in Hv.
      destruct (load_cases ds e HG He) as [[Hf _]|[l [Hl Hsi]]]; [rewrite Hf in Hv; destruct Hv|].
      rewrite Hl in Hv.
      assert (Hh : In m0 (hid e)).
      { assert (Hx : In m0 (spec_ins (Gd ds) (Wd ds) e)) by (unfold spec_ins, valid_deps; rewrite Hl; apply in_or_app; right; exact Hv).
        rewrite Hsi in Hx. unfold read_ins in Hx. apply in_app_or in Hx. destruct Hx as [Hx|Hx]; [|exact Hx].
        destruct (deps_kind_cases g e HfD He) as [Hdk|Hdk].
        - rewrite (spec_load_none (Gd ds) (Wd ds) e Hdk) in Hl. inversion Hl; subst l. destruct Hv.
        - (* also a manifest input: then it is no hidden-only node, but present it must be all the same *)
          exfalso. cbn [graph_of inline g_producer] in Hp0. cbn [world_of w_mtime] in Hz.
          clear Hx. 
          assert (Hlh : In m0 (hid e)).
          { unfold spec_load in Hl. cbn [graph_of g_edge set_hash ei_deps ei_outs] in Hl. rewrite Hdk in Hl.
            destruct (outs e) as [|o0 os] eqn:Hos; [discriminate|]. cbn [world_of_d w_dlog] in Hl.
            destruct (d_deps ds o0) as [[dm nodes]|] eqn:Hr; [|discriminate].
            destruct (Z.gtb _ _); [discriminate|]. inversion Hl; subst nodes.
            destruct (proj1 (proj2 HG) o0 dm l Hr) as [_ [e' [Ho' [_ Hh']]]].
            assert (e' = e); [|subst; exact Hv].
            pose proof (o_prod_d e' o0 Ho') as H1. rewrite (o_prod_d e o0) in H1 by (rewrite Hos; left; reflexivity). congruence. }
          apply (hidden_present_spec (d_h ds) e m0 Hpres He Hlh Hp0).
          unfold mtime_of in Hz. destruct (h_disk (d_h ds) m0) as [[mi ci]|] eqn:Hdi; [|reflexivity].
          destruct HG as [[[_ [B _]] _] _]. specialize (B m0 mi ci Hdi). lia. }
      cbn [graph_of inline g_producer] in Hp0. cbn [world_of w_mtime] in Hz.
      apply (hidden_present_spec (d_h ds) e m0 Hpres He Hh Hp0).
      unfold mtime_of in Hz. destruct (h_disk (d_h ds) m0) as [[mi ci]|] eqn:Hdi; [|reflexivity].
      destruct HG as [[[_ [B _]] _] _]. specialize (B m0 mi ci Hdi). lia.
  - intros t0 Ht0. cbn [graph_of g_byloader]. unfold targets_known in HT. rewrite forallb_forall in HT.
    specialize (HT t0 Ht0). apply negb_true_iff in HT. exact HT.
  - apply (nrpath_final (Gi ds) (Wi ds) s1 t m HR1 Hpath Ft).
Qed.

(* the two manifests accept or refuse together *)
Theorem accept_equiv ds T : GoodD ds ->
  hidden_srcs_present g hid (d_h ds) = true -> targets_known g T = true ->
  ((exists s p, dscan g ds T = ScanOk s p) <-> (exists si pi, scan (Gi ds) (Wi ds) T = ScanOk si pi)).
Proof.
  intros HG Hpres HT. split.
  - intros [s [p Hd]]. destruct (scan (Gi ds) (Wi ds) T) as [c|m d|e| |si pi] eqn:Hi.
    + exfalso. apply (C17_no_false_positive (Gi ds) (Wi ds) T (topo_acyclic (Gi ds) (Wi ds) (Gi_wg ds) (frag_AB_inline g hid HfD) Htopo) c Hi).
    + exfalso. apply (missing_i_d ds T m d s p HG Hpres HT Hi Hd).
    + exfalso. apply (scan_no_loaderrD (Gi ds) (Wi ds) (Gi_wg ds) (Gi_fragD ds) T e Hi).
    + exfalso. apply (scan_fuel_sufficient (Gi ds) (Wi ds) (Gi_wg ds) T Hi).
    + exists si, pi. reflexivity.
  - intros [si [pi Hi]]. unfold dscan. destruct (scan (Gd ds) (Wd ds) T) as [c|m d|e| |s p] eqn:Hd.
    + exfalso. apply (C17_no_false_positive (Gd ds) (Wd ds) T (acyclic_d ds HG) c Hd).
    + exfalso. apply (missing_d_i ds T m d si pi HG Hd Hi).
    + exfalso. apply (scan_no_loaderrD (Gd ds) (Wd ds) (Gd_wg ds) (Gd_frag ds) T e Hd).
    + exfalso. apply (scan_fuel_sufficient (Gd ds) (Wd ds) (Gd_wg ds) T Hd).
    + exists s, p. reflexivity.
Qed.

End Accept.

Section PartC.
Variables (ds0 : dstate) (T : list node) (s0 : sstate) (p0 : plan).
Hypothesis HG0 : GoodD ds0.
Hypothesis Hscan : dscan g ds0 T = ScanOk s0 p0.

Notation n_ := (g_nedges g).
Notation dstk k := (dbuild_upto cmd g hid s0 p0 k ds0).
Notation stk k := (d_h (dstk k)).
Notation st0 := (d_h ds0).
Notation GN := (graph_now g s0).
Notation GNk k := (graph_of (graph_now g s0) (stk k)).
Notation Wk k := (world_of (stk k)).
Notation G0 := (Gd ds0).
Notation W0 := (Wd ds0).
Notation MD0 := (must_dirty (Gd ds0) (Wd ds0)).
Notation ins0 e := (es_ins (st_edge s0 e)).
Notation c0 := (h_clock (d_h ds0)).

Let AF := accepted_factsD G0 W0 (Gd_wf ds0) (Gd_wg ds0) (Gd_frag ds0) T s0 p0 Hscan.

Lemma inv1 k : (k <= n_)%nat ->
  GoodD (dstk k) /\ h_hash (stk k) = h_hash st0 /\ FrameD ds0 p0 k (dstk k) /\ c0 <= h_clock (stk k).
Proof. apply (dbuild_inv1 ds0 s0 p0 HG0). Qed.

Lemma o_prodC e o : In o (outs e) -> g_producer g o = Some e.
Proof. apply (proj1 Hwf). Qed.
Lemma p_outC n e : g_producer g n = Some e -> In n (outs e).
Proof. apply (proj1 (proj2 Hwf)). Qed.

Lemma outs_before k u o : (k <= n_)%nat -> (k <= u)%nat -> In o (outs u) ->
  h_disk (stk k) o = h_disk st0 o /\ h_blog (stk k) o = h_blog st0 o.
Proof.
  intros Hk Hu Ho. destruct (inv1 k Hk) as [_ [_ [Hf _]]].
  destruct (Hf o) as [[E1 [E2 _]]|[e [He [Hlt _]]]]; [split; assumption|].
  rewrite (o_prodC u o Ho) in He. inversion He; subst. lia.
Qed.

Lemma src_same k x : (k <= n_)%nat -> g_producer g x = None -> h_disk (stk k) x = h_disk st0 x.
Proof.
  intros Hk Hp. destruct (inv1 k Hk) as [_ [_ [Hf _]]].
  destruct (Hf x) as [[E1 _]|[e [He _]]]; [exact E1|congruence].
Qed.

Lemma step_other k x : (k < n_)%nat -> ~ In x (outs k) ->
  h_disk (stk (S k)) x = h_disk (stk k) x /\ h_blog (stk (S k)) x = h_blog (stk k) x.
Proof.
  intros Hk Hx. destruct (dstep_cases ds0 s0 p0 k) as [[Hs [_ [Hph _]]]|[Hs _]]; rewrite Hs; [|split; reflexivity].
  destruct (inv1 k ltac:(lia)) as [HGk _].
  destruct (drun_edge_spec (dstk k) k HGk Hk Hph) as [_ [_ [_ [Hout _]]]].
  cbn zeta in Hout. destruct (Hout x Hx) as [E1 [E2 _]]. split; assumption.
Qed.

Lemma outs_after u o : In o (outs u) -> forall k, (u < k)%nat -> (k <= n_)%nat ->
  h_disk (stk k) o = h_disk (stk (S u)) o /\ h_blog (stk k) o = h_blog (stk (S u)) o.
Proof.
  intros Ho k Hk. induction Hk as [|k Hk IH]; intros Hn; [split; reflexivity|].
  destruct (IH ltac:(lia)) as [E1 E2].
  assert (Hx : ~ In o (outs k)).
  { intros Hin. pose proof (o_prodC k o Hin) as H1. rewrite (o_prodC u o Ho) in H1. inversion H1. lia. }
  destruct (step_other k o ltac:(lia) Hx) as [F1 F2]. split; congruence.
Qed.

Lemma mtime_mono k x : (k <= n_)%nat ->
  mtime_of st0 x <= mtime_of (stk k) x /\ (mtime_of st0 x <> 0 -> mtime_of (stk k) x <> 0).
Proof.
  induction k as [|k IH]; intros Hk; [cbn [dbuild_upto seq fold_left]; split; [lia|auto]|].
  destruct (IH ltac:(lia)) as [A B].
  destruct (dstep_cases ds0 s0 p0 k) as [[Hs [_ [Hph _]]]|[Hs _]]; rewrite Hs; [|split; assumption].
  destruct (inv1 k ltac:(lia)) as [[[[C1 [C2 _]] _] _] _].
  rewrite (drun_edge_h (dstk k) k ltac:(lia)).
  destruct (run_edge_spec cmd gi (stk k) k C1 C2) as [_ [_ [_ [Hfs _]]]]. cbn zeta in Hfs.
  unfold mtime_of in *. destruct (Hfs x) as [Hsame|[m [Hm [Hlt _]]]].
  - rewrite Hsame. split; assumption.
  - rewrite Hm. destruct (h_disk (stk k) x) as [[mk ck]|] eqn:Hdk.
    + specialize (C2 x mk ck Hdk). split; [lia|intros _; lia].
    + split; [lia|intros _; lia].
Qed.

(* a command that ran and is not a restat command left all its outputs newer than everything
   that existed when the build started *)
Lemma ran_fresh u : (u < n_)%nat -> dstk (S u) = drun_edge cmd g hid (dstk u) u ->
  ei_restat (g_edge g u) = false ->
  forall o, In o (outs u) -> exists mo c, h_disk (stk (S u)) o = Some (mo, c) /\ c0 < mo.
Proof.
  intros Hu Hs Hr o Ho. rewrite Hs, (drun_edge_h (dstk u) u Hu).
  destruct (inv1 u ltac:(lia)) as [[[[C1 [C2 _]] _] _] [_ [_ Hc]]].
  destruct (run_edge_spec cmd gi (stk u) u C1 C2) as [_ [_ [_ [_ [_ [_ Hnr]]]]]]. cbn zeta in Hnr.
  destruct (Hnr Hr o Ho) as [mo [Hd Hlt]]. exists mo. eexists. split; [exact Hd|lia].
Qed.

(* ---- the manifest ninja has in memory *)
Lemma GN_wf k : wf_spec (GNk k).
Proof. exact (wf_spec_now g s0 Hwf). Qed.
Lemma GN_wg k : wf_graph (GNk k).
Proof. exact Hwg. Qed.
Lemma GN_frag k : frag_AB (GNk k) = true.
Proof. exact (frag_AB_now g s0 HfD). Qed.

Lemma nonoo_now e : nonoo_ins (graph_now g s0) e =
  (if Nat.ltb (length (ins0 e)) (ei_noo (g_edge g e)) then ins0 e
   else firstn (length (ins0 e) - ei_noo (g_edge g e)) (ins0 e)).
Proof. reflexivity. Qed.

(* no statement is left half-visited *)
Lemma marks_final e : es_mark (st_edge s0 e) = VisitNone \/ es_mark (st_edge s0 e) = VisitDone.
Proof.
  unfold dscan, scan in Hscan.
  destruct (add_targets_spec G0 W0 (Gd_wf ds0) T _ _ _ _ Hscan (SInv_init G0 W0) (Inv_init G0 W0)) as [_ [I1 _]].
  destruct (es_mark (st_edge s0 e)) eqn:Hm; [left; reflexivity| |right; reflexivity].
  destruct (I1 e Hm) as [x [[] _]].
Qed.

Lemma ins_now_none e : ei_deps (g_edge g e) = DepsNone -> ins0 e = eins e.
Proof.
  intros Hd. destruct AF as [[_ [_ [S3 _]]] [HR _]].
  destruct (marks_final e) as [Hm|Hm]; [apply (S3 e Hm)|].
  destruct (HR e Hm) as [_ [_ [_ [_ [[[Hi _]|[l [Hl [Hi _]]]] _]]]]]; [exact Hi|].
  rewrite (spec_load_none G0 W0 e Hd) in Hl. inversion Hl; subst l. rewrite Hi. apply splice_nil_r.
Qed.

Lemma phony_none e : (e < n_)%nat -> phony e = true -> ei_deps (g_edge g e) = DepsNone.
Proof.
  intros He Hph. destruct (deps_kind_cases g e HfD He) as [Hd|Hd]; [exact Hd|].
  destruct (frag_D_edge g e HfD He) as [_ [_ H]]. destruct (H Hd) as [Hc _]. congruence.
Qed.

(* what the spliced list is: the hidden reads *)
Lemma loaded_is_hid e l : (e < n_)%nat -> spec_load G0 W0 e = LdOk l -> l = [] \/ l = hid e.
Proof.
  intros He Hl. destruct (deps_kind_cases g e HfD He) as [Hd|Hd].
  - left. rewrite (spec_load_none G0 W0 e Hd) in Hl. inversion Hl; reflexivity.
  - right. unfold spec_load in Hl. cbn [graph_of g_edge set_hash ei_deps ei_outs] in Hl. rewrite Hd in Hl.
    destruct (outs e) as [|o0 os] eqn:Ho; [discriminate|]. cbn [world_of_d w_dlog] in Hl.
    destruct (d_deps ds0 o0) as [[dm nodes]|] eqn:Hr; [|discriminate].
    destruct (Z.gtb _ _); [discriminate|]. inversion Hl; subst nodes.
    destruct (proj1 (proj2 HG0) o0 dm l Hr) as [_ [e' [Ho' [_ Hh]]]].
    assert (e' = e); [|subst; reflexivity].
    pose proof (o_prodC e' o0 Ho') as H1. rewrite (o_prodC e o0) in H1 by (rewrite Ho; left; reflexivity). congruence.
Qed.

(* the non-order-only inputs ninja has for a finished statement, and why it is dirty in terms of them *)
Lemma cause u : (u < n_)%nat -> es_mark (st_edge s0 u) = VisitDone ->
  (exists o, In o (outs u) /\ MD0 o) -> es_deps_missing (st_edge s0 u) = false ->
  incl (nonoo_ins GN u) (read_ins g hid u) /\ incl (nonoo_ins GN u) (ins0 u) /\
  ((exists i, In i (nonoo_ins GN u) /\ MD0 i) \/
   (phony u = true /\ eins u = [] /\ exists o', In o' (outs u) /\ mtime_of st0 o' = 0) \/
   (phony u = false /\ exists o', In o' (outs u) /\
      out_reason G0 W0 (fun x => exists i, In i (nonoo_ins GN u) /\ newer_than G0 W0 x i) u o')).
Proof.
  intros Hu Hd [o [Ho Hmd]] Hmiss. destruct AF as [_ [HR _]].
  destruct (HR u Hd) as [_ [_ [_ [_ [H5 H6]]]]].
  assert (Hsub : incl (nonoo_ins GN u) (ins0 u)).
  { rewrite nonoo_now. destruct (Nat.ltb _ _); [apply incl_refl|].
    intros x Hx. rewrite <- (firstn_skipn (length (ins0 u) - ei_noo (g_edge g u)) (ins0 u)).
    apply in_or_app. left; exact Hx. }
  destruct H5 as [[Hi [Hm|Hown]]|[l [Hl [Hi _]]]].
  - change (es_deps_missing (st_edge s0 u)) with (es_deps_missing (st_edge s0 u)) in Hm. congruence.
  - assert (EJ : nonoo_ins GN u = nonoo_ins g u).
    { rewrite nonoo_now. change (es_ins (st_edge s0 u)) with (ins0 u). rewrite Hi. reflexivity. }
    rewrite EJ. split; [unfold read_ins; apply incl_appl, incl_refl|]. split; [rewrite <- EJ; exact Hsub|].
    destruct Hown as [[i [Hi' Hdi]]|[[Hph [Hnil [_ [o' [Ho' Hz]]]]]|[Hph [o' [Ho' Hr]]]]].
    + left. exists i. split; [exact Hi'|exact Hdi].
    + right; left. split; [exact Hph|]. split; [exact Hnil|]. exists o'. split; [exact Ho'|exact Hz].
    + right; right. split; [exact Hph|]. exists o'. split; [exact Ho'|exact Hr].
  - assert (EJ : nonoo_ins GN u = nonoo_ins g u ++ l).
    { destruct (deps_kind_cases g u HfD Hu) as [Hdk|Hdk].
      - rewrite (spec_load_none G0 W0 u Hdk) in Hl. inversion Hl; subst l. rewrite app_nil_r.
        rewrite nonoo_now. change (es_ins (st_edge s0 u)) with (ins0 u).
        change (ei_ins (g_edge G0 u)) with (eins u) in Hi. change (ei_noo (g_edge G0 u)) with (ei_noo (g_edge g u)) in Hi.
        rewrite Hi, splice_nil_r. reflexivity.
      - destruct (frag_D_edge g u HfD Hu) as [_ [_ H]]. destruct (H Hdk) as [_ [_ Hn]].
        rewrite nonoo_now. change (es_ins (st_edge s0 u)) with (ins0 u).
        change (ei_ins (g_edge G0 u)) with (eins u) in Hi. change (ei_noo (g_edge G0 u)) with (ei_noo (g_edge g u)) in Hi.
        rewrite Hi, (nonoo_splice _ _ l Hn). unfold nonoo_ins.
        destruct (Nat.ltb_spec (length (eins u)) (ei_noo (g_edge g u))); [lia|reflexivity]. }
    assert (ES : spec_ins G0 W0 u = nonoo_ins g u ++ l).
    { unfold spec_ins, valid_deps. rewrite Hl. reflexivity. }
    rewrite EJ. split; [|split; [rewrite <- EJ; exact Hsub|]].
    { unfold read_ins. destruct (loaded_is_hid u l Hu Hl) as [Hl0|Hl0]; rewrite Hl0; [rewrite app_nil_r; apply incl_appl, incl_refl|apply incl_refl]. }
    destruct (must_dirty_out_inv G0 W0 o u Hmd (o_prodC u o Ho))
      as [[i [Hi' Hdi]]|[[Hph [Hnil [_ [o' [Ho' Hz]]]]]|[[Hph [o' [Ho' Hr]]]|Hf]]].
    + left. exists i. rewrite <- ES. split; [exact Hi'|exact Hdi].
    + right; left. split; [exact Hph|]. split; [exact Hnil|]. exists o'. split; [exact Ho'|exact Hz].
    + right; right. split; [exact Hph|]. exists o'. split; [exact Ho'|]. rewrite <- ES. exact Hr.
    + rewrite Hf in Hl. discriminate.
Qed.

(* ---- transfer of "newer than" and of the output reasons to a later moment of the build *)
Lemma phony_off_disk k x e : (k <= n_)%nat -> g_producer g x = Some e -> phony e = true ->
  h_disk (stk k) x = None.
Proof.
  intros Hk Hp Hph. destruct (inv1 k Hk) as [[[[_ [_ [_ [D _]]]] _] _] _]. apply (D x e Hp Hph).
Qed.

Lemma NT_mono k : (k <= n_)%nat -> forall x i, newer_than G0 W0 x i -> newer_than (GNk k) (Wk k) x i.
Proof.
  intros Hk x i H. induction H as [i Hnz Hlt|i Hz Hlt|i e j Hz Hp Hph Hj Hn IH].
  - cbn [world_of_d w_mtime] in *. destruct (mtime_mono k i Hk) as [A B].
    apply nt_file; cbn [world_of w_mtime]; [apply B; exact Hnz|lia].
  - cbn [world_of_d w_mtime] in *. destruct (Z.eq_dec (mtime_of (stk k) i) 0) as [Hz'|Hnz'].
    + apply nt_missing; [exact Hz'|exact Hlt].
    + apply nt_file; cbn [world_of w_mtime]; [exact Hnz'|].
      destruct (mtime_mono k i Hk) as [A _]. lia.
  - change (g_producer G0 i) with (g_producer g i) in Hp.
    change (ei_phony (g_edge G0 e)) with (phony e) in Hph.
    apply (nt_phony (GNk k) (Wk k) x i e j); [| exact Hp | exact Hph | | exact IH].
    + cbn [world_of w_mtime]. unfold mtime_of. rewrite (phony_off_disk k i e Hk Hp Hph). reflexivity.
    + change (nonoo_ins (GNk k) e) with (nonoo_ins GN e). rewrite nonoo_now.
      rewrite (ins_now_none e (phony_none e (Hwg i e Hp) Hph)). exact Hj.
Qed.

Definition Fresh (k : nat) (i : node) : Prop := forall x, x <= c0 -> newer_than (GNk k) (Wk k) x i.

Lemma spec_ins_now k u : spec_ins (GNk k) (Wk k) u = nonoo_ins GN u.
Proof. unfold spec_ins, valid_deps, spec_load. cbn [graph_of graph_now g_edge edge_now set_hash ei_deps]. apply app_nil_r. Qed.

(* a real statement that has not been run yet, one of whose inputs is fresh or must be remade,
   must be remade *)
Lemma dirty_by_input u i o : (u < n_)%nat -> phony u = false -> In o (outs u) ->
  In i (nonoo_ins GN u) ->
  (must_dirty (GNk u) (Wk u) i \/ Fresh u i) ->
  must_dirty (GNk u) (Wk u) o.
Proof.
  intros Hu Hph Ho Hi [Hmd|Hfr].
  - apply (md_input (GNk u) (Wk u) o u i (o_prodC u o Ho)); [rewrite spec_ins_now; exact Hi|exact Hmd].
  - apply (md_self (GNk u) (Wk u) o u o (o_prodC u o Ho) Hph Ho).
    destruct (h_disk (stk u) o) as [[mo c]|] eqn:Hdo.
    2:{ left. left. cbn [world_of w_mtime]. unfold mtime_of. rewrite Hdo. reflexivity. }
    destruct (inv1 u ltac:(lia)) as [[[[_ [_ [_ [_ E]]]] _] _] _].
    destruct (h_blog (stk u) o) as [[h m]|] eqn:Hbo.
    2:{ exfalso. apply (E o u (o_prodC u o Ho) Hph); [rewrite Hdo; discriminate|exact Hbo]. }
    right. right. cbn [world_of w_blog]. rewrite Hbo. exists i. split; [rewrite spec_ins_now; exact Hi|].
    apply Hfr. destruct (outs_before u u o ltac:(lia) (le_n u) Ho) as [_ Eb]. rewrite Eb in Hbo.
    destruct HG0 as [[[_ [_ [C _]]] _] _]. apply (C o h m Hbo).
Qed.

Lemma reason_persists u o' : (u < n_)%nat -> In o' (outs u) -> phony u = false ->
  out_reason G0 W0 (fun x => exists i, In i (nonoo_ins GN u) /\ newer_than G0 W0 x i) u o' ->
  must_dirty (GNk u) (Wk u) o'.
Proof.
  intros Hu Ho Hph Hr. apply (md_self (GNk u) (Wk u) o' u o' (o_prodC u o' Ho) Hph Ho).
  destruct (outs_before u u o' ltac:(lia) (le_n u) Ho) as [Ed Eb].
  destruct (inv1 u ltac:(lia)) as [_ [Hh _]].
  unfold out_reason, base_reason, time_reason, used_restat in *.
  cbn [world_of world_of_d w_mtime w_blog] in *. unfold mtime_of in *. rewrite Ed, Eb.
  change (ei_generator (g_edge (GNk u) u)) with (ei_generator (g_edge g u)).
  change (ei_restat (g_edge (GNk u) u)) with (ei_restat (g_edge g u)).
  change (ei_generator (g_edge G0 u)) with (ei_generator (g_edge g u)) in Hr.
  change (ei_restat (g_edge G0 u)) with (ei_restat (g_edge g u)) in Hr.
  change (ei_hash (g_edge (GNk u) u)) with (h_hash (stk u) u). rewrite Hh.
  change (ei_hash (g_edge G0 u)) with (h_hash st0 u) in Hr.
  assert (HN : forall x, (exists i, In i (nonoo_ins GN u) /\ newer_than G0 W0 x i) ->
                         exists i, In i (spec_ins (GNk u) (Wk u) u) /\ newer_than (GNk u) (Wk u) x i).
  { intros x [i [Hi Hn]]. exists i. split; [rewrite spec_ins_now; exact Hi|apply (NT_mono u ltac:(lia) x i Hn)]. }
  destruct Hr as [Hb|[[Hu' Hn]|Ht]]; [left; exact Hb|right; left; split; [exact Hu'|apply HN; exact Hn]|].
  right; right. destruct (h_blog st0 o') as [[h m]|]; [apply HN; exact Ht|exact Ht].
Qed.

Lemma J_incl u : (u < n_)%nat -> es_mark (st_edge s0 u) = VisitDone ->
  incl (nonoo_ins GN u) (read_ins g hid u) /\ incl (nonoo_ins GN u) (ins0 u).
Proof.
  intros Hu Hd. destruct AF as [_ [HR _]].
  destruct (HR u Hd) as [_ [_ [_ [_ [H5 _]]]]].
  assert (Hsub : incl (nonoo_ins GN u) (ins0 u)).
  { rewrite nonoo_now. destruct (Nat.ltb _ _); [apply incl_refl|].
    intros x Hx. rewrite <- (firstn_skipn (length (ins0 u) - ei_noo (g_edge g u)) (ins0 u)).
    apply in_or_app. left; exact Hx. }
  split; [|exact Hsub].
  destruct H5 as [[Hi _]|[l [Hl [Hi _]]]].
  - assert (EJ : nonoo_ins GN u = nonoo_ins g u).
    { rewrite nonoo_now. change (es_ins (st_edge s0 u)) with (ins0 u). rewrite Hi. reflexivity. }
    rewrite EJ. unfold read_ins. apply incl_appl, incl_refl.
  - change (ei_ins (g_edge G0 u)) with (eins u) in Hi. change (ei_noo (g_edge G0 u)) with (ei_noo (g_edge g u)) in Hi.
    assert (EJ : nonoo_ins GN u = nonoo_ins g u ++ l).
    { destruct (deps_kind_cases g u HfD Hu) as [Hdk|Hdk].
      - rewrite (spec_load_none G0 W0 u Hdk) in Hl. inversion Hl; subst l. rewrite app_nil_r.
        rewrite nonoo_now. change (es_ins (st_edge s0 u)) with (ins0 u). rewrite Hi, splice_nil_r. reflexivity.
      - destruct (frag_D_edge g u HfD Hu) as [_ [_ H]]. destruct (H Hdk) as [_ [_ Hn]].
        rewrite nonoo_now. change (es_ins (st_edge s0 u)) with (ins0 u).
        rewrite Hi, (nonoo_splice _ _ l Hn). unfold nonoo_ins.
        destruct (Nat.ltb_spec (length (eins u)) (ei_noo (g_edge g u))); [lia|reflexivity]. }
    rewrite EJ. unfold read_ins.
    destruct (loaded_is_hid u l Hu Hl) as [Hl0|Hl0]; rewrite Hl0; [rewrite app_nil_r; apply incl_appl, incl_refl|apply incl_refl].
Qed.

Lemma read_below u i u' : (u < n_)%nat -> In i (read_ins g hid u) -> g_producer g i = Some u' -> (u' < u)%nat.
Proof.
  intros Hu Hi Hp. pose proof (edges_all_spec gi _ u Htopo) as H. cbn beta in H.
  specialize (H ltac:(cbn [inline g_nedges]; exact Hu)). rewrite forallb_forall in H.
  assert (Hin : In i (ei_ins (g_edge gi u))).
  { rewrite <- (nonoo_inline g hid u Hfrag Hu) in Hi. apply (nonoo_incl gi u). exact Hi. }
  specialize (H i Hin). cbn [inline g_producer] in H. rewrite Hp in H. apply Nat.ltb_lt. exact H.
Qed.

(* PERSIST: a statement that was dirty at the scan and reads from no restat statement, directly or
   transitively, is still dirty for Plan::CleanNode's test when its turn comes; afterwards its
   outputs are fresh (or still to be remade, for phony statements) *)
Lemma persist : forall u, (u < n_)%nat ->
  es_mark (st_edge s0 u) = VisitDone ->
  ((phony u = true /\ eins u = []) \/ (wantd p0 u /\ (phony u = false -> want_start p0 u = true))) ->
  (exists o, In o (outs u) /\ MD0 o) ->
  reads_tainted g hid u = false ->
  (phony u = false -> dirty_now_d g s0 (dstk u) u = true) /\
  (ei_restat (g_edge g u) = false -> forall k, (u < k)%nat -> (k <= n_)%nat ->
     forall o, In o (outs u) -> must_dirty (GNk k) (Wk k) o \/ Fresh k o).
Proof.
  induction u as [u IH] using lt_wf_ind. intros Hu Hd Hw Hmd Hnr.
  destruct AF as [[S1 _] [HR [[_ [_ [_ P3]]] _]]].
  destruct (J_incl u Hu Hd) as [JR JI].
  assert (Hin : forall i, In i (nonoo_ins GN u) -> MD0 i -> forall k, (u <= k)%nat -> (k <= n_)%nat ->
            must_dirty (GNk k) (Wk k) i \/ Fresh k i).
  { intros i Hi Hdi k Hk1 Hk2. destruct (g_producer g i) as [u'|] eqn:Hpi.
    - pose proof (read_below u i u' Hu (JR i Hi) Hpi) as Hlt.
      assert (Ht' : tainted g hid u' = false).
      { unfold reads_tainted in Hnr. destruct (tainted g hid u') eqn:Ht; [|reflexivity].
        assert (Hx : existsb (fun i0 => match g_producer g i0 with Some u0 => tainted g hid u0 | None => false end)
                             (read_ins g hid u) = true); [|congruence].
        apply existsb_exists. exists i. split; [apply JR; exact Hi|]. rewrite Hpi. exact Ht. }
      rewrite (tainted_spec g hid u' Htopo Hfrag ltac:(lia)) in Ht'. apply orb_false_iff in Ht'. destruct Ht' as [Hr' Hnr'].
      destruct (HR u Hd) as [D1 _]. pose proof (D1 i (JI i Hi)) as Fi.
      assert (Hd' : es_mark (st_edge s0 u') = VisitDone).
      { unfold node_final in Fi. change (g_producer G0 i) with (g_producer g i) in Fi. rewrite Hpi in Fi. exact Fi. }
      assert (Hfl : ns_dirty (st_node s0 i) = true) by (apply (proj1 (S1 i Fi)); exact Hdi).
      assert (Hw' : (phony u' = true /\ eins u' = []) \/ (wantd p0 u' /\ (phony u' = false -> want_start p0 u' = true))).
      { destruct (HR u' Hd') as [_ [_ [D3 _]]].
        destruct (D3 i (p_outC i u' Hpi) Hfl) as [[Hph' Hnil']|Hr0].
        - left. split; [exact Hph'|]. pose proof (RD_manifest G0 W0 s0 u' (HR u' Hd')) as Hinc.
          change (ei_ins (g_edge G0 u')) with (eins u') in Hinc.
          destruct (eins u') as [|j jl]; [reflexivity|]. specialize (Hinc j (or_introl eq_refl)). rewrite Hnil' in Hinc. destruct Hinc.
        - right. destruct Hw as [[Hphu Hnilu]|[Hwu _]].
          + exfalso. pose proof (JI i Hi) as Hx. rewrite (ins_now_none u (phony_none u Hu Hphu)), Hnilu in Hx. destruct Hx.
          + pose proof (P3 u Hwu (fun F => F) i (JI i Hi)) as Pi. unfold post in Pi.
            change (g_producer G0 i) with (g_producer g i) in Pi. rewrite Hpi in Pi.
            destruct (Pi Hr0) as [Hw1 Hw2]. split; [exact Hw1|]. intros _. apply want_start_iff. apply Hw2. exact Hfl. }
      destruct (IH u' Hlt ltac:(lia) Hd' Hw' (ex_intro _ i (conj (p_outC i u' Hpi) Hdi)) Hnr') as [_ HB].
      apply (HB Hr' k ltac:(lia) Hk2 i (p_outC i u' Hpi)).
    - left. apply md_leaf; [exact Hpi|]. cbn [world_of w_mtime]. unfold mtime_of. rewrite (src_same k i Hk2 Hpi).
      pose proof (must_dirty_leaf_inv G0 W0 i Hdi Hpi) as Hz. cbn [world_of_d w_mtime] in Hz. exact Hz. }
  assert (HA : phony u = false -> dirty_now_d g s0 (dstk u) u = true).
  { intros Hph. unfold dirty_now_d. destruct (es_deps_missing (st_edge s0 u)) eqn:Hmiss; [reflexivity|]. cbn [orb].
    apply (dirty_now_complete GN (stk u) u (wf_spec_now g s0 Hwf) Hwg (frag_AB_now g s0 HfD)).
    destruct Hmd as [o [Ho Hmdo]].
    destruct (cause u Hu Hd (ex_intro _ o (conj Ho Hmdo)) Hmiss)
      as [_ [_ [[i [Hi Hdi]]|[[Hc _]|[_ [o' [Ho' Hr]]]]]]].
    - exists o. split; [exact Ho|]. apply (dirty_by_input u i o Hu Hph Ho Hi). apply (Hin i Hi Hdi u (le_n u) ltac:(lia)).
    - congruence.
    - exists o'. split; [exact Ho'|]. apply (reason_persists u o' Hu Ho' Hph Hr). }
  split; [exact HA|].
  intros Hr k Hk1 Hk2 o Ho. destruct (phony u) eqn:Hph.
  - (* a phony statement: dirty or fresh through its inputs *)
    pose proof (phony_none u Hu Hph) as Hdk.
    assert (EJ : nonoo_ins GN u = nonoo_ins g u).
    { rewrite nonoo_now. rewrite (ins_now_none u Hdk). reflexivity. }
    destruct Hmd as [o0 [Ho0 Hmd0]].
    destruct (must_dirty_out_inv G0 W0 o0 u Hmd0 (o_prodC u o0 Ho0))
      as [[i [Hi Hdi]]|[[_ [Hnil [Hv [o' [Ho' Hz]]]]]|[[Hc _]|Hf]]].
    + unfold spec_ins, valid_deps in Hi. rewrite (spec_load_none G0 W0 u Hdk), app_nil_r in Hi.
      change (nonoo_ins G0 u) with (nonoo_ins g u) in Hi. rewrite <- EJ in Hi.
      destruct (Hin i Hi Hdi k ltac:(lia) Hk2) as [Hm|Hfr].
      * left. apply (md_input (GNk k) (Wk k) o u i (o_prodC u o Ho)); [rewrite spec_ins_now; exact Hi|exact Hm].
      * right. intros x Hx. apply (nt_phony (GNk k) (Wk k) x o u i); [|exact (o_prodC u o Ho)|exact Hph|exact Hi|apply Hfr; exact Hx].
        cbn [world_of w_mtime]. unfold mtime_of. rewrite (phony_off_disk k o u Hk2 (o_prodC u o Ho) Hph). reflexivity.
    + left. apply (md_phony (GNk k) (Wk k) o u o' (o_prodC u o Ho) Hph); [|exact Hv|exact Ho'|].
      * change (ei_ins (g_edge (GNk k) u)) with (ins0 u). rewrite (ins_now_none u Hdk). exact Hnil.
      * cbn [world_of w_mtime]. unfold mtime_of. rewrite (phony_off_disk k o' u Hk2 (o_prodC u o' Ho') Hph). reflexivity.
    + change (ei_phony (g_edge G0 u)) with (phony u) in Hc. congruence.
    + rewrite (spec_load_none G0 W0 u Hdk) in Hf. discriminate.
  - (* a real statement: it ran, and its command rewrites every output *)
    right.
    assert (Hws : want_start p0 u = true).
    { destruct Hw as [[Hc _]|[_ Hws]]; [congruence|apply Hws; reflexivity]. }
    destruct (dstep_cases ds0 s0 p0 u) as [[Hs _]|[_ [Hc|[Hc|Hc]]]]; [|congruence|congruence|rewrite (HA eq_refl) in Hc; discriminate].
    destruct (ran_fresh u Hu Hs Hr o Ho) as [mo [c [Hdo Hlt]]].
    destruct (outs_after u o Ho k Hk1 Hk2) as [Ed _].
    intros x Hx. apply nt_file; cbn [world_of w_mtime]; unfold mtime_of; rewrite Ed, Hdo.
    + destruct HG0 as [[[C1 _] _] _]. lia.
    + lia.
Qed.

(* ---- the build of the deps manifest and the build of the inlined manifest, step by step *)
Section EquivBuild.
Hypothesis Hord : hidden_reads_ordered g hid = true.
Hypothesis Hnr : no_restat_upstream_of_deps g hid = true.
Hypothesis Hnip : no_inputless_phony g = true.
Variables (si : sstate) (pi : plan).
Hypothesis Hscan_i : scan (graph_of gi st0) (world_of st0) T = ScanOk si pi.

Notation istk k := (build_upto cmd gi pi k st0).
Notation GiX X := (graph_of gi X).
Notation GNX X := (graph_of (graph_now g s0) X).

Let HGi : Good cmd gi st0 := proj1 HG0.
Let Hfi : frag_AB gi = true := frag_AB_inline g hid HfD.

Lemma manifest_in0 e : incl (eins e) (ins0 e).
Proof.
  destruct AF as [[_ [_ [S3 _]]] [HR _]].
  destruct (marks_final e) as [Hm|Hm].
  - rewrite (proj2 (S3 e Hm)). apply incl_refl.
  - apply (RD_manifest G0 W0 s0 e (HR e Hm)).
Qed.

Lemma Jgi e : (e < n_)%nat -> incl (nonoo_ins GN e) (read_ins g hid e).
Proof.
  intros He. destruct AF as [[_ [_ [S3 _]]] _].
  destruct (marks_final e) as [Hm|Hm]; [|apply (J_incl e He Hm)].
  rewrite nonoo_now. change (es_ins (st_edge s0 e)) with (ins0 e). rewrite (proj2 (S3 e Hm)).
  change (ei_ins (g_edge G0 e)) with (eins e). unfold read_ins. apply incl_appl.
  unfold nonoo_ins. apply incl_refl.
Qed.

Lemma ins0_in_gi e : incl (ins0 e) (ei_ins (g_edge gi e)).
Proof.
  destruct AF as [[_ [_ [S3 _]]] [HR _]].
  destruct (marks_final e) as [Hm|Hm].
  - rewrite (proj2 (S3 e Hm)). intros i Hi. apply inline_ins_in. left; exact Hi.
  - intros i Hi. apply (pot_in_inline ds0 e HG0). apply (RD_pot G0 W0 s0 e (HR e Hm)). exact Hi.
Qed.

Lemma topo_now : topo_ordered GN = true.
Proof.
  unfold topo_ordered, edges_all. apply forallb_forall. intros e He. apply in_seq in He.
  cbn [graph_now g_nedges] in He.
  pose proof (edges_all_spec gi _ e Htopo) as H. cbn beta in H.
  specialize (H ltac:(cbn [inline g_nedges]; lia)). rewrite forallb_forall in H.
  apply forallb_forall. intros i Hi. apply (H i). apply ins0_in_gi. exact Hi.
Qed.

Lemma spec_ins_nowX X w e : spec_ins (GNX X) w e = nonoo_ins GN e.
Proof. unfold spec_ins, valid_deps, spec_load. cbn [graph_of graph_now g_edge edge_now set_hash ei_deps]. apply app_nil_r. Qed.

Lemma static_now_i X : same_static (GNX X) (GiX X).
Proof. intros e. repeat split; reflexivity. Qed.

Lemma newer_now_i X x i : newer_than (GNX X) (world_of X) x i -> newer_than (GiX X) (world_of X) x i.
Proof.
  apply newer_ext; [reflexivity|reflexivity|].
  intros n e Hp Hph. split; [exact Hph|].
  change (nonoo_ins (GNX X) e) with (nonoo_ins GN e). change (nonoo_ins (GiX X) e) with (nonoo_ins gi e).
  rewrite (nonoo_inline g hid e Hfrag (Hwg n e Hp)). apply (Jgi e (Hwg n e Hp)).
Qed.

Lemma newer_i_now X x i : newer_than (GiX X) (world_of X) x i -> newer_than (GNX X) (world_of X) x i.
Proof.
  apply newer_ext; [reflexivity|reflexivity|].
  intros n e Hp Hph. split; [exact Hph|].
  change (nonoo_ins (GNX X) e) with (nonoo_ins GN e). change (nonoo_ins (GiX X) e) with (nonoo_ins gi e).
  change (ei_phony (g_edge (GiX X) e)) with (phony e) in Hph. pose proof (Hwg n e Hp) as He.
  rewrite (nonoo_inline g hid e Hfrag He). unfold read_ins. rewrite (phony_hid e He Hph), app_nil_r.
  rewrite nonoo_now, (ins_now_none e (phony_none e He Hph)). apply incl_refl.
Qed.

(* fewer inputs, fewer reasons *)
Lemma mono_now X n : must_dirty (GNX X) (world_of X) n -> must_dirty (GiX X) (world_of X) n.
Proof.
  apply md_transfer; [reflexivity|reflexivity|reflexivity|apply static_now_i|apply newer_now_i|].
  intros n0 e Hp. pose proof (Hwg n0 e Hp) as He. right.
  split; [rewrite spec_ins_nowX, (spec_ins_i X (world_of X) e He); apply (Jgi e He)|]. split.
  - unfold spec_load. cbn [graph_of graph_now g_edge edge_now set_hash ei_deps]. discriminate.
  - intros Hph Hnil. change (ei_ins (g_edge (GNX X) e)) with (ins0 e) in Hnil.
    change (ei_phony (g_edge (GNX X) e)) with (phony e) in Hph.
    cbn [graph_of inline g_edge inline_edge set_hash ei_ins].
    assert (Hen : eins e = []).
    { pose proof (manifest_in0 e) as Hinc. destruct (eins e) as [|x xs]; [reflexivity|].
      specialize (Hinc x (or_introl eq_refl)). rewrite Hnil in Hinc. destruct Hinc. }
    rewrite Hen, (phony_hid e He Hph). apply splice_nil_r.
Qed.

Lemma reach_now_i X T' n : reach (GNX X) T' n -> reach gi T' n.
Proof.
  intros H. induction H as [t Ht|x y Hx IH [ex [Hex Hin]]]; [apply reach_target; exact Ht|].
  apply (reach_step gi (manifest_ins gi) T' x y IH). exists ex. split; [exact Hex|].
  apply ins0_in_gi. exact Hin.
Qed.

Lemma reach_outs_below k n : (k < n_)%nat -> reach gi (outs k) n ->
  In n (outs k) \/ forall e, g_producer g n = Some e -> (e < k)%nat.
Proof.
  intros Hk H. induction H as [t Ht|x y Hx IH [ex [Hex Hin]]]; [left; exact Ht|]. right.
  cbn [inline g_producer] in Hex.
  assert (Hle : (ex <= k)%nat).
  { destruct IH as [Hin'|Hlt]; [rewrite (o_prodC k x Hin') in Hex; inversion Hex; lia|specialize (Hlt ex Hex); lia]. }
  intros e Hpy. pose proof (edges_all_spec gi _ ex Htopo) as H. cbn beta in H.
  specialize (H ltac:(cbn [inline g_nedges]; lia)). rewrite forallb_forall in H.
  specialize (H y Hin). cbn [inline g_producer] in H. rewrite Hpy in H. apply Nat.ltb_lt in H. lia.
Qed.

Lemma reach_outs_T k n : needed gi T k -> reach gi (outs k) n -> In n (outs k) \/ reach gi T n.
Proof.
  intros [nk [Rk Hpk]] H. induction H as [t Ht|x y Hx IH [ex [Hex Hin]]]; [left; exact Ht|]. right.
  destruct IH as [Hin'|IH].
  - apply (reach_step gi (manifest_ins gi) T nk y Rk). exists k. split; [exact Hpk|].
    cbn [inline g_producer] in Hex. rewrite (o_prodC k x Hin') in Hex. inversion Hex; subst ex. exact Hin.
  - apply (reach_step gi (manifest_ins gi) T x y IH). exists ex. split; [exact Hex|exact Hin].
Qed.

Lemma hash_i k : (k <= n_)%nat -> h_hash (istk k) = h_hash st0.
Proof. intros Hk. apply (build_inv1 cmd gi Hwfi Htopo st0 pi HGi k Hk). Qed.

(* everything the statement [k] needs, except [k] itself, is clean when its turn comes *)
Lemma up_clean_i k : (k < n_)%nat -> needed gi T k ->
  forall e, neededE (GiX (istk k)) (outs k) e -> e <> k ->
  forall o, In o (outs e) -> ~ must_dirty (GiX (istk k)) (world_of (istk k)) o.
Proof.
  intros Hk Hnk e [n [Rn Hp]] Hne o Ho.
  apply (reach_G gi (istk k) (outs k) n) in Rn. cbn [graph_of inline g_producer] in Hp.
  assert (Hno : ~ In n (outs k)).
  { intros Hin. rewrite (o_prodC k n Hin) in Hp. inversion Hp; subst. apply Hne. reflexivity. }
  assert (Hlt : (e < k)%nat).
  { destruct (reach_outs_below k n Hk Rn) as [Hc|H]; [contradiction|apply (H e Hp)]. }
  assert (Hne' : needed gi T e).
  { exists n. split; [|exact Hp]. destruct (reach_outs_T k n Hnk Rn) as [Hc|H]; [contradiction|exact H]. }
  rewrite (G_hash_eq gi st0 (istk k) (hash_i k ltac:(lia))).
  assert (Hkn : (k <= g_nedges gi)%nat) by (cbn [inline g_nedges]; lia).
  apply (build_inv_c02 cmd gi Hwfi Hwg Hfi Htopo st0 T si pi HGi Hscan_i k (nip_inline Hnip) Hkn e Hlt Hne' o Ho).
Qed.

Lemma step_dirty_eq k : (k < n_)%nat -> stk k = istk k ->
  want_start p0 k = true -> phony k = false ->
  dirty_now_d g s0 (dstk k) k = dirty_now gi (istk k) k.
Proof.
  intros Hk Heq Hw Hph. set (X := istk k) in *.
  assert (Hwi : want_start pi k = true) by (rewrite <- (want_eq Hord Hnip ds0 T s0 p0 si pi HG0 Hscan Hscan_i k); exact Hw).
  assert (Hnk : needed gi T k) by (apply (want_sound gi Hwfi Hwg Hfi st0 T si pi Hscan_i k Hwi)).
  pose proof (up_clean_i k Hk Hnk) as Hup. fold X in Hup.
  assert (Hwn : wf_spec GN) by (apply wf_spec_now; exact Hwf).
  assert (Hfn : frag_AB GN = true) by (apply frag_AB_now; exact HfD).
  (* clean for the inlined manifest => clean for ninja's in-memory manifest *)
  assert (Hnow_false : (forall o, In o (outs k) -> ~ must_dirty (GiX X) (world_of X) o) ->
                       dirty_now GN X k = false).
  { intros Hck. apply (dirty_now_false GN X k Hwn Hwg Hfn topo_now).
    intros e [n [Rn Hp]] o Ho Hmd. apply mono_now in Hmd.
    destruct (Nat.eq_dec e k) as [->|Hne]; [apply (Hck o Ho Hmd)|].
    assert (Hne2 : neededE (GiX X) (outs k) e).
    { exists n. split; [|exact Hp]. apply (reach_G gi X (outs k) n). apply (reach_now_i X (outs k) n Rn). }
    exact (Hup e Hne2 Hne o Ho Hmd). }
  unfold dirty_now_d. rewrite Heq. fold X.
  destruct (dirty_now gi X k) eqn:HI.
  - (* dirty for the inlined manifest *)
    apply want_start_iff in Hw.
    destruct (scan_want_soundD G0 W0 (Gd_wf ds0) (Gd_wg ds0) (Gd_frag ds0) T s0 p0 Hscan k Hw) as [_ [Hd [_ Hmd]]].
    destruct (deps_kind_cases g k HfD Hk) as [Hdk|Hdk].
    + (* no deps binding: the inputs are the same *)
      assert (Hmiss : es_deps_missing (st_edge s0 k) = false).
      { destruct AF as [_ [HR _]]. destruct (HR k Hd) as [_ [_ [_ [_ [_ H6]]]]].
        destruct (es_deps_missing (st_edge s0 k)); [|reflexivity].
        rewrite (spec_load_none G0 W0 k Hdk) in H6. pose proof (proj2 H6 eq_refl) as Hc. discriminate Hc. }
      rewrite Hmiss. cbn [orb]. destruct (dirty_now GN X k) eqn:HD; [reflexivity|exfalso].
      pose proof (dirty_now_spec GN Hwn Hwg Hfn X k HD) as Hcn.
      assert (EJ : nonoo_ins GN k = read_ins g hid k).
      { rewrite nonoo_now, (ins_now_none k Hdk). unfold read_ins. rewrite (hid_none k Hk Hdk), app_nil_r. reflexivity. }
      assert (HIf : dirty_now gi X k = false); [|congruence].
      apply (dirty_now_false gi X k Hwfi Hwg Hfi Htopo).
      intros e Hne o Ho Hmdo. destruct (Nat.eq_dec e k) as [->|Hnek]; [|apply (Hup e Hne Hnek o Ho Hmdo)].
      destruct (must_dirty_out_inv (GiX X) (world_of X) o k Hmdo (o_prodC k o Ho))
        as [[i [Hi Hdi]]|[[Hc _]|[[_ [o' [Ho' Hr]]]|Hf]]].
      * rewrite (spec_ins_i X (world_of X) k Hk) in Hi.
        destruct (g_producer g i) as [u|] eqn:Hpi.
        -- assert (Hnu : neededE (GiX X) (outs k) u).
           { exists i. split; [|exact Hpi]. apply (reach_step (GiX X) _ (outs k) o i (reach_target _ _ _ o Ho)).
             exists k. split; [exact (o_prodC k o Ho)|].
             rewrite <- (nonoo_inline g hid k Hfrag Hk) in Hi. apply (nonoo_incl gi k). exact Hi. }
           assert (Hlt : (u < k)%nat) by (apply (read_below k i u Hk Hi Hpi)).
           apply (Hup u Hnu ltac:(lia) i (p_outC i u Hpi) Hdi).
        -- apply (Hcn o Ho). apply (md_input (GNX X) (world_of X) o k i (o_prodC k o Ho)); [rewrite spec_ins_nowX, EJ; exact Hi|].
           apply md_leaf; [exact Hpi|apply (must_dirty_leaf_inv (GiX X) (world_of X) i Hdi Hpi)].
      * change (ei_phony (g_edge (GiX X) k)) with (phony k) in Hc. congruence.
      * apply (Hcn o' Ho'). apply (md_self (GNX X) (world_of X) o' k o' (o_prodC k o' Ho') Hph Ho').
        unfold out_reason, base_reason, time_reason, used_restat in *.
        assert (HN : forall x, (exists i, In i (spec_ins (GiX X) (world_of X) k) /\ newer_than (GiX X) (world_of X) x i) ->
                               exists i, In i (spec_ins (GNX X) (world_of X) k) /\ newer_than (GNX X) (world_of X) x i).
        { intros x [i [Hi Hn]]. exists i. rewrite (spec_ins_i X (world_of X) k Hk) in Hi.
          split; [rewrite spec_ins_nowX, EJ; exact Hi|apply newer_i_now; exact Hn]. }
        destruct Hr as [Hb|[[Hu Hn]|Ht]]; [left; exact Hb|right; left; split; [exact Hu|apply HN; exact Hn]|].
        right; right. destruct (w_blog (world_of X) o') as [[h m]|]; [apply HN; exact Ht|exact Ht].
      * unfold spec_load in Hf. cbn [graph_of inline g_edge inline_edge set_hash ei_deps] in Hf. discriminate.
    + (* a deps statement reads from no restat statement: PERSIST *)
      assert (Hws : want_start p0 k = true) by (apply want_start_iff; exact Hw).
      destruct (persist k Hk Hd) as [HA _]; [right; split; [unfold wantd; rewrite Hw; discriminate|intros _; exact Hws]|exact Hmd|apply (untainted_deps k Hnr Hk Hdk)|].
      specialize (HA Hph). unfold dirty_now_d in HA. rewrite Heq in HA. exact HA.
  - (* clean for the inlined manifest *)
    pose proof (dirty_now_spec gi Hwfi Hwg Hfi X k HI) as Hci.
    rewrite (Hnow_false Hci), orb_false_r.
    destruct (es_deps_missing (st_edge s0 k)) eqn:Hmiss; [exfalso|reflexivity].
    apply want_start_iff in Hw.
    destruct (scan_want_soundD G0 W0 (Gd_wf ds0) (Gd_wg ds0) (Gd_frag ds0) T s0 p0 Hscan k Hw) as [_ [Hd _]].
    destruct AF as [_ [HR _]]. destruct (HR k Hd) as [_ [_ [_ [_ [_ H6]]]]].
    pose proof (proj2 H6 Hmiss) as Hfail.
    destruct (load_cases ds0 k HG0 Hk) as [[_ [_ [o0 [Ho0 Hdo]]]]|[l [Hl _]]]; [|congruence].
    apply (Hci o0 Ho0). apply (md_self (GiX X) (world_of X) o0 k o0 (o_prodC k o0 Ho0) Hph Ho0).
    left. left. cbn [world_of w_mtime]. unfold mtime_of. rewrite <- Heq.
    rewrite (proj1 (outs_before k k o0 ltac:(lia) (le_n k) Ho0)), Hdo. reflexivity.
Qed.

(* the two builds run the same commands and reach the same state *)
Theorem equiv_upto k : (k <= n_)%nat -> stk k = istk k.
Proof.
  induction k as [|k IH]; intros Hk; [reflexivity|].
  specialize (IH ltac:(lia)).
  rewrite dbuild_upto_S, build_upto_S. unfold dbuild_step, build_step.
  rewrite <- (want_eq Hord Hnip ds0 T s0 p0 si pi HG0 Hscan Hscan_i k).
  change (ei_phony (g_edge gi k)) with (phony k).
  destruct (want_start p0 k) eqn:Hw; [|exact IH].
  destruct (phony k) eqn:Hph; [exact IH|]. cbn [negb andb].
  rewrite (step_dirty_eq k ltac:(lia) IH Hw Hph).
  destruct (dirty_now gi (istk k) k); [|exact IH].
  rewrite (drun_edge_h (dstk k) k ltac:(lia)), IH. reflexivity.
Qed.

End EquivBuild.

End PartC.

(* ---- consequences for one build *)

(* a real statement the targets need, some output of which must be remade, and which reads from no
   restat statement, is run by the build *)
Lemma wanted_untainted_runs ds T ds' e :
  GoodD ds -> (e < g_nedges g)%nat -> phony e = false -> reads_tainted g hid e = false ->
  (exists n, reach g T n /\ g_producer g n = Some e) ->
  (exists o, In o (outs e) /\ must_dirty (Gd ds) (Wd ds) o) ->
  dbuild cmd g hid ds T = Some ds' ->
  In e (ran_since (d_h ds) (d_h ds')).
Proof.
  intros HG He Hph Hnr [n [Rn Hp]] Hmd Hb. unfold dbuild in Hb.
  destruct (dscan g ds T) as [c|m d|e'| |s p] eqn:Hs; try discriminate. inversion Hb; subst ds'. clear Hb.
  destruct (dbuild_trace ds s p (g_nedges g)) as [l [Hl Hin]].
  rewrite (ran_since_app l _ _ Hl). apply Hin.
  pose proof (reach_manifest_S ds T s p Hs n Rn) as RSn.
  destruct (scan_want_completeD (Gd ds) (Wd ds) (Gd_wf ds) (Gd_wg ds) (Gd_frag ds) T s p Hs e) as [Hw _].
  - exists n. split; [exact RSn|exact Hp].
  - exact Hmd.
  - intros [Hx _]. cbn [graph_of g_edge set_hash ei_phony] in Hx. congruence.
  - assert (Hws : want_start p e = true) by (apply want_start_iff; exact Hw).
    split; [exact He|]. split; [exact Hws|]. split; [exact Hph|].
    destruct (reach_finalD (Gd ds) (Wd ds) (Gd_wf ds) (Gd_wg ds) (Gd_frag ds) T s p Hs n RSn) as [Fn _].
    unfold node_final in Fn. change (g_producer (Gd ds) n) with (g_producer g n) in Fn. rewrite Hp in Fn.
    apply (persist ds T s p HG Hs e He Fn); [|exact Hmd|exact Hnr|exact Hph].
    right. split; [unfold wantd; rewrite Hw; discriminate|intros _; exact Hws].
Qed.

(* an output of a deps statement whose hidden read [i] is newer than its log entry, or missing,
   must be remade *)
Lemma hidden_read_dirties ds e i o :
  GoodD ds -> (e < g_nedges g)%nat -> ei_deps (g_edge g e) = DepsLog -> In i (hid e) -> In o (outs e) ->
  is_source g i = true ->
  (h_disk (d_h ds) i = None \/
   forall h m, h_blog (d_h ds) o = Some (h, m) -> m < mtime_of (d_h ds) i) ->
  must_dirty (Gd ds) (Wd ds) o.
Proof.
  intros HG He Hdk Hi Ho Hsrc Hcase.
  assert (Hpi : g_producer g i = None) by (unfold is_source in Hsrc; destruct (g_producer g i); [discriminate|reflexivity]).
  destruct (frag_D_edge g e HfD He) as [_ [_ Hlog]]. destruct (Hlog Hdk) as [Hph [Hne _]].
  destruct (spec_load (Gd ds) (Wd ds) e) as [| |l] eqn:Hl.
  - apply (md_deps (Gd ds) (Wd ds) o e); [apply o_prod_d; exact Ho|exact Hl].
  - exfalso. apply (spec_load_not_err (Gd ds) (Wd ds) (Gd_frag ds) e He Hl).
  - assert (Hlh : l = hid e).
    { unfold spec_load in Hl. cbn [graph_of g_edge set_hash ei_deps ei_outs] in Hl. rewrite Hdk in Hl.
      destruct (outs e) as [|o0 os] eqn:Hos; [discriminate|]. cbn [world_of_d w_dlog] in Hl.
      destruct (d_deps ds o0) as [[dm nodes]|] eqn:Hr; [|discriminate].
      destruct (Z.gtb _ _); [discriminate|]. inversion Hl; subst nodes.
      destruct (proj1 (proj2 HG) o0 dm l Hr) as [_ [e' [Ho' [_ Hh]]]].
      assert (e' = e); [|subst; reflexivity].
      pose proof (o_prod_d e' o0 Ho') as H1. rewrite (o_prod_d e o0) in H1 by (rewrite Hos; left; reflexivity). congruence. }
    assert (Hsi : In i (spec_ins (Gd ds) (Wd ds) e)).
    { unfold spec_ins, valid_deps. rewrite Hl, Hlh. apply in_or_app. right; exact Hi. }
    destruct Hcase as [Hmiss|Hnew].
    + apply (md_input (Gd ds) (Wd ds) o e i (o_prod_d e o Ho) Hsi).
      apply md_leaf; [exact Hpi|]. cbn [world_of_d w_mtime]. unfold mtime_of. rewrite Hmiss. reflexivity.
    + apply (md_self (Gd ds) (Wd ds) o e o (o_prod_d e o Ho) Hph Ho).
      destruct (h_disk (d_h ds) o) as [[mo c]|] eqn:Hdo.
      2:{ left. left. cbn [world_of_d w_mtime]. unfold mtime_of. rewrite Hdo. reflexivity. }
      destruct HG as [[[_ [B [_ [_ E]]]] _] _].
      destruct (h_blog (d_h ds) o) as [[h m]|] eqn:Hbo.
      2:{ exfalso. apply (E o e (o_prod_d e o Ho) Hph); [rewrite Hdo; discriminate|exact Hbo]. }
      right. right. cbn [world_of_d w_blog]. rewrite Hbo. exists i. split; [exact Hsi|].
      specialize (Hnew h m eq_refl). unfold mtime_of in Hnew.
      destruct (h_disk (d_h ds) i) as [[mi ci]|] eqn:Hdi.
      * apply nt_file; cbn [world_of_d w_mtime]; unfold mtime_of; rewrite Hdi; [|exact Hnew].
        specialize (B i mi ci Hdi). lia.
      * apply nt_missing; [cbn [world_of_d w_mtime]; unfold mtime_of; rewrite Hdi; reflexivity|exact Hnew].
Qed.

(* (ii) a changed hidden read (an edited source) re-runs the statement in the next build *)
Theorem C10_changed_dep_reruns_proof ds i c T ds' e :
  GoodD ds -> no_restat_upstream_of_deps g hid = true ->
  (e < g_nedges g)%nat -> ei_deps (g_edge g e) = DepsLog -> In i (hid e) -> is_source g i = true ->
  (exists n, reach g T n /\ g_producer g n = Some e) ->
  dbuild cmd g hid (dapply_step cmd g hid ds (Edit i c)) T = Some ds' ->
  In e (ran_since (d_h (dapply_step cmd g hid ds (Edit i c))) (d_h ds')).
Proof.
  intros HG Hnr He Hdk Hi Hsrc Hn Hb.
  pose proof (goodd_edit ds i c HG Hsrc) as HG1. cbn [dapply_step] in *.
  set (ds1 := dlift (fun st => write_file st i c) ds) in *.
  destruct (frag_D_edge g e HfD He) as [_ [_ Hlog]]. destruct (Hlog Hdk) as [Hph [Hne _]].
  destruct (outs e) as [|o os] eqn:Hos; [congruence|].
  assert (Ho : In o (outs e)) by (rewrite Hos; left; reflexivity).
  apply (wanted_untainted_runs ds1 T ds' e HG1 He Hph (untainted_deps e Hnr He Hdk) Hn); [|exact Hb].
  exists o. split; [exact Ho|].
  apply (hidden_read_dirties ds1 e i o HG1 He Hdk Hi Ho Hsrc). right.
  intros h m Hbl. unfold ds1, mtime_of. cbn [dlift d_h write_file h_disk h_blog] in *. rewrite upd_same.
  destruct HG as [[[_ [_ [C _]]] _] _]. specialize (C o h m Hbl). lia.
Qed.

(* (iii) a missing hidden read that has no rule makes the statement dirty; it is not an error *)
Theorem C10_missing_dep_dirty_proof ds T e i :
  GoodD ds -> no_restat_upstream_of_deps g hid = true ->
  (e < g_nedges g)%nat -> ei_deps (g_edge g e) = DepsLog -> In i (hid e) -> is_source g i = true ->
  h_disk (d_h ds) i = None -> g_byloader g i = true ->
  (exists n, reach g T n /\ g_producer g n = Some e) ->
  (forall d, dscan g ds T <> ScanMissing i d) /\
  (forall ds', dbuild cmd g hid ds T = Some ds' -> In e (ran_since (d_h ds) (d_h ds'))).
Proof.
  intros HG Hnr He Hdk Hi Hsrc Hmiss Hbl Hn. split.
  - intros d H. unfold dscan, scan in H.
    pose proof (scan_missing_byloader (Gd ds) (Wd ds) T _ _ i d H) as Hc.
    cbn [graph_of g_byloader] in Hc. congruence.
  - intros ds' Hb.
    destruct (frag_D_edge g e HfD He) as [_ [_ Hlog]]. destruct (Hlog Hdk) as [Hph [Hne _]].
    destruct (outs e) as [|o os] eqn:Hos; [congruence|].
    assert (Ho : In o (outs e)) by (rewrite Hos; left; reflexivity).
    apply (wanted_untainted_runs ds T ds' e HG He Hph (untainted_deps e Hnr He Hdk) Hn); [|exact Hb].
    exists o. split; [exact Ho|].
    apply (hidden_read_dirties ds e i o HG He Hdk Hi Ho Hsrc). left; exact Hmiss.
Qed.

(* ================================================================== Part F: histories *)
Section HistEquiv.
Hypothesis Hord : hidden_reads_ordered g hid = true.
Hypothesis Hnr : no_restat_upstream_of_deps g hid = true.
Hypothesis Hnip : no_inputless_phony g = true.

(* one build: if both manifests accept the request, they run the same commands *)
Theorem C10_equiv_build_proof ds T ds' st' :
  GoodD ds -> dbuild cmd g hid ds T = Some ds' -> build cmd gi (d_h ds) T = Some st' ->
  d_h ds' = st'.
Proof.
  intros HG Hb Hi. unfold dbuild in Hb. unfold build in Hi.
  destruct (dscan g ds T) as [c|m d|e| |s p] eqn:Hs; try discriminate.
  destruct (scan (graph_of gi (d_h ds)) (world_of (d_h ds)) T) as [c|m d|e| |si pi] eqn:Hsi; try discriminate.
  inversion Hb; inversion Hi; subst ds' st'.
  apply (equiv_upto ds T s p HG Hs Hord Hnr Hnip si pi Hsi (g_nedges g) (le_n _)).
Qed.

Lemma both_accept_spec ds T : both_accept g hid ds (d_h ds) T = true ->
  exists ds' st', dbuild cmd g hid ds T = Some ds' /\ build cmd gi (d_h ds) T = Some st'.
Proof.
  unfold both_accept, dbuild, build.
  destruct (dscan g ds T) as [c|m d|e| |s p]; try discriminate.
  destruct (scan (graph_of gi (d_h ds)) (world_of (d_h ds)) T) as [c|m d|e| |si pi]; try discriminate.
  intros _. eexists. eexists. split; reflexivity.
Qed.

(* C10_equiv: the deps manifest and the inlined manifest go through the same states *)
Theorem C10_equiv_states : forall h ds,
  GoodD ds -> hist_ok g h = true -> hist_side cmd g hid ds (d_h ds) h = true ->
  d_h (drun_hist cmd g hid ds h) = run_hist cmd gi (d_h ds) h.
Proof.
  induction h as [|x h IH]; intros ds HG Hok Hside; [reflexivity|].
  cbn [hist_ok forallb] in Hok. apply andb_true_iff in Hok. destruct Hok as [Hx Hh].
  cbn [hist_side] in Hside. apply andb_true_iff in Hside. destruct Hside as [Hsx Hsh].
  change (drun_hist cmd g hid ds (x :: h)) with (drun_hist cmd g hid (dapply_step cmd g hid ds x) h).
  change (run_hist cmd gi (d_h ds) (x :: h)) with (run_hist cmd gi (apply_step cmd gi (d_h ds) x) h).
  assert (Estep : d_h (dapply_step cmd g hid ds x) = apply_step cmd gi (d_h ds) x).
  { destruct x as [n c|n|e hh|T]; cbn [dapply_step apply_step dlift d_h]; try reflexivity.
    destruct (both_accept_spec ds T Hsx) as [ds' [st' [Hb Hi]]]. rewrite Hb, Hi.
    apply (C10_equiv_build_proof ds T ds' st' HG Hb Hi). }
  rewrite <- Estep. apply IH; [apply goodd_step; assumption|exact Hh|rewrite Estep; exact Hsh].
Qed.

Theorem C10_equiv_proof h :
  hist_ok g h = true -> hist_side cmd g hid (init_dstate g) (init_hstate gi) h = true ->
  d_h (drun_hist cmd g hid (init_dstate g) h) = run_hist cmd gi (init_hstate gi) h.
Proof.
  intros Hok Hside. apply (C10_equiv_states h (init_dstate g) goodd_init Hok Hside).
Qed.

(* hence C01: after a history that ends with a successful build, the deps manifest has the
   contents of a clean build (of the ground truth: hidden reads included) *)
Theorem C10_C01_proof h T :
  (forall e hh hh' S o, ei_generator (g_edge g e) = true -> cmd e hh S o = cmd e hh' S o) ->
  hist_ok g (h ++ [Build T]) = true ->
  hist_side cmd g hid (init_dstate g) (init_hstate gi) (h ++ [Build T]) = true ->
  let ds' := drun_hist cmd g hid (init_dstate g) (h ++ [Build T]) in
  forall n, reach gi T n -> content_of (d_h ds') n = clean_of_d cmd g hid ds' n.
Proof.
  intros Hgen Hok Hside ds' n Rn. unfold clean_of_d, ds'.
  rewrite (C10_equiv_proof (h ++ [Build T]) Hok Hside).
  unfold run_hist. rewrite fold_left_app. cbn [fold_left apply_step].
  fold (run_hist cmd gi (init_hstate gi) h).
  assert (Hokh : hist_ok g h = true).
  { unfold hist_ok in *. rewrite forallb_app in Hok. apply andb_true_iff in Hok. apply Hok. }
  destruct (build cmd gi (run_hist cmd gi (init_hstate gi) h) T) as [st'|] eqn:Hb.
  - apply (C01_history cmd gi Hwfi Hwg (frag_AB_inline g hid HfD) Htopo Hgen h T st' Hokh Hb n Rn).
  - exfalso. (* the last build was accepted by both: hist_side says so *)
    assert (Hacc : forall h0 ds st, GoodD ds -> d_h ds = st -> hist_ok g h0 = true ->
              hist_side cmd g hid ds st (h0 ++ [Build T]) = true ->
              build cmd gi (run_hist cmd gi st h0) T <> None).
    { induction h0 as [|x h0 IH0]; intros ds st HG Hst Hok0 Hs0.
      - cbn [app hist_side] in Hs0. apply andb_true_iff in Hs0. destruct Hs0 as [Hs0 _]. subst st.
        destruct (both_accept_spec ds T Hs0) as [_ [st'' [_ Hi]]]. cbn [run_hist fold_left]. congruence.
      - cbn [hist_ok forallb] in Hok0. apply andb_true_iff in Hok0. destruct Hok0 as [Hx Hh0].
        change ((x :: h0) ++ [Build T]) with (x :: (h0 ++ [Build T])) in Hs0. cbn [hist_side] in Hs0.
        apply andb_true_iff in Hs0. destruct Hs0 as [Hsx Hsh]. subst st.
        change (run_hist cmd gi (d_h ds) (x :: h0)) with (run_hist cmd gi (apply_step cmd gi (d_h ds) x) h0).
        assert (Estep : d_h (dapply_step cmd g hid ds x) = apply_step cmd gi (d_h ds) x).
        { pose proof (C10_equiv_states [x] ds HG) as H1. cbn [hist_ok forallb hist_side drun_hist run_hist fold_left] in H1.
          apply H1; [rewrite Hx; reflexivity|rewrite Hsx; reflexivity]. }
        apply (IH0 (dapply_step cmd g hid ds x) _ (goodd_step ds x HG Hx) Estep Hh0 Hsh). }
    apply (Hacc h (init_dstate g) (init_hstate gi) goodd_init eq_refl Hokh Hside). exact Hb.
Qed.

Lemma dbuild_upto_idle s p ds : (forall e, p_want p e <> Some WantToStart) ->
  forall k, dbuild_upto cmd g hid s p k ds = ds.
Proof.
  intros Hp. induction k as [|k IH]; [reflexivity|]. rewrite dbuild_upto_S, IH. unfold dbuild_step.
  assert (Hw : want_start p k = false).
  { destruct (want_start p k) eqn:E; [|reflexivity]. apply want_start_iff in E. destruct (Hp k E). }
  rewrite Hw. reflexivity.
Qed.

(* ... and C02: after a successful build (accepted by both manifests, from a state both share) the
   deps manifest wants nothing: a second build runs no command and changes nothing *)
Theorem C10_C02_proof ds T ds' st' :
  GoodD ds -> dbuild cmd g hid ds T = Some ds' -> build cmd gi (d_h ds) T = Some st' ->
  (forall s p, dscan g ds' T = ScanOk s p -> forall e, p_want p e <> Some WantToStart) /\
  (forall ds'', dbuild cmd g hid ds' T = Some ds'' -> ds'' = ds').
Proof.
  intros HG Hb Hi. pose proof (C10_equiv_build_proof ds T ds' st' HG Hb Hi) as Heq.
  pose proof (goodd_build ds T ds' HG Hb) as HG'.
  destruct (C02_converges cmd gi Hwfi Hwg (frag_AB_inline g hid HfD) Htopo (d_h ds) T st' (proj1 HG) (nip_inline Hnip) Hi)
    as [s2 [p2 [Hs2 Hnone]]].
  rewrite <- Heq in Hs2.
  assert (Hwant : forall s p, dscan g ds' T = ScanOk s p -> forall e, p_want p e <> Some WantToStart).
  { intros s p Hs e Hw. apply want_start_iff in Hw.
    rewrite (want_eq Hord Hnip ds' T s p s2 p2 HG' Hs Hs2 e) in Hw. apply want_start_iff in Hw. apply (Hnone e Hw). }
  split; [exact Hwant|].
  intros ds'' Hb2. unfold dbuild in Hb2. destruct (dscan g ds' T) as [c|m d|e| |s p] eqn:Hs; try discriminate.
  inversion Hb2; subst ds''. apply dbuild_upto_idle. apply (Hwant s p eq_refl).
Qed.

(* ---- the same with the side condition that does not mention the scans *)
Lemma dbuild_some ds T : (exists ds', dbuild cmd g hid ds T = Some ds') <-> (exists s p, dscan g ds T = ScanOk s p).
Proof.
  unfold dbuild. destruct (dscan g ds T) as [c|m d|e| |s p]; split.
  all: try (intros [x Hx]; discriminate Hx).
  all: try (intros [x [y Hy]]; discriminate Hy).
  - intros _. exists s, p. reflexivity.
  - intros _. eexists. reflexivity.
Qed.

Lemma build_some st T : (exists st', build cmd gi st T = Some st') <->
  (exists s p, scan (graph_of gi st) (world_of st) T = ScanOk s p).
Proof.
  unfold build. destruct (scan (graph_of gi st) (world_of st) T) as [c|m d|e| |s p]; split.
  all: try (intros [x Hx]; discriminate Hx).
  all: try (intros [x [y Hy]]; discriminate Hy).
  - intros _. exists s, p. reflexivity.
  - intros _. eexists. reflexivity.
Qed.

Lemma step_equiv_present ds x : GoodD ds -> step_ok g x = true ->
  match x with Build T => hidden_srcs_present g hid (d_h ds) && targets_known g T | _ => true end = true ->
  d_h (dapply_step cmd g hid ds x) = apply_step cmd gi (d_h ds) x.
Proof.
  intros HG Hok Hp. destruct x as [n c|n|e hh|T]; cbn [dapply_step apply_step dlift d_h]; try reflexivity.
  apply andb_true_iff in Hp. destruct Hp as [Hpres HT].
  pose proof (accept_equiv Hord Hnip ds T HG Hpres HT) as Hacc.
  destruct (dbuild cmd g hid ds T) as [ds'|] eqn:Hb; destruct (build cmd gi (d_h ds) T) as [st'|] eqn:Hi.
  - apply (C10_equiv_build_proof ds T ds' st' HG Hb Hi).
  - exfalso.
    assert (Hd : exists s p, dscan g ds T = ScanOk s p) by (apply (proj1 (dbuild_some ds T)); exists ds'; exact Hb).
    destruct (proj1 Hacc Hd) as [si [pi Hs]]. unfold build in Hi. rewrite Hs in Hi. discriminate.
  - exfalso.
    assert (Hx : exists si pi, scan (Gi ds) (Wi ds) T = ScanOk si pi) by (apply (proj1 (build_some (d_h ds) T)); exists st'; exact Hi).
    destruct (proj2 Hacc Hx) as [s [p Hs]]. unfold dbuild in Hb. rewrite Hs in Hb. discriminate.
  - reflexivity.
Qed.

Theorem C10_equiv_present_states : forall h ds,
  GoodD ds -> hist_ok g h = true -> hist_present cmd g hid ds h = true ->
  d_h (drun_hist cmd g hid ds h) = run_hist cmd gi (d_h ds) h.
Proof.
  induction h as [|x h IH]; intros ds HG Hok Hside; [reflexivity|].
  cbn [hist_ok forallb] in Hok. apply andb_true_iff in Hok. destruct Hok as [Hx Hh].
  cbn [hist_present] in Hside. apply andb_true_iff in Hside. destruct Hside as [Hsx Hsh].
  change (drun_hist cmd g hid ds (x :: h)) with (drun_hist cmd g hid (dapply_step cmd g hid ds x) h).
  change (run_hist cmd gi (d_h ds) (x :: h)) with (run_hist cmd gi (apply_step cmd gi (d_h ds) x) h).
  rewrite <- (step_equiv_present ds x HG Hx Hsx).
  apply IH; [apply goodd_step; assumption|exact Hh|exact Hsh].
Qed.

Theorem C10_equiv_present_proof h :
  hist_ok g h = true -> hist_present cmd g hid (init_dstate g) h = true ->
  d_h (drun_hist cmd g hid (init_dstate g) h) = run_hist cmd gi (init_hstate gi) h.
Proof.
  intros Hok Hside. apply (C10_equiv_present_states h (init_dstate g) goodd_init Hok Hside).
Qed.

Lemma hist_present_app : forall h h2 ds,
  hist_present cmd g hid ds (h ++ h2) =
  (hist_present cmd g hid ds h && hist_present cmd g hid (drun_hist cmd g hid ds h) h2)%bool.
Proof.
  induction h as [|x h IH]; intros h2 ds; [reflexivity|].
  change ((x :: h) ++ h2) with (x :: (h ++ h2)). cbn [hist_present].
  change (drun_hist cmd g hid ds (x :: h)) with (drun_hist cmd g hid (dapply_step cmd g hid ds x) h).
  rewrite IH, andb_assoc. reflexivity.
Qed.

(* C01 for the deps manifest, from the side condition that does not mention the inlined manifest *)
Theorem C10_C01_present_proof h T ds' :
  (forall e hh hh' S o, ei_generator (g_edge g e) = true -> cmd e hh S o = cmd e hh' S o) ->
  hist_ok g h = true -> hist_present cmd g hid (init_dstate g) (h ++ [Build T]) = true ->
  dbuild cmd g hid (drun_hist cmd g hid (init_dstate g) h) T = Some ds' ->
  forall n, reach gi T n -> content_of (d_h ds') n = clean_of_d cmd g hid ds' n.
Proof.
  intros Hgen Hok Hside Hb n Rn.
  rewrite hist_present_app in Hside. apply andb_true_iff in Hside. destruct Hside as [Hs1 Hs2].
  cbn [hist_present] in Hs2. rewrite andb_true_r in Hs2. apply andb_true_iff in Hs2. destruct Hs2 as [Hpres HT].
  set (dsh := drun_hist cmd g hid (init_dstate g) h) in *.
  pose proof (goodd_hist h (init_dstate g) goodd_init Hok) as HGh. fold dsh in HGh.
  pose proof (C10_equiv_present_proof h Hok Hs1) as Heq. fold dsh in Heq.
  destruct (proj1 (accept_equiv Hord Hnip dsh T HGh Hpres HT)) as [si [pi Hsi]].
  { apply (proj1 (dbuild_some dsh T)). exists ds'. exact Hb. }
  destruct (proj2 (build_some (d_h dsh) T)) as [st' Hi]; [exists si, pi; exact Hsi|].
  pose proof (C10_equiv_build_proof dsh T ds' st' HGh Hb Hi) as Heq'.
  unfold clean_of_d. rewrite Heq'. rewrite Heq in Hi.
  apply (C01_history cmd gi Hwfi Hwg (frag_AB_inline g hid HfD) Htopo Hgen h T st' Hok Hi n Rn).
Qed.

End HistEquiv.

End PartA.

(* ================================================================== the example projects are models *)
Lemma ExD_wf_spec : wf_spec ExD.g.
Proof.
  split; [|split].
  - intros e o Ho. destruct e as [|[|[|e]]]; cbn in Ho; try (destruct Ho as [<-|[]]; reflexivity); destruct Ho.
  - intros n e Hp. destruct n as [|[|[|[|[|n]]]]]; cbn in Hp; try discriminate; inversion Hp; subst; cbn; left; reflexivity.
  - intros e Hd. destruct e as [|[|[|e]]]; cbn in *; try congruence. split; [reflexivity|lia].
Qed.
Lemma ExD_wf_graph : wf_graph ExD.g.
Proof. intros n e Hp. destruct n as [|[|[|[|[|n]]]]]; cbn in Hp; try discriminate; inversion Hp; subst; cbn; lia. Qed.
Lemma Ex_cmd_gen (g : graph) : (forall e, ei_generator (g_edge g e) = false) ->
  forall e h h' S o, ei_generator (g_edge g e) = true -> Ex.cmd e h S o = Ex.cmd e h' S o.
Proof. intros Hg e h h' S o H. rewrite (Hg e) in H. discriminate. Qed.

Lemma ExRestatPrune_wf_spec : wf_spec ExRestatPrune.g.
Proof.
  split; [|split].
  - intros e o Ho. destruct e as [|[|e]]; cbn in Ho; try (destruct Ho as [<-|[]]; reflexivity); destruct Ho.
  - intros n e Hp. destruct n as [|[|[|[|n]]]]; cbn in Hp; try discriminate; inversion Hp; subst; cbn; left; reflexivity.
  - intros e Hd. destruct e as [|[|e]]; cbn in *; try congruence. split; [reflexivity|lia].
Qed.
Lemma ExRestatPrune_wf_graph : wf_graph ExRestatPrune.g.
Proof. intros n e Hp. destruct n as [|[|[|[|n]]]]; cbn in Hp; try discriminate; inversion Hp; subst; cbn; lia. Qed.

Lemma ExNotLoaded_wf_spec : wf_spec ExNotLoaded.g.
Proof.
  split; [|split].
  - intros e o Ho. destruct e as [|[|e]]; cbn in Ho; try (destruct Ho as [<-|[]]; reflexivity); destruct Ho.
  - intros n e Hp. destruct n as [|[|[|[|n]]]]; cbn in Hp; try discriminate; inversion Hp; subst; cbn; left; reflexivity.
  - intros e Hd. destruct e as [|[|e]]; cbn in *; try congruence. split; [reflexivity|lia].
Qed.
Lemma ExNotLoaded_wf_graph : wf_graph ExNotLoaded.g.
Proof. intros n e Hp. destruct n as [|[|[|[|n]]]]; cbn in Hp; try discriminate; inversion Hp; subst; cbn; lia. Qed.

(* ================================================================== the full statements and the two findings *)
(* C10_equiv and its corollary C01 with the two side conditions as switches *)
Definition C10_equiv_full (need_ord need_nr : bool) : Prop :=
  forall (cmd : edge -> N -> snapshot -> node -> content) (g : graph) (hid : edge -> list node),
    wf_spec g -> wf_graph g -> frag_ABD g hid = true -> topo_ordered (inline g hid) = true ->
    (need_ord = true -> hidden_reads_ordered g hid = true) ->
    (need_nr = true -> no_restat_upstream_of_deps g hid = true) ->
    no_inputless_phony g = true ->
  forall h : list hstep,
    hist_ok g h = true -> hist_present cmd g hid (init_dstate g) h = true ->
    d_h (drun_hist cmd g hid (init_dstate g) h) = run_hist cmd (inline g hid) (init_hstate (inline g hid)) h.

Definition C10_C01_full (need_ord need_nr : bool) : Prop :=
  forall (cmd : edge -> N -> snapshot -> node -> content) (g : graph) (hid : edge -> list node),
    wf_spec g -> wf_graph g -> frag_ABD g hid = true -> topo_ordered (inline g hid) = true ->
    (need_ord = true -> hidden_reads_ordered g hid = true) ->
    (need_nr = true -> no_restat_upstream_of_deps g hid = true) ->
    no_inputless_phony g = true ->
    (forall e hh hh' S o, ei_generator (g_edge g e) = true -> cmd e hh S o = cmd e hh' S o) ->
  forall (h : list hstep) (T : list node) (ds' : dstate),
    hist_ok g h = true -> hist_present cmd g hid (init_dstate g) (h ++ [Build T]) = true ->
    dbuild cmd g hid (drun_hist cmd g hid (init_dstate g) h) T = Some ds' ->
    forall n, reach (inline g hid) T n -> content_of (d_h ds') n = clean_of_d cmd g hid ds' n.

Theorem C10_equiv_full_proof : C10_equiv_full true true.
Proof.
  intros cmd g hid Hwf Hwg Hfrag Htopo Hord Hnr Hnip h Hok Hside.
  apply (C10_equiv_present_proof cmd g hid Hwf Hwg Hfrag Htopo (Hord eq_refl) (Hnr eq_refl) Hnip h Hok Hside).
Qed.

Theorem C10_C01_full_proof : C10_C01_full true true.
Proof.
  intros cmd g hid Hwf Hwg Hfrag Htopo Hord Hnr Hnip Hgen h T ds' Hok Hside Hb.
  apply (C10_C01_present_proof cmd g hid Hwf Hwg Hfrag Htopo (Hord eq_refl) (Hnr eq_refl) Hnip h T ds' Hgen Hok Hside Hb).
Qed.

(* finding restat-prune-ignores-recorded-deps: without [no_restat_upstream_of_deps] both are false *)
Theorem C10_restat_prune_refuted_proof : ~ C10_C01_full true false /\ ~ C10_equiv_full true false.
Proof.
  split.
  - intros H.
    pose proof (H ExRestatPrune.cmd ExRestatPrune.g ExRestatPrune.hid ExRestatPrune_wf_spec ExRestatPrune_wf_graph
                  ltac:(vm_compute; reflexivity) ltac:(vm_compute; reflexivity) ltac:(intros _; vm_compute; reflexivity)
                  ltac:(discriminate) ltac:(vm_compute; reflexivity)
                  (Ex_cmd_gen ExRestatPrune.g ltac:(intros [|[|e]]; reflexivity))
                  (firstn 5 ExRestatPrune.hist) [3%nat] ExRestatPrune.ds_end
                  ltac:(vm_compute; reflexivity) ltac:(vm_compute; reflexivity) ltac:(vm_compute; reflexivity) 3%nat
                  ltac:(apply reach_target; left; reflexivity)) as Hc.
    revert Hc. vm_compute. discriminate.
  - intros H.
    pose proof (H ExRestatPrune.cmd ExRestatPrune.g ExRestatPrune.hid ExRestatPrune_wf_spec ExRestatPrune_wf_graph
                  ltac:(vm_compute; reflexivity) ltac:(vm_compute; reflexivity) ltac:(intros _; vm_compute; reflexivity)
                  ltac:(discriminate) ltac:(vm_compute; reflexivity)
                  ExRestatPrune.hist ltac:(vm_compute; reflexivity) ltac:(vm_compute; reflexivity)) as Hc.
    apply (f_equal (@h_trace)) in Hc. revert Hc. vm_compute. discriminate.
Qed.

(* finding dirty-edge-deps-not-loaded: without [hidden_reads_ordered] both are false *)
Theorem C10_dirty_edge_deps_not_loaded_refuted_proof : ~ C10_C01_full false true /\ ~ C10_equiv_full false true.
Proof.
  split.
  - intros H.
    pose proof (H ExNotLoaded.cmd ExNotLoaded.g ExNotLoaded.hid ExNotLoaded_wf_spec ExNotLoaded_wf_graph
                  ltac:(vm_compute; reflexivity) ltac:(vm_compute; reflexivity) ltac:(discriminate)
                  ltac:(intros _; vm_compute; reflexivity) ltac:(vm_compute; reflexivity)
                  (Ex_cmd_gen ExNotLoaded.g ltac:(intros [|[|e]]; reflexivity))
                  (firstn 5 ExNotLoaded.hist) [3%nat] ExNotLoaded.ds_end
                  ltac:(vm_compute; reflexivity) ltac:(vm_compute; reflexivity) ltac:(vm_compute; reflexivity) 3%nat
                  ltac:(apply reach_target; left; reflexivity)) as Hc.
    revert Hc. vm_compute. discriminate.
  - intros H.
    pose proof (H ExNotLoaded.cmd ExNotLoaded.g ExNotLoaded.hid ExNotLoaded_wf_spec ExNotLoaded_wf_graph
                  ltac:(vm_compute; reflexivity) ltac:(vm_compute; reflexivity) ltac:(discriminate)
                  ltac:(intros _; vm_compute; reflexivity) ltac:(vm_compute; reflexivity)
                  ExNotLoaded.hist ltac:(vm_compute; reflexivity) ltac:(vm_compute; reflexivity)) as Hc.
    apply (f_equal (@h_trace)) in Hc. revert Hc. vm_compute. discriminate.
Qed.

(* the same as concrete witnesses: a history whose last build succeeds and leaves an output that is
   not what a clean build makes, while the inlined manifest gets it right *)
Definition C10_stale_witness (need_ord need_nr : bool) : Prop :=
  exists (cmd : edge -> N -> snapshot -> node -> content) (g : graph) (hid : edge -> list node)
         (h : list hstep) (T : list node) (n : node),
    wf_spec g /\ wf_graph g /\ frag_ABD g hid = true /\ topo_ordered (inline g hid) = true /\
    hidden_reads_ordered g hid = need_ord /\ no_restat_upstream_of_deps g hid = need_nr /\
    no_inputless_phony g = true /\
    hist_ok g (h ++ [Build T]) = true /\
    hist_present cmd g hid (init_dstate g) (h ++ [Build T]) = true /\
    hist_side cmd g hid (init_dstate g) (init_hstate (inline g hid)) (h ++ [Build T]) = true /\
    reach (inline g hid) T n /\
    (exists ds', dbuild cmd g hid (drun_hist cmd g hid (init_dstate g) h) T = Some ds' /\
                 content_of (d_h ds') n <> clean_of_d cmd g hid ds' n) /\
    (exists st', build cmd (inline g hid) (run_hist cmd (inline g hid) (init_hstate (inline g hid)) h) T = Some st' /\
                 content_of st' n = clean_of cmd (inline g hid) st' n).

Theorem C10_restat_prune_witness_proof : C10_stale_witness true false.
Proof.
  exists ExRestatPrune.cmd, ExRestatPrune.g, ExRestatPrune.hid, (firstn 5 ExRestatPrune.hist), [3%nat], 3%nat.
  split; [exact ExRestatPrune_wf_spec|]. split; [exact ExRestatPrune_wf_graph|].
  repeat (split; [vm_compute; reflexivity|]).
  split; [apply reach_target; left; reflexivity|]. split.
  - eexists. split; [vm_compute; reflexivity|vm_compute; discriminate].
  - eexists. split; [vm_compute; reflexivity|vm_compute; reflexivity].
Qed.

Theorem C10_dirty_edge_deps_not_loaded_witness_proof : C10_stale_witness false true.
Proof.
  exists ExNotLoaded.cmd, ExNotLoaded.g, ExNotLoaded.hid, (firstn 5 ExNotLoaded.hist), [3%nat], 3%nat.
  split; [exact ExNotLoaded_wf_spec|]. split; [exact ExNotLoaded_wf_graph|].
  repeat (split; [vm_compute; reflexivity|]).
  split; [apply reach_target; left; reflexivity|]. split.
  - eexists. split; [vm_compute; reflexivity|vm_compute; discriminate].
  - eexists. split; [vm_compute; reflexivity|vm_compute; reflexivity].
Qed.

(* ================================================================== the statements Properties_C10hist.v restates *)
Theorem C10_good_hist_proof :
  forall (cmd : edge -> N -> snapshot -> node -> content) (g : graph) (hid : edge -> list node),
    wf_spec g -> frag_ABD g hid = true -> topo_ordered (inline g hid) = true ->
  forall h : list hstep, hist_ok g h = true ->
    Good cmd (inline g hid) (d_h (drun_hist cmd g hid (init_dstate g) h)) /\
    DepsOk g hid (drun_hist cmd g hid (init_dstate g) h).
Proof.
  intros cmd g hid Hwf Hfrag Htopo h Hok.
  apply (goodd_hist cmd g hid Hwf Hfrag Htopo h (init_dstate g) (goodd_init cmd g hid) Hok).
Qed.

Theorem C10_records_invariant_proof :
  forall (cmd : edge -> N -> snapshot -> node -> content) (g : graph) (hid : edge -> list node),
    wf_spec g -> frag_ABD g hid = true -> topo_ordered (inline g hid) = true ->
  forall h : list hstep, hist_ok g h = true ->
    DepsOk g hid (drun_hist cmd g hid (init_dstate g) h).
Proof. intros cmd g hid Hwf Hfrag Htopo h Hok. apply (C10_good_hist_proof cmd g hid Hwf Hfrag Htopo h Hok). Qed.

Theorem C10_one_command_proof :
  forall (cmd : edge -> N -> snapshot -> node -> content) (g : graph) (hid : edge -> list node),
    frag_ABD g hid = true ->
  forall (ds : dstate) (e : nat), (e < g_nedges g)%nat ->
    d_h (drun_edge cmd g hid ds e) = run_edge cmd (inline g hid) (d_h ds) e.
Proof. exact drun_edge_h. Qed.

Theorem C10_dirty_state_same_proof :
  forall (cmd : edge -> N -> snapshot -> node -> content) (g : graph) (hid : edge -> list node),
    wf_spec g -> wf_graph g -> frag_ABD g hid = true ->
  forall (ds : dstate) (n : node), GoodD cmd g hid ds ->
    (must_dirty (graph_of g (d_h ds)) (world_of_d ds) n <->
     must_dirty (graph_of (inline g hid) (d_h ds)) (world_of (d_h ds)) n).
Proof.
  intros cmd g hid Hwf Hwg Hfrag ds n HG. split.
  - apply (md_d_i cmd g hid Hwf Hwg Hfrag ds n HG).
  - apply (md_i_d cmd g hid Hwf Hwg Hfrag ds n HG).
Qed.

Theorem C10_same_plan_proof :
  forall (cmd : edge -> N -> snapshot -> node -> content) (g : graph) (hid : edge -> list node),
    wf_spec g -> wf_graph g -> frag_ABD g hid = true ->
    hidden_reads_ordered g hid = true -> no_inputless_phony g = true ->
  forall (ds : dstate) (T : list node) (s : sstate) (p : plan) (si : sstate) (pi : plan),
    GoodD cmd g hid ds -> dscan g ds T = ScanOk s p ->
    scan (graph_of (inline g hid) (d_h ds)) (world_of (d_h ds)) T = ScanOk si pi ->
    forall e : edge, want_start p e = want_start pi e.
Proof. exact want_eq. Qed.

Theorem C10_scan_want_sound_proof :
  forall (g : graph) (w : world), wf_spec g -> wf_graph g -> frag_D g = true ->
  forall (T : list node) (s : sstate) (p : plan), scan g w T = ScanOk s p ->
  forall e : edge, p_want p e = Some WantToStart ->
    neededP g w T e /\ es_mark (st_edge s e) = VisitDone /\ es_ready (st_edge s e) = false /\
    (exists o : node, In o (ei_outs (g_edge g e)) /\ must_dirty g w o).
Proof. exact scan_want_soundD. Qed.

Theorem C10_scan_want_complete_proof :
  forall (g : graph) (w : world), wf_spec g -> wf_graph g -> frag_D g = true ->
  forall (T : list node) (s : sstate) (p : plan), scan g w T = ScanOk s p ->
  forall e : edge,
    (exists n : node, reachS g T s n /\ g_producer g n = Some e) ->
    (exists o : node, In o (ei_outs (g_edge g e)) /\ must_dirty g w o) ->
    ~ (ei_phony (g_edge g e) = true /\ ei_ins (g_edge g e) = []) ->
    p_want p e = Some WantToStart /\ closed_atD g s p e.
Proof. exact scan_want_completeD. Qed.

(* what the scan did with the record of a finished statement *)
Theorem C10_scan_record_use_proof :
  forall (g : graph) (w : world), wf_spec g -> wf_graph g -> frag_D g = true ->
  forall (T : list node) (s : sstate) (p : plan), scan g w T = ScanOk s p ->
  forall e : edge, es_mark (st_edge s e) = VisitDone ->
    ((es_ins (st_edge s e) = ei_ins (g_edge g e) /\
      (es_deps_missing (st_edge s e) = true \/ own_dirty g w e)) \/
     (exists l, spec_load g w e = LdOk l /\
                es_ins (st_edge s e) = splice (ei_ins (g_edge g e)) (ei_noo (g_edge g e)) l /\
                es_deps_missing (st_edge s e) = false)) /\
    (spec_load g w e = LdFail <-> es_deps_missing (st_edge s e) = true).
Proof.
  intros g w Hwf Hwg Hf T s p Hs e Hd.
  destruct (accepted_factsD g w Hwf Hwg Hf T s p Hs) as [_ [HR _]].
  destruct (HR e Hd) as [_ [_ [_ [_ H]]]]. exact H.
Qed.

Theorem C10_dirty_persists_proof :
  forall (cmd : edge -> N -> snapshot -> node -> content) (g : graph) (hid : edge -> list node),
    wf_spec g -> wf_graph g -> frag_ABD g hid = true -> topo_ordered (inline g hid) = true ->
  forall (ds : dstate) (T : list node) (ds' : dstate) (e : nat),
    GoodD cmd g hid ds -> (e < g_nedges g)%nat -> ei_phony (g_edge g e) = false ->
    reads_tainted g hid e = false ->
    (exists n, reach g T n /\ g_producer g n = Some e) ->
    (exists o, In o (ei_outs (g_edge g e)) /\ must_dirty (graph_of g (d_h ds)) (world_of_d ds) o) ->
    dbuild cmd g hid ds T = Some ds' ->
    In e (ran_since (d_h ds) (d_h ds')).
Proof. exact wanted_untainted_runs. Qed.

Theorem C10_same_commands_proof :
  forall (cmd : edge -> N -> snapshot -> node -> content) (g : graph) (hid : edge -> list node),
    wf_spec g -> wf_graph g -> frag_ABD g hid = true -> topo_ordered (inline g hid) = true ->
    hidden_reads_ordered g hid = true -> no_restat_upstream_of_deps g hid = true ->
    no_inputless_phony g = true ->
  forall h : list hstep,
    hist_ok g h = true -> hist_present cmd g hid (init_dstate g) h = true ->
    h_trace (d_h (drun_hist cmd g hid (init_dstate g) h)) =
    h_trace (run_hist cmd (inline g hid) (init_hstate (inline g hid)) h) /\
    forall n, content_of (d_h (drun_hist cmd g hid (init_dstate g) h)) n =
              content_of (run_hist cmd (inline g hid) (init_hstate (inline g hid)) h) n.
Proof.
  intros cmd g hid Hwf Hwg Hfrag Htopo Hord Hnr Hnip h Hok Hside.
  rewrite (C10_equiv_present_proof cmd g hid Hwf Hwg Hfrag Htopo Hord Hnr Hnip h Hok Hside). split; reflexivity.
Qed.

Theorem C10_accept_equiv_proof :
  forall (cmd : edge -> N -> snapshot -> node -> content) (g : graph) (hid : edge -> list node),
    wf_spec g -> wf_graph g -> frag_ABD g hid = true -> topo_ordered (inline g hid) = true ->
    hidden_reads_ordered g hid = true -> no_inputless_phony g = true ->
  forall (ds : dstate) (T : list node), GoodD cmd g hid ds ->
    hidden_srcs_present g hid (d_h ds) = true -> targets_known g T = true ->
    ((exists s p, dscan g ds T = ScanOk s p) <->
     (exists si pi, scan (graph_of (inline g hid) (d_h ds)) (world_of (d_h ds)) T = ScanOk si pi)).
Proof.
  intros cmd g hid Hwf Hwg Hfrag Htopo Hord Hnip ds T HG Hp HT.
  apply (accept_equiv cmd g hid Hwf Hwg Hfrag Htopo Hord Hnip ds T HG Hp HT).
Qed.
