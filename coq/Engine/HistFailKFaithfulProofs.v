(* Proofs about the faithful keep-going loop (HistFailKFaithful.v).  No axioms.
   Part B (top): [blocked_of g F]: the statements out of the game when the statements in F have
           failed -- F and everything downstream through inputs of any kind -- as a boolean function.
   Part G (module GK): the development of HistFailFaithfulProofs.GF (= HistFaithfulProofs, Section
           Faith, under the invariant GoodF) once more, now RELATIVE TO A BLOCKED SET [Bb] that is
           closed under dependents: every clause of the invariants [HInv] / [CInv] speaks about
           the statements outside [Bb] only (after a failure the disk below the failed statement is
           in no relation to flags and want map any more).  New with respect to GF:
             - [ce_blocked] / [cnb]: a cascade of Plan::CleanNode that walks into a blocked statement
               (it can: through an order-only input) terminates and changes flags, cached mtimes and
               want entries of blocked statements only ([Bfr]); [cinv_Bfr]: the invariant does not
               see that; the corresponding case in [edges_loop];
             - [cinv_skipB] (a blocked statement is skipped), [fail_inv] (a command fails: the
               statement and its dependents leave the game), [hinv_anti] / [cinv_anti] (the
               invariants survive a growing blocked set);
             - [decision] for an arbitrary state, with the two facts about the re-scan it needs
               (the re-scan is accepted; the inputs are up to date) as hypotheses.
   Part K: the loop of HistFailKDefs.build_uptoK and the faithful one step by step: [uptoK_f_eq];
           [buildFK_f_eq], [buildFK_f_budget1], histories, and the keep-going theorems of
           HistFailKProofs for the faithful loop. *)
From NinjaV Require Import Engine.CrashDefs.
From NinjaV Require Import Base.Bytes Engine.ScanDefs Engine.ScanSpec Engine.ScanProofs Engine.HistDefs Engine.HistProofs Engine.HistRun Engine.HistMinimal Engine.HistFaithful Engine.HistFaithfulProofs Engine.HistFailDefs Engine.HistFailProofs Engine.HistCrashDefs Engine.HistCrashProofs Engine.HistFailFaithful Engine.HistFailFaithfulProofs Engine.HistFailKDefs Engine.HistFailKProofs Engine.HistFailKFaithful.
Local Open Scope Z_scope.

Lemma mtime_leK (st : hstate) (n : node) :
  0 <= h_clock st -> (forall n m c, h_disk st n = Some (m, c) -> 0 < m <= h_clock st) ->
  0 <= mtime_of st n <= h_clock st.
Proof.
  intros A B. unfold mtime_of. destruct (h_disk st n) as [[m c]|] eqn:Hd; [|lia].
  specialize (B n m c Hd). lia.
Qed.

(* ================================================================== Part B: the blocked set *)
Fixpoint blkA (g : graph) (F : list edge) (k : nat) : list bool :=
  match k with
  | O => []
  | S k' =>
    let t := blkA g F k' in
    t ++ [mem_node k' F
          || existsb (fun i => match g_producer g i with Some u => nth u t false | None => false end)
                     (ei_ins (g_edge g k'))]
  end.

Definition blocked_of (g : graph) (F : list edge) (e : edge) : bool := nth e (blkA g F (g_nedges g)) false.

Lemma blkA_length g F k : length (blkA g F k) = k.
Proof. induction k as [|k IH]; [reflexivity|]. cbn [blkA]. rewrite app_length, IH. cbn [length]. lia. Qed.

Lemma blkA_prefix g F k k' u : (u < k)%nat -> (k <= k')%nat ->
  nth u (blkA g F k') false = nth u (blkA g F k) false.
Proof.
  intros Hu Hk. induction Hk as [|k' Hk IH]; [reflexivity|].
  cbn [blkA]. rewrite app_nth1 by (rewrite blkA_length; lia). exact IH.
Qed.

Lemma existsb_ext_inK {A : Type} (f f' : A -> bool) : forall l,
  (forall a, In a l -> f a = f' a) -> existsb f l = existsb f' l.
Proof.
  induction l as [|a l IH]; intros H; [reflexivity|]. cbn [existsb].
  rewrite (H a (or_introl eq_refl)), IH; [reflexivity|]. intros b Hb. apply H. right. exact Hb.
Qed.

Section Blocked.
Variable g : graph.
Hypothesis Htopo : topo_ordered g = true.

Lemma blocked_of_spec F u : (u < g_nedges g)%nat ->
  blocked_of g F u =
  (mem_node u F || existsb (fun i => match g_producer g i with Some u' => blocked_of g F u' | None => false end)
                           (ei_ins (g_edge g u)))%bool.
Proof.
  intros Hu. unfold blocked_of at 1.
  rewrite (blkA_prefix g F (S u) (g_nedges g) u) by lia.
  cbn [blkA]. rewrite app_nth2 by (rewrite blkA_length; lia).
  rewrite blkA_length, Nat.sub_diag. cbn [nth]. f_equal.
  apply existsb_ext_inK. intros i Hi. destruct (g_producer g i) as [u'|] eqn:Hp; [|reflexivity].
  unfold blocked_of. symmetry. apply blkA_prefix; [|lia].
  pose proof (in_below g Htopo u i Hu Hi) as Hb. unfold below in Hb. rewrite Hp in Hb. exact Hb.
Qed.

Lemma blocked_of_ge F u : (g_nedges g <= u)%nat -> blocked_of g F u = false.
Proof. intros Hu. unfold blocked_of. apply nth_overflow. rewrite blkA_length. exact Hu. Qed.

Lemma blocked_of_closed F e i e' : (e < g_nedges g)%nat -> In i (ei_ins (g_edge g e)) ->
  g_producer g i = Some e' -> blocked_of g F e' = true -> blocked_of g F e = true.
Proof.
  intros He Hi Hp HB. rewrite (blocked_of_spec F e He). apply orb_true_iff. right.
  apply existsb_exists. exists i. split; [exact Hi|]. rewrite Hp. exact HB.
Qed.

Lemma blocked_of_in F e : (e < g_nedges g)%nat -> In e F -> blocked_of g F e = true.
Proof.
  intros He Hin. rewrite (blocked_of_spec F e He). apply orb_true_iff. left.
  apply (proj2 (mem_node_In e F) Hin).
Qed.

(* a failure of [k] does not concern the statements before [k] *)
Lemma blocked_of_cons_lt F k : forall e, (e < k)%nat -> blocked_of g (k :: F) e = blocked_of g F e.
Proof.
  induction e as [e IH] using lt_wf_ind. intros Hek.
  destruct (Nat.lt_ge_cases e (g_nedges g)) as [He|He]; [|rewrite !blocked_of_ge by exact He; reflexivity].
  rewrite (blocked_of_spec (k :: F) e He), (blocked_of_spec F e He). f_equal.
  - unfold mem_node. cbn [existsb]. destruct (Nat.eqb_spec e k); [lia|reflexivity].
  - apply existsb_ext_inK. intros i Hi. destruct (g_producer g i) as [u|] eqn:Hp; [|reflexivity].
    pose proof (in_below g Htopo e i He Hi) as Hb. unfold below in Hb. rewrite Hp in Hb.
    apply IH; [exact Hb|lia].
Qed.

Lemma blocked_of_mono F k : forall e, blocked_of g F e = true -> blocked_of g (k :: F) e = true.
Proof.
  induction e as [e IH] using lt_wf_ind. intros HB.
  destruct (Nat.lt_ge_cases e (g_nedges g)) as [He|He]; [|rewrite blocked_of_ge in HB by exact He; discriminate].
  rewrite (blocked_of_spec F e He) in HB. rewrite (blocked_of_spec (k :: F) e He).
  apply orb_true_iff in HB. apply orb_true_iff. destruct HB as [HB|HB].
  - left. unfold mem_node in *. cbn [existsb]. rewrite HB. apply orb_true_r.
  - right. apply existsb_exists in HB. destruct HB as [i [Hi HBi]]. apply existsb_exists. exists i. split; [exact Hi|].
    destruct (g_producer g i) as [u|] eqn:Hp; [|discriminate].
    pose proof (in_below g Htopo e i He Hi) as Hb. unfold below in Hb. rewrite Hp in Hb.
    apply (IH u Hb HBi).
Qed.

Lemma blocked_of_nil : forall e, blocked_of g [] e = false.
Proof.
  induction e as [e IH] using lt_wf_ind.
  destruct (Nat.lt_ge_cases e (g_nedges g)) as [He|He]; [|apply blocked_of_ge; exact He].
  rewrite (blocked_of_spec [] e He). cbn [mem_node existsb orb].
  destruct (existsb _ (ei_ins (g_edge g e))) eqn:Hx; [|reflexivity]. exfalso.
  apply existsb_exists in Hx. destruct Hx as [i [Hi HBi]].
  destruct (g_producer g i) as [u|] eqn:Hp; [|discriminate].
  pose proof (in_below g Htopo e i He Hi) as Hb. unfold below in Hb. rewrite Hp in Hb.
  rewrite (IH u Hb) in HBi. discriminate.
Qed.

End Blocked.

(* ================================================================== Part G *)
Module GK.
Section Faith.
Variable cmd : edge -> N -> snapshot -> node -> content.
Variable g : graph.
Hypothesis Hwf : wf_spec g.
Hypothesis Hwg : wf_graph g.
Hypothesis Hfrag : frag_AB g = true.
Hypothesis Htopo : topo_ordered g = true.

Notation G st := (graph_of g st).
Notation W st := (world_of st).
Notation outs e := (ei_outs (g_edge g e)).
Notation phony e := (ei_phony (g_edge g e)).
Notation nd s n := (st_node s n).
Notation Fl x n := (ns_dirty (st_node (c_s x) n)).

Lemma Gwf0 st : wf_spec (G st).
Proof. exact Hwf. Qed.
Lemma Gwg0 st : wf_graph (G st).
Proof. exact Hwg. Qed.
Lemma Gfrag0 st : frag_AB (G st) = true.
Proof. exact Hfrag. Qed.

Section Build.
Variables (st0 : hstate) (T : list node) (s0 : sstate) (p0 : plan).
Hypothesis HG0 : GoodF cmd g st0.
Hypothesis Hscan : scan (G st0) (W st0) T = ScanOk s0 p0.
Notation G0 := (graph_of g st0).
(* the statements that are out of the game: failed in this invocation, or downstream of a failed one
   through inputs of any kind.  All invariants below speak about the others only. *)
Variable Bb : edge -> bool.
Hypothesis Bcl : forall e i e', (e < g_nedges g)%nat -> In i (ei_ins (g_edge g e)) ->
  g_producer g i = Some e' -> Bb e' = true -> Bb e = true.
Notation ndd e := (needed g T e /\ Bb e = false).

(* the nodes the invariant talks about: what the targets need, and every output of a needed statement *)
Definition rel (n : node) : Prop :=
  match g_producer g n with Some e => ndd e | None => reach g T n end.

Lemma ndd_lt e : ndd e -> (e < g_nedges g)%nat.
Proof. intros [[n [_ Hp]] _]. apply (Hwg n e Hp). Qed.

Lemma rel_out e o : ndd e -> In o (outs e) -> rel o.
Proof. intros Hn Ho. unfold rel. rewrite (o_prod g Hwf e o Ho). exact Hn. Qed.

Lemma rel_in e i : ndd e -> In i (ei_ins (g_edge g e)) -> rel i.
Proof.
  intros [[n [Rn Hp]] HB] Hi.
  assert (Ri : reach g T i).
  { apply (reach_step g (manifest_ins g) T n i Rn). exists e. split; [exact Hp|exact Hi]. }
  unfold rel. destruct (g_producer g i) as [e'|] eqn:Hpi; [|exact Ri].
  split; [exists i; split; assumption|].
  destruct (Bb e') eqn:E; [|reflexivity]. rewrite (Bcl e i e' (Hwg n e Hp) Hi Hpi E) in HB. discriminate.
Qed.

Lemma rel_nonoo e i : ndd e -> In i (nonoo_ins g e) -> rel i.
Proof. intros Hn Hi. apply (rel_in e i Hn). apply (nonoo_in g e i Hi). Qed.

Lemma rel_final n : rel n -> node_final G0 s0 n.
Proof.
  unfold rel. intros H. destruct (g_producer g n) as [e|] eqn:Hp.
  - destruct H as [[n' [Rn' Hp']] _].
    destruct (reach_final G0 (W st0) (Gwf0 st0) (Gwg0 st0) (Gfrag0 st0) T s0 p0 Hscan n'
                (proj2 (reach_G g st0 T n') Rn')) as [Hf _].
    unfold node_final in *. change (g_producer G0 n') with (g_producer g n') in Hf. rewrite Hp' in Hf.
    change (g_producer G0 n) with (g_producer g n). rewrite Hp. exact Hf.
  - apply (reach_final G0 (W st0) (Gwf0 st0) (Gwg0 st0) (Gfrag0 st0) T s0 p0 Hscan n
             (proj2 (reach_G g st0 T n) H)).
Qed.

Lemma rel_ok n : rel n -> node_ok G0 (W st0) s0 n.
Proof.
  intros H. destruct (accepted_facts G0 (W st0) (Gwf0 st0) (Gwg0 st0) (Gfrag0 st0) T s0 p0 Hscan) as [[S1 _] _].
  apply S1. apply rel_final. exact H.
Qed.

Lemma rel_NI n : rel n -> NIat G0 (W st0) s0 n.
Proof.
  intros H. apply (scan_NI G0 (W st0) (Gwf0 st0) (Gwg0 st0) (Gfrag0 st0) T s0 p0 Hscan). apply rel_final. exact H.
Qed.

Lemma ins0 e : es_ins (st_edge s0 e) = ei_ins (g_edge g e).
Proof. apply (scan_ins G0 (W st0) (Gwf0 st0) (Gwg0 st0) (Gfrag0 st0) T s0 p0 Hscan e). Qed.

Lemma dm0 e : es_deps_missing (st_edge s0 e) = false.
Proof. apply (scan_DM G0 (W st0) (Gwf0 st0) (Gwg0 st0) (Gfrag0 st0) T s0 p0 Hscan e). Qed.

Lemma wanted_ndd e : want_start p0 e = true -> Bb e = false -> ndd e.
Proof. intros H HB. split; [apply (want_sound g Hwf Hwg Hfrag st0 T s0 p0 Hscan e H)|exact HB]. Qed.

(* which statements still have a meaningful want flag when [k] statements have had their turn *)
Definition pend (k : nat) (e : edge) : Prop :=
  (phony e = true /\ ei_ins (g_edge g e) <> []) \/ (phony e = false /\ (k <= e)%nat).

(* the statement is dirty for a reason of its own, on the world [w] *)
Definition OWN (w : world) (e : edge) : Prop :=
  exists o, In o (outs e) /\
            out_reason G0 w (fun z => exists i, In i (nonoo_ins g e) /\ newer_than G0 w z i) e o.
Definition OWNx (w : world) (e : edge) : Prop := phony e = false /\ OWN w e.

(* the semantic state while [k] statements have had their turn *)
Record HInv (k : nat) (st : hstate) : Prop := mkHInv {
  hi_good : GoodF cmd g st;
  hi_hash : h_hash st = h_hash st0;
  hi_clock : h_clock st0 <= h_clock st;
  hi_leaf : forall n, g_producer g n = None -> h_disk st n = h_disk st0 n;
  hi_later : forall n e, g_producer g n = Some e -> (k <= e)%nat ->
                         h_disk st n = h_disk st0 n /\ h_blog st n = h_blog st0 n;
  hi_fresh : forall n, (forall e, g_producer g n = Some e -> Bb e = false) ->
                       h_disk st n = h_disk st0 n \/
                       exists m c, h_disk st n = Some (m, c) /\ h_clock st0 < m
}.

(* flags, cached mtimes and want map, tied to the current disk.  [V]: statements being pruned
   right now (their outputs are being cleaned); [U]: out-edges of a node just cleaned that have not
   been looked at yet; [Q]: outputs a restat command left untouched, not cleaned yet *)
Record CInv (k : nat) (st : hstate) (x : cst) (V U : list edge) (Q : node -> Prop) : Prop := mkCInv {
  ci_E : st_edge (c_s x) = st_edge s0;
  ci_N1 : forall n, rel n -> ns_exists (nd (c_s x) n) = ex_of (mtime_of st0 n);
  ci_N2 : forall n, rel n -> (forall e, g_producer g n = Some e -> phony e = false) ->
                    ns_mtime (nd (c_s x) n) = mtime_of st0 n;
  ci_N3 : forall n e, g_producer g n = Some e -> ndd e -> phony e = true -> ~ In e V -> Fl x n = true ->
                      ns_mtime (nd (c_s x) n) = 0;
  ci_B : forall n, rel n -> Fl x n = false ->
                   forall z, z < ns_mtime (nd (c_s x) n) <-> newer_than G0 (W st) z n;
  ci_L : forall n, rel n -> g_producer g n = None -> (Fl x n = true <-> mtime_of st0 n = 0);
  ci_Wm : forall e, c_want x e = true ->
                    want_start p0 e = true /\ (Bb e = false -> phony e = true \/ (k <= e)%nat);
  ci_IP : forall e o, ndd e -> phony e = true -> ei_ins (g_edge g e) = [] -> In o (outs e) -> Fl x o = true;
  ci_T1 : forall e o, ndd e -> pend k e -> c_want x e = false -> In o (outs e) -> Fl x o = false;
  ci_T2 : forall e o, ndd e -> pend k e -> ~ In e V -> c_want x e = true -> In o (outs e) -> Fl x o = true;
  ci_T3 : forall e, ndd e -> pend k e -> c_want x e = false ->
                    (forall i, In i (nonoo_ins g e) -> Fl x i = false) /\ ~ OWNx (W st) e;
  ci_T4 : forall e, ndd e -> pend k e -> ~ In e V -> ~ In e U -> c_want x e = true ->
                    (exists i, In i (nonoo_ins g e) /\ Fl x i = true) \/ OWNx (W st) e;
  ci_P : forall e o, ndd e -> phony e = false -> (e < k)%nat -> In o (outs e) ->
                     (Fl x o = true -> Q o \/ h_clock st0 < mtime_of st o) /\
                     (Fl x o = false -> h_disk st o = h_disk st0 o)
}.

Definition noN : node -> Prop := fun _ => False.

Lemma own_md w e : (e < g_nedges g)%nat -> OWNx w e -> exists o, In o (outs e) /\ must_dirty G0 w o.
Proof.
  intros He [Hph [o [Ho Hr]]]. exists o. split; [exact Ho|].
  apply (md_self G0 w o e o (o_prod g Hwf e o Ho) Hph Ho).
  rewrite (spec_ins_AB g Hfrag st0 w e He). exact Hr.
Qed.

Lemma md_cases w e o : (e < g_nedges g)%nat -> In o (outs e) -> must_dirty G0 w o ->
  (exists i, In i (nonoo_ins g e) /\ must_dirty G0 w i) \/
  (phony e = true /\ ei_ins (g_edge g e) = []) \/ OWNx w e.
Proof.
  intros He Ho Hmd.
  destruct (must_dirty_out_inv G0 w o e Hmd (o_prod g Hwf e o Ho))
    as [[i [Hi Hdi]]|[[Hp [Hnil _]]|[[Hp [o' [Ho' Hr]]]|Hl]]].
  - left. rewrite (spec_ins_AB g Hfrag st0 w e He) in Hi. exists i. split; assumption.
  - right; left. split; assumption.
  - right; right. split; [exact Hp|]. exists o'. split; [exact Ho'|].
    rewrite (spec_ins_AB g Hfrag st0 w e He) in Hr. exact Hr.
  - exfalso. unfold spec_load in Hl. change (ei_deps (g_edge G0 e)) with (ei_deps (g_edge g e)) in Hl.
    rewrite (edge_frag g Hfrag e He) in Hl. discriminate.
Qed.

Lemma pend_not_ip k e : pend k e -> ~ (phony e = true /\ ei_ins (g_edge g e) = []).
Proof. intros [[_ Hi]|[Hp _]] [Hp' Hnil]; [contradiction|congruence]. Qed.

Lemma unwanted_clean e : ndd e -> ~ (phony e = true /\ ei_ins (g_edge g e) = []) ->
  want_start p0 e = false -> forall o, In o (outs e) -> ~ must_dirty G0 (W st0) o.
Proof.
  intros Hn Hnip Hw o Ho Hmd.
  destruct (want_complete g Hwf Hwg Hfrag st0 T s0 p0 Hscan e (proj1 Hn) (ex_intro _ o (conj Ho Hmd)) Hnip) as [Hw' _].
  congruence.
Qed.

Lemma ndd_out e : ndd e -> exists n, In n (outs e) /\ g_producer g n = Some e.
Proof. intros [[n [_ Hp]] _]. exists n. split; [apply (p_out g Hwf n e Hp)|exact Hp]. Qed.

Lemma hinv_init : HInv 0 st0.
Proof.
  constructor; try reflexivity; try lia.
  - exact HG0.
  - intros n e _ _. split; reflexivity.
  - intros n _. left; reflexivity.
Qed.

Lemma cinv_init : CInv 0 st0 (init_cst s0 p0) [] [] noN.
Proof.
  destruct HG0 as [[A [B [C [D E]]]] L].
  constructor; cbn [init_cst c_s c_want].
  - reflexivity.
  - intros n Hr. apply (proj1 (rel_NI n Hr)).
  - intros n Hr Hnp. apply (proj2 (rel_NI n Hr)). right. exact Hnp.
  - intros n e Hp Hn Hph _ Hd.
    assert (Hr : rel n) by (unfold rel; rewrite Hp; exact Hn).
    rewrite (proj2 (rel_NI n Hr) (or_introl Hd)). cbn [world_of w_mtime]. unfold mtime_of.
    rewrite (D n e Hp Hph). reflexivity.
  - intros n Hr Hd. apply (proj2 (rel_ok n Hr) Hd).
  - intros n Hr Hp. rewrite (proj1 (rel_ok n Hr)). split.
    + intros Hmd. apply (must_dirty_leaf_inv G0 (W st0) n Hmd Hp).
    + intros Hz. apply md_leaf; assumption.
  - intros e Hw. split; [exact Hw|intros _; right; lia].
  - intros e o Hn Hph Hnil Ho. apply (proj1 (rel_ok o (rel_out e o Hn Ho))).
    apply (md_phony G0 (W st0) o e o (o_prod g Hwf e o Ho) Hph Hnil); [|exact Ho|].
    + apply (frag_edge g Hfrag e (ndd_lt e Hn)).
    + cbn [world_of w_mtime]. unfold mtime_of. rewrite (D o e (o_prod g Hwf e o Ho) Hph). reflexivity.
  - intros e o Hn Hpe Hw Ho. destruct (ns_dirty (nd s0 o)) eqn:Hd; [exfalso|reflexivity].
    apply (unwanted_clean e Hn (pend_not_ip 0 e Hpe) Hw o Ho). apply (proj1 (rel_ok o (rel_out e o Hn Ho))). exact Hd.
  - intros e o Hn Hpe _ Hw Ho. apply (proj1 (rel_ok o (rel_out e o Hn Ho))).
    destruct (want_sound g Hwf Hwg Hfrag st0 T s0 p0 Hscan e Hw) as [_ [o' [Ho' Hmd]]].
    apply (must_dirty_same_prod G0 (W st0) o' o e (o_prod g Hwf e o' Ho') (o_prod g Hwf e o Ho) Hmd).
  - intros e Hn Hpe Hw. pose proof (unwanted_clean e Hn (pend_not_ip 0 e Hpe) Hw) as Hc.
    destruct (ndd_out e Hn) as [n [Hno Hpn]]. split.
    + intros i Hi. destruct (ns_dirty (nd s0 i)) eqn:Hd; [exfalso|reflexivity].
      apply (Hc n Hno). apply (md_input G0 (W st0) n e i Hpn).
      * rewrite (spec_ins_AB g Hfrag st0 (W st0) e (ndd_lt e Hn)). exact Hi.
      * apply (proj1 (rel_ok i (rel_nonoo e i Hn Hi))). exact Hd.
    + intros Ho. destruct (own_md (W st0) e (ndd_lt e Hn) Ho) as [o [Hoo Hmd]]. apply (Hc o Hoo Hmd).
  - intros e Hn Hpe _ _ Hw.
    destruct (want_sound g Hwf Hwg Hfrag st0 T s0 p0 Hscan e Hw) as [_ [o [Ho Hmd]]].
    destruct (md_cases (W st0) e o (ndd_lt e Hn) Ho Hmd) as [[i [Hi Hdi]]|[Hip|Hown]].
    + left. exists i. split; [exact Hi|]. apply (proj1 (rel_ok i (rel_nonoo e i Hn Hi))). exact Hdi.
    + exfalso. apply (pend_not_ip 0 e Hpe Hip).
    + right. exact Hown.
  - intros e o _ _ He. lia.
Qed.

(* ---- one cascade: the semantic state [st] (after the command) is fixed *)
Section Cascade.
Variables (k : nat) (st : hstate).
Hypothesis HH : HInv k st.
Notation w := (world_of st).

Lemma nonoo_eq x e : st_edge (c_s x) = st_edge s0 -> cn_nonoo G0 (c_s x) e = nonoo_ins g e.
Proof. intros E. unfold cn_nonoo, nonoo_ins. rewrite E, ins0. reflexivity. Qed.

Lemma out_edges_in x e n : st_edge (c_s x) = st_edge s0 ->
  (In e (out_edges G0 (c_s x) n) <-> (e < g_nedges g)%nat /\ In n (ei_ins (g_edge g e))).
Proof.
  intros E. unfold out_edges. rewrite filter_In, in_seq, E, ins0, mem_node_In.
  change (g_nedges G0) with (g_nedges g). split; intros [A B]; (split; [lia|exact B]).
Qed.

Lemma nd_clear_other s n m : m <> n -> nd (set_dirty s n false) m = nd s m.
Proof. intros H. unfold set_dirty. apply upd_node_other. exact H. Qed.

Lemma nd_clear_same s n :
  nd (set_dirty s n false) n = mkN false (ns_mtime (nd s n)) (ns_exists (nd s n)).
Proof. unfold set_dirty. apply upd_node_same. Qed.

Lemma cinv_weaken_U x V U U' Q :
  CInv k st x V U Q ->
  (forall e, ndd e -> pend k e -> ~ In e V -> ~ In e U' -> In e U -> c_want x e = true ->
     (exists i, In i (nonoo_ins g e) /\ Fl x i = true) \/ OWNx w e) ->
  CInv k st x V U' Q.
Proof.
  intros H HU. destruct H as [cE cN1 cN2 cN3 cB cL cWm cIP cT1 cT2 cT3 cT4 cP].
  constructor; try assumption.
  intros e Hn Hpe HV HU' Hw. destruct (in_dec Nat.eq_dec e U) as [Hu|Hnu].
  - apply (HU e Hn Hpe HV HU' Hu Hw).
  - apply (cT4 e Hn Hpe HV Hnu Hw).
Qed.

Lemma cinv_weaken_V x V V' U Q : incl V V' -> CInv k st x V U Q -> CInv k st x V' U Q.
Proof.
  intros Hi H. destruct H as [cE cN1 cN2 cN3 cB cL cWm cIP cT1 cT2 cT3 cT4 cP].
  constructor; try assumption.
  - intros n e Hp Hn Hph HV. apply (cN3 n e Hp Hn Hph). intros Hin. apply HV. apply Hi. exact Hin.
  - intros e o Hn Hpe HV. apply (cT2 e o Hn Hpe). intros Hin. apply HV. apply Hi. exact Hin.
  - intros e Hn Hpe HV. apply (cT4 e Hn Hpe). intros Hin. apply HV. apply Hi. exact Hin.
Qed.

(* the first action of CleanNode: the flag of [n] goes; its out-edges have to be looked at *)
Lemma cinv_clear x V U Q n en :
  CInv k st x V U Q -> rel n -> g_producer g n = Some en ->
  (forall z, z < ns_mtime (nd (c_s x) n) <-> newer_than G0 w z n) ->
  ((Q n /\ phony en = false /\ (en < k)%nat /\ h_disk st n = h_disk st0 n) \/ (In en V /\ pend k en)) ->
  CInv k st (mkC (set_dirty (c_s x) n false) (c_want x)) V
       (U ++ out_edges G0 (set_dirty (c_s x) n false) n) (fun m => Q m /\ m <> n).
Proof.
  intros H Hrel Hp HB Hcase. destruct H as [cE cN1 cN2 cN3 cB cL cWm cIP cT1 cT2 cT3 cT4 cP].
  set (s1 := set_dirty (c_s x) n false).
  assert (Ho : forall m, m <> n -> nd s1 m = nd (c_s x) m) by (intros m Hm; apply nd_clear_other; exact Hm).
  assert (Hs : nd s1 n = mkN false (ns_mtime (nd (c_s x) n)) (ns_exists (nd (c_s x) n))) by apply nd_clear_same.
  assert (Hfl : forall m, ns_dirty (nd s1 m) = true -> m <> n /\ Fl x m = true).
  { intros m Hm. destruct (Nat.eq_dec m n) as [->|Hne]; [rewrite Hs in Hm; discriminate|].
    split; [exact Hne|]. rewrite <- (Ho m Hne). exact Hm. }
  assert (Hfl0 : forall m, Fl x m = false -> ns_dirty (nd s1 m) = false).
  { intros m Hm. destruct (Nat.eq_dec m n) as [->|Hne]; [rewrite Hs; reflexivity|rewrite (Ho m Hne); exact Hm]. }
  assert (Hnot_out : forall e, In n (outs e) -> ndd e -> pend k e -> ~ In e V -> False).
  { intros e Hin Hn Hpe HV. rewrite (o_prod g Hwf e n Hin) in Hp. inversion Hp; subst en.
    destruct Hcase as [[_ [Hph [Hlt _]]]|[Hv _]]; [|contradiction].
    destruct Hpe as [[Hph' _]|[_ Hle]]; [congruence|lia]. }
  constructor; cbn [c_s c_want]; fold s1.
  - exact cE.
  - intros m Hm. destruct (Nat.eq_dec m n) as [->|Hne]; [rewrite Hs; apply (cN1 n Hm)|rewrite (Ho m Hne); apply (cN1 m Hm)].
  - intros m Hm Hnp. destruct (Nat.eq_dec m n) as [->|Hne]; [rewrite Hs; apply (cN2 n Hm Hnp)|rewrite (Ho m Hne); apply (cN2 m Hm Hnp)].
  - intros m e Hpm Hn Hph HV Hd. destruct (Hfl m Hd) as [Hne Hd']. rewrite (Ho m Hne). apply (cN3 m e Hpm Hn Hph HV Hd').
  - intros m Hm Hd z. destruct (Nat.eq_dec m n) as [->|Hne]; [rewrite Hs; apply HB|].
    rewrite (Ho m Hne) in *. apply (cB m Hm Hd z).
  - intros m Hm Hpm. assert (Hne : m <> n) by (intros ->; congruence). rewrite (Ho m Hne). apply (cL m Hm Hpm).
  - exact cWm.
  - intros e o Hn Hph Hnil Hin. assert (Hne : o <> n).
    { intros ->. rewrite (o_prod g Hwf e n Hin) in Hp. inversion Hp; subst en.
      destruct Hcase as [[_ [Hph' _]]|[_ Hpe]]; [congruence|apply (pend_not_ip k e Hpe); split; assumption]. }
    rewrite (Ho o Hne). apply (cIP e o Hn Hph Hnil Hin).
  - intros e o Hn Hpe Hw Hin. apply Hfl0. apply (cT1 e o Hn Hpe Hw Hin).
  - intros e o Hn Hpe HV Hw Hin. assert (Hne : o <> n) by (intros ->; apply (Hnot_out e Hin Hn Hpe HV)).
    rewrite (Ho o Hne). apply (cT2 e o Hn Hpe HV Hw Hin).
  - intros e Hn Hpe Hw. destruct (cT3 e Hn Hpe Hw) as [A B]. split; [|exact B].
    intros i Hi. apply Hfl0. apply (A i Hi).
  - intros e Hn Hpe HV HU Hw.
    assert (HU1 : ~ In e U) by (intros Hin; apply HU; apply in_or_app; left; exact Hin).
    destruct (cT4 e Hn Hpe HV HU1 Hw) as [[i [Hi Hd]]|Hown]; [|right; exact Hown].
    left. exists i. split; [exact Hi|]. destruct (Nat.eq_dec i n) as [->|Hne]; [|rewrite (Ho i Hne); exact Hd].
    exfalso. apply HU. apply in_or_app. right.
    apply (out_edges_in (mkC s1 (c_want x)) e n cE). split; [apply (ndd_lt e Hn)|apply (nonoo_in g e n Hi)].
  - intros e o Hn Hph Hlt Hin. destruct (cP e o Hn Hph Hlt Hin) as [A B]. split.
    + intros Hd. destruct (Hfl o Hd) as [Hne Hd']. destruct (A Hd') as [Hq|Hf]; [left; split; assumption|right; exact Hf].
    + intros Hd. destruct (Nat.eq_dec o n) as [->|Hne]; [|rewrite (Ho o Hne) in Hd; apply (B Hd)].
      destruct Hcase as [[_ [_ [_ Hdk]]]|[Hv Hpe]]; [exact Hdk|].
      exfalso. rewrite (o_prod g Hwf e n Hin) in Hp. inversion Hp; subst en.
      destruct Hpe as [[Hph' _]|[_ Hle]]; [congruence|lia].
Qed.

(* what a cascade may change: flags and wants only go away; the nodes in [P] are not touched *)
Definition frame (P : node -> Prop) (x x' : cst) : Prop :=
  st_edge (c_s x') = st_edge (c_s x) /\
  (forall m, Fl x' m = true -> Fl x m = true) /\
  (forall e, c_want x' e = true -> c_want x e = true) /\
  (forall m, P m -> nd (c_s x') m = nd (c_s x) m).

Lemma frame_refl P x : frame P x x.
Proof. repeat split; auto. Qed.

Lemma frame_trans (P P1 P2 : node -> Prop) a b c :
  (forall m, P m -> P1 m) -> (forall m, P m -> P2 m) -> frame P1 a b -> frame P2 b c -> frame P a c.
Proof.
  intros H1 H2 [A1 [A2 [A3 A4]]] [B1 [B2 [B3 B4]]]. split; [congruence|]. split; [auto|]. split; [auto|].
  intros m Hm. rewrite (B4 m (H2 m Hm)). apply (A4 m (H1 m Hm)).
Qed.

Definition low (en : nat) (m : node) : Prop :=
  match g_producer g m with None => True | Some e' => (e' <= en)%nat end.

Lemma frame_clear x n : frame (fun m => m <> n) x (mkC (set_dirty (c_s x) n false) (c_want x)).
Proof.
  split; [reflexivity|]. split; [|split; [auto|]].
  - intros m Hm. cbn [c_s] in Hm. destruct (Nat.eq_dec m n) as [->|Hne]; [rewrite nd_clear_same in Hm; discriminate|].
    rewrite (nd_clear_other _ n m Hne) in Hm. exact Hm.
  - intros m Hm. cbn [c_s]. apply nd_clear_other. exact Hm.
Qed.

Lemma unwant_same wt e : unwant wt e e = false.
Proof. unfold unwant. rewrite Nat.eqb_refl. reflexivity. Qed.
Lemma unwant_other wt e e' : e' <> e -> unwant wt e e' = wt e'.
Proof. intros H. unfold unwant. destruct (Nat.eqb_spec e' e); [contradiction|reflexivity]. Qed.

(* a pruned statement leaves the plan *)
Lemma cinv_prune x V U Q e :
  CInv k st x (e :: V) U Q -> ndd e -> pend k e ->
  (forall o, In o (outs e) -> Fl x o = false) ->
  (forall i, In i (nonoo_ins g e) -> Fl x i = false) -> ~ OWNx w e ->
  CInv k st (mkC (c_s x) (unwant (c_want x) e)) V U Q.
Proof.
  intros H Hn Hpe Hout Hin Hown. destruct H as [cE cN1 cN2 cN3 cB cL cWm cIP cT1 cT2 cT3 cT4 cP].
  assert (HV : forall e', e' <> e -> ~ In e' V -> ~ In e' (e :: V)).
  { intros e' Hne Hv [Heq|Hi]; [apply Hne; symmetry; exact Heq|apply Hv; exact Hi]. }
  constructor; cbn [c_s c_want]; try assumption.
  - intros n e' Hp Hn' Hph Hv Hd. destruct (Nat.eq_dec e' e) as [Heq|Hne].
    + subst e'. rewrite (Hout n (p_out g Hwf n e Hp)) in Hd. discriminate.
    + apply (cN3 n e' Hp Hn' Hph (HV e' Hne Hv) Hd).
  - intros e' Hw. destruct (Nat.eq_dec e' e) as [Heq|Hne]; [subst e'; rewrite unwant_same in Hw; discriminate|].
    rewrite (unwant_other _ _ _ Hne) in Hw. apply (cWm e' Hw).
  - intros e' o Hn' Hpe' Hw Ho. destruct (Nat.eq_dec e' e) as [Heq|Hne]; [subst e'; apply (Hout o Ho)|].
    rewrite (unwant_other _ _ _ Hne) in Hw. apply (cT1 e' o Hn' Hpe' Hw Ho).
  - intros e' o Hn' Hpe' Hv Hw Ho.
    destruct (Nat.eq_dec e' e) as [Heq|Hne]; [subst e'; rewrite unwant_same in Hw; discriminate|].
    rewrite (unwant_other _ _ _ Hne) in Hw. apply (cT2 e' o Hn' Hpe' (HV e' Hne Hv) Hw Ho).
  - intros e' Hn' Hpe' Hw. destruct (Nat.eq_dec e' e) as [Heq|Hne]; [subst e'; split; assumption|].
    rewrite (unwant_other _ _ _ Hne) in Hw. apply (cT3 e' Hn' Hpe' Hw).
  - intros e' Hn' Hpe' Hv Hu Hw.
    destruct (Nat.eq_dec e' e) as [Heq|Hne]; [subst e'; rewrite unwant_same in Hw; discriminate|].
    rewrite (unwant_other _ _ _ Hne) in Hw. apply (cT4 e' Hn' Hpe' (HV e' Hne Hv) Hu Hw).
Qed.

(* RecomputeOutputsDirty on a phony statement moves the cached mtimes of its outputs *)
Lemma cinv_phony_update x V U Q e s1 :
  CInv k st x V U Q -> ndd e -> pend k e -> ~ In e V -> c_want x e = true -> phony e = true ->
  st_edge s1 = st_edge (c_s x) ->
  (forall m, ~ In m (outs e) -> nd s1 m = nd (c_s x) m) ->
  (forall m, ns_dirty (nd s1 m) = ns_dirty (nd (c_s x) m) /\ ns_exists (nd s1 m) = ns_exists (nd (c_s x) m)) ->
  CInv k st (mkC s1 (c_want x)) (e :: V) U Q.
Proof.
  intros H Hn Hpe Hv Hw Hph HE Hno Hde. destruct H as [cE cN1 cN2 cN3 cB cL cWm cIP cT1 cT2 cT3 cT4 cP].
  assert (Hd : forall m, ns_dirty (nd s1 m) = Fl x m) by (intros m; apply (proj1 (Hde m))).
  assert (HV : forall e', ~ In e' (e :: V) -> e' <> e /\ ~ In e' V).
  { intros e' Hi. split; [intros ->; apply Hi; left; reflexivity|intros Hi'; apply Hi; right; exact Hi']. }
  constructor; cbn [c_s c_want].
  - rewrite HE. exact cE.
  - intros m Hm. rewrite (proj2 (Hde m)). apply (cN1 m Hm).
  - intros m Hm Hnp. rewrite Hno; [apply (cN2 m Hm Hnp)|].
    intros Hin. specialize (Hnp e (o_prod g Hwf e m Hin)). congruence.
  - intros m e' Hp Hn' Hph' Hv' Hdm. destruct (HV e' Hv') as [Hne Hv''].
    rewrite Hd in Hdm. rewrite Hno; [apply (cN3 m e' Hp Hn' Hph' Hv'' Hdm)|].
    intros Hin. rewrite (o_prod g Hwf e m Hin) in Hp. inversion Hp. congruence.
  - intros m Hm Hdm z. rewrite Hd in Hdm. rewrite Hno; [apply (cB m Hm Hdm z)|].
    intros Hin. rewrite (cT2 e m Hn Hpe Hv Hw Hin) in Hdm. discriminate.
  - intros m Hm Hp. rewrite Hd. apply (cL m Hm Hp).
  - exact cWm.
  - intros e' o Hn' Hph' Hnil Ho. rewrite Hd. apply (cIP e' o Hn' Hph' Hnil Ho).
  - intros e' o Hn' Hpe' Hw' Ho. rewrite Hd. apply (cT1 e' o Hn' Hpe' Hw' Ho).
  - intros e' o Hn' Hpe' Hv' Hw' Ho. rewrite Hd. apply (cT2 e' o Hn' Hpe' (proj2 (HV e' Hv')) Hw' Ho).
  - intros e' Hn' Hpe' Hw'. destruct (cT3 e' Hn' Hpe' Hw') as [A B]. split; [|exact B].
    intros i Hi. rewrite Hd. apply (A i Hi).
  - intros e' Hn' Hpe' Hv' Hu Hw'. destruct (cT4 e' Hn' Hpe' (proj2 (HV e' Hv')) Hu Hw') as [[i [Hi Hdi]]|Ho]; [|right; exact Ho].
    left. exists i. split; [exact Hi|]. rewrite Hd. exact Hdi.
  - intros e' o Hn' Hph' Hlt Ho. rewrite Hd. apply (cP e' o Hn' Hph' Hlt Ho).
Qed.

Lemma cinv_weaken_Q x V U (Q Q' : node -> Prop) :
  (forall m, Q m -> Q' m) -> CInv k st x V U Q -> CInv k st x V U Q'.
Proof.
  intros HQ H. destruct H as [cE cN1 cN2 cN3 cB cL cWm cIP cT1 cT2 cT3 cT4 cP].
  constructor; try assumption.
  intros e o Hn Hph Hlt Ho. destruct (cP e o Hn Hph Hlt Ho) as [A B]. split; [|exact B].
  intros Hd. destruct (A Hd) as [Hq|Hf]; [left; apply HQ; exact Hq|right; exact Hf].
Qed.

Lemma forallb_false {A : Type} (f : A -> bool) : forall l, forallb f l = false -> exists a, In a l /\ f a = false.
Proof.
  induction l as [|a l IH]; cbn [forallb]; [discriminate|]. intros H.
  destruct (f a) eqn:Ha; [|exists a; split; [left; reflexivity|exact Ha]].
  destruct (IH H) as [b [Hb Hfb]]. exists b. split; [right; exact Hb|exact Hfb].
Qed.

Definition Qminus (Q : node -> Prop) (n : node) : node -> Prop := fun m => Q m /\ m <> n.

(* the cached mtime a cleaned phony output gets is the one make semantics gives it *)
Lemma phony_B x V U Q e o :
  CInv k st x V U Q -> ndd e -> pend k e -> ~ In e V -> c_want x e = true -> phony e = true ->
  (forall i, In i (nonoo_ins g e) -> Fl x i = false) -> In o (outs e) ->
  forall z, z < phony_mtime (c_s x) (cn_mri (c_s x) (nonoo_ins g e)) o <-> newer_than G0 w z o.
Proof.
  intros H Hn Hpe Hv Hw Hph Hin Ho z.
  destruct HG0 as [[_ [_ [_ [D0 _]]]] _]. destruct (hi_good k st HH) as [[_ [_ [_ [D1 _]]]] _].
  pose proof (o_prod g Hwf e o Ho) as Hpo.
  assert (Hm0 : mtime_of st0 o = 0) by (unfold mtime_of; rewrite (D0 o e Hpo Hph); reflexivity).
  assert (Hm1 : w_mtime w o = 0) by (cbn [world_of w_mtime]; unfold mtime_of; rewrite (D1 o e Hpo Hph); reflexivity).
  assert (Hex : n_exists (nd (c_s x) o) = false).
  { unfold n_exists. rewrite (ci_N1 _ _ _ _ _ _ H o (rel_out e o Hn Ho)), Hm0. reflexivity. }
  assert (Hmt : ns_mtime (nd (c_s x) o) = 0).
  { apply (ci_N3 _ _ _ _ _ _ H o e Hpo Hn Hph Hv). apply (ci_T2 _ _ _ _ _ _ H e o Hn Hpe Hv Hw Ho). }
  rewrite (newer_missing_phony G0 w z o e Hm1 Hpo Hph).
  assert (HN : (exists i, In i (nonoo_ins G0 e) /\ newer_than G0 w z i) <->
               lt_mri (c_s x) z (cn_mri (c_s x) (nonoo_ins g e))).
  { rewrite (proj1 (cn_mri_spec (c_s x) (nonoo_ins g e)) z).
    split; intros [i [Hi Hz]]; exists i; (split; [exact Hi|]).
    - apply (ci_B _ _ _ _ _ _ H i (rel_nonoo e i Hn Hi) (Hin i Hi) z). exact Hz.
    - apply (ci_B _ _ _ _ _ _ H i (rel_nonoo e i Hn Hi) (Hin i Hi) z). exact Hz. }
  rewrite HN. unfold phony_mtime. rewrite Hex, Hmt.
  destruct (cn_mri (c_s x) (nonoo_ins g e)) as [m|]; cbn [lt_mri]; lia.
Qed.

Definition CN_spec (f : nat) : Prop :=
  forall n x V U Q en,
    CInv k st x V U Q -> rel n -> g_producer g n = Some en -> (g_nedges g - en <= f)%nat ->
    (forall v, In v V -> (v <= en)%nat) ->
    (forall z, z < ns_mtime (nd (c_s x) n) <-> newer_than G0 w z n) ->
    ((Q n /\ phony en = false /\ (en < k)%nat /\ h_disk st n = h_disk st0 n) \/ (In en V /\ pend k en)) ->
    exists x', clean_node G0 w f n x = Some x' /\ CInv k st x' V U (Qminus Q n) /\
               frame (fun m => m <> n /\ low en m) x x' /\ Fl x' n = false.

(* ---- the cascade inside the blocked region *)
Definition Tch (e : edge) (m : node) : Prop :=
  exists e', g_producer g m = Some e' /\ Bb e' = true /\ (e <= e')%nat.

(* [y] differs from [x] only in flags / cached mtimes of outputs of blocked statements >= e and in
   want entries of such statements; flags and wants only go away *)
Definition Bfr (e : edge) (x y : cst) : Prop :=
  st_edge (c_s y) = st_edge (c_s x) /\
  (forall m, Fl y m = true -> Fl x m = true) /\
  (forall e', c_want y e' = true -> c_want x e' = true) /\
  (forall m, ~ Tch e m -> nd (c_s y) m = nd (c_s x) m) /\
  (forall e', ~ (Bb e' = true /\ (e <= e')%nat) -> c_want y e' = c_want x e').

Lemma Bfr_refl e x : Bfr e x x.
Proof. repeat split; auto. Qed.

Lemma Bfr_trans e a b c : Bfr e a b -> Bfr e b c -> Bfr e a c.
Proof.
  intros [A1 [A2 [A3 [A4 A5]]]] [B1 [B2 [B3 [B4 B5]]]].
  split; [congruence|]. split; [auto|]. split; [auto|]. split.
  - intros m Hm. rewrite (B4 m Hm). apply (A4 m Hm).
  - intros e' He'. rewrite (B5 e' He'). apply (A5 e' He').
Qed.

Lemma Bfr_le e e' x y : (e <= e')%nat -> Bfr e' x y -> Bfr e x y.
Proof.
  intros Hle [A1 [A2 [A3 [A4 A5]]]]. split; [exact A1|]. split; [exact A2|]. split; [exact A3|]. split.
  - intros m Hm. apply A4. intros [e2 [Hp [HB Hl]]]. apply Hm. exists e2. split; [exact Hp|]. split; [exact HB|lia].
  - intros e2 He2. apply A5. intros [HB Hl]. apply He2. split; [exact HB|lia].
Qed.

Lemma Bfr_frame e en x y : (en < e)%nat -> Bfr e x y -> frame (low en) x y.
Proof.
  intros Hlt [A1 [A2 [A3 [A4 _]]]]. split; [exact A1|]. split; [exact A2|]. split; [exact A3|].
  intros m Hm. apply A4. intros [e' [Hp [_ Hl]]]. unfold low in Hm. rewrite Hp in Hm. lia.
Qed.

Definition CNB (f : nat) : Prop :=
  forall n en x, g_producer g n = Some en -> Bb en = true -> st_edge (c_s x) = st_edge s0 ->
    (g_nedges g - en <= f)%nat ->
    exists y, clean_node G0 w f n x = Some y /\ Bfr en x y.

Lemma ce_blocked_of f : CNB f -> forall e x,
  Bb e = true -> (e < g_nedges g)%nat -> st_edge (c_s x) = st_edge s0 -> (g_nedges g - e <= f)%nat ->
  exists y, clean_edge G0 w (clean_node G0 w f) e x = Some y /\ Bfr e x y.
Proof.
  intros IH e x HB He Ex Hf. unfold clean_edge.
  destruct (c_want x e && negb (es_deps_missing (st_edge (c_s x) e))
            && forallb (fun i => negb (ns_dirty (nd (c_s x) i))) (cn_nonoo G0 (c_s x) e))%bool;
    [|exists x; split; [reflexivity|apply Bfr_refl]].
  destruct (outputs_dirty_all G0 w e (edge_outs G0 e) (cn_mri (c_s x) (cn_nonoo G0 (c_s x) e)) (c_s x)) as [d s1] eqn:Hod.
  destruct (oda_nodes G0 w e _ _ _ _ _ Hod) as [O1 O2].
  pose proof (st_edge_outputs_dirty_all G0 w e (cn_mri (c_s x) (cn_nonoo G0 (c_s x) e)) (edge_outs G0 e) (c_s x)) as E1.
  rewrite Hod in E1. cbn [snd] in E1.
  assert (HT : forall m, In m (outs e) -> Tch e m).
  { intros m Hm. exists e. split; [apply (o_prod g Hwf e m Hm)|]. split; [exact HB|lia]. }
  assert (F1 : Bfr e x (mkC s1 (c_want x))).
  { split; [exact E1|]. split; [intros m Hm; cbn [c_s] in Hm; rewrite O2 in Hm; exact Hm|]. split; [auto|].
    split; [|reflexivity]. intros m Hm. cbn [c_s]. apply O1. intros Hin. apply Hm. apply HT. exact Hin. }
  destruct d; [exists (mkC s1 (c_want x)); split; [reflexivity|exact F1]|].
  assert (Hloop : forall os y0, (forall o, In o os -> In o (outs e)) -> st_edge (c_s y0) = st_edge s0 ->
            exists y, ofold (clean_node G0 w f) os y0 = Some y /\ Bfr e y0 y).
  { induction os as [|o os IHos]; intros y0 Hsub E0; cbn [ofold].
    - exists y0. split; [reflexivity|apply Bfr_refl].
    - destruct (IH o e y0 (o_prod g Hwf e o (Hsub o (or_introl eq_refl))) HB E0 Hf) as [y1 [Ey1 Fy1]]. rewrite Ey1.
      destruct (IHos y1 (fun o' Ho' => Hsub o' (or_intror Ho'))) as [y2 [Ey2 Fy2]].
      + rewrite (proj1 Fy1). exact E0.
      + exists y2. split; [exact Ey2|apply (Bfr_trans e y0 y1 y2 Fy1 Fy2)]. }
  destruct (Hloop (edge_outs G0 e) (mkC s1 (c_want x)) (fun o Ho => Ho)) as [y2 [E2 F2]].
  { cbn [c_s]. rewrite E1. exact Ex. }
  rewrite E2. eexists. split; [reflexivity|].
  apply (Bfr_trans e x (mkC s1 (c_want x)) _ F1). apply (Bfr_trans e _ y2 _ F2).
  split; [reflexivity|]. split; [auto|]. split.
  - intros e' He'. cbn [c_want] in He'. unfold unwant in He'. destruct (Nat.eqb e' e); [discriminate|exact He'].
  - split; [reflexivity|]. intros e' He'. cbn [c_want]. unfold unwant.
    destruct (Nat.eqb_spec e' e) as [->|_]; [|reflexivity]. exfalso. apply He'. split; [exact HB|lia].
Qed.

Lemma cnb : forall f, CNB f.
Proof.
  induction f as [|f IHf]; intros n en x Hp HB Ex Hf.
  - pose proof (Hwg n en Hp). lia.
  - cbn [clean_node].
    set (x1 := mkC (set_dirty (c_s x) n false) (c_want x)).
    assert (Ex1 : st_edge (c_s x1) = st_edge s0) by exact Ex.
    assert (F1 : Bfr en x x1).
    { split; [reflexivity|]. split; [apply (proj1 (proj2 (frame_clear x n)))|]. split; [auto|]. split; [|reflexivity].
      intros m Hm. cbn [c_s]. apply nd_clear_other. intros ->. apply Hm. exists en. split; [exact Hp|]. split; [exact HB|lia]. }
    assert (Hloop : forall L y0, (forall e, In e L -> (e < g_nedges g)%nat /\ In n (ei_ins (g_edge g e))) ->
              st_edge (c_s y0) = st_edge s0 ->
              exists y, ofold (clean_edge G0 w (clean_node G0 w f)) L y0 = Some y /\ Bfr en y0 y).
    { induction L as [|e L IHL]; intros y0 HL E0; cbn [ofold].
      - exists y0. split; [reflexivity|apply Bfr_refl].
      - destruct (HL e (or_introl eq_refl)) as [He Hin].
        assert (Hlt : (en < e)%nat).
        { pose proof (in_below g Htopo e n He Hin) as Hb. unfold below in Hb. rewrite Hp in Hb. exact Hb. }
        destruct (ce_blocked_of f IHf e y0 (Bcl e n en He Hin Hp HB) He E0 ltac:(lia)) as [y1 [Ey1 Fy1]]. rewrite Ey1.
        destruct (IHL y1 (fun e' He' => HL e' (or_intror He'))) as [y2 [Ey2 Fy2]].
        + rewrite (proj1 Fy1). exact E0.
        + exists y2. split; [exact Ey2|].
          apply (Bfr_trans en y0 y1 y2); [apply (Bfr_le en e y0 y1 ltac:(lia) Fy1)|exact Fy2]. }
    destruct (Hloop (out_edges G0 (c_s x1) n) x1) as [y [Ey Fy]]; [|exact Ex1|].
    + intros e He. apply (out_edges_in x1 e n Ex1). exact He.
    + exists y. split; [exact Ey|apply (Bfr_trans en x x1 y F1 Fy)].
Qed.

Lemma ce_blocked f e x :
  Bb e = true -> (e < g_nedges g)%nat -> st_edge (c_s x) = st_edge s0 -> (g_nedges g - e <= f)%nat ->
  exists y, clean_edge G0 w (clean_node G0 w f) e x = Some y /\ Bfr e x y.
Proof. apply (ce_blocked_of f (cnb f)). Qed.

Lemma rel_nT e n : rel n -> ~ Tch e n.
Proof. intros Hr [e' [Hp [HB _]]]. unfold rel in Hr. rewrite Hp in Hr. destruct Hr as [_ HB']. congruence. Qed.

(* the invariant does not look at the blocked region *)
Lemma cinv_Bfr x y V U Q e : CInv k st x V U Q -> Bfr e x y -> CInv k st y V U Q.
Proof.
  intros H [F1 [F2 [F3 [F4 F5]]]]. destruct H as [cE cN1 cN2 cN3 cB cL cWm cIP cT1 cT2 cT3 cT4 cP].
  assert (Hnd : forall m, rel m -> nd (c_s y) m = nd (c_s x) m) by (intros m Hm; apply F4; apply rel_nT; exact Hm).
  assert (Hwt : forall e', ndd e' -> c_want y e' = c_want x e').
  { intros e' [_ He']. apply F5. intros [He2 _]. congruence. }
  constructor.
  - rewrite F1. exact cE.
  - intros n Hr. rewrite (Hnd n Hr). apply (cN1 n Hr).
  - intros n Hr Hnp. rewrite (Hnd n Hr). apply (cN2 n Hr Hnp).
  - intros n e' Hp Hn Hph HV Hd. assert (Hr : rel n) by (unfold rel; rewrite Hp; exact Hn).
    rewrite (Hnd n Hr) in *. apply (cN3 n e' Hp Hn Hph HV Hd).
  - intros n Hr Hd z. rewrite (Hnd n Hr) in *. apply (cB n Hr Hd z).
  - intros n Hr Hp. rewrite (Hnd n Hr). apply (cL n Hr Hp).
  - intros e' Hw. apply (cWm e' (F3 e' Hw)).
  - intros e' o Hn Hph Hnil Ho. rewrite (Hnd o (rel_out e' o Hn Ho)). apply (cIP e' o Hn Hph Hnil Ho).
  - intros e' o Hn Hpe Hw Ho. rewrite (Hnd o (rel_out e' o Hn Ho)). rewrite (Hwt e' Hn) in Hw. apply (cT1 e' o Hn Hpe Hw Ho).
  - intros e' o Hn Hpe HV Hw Ho. rewrite (Hnd o (rel_out e' o Hn Ho)). rewrite (Hwt e' Hn) in Hw. apply (cT2 e' o Hn Hpe HV Hw Ho).
  - intros e' Hn Hpe Hw. rewrite (Hwt e' Hn) in Hw. destruct (cT3 e' Hn Hpe Hw) as [A B]. split; [|exact B].
    intros i Hi. rewrite (Hnd i (rel_nonoo e' i Hn Hi)). apply (A i Hi).
  - intros e' Hn Hpe HV HU Hw. rewrite (Hwt e' Hn) in Hw.
    destruct (cT4 e' Hn Hpe HV HU Hw) as [[i [Hi Hd]]|Ho]; [|right; exact Ho].
    left. exists i. split; [exact Hi|]. rewrite (Hnd i (rel_nonoo e' i Hn Hi)). exact Hd.
  - intros e' o Hn Hph Hlt Ho. rewrite (Hnd o (rel_out e' o Hn Ho)). apply (cP e' o Hn Hph Hlt Ho).
Qed.

(* "CleanNode every output of oe" *)
Lemma outs_loop f : CN_spec f -> forall e os x V U Q,
  ndd e -> pend k e -> In e V -> (g_nedges g - e <= f)%nat -> (forall v, In v V -> (v <= e)%nat) ->
  (forall o, In o os -> In o (outs e)) ->
  CInv k st x V U Q ->
  (forall o, In o os -> forall z, z < ns_mtime (nd (c_s x) o) <-> newer_than G0 w z o) ->
  exists x', ofold (clean_node G0 w f) os x = Some x' /\ CInv k st x' V U Q /\
             frame (fun m => ~ In m os /\ low e m) x x' /\ (forall o, In o os -> Fl x' o = false).
Proof.
  intros IH e. induction os as [|o os IHos]; intros x V U Q Hn Hpe Hv Hfuel Hle Hsub HC HB.
  - exists x. split; [reflexivity|]. split; [exact HC|]. split; [apply frame_refl|intros o []].
  - cbn [ofold].
    pose proof (Hsub o (or_introl eq_refl)) as Ho. pose proof (o_prod g Hwf e o Ho) as Hpo.
    destruct (IH o x V U Q e HC (rel_out e o Hn Ho) Hpo Hfuel Hle (HB o (or_introl eq_refl))
                 (or_intror (conj Hv Hpe))) as [x1 [E1 [C1 [F1 D1]]]].
    rewrite E1.
    assert (C1' : CInv k st x1 V U Q) by (apply (cinv_weaken_Q x1 V U (Qminus Q o) Q); [intros m [Hq _]; exact Hq|exact C1]).
    destruct (IHos x1 V U Q Hn Hpe Hv Hfuel Hle (fun o' Ho' => Hsub o' (or_intror Ho')) C1') as [x2 [E2 [C2 [F2 D2]]]].
    { intros o' Ho' z. destruct (Nat.eq_dec o' o) as [->|Hne].
      - apply (ci_B _ _ _ _ _ _ C1' o (rel_out e o Hn Ho) D1 z).
      - destruct F1 as [_ [_ [_ F1n]]]. rewrite (F1n o'); [apply (HB o' (or_intror Ho') z)|].
        split; [exact Hne|]. unfold low. rewrite (o_prod g Hwf e o' (Hsub o' (or_intror Ho'))). lia. }
    exists x2. split; [exact E2|]. split; [exact C2|]. split.
    + apply (frame_trans _ (fun m => m <> o /\ low e m) (fun m => ~ In m os /\ low e m) x x1 x2); [| |exact F1|exact F2].
      * intros m [Hni Hl]. split; [intros ->; apply Hni; left; reflexivity|exact Hl].
      * intros m [Hni Hl]. split; [intros Hi; apply Hni; right; exact Hi|exact Hl].
    + intros o' [<-|Ho']; [|apply D2; exact Ho'].
      destruct (Fl x2 o) eqn:Hd; [|reflexivity]. destruct F2 as [_ [F2f _]]. rewrite (F2f o Hd) in D1. discriminate.
Qed.

(* the loop of CleanNode over the out-edges of [n] *)
Lemma edges_loop f : CN_spec f -> forall n en L x V U Q,
  g_producer g n = Some en -> (g_nedges g - en <= S f)%nat -> (forall v, In v V -> (v <= en)%nat) ->
  (forall e, In e L -> (e < g_nedges g)%nat /\ In n (ei_ins (g_edge g e))) ->
  CInv k st x V (U ++ L) Q ->
  exists x', ofold (clean_edge G0 w (clean_node G0 w f)) L x = Some x' /\ CInv k st x' V U Q /\
             frame (low en) x x'.
Proof.
  intros IH n en. induction L as [|e L IHL]; intros x V U Q Hp Hfuel Hle HL HC.
  - rewrite app_nil_r in HC. exists x. split; [reflexivity|]. split; [exact HC|apply frame_refl].
  - destruct x as [s wt]. cbn [ofold].
    destruct (HL e (or_introl eq_refl)) as [He Hnin].
    assert (Hlt : (en < e)%nat).
    { pose proof (in_below g Htopo e n He Hnin) as Hb. unfold below in Hb. rewrite Hp in Hb. exact Hb. }
    assert (HL' : forall e', In e' L -> (e' < g_nedges g)%nat /\ In n (ei_ins (g_edge g e'))) by (intros e' He'; apply HL; right; exact He').
    pose proof (ci_E _ _ _ _ _ _ HC) as cE. cbn [c_s] in cE.
    assert (Hnoo : cn_nonoo G0 s e = nonoo_ins g e) by (apply (nonoo_eq (mkC s wt) e cE)).
    (* dropping [e] from the exemption list once it has been dealt with *)
    assert (Hdrop : forall y, CInv k st y V (U ++ e :: L) Q ->
              (c_want y e = true -> ndd e -> pend k e ->
               (exists i, In i (nonoo_ins g e) /\ Fl y i = true) \/ OWNx w e) ->
              CInv k st y V (U ++ L) Q).
    { intros y Hy Hconc. apply (cinv_weaken_U y V (U ++ e :: L) (U ++ L) Q Hy).
      intros e' Hn' Hpe' _ Hnot Hin Hw'.
      assert (e' = e).
      { apply in_app_or in Hin. destruct Hin as [Hin|[Heq|Hin]]; [|symmetry; exact Heq|];
          exfalso; apply Hnot; apply in_or_app; [left|right]; exact Hin. }
      subst e'. apply (Hconc Hw' Hn' Hpe'). }
    destruct (Bb e) eqn:HBe.
    { (* a blocked statement: whatever the cascade does there stays there *)
      destruct (ce_blocked f e (mkC s wt) HBe He cE ltac:(lia)) as [y [Ey Fy]]. rewrite Ey.
      assert (Cy : CInv k st y V (U ++ L) Q).
      { apply (Hdrop y); [apply (cinv_Bfr (mkC s wt) y V (U ++ e :: L) Q e HC Fy)|].
        intros _ [_ HB'] _. congruence. }
      destruct (IHL y V U Q Hp Hfuel Hle HL' Cy) as [x' [E' [C' F']]].
      exists x'. split; [exact E'|]. split; [exact C'|].
      apply (frame_trans (low en) (low en) (low en) (mkC s wt) y x'); auto.
      apply (Bfr_frame e en (mkC s wt) y Hlt Fy). }
    unfold clean_edge at 1. cbn [c_s c_want].
    destruct (wt e && negb (es_deps_missing (st_edge s e))
              && forallb (fun i => negb (ns_dirty (nd s i))) (cn_nonoo G0 s e))%bool eqn:Hcond.
    2:{ (* not wanted any more, or an input still carries the flag *)
        apply (IHL (mkC s wt) V U Q Hp Hfuel Hle HL'). apply (Hdrop _ HC). intros Hw _ _. left.
        cbn [c_want] in Hw. rewrite Hw, cE, dm0 in Hcond. cbn [negb andb] in Hcond.
        destruct (forallb_false _ _ Hcond) as [i [Hi Hfi]]. rewrite Hnoo in Hi.
        exists i. split; [exact Hi|]. cbn [c_s]. apply negb_false_iff in Hfi. exact Hfi. }
    apply andb_true_iff in Hcond. destruct Hcond as [Hcond Hall]. apply andb_true_iff in Hcond. destruct Hcond as [Hw _].
    rewrite Hnoo in *. rewrite forallb_forall in Hall.
    assert (Hclean : forall i, In i (nonoo_ins g e) -> Fl (mkC s wt) i = false).
    { intros i Hi. specialize (Hall i Hi). apply negb_true_iff in Hall. exact Hall. }
    destruct (ci_Wm _ _ _ _ _ _ HC e Hw) as [Hws Hk0]. pose proof (Hk0 HBe) as Hk.
    pose proof (wanted_ndd e Hws HBe) as Hn.
    assert (Hpe : pend k e).
    { destruct (phony e) eqn:Hph; [left; split; [exact Hph|intros Hnil; rewrite Hnil in Hnin; destruct Hnin]|].
      right. split; [exact Hph|]. destruct Hk as [Hk|Hk]; [discriminate|exact Hk]. }
    assert (HnV : ~ In e V) by (intros Hin; specialize (Hle e Hin); lia).
    assert (HleV : forall v, In v (e :: V) -> (v <= e)%nat).
    { intros v [<-|Hv]; [lia|]. specialize (Hle v Hv). lia. }
    assert (Hfuel' : (g_nedges g - e <= f)%nat) by lia.
    (* after the outputs have been cleaned: leave the plan, go on with the other out-edges *)
    assert (Hfinish : forall x1, CInv k st x1 (e :: V) (U ++ e :: L) Q -> frame (fun m => ~ In m (outs e)) (mkC s wt) x1 ->
              (forall o, In o (outs e) -> forall z, z < ns_mtime (nd (c_s x1) o) <-> newer_than G0 w z o) ->
              ~ OWNx w e ->
              exists x2, ofold (clean_node G0 w f) (edge_outs G0 e) x1 = Some x2 /\
              exists x', ofold (clean_edge G0 w (clean_node G0 w f)) L (mkC (c_s x2) (unwant (c_want x2) e)) = Some x' /\
                         CInv k st x' V U Q /\ frame (low en) (mkC s wt) x').
    { intros x1 C1 F1 B1 Hnown.
      destruct (outs_loop f IH e (outs e) x1 (e :: V) (U ++ e :: L) Q Hn Hpe (or_introl eq_refl) Hfuel' HleV
                  (fun o Ho => Ho) C1 B1) as [x2 [E2 [C2 [F2 D2]]]].
      exists x2. split; [exact E2|].
      assert (Hc2 : forall i, In i (nonoo_ins g e) -> Fl x2 i = false).
      { intros i Hi. destruct (Fl x2 i) eqn:Hd; [|reflexivity].
        destruct F2 as [_ [F2f _]]. destruct F1 as [_ [F1f _]].
        pose proof (F1f i (F2f i Hd)) as Hx. pose proof (Hclean i Hi) as Hc. cbn [c_s] in Hx, Hc. congruence. }
      pose proof (cinv_prune x2 V (U ++ e :: L) Q e C2 Hn Hpe D2 Hc2 Hnown) as C3.
      set (x3 := mkC (c_s x2) (unwant (c_want x2) e)) in *.
      assert (C3' : CInv k st x3 V (U ++ L) Q).
      { apply (Hdrop x3 C3). intros Hw3 _ _. unfold x3 in Hw3. cbn [c_want] in Hw3. rewrite unwant_same in Hw3. discriminate. }
      destruct (IHL x3 V U Q Hp Hfuel Hle HL' C3') as [x' [E' [C' F']]].
      exists x'. split; [exact E'|]. split; [exact C'|].
      assert (Hlow : forall m, low en m -> ~ In m (outs e) /\ low e m).
      { intros m Hm. unfold low in *. split.
        - intros Hin. rewrite (o_prod g Hwf e m Hin) in Hm. lia.
        - destruct (g_producer g m); [lia|exact I]. }
      assert (F3 : frame (low en) (mkC s wt) x3).
      { apply (frame_trans (low en) (fun m => ~ In m (outs e)) (fun m => ~ In m (outs e) /\ low e m) (mkC s wt) x1 x3);
          [intros m Hm; apply (Hlow m Hm)|intros m Hm; exact (Hlow m Hm)|exact F1|].
        destruct F2 as [A [B [C D]]]. split; [exact A|]. split; [exact B|]. split; [|exact D].
        intros e' He'. unfold x3 in He'. cbn [c_want] in He'. apply C.
        destruct (Nat.eq_dec e' e) as [->|Hne]; [rewrite unwant_same in He'; discriminate|].
        rewrite (unwant_other _ _ _ Hne) in He'. exact He'. }
      apply (frame_trans (low en) (low en) (low en) (mkC s wt) x3 x'); auto. }
    destruct (outputs_dirty_all G0 w e (edge_outs G0 e) (cn_mri s (nonoo_ins g e)) s) as [d s1] eqn:Hod.
    destruct (phony e) eqn:Hph.
    + (* a phony statement: never dirty here, its cached mtimes are brought up to date *)
      assert (Hne : es_ins (st_edge s e) <> []) by (rewrite cE, ins0; intros E; rewrite E in Hnin; destruct Hnin).
      assert (Hd : d = false) by (apply (oda_phony_false G0 w e _ Hph _ _ _ _ Hne Hod)). subst d.
      assert (Hmri : forall m, cn_mri s (nonoo_ins g e) = Some m -> ~ In m (edge_outs G0 e)).
      { intros m Hm. pose proof (proj2 (cn_mri_spec s (nonoo_ins g e)) m Hm) as Hin.
        apply (not_out_of_below g Hwf e e m); [apply (in_below g Htopo e m He (nonoo_in g e m Hin))|lia]. }
      destruct (oda_phony G0 w e _ Hph (edge_outs G0 e) Hmri s false s1 Hod) as [E1 [O1 [DX [_ M1]]]].
      pose proof (cinv_phony_update (mkC s wt) V (U ++ e :: L) Q e s1 HC Hn Hpe HnV Hw Hph E1 O1 DX) as C1.
      destruct (Hfinish (mkC s1 wt) C1) as [x2 [E2 [x' [E' [C' F']]]]].
      * split; [exact E1|]. split; [|split; [auto|intros m Hm; apply O1; exact Hm]].
        intros m Hm. cbn [c_s] in *. rewrite <- (proj1 (DX m)). exact Hm.
      * intros o Ho z. cbn [c_s]. rewrite (M1 eq_refl o Ho).
        apply (phony_B (mkC s wt) V (U ++ e :: L) Q e o HC Hn Hpe HnV Hw Hph Hclean Ho z).
      * intros [Hf _]. congruence.
      * cbn [c_want]. rewrite E2. exists x'. split; [exact E'|]. split; assumption.
    + (* a real statement: RecomputeOutputsDirty decides *)
      assert (Hk' : (k <= e)%nat) by (destruct Hpe as [[Hp' _]|[_ Hk']]; [congruence|exact Hk']).
      assert (Hout : forall o, In o (ei_outs (g_edge G0 e)) ->
                ns_mtime (nd s o) = w_mtime w o /\ ns_exists (nd s o) = ex_of (w_mtime w o)).
      { intros o Ho. change (In o (outs e)) in Ho. pose proof (rel_out e o Hn Ho) as Hr.
        assert (Hm : w_mtime w o = mtime_of st0 o).
        { cbn [world_of w_mtime]. unfold mtime_of.
          rewrite (proj1 (hi_later k st HH o e (o_prod g Hwf e o Ho) Hk')). reflexivity. }
        rewrite Hm. split; [|apply (ci_N1 _ _ _ _ _ _ HC o Hr)].
        apply (ci_N2 _ _ _ _ _ _ HC o Hr). intros e' He'. rewrite (o_prod g Hwf e o Ho) in He'. inversion He'; subst. exact Hph. }
      destruct (own_test_real G0 w e s (nonoo_ins g e) d s1 Hph Hout) as [Es Hiff]; [|exact Hod|].
      { intros i Hi z. apply (ci_B _ _ _ _ _ _ HC i (rel_nonoo e i Hn Hi) (Hclean i Hi) z). }
      subst s1. destruct d.
      * (* still dirty: stays in the plan *)
        apply (IHL (mkC s wt) V U Q Hp Hfuel Hle HL'). apply (Hdrop _ HC). intros _ _ _. right.
        split; [exact Hph|]. apply (proj1 Hiff eq_refl).
      * assert (Hnown : ~ OWNx w e).
        { intros [_ Ho]. assert (false = true) by (apply (proj2 Hiff); exact Ho). discriminate. }
        destruct (Hfinish (mkC s wt)) as [x2 [E2 [x' [E' [C' F']]]]].
        -- apply (cinv_weaken_V (mkC s wt) V (e :: V) (U ++ e :: L) Q); [intros v Hv; right; exact Hv|exact HC].
        -- apply frame_refl.
        -- intros o Ho z. cbn [c_s]. destruct (Hout o Ho) as [Hm _]. rewrite Hm.
           assert (Hnz : w_mtime w o <> 0).
           { intros Hz. apply Hnown. split; [exact Hph|]. exists o. split; [exact Ho|]. left. left. exact Hz. }
           symmetry. apply (newer_file G0 w z o Hnz).
        -- exact Hnown.
        -- cbn [c_want]. rewrite E2. exists x'. split; [exact E'|]. split; assumption.
Qed.


(* Plan::CleanNode keeps the invariant and never runs out of fuel *)
Theorem clean_node_spec : forall f, CN_spec f.
Proof.
  induction f as [|f IHf]; intros n x V U Q en HC Hrel Hp Hfuel Hle HB Hcase.
  - pose proof (Hwg n en Hp). lia.
  - cbn [clean_node].
    pose proof (cinv_clear x V U Q n en HC Hrel Hp HB Hcase) as C1.
    set (x1 := mkC (set_dirty (c_s x) n false) (c_want x)) in *.
    change (set_dirty (c_s x) n false) with (c_s x1).
    destruct (edges_loop f IHf n en (out_edges G0 (c_s x1) n) x1 V U (Qminus Q n) Hp Hfuel Hle) as [x' [E' [C' F']]].
    + intros e He. apply (out_edges_in x1 e n (ci_E _ _ _ _ _ _ C1)). exact He.
    + exact C1.
    + exists x'. split; [exact E'|]. split; [exact C'|]. split.
      * apply (frame_trans _ (fun m => m <> n) (low en) x x1 x'); [intros m [A _]; exact A|intros m [_ B]; exact B| |exact F'].
        apply frame_clear.
      * destruct (Fl x' n) eqn:Hd; [|reflexivity]. destruct F' as [_ [Ff _]]. pose proof (Ff n Hd) as Hx.
        unfold x1 in Hx. cbn [c_s] in Hx. rewrite nd_clear_same in Hx. discriminate.
Qed.

End Cascade.

(* ---- one statement has its turn *)
Lemma hinv_skip k st : HInv k st -> HInv (S k) st.
Proof.
  intros [A B C D E F]. constructor; try assumption. intros n e Hp Hk. apply (E n e Hp). lia.
Qed.

Lemma pend_S k e : pend (S k) e -> pend k e.
Proof. intros [H|[Hp Hk]]; [left; exact H|right; split; [exact Hp|lia]]. Qed.

Lemma cinv_skip k st x : HInv k st -> CInv k st x [] [] noN ->
  c_want x k = false \/ phony k = true -> CInv (S k) st x [] [] noN.
Proof.
  intros HH H Hk. destruct H as [cE cN1 cN2 cN3 cB cL cWm cIP cT1 cT2 cT3 cT4 cP].
  constructor; try assumption.
  - intros e Hw. destruct (cWm e Hw) as [A B0]. split; [exact A|]. intros HBe.
    destruct (B0 HBe) as [B|B]; [left; exact B|].
    destruct (Nat.eq_dec e k) as [->|Hne]; [|right; lia].
    destruct Hk as [Hk|Hk]; [congruence|left; exact Hk].
  - intros e o Hn Hpe. apply (cT1 e o Hn (pend_S k e Hpe)).
  - intros e o Hn Hpe. apply (cT2 e o Hn (pend_S k e Hpe)).
  - intros e Hn Hpe. apply (cT3 e Hn (pend_S k e Hpe)).
  - intros e Hn Hpe. apply (cT4 e Hn (pend_S k e Hpe)).
  - intros e o Hn Hph Hlt Ho. destruct (Nat.eq_dec e k) as [->|Hne]; [|apply (cP e o Hn Hph); [lia|exact Ho]].
    assert (Hw : c_want x k = false) by (destruct Hk as [Hk|Hk]; [exact Hk|congruence]).
    assert (Hpe : pend k k) by (right; split; [exact Hph|lia]).
    pose proof (cT1 k o Hn Hpe Hw Ho) as Hd. split; [intros Hd'; congruence|].
    intros _. apply (proj1 (hi_later k st HH o k (o_prod g Hwf k o Ho) (le_n k))).
Qed.

(* a blocked statement is skipped *)
Lemma cinv_skipB k st x : Bb k = true -> CInv k st x [] [] noN -> CInv (S k) st x [] [] noN.
Proof.
  intros HBk H. destruct H as [cE cN1 cN2 cN3 cB cL cWm cIP cT1 cT2 cT3 cT4 cP].
  constructor; try assumption.
  - intros e Hw. destruct (cWm e Hw) as [A B0]. split; [exact A|]. intros HBe.
    destruct (B0 HBe) as [B|B]; [left; exact B|]. right.
    destruct (Nat.eq_dec e k) as [->|Hne]; [congruence|lia].
  - intros e o Hn Hpe. apply (cT1 e o Hn (pend_S k e Hpe)).
  - intros e o Hn Hpe. apply (cT2 e o Hn (pend_S k e Hpe)).
  - intros e Hn Hpe. apply (cT3 e Hn (pend_S k e Hpe)).
  - intros e Hn Hpe. apply (cT4 e Hn (pend_S k e Hpe)).
  - intros e o Hn Hph Hlt Ho. apply (cP e o Hn Hph); [|exact Ho].
    destruct (Nat.eq_dec e k) as [->|Hne]; [destruct Hn as [_ Hn]; congruence|lia].
Qed.

(* the outputs the command of [k] left untouched *)
Definition Qk (k : nat) (st' : hstate) : node -> Prop :=
  fun o => In o (outs k) /\ h_disk st' o = h_disk st0 o.

Lemma run_inv k st x : (k < g_nedges g)%nat -> HInv k st -> CInv k st x [] [] noN ->
  c_want x k = true -> phony k = false -> Bb k = false ->
  let st' := run_edge cmd g st k in
  HInv (S k) st' /\ CInv (S k) st' (mkC (c_s x) (unwant (c_want x) k)) [] [] (Qk k st') /\
  (forall o, In o (outs k) -> mtime_of st' o <> 0) /\
  (ei_restat (g_edge g k) = false -> forall o, In o (outs k) -> h_clock st0 < mtime_of st' o).
Proof.
  intros Hk HH HC Hw Hph HBk. cbn zeta.
  pose proof HH as [HG Hh Hc Hleaf Hlater Hfresh].
  destruct HG as [[A [B [C [D E]]]] L].
  destruct (run_edge_spec cmd g st k A B) as [Hh' [Hc' [Hout [Hfs [Hd' [[m [Hm Hlog]] Hnr]]]]]]. cbn zeta in *.
  set (st' := run_edge cmd g st k) in *.
  destruct (ci_Wm _ _ _ _ _ _ HC k Hw) as [Hws _]. pose proof (wanted_ndd k Hws HBk) as Hn.
  assert (Hpk : pend k k) by (right; split; [exact Hph|lia]).
  assert (Hflk : forall o, In o (outs k) -> Fl x o = true).
  { intros o Ho. apply (ci_T2 _ _ _ _ _ _ HC k o Hn Hpk (fun F => F) Hw Ho). }
  assert (HH' : HInv (S k) st').
  { constructor.
    - apply (goodF_run cmd g Hwf Htopo st k (conj (conj A (conj B (conj C (conj D E)))) L) Hk Hph).
    - congruence.
    - lia.
    - intros n Hp. assert (Hno : ~ In n (outs k)) by (intros Hi; rewrite (o_prod g Hwf k n Hi) in Hp; discriminate).
      rewrite (proj1 (Hout n Hno)). apply (Hleaf n Hp).
    - intros n e Hp Hle. assert (Hno : ~ In n (outs k)) by (intros Hi; rewrite (o_prod g Hwf k n Hi) in Hp; inversion Hp; lia).
      destruct (Hout n Hno) as [E1 [E2 _]]. rewrite E1, E2. apply (Hlater n e Hp). lia.
    - intros n Hnb. destruct (Hfs n) as [Hs|[mx [Hx [Hmx _]]]].
      + rewrite Hs. apply (Hfresh n Hnb).
      + right. exists mx. eexists. split; [exact Hx|lia]. }
  split; [exact HH'|].
  (* the flags do not change; the world does, but not under a clean flag *)
  set (Pc := fun m => rel m /\ Fl x m = false).
  assert (Hsame : forall m, ~ In m (outs k) -> w_mtime (W st') m = w_mtime (W st) m /\ w_blog (W st') m = w_blog (W st) m).
  { intros y Hy. cbn [world_of w_mtime w_blog]. unfold mtime_of. destruct (Hout y Hy) as [E1 [E2 _]]. rewrite E1, E2. split; reflexivity. }
  assert (Hpc_no : forall m, Pc m -> ~ In m (outs k)).
  { intros y [_ Hd] Hi. rewrite (Hflk y Hi) in Hd. discriminate. }
  assert (Hpc_cl : forall n e i, Pc n -> g_producer G0 n = Some e -> ei_phony (g_edge G0 e) = true ->
                     In i (nonoo_ins G0 e) -> Pc i).
  { intros n e i [Hr Hd] Hp Hphe Hi. change (g_producer g n = Some e) in Hp. change (phony e = true) in Hphe.
    change (In i (nonoo_ins g e)) in Hi.
    assert (Hne : ndd e) by (unfold rel in Hr; rewrite Hp in Hr; exact Hr).
    split; [apply (rel_nonoo e i Hne Hi)|].
    assert (Hpe : pend k e).
    { left. split; [exact Hphe|]. intros Hnil. pose proof (nonoo_in g e i Hi) as Hx. rewrite Hnil in Hx. destruct Hx. }
    destruct (c_want x e) eqn:Hwe.
    - rewrite (ci_T2 _ _ _ _ _ _ HC e n Hne Hpe (fun F => F) Hwe (p_out g Hwf n e Hp)) in Hd. discriminate.
    - apply (proj1 (ci_T3 _ _ _ _ _ _ HC e Hne Hpe Hwe) i Hi). }
  assert (Hnew1 : forall z n, Pc n -> newer_than G0 (W st) z n -> newer_than G0 (W st') z n).
  { intros z n HP Hnw. apply (newer_agree G0 (W st) (W st') Pc); [| |exact Hnw|exact HP].
    - intros n' HP'. apply (proj1 (Hsame n' (Hpc_no n' HP'))).
    - intros n' e i HP' _. apply (Hpc_cl n' e i HP'). }
  assert (Hnew2 : forall z n, Pc n -> newer_than G0 (W st') z n -> newer_than G0 (W st) z n).
  { intros z n HP Hnw. apply (newer_agree G0 (W st') (W st) Pc); [| |exact Hnw|exact HP].
    - intros n' HP'. symmetry. apply (proj1 (Hsame n' (Hpc_no n' HP'))).
    - intros n' e i HP' _. apply (Hpc_cl n' e i HP'). }
  assert (Hmono : forall z n, newer_than G0 (W st) z n -> newer_than G0 (W st') z n).
  { apply (newer_mono G0 (W st) (W st')).
    - intros n. apply (mtime_leK st n A B).
    - intros n. cbn [world_of w_mtime]. unfold mtime_of. destruct (h_disk st' n) as [[mx c]|] eqn:Hx; [|lia].
      destruct (Hd' n mx c Hx). lia.
    - intros n Hnz. cbn [world_of w_mtime] in *. unfold mtime_of in *. destruct (Hfs n) as [Hs|[mx [Hx [Hmx _]]]].
      + rewrite Hs. lia.
      + rewrite Hx. destruct (h_disk st n) as [[m0 c0]|] eqn:H0; [|contradiction]. destruct (B n m0 c0 H0). lia.
    - intros n e Hz Hp Hphe. change (g_producer g n = Some e) in Hp. change (phony e = true) in Hphe.
      assert (Hno : ~ In n (outs k)) by (intros Hi; rewrite (o_prod g Hwf k n Hi) in Hp; inversion Hp; congruence).
      rewrite (proj1 (Hsame n Hno)). exact Hz. }
  assert (Hout_same : forall e o, e <> k -> In o (outs e) ->
            w_mtime (W st') o = w_mtime (W st) o /\ w_blog (W st') o = w_blog (W st) o).
  { intros e o Hne Ho. apply Hsame. intros Hi. pose proof (o_prod g Hwf e o Ho) as H1. rewrite (o_prod g Hwf k o Hi) in H1. congruence. }
  assert (Hpend_ne : forall e, pend (S k) e -> e <> k).
  { intros e [[Hp _]|[_ Hle]] ->; [congruence|lia]. }
  split; [|split].
  - destruct HC as [cE cN1 cN2 cN3 cB cL cWm cIP cT1 cT2 cT3 cT4 cP].
    constructor; cbn [c_s c_want]; try assumption.
    + intros n Hr Hd z. rewrite (cB n Hr Hd z). split; [apply (Hnew1 z n (conj Hr Hd))|apply (Hnew2 z n (conj Hr Hd))].
    + intros e Hwe. destruct (Nat.eq_dec e k) as [Heq|Hne]; [subst e; rewrite unwant_same in Hwe; discriminate|].
      rewrite (unwant_other _ _ _ Hne) in Hwe. destruct (cWm e Hwe) as [X Y0]. split; [exact X|]. intros HBe.
      destruct (Y0 HBe) as [Y|Y]; [left; exact Y|right; lia].
    + intros e o Hne Hpe Hwe Ho. pose proof (Hpend_ne e Hpe) as Hek. rewrite (unwant_other _ _ _ Hek) in Hwe.
      apply (cT1 e o Hne (pend_S k e Hpe) Hwe Ho).
    + intros e o Hne Hpe Hv Hwe Ho. pose proof (Hpend_ne e Hpe) as Hek. rewrite (unwant_other _ _ _ Hek) in Hwe.
      apply (cT2 e o Hne (pend_S k e Hpe) Hv Hwe Ho).
    + intros e Hne Hpe Hwe. pose proof (Hpend_ne e Hpe) as Hek. rewrite (unwant_other _ _ _ Hek) in Hwe.
      destruct (cT3 e Hne (pend_S k e Hpe) Hwe) as [X Y]. split; [exact X|].
      intros [Hphe [o [Ho Hr]]]. apply Y. split; [exact Hphe|]. exists o. split; [exact Ho|].
      destruct (Hout_same e o Hek Ho) as [E1 E2].
      apply (out_reason_transfer g st0 (W st') (W st)
               (fun z => exists i, In i (nonoo_ins g e) /\ newer_than G0 (W st') z i)
               (fun z => exists i, In i (nonoo_ins g e) /\ newer_than G0 (W st) z i) e o (eq_sym E1) (eq_sym E2)); [|exact Hr].
      intros z [i [Hi Hz]]. exists i. split; [exact Hi|].
      apply (Hnew2 z i (conj (rel_nonoo e i Hne Hi) (X i Hi)) Hz).
    + intros e Hne Hpe Hv Hu Hwe. pose proof (Hpend_ne e Hpe) as Hek. rewrite (unwant_other _ _ _ Hek) in Hwe.
      destruct (cT4 e Hne (pend_S k e Hpe) Hv Hu Hwe) as [X|[Hphe [o [Ho Hr]]]]; [left; exact X|right].
      split; [exact Hphe|]. exists o. split; [exact Ho|]. destruct (Hout_same e o Hek Ho) as [E1 E2].
      apply (out_reason_transfer g st0 (W st) (W st')
               (fun z => exists i, In i (nonoo_ins g e) /\ newer_than G0 (W st) z i)
               (fun z => exists i, In i (nonoo_ins g e) /\ newer_than G0 (W st') z i) e o E1 E2); [|exact Hr].
      intros z [i [Hi Hz]]. exists i. split; [exact Hi|apply (Hmono z i Hz)].
    + intros e o Hne Hphe Hlt Ho. destruct (Nat.eq_dec e k) as [Heq|Hek].
      * subst e. split; [|intros Hd; rewrite (Hflk o Ho) in Hd; discriminate].
        intros _. destruct (Hfs o) as [Hs|[mx [Hx [Hmx _]]]].
        -- left. split; [exact Ho|]. rewrite Hs. apply (proj1 (Hlater o k (o_prod g Hwf k o Ho) (le_n k))).
        -- right. unfold mtime_of. rewrite Hx. lia.
      * assert (Hno : ~ In o (outs k)).
        { intros Hi. pose proof (o_prod g Hwf e o Ho) as H1. rewrite (o_prod g Hwf k o Hi) in H1. congruence. }
        destruct (cP e o Hne Hphe ltac:(lia) Ho) as [X Y]. unfold mtime_of in *. rewrite (proj1 (Hout o Hno)). split.
        -- intros Hd. destruct (X Hd) as [[]|Hf]. right. exact Hf.
        -- exact Y.
  - intros o Ho. destruct (Hlog o Ho) as [_ [_ [mo Hdo]]]. unfold mtime_of. rewrite Hdo. destruct (Hd' o mo _ Hdo). lia.
  - intros Hr o Ho. destruct (Hnr Hr o Ho) as [mo [Hdo Hlt]]. unfold mtime_of. rewrite Hdo. lia.
Qed.

(* the restat loop of FinishCommand *)
Lemma restat_inv k st' x :
  (k < g_nedges g)%nat -> HInv (S k) st' -> ndd k -> phony k = false ->
  (forall o, In o (outs k) -> mtime_of st' o <> 0) ->
  (ei_restat (g_edge g k) = false -> forall o, In o (outs k) -> h_clock st0 < mtime_of st' o) ->
  CInv (S k) st' x [] [] (Qk k st') ->
  exists x', restat_clean (G st') (W st') k x = Some x' /\ CInv (S k) st' x' [] [] noN.
Proof.
  intros Hk HH Hn Hph Hnz Hnr HC. rewrite (G_hash_eq g st0 st' (hi_hash _ _ HH)).
  destruct HG0 as [S0 _].
  assert (Hold : forall o, h_disk st' o = h_disk st0 o -> mtime_of st' o <= h_clock st0).
  { intros o Ho. unfold mtime_of. rewrite Ho. apply (mtime_leK st0 o (proj1 S0) (proj1 (proj2 S0))). }
  unfold restat_clean. change (ei_restat (g_edge G0 k)) with (ei_restat (g_edge g k)).
  destruct (ei_restat (g_edge g k)) eqn:Hr.
  2:{ exists x. split; [reflexivity|]. apply (cinv_weaken_Q (S k) st' x [] [] (Qk k st') noN); [|exact HC].
      intros m [Hm Hd]. specialize (Hnr eq_refl m Hm). specialize (Hold m Hd). lia. }
  change (ei_outs (g_edge G0 k)) with (outs k).
  set (Qos := fun (os : list node) (o : node) => In o os /\ h_disk st' o = h_disk st0 o).
  assert (Hloop : forall os y, incl os (outs k) ->
            CInv (S k) st' y [] [] (Qos os) ->
            exists x', ofold (fun o y0 => if Z.eqb (ns_mtime (nd (c_s y0) o)) (w_mtime (W st') o)
                                          then clean_node G0 (W st') (clean_fuel G0) o y0 else Some y0) os y = Some x' /\
                       CInv (S k) st' x' [] [] noN).
  { induction os as [|o os IH]; intros y Hinc Hy.
    - exists y. split; [reflexivity|]. apply (cinv_weaken_Q (S k) st' y [] [] (Qos []) noN); [intros m [[] _]|exact Hy].
    - cbn [ofold]. assert (Ho : In o (outs k)) by (apply Hinc; left; reflexivity).
      pose proof (rel_out k o Hn Ho) as Hrel. pose proof (o_prod g Hwf k o Ho) as Hpo.
      assert (Hc : ns_mtime (nd (c_s y) o) = mtime_of st0 o).
      { apply (ci_N2 _ _ _ _ _ _ Hy o Hrel). intros e' He'. rewrite Hpo in He'. inversion He'; subst. exact Hph. }
      rewrite Hc. cbn [world_of w_mtime].
      destruct (Z.eqb_spec (mtime_of st0 o) (mtime_of st' o)) as [Heq|Hneq].
      + assert (Hsame : h_disk st' o = h_disk st0 o).
        { destruct (hi_fresh _ _ HH o (fun e0 He0 => ltac:(rewrite Hpo in He0; inversion He0; subst e0; exact (proj2 Hn))))
            as [Hs|[mx [c [Hx Hlt]]]]; [exact Hs|].
          exfalso. pose proof (mtime_leK st0 o (proj1 S0) (proj1 (proj2 S0))). unfold mtime_of in Heq at 2. rewrite Hx in Heq. lia. }
        destruct (clean_node_spec (S k) st' HH (clean_fuel G0) o y [] [] (Qos (o :: os)) k Hy Hrel Hpo) as [y1 [E1 [C1 _]]].
        * unfold clean_fuel. change (g_nedges G0) with (g_nedges g). lia.
        * intros v [].
        * intros z. rewrite Hc, Heq. symmetry. apply (newer_file G0 (W st') z o). exact (Hnz o Ho).
        * left. split; [split; [left; reflexivity|exact Hsame]|]. split; [exact Hph|]. split; [lia|exact Hsame].
        * rewrite E1. apply (IH y1 (fun o' Ho' => Hinc o' (or_intror Ho'))).
          apply (cinv_weaken_Q (S k) st' y1 [] [] (Qminus (Qos (o :: os)) o) (Qos os)); [|exact C1].
          intros m [[[Hm|Hm] Hd] Hne]; [exfalso; apply Hne; symmetry; exact Hm|split; assumption].
      + apply (IH y (fun o' Ho' => Hinc o' (or_intror Ho'))).
        apply (cinv_weaken_Q (S k) st' y [] [] (Qos (o :: os)) (Qos os)); [|exact Hy].
        intros m [[Hm|Hm] Hd]; [|split; assumption].
        exfalso. subst m. apply Hneq. unfold mtime_of. rewrite Hd. reflexivity. }
  apply (Hloop (outs k) x (incl_refl _)). exact HC.
Qed.

Lemma build_upto_f_S s p k st :
  build_upto_f cmd g s p (S k) st = build_step_f cmd g (build_upto_f cmd g s p k st) k.
Proof. unfold build_upto_f. rewrite seq_S, fold_left_app. reflexivity. Qed.

(* one command runs and succeeds *)
Lemma run_step k st x : (k < g_nedges g)%nat -> HInv k st -> CInv k st x [] [] noN ->
  c_want x k = true -> phony k = false -> Bb k = false ->
  exists x', build_step_f cmd g (Some (st, x)) k = Some (run_edge cmd g st k, x') /\
             HInv (S k) (run_edge cmd g st k) /\ CInv (S k) (run_edge cmd g st k) x' [] [] noN.
Proof.
  intros Hk HH HC Hw Hph HBk. unfold build_step_f, dirty_now_f. rewrite Hw, Hph. cbn [negb andb].
  destruct (run_inv k st x Hk HH HC Hw Hph HBk) as [HH' [HC' [Hnz Hnr]]]. cbn zeta in *.
  destruct (ci_Wm _ _ _ _ _ _ HC k Hw) as [Hws _].
  destruct (restat_inv k (run_edge cmd g st k) _ Hk HH' (wanted_ndd k Hws HBk) Hph Hnz Hnr HC') as [x' [E' C']].
  rewrite E'. exists x'. split; [reflexivity|]. split; assumption.
Qed.

(* one command fails: [Bb] is the blocked set AFTER the failure (it contains [k]); plan and flags
   stay as they are, the disk changes below [k] only *)
Lemma fail_inv k st st' x : (k < g_nedges g)%nat -> HInv k st -> CInv k st x [] [] noN -> Bb k = true ->
  GoodF cmd g st' -> h_hash st' = h_hash st -> h_clock st <= h_clock st' ->
  (forall n, ~ In n (outs k) -> h_disk st' n = h_disk st n /\ h_blog st' n = h_blog st n) ->
  HInv (S k) st' /\ CInv (S k) st' x [] [] noN.
Proof.
  intros Hk HH HC HBk HG' Hh' Hc' Hout.
  pose proof HH as [HG Hh Hc Hleaf Hlater Hfresh].
  assert (Hno : forall n e, g_producer g n = Some e -> e <> k -> ~ In n (outs k)).
  { intros n e Hp Hne Hin. rewrite (o_prod g Hwf k n Hin) in Hp. inversion Hp. congruence. }
  assert (Hrel_no : forall n, rel n -> ~ In n (outs k)).
  { intros n Hr Hin. unfold rel in Hr. rewrite (o_prod g Hwf k n Hin) in Hr. destruct Hr as [_ HB]. congruence. }
  split.
  - constructor.
    + exact HG'.
    + congruence.
    + lia.
    + intros n Hp. assert (Hn : ~ In n (outs k)) by (intros Hin; rewrite (o_prod g Hwf k n Hin) in Hp; discriminate).
      rewrite (proj1 (Hout n Hn)). apply (Hleaf n Hp).
    + intros n e Hp Hle. destruct (Hout n (Hno n e Hp ltac:(lia))) as [E1 E2]. rewrite E1, E2. apply (Hlater n e Hp). lia.
    + intros n Hnb. assert (Hn : ~ In n (outs k)).
      { intros Hin. pose proof (Hnb k (o_prod g Hwf k n Hin)). congruence. }
      rewrite (proj1 (Hout n Hn)). apply (Hfresh n Hnb).
  - assert (Hsame : forall m, ~ In m (outs k) ->
              w_mtime (W st') m = w_mtime (W st) m /\ w_blog (W st') m = w_blog (W st) m).
    { intros y Hy. cbn [world_of w_mtime w_blog]. unfold mtime_of. destruct (Hout y Hy) as [E1 E2]. rewrite E1, E2. split; reflexivity. }
    assert (Hcl : forall n e i, rel n -> g_producer G0 n = Some e -> ei_phony (g_edge G0 e) = true ->
                    In i (nonoo_ins G0 e) -> rel i).
    { intros n e i Hr Hp _ Hi. change (g_producer g n = Some e) in Hp. change (In i (nonoo_ins g e)) in Hi.
      apply (rel_nonoo e i); [unfold rel in Hr; rewrite Hp in Hr; exact Hr|exact Hi]. }
    assert (Hn1 : forall z n, rel n -> newer_than G0 (W st) z n -> newer_than G0 (W st') z n).
    { intros z n Hr Hnw. apply (newer_agree G0 (W st) (W st') rel); [| |exact Hnw|exact Hr].
      - intros n' Hr'. apply (proj1 (Hsame n' (Hrel_no n' Hr'))).
      - intros n' e i Hr' _. apply (Hcl n' e i Hr'). }
    assert (Hn2 : forall z n, rel n -> newer_than G0 (W st') z n -> newer_than G0 (W st) z n).
    { intros z n Hr Hnw. apply (newer_agree G0 (W st') (W st) rel); [| |exact Hnw|exact Hr].
      - intros n' Hr'. symmetry. apply (proj1 (Hsame n' (Hrel_no n' Hr'))).
      - intros n' e i Hr' _. apply (Hcl n' e i Hr'). }
    assert (Hek : forall e, ndd e -> e <> k) by (intros e [_ He] ->; congruence).
    destruct HC as [cE cN1 cN2 cN3 cB cL cWm cIP cT1 cT2 cT3 cT4 cP].
    constructor; try assumption.
    + intros n Hr Hd z. rewrite (cB n Hr Hd z). split; [apply (Hn1 z n Hr)|apply (Hn2 z n Hr)].
    + intros e Hw. destruct (cWm e Hw) as [A B0]. split; [exact A|]. intros HBe.
      destruct (B0 HBe) as [B|B]; [left; exact B|right].
      destruct (Nat.eq_dec e k) as [->|Hne]; [congruence|lia].
    + intros e o Hn Hpe. apply (cT1 e o Hn (pend_S k e Hpe)).
    + intros e o Hn Hpe. apply (cT2 e o Hn (pend_S k e Hpe)).
    + intros e Hn Hpe Hw. destruct (cT3 e Hn (pend_S k e Hpe) Hw) as [X Y]. split; [exact X|].
      intros [Hphe [o [Ho Hr]]]. apply Y. split; [exact Hphe|]. exists o. split; [exact Ho|].
      destruct (Hsame o (Hno o e (o_prod g Hwf e o Ho) (Hek e Hn))) as [E1 E2].
      apply (out_reason_transfer g st0 (W st') (W st)
               (fun z => exists i, In i (nonoo_ins g e) /\ newer_than G0 (W st') z i)
               (fun z => exists i, In i (nonoo_ins g e) /\ newer_than G0 (W st) z i) e o (eq_sym E1) (eq_sym E2)); [|exact Hr].
      intros z [i [Hi Hz]]. exists i. split; [exact Hi|apply (Hn2 z i (rel_nonoo e i Hn Hi) Hz)].
    + intros e Hn Hpe Hv Hu Hw.
      destruct (cT4 e Hn (pend_S k e Hpe) Hv Hu Hw) as [X|[Hphe [o [Ho Hr]]]]; [left; exact X|right].
      split; [exact Hphe|]. exists o. split; [exact Ho|].
      destruct (Hsame o (Hno o e (o_prod g Hwf e o Ho) (Hek e Hn))) as [E1 E2].
      apply (out_reason_transfer g st0 (W st) (W st')
               (fun z => exists i, In i (nonoo_ins g e) /\ newer_than G0 (W st) z i)
               (fun z => exists i, In i (nonoo_ins g e) /\ newer_than G0 (W st') z i) e o E1 E2); [|exact Hr].
      intros z [i [Hi Hz]]. exists i. split; [exact Hi|apply (Hn1 z i (rel_nonoo e i Hn Hi) Hz)].
    + intros e o Hn Hph Hlt Ho. pose proof (Hek e Hn) as Hne.
      destruct (cP e o Hn Hph ltac:(lia) Ho) as [X Y]. unfold mtime_of in *.
      rewrite (proj1 (Hout o (Hno o e (o_prod g Hwf e o Ho) Hne))). split; assumption.
Qed.

(* ---- with no input-less phony statement: the decision of the faithful loop is the one of the re-scan *)
Section Eq.
Hypothesis Hnip : no_inputless_phony g = true.

(* an input that still carries the flag when the consumer's turn comes is newer than anything
   recorded before this invocation *)
Lemma flag_hot k st x : HInv k st -> CInv k st x [] [] noN ->
  forall e, ndd e -> want_start p0 e = true ->
  forall i, In i (nonoo_ins g e) -> Fl x i = true -> below g k i ->
  forall z, z <= h_clock st0 -> newer_than G0 (W st) z i.
Proof.
  intros HH HC. induction e as [e IH] using lt_wf_ind. intros Hn Hws i Hi Hd Hb z Hz.
  pose proof (ndd_lt e Hn) as He. pose proof (rel_nonoo e i Hn Hi) as Hrel.
  destruct (g_producer g i) as [e'|] eqn:Hpi.
  - assert (Hlt : (e' < e)%nat).
    { pose proof (in_below g Htopo e i He (nonoo_in g e i Hi)) as Hx. unfold below in Hx. rewrite Hpi in Hx. exact Hx. }
    assert (Hk' : (e' < k)%nat) by (unfold below in Hb; rewrite Hpi in Hb; exact Hb).
    assert (Hn' : ndd e') by (unfold rel in Hrel; rewrite Hpi in Hrel; exact Hrel).
    destruct (phony e') eqn:Hph.
    + assert (Hne : ei_ins (g_edge g e') <> []).
      { intros Hnil. apply (nip_edge g e' Hnip (ndd_lt e' Hn')). split; assumption. }
      assert (Hpe : pend k e') by (left; split; assumption).
      assert (Hw : c_want x e' = true).
      { destruct (c_want x e') eqn:Hw; [reflexivity|].
        rewrite (ci_T1 _ _ _ _ _ _ HC e' i Hn' Hpe Hw (p_out g Hwf i e' Hpi)) in Hd. discriminate. }
      destruct (ci_T4 _ _ _ _ _ _ HC e' Hn' Hpe (fun F => F) (fun F => F) Hw) as [[i' [Hi' Hd']]|[Hf _]]; [|congruence].
      apply (nt_phony G0 (W st) z i e' i'); [| exact Hpi|exact Hph|exact Hi'|].
      * destruct (hi_good _ _ HH) as [[_ [_ [_ [D _]]]] _]. cbn [world_of w_mtime]. unfold mtime_of.
        rewrite (D i e' Hpi Hph). reflexivity.
      * apply (IH e' Hlt Hn' (proj1 (ci_Wm _ _ _ _ _ _ HC e' Hw)) i' Hi' Hd'); [|exact Hz].
        apply (below_mono g e' k i'); [lia|]. apply (in_below g Htopo e' i' (ndd_lt e' Hn') (nonoo_in g e' i' Hi')).
    + destruct (proj1 (ci_P _ _ _ _ _ _ HC e' i Hn' Hph Hk' (p_out g Hwf i e' Hpi)) Hd) as [[]|Hf].
      apply nt_file; cbn [world_of w_mtime]; [|lia].
      destruct HG0 as [[A0 _] _]. lia.
  - exfalso.
    destruct (want_sound g Hwf Hwg Hfrag st0 T s0 p0 Hscan e Hws) as [_ Hmd].
    destruct (want_complete g Hwf Hwg Hfrag st0 T s0 p0 Hscan e (proj1 Hn) Hmd (nip_edge g e Hnip He)) as [_ Hl].
    apply (Hl i (nonoo_in g e i Hi) Hpi). apply (ci_L _ _ _ _ _ _ HC i Hrel Hpi). exact Hd.
Qed.

Lemma decision k st x : (k < g_nedges g)%nat -> HInv k st -> CInv k st x [] [] noN -> phony k = false ->
  Bb k = false ->
  (want_start p0 k = true -> exists s p, scan (G st) (W st) (outs k) = ScanOk s p) ->
  (ndd k -> forall i, In i (nonoo_ins g k) -> ~ must_dirty G0 (W st) i) ->
  c_want x k = (want_start p0 k && dirty_now g st k)%bool.
Proof.
  intros Hk HH HC Hph HBk Hre Hic.
  assert (HGeq : G st = G0) by (apply G_hash_eq; apply (hi_hash _ _ HH)).
  assert (Hpk : pend k k) by (right; split; [exact Hph|lia]).
  destruct (c_want x k) eqn:Hw.
  - destruct (ci_Wm _ _ _ _ _ _ HC k Hw) as [Hws _]. rewrite Hws. cbn [andb]. symmetry.
    pose proof (wanted_ndd k Hws HBk) as Hn.
    assert (Hown : OWNx (W st) k).
    { destruct (ci_T4 _ _ _ _ _ _ HC k Hn Hpk (fun F => F) (fun F => F) Hw) as [[i [Hi Hd]]|Ho]; [|exact Ho].
      split; [exact Hph|]. destruct (ndd_out k Hn) as [o [Ho Hpo]]. exists o. split; [exact Ho|].
      destruct (hi_later _ _ HH o k Hpo (le_n k)) as [Ed Eb].
      destruct HG0 as [[A0 [B0 [C0 [D0 E0]]]] _].
      destruct (h_disk st0 o) as [[mo c]|] eqn:Hd0.
      - destruct (h_blog st0 o) as [[h m]|] eqn:Hb0.
        2:{ (* a tainted output without log entry (GoodF): "older than an input" *)
            right. left. split.
            - unfold used_restat. cbn [world_of w_blog]. rewrite Eb. apply andb_false_r.
            - exists i. split; [exact Hi|].
              apply (flag_hot k st x HH HC k Hn Hws i Hi Hd (in_below g Htopo k i Hk (nonoo_in g k i Hi))).
              cbn [world_of w_mtime]. unfold mtime_of. rewrite Ed. destruct (B0 o mo c Hd0). lia. }
        right. right. cbn [world_of w_blog]. rewrite Eb. exists i. split; [exact Hi|].
        apply (flag_hot k st x HH HC k Hn Hws i Hi Hd (in_below g Htopo k i Hk (nonoo_in g k i Hi))).
        apply (C0 o h m Hb0).
      - left. left. cbn [world_of w_mtime]. unfold mtime_of. rewrite Ed. reflexivity. }
    destruct (own_md (W st) k Hk Hown) as [o [Ho Hmd]].
    unfold dirty_now. rewrite HGeq.
    destruct (scan G0 (W st) (outs k)) as [c|m d|e'| |s p] eqn:Hs; try reflexivity.
    apply existsb_exists. exists o. split; [exact Ho|].
    assert (Hr : reach G0 (outs k) o) by (apply reach_target; exact Ho).
    apply (proj1 (scan_reach_ok G0 (W st) (Gwf0 st0) (Gwg0 st0) (Gfrag0 st0) (outs k) s p Hs o Hr)). exact Hmd.
  - destruct (want_start p0 k) eqn:Hws; [|reflexivity]. cbn [andb]. symmetry.
    pose proof (wanted_ndd k Hws HBk) as Hn.
    destruct (Hre eq_refl) as [s [p Hs]].
    unfold dirty_now. rewrite Hs.
    destruct (existsb (fun o => ns_dirty (nd s o)) (outs k)) eqn:Hex; [exfalso|reflexivity].
    apply existsb_exists in Hex. destruct Hex as [o [Ho Hd]].
    assert (Hr : reach (G st) (outs k) o) by (apply reach_target; exact Ho).
    pose proof (proj1 (proj1 (scan_reach_ok (G st) (W st) (Gwf0 st) (Gwg0 st) (Gfrag0 st) (outs k) s p Hs o Hr)) Hd) as Hmd.
    rewrite HGeq in Hmd.
    destruct (md_cases (W st) k o Hk Ho Hmd) as [[i [Hi Hdi]]|[Hip|Hown]].
    + apply (Hic Hn i Hi Hdi).
    + destruct Hip as [Hp' _]. congruence.
    + apply (proj2 (ci_T3 _ _ _ _ _ _ HC k Hn Hpk Hw) Hown).
Qed.

End Eq.
End Build.

(* the invariants survive a growing blocked set *)
Lemma hinv_anti st0 (B B' : edge -> bool) k st :
  (forall e, B e = true -> B' e = true) -> HInv st0 B k st -> HInv st0 B' k st.
Proof.
  intros Hs [A1 A2 A3 A4 A5 A6]. constructor; try assumption.
  intros n Hn. apply A6. intros e He. destruct (B e) eqn:E; [|reflexivity].
  pose proof (Hn e He) as H. rewrite (Hs e E) in H. discriminate.
Qed.

Lemma cinv_anti st0 T s0 p0 (B B' : edge -> bool) k st x V U Q :
  (forall e, B e = true -> B' e = true) ->
  CInv st0 T s0 p0 B k st x V U Q -> CInv st0 T s0 p0 B' k st x V U Q.
Proof.
  intros Hs H.
  assert (Hf : forall e, B' e = false -> B e = false).
  { intros e He. destruct (B e) eqn:E; [rewrite (Hs e E) in He; discriminate|reflexivity]. }
  assert (Hn : forall e, needed g T e /\ B' e = false -> needed g T e /\ B e = false).
  { intros e [X Y]. split; [exact X|apply Hf; exact Y]. }
  assert (Hr : forall n, rel T B' n -> rel T B n).
  { unfold rel. intros n. destruct (g_producer g n); [apply Hn|auto]. }
  destruct H as [cE cN1 cN2 cN3 cB cL cWm cIP cT1 cT2 cT3 cT4 cP]. constructor.
  - exact cE.
  - intros n H1. apply (cN1 n (Hr n H1)).
  - intros n H1. apply (cN2 n (Hr n H1)).
  - intros n e Hp H1. apply (cN3 n e Hp (Hn e H1)).
  - intros n H1. apply (cB n (Hr n H1)).
  - intros n H1. apply (cL n (Hr n H1)).
  - intros e Hw. destruct (cWm e Hw) as [A B0]. split; [exact A|]. intros HB. apply B0. apply Hf. exact HB.
  - intros e o H1. apply (cIP e o (Hn e H1)).
  - intros e o H1. apply (cT1 e o (Hn e H1)).
  - intros e o H1. apply (cT2 e o (Hn e H1)).
  - intros e H1. apply (cT3 e (Hn e H1)).
  - intros e H1. apply (cT4 e (Hn e H1)).
  - intros e o H1. apply (cP e o (Hn e H1)).
Qed.

End Faith.
End GK.

(* ================================================================== Part K *)
Section KFaith.
Variable cmd : edge -> N -> snapshot -> node -> content.
Variable g : graph.
Hypothesis Hwf : wf_spec g.
Hypothesis Hwg : wf_graph g.
Hypothesis Hfrag : frag_AB g = true.
Hypothesis Htopo : topo_ordered g = true.
Hypothesis Hnip : no_inputless_phony g = true.

Notation G st := (graph_of g st).
Notation W st := (world_of st).
Notation outs e := (ei_outs (g_edge g e)).
Notation phony e := (ei_phony (g_edge g e)).

(* the blocked list of the loop is [blocked_of] of the failed statements *)
Lemma dep_blocked F f : In f F -> forall d, depends_on g f d -> (d < g_nedges g)%nat -> blocked_of g F d = true.
Proof.
  intros Hf d Hd. induction Hd as [d i Hi Hp|d i e' Hi Hp Hd IH]; intros Hlt.
  - apply (blocked_of_closed g Htopo F d i f Hlt Hi Hp). apply (blocked_of_in g Htopo F f (Hwg i f Hp) Hf).
  - apply (blocked_of_closed g Htopo F d i e' Hlt Hi Hp). apply IH. apply (Hwg i e' Hp).
Qed.

Lemma blocked_dep F : forall e, (e < g_nedges g)%nat -> blocked_of g F e = true ->
  exists f, In f F /\ (f = e \/ depends_on g f e).
Proof.
  induction e as [e IH] using lt_wf_ind. intros He HB.
  rewrite (blocked_of_spec g Htopo F e He) in HB. apply orb_true_iff in HB. destruct HB as [HB|HB].
  - exists e. split; [apply (proj1 (mem_node_In e F) HB)|left; reflexivity].
  - apply existsb_exists in HB. destruct HB as [i [Hi HBi]].
    destruct (g_producer g i) as [u|] eqn:Hp; [|discriminate].
    pose proof (in_below g Htopo e i He Hi) as Hb. unfold below in Hb. rewrite Hp in Hb.
    destruct (IH u Hb (Hwg i u Hp) HBi) as [f [Hf Hfu]]. exists f. split; [exact Hf|right].
    apply (dep_step g f e i u Hi Hp). destruct Hfu as [->|Hd]; [left; reflexivity|right; exact Hd].
Qed.

(* the re-scan of a statement of the plan is accepted in every state that differs from the start of
   the invocation only below wanted real statements that had their turn (HistMinimal.reeval_accepts) *)
Lemma reeval_frame st0 T s0 p k st :
  scan (G st0) (W st0) T = ScanOk s0 p -> (k < g_nedges g)%nat ->
  Frame g st0 p k st -> h_hash st = h_hash st0 -> want_start p k = true ->
  exists s p', scan (G st) (W st) (outs k) = ScanOk s p'.
Proof.
  intros Hscan Hk Hf Hh Hw. rewrite (G_hash_eq g st0 st Hh).
  destruct (accepted_facts (G st0) (W st0) Hwf Hwg Hfrag T s0 p Hscan)
    as [HS0 [HR0 [[P0 [P1 [P2 P3]]] HT]]].
  apply want_start_iff in Hw.
  assert (Hwd : wantd p k) by (unfold wantd; rewrite Hw; discriminate).
  destruct (P1 k Hwd) as [Hdone _].
  destruct (scan (G st0) (W st) (outs k)) as [c|m d|e| |s p'] eqn:H.
  - exfalso. apply (C17_no_false_positive (G st0) (W st) (outs k)
                      (topo_acyclic (G st0) (W st) Hwg Hfrag Htopo) c H).
  - exfalso.
    destruct (scan_missing_sound (G st0) (W st) Hwf Hwg Hfrag Htopo (outs k) m d H)
      as [t [Ht [Hc [Hpm Hz]]]].
    assert (Hpt : g_producer g t = Some k) by (apply (o_prod g Hwf k t Ht)).
    apply (chain_not_missing (G st0) (W st0) Hwf Hwg Hfrag T s0 p
             (HistMinimal.unready (G st0) (W st)) Hscan) with (n := t) (m := m).
    + intros e [e' [o [Hde [Ho Hmd]]]] He Hm Hr.
      apply (clean_stable g Hwf Hwg Hfrag st0 (W st0) (W st)
               (frame_clean g Hwf Hwg Hfrag st0 T s0 p Hscan k st Hf) o Hmd).
      intros Hmd0.
      pose proof (unready_notready (G st0) (W st0) Hwf Hwg s0 HS0 HR0 Hnip
                    e e' Hde He Hm (ex_intro _ o (conj Ho Hmd0))) as Hr'.
      congruence.
    + exact Hc.
    + unfold node_final. change (g_producer (G st0) t) with (g_producer g t). rewrite Hpt. exact Hdone.
    + unfold post. change (g_producer (G st0) t) with (g_producer g t). rewrite Hpt.
      intros _. split; [exact Hwd|intros _; exact Hw].
    + change (g_producer (G st0) t) with (g_producer g t). rewrite Hpt. discriminate.
    + exact Hpm.
    + change (g_producer (G st0) m) with (g_producer g m) in Hpm.
      cbn [world_of w_mtime] in *. unfold mtime_of in *.
      rewrite <- (frame_leaf g st0 p k st m Hf Hpm). exact Hz.
  - exfalso. unfold scan in H.
    apply (add_targets_no_loaderr (G st0) (W st) Hwf Hwg Hfrag (outs k)
             (init_state (G st0)) init_plan e H (SInv_init (G st0) (W st))).
  - exfalso. apply (scan_fuel_sufficient (G st0) (W st) Hwg (outs k) H).
  - exists s, p'. reflexivity.
Qed.

Lemma build_uptoK_f_S fs s p b k st :
  build_uptoK_f cmd g fs s p b (S k) st = build_stepK_f cmd g fs (build_uptoK_f cmd g fs s p b k st) k.
Proof. unfold build_uptoK_f. rewrite seq_S, fold_left_app. reflexivity. Qed.

Section Loop.
Variables (fs : faults) (p : plan) (b : option nat) (st0 : hstate) (T : list node) (s0 : sstate).
Hypothesis HG0 : GoodF cmd g st0.
Hypothesis Hscan : scan (G st0) (W st0) T = ScanOk s0 p.

Notation acc k := (build_uptoK cmd g fs p b k st0).
Notation stk k := (k_st (build_uptoK cmd g fs p b k st0)).
Notation blk k := (k_blocked (build_uptoK cmd g fs p b k st0)).
Notation BB k := (blocked_of g (failed_edges (build_uptoK cmd g fs p b k st0))).
Notation HInvK B k st := (GK.HInv cmd g st0 B k st).
Notation CInvK B k st x := (GK.CInv g st0 T s0 p B k st x [] [] GK.noN).

Lemma blk_iff k l : InvK cmd g fs p b st0 k (acc k) l -> forall e, (e < k)%nat -> (e < g_nedges g)%nat ->
  (In e (blk k) <-> BB k e = true).
Proof.
  intros HI e Hek He. rewrite (ik_blk _ _ _ _ _ _ _ _ _ HI e). split.
  - intros [_ [f [Hf [->|Hd]]]]; [apply (blocked_of_in g Htopo _ e He Hf)|apply (dep_blocked _ f Hf e Hd He)].
  - intros HB. split; [exact Hek|]. apply (blocked_dep _ e He HB).
Qed.

(* the statement whose turn it is, with no blocked input, is not in the blocked set *)
Lemma turn_unblocked k l : InvK cmd g fs p b st0 k (acc k) l -> (k < g_nedges g)%nat ->
  blocked_input g (blk k) k = false -> BB k k = false.
Proof.
  intros HI Hk Hbi. destruct (BB k k) eqn:HB; [exfalso|reflexivity].
  rewrite (blocked_of_spec g Htopo _ k Hk) in HB. apply orb_true_iff in HB. destruct HB as [HB|HB].
  - apply mem_node_In in HB. pose proof (failed_lt cmd g fs p b st0 k (acc k) l k HI HB). lia.
  - apply existsb_exists in HB. destruct HB as [i [Hi HBi]].
    destruct (g_producer g i) as [u|] eqn:Hp; [|discriminate].
    pose proof (in_below g Htopo k i Hk Hi) as Hb. unfold below in Hb. rewrite Hp in Hb.
    assert (Ht : blocked_input g (blk k) k = true).
    { apply blocked_input_spec. exists i, u. split; [exact Hi|]. split; [exact Hp|].
      apply (proj2 (blk_iff k l HI u Hb (Hwg i u Hp)) HBi). }
    congruence.
Qed.

Lemma turn_blocked k l : InvK cmd g fs p b st0 k (acc k) l -> (k < g_nedges g)%nat ->
  blocked_input g (blk k) k = true -> BB k k = true.
Proof.
  intros HI Hk Hbi. apply blocked_input_spec in Hbi. destruct Hbi as [i [u [Hi [Hp Hin]]]].
  pose proof (in_below g Htopo k i Hk Hi) as Hb. unfold below in Hb. rewrite Hp in Hb.
  apply (blocked_of_closed g Htopo _ k i u Hk Hi Hp).
  apply (proj1 (blk_iff k l HI u Hb (Hwg i u Hp)) Hin).
Qed.

(* the two facts about the re-scan [GK.decision] asks for *)
Lemma inputs_cleanK k l : InvK cmd g fs p b st0 k (acc k) l -> (k < g_nedges g)%nat ->
  blocked_input g (blk k) k = false -> budget_out (k_budget (acc k)) = false ->
  needed g T k -> forall i, In i (nonoo_ins g k) -> ~ must_dirty (G st0) (W (stk k)) i.
Proof.
  intros HI Hk Hbi Hbud [n [Rn Hpn]] i Hi Hmd. pose proof (ik_frame _ _ _ _ _ _ _ _ _ HI) as Hf.
  destruct (g_producer g i) as [e'|] eqn:Hpi.
  - pose proof (in_below g Htopo k i Hk (nonoo_in g k i Hi)) as Hlt. unfold below in Hlt. rewrite Hpi in Hlt.
    assert (Hn' : needed g T e').
    { exists i. split; [|exact Hpi]. apply (reach_step g (manifest_ins g) T n i Rn).
      exists k. split; [exact Hpn|apply nonoo_in; exact Hi]. }
    assert (Hnb : ~ In e' (blk k)).
    { intros Hin. assert (Ht : blocked_input g (blk k) k = true); [|congruence].
      apply blocked_input_spec. exists i, e'. split; [apply (nonoo_in g k i Hi)|]. split; [exact Hpi|exact Hin]. }
    apply (c02K cmd g Hwf Hwg Hfrag Htopo fs p b st0 T s0 HG0 Hscan Hnip k ltac:(lia) Hbud e' Hlt Hn' Hnb i
             (p_out g Hwf i e' Hpi) Hmd).
  - pose proof (must_dirty_leaf_inv (G st0) (W (stk k)) i Hmd Hpi) as Hz.
    cbn [world_of w_mtime] in Hz. unfold mtime_of in Hz. rewrite (frame_leaf g st0 p k (stk k) i Hf Hpi) in Hz.
    assert (Hmd0 : must_dirty (G st0) (W st0) n).
    { apply (md_input (G st0) (W st0) n k i Hpn).
      - rewrite (spec_ins_AB g Hfrag st0 (W st0) k Hk). exact Hi.
      - apply md_leaf; [exact Hpi|exact Hz]. }
    destruct (want_complete g Hwf Hwg Hfrag st0 T s0 p Hscan k (ex_intro _ n (conj Rn Hpn))
                (ex_intro _ n (conj (p_out g Hwf n k Hpn) Hmd0)) (nip_edge g k Hnip Hk)) as [_ Hl].
    apply (Hl i (nonoo_in g k i Hi) Hpi). unfold mtime_of. exact Hz.
Qed.

(* the two loops step by step *)
Lemma uptoK_f_eq k : (k <= g_nedges g)%nat ->
  exists x, build_uptoK_f cmd g fs s0 p b k st0 = Some (acc k, x) /\
            (budget_out (k_budget (acc k)) = false -> HInvK (BB k) k (stk k) /\ CInvK (BB k) k (stk k) x).
Proof.
  induction k as [|k IH]; intros Hk.
  - exists (init_cst s0 p). split; [reflexivity|]. intros _. split.
    + apply (GK.hinv_init cmd g st0 HG0).
    + apply (GK.cinv_init cmd g Hwf Hwg Hfrag st0 T s0 p HG0 Hscan). apply (blocked_of_closed g Htopo).
  - destruct (IH ltac:(lia)) as [x [E HI]]. assert (Hk' : (k < g_nedges g)%nat) by lia.
    destruct (invK cmd g Hwf Htopo fs p b st0 HG0 k ltac:(lia)) as [l HK].
    rewrite build_uptoK_f_S, E. unfold build_stepK_f. cbv beta iota.
    pose proof (blocked_of_closed g Htopo (failed_edges (acc k))) as Bcl.
    destruct (stepK_cases cmd g fs p b st0 k)
      as [[Hbi Hacc]|[Hbi [[Hbud Hacc]|[[Hbud [Hst Hacc]]|[[Hbud [Hst [Hfl Hacc]]]|[Hbud [Hst [kd [Hfl Hacc]]]]]]]]];
      rewrite Hbi.
    + (* blocked *)
      rewrite Hacc. exists x. split; [reflexivity|]. cbn [k_budget k_st k_failed failed_edges].
      intros Hb. destruct (HI Hb) as [HH HC]. split; [apply GK.hinv_skip; exact HH|].
      apply GK.cinv_skipB; [|exact HC]. apply (turn_blocked k l HK Hk' Hbi).
    + (* the budget is used up *)
      rewrite Hbud, Hacc. exists x. split; [reflexivity|]. intros Hb. congruence.
    + (* its turn: not started *)
      rewrite Hbud. destruct (HI Hbud) as [HH HC]. pose proof (turn_unblocked k l HK Hk' Hbi) as HBk.
      assert (Hdec : (dirty_now_f x k && negb (phony k))%bool = startedK g p (acc k) k).
      { unfold startedK, dirty_now_f. destruct (phony k) eqn:Hph; [cbn [negb]; rewrite !andb_false_r; reflexivity|].
        rewrite (GK.decision cmd g Hwf Hwg Hfrag Htopo st0 T s0 p HG0 Hscan _ Bcl Hnip k (stk k) x Hk' HH HC Hph HBk).
        - cbn [negb]. rewrite !andb_true_r. reflexivity.
        - intros Hw. apply (reeval_frame st0 T s0 p k (stk k) Hscan Hk' (ik_frame _ _ _ _ _ _ _ _ _ HK) (ik_hash _ _ _ _ _ _ _ _ _ HK) Hw).
        - intros [Hn _]. apply (inputs_cleanK k l HK Hk' Hbi Hbud Hn). }
      rewrite Hdec, Hst, Hacc. exists x. split; [reflexivity|]. intros _.
      split; [apply GK.hinv_skip; exact HH|].
      apply (GK.cinv_skip cmd g Hwf st0 T s0 p _ k (stk k) x HH HC).
      rewrite Hst in Hdec. unfold dirty_now_f in Hdec. apply andb_false_iff in Hdec.
      destruct Hdec as [Hd|Hd]; [left; exact Hd|right; apply negb_false_iff in Hd; exact Hd].
    + (* started, succeeds *)
      rewrite Hbud. destruct (HI Hbud) as [HH HC]. pose proof (turn_unblocked k l HK Hk' Hbi) as HBk.
      assert (Hph : phony k = false).
      { unfold startedK in Hst. destruct (phony k); [rewrite andb_false_r in Hst; discriminate|reflexivity]. }
      assert (Hw : c_want x k = true).
      { rewrite (GK.decision cmd g Hwf Hwg Hfrag Htopo st0 T s0 p HG0 Hscan _ Bcl Hnip k (stk k) x Hk' HH HC Hph HBk).
        - unfold startedK in Hst. rewrite Hph in Hst. cbn [negb] in Hst. rewrite andb_true_r in Hst. exact Hst.
        - intros Hw. apply (reeval_frame st0 T s0 p k (stk k) Hscan Hk' (ik_frame _ _ _ _ _ _ _ _ _ HK) (ik_hash _ _ _ _ _ _ _ _ _ HK) Hw).
        - intros [Hn _]. apply (inputs_cleanK k l HK Hk' Hbi Hbud Hn). }
      unfold dirty_now_f at 1. rewrite Hw, Hph, Hfl. cbn [negb andb].
      destruct (GK.run_step cmd g Hwf Hwg Hfrag Htopo st0 T s0 p HG0 Hscan _ Bcl k (stk k) x Hk' HH HC Hw Hph HBk)
        as [x' [E' [HH' HC']]].
      rewrite E', Hacc. exists x'. split; [reflexivity|]. intros _. cbn [k_st k_failed failed_edges]. split; assumption.
    + (* started, fails *)
      rewrite Hbud. destruct (HI Hbud) as [HH HC]. pose proof (turn_unblocked k l HK Hk' Hbi) as HBk.
      assert (Hph : phony k = false).
      { unfold startedK in Hst. destruct (phony k); [rewrite andb_false_r in Hst; discriminate|reflexivity]. }
      assert (Hw : c_want x k = true).
      { rewrite (GK.decision cmd g Hwf Hwg Hfrag Htopo st0 T s0 p HG0 Hscan _ Bcl Hnip k (stk k) x Hk' HH HC Hph HBk).
        - unfold startedK in Hst. rewrite Hph in Hst. cbn [negb] in Hst. rewrite andb_true_r in Hst. exact Hst.
        - intros Hw. apply (reeval_frame st0 T s0 p k (stk k) Hscan Hk' (ik_frame _ _ _ _ _ _ _ _ _ HK) (ik_hash _ _ _ _ _ _ _ _ _ HK) Hw).
        - intros [Hn _]. apply (inputs_cleanK k l HK Hk' Hbi Hbud Hn). }
      unfold dirty_now_f at 1. rewrite Hw, Hph, Hfl. cbn [negb andb].
      rewrite Hacc. exists x. split; [reflexivity|]. intros _.
      cbn [k_st k_failed failed_edges map fst]. fold (failed_edges (acc k)).
      set (F' := k :: failed_edges (acc k)).
      assert (Hsub : forall e, BB k e = true -> blocked_of g F' e = true) by (intros e He; apply (blocked_of_mono g Htopo); exact He).
      pose proof (GK.hinv_anti cmd g st0 _ (blocked_of g F') k (stk k) Hsub HH) as HH1.
      pose proof (GK.cinv_anti g st0 T s0 p _ (blocked_of g F') k (stk k) x [] [] GK.noN Hsub HC) as HC1.
      pose proof (ik_good _ _ _ _ _ _ _ _ _ HK) as HGk. pose proof HGk as [[A [B _]] _].
      destruct (fail_edge_spec g (stk k) k kd A B) as [Eb [Eh [_ [Ec [_ [Eo _]]]]]]. cbn zeta in *.
      apply (GK.fail_inv cmd g Hwf Hwg st0 T s0 p (blocked_of g F') (blocked_of_closed g Htopo F') k (stk k) _ x Hk' HH1 HC1).
      * apply (blocked_of_in g Htopo F' k Hk'). left. reflexivity.
      * apply (goodF_fail cmd g Hwf (stk k) k kd HGk Hph).
      * exact Eh.
      * lia.
      * intros n Hn. split; [apply (proj1 (Eo n Hn))|rewrite Eb; reflexivity].
Qed.

End Loop.

(* ---- the theorems *)
Theorem buildFK_f_eq st T fs b :
  GoodF cmd g st -> buildFK_f cmd g st T fs b = buildFK cmd g st T fs b.
Proof.
  intros HG. unfold buildFK_f, buildFK.
  destruct (scan (G st) (W st) T) as [c|m d|e| |s p] eqn:Hs; try reflexivity.
  destruct (uptoK_f_eq fs p b st T s HG Hs (g_nedges g) (le_n _)) as [x [E _]]. rewrite E. reflexivity.
Qed.

Lemma apply_kstep_f_eq st s : GoodF cmd g st -> apply_kstep_f cmd g st s = apply_kstep cmd g st s.
Proof.
  intros HG. destruct s as [x|T fs b]; cbn [apply_kstep_f apply_kstep].
  - apply (apply_step_f_eqF cmd g Hwf Hwg Hfrag Htopo Hnip st x HG).
  - rewrite (buildFK_f_eq st T fs b HG). reflexivity.
Qed.

Theorem run_khist_f_eq : forall h st,
  GoodF cmd g st -> khist_ok g h = true -> run_khist_f cmd g st h = run_khist cmd g st h.
Proof.
  induction h as [|x h IH]; intros st HG Hok; [reflexivity|].
  cbn [khist_ok forallb] in Hok. apply andb_true_iff in Hok. destruct Hok as [Hx Hh].
  change (run_khist_f cmd g st (x :: h)) with (run_khist_f cmd g (apply_kstep_f cmd g st x) h).
  change (run_khist cmd g st (x :: h)) with (run_khist cmd g (apply_kstep cmd g st x) h).
  rewrite (apply_kstep_f_eq st x HG). apply IH; [|exact Hh].
  apply (goodF_khist_proof cmd g Hwf Htopo [x] st HG). cbn [khist_ok forallb]. rewrite Hx. reflexivity.
Qed.

(* the keep-going theorems of HistFailKProofs, for the faithful loop *)
Theorem C05K_dependents_not_started_f st T fs b a :
  GoodF cmd g st -> buildFK_f cmd g st T fs b = Some a ->
  forall f d, In f (failed_edges a) -> depends_on g f d ->
    ~ In d (HistFailDefs.trace_delta st (k_st a)) /\
    forall o, In o (outs d) -> h_disk (k_st a) o = h_disk st o /\ h_blog (k_st a) o = h_blog st o.
Proof.
  intros HG H. rewrite (buildFK_f_eq st T fs b HG) in H.
  exact (C05K_dependents_not_started_proof cmd g Hwf Htopo st T fs b a HG H).
Qed.

Theorem C05K_budget_f st T fs N a :
  GoodF cmd g st -> buildFK_f cmd g st T fs (Some N) = Some a ->
  (length (k_failed a) <= N)%nat /\
  k_budget a = Some (N - length (k_failed a))%nat /\
  (length (k_failed a) = N -> forall f kd sf rest, k_failed a = (f, kd, sf) :: rest ->
     exists lr, HistFailDefs.trace_delta st (k_st a) = f :: lr).
Proof.
  intros HG H. rewrite (buildFK_f_eq st T fs (Some N) HG) in H.
  exact (C05K_budget_proof cmd g Hwf Htopo st T fs N a HG H).
Qed.

Theorem C05K_independent_run_f st T fs b a :
  (forall e h h' S o, ei_generator (g_edge g e) = true -> cmd e h S o = cmd e h' S o) ->
  GoodF cmd g st -> TaintOk g true st -> buildFK_f cmd g st T fs b = Some a ->
  budget_out (k_budget a) = false ->
  forall n, reach g T n -> (forall e, g_producer g n = Some e -> independent g a e) ->
            content_of (k_st a) n = clean_of cmd g (k_st a) n.
Proof.
  intros Hgen HG HT H. rewrite (buildFK_f_eq st T fs b HG) in H.
  exact (C05K_independent_run_proof cmd g Hwf Hwg Hfrag Htopo Hgen st T fs b a HG HT H).
Qed.

End KFaith.

(* ---- -k 1 is HistFailFaithful.buildF_full_f: no premise, the two programs are the same *)
Section Budget1.
Variable cmd : edge -> N -> snapshot -> node -> content.
Variable g : graph.

Lemma uptoK_f_budget1 fs s p st k :
  match build_uptoK_f cmd g fs s p (Some 1%nat) k st, build_uptoF_f cmd g fs s p k st with
  | Some (a, x), Some (st', x', r) =>
    k_st a = st' /\ x = x' /\ match k_failed a with [] => None | y :: _ => Some y end = r /\
    match k_failed a with
    | [] => k_blocked a = [] /\ k_budget a = Some 1%nat
    | _ :: _ => k_budget a = Some 0%nat
    end
  | None, None => True
  | _, _ => False
  end.
Proof.
  induction k as [|k IH]; [repeat split; reflexivity|].
  rewrite (build_uptoK_f_S cmd g fs s p (Some 1%nat) k st), (build_uptoF_f_S cmd g fs s p k st).
  destruct (build_uptoK_f cmd g fs s p (Some 1%nat) k st) as [[a x]|];
    destruct (build_uptoF_f cmd g fs s p k st) as [[[st' x'] r]|];
    try contradiction; [|exact I].
  destruct IH as [E1 [E2 [E3 E4]]]. subst st' x'. unfold build_stepK_f, build_stepF_f.
  destruct (k_failed a) as [|y rest] eqn:Hkf.
  - destruct E4 as [Hbl Hbu]. subst r. rewrite Hbl, (blocked_input_nil g), Hbu. cbn [budget_out].
    destruct (dirty_now_f x k && negb (ei_phony (g_edge g k)))%bool.
    + destruct (fault_of fs k) as [kd|]; cbn [k_st k_failed k_blocked k_budget budget_dec].
      * repeat split; reflexivity.
      * destruct (build_step_f cmd g (Some (k_st a, x)) k) as [[st2 x2]|]; [|exact I].
        cbn [k_st k_failed k_blocked k_budget]. rewrite ?Hkf. repeat split; reflexivity.
    + rewrite ?Hkf. repeat split; assumption.
  - subst r. rewrite E4. cbn [budget_out].
    destruct (blocked_input g (k_blocked a) k); cbn [k_st k_failed k_budget]; rewrite ?Hkf; repeat split; try reflexivity; exact E4.
Qed.

Theorem buildFK_f_budget1 st T fs :
  match buildFK_f cmd g st T fs (Some 1%nat) with Some a => Some (facc_of a) | None => None end =
  buildF_full_f cmd g st T fs.
Proof.
  unfold buildFK_f, buildF_full_f. destruct (scan (graph_of g st) (world_of st) T) as [c|m d|e| |s p]; try reflexivity.
  pose proof (uptoK_f_budget1 fs s p st (g_nedges g)) as H.
  destruct (build_uptoK_f cmd g fs s p (Some 1%nat) (g_nedges g) st) as [[a x]|];
    destruct (build_uptoF_f cmd g fs s p (g_nedges g) st) as [[[st' x'] r]|]; try contradiction; [|reflexivity].
  destruct H as [E1 [_ [E3 _]]]. unfold facc_of. rewrite E1, E3. reflexivity.
Qed.

End Budget1.

(* ---- the example project HistFailKFaithful.ExKFrestat satisfies the premises *)
Lemma ExKFrestat_wf_spec : wf_spec ExKFrestat.g.
Proof.
  split; [|split].
  - intros e o Ho. destruct e as [|[|[|[|e]]]]; cbn in Ho; try (destruct Ho as [<-|[]]; reflexivity); destruct Ho.
  - intros n e Hp. destruct n as [|[|[|[|[|[|n]]]]]]; cbn in Hp; try discriminate; inversion Hp; subst; cbn; left; reflexivity.
  - intros e Hd. destruct e as [|[|[|[|e]]]]; cbn in *; congruence.
Qed.

Lemma ExKFrestat_wf_graph : wf_graph ExKFrestat.g.
Proof.
  intros n e Hp. destruct n as [|[|[|[|[|[|n]]]]]]; cbn in Hp; try discriminate; inversion Hp; subst; cbn; lia.
Qed.

Lemma ExKFrestat_good : Good Ex.cmd ExKFrestat.g ExKFrestat.st1.
Proof.
  apply (good_hist Ex.cmd ExKFrestat.g ExKFrestat_wf_spec); [vm_compute; reflexivity|apply good_init|vm_compute; reflexivity].
Qed.
