(* Proofs about parallel schedules (HistParDefs.v).  No axioms, nothing admitted.
   Part 0: structure of the semantics: [take_run]; readiness as a relation [Rdy] ([node_ready] is
           sound for it, and complete along the edge order); a CleanNode cascade only removes wants
           and dirty flags ([want_le], [flag_le]).
   Part G: [par_good] -- Good = StateOk /\ LogSound survives every valid schedule.  Needs wf_spec and
           topo_ordered only, and nothing about the bookkeeping: the invariant [PG] says that what a
           running command read is still on disk ([r_snap r = reads g st e]) because the outputs of
           running commands and the inputs of running commands are disjoint (a consumer is not
           started before its producer has finished, and nothing runs twice).
   Part S: [par_sequential] -- the schedule [Start e0; Finish e0; Start e1; ...] IS
           HistFaithful.build_f (and it is a -j 1 schedule).
   Part I: the invariants of HistFaithfulProofs ([HInv]/[CInv]: flags, cached mtimes and want map tied
           to the current disk) indexed by the SET of finished statements instead of a position in
           the edge order ([HInvP]/[CInvP]); the CleanNode cascade ([clean_node_spec], transcribed) with
           one addition: a cascade only unwants statements that have an input which was NOT ready
           when it began ([NRe]), hence never a running one; [finish_inv], [restat_inv], and the
           invariant of configurations [PInv].  CleanNode never runs out of fuel under any schedule.
   Part T: C01 ([BcD], [settled_clean], [C01_par]); C02 ([Calm], [DInv], [C02_par]); the set of commands
           run and the final contents are those singled out by [Runs] -- a definition that mentions
           no schedule -- ([par_confluent], [par_same_commands]); existence; histories. *)
Require Import Coq.Sorting.Permutation.
From NinjaV Require Import Engine.CrashDefs.
From NinjaV Require Import Base.Bytes Engine.ScanDefs Engine.ScanSpec Engine.ScanProofs Engine.HistDefs Engine.HistProofs Engine.HistRun Engine.HistMinimal Engine.HistFaithful Engine.HistFaithfulProofs Engine.HistParDefs.
Local Open Scope Z_scope.

(* ================================================================== Part 0: structure *)
Lemma ofold_rel {A X : Type} (R : X -> X -> Prop) (f : A -> X -> option X) :
  (forall x, R x x) -> (forall x y z, R x y -> R y z -> R x z) ->
  (forall a x x', f a x = Some x' -> R x x') ->
  forall l x x', ofold f l x = Some x' -> R x x'.
Proof.
  intros Hr Ht Hf. induction l as [|a l IH]; intros x x' H; cbn [ofold] in H.
  - inversion H; subst. apply Hr.
  - destruct (f a x) as [x1|] eqn:E; [|discriminate].
    apply (Ht x x1 x'); [apply (Hf a x x1 E)|apply (IH x1 x' H)].
Qed.

(* wants only go away *)
Definition want_le (x x' : cst) : Prop := forall e, c_want x' e = true -> c_want x e = true.

Lemma want_le_refl x : want_le x x.
Proof. intros e H. exact H. Qed.
Lemma want_le_trans x y z : want_le x y -> want_le y z -> want_le x z.
Proof. intros A B e H. apply A. apply B. exact H. Qed.

Lemma unwant_le wt e e' : unwant wt e e' = true -> wt e' = true.
Proof. unfold unwant. destruct (Nat.eqb e' e); [discriminate|auto]. Qed.

Lemma clean_edge_want_le G w rec :
  (forall n x x', rec n x = Some x' -> want_le x x') ->
  forall e x x', clean_edge G w rec e x = Some x' -> want_le x x'.
Proof.
  intros Hrec e x x' H. unfold clean_edge in H.
  destruct (c_want x e && negb (es_deps_missing (st_edge (c_s x) e))
            && forallb (fun i => negb (ns_dirty (st_node (c_s x) i))) (cn_nonoo G (c_s x) e))%bool.
  2:{ inversion H; subst. apply want_le_refl. }
  destruct (outputs_dirty_all G w e (edge_outs G e) (cn_mri (c_s x) (cn_nonoo G (c_s x) e)) (c_s x)) as [d s1].
  destruct d.
  - inversion H; subst. intros e' He'. exact He'.
  - destruct (ofold rec (edge_outs G e) (mkC s1 (c_want x))) as [x2|] eqn:E; [|discriminate].
    inversion H; subst. clear H.
    assert (A : want_le (mkC s1 (c_want x)) x2).
    { apply (ofold_rel want_le rec want_le_refl want_le_trans Hrec _ _ _ E). }
    intros e' He'. cbn [c_want] in He'. apply unwant_le in He'. apply (A e' He').
Qed.

Lemma clean_node_want_le G w : forall f n x x', clean_node G w f n x = Some x' -> want_le x x'.
Proof.
  induction f as [|f IH]; intros n x x' H; cbn [clean_node] in H; [discriminate|].
  assert (A : want_le (mkC (set_dirty (c_s x) n false) (c_want x)) x').
  { apply (ofold_rel want_le (clean_edge G w (clean_node G w f)) want_le_refl want_le_trans) with (l := out_edges G (c_s (mkC (set_dirty (c_s x) n false) (c_want x))) n); [|exact H].
    intros a y y' Hy. apply (clean_edge_want_le G w (clean_node G w f) IH a y y' Hy). }
  intros e He. apply (A e He).
Qed.

Lemma restat_clean_want_le G w e x x' : restat_clean G w e x = Some x' -> want_le x x'.
Proof.
  unfold restat_clean. destruct (ei_restat (g_edge G e)); [|intros H; inversion H; subst; apply want_le_refl].
  apply (ofold_rel want_le _ want_le_refl want_le_trans).
  intros o y y' Hy. destruct (Z.eqb _ _); [apply (clean_node_want_le G w _ o y y' Hy)|inversion Hy; subst; apply want_le_refl].
Qed.

(* dirty flags only go away *)
Definition flag_le (x x' : cst) : Prop :=
  forall n, ns_dirty (st_node (c_s x') n) = true -> ns_dirty (st_node (c_s x) n) = true.

Lemma flag_le_refl x : flag_le x x.
Proof. intros n H. exact H. Qed.
Lemma flag_le_trans x y z : flag_le x y -> flag_le y z -> flag_le x z.
Proof. intros A B n H. apply A. apply B. exact H. Qed.

Lemma clean_edge_flag_le G w rec :
  (forall n x x', rec n x = Some x' -> flag_le x x') ->
  forall e x x', clean_edge G w rec e x = Some x' -> flag_le x x'.
Proof.
  intros Hrec e x x' H. unfold clean_edge in H.
  destruct (c_want x e && negb (es_deps_missing (st_edge (c_s x) e))
            && forallb (fun i => negb (ns_dirty (st_node (c_s x) i))) (cn_nonoo G (c_s x) e))%bool.
  2:{ inversion H; subst. apply flag_le_refl. }
  destruct (outputs_dirty_all G w e (edge_outs G e) (cn_mri (c_s x) (cn_nonoo G (c_s x) e)) (c_s x)) as [d s1] eqn:Hod.
  pose proof (proj2 (oda_nodes G w e _ _ _ _ _ Hod)) as Hfl.
  destruct d.
  - inversion H; subst. intros n Hn. cbn [c_s] in Hn. rewrite Hfl in Hn. exact Hn.
  - destruct (ofold rec (edge_outs G e) (mkC s1 (c_want x))) as [x2|] eqn:E; [|discriminate].
    inversion H; subst. clear H.
    assert (A : flag_le (mkC s1 (c_want x)) x2).
    { apply (ofold_rel flag_le rec flag_le_refl flag_le_trans Hrec _ _ _ E). }
    intros n Hn. cbn [c_s] in Hn. pose proof (A n Hn) as Hx. cbn [c_s] in Hx. rewrite Hfl in Hx. exact Hx.
Qed.

Lemma clean_node_flag_le G w : forall f n x x', clean_node G w f n x = Some x' -> flag_le x x'.
Proof.
  induction f as [|f IH]; intros n x x' H; cbn [clean_node] in H; [discriminate|].
  assert (A : flag_le (mkC (set_dirty (c_s x) n false) (c_want x)) x').
  { apply (ofold_rel flag_le (clean_edge G w (clean_node G w f)) flag_le_refl flag_le_trans) with (l := out_edges G (c_s (mkC (set_dirty (c_s x) n false) (c_want x))) n); [|exact H].
    intros a y y' Hy. apply (clean_edge_flag_le G w (clean_node G w f) IH a y y' Hy). }
  intros m Hm. pose proof (A m Hm) as Hx. cbn [c_s] in Hx.
  destruct (Nat.eq_dec m n) as [->|Hne]; [rewrite nd_clear_same in Hx; discriminate|].
  rewrite (nd_clear_other _ n m Hne) in Hx. exact Hx.
Qed.

Lemma restat_clean_flag_le G w e x x' : restat_clean G w e x = Some x' -> flag_le x x'.
Proof.
  unfold restat_clean. destruct (ei_restat (g_edge G e)); [|intros H; inversion H; subst; apply flag_le_refl].
  apply (ofold_rel flag_le _ flag_le_refl flag_le_trans).
  intros o y y' Hy. destruct (Z.eqb _ _); [apply (clean_node_flag_le G w _ o y y' Hy)|inversion Hy; subst; apply flag_le_refl].
Qed.

(* ---- the set of running commands *)
Lemma running_In R e : running R e = true <-> exists r, In r R /\ r_edge r = e.
Proof.
  unfold running. rewrite existsb_exists. split; intros [r [Hr He]]; exists r; (split; [exact Hr|]).
  - apply Nat.eqb_eq. exact He.
  - apply Nat.eqb_eq. exact He.
Qed.

Lemma take_run_spec e : forall R r R', take_run e R = Some (r, R') ->
  r_edge r = e /\ In r R /\ (forall r', In r' R' -> In r' R) /\
  (forall r', In r' R -> r' = r \/ In r' R') /\
  (NoDup (map r_edge R) -> NoDup (map r_edge R') /\ forall r', In r' R' -> r_edge r' <> e) /\
  length R = S (length R').
Proof.
  induction R as [|a R IH]; intros r R' H; cbn [take_run] in H; [discriminate|].
  destruct (Nat.eqb_spec (r_edge a) e) as [Ha|Ha].
  - inversion H; subst. split; [reflexivity|]. split; [left; reflexivity|]. split; [intros r' Hr'; right; exact Hr'|].
    split; [intros r' [<-|Hr']; [left; reflexivity|right; exact Hr']|]. split; [|reflexivity].
    intros Hnd. cbn [map] in Hnd. inversion Hnd as [|x l Hx Hl]; subst. split; [exact Hl|].
    intros r' Hr' Heq. apply Hx. rewrite <- Heq. apply in_map. exact Hr'.
  - destruct (take_run e R) as [[r1 R1]|] eqn:E; [|discriminate]. inversion H; subst. clear H.
    destruct (IH r R1 eq_refl) as [A [B [C [D [F L]]]]].
    split; [exact A|]. split; [right; exact B|]. split.
    { intros r' [<-|Hr']; [left; reflexivity|right; apply C; exact Hr']. }
    split.
    { intros r' [<-|Hr']; [right; left; reflexivity|]. destruct (D r' Hr') as [->|Hi]; [left; reflexivity|right; right; exact Hi]. }
    split; [|cbn [length]; rewrite L; reflexivity].
    intros Hnd. cbn [map] in Hnd. inversion Hnd as [|x l Hx Hl]; subst. destruct (F Hl) as [F1 F2]. split.
    + cbn [map]. constructor; [|exact F1]. intros Hin. apply Hx. apply in_map_iff in Hin.
      destruct Hin as [r' [Hr' Hi]]. rewrite <- Hr'. apply in_map. apply C. exact Hi.
    + intros r' [<-|Hr']; [exact Ha|apply F2; exact Hr'].
Qed.

(* ---- readiness *)
Section Ready.
Variable g : graph.

Inductive Rdy (bl : edge -> bool) : node -> Prop :=
| rdy_src n : g_producer g n = None -> Rdy bl n
| rdy_free n e : g_producer g n = Some e -> bl e = false -> Rdy bl n
| rdy_phony n e : g_producer g n = Some e -> bl e = true -> ei_phony (g_edge g e) = true ->
    (forall i, In i (ei_ins (g_edge g e)) -> Rdy bl i) -> Rdy bl n.

Lemma node_ready_sound bl : forall f n, node_ready g f bl n = true -> Rdy bl n.
Proof.
  induction f as [|f IH]; intros n H.
  - cbn [node_ready] in H. destruct (g_producer g n) as [e|] eqn:Hp; [|apply rdy_src; exact Hp].
    destruct (bl e) eqn:Hb; [|apply (rdy_free bl n e Hp Hb)].
    destruct (ei_phony (g_edge g e)); discriminate.
  - cbn [node_ready] in H. destruct (g_producer g n) as [e|] eqn:Hp; [|apply rdy_src; exact Hp].
    destruct (bl e) eqn:Hb; [|apply (rdy_free bl n e Hp Hb)].
    destruct (ei_phony (g_edge g e)) eqn:Hph; [|discriminate].
    apply (rdy_phony bl n e Hp Hb Hph). intros i Hi. apply IH. rewrite forallb_forall in H. apply (H i Hi).
Qed.

Lemma Rdy_mono (bl bl' : edge -> bool) : (forall e, bl' e = true -> bl e = true) ->
  forall n, Rdy bl n -> Rdy bl' n.
Proof.
  intros Hle n H. induction H as [n Hp|n e Hp Hb|n e Hp Hb Hph Hi IH].
  - apply rdy_src; exact Hp.
  - apply (rdy_free bl' n e Hp). destruct (bl' e) eqn:E; [|reflexivity]. rewrite (Hle e E) in Hb. discriminate.
  - destruct (bl' e) eqn:E; [apply (rdy_phony bl' n e Hp E Hph IH)|apply (rdy_free bl' n e Hp E)].
Qed.

(* the output of a real statement that is still to come is not ready *)
Lemma Rdy_real bl n e : Rdy bl n -> g_producer g n = Some e -> ei_phony (g_edge g e) = false -> bl e = false.
Proof.
  intros H Hp Hph. destruct H as [n Hp'|n e' Hp' Hb|n e' Hp' Hb Hph' _]; rewrite Hp in Hp'; try discriminate.
  - inversion Hp'; subst. exact Hb.
  - inversion Hp'; subst. congruence.
Qed.

Lemma Rdy_phony_in bl n e i : Rdy bl n -> g_producer g n = Some e -> bl e = true ->
  In i (ei_ins (g_edge g e)) -> Rdy bl i.
Proof.
  intros H Hp Hb Hi. destruct H as [n Hp'|n e' Hp' Hb'|n e' Hp' Hb' Hph' Hall]; rewrite Hp in Hp'; try discriminate.
  - inversion Hp'; subst. congruence.
  - inversion Hp'; subst. apply (Hall i Hi).
Qed.

(* enough fuel: everything below [k] whose real statements are all unblocked is ready *)
Lemma node_ready_complete bl (Htopo : topo_ordered g = true) k :
  (k <= g_nedges g)%nat ->
  (forall e, (e < k)%nat -> bl e = true -> ei_phony (g_edge g e) = true) ->
  forall f n, below g f n -> below g k n -> node_ready g f bl n = true.
Proof.
  intros Hk Hbl. induction f as [|f IH]; intros n Hf Hb.
  - cbn [node_ready]. unfold below in Hf. destruct (g_producer g n) as [e|]; [lia|reflexivity].
  - cbn [node_ready]. unfold below in Hf, Hb. destruct (g_producer g n) as [e|] eqn:Hp; [|reflexivity].
    destruct (bl e) eqn:Hbe; [|reflexivity]. rewrite (Hbl e Hb Hbe).
    apply forallb_forall. intros i Hi.
    assert (Hbi : below g e i) by (apply (in_below g Htopo e i); [lia|exact Hi]).
    apply IH; [apply (below_mono g e f i); [lia|exact Hbi]|apply (below_mono g e k i); [lia|exact Hbi]].
Qed.

End Ready.

(* ================================================================== Part G: Good is kept *)
Section Par.
Variable cmd : edge -> N -> snapshot -> node -> content.
Variable g : graph.
Hypothesis Hwf : wf_spec g.
Hypothesis Htopo : topo_ordered g = true.

Notation outs e := (ei_outs (g_edge g e)).
Notation phony e := (ei_phony (g_edge g e)).
Notation insA e := (ei_ins (g_edge g e)).

(* what the schedule semantics guarantees about the running commands, whatever the bookkeeping *)
Record PG (c : pcfg) : Prop := mkPG {
  pg_good : Good cmd g (p_st c);
  pg_nodup : NoDup (map r_edge (p_run c));
  pg_run : forall r, In r (p_run c) ->
    (r_edge r < g_nedges g)%nat /\ phony (r_edge r) = false /\
    r_t0 r <= h_clock (p_st c) /\ r_snap r = reads g (p_st c) (r_edge r) /\
    forall i, In i (insA (r_edge r)) -> Rdy g (blocked c) i;
  pg_disj : forall r r', In r (p_run c) -> In r' (p_run c) -> r_edge r <> r_edge r' ->
    forall o, In o (outs (r_edge r)) -> ~ In o (insA (r_edge r'))
}.

Lemma reads_tick st e : reads g (tick st) e = reads g st e.
Proof. reflexivity. Qed.

Lemma start_ok_spec lim c e : start_ok g lim c e = true ->
  (e < g_nedges g)%nat /\ c_want (p_x c) e = true /\ phony e = false /\ running (p_run c) e = false /\
  jobs_ok lim (p_run c) = true /\ forall i, In i (insA e) -> Rdy g (blocked c) i.
Proof.
  unfold start_ok. intros H.
  apply andb_true_iff in H. destruct H as [H H6]. apply andb_true_iff in H. destruct H as [H H5].
  apply andb_true_iff in H. destruct H as [H H4]. apply andb_true_iff in H. destruct H as [H H3].
  apply andb_true_iff in H. destruct H as [H1 H2].
  split; [apply Nat.ltb_lt; exact H1|]. split; [exact H2|]. split; [apply negb_true_iff; exact H3|].
  split; [apply negb_true_iff; exact H4|]. split; [exact H5|].
  intros i Hi. unfold inputs_ready in H6. rewrite forallb_forall in H6.
  apply (node_ready_sound g (blocked c) _ i (H6 i Hi)).
Qed.

Lemma blocked_start c e e' : c_want (p_x c) e = true -> blocked (do_start g c e) e' = blocked c e'.
Proof.
  intros Hw. unfold blocked, do_start. cbn [p_x p_run running existsb r_edge].
  destruct (Nat.eqb_spec e e') as [->|Hne]; [rewrite Hw; reflexivity|reflexivity].
Qed.

Lemma pg_start lim c e : PG c -> start_ok g lim c e = true -> PG (do_start g c e).
Proof.
  intros [HG Hnd Hrun Hdj] Hok.
  destruct (start_ok_spec lim c e Hok) as [He [Hw [Hph [Hnr [_ Hrdy]]]]].
  assert (Hnot : forall r, In r (p_run c) -> r_edge r <> e).
  { intros r Hr Heq. assert (running (p_run c) e = true) by (apply running_In; exists r; split; assumption). congruence. }
  assert (Hbl : forall e', blocked (do_start g c e) e' = blocked c e') by (intros e'; apply blocked_start; exact Hw).
  assert (Hrd : forall i, Rdy g (blocked c) i -> Rdy g (blocked (do_start g c e)) i).
  { intros i Hi. apply (Rdy_mono g (blocked c)); [|exact Hi]. intros e' He'. rewrite <- Hbl. exact He'. }
  assert (Hble : blocked c e = true) by (unfold blocked; rewrite Hw; reflexivity).
  constructor; cbn [do_start p_st p_run p_x].
  - apply (good_tick cmd g). exact HG.
  - cbn [map r_edge]. constructor; [|exact Hnd]. intros Hin. apply in_map_iff in Hin.
    destruct Hin as [r [Hr Hi]]. apply (Hnot r Hi Hr).
  - intros r [<-|Hr]; cbn [r_edge r_t0 r_snap].
    + split; [exact He|]. split; [exact Hph|]. split; [lia|]. split; [reflexivity|].
      intros i Hi. apply Hrd. apply (Hrdy i Hi).
    + destruct (Hrun r Hr) as [A [B [C [D E]]]]. split; [exact A|]. split; [exact B|].
      split; [cbn [tick h_clock]; lia|]. split; [exact D|]. intros i Hi. apply Hrd. apply (E i Hi).
  - intros r r' [<-|Hr] [<-|Hr'] Hne o Ho; cbn [r_edge] in *.
    + contradiction.
    + (* the new command's outputs are not inputs of an older running one: they were not ready *)
      intros Hi. destruct (Hrun r' Hr') as [_ [_ [_ [_ E]]]].
      pose proof (Rdy_real g (blocked c) o e (E o Hi) (proj1 Hwf e o Ho) Hph). congruence.
    + (* a running command's outputs are not ready for the new one *)
      intros Hi. destruct (Hrun r Hr) as [_ [B _]].
      pose proof (Rdy_real g (blocked c) o (r_edge r) (Hrdy o Hi) (proj1 Hwf _ o Ho) B) as Hb.
      unfold blocked in Hb. apply orb_false_iff in Hb. destruct Hb as [_ Hb].
      assert (running (p_run c) (r_edge r) = true) by (apply running_In; exists r; split; [exact Hr|reflexivity]). congruence.
    + apply (Hdj r r' Hr Hr' Hne o Ho).
Qed.

(* one finishing command: what it leaves alone *)
Lemma finish_frame st e h S t0 :
  StateOk g st -> t0 <= h_clock st ->
  let st' := finish_run cmd g st st e h S t0 in
  h_hash st' = h_hash st /\ h_clock st <= h_clock st' /\
  (forall n, ~ In n (outs e) -> h_disk st' n = h_disk st n /\ h_blog st' n = h_blog st n /\ h_ghost st' n = h_ghost st n).
Proof.
  intros [A [B _]] Ht. cbn zeta.
  destruct (finish_run_spec cmd g st st e h S t0 A B Ht) as [Hh [Hc [Hout _]]].
  split; [exact Hh|]. split; [exact Hc|exact Hout].
Qed.

Lemma reads_frame st st' e :
  (forall i, In i (nonoo_ins g e) -> h_disk st' i = h_disk st i) -> reads g st' e = reads g st e.
Proof.
  intros H. unfold reads. apply map_ext_in. intros i Hi. unfold content_of. rewrite (H i Hi). reflexivity.
Qed.

(* FinishCommand from a state where the snapshot is still what is on disk *)
Lemma good_finish_reads st e t0 :
  Good cmd g st -> (e < g_nedges g)%nat -> phony e = false -> t0 <= h_clock st ->
  forall h, Good cmd g (finish_run cmd g st st e h (reads g st e) t0).
Proof.
  intros HG He Hph Ht h.
  apply (good_finish cmd g Hwf Htopo st st e h (reads g st e) t0 HG He Hph Ht).
  - unfold reads. rewrite map_map. cbn [fst]. apply map_id.
  - intros m _ _ i ci Hi. unfold reads in Hi. apply in_map_iff in Hi. destruct Hi as [i' [Hi' Hin']].
    inversion Hi'; subst i' ci. destruct HG as [[_ [_ [_ [D _]]]] _]. split.
    + intros e' He' Hph'. unfold content_of. rewrite (D i e' He' Hph'). reflexivity.
    + intros mi c' Hdi _. unfold content_of. rewrite Hdi. reflexivity.
Qed.

Lemma pg_finish c e c' : PG c -> do_finish cmd g c e = POk c' -> PG c'.
Proof.
  intros [HG Hnd Hrun Hdj] H. unfold do_finish in H.
  destruct (take_run e (p_run c)) as [[r R']|] eqn:Etk; [|discriminate].
  destruct (take_run_spec e _ _ _ Etk) as [Hre [Hin [Hsub [Hcov [Hnd' _]]]]]. destruct (Hnd' Hnd) as [Hnd1 Hne1].
  set (st := p_st c) in *.
  set (st' := finish_run cmd g st st e (r_hash r) (r_snap r) (r_t0 r)) in *.
  destruct (restat_clean (graph_of g st') (world_of st') e (mkC (c_s (p_x c)) (unwant (c_want (p_x c)) e))) as [x'|] eqn:Erc; [|discriminate].
  inversion H; subst c'. clear H.
  destruct (Hrun r Hin) as [He [Hph [Ht [Hsn _]]]]. rewrite Hre in *.
  destruct (finish_frame st e (r_hash r) (r_snap r) (r_t0 r) (proj1 HG) Ht) as [Hh [Hc Hout]]. cbn zeta in *. fold st' in Hh, Hc, Hout.
  pose proof (restat_clean_want_le _ _ _ _ _ Erc) as Hle.
  assert (Hbl : forall e', blocked (mkP st' x' R' (e :: p_done c)) e' = true -> blocked c e' = true).
  { intros e' Hb. unfold blocked in *. cbn [p_x p_run] in Hb. apply orb_true_iff in Hb. apply orb_true_iff.
    destruct Hb as [Hb|Hb].
    - left. pose proof (Hle e' Hb) as Hx. cbn [c_want] in Hx. apply (unwant_le _ _ _ Hx).
    - right. apply running_In in Hb. destruct Hb as [r' [Hr' Heq]]. apply running_In. exists r'. split; [apply Hsub; exact Hr'|exact Heq]. }
  constructor; cbn [p_st p_run p_x].
  - unfold st'. rewrite Hsn. apply (good_finish_reads st e (r_t0 r) HG He Hph Ht).
  - exact Hnd1.
  - intros r' Hr'. pose proof (Hsub r' Hr') as Hr0. destruct (Hrun r' Hr0) as [A [B [C [D E]]]].
    split; [exact A|]. split; [exact B|]. split; [fold st in C; lia|]. split.
    + rewrite D. symmetry. fold st. apply reads_frame. intros i Hi.
      apply (proj1 (Hout i ltac:(intros Ho; apply (Hdj r r' Hin Hr0 ltac:(rewrite Hre; intros Heq; apply (Hne1 r' Hr'); symmetry; exact Heq) i ltac:(rewrite Hre; exact Ho)); apply (nonoo_in g (r_edge r') i Hi)))).
    + intros i Hi. apply (Rdy_mono g (blocked c)); [exact Hbl|apply (E i Hi)].
  - intros r1 r2 H1 H2. apply (Hdj r1 r2 (Hsub r1 H1) (Hsub r2 H2)).
Qed.

Lemma pg_step lim c ev c' : PG c -> par_step cmd g lim c ev = POk c' -> PG c'.
Proof.
  intros HP H. destruct ev as [e|e]; cbn [par_step] in H.
  - destruct (start_ok g lim c e) eqn:Hok; [|discriminate]. inversion H; subst. apply (pg_start lim c e HP Hok).
  - apply (pg_finish c e c' HP H).
Qed.

Lemma pg_exec lim : forall sched c c', PG c -> par_exec cmd g lim sched c = POk c' -> PG c'.
Proof.
  induction sched as [|ev sched IH]; intros c c' HP H; cbn [par_exec] in H.
  - inversion H; subst. exact HP.
  - destruct (par_step cmd g lim c ev) as [c1| |] eqn:E; try discriminate.
    apply (IH c1 c' (pg_step lim c ev c1 HP E) H).
Qed.

Lemma pg_init st s p : Good cmd g st -> PG (init_pcfg st s p).
Proof.
  intros HG. constructor; cbn [init_pcfg p_st p_run].
  - exact HG.
  - constructor.
  - intros r [].
  - intros r r' [].
Qed.

(* (2) LogSound survives every interleaving *)
Theorem par_good_j lim st T sched st' :
  Good cmd g st -> par_build_j cmd g lim st T sched = Some st' -> Good cmd g st'.
Proof.
  intros HG H. unfold par_build_j, par_run in H.
  destruct (scan (graph_of g st) (world_of st) T) as [c|m d|e| |s p]; try discriminate.
  destruct (par_exec cmd g lim sched (init_pcfg st s p)) as [c| |] eqn:E; try discriminate.
  destruct (complete g c); [|discriminate]. inversion H; subst.
  apply (pg_good c (pg_exec lim sched _ c (pg_init st s p HG) E)).
Qed.

(* a schedule that respects a job limit is a schedule *)
Lemma par_step_unlimited lim c ev c' : par_step cmd g lim c ev = POk c' -> par_step cmd g None c ev = POk c'.
Proof.
  destruct ev as [e|e]; cbn [par_step]; [|auto].
  destruct (start_ok g lim c e) eqn:Hok; [|discriminate]. intros H.
  assert (Hok' : start_ok g None c e = true).
  { unfold start_ok in *. destruct (jobs_ok lim (p_run c)); [exact Hok|].
    rewrite andb_false_r in Hok. discriminate. }
  rewrite Hok'. exact H.
Qed.

Lemma par_exec_unlimited lim : forall sched c c',
  par_exec cmd g lim sched c = POk c' -> par_exec cmd g None sched c = POk c'.
Proof.
  induction sched as [|ev sched IH]; intros c c' H; cbn [par_exec] in *; [exact H|].
  destruct (par_step cmd g lim c ev) as [c1| |] eqn:E; try discriminate.
  rewrite (par_step_unlimited lim c ev c1 E). apply (IH c1 c' H).
Qed.

Theorem par_build_j_sound lim st T sched st' :
  par_build_j cmd g lim st T sched = Some st' -> par_build cmd g st T sched = Some st'.
Proof.
  unfold par_build, par_build_j, par_run.
  destruct (scan (graph_of g st) (world_of st) T) as [c|m d|e| |s p]; try discriminate.
  destruct (par_exec cmd g lim sched (init_pcfg st s p)) as [c| |] eqn:E; try discriminate.
  rewrite (par_exec_unlimited lim sched _ c E). auto.
Qed.

Theorem par_good st T sched st' :
  Good cmd g st -> par_build cmd g st T sched = Some st' -> Good cmd g st'.
Proof. apply par_good_j. Qed.

(* ================================================================== Part S: the sequential schedule *)
(* the real statements below [k] have left the plan *)
Definition Below (k : nat) (x : cst) : Prop :=
  forall e, (e < k)%nat -> c_want x e = true -> phony e = true.

Lemma fold_build_step_none l : fold_left (build_step_f cmd g) l None = None.
Proof. induction l as [|e l IH]; [reflexivity|exact IH]. Qed.

Lemma run_edge_as_finish st e :
  run_edge cmd g st e
  = finish_run cmd g (tick st) (tick st) e (h_hash st e) (reads g st e) (h_clock (tick st)).
Proof. reflexivity. Qed.

Lemma seq_exec : forall m k st x dn, (k + m = g_nedges g)%nat -> Below k x ->
  match fold_left (build_step_f cmd g) (seq k m) (Some (st, x)) with
  | Some (st', x') =>
    exists dn', par_exec cmd g (Some 1%nat) (seq_events cmd g (seq k m) (Some (st, x))) (mkP st x [] dn)
                = POk (mkP st' x' [] dn') /\ Below (g_nedges g) x'
  | None => par_exec cmd g (Some 1%nat) (seq_events cmd g (seq k m) (Some (st, x))) (mkP st x [] dn) = PFuel
  end.
Proof.
  induction m as [|m IH]; intros k st x dn Hk HB.
  - cbn [seq fold_left seq_events par_exec]. exists dn. split; [reflexivity|].
    replace (g_nedges g) with k by lia. exact HB.
  - cbn [seq fold_left seq_events].
    destruct (dirty_now_f x k && negb (phony k))%bool eqn:Hrun.
    + apply andb_true_iff in Hrun. destruct Hrun as [Hw Hph]. apply negb_true_iff in Hph. unfold dirty_now_f in Hw.
      set (c0 := mkP st x [] dn).
      assert (Hok : start_ok g (Some 1%nat) c0 k = true).
      { unfold start_ok. cbn [c0 p_x p_run running existsb jobs_ok length].
        rewrite Hw, Hph. cbn [negb andb].
        replace (Nat.ltb k (g_nedges g)) with true by (symmetry; apply Nat.ltb_lt; lia). cbn [andb Nat.ltb Nat.leb].
        unfold inputs_ready. apply forallb_forall. intros i Hi.
        assert (Hbi : below g k i) by (apply (in_below g Htopo k i); [lia|exact Hi]).
        apply (node_ready_complete g (blocked c0) Htopo k); [lia| |apply (below_mono g k); [unfold ready_fuel; lia|exact Hbi]|exact Hbi].
        intros e He Hb. unfold blocked in Hb. cbn [c0 p_x p_run running existsb] in Hb. rewrite orb_false_r in Hb.
        apply (HB e He Hb). }
      assert (Hstep : build_step_f cmd g (Some (st, x)) k =
                match restat_clean (graph_of g (run_edge cmd g st k)) (world_of (run_edge cmd g st k)) k
                                   (mkC (c_s x) (unwant (c_want x) k)) with
                | Some x' => Some (run_edge cmd g st k, x') | None => None end).
      { unfold build_step_f, dirty_now_f. rewrite Hw, Hph. reflexivity. }
      rewrite Hstep.
      cbn [app par_exec par_step]. rewrite Hok. cbn [par_exec par_step].
      unfold do_finish, do_start. cbn [c0 p_st p_x p_run p_done take_run r_edge].
      rewrite Nat.eqb_refl. cbn [r_hash r_snap r_t0 p_st p_x p_run p_done]. rewrite <- (run_edge_as_finish st k).
      destruct (restat_clean (graph_of g (run_edge cmd g st k)) (world_of (run_edge cmd g st k)) k
                             (mkC (c_s x) (unwant (c_want x) k))) as [x'|] eqn:Erc.
      * apply (IH (S k) (run_edge cmd g st k) x' (k :: dn) ltac:(lia)).
        intros e He Hwe. pose proof (restat_clean_want_le _ _ _ _ _ Erc e Hwe) as Hx. cbn [c_want] in Hx.
        unfold unwant in Hx. destruct (Nat.eqb_spec e k) as [->|Hne]; [discriminate|]. apply (HB e ltac:(lia) Hx).
      * rewrite fold_build_step_none. reflexivity.
    + assert (Hstep : build_step_f cmd g (Some (st, x)) k = Some (st, x)).
      { unfold build_step_f. rewrite Hrun. reflexivity. }
      rewrite Hstep. cbn [app]. apply (IH (S k) st x dn ltac:(lia)).
      intros e He Hwe. destruct (Nat.eq_dec e k) as [->|Hne]; [|apply (HB e ltac:(lia) Hwe)].
      unfold dirty_now_f in Hrun. rewrite Hwe in Hrun. cbn [andb] in Hrun. apply negb_false_iff in Hrun. exact Hrun.
Qed.

Lemma below_complete st x dn : Below (g_nedges g) x -> complete g (mkP st x [] dn) = true.
Proof.
  intros HB. unfold complete. cbn [p_run p_x is_nil andb]. apply forallb_forall. intros e He. apply in_seq in He.
  destruct (c_want x e) eqn:Hw; [|reflexivity]. cbn [negb orb]. apply (HB e ltac:(lia) Hw).
Qed.

(* (1) the sequential faithful loop is the special case of the schedule
   [Start e0; Finish e0; Start e1; Finish e1; ...] -- valid even with -j 1 *)
Theorem par_sequential_j st T :
  par_build_j cmd g (Some 1%nat) st T (seq_sched cmd g st T) = build_f cmd g st T.
Proof.
  unfold par_build_j, par_run, seq_sched, build_f, build_upto_f.
  destruct (scan (graph_of g st) (world_of st) T) as [c|m d|e| |s p]; try reflexivity.
  pose proof (seq_exec (g_nedges g) 0 st (init_cst s p) [] ltac:(lia) ltac:(intros e He; lia)) as H.
  unfold init_pcfg.
  destruct (fold_left (build_step_f cmd g) (seq 0 (g_nedges g)) (Some (st, init_cst s p))) as [[st' x']|].
  - destruct H as [dn' [E HB]]. rewrite E, (below_complete st' x' dn' HB). reflexivity.
  - rewrite H. reflexivity.
Qed.

Theorem par_sequential st T :
  par_build cmd g st T (seq_sched cmd g st T) = build_f cmd g st T.
Proof.
  destruct (build_f cmd g st T) as [st'|] eqn:Hb.
  - apply (par_build_j_sound (Some 1%nat)). rewrite par_sequential_j. exact Hb.
  - (* refused, or out of fuel: the same without the limit *)
    unfold par_build, par_build_j, par_run, seq_sched, build_f, build_upto_f in *.
    destruct (scan (graph_of g st) (world_of st) T) as [c|m d|e| |s p]; try reflexivity.
    pose proof (seq_exec (g_nedges g) 0 st (init_cst s p) [] ltac:(lia) ltac:(intros e He; lia)) as H.
    destruct (fold_left (build_step_f cmd g) (seq 0 (g_nedges g)) (Some (st, init_cst s p))) as [[st' x']|]; [discriminate|].
    unfold init_pcfg.
    destruct (par_exec cmd g None (seq_events cmd g (seq 0 (g_nedges g)) (Some (st, init_cst s p))) (mkP st (init_cst s p) [] [])) as [c| |] eqn:E; try reflexivity.
    exfalso. revert H E. generalize (seq_events cmd g (seq 0 (g_nedges g)) (Some (st, init_cst s p))) (mkP st (init_cst s p) [] []).
    induction l as [|ev l IH]; intros c0 H E; cbn [par_exec] in *; [discriminate|].
    destruct (par_step cmd g (Some 1%nat) c0 ev) as [c1| |] eqn:E1; try discriminate.
    + rewrite (par_step_unlimited _ _ _ _ E1) in E. apply (IH c1 H E).
    + destruct ev as [e|e]; cbn [par_step] in *.
      * destruct (start_ok g (Some 1%nat) c0 e); discriminate.
      * rewrite E1 in E. discriminate.
Qed.


(* the key fact behind it: what a running command read is still what is on disk, and its start tick
   is not later than the clock -- in every configuration a schedule can reach *)
Theorem par_running_inputs_stable lim st s p sched c :
  Good cmd g st -> par_exec cmd g lim sched (init_pcfg st s p) = POk c ->
  forall r, In r (p_run c) ->
    r_snap r = reads g (p_st c) (r_edge r) /\ r_t0 r <= h_clock (p_st c) /\
    forall r', In r' (p_run c) -> r_edge r' <> r_edge r ->
      forall o, In o (outs (r_edge r')) -> ~ In o (insA (r_edge r)).
Proof.
  intros HG E r Hr. pose proof (pg_exec lim sched _ c (pg_init st s p HG) E) as HP.
  destruct (pg_run c HP r Hr) as [_ [_ [A [B _]]]]. split; [exact B|]. split; [exact A|].
  intros r' Hr' Hne. apply (pg_disj c HP r' r Hr' Hr Hne).
Qed.

End Par.

(* ================================================================== Part I: the invariants *)
Section ParInv.
Variable cmd : edge -> N -> snapshot -> node -> content.
Variable g : graph.
Hypothesis Hwf : wf_spec g.
Hypothesis Hwg : wf_graph g.
Hypothesis Hfrag : frag_AB g = true.
Hypothesis Htopo : topo_ordered g = true.

Notation G st := (graph_of g st).
Notation W st := (world_of st).
Notation outs e := (ei_outs (g_edge g e)).
Notation phony e := (ei_phony (g_edge g e)).
Notation insA e := (ei_ins (g_edge g e)).
Notation nd s n := (st_node s n).
Notation Fl x n := (ns_dirty (st_node (c_s x) n)).

Section Build.
Variables (st0 : hstate) (T : list node) (s0 : sstate) (p0 : plan).
Hypothesis HG0 : Good cmd g st0.
Hypothesis Hscan : scan (G st0) (W st0) T = ScanOk s0 p0.
Notation G0 := (graph_of g st0).
Notation ndd e := (needed g T e).
Notation rel := (HistFaithfulProofs.rel g T).
Notation OWNx w e := (HistFaithfulProofs.OWNx g st0 w e).

(* the facts about an accepted scan, from HistFaithfulProofs, at this invocation *)
Lemma Gwf0 st : wf_spec (G st). Proof. exact Hwf. Qed.
Lemma Gwg0 st : wf_graph (G st). Proof. exact Hwg. Qed.
Lemma Gfrag0 st : frag_AB (G st) = true. Proof. exact Hfrag. Qed.
Lemma ndd_lt e : ndd e -> (e < g_nedges g)%nat.
Proof. apply (HistFaithfulProofs.ndd_lt g Hwg T e). Qed.
Lemma rel_out e o : ndd e -> In o (outs e) -> rel o.
Proof. apply (HistFaithfulProofs.rel_out g Hwf T e o). Qed.
Lemma rel_in e i : ndd e -> In i (insA e) -> rel i.
Proof. apply (HistFaithfulProofs.rel_in g T e i). Qed.
Lemma rel_nonoo e i : ndd e -> In i (nonoo_ins g e) -> rel i.
Proof. apply (HistFaithfulProofs.rel_nonoo g T e i). Qed.
Lemma rel_ok n : rel n -> node_ok G0 (W st0) s0 n.
Proof. apply (HistFaithfulProofs.rel_ok g Hwf Hwg Hfrag st0 T s0 p0 Hscan n). Qed.
Lemma rel_NI n : rel n -> NIat G0 (W st0) s0 n.
Proof. apply (HistFaithfulProofs.rel_NI g Hwf Hwg Hfrag st0 T s0 p0 Hscan n). Qed.
Lemma ins0 e : es_ins (st_edge s0 e) = insA e.
Proof. apply (HistFaithfulProofs.ins0 g Hwf Hwg Hfrag st0 T s0 p0 Hscan e). Qed.
Lemma dm0 e : es_deps_missing (st_edge s0 e) = false.
Proof. apply (HistFaithfulProofs.dm0 g Hwf Hwg Hfrag st0 T s0 p0 Hscan e). Qed.
Lemma wanted_ndd e : want_start p0 e = true -> ndd e.
Proof. apply (HistFaithfulProofs.wanted_ndd g Hwf Hwg Hfrag st0 T s0 p0 Hscan e). Qed.
Lemma own_md w e : (e < g_nedges g)%nat -> OWNx w e -> exists o, In o (outs e) /\ must_dirty G0 w o.
Proof. apply (HistFaithfulProofs.own_md g Hwf Hfrag st0 w e). Qed.
Lemma md_cases w e o : (e < g_nedges g)%nat -> In o (outs e) -> must_dirty G0 w o ->
  (exists i, In i (nonoo_ins g e) /\ must_dirty G0 w i) \/
  (phony e = true /\ insA e = []) \/ OWNx w e.
Proof. apply (HistFaithfulProofs.md_cases g Hwf Hfrag st0 w e o). Qed.
Lemma unwanted_clean e : ndd e -> ~ (phony e = true /\ insA e = []) ->
  want_start p0 e = false -> forall o, In o (outs e) -> ~ must_dirty G0 (W st0) o.
Proof. apply (HistFaithfulProofs.unwanted_clean g Hwf Hwg Hfrag st0 T s0 p0 Hscan e). Qed.
Lemma ndd_out e : ndd e -> exists n, In n (outs e) /\ g_producer g n = Some e.
Proof. apply (HistFaithfulProofs.ndd_out g Hwf T e). Qed.
Lemma nonoo_eq x e : st_edge (c_s x) = st_edge s0 -> cn_nonoo G0 (c_s x) e = nonoo_ins g e.
Proof. apply (HistFaithfulProofs.nonoo_eq g Hwf Hwg Hfrag st0 T s0 p0 Hscan x e). Qed.
Lemma out_edges_in x e n : st_edge (c_s x) = st_edge s0 ->
  (In e (out_edges G0 (c_s x) n) <-> (e < g_nedges g)%nat /\ In n (insA e)).
Proof. apply (HistFaithfulProofs.out_edges_in g Hwf Hwg Hfrag st0 T s0 p0 Hscan x e n). Qed.

(* which statements still have a meaningful want flag: the phony ones, and the real ones that have
   not finished ([dn] = the commands finished so far) *)
Definition pendP (dn : list edge) (e : edge) : Prop :=
  (phony e = true /\ insA e <> []) \/ (phony e = false /\ ~ In e dn).

(* the semantic state while the statements [dn] have finished *)
Record HInvP (dn : list edge) (st : hstate) : Prop := mkHInvP {
  hp_good : Good cmd g st;
  hp_hash : h_hash st = h_hash st0;
  hp_clock : h_clock st0 <= h_clock st;
  hp_leaf : forall n, g_producer g n = None -> h_disk st n = h_disk st0 n;
  hp_later : forall n e, g_producer g n = Some e -> ~ In e dn ->
                         h_disk st n = h_disk st0 n /\ h_blog st n = h_blog st0 n;
  hp_fresh : forall n, h_disk st n = h_disk st0 n \/
                       exists m c, h_disk st n = Some (m, c) /\ h_clock st0 < m;
  hp_done : forall e, In e dn -> ndd e /\ phony e = false /\ want_start p0 e = true
}.

(* HistFaithfulProofs.CInv with "has had its turn" = "has finished" *)
Record CInvP (dn : list edge) (st : hstate) (x : cst) (V U : list edge) (Q : node -> Prop) : Prop := mkCInvP {
  cp_E : st_edge (c_s x) = st_edge s0;
  cp_N1 : forall n, rel n -> ns_exists (nd (c_s x) n) = ex_of (mtime_of st0 n);
  cp_N2 : forall n, rel n -> (forall e, g_producer g n = Some e -> phony e = false) ->
                    ns_mtime (nd (c_s x) n) = mtime_of st0 n;
  cp_N3 : forall n e, g_producer g n = Some e -> ndd e -> phony e = true -> ~ In e V -> Fl x n = true ->
                      ns_mtime (nd (c_s x) n) = 0;
  cp_B : forall n, rel n -> Fl x n = false ->
                   forall z, z < ns_mtime (nd (c_s x) n) <-> newer_than G0 (W st) z n;
  cp_L : forall n, rel n -> g_producer g n = None -> (Fl x n = true <-> mtime_of st0 n = 0);
  cp_Wm : forall e, c_want x e = true -> want_start p0 e = true /\ (phony e = true \/ ~ In e dn);
  cp_IP : forall e o, ndd e -> phony e = true -> insA e = [] -> In o (outs e) -> Fl x o = true;
  cp_T1 : forall e o, ndd e -> pendP dn e -> c_want x e = false -> In o (outs e) -> Fl x o = false;
  cp_T2 : forall e o, ndd e -> pendP dn e -> ~ In e V -> c_want x e = true -> In o (outs e) -> Fl x o = true;
  cp_T3 : forall e, ndd e -> pendP dn e -> c_want x e = false ->
                    (forall i, In i (nonoo_ins g e) -> Fl x i = false) /\ ~ OWNx (W st) e;
  cp_T4 : forall e, ndd e -> pendP dn e -> ~ In e V -> ~ In e U -> c_want x e = true ->
                    (exists i, In i (nonoo_ins g e) /\ Fl x i = true) \/ OWNx (W st) e;
  cp_P : forall e o, ndd e -> phony e = false -> In e dn -> In o (outs e) ->
                     (Fl x o = true -> Q o \/ h_clock st0 < mtime_of st o) /\
                     (Fl x o = false -> h_disk st o = h_disk st0 o)
}.

Lemma pend_not_ip dn e : pendP dn e -> ~ (phony e = true /\ insA e = []).
Proof. intros [[_ Hi]|[Hp _]] [Hp' Hnil]; [contradiction|congruence]. Qed.

Lemma hinv_init : HInvP [] st0.
Proof.
  constructor; try reflexivity; try lia.
  - exact HG0.
  - intros n e _ _. split; reflexivity.
  - intros n. left; reflexivity.
  - intros e [].
Qed.

Lemma cinv_init : CInvP [] st0 (init_cst s0 p0) [] [] noN.
Proof.
  destruct HG0 as [[A [B [C [D E]]]] L].
  constructor; cbn [init_cst c_s c_want].
  - reflexivity.
  - intros n Hr. apply (proj1 (rel_NI n Hr)).
  - intros n Hr Hnp. apply (proj2 (rel_NI n Hr)). right. exact Hnp.
  - intros n e Hp Hn Hph _ Hd.
    assert (Hr : rel n) by (unfold HistFaithfulProofs.rel; rewrite Hp; exact Hn).
    rewrite (proj2 (rel_NI n Hr) (or_introl Hd)). cbn [world_of w_mtime]. unfold mtime_of.
    rewrite (D n e Hp Hph). reflexivity.
  - intros n Hr Hd. apply (proj2 (rel_ok n Hr) Hd).
  - intros n Hr Hp. rewrite (proj1 (rel_ok n Hr)). split.
    + intros Hmd. apply (must_dirty_leaf_inv G0 (W st0) n Hmd Hp).
    + intros Hz. apply md_leaf; assumption.
  - intros e Hw. split; [exact Hw|right; intros []].
  - intros e o Hn Hph Hnil Ho. apply (proj1 (rel_ok o (rel_out e o Hn Ho))).
    apply (md_phony G0 (W st0) o e o (o_prod g Hwf e o Ho) Hph Hnil); [|exact Ho|].
    + apply (frag_edge g Hfrag e (ndd_lt e Hn)).
    + cbn [world_of w_mtime]. unfold mtime_of. rewrite (D o e (o_prod g Hwf e o Ho) Hph). reflexivity.
  - intros e o Hn Hpe Hw Ho. destruct (ns_dirty (nd s0 o)) eqn:Hd; [exfalso|reflexivity].
    apply (unwanted_clean e Hn (pend_not_ip [] e Hpe) Hw o Ho). apply (proj1 (rel_ok o (rel_out e o Hn Ho))). exact Hd.
  - intros e o Hn Hpe _ Hw Ho. apply (proj1 (rel_ok o (rel_out e o Hn Ho))).
    destruct (want_sound g Hwf Hwg Hfrag st0 T s0 p0 Hscan e Hw) as [_ [o' [Ho' Hmd]]].
    apply (must_dirty_same_prod G0 (W st0) o' o e (o_prod g Hwf e o' Ho') (o_prod g Hwf e o Ho) Hmd).
  - intros e Hn Hpe Hw. pose proof (unwanted_clean e Hn (pend_not_ip [] e Hpe) Hw) as Hc.
    destruct (ndd_out e Hn) as [n [Hno Hpn]]. split.
    + intros i Hi. destruct (ns_dirty (nd s0 i)) eqn:Hd; [exfalso|reflexivity].
      apply (Hc n Hno). apply (md_input G0 (W st0) n e i Hpn).
      * rewrite (spec_ins_AB g Hfrag st0 (W st0) e (ndd_lt e Hn)). exact Hi.
      * apply (proj1 (rel_ok i (rel_nonoo e i Hn Hi))). exact Hd.
    + intros Ho. destruct (own_md (W st0) e (ndd_lt e Hn) Ho) as [o [Hoo Hmd]]. apply (Hc o Hoo Hmd).
  - intros e Hn Hpe _ _ Hw.
    destruct (want_sound g Hwf Hwg Hfrag st0 T s0 p0 Hscan e Hw) as [_ [o [Ho Hmd]]].
    destruct (md_cases (W st0) e o (ndd_lt e Hn) Ho Hmd) as [[i [Hi Hdi]]|[Hip|Hown]].
    + left. exists i. split; [exact Hi|]. apply (proj1 (rel_ok i (rel_nonoo e i Hn Hi))). exact Hdi.
    + exfalso. apply (pend_not_ip [] e Hpe Hip).
    + right. exact Hown.
  - intros e o _ _ [].
Qed.

(* ---- one cascade: the semantic state [st] (after the command) is fixed *)
Section Cascade.
Variables (dn : list edge) (st : hstate).
Hypothesis HH : HInvP dn st.
Notation w := (world_of st).
(* [blpre]: what was still to come (wanted or running) when the cascade began; a node that was not
   ready then: [NRn].  The cascade only reaches statements with such an input ([NRe]), hence no
   running one. *)
Variable blpre : edge -> bool.
Definition NRn (n : node) : Prop := ~ Rdy g blpre n.
Definition NRe (e : edge) : Prop := exists i, In i (insA e) /\ NRn i.

Lemma NRn_out e n o : blpre e = true -> In n (insA e) -> NRn n -> In o (outs e) -> NRn o.
Proof.
  intros Hb Hi Hn Ho Hr. apply Hn. apply (Rdy_phony_in g blpre o e n Hr (o_prod g Hwf e o Ho) Hb Hi).
Qed.


Lemma cinv_weaken_U x V U U' Q :
  CInvP dn st x V U Q ->
  (forall e, ndd e -> pendP dn e -> ~ In e V -> ~ In e U' -> In e U -> c_want x e = true ->
     (exists i, In i (nonoo_ins g e) /\ Fl x i = true) \/ OWNx w e) ->
  CInvP dn st x V U' Q.
Proof.
  intros H HU. destruct H as [cE cN1 cN2 cN3 cB cL cWm cIP cT1 cT2 cT3 cT4 cP].
  constructor; try assumption.
  intros e Hn Hpe HV HU' Hw. destruct (in_dec Nat.eq_dec e U) as [Hu|Hnu].
  - apply (HU e Hn Hpe HV HU' Hu Hw).
  - apply (cT4 e Hn Hpe HV Hnu Hw).
Qed.

Lemma cinv_weaken_V x V V' U Q : incl V V' -> CInvP dn st x V U Q -> CInvP dn st x V' U Q.
Proof.
  intros Hi H. destruct H as [cE cN1 cN2 cN3 cB cL cWm cIP cT1 cT2 cT3 cT4 cP].
  constructor; try assumption.
  - intros n e Hp Hn Hph HV. apply (cN3 n e Hp Hn Hph). intros Hin. apply HV. apply Hi. exact Hin.
  - intros e o Hn Hpe HV. apply (cT2 e o Hn Hpe). intros Hin. apply HV. apply Hi. exact Hin.
  - intros e Hn Hpe HV. apply (cT4 e Hn Hpe). intros Hin. apply HV. apply Hi. exact Hin.
Qed.

(* the first action of CleanNode: the flag of [n] goes; its out-edges have to be looked at *)
Lemma cinv_clear x V U Q n en :
  CInvP dn st x V U Q -> rel n -> g_producer g n = Some en ->
  (forall z, z < ns_mtime (nd (c_s x) n) <-> newer_than G0 w z n) ->
  ((Q n /\ phony en = false /\ In en dn /\ h_disk st n = h_disk st0 n) \/ (In en V /\ pendP dn en)) ->
  CInvP dn st (mkC (set_dirty (c_s x) n false) (c_want x)) V
       (U ++ out_edges G0 (set_dirty (c_s x) n false) n) (fun m => Q m /\ m <> n).
Proof.
  intros H Hrel Hp HB Hcase. destruct H as [cE cN1 cN2 cN3 cB cL cWm cIP cT1 cT2 cT3 cT4 cP].
  set (s1 := set_dirty (c_s x) n false).
  assert (Ho : forall m, m <> n -> nd s1 m = nd (c_s x) m) by (intros m Hm; apply nd_clear_other; exact Hm).
  assert (Hs : nd s1 n = mkN false (ns_mtime (nd (c_s x) n)) (ns_exists (nd (c_s x) n))) by apply nd_clear_same.
  assert (Hfl : forall m, ns_dirty (nd s1 m) = true -> m <> n /\ Fl x m = true).
  { intros m Hm. destruct (Nat.eq_dec m n) as [->|Hne]; [rewrite Hs in Hm; discriminate|].
    split; [exact Hne|]. rewrite <- (Ho m Hne). exact Hm. }
  assert (Hfl0 : forall m, Fl x m = false -> ns_dirty (nd s1 m) = false).
  { intros m Hm. destruct (Nat.eq_dec m n) as [->|Hne]; [rewrite Hs; reflexivity|rewrite (Ho m Hne); exact Hm]. }
  assert (Hnot_out : forall e, In n (outs e) -> ndd e -> pendP dn e -> ~ In e V -> False).
  { intros e Hin Hn Hpe HV. rewrite (o_prod g Hwf e n Hin) in Hp. inversion Hp; subst en.
    destruct Hcase as [[_ [Hph [Hlt _]]]|[Hv _]]; [|contradiction].
    destruct Hpe as [[Hph' _]|[_ Hle]]; [congruence|contradiction]. }
  constructor; cbn [c_s c_want]; fold s1.
  - exact cE.
  - intros m Hm. destruct (Nat.eq_dec m n) as [->|Hne]; [rewrite Hs; apply (cN1 n Hm)|rewrite (Ho m Hne); apply (cN1 m Hm)].
  - intros m Hm Hnp. destruct (Nat.eq_dec m n) as [->|Hne]; [rewrite Hs; apply (cN2 n Hm Hnp)|rewrite (Ho m Hne); apply (cN2 m Hm Hnp)].
  - intros m e Hpm Hn Hph HV Hd. destruct (Hfl m Hd) as [Hne Hd']. rewrite (Ho m Hne). apply (cN3 m e Hpm Hn Hph HV Hd').
  - intros m Hm Hd z. destruct (Nat.eq_dec m n) as [->|Hne]; [rewrite Hs; apply HB|].
    rewrite (Ho m Hne) in *. apply (cB m Hm Hd z).
  - intros m Hm Hpm. assert (Hne : m <> n) by (intros ->; congruence). rewrite (Ho m Hne). apply (cL m Hm Hpm).
  - exact cWm.
  - intros e o Hn Hph Hnil Hin. assert (Hne : o <> n).
    { intros ->. rewrite (o_prod g Hwf e n Hin) in Hp. inversion Hp; subst en.
      destruct Hcase as [[_ [Hph' _]]|[_ Hpe]]; [congruence|apply (pend_not_ip dn e Hpe); split; assumption]. }
    rewrite (Ho o Hne). apply (cIP e o Hn Hph Hnil Hin).
  - intros e o Hn Hpe Hw Hin. apply Hfl0. apply (cT1 e o Hn Hpe Hw Hin).
  - intros e o Hn Hpe HV Hw Hin. assert (Hne : o <> n) by (intros ->; apply (Hnot_out e Hin Hn Hpe HV)).
    rewrite (Ho o Hne). apply (cT2 e o Hn Hpe HV Hw Hin).
  - intros e Hn Hpe Hw. destruct (cT3 e Hn Hpe Hw) as [A B]. split; [|exact B].
    intros i Hi. apply Hfl0. apply (A i Hi).
  - intros e Hn Hpe HV HU Hw.
    assert (HU1 : ~ In e U) by (intros Hin; apply HU; apply in_or_app; left; exact Hin).
    destruct (cT4 e Hn Hpe HV HU1 Hw) as [[i [Hi Hd]]|Hown]; [|right; exact Hown].
    left. exists i. split; [exact Hi|]. destruct (Nat.eq_dec i n) as [->|Hne]; [|rewrite (Ho i Hne); exact Hd].
    exfalso. apply HU. apply in_or_app. right.
    apply (out_edges_in (mkC s1 (c_want x)) e n cE). split; [apply (ndd_lt e Hn)|apply (nonoo_in g e n Hi)].
  - intros e o Hn Hph Hlt Hin. destruct (cP e o Hn Hph Hlt Hin) as [A B]. split.
    + intros Hd. destruct (Hfl o Hd) as [Hne Hd']. destruct (A Hd') as [Hq|Hf]; [left; split; assumption|right; exact Hf].
    + intros Hd. destruct (Nat.eq_dec o n) as [->|Hne]; [|rewrite (Ho o Hne) in Hd; apply (B Hd)].
      destruct Hcase as [[_ [_ [_ Hdk]]]|[Hv Hpe]]; [exact Hdk|].
      exfalso. rewrite (o_prod g Hwf e n Hin) in Hp. inversion Hp; subst en.
      destruct Hpe as [[Hph' _]|[_ Hle]]; [congruence|contradiction].
Qed.

(* what a cascade may change: flags and wants only go away; the nodes in [P] are not touched *)
Definition frameP (P : node -> Prop) (x x' : cst) : Prop :=
  st_edge (c_s x') = st_edge (c_s x) /\
  (forall m, Fl x' m = true -> Fl x m = true) /\
  (forall e, c_want x' e = true -> c_want x e = true) /\
  (forall m, P m -> nd (c_s x') m = nd (c_s x) m) /\
  (forall e, c_want x e = true -> c_want x' e = false -> NRe e).

Lemma frameP_refl P x : frameP P x x.
Proof. repeat split; auto. intros e H1 H2. congruence. Qed.

Lemma frameP_trans (P P1 P2 : node -> Prop) a b c :
  (forall m, P m -> P1 m) -> (forall m, P m -> P2 m) -> frameP P1 a b -> frameP P2 b c -> frameP P a c.
Proof.
  intros H1 H2 [A1 [A2 [A3 [A4 A5]]]] [B1 [B2 [B3 [B4 B5]]]]. split; [congruence|]. split; [auto|]. split; [auto|]. split.
  - intros m Hm. rewrite (B4 m (H2 m Hm)). apply (A4 m (H1 m Hm)).
  - intros e Ha Hc. destruct (c_want b e) eqn:Hb; [apply (B5 e Hb Hc)|apply (A5 e Ha Hb)].
Qed.

Lemma frameP_clear x n : frameP (fun m => m <> n) x (mkC (set_dirty (c_s x) n false) (c_want x)).
Proof.
  split; [reflexivity|]. split; [|split; [auto|split]].
  - intros m Hm. cbn [c_s] in Hm. destruct (Nat.eq_dec m n) as [->|Hne]; [rewrite nd_clear_same in Hm; discriminate|].
    rewrite (nd_clear_other _ n m Hne) in Hm. exact Hm.
  - intros m Hm. cbn [c_s]. apply nd_clear_other. exact Hm.
  - intros e H1 H2. cbn [c_want] in H2. congruence.
Qed.

(* a pruned statement leaves the plan *)
Lemma cinv_prune x V U Q e :
  CInvP dn st x (e :: V) U Q -> ndd e -> pendP dn e ->
  (forall o, In o (outs e) -> Fl x o = false) ->
  (forall i, In i (nonoo_ins g e) -> Fl x i = false) -> ~ OWNx w e ->
  CInvP dn st (mkC (c_s x) (unwant (c_want x) e)) V U Q.
Proof.
  intros H Hn Hpe Hout Hin Hown. destruct H as [cE cN1 cN2 cN3 cB cL cWm cIP cT1 cT2 cT3 cT4 cP].
  assert (HV : forall e', e' <> e -> ~ In e' V -> ~ In e' (e :: V)).
  { intros e' Hne Hv [Heq|Hi]; [apply Hne; symmetry; exact Heq|apply Hv; exact Hi]. }
  constructor; cbn [c_s c_want]; try assumption.
  - intros n e' Hp Hn' Hph Hv Hd. destruct (Nat.eq_dec e' e) as [Heq|Hne].
    + subst e'. rewrite (Hout n (p_out g Hwf n e Hp)) in Hd. discriminate.
    + apply (cN3 n e' Hp Hn' Hph (HV e' Hne Hv) Hd).
  - intros e' Hw. destruct (Nat.eq_dec e' e) as [Heq|Hne]; [subst e'; rewrite unwant_same in Hw; discriminate|].
    rewrite (unwant_other _ _ _ Hne) in Hw. apply (cWm e' Hw).
  - intros e' o Hn' Hpe' Hw Ho. destruct (Nat.eq_dec e' e) as [Heq|Hne]; [subst e'; apply (Hout o Ho)|].
    rewrite (unwant_other _ _ _ Hne) in Hw. apply (cT1 e' o Hn' Hpe' Hw Ho).
  - intros e' o Hn' Hpe' Hv Hw Ho.
    destruct (Nat.eq_dec e' e) as [Heq|Hne]; [subst e'; rewrite unwant_same in Hw; discriminate|].
    rewrite (unwant_other _ _ _ Hne) in Hw. apply (cT2 e' o Hn' Hpe' (HV e' Hne Hv) Hw Ho).
  - intros e' Hn' Hpe' Hw. destruct (Nat.eq_dec e' e) as [Heq|Hne]; [subst e'; split; assumption|].
    rewrite (unwant_other _ _ _ Hne) in Hw. apply (cT3 e' Hn' Hpe' Hw).
  - intros e' Hn' Hpe' Hv Hu Hw.
    destruct (Nat.eq_dec e' e) as [Heq|Hne]; [subst e'; rewrite unwant_same in Hw; discriminate|].
    rewrite (unwant_other _ _ _ Hne) in Hw. apply (cT4 e' Hn' Hpe' (HV e' Hne Hv) Hu Hw).
Qed.

(* RecomputeOutputsDirty on a phony statement moves the cached mtimes of its outputs *)
Lemma cinv_phony_update x V U Q e s1 :
  CInvP dn st x V U Q -> ndd e -> pendP dn e -> ~ In e V -> c_want x e = true -> phony e = true ->
  st_edge s1 = st_edge (c_s x) ->
  (forall m, ~ In m (outs e) -> nd s1 m = nd (c_s x) m) ->
  (forall m, ns_dirty (nd s1 m) = ns_dirty (nd (c_s x) m) /\ ns_exists (nd s1 m) = ns_exists (nd (c_s x) m)) ->
  CInvP dn st (mkC s1 (c_want x)) (e :: V) U Q.
Proof.
  intros H Hn Hpe Hv Hw Hph HE Hno Hde. destruct H as [cE cN1 cN2 cN3 cB cL cWm cIP cT1 cT2 cT3 cT4 cP].
  assert (Hd : forall m, ns_dirty (nd s1 m) = Fl x m) by (intros m; apply (proj1 (Hde m))).
  assert (HV : forall e', ~ In e' (e :: V) -> e' <> e /\ ~ In e' V).
  { intros e' Hi. split; [intros ->; apply Hi; left; reflexivity|intros Hi'; apply Hi; right; exact Hi']. }
  constructor; cbn [c_s c_want].
  - rewrite HE. exact cE.
  - intros m Hm. rewrite (proj2 (Hde m)). apply (cN1 m Hm).
  - intros m Hm Hnp. rewrite Hno; [apply (cN2 m Hm Hnp)|].
    intros Hin. specialize (Hnp e (o_prod g Hwf e m Hin)). congruence.
  - intros m e' Hp Hn' Hph' Hv' Hdm. destruct (HV e' Hv') as [Hne Hv''].
    rewrite Hd in Hdm. rewrite Hno; [apply (cN3 m e' Hp Hn' Hph' Hv'' Hdm)|].
    intros Hin. rewrite (o_prod g Hwf e m Hin) in Hp. inversion Hp. congruence.
  - intros m Hm Hdm z. rewrite Hd in Hdm. rewrite Hno; [apply (cB m Hm Hdm z)|].
    intros Hin. rewrite (cT2 e m Hn Hpe Hv Hw Hin) in Hdm. discriminate.
  - intros m Hm Hp. rewrite Hd. apply (cL m Hm Hp).
  - exact cWm.
  - intros e' o Hn' Hph' Hnil Ho. rewrite Hd. apply (cIP e' o Hn' Hph' Hnil Ho).
  - intros e' o Hn' Hpe' Hw' Ho. rewrite Hd. apply (cT1 e' o Hn' Hpe' Hw' Ho).
  - intros e' o Hn' Hpe' Hv' Hw' Ho. rewrite Hd. apply (cT2 e' o Hn' Hpe' (proj2 (HV e' Hv')) Hw' Ho).
  - intros e' Hn' Hpe' Hw'. destruct (cT3 e' Hn' Hpe' Hw') as [A B]. split; [|exact B].
    intros i Hi. rewrite Hd. apply (A i Hi).
  - intros e' Hn' Hpe' Hv' Hu Hw'. destruct (cT4 e' Hn' Hpe' (proj2 (HV e' Hv')) Hu Hw') as [[i [Hi Hdi]]|Ho]; [|right; exact Ho].
    left. exists i. split; [exact Hi|]. rewrite Hd. exact Hdi.
  - intros e' o Hn' Hph' Hlt Ho. rewrite Hd. apply (cP e' o Hn' Hph' Hlt Ho).
Qed.

Lemma cinv_weaken_Q x V U (Q Q' : node -> Prop) :
  (forall m, Q m -> Q' m) -> CInvP dn st x V U Q -> CInvP dn st x V U Q'.
Proof.
  intros HQ H. destruct H as [cE cN1 cN2 cN3 cB cL cWm cIP cT1 cT2 cT3 cT4 cP].
  constructor; try assumption.
  intros e o Hn Hph Hlt Ho. destruct (cP e o Hn Hph Hlt Ho) as [A B]. split; [|exact B].
  intros Hd. destruct (A Hd) as [Hq|Hf]; [left; apply HQ; exact Hq|right; exact Hf].
Qed.

(* the cached mtime a cleaned phony output gets is the one make semantics gives it *)
Lemma phony_B x V U Q e o :
  CInvP dn st x V U Q -> ndd e -> pendP dn e -> ~ In e V -> c_want x e = true -> phony e = true ->
  (forall i, In i (nonoo_ins g e) -> Fl x i = false) -> In o (outs e) ->
  forall z, z < phony_mtime (c_s x) (cn_mri (c_s x) (nonoo_ins g e)) o <-> newer_than G0 w z o.
Proof.
  intros H Hn Hpe Hv Hw Hph Hin Ho z.
  destruct HG0 as [[_ [_ [_ [D0 _]]]] _]. destruct (hp_good dn st HH) as [[_ [_ [_ [D1 _]]]] _].
  pose proof (o_prod g Hwf e o Ho) as Hpo.
  assert (Hm0 : mtime_of st0 o = 0) by (unfold mtime_of; rewrite (D0 o e Hpo Hph); reflexivity).
  assert (Hm1 : w_mtime w o = 0) by (cbn [world_of w_mtime]; unfold mtime_of; rewrite (D1 o e Hpo Hph); reflexivity).
  assert (Hex : n_exists (nd (c_s x) o) = false).
  { unfold n_exists. rewrite (cp_N1 _ _ _ _ _ _ H o (rel_out e o Hn Ho)), Hm0. reflexivity. }
  assert (Hmt : ns_mtime (nd (c_s x) o) = 0).
  { apply (cp_N3 _ _ _ _ _ _ H o e Hpo Hn Hph Hv). apply (cp_T2 _ _ _ _ _ _ H e o Hn Hpe Hv Hw Ho). }
  rewrite (newer_missing_phony G0 w z o e Hm1 Hpo Hph).
  assert (HN : (exists i, In i (nonoo_ins G0 e) /\ newer_than G0 w z i) <->
               lt_mri (c_s x) z (cn_mri (c_s x) (nonoo_ins g e))).
  { rewrite (proj1 (cn_mri_spec (c_s x) (nonoo_ins g e)) z).
    split; intros [i [Hi Hz]]; exists i; (split; [exact Hi|]).
    - apply (cp_B _ _ _ _ _ _ H i (rel_nonoo e i Hn Hi) (Hin i Hi) z). exact Hz.
    - apply (cp_B _ _ _ _ _ _ H i (rel_nonoo e i Hn Hi) (Hin i Hi) z). exact Hz. }
  rewrite HN. unfold phony_mtime. rewrite Hex, Hmt.
  destruct (cn_mri (c_s x) (nonoo_ins g e)) as [m|]; cbn [lt_mri]; lia.
Qed.

Definition CN_spec (f : nat) : Prop :=
  forall n x V U Q en,
    CInvP dn st x V U Q -> rel n -> g_producer g n = Some en -> (g_nedges g - en <= f)%nat ->
    (forall v, In v V -> (v <= en)%nat) ->
    (forall z, z < ns_mtime (nd (c_s x) n) <-> newer_than G0 w z n) ->
    ((Q n /\ phony en = false /\ In en dn /\ h_disk st n = h_disk st0 n) \/ (In en V /\ pendP dn en)) ->
    NRn n -> (forall e, c_want x e = true -> blpre e = true) ->
    exists x', clean_node G0 w f n x = Some x' /\ CInvP dn st x' V U (Qminus Q n) /\
               frameP (fun m => m <> n /\ low g en m) x x' /\ Fl x' n = false.

(* "CleanNode every output of oe" *)
Lemma outs_loop f : CN_spec f -> forall e os x V U Q,
  ndd e -> pendP dn e -> In e V -> (g_nedges g - e <= f)%nat -> (forall v, In v V -> (v <= e)%nat) ->
  (forall o, In o os -> In o (outs e)) ->
  CInvP dn st x V U Q ->
  (forall o, In o os -> forall z, z < ns_mtime (nd (c_s x) o) <-> newer_than G0 w z o) ->
  (forall o, In o os -> NRn o) -> (forall e', c_want x e' = true -> blpre e' = true) ->
  exists x', ofold (clean_node G0 w f) os x = Some x' /\ CInvP dn st x' V U Q /\
             frameP (fun m => ~ In m os /\ low g e m) x x' /\ (forall o, In o os -> Fl x' o = false).
Proof.
  intros IH e. induction os as [|o os IHos]; intros x V U Q Hn Hpe Hv Hfuel Hle Hsub HC HB HNR Hmono.
  - exists x. split; [reflexivity|]. split; [exact HC|]. split; [apply frameP_refl|intros o []].
  - cbn [ofold].
    pose proof (Hsub o (or_introl eq_refl)) as Ho. pose proof (o_prod g Hwf e o Ho) as Hpo.
    destruct (IH o x V U Q e HC (rel_out e o Hn Ho) Hpo Hfuel Hle (HB o (or_introl eq_refl))
                 (or_intror (conj Hv Hpe)) (HNR o (or_introl eq_refl)) Hmono) as [x1 [E1 [C1 [F1 D1]]]].
    rewrite E1.
    assert (Hmono1 : forall e', c_want x1 e' = true -> blpre e' = true).
    { intros e' He'. apply Hmono. destruct F1 as [_ [_ [F1w _]]]. apply (F1w e' He'). }
    assert (C1' : CInvP dn st x1 V U Q) by (apply (cinv_weaken_Q x1 V U (Qminus Q o) Q); [intros m [Hq _]; exact Hq|exact C1]).
    destruct (IHos x1 V U Q Hn Hpe Hv Hfuel Hle (fun o' Ho' => Hsub o' (or_intror Ho')) C1') as [x2 [E2 [C2 [F2 D2]]]].
    { intros o' Ho' z. destruct (Nat.eq_dec o' o) as [->|Hne].
      - apply (cp_B _ _ _ _ _ _ C1' o (rel_out e o Hn Ho) D1 z).
      - destruct F1 as [_ [_ [_ [F1n _]]]]. rewrite (F1n o'); [apply (HB o' (or_intror Ho') z)|].
        split; [exact Hne|]. unfold low. rewrite (o_prod g Hwf e o' (Hsub o' (or_intror Ho'))). lia. }
    { intros o' Ho'. apply HNR. right. exact Ho'. }
    { exact Hmono1. }
    exists x2. split; [exact E2|]. split; [exact C2|]. split.
    + apply (frameP_trans _ (fun m => m <> o /\ low g e m) (fun m => ~ In m os /\ low g e m) x x1 x2); [| |exact F1|exact F2].
      * intros m [Hni Hl]. split; [intros ->; apply Hni; left; reflexivity|exact Hl].
      * intros m [Hni Hl]. split; [intros Hi; apply Hni; right; exact Hi|exact Hl].
    + intros o' [<-|Ho']; [|apply D2; exact Ho'].
      destruct (Fl x2 o) eqn:Hd; [|reflexivity]. destruct F2 as [_ [F2f _]]. rewrite (F2f o Hd) in D1. discriminate.
Qed.

(* the loop of CleanNode over the out-edges of [n] *)
Lemma edges_loop f : CN_spec f -> forall n en L x V U Q,
  g_producer g n = Some en -> (g_nedges g - en <= S f)%nat -> (forall v, In v V -> (v <= en)%nat) ->
  (forall e, In e L -> (e < g_nedges g)%nat /\ In n (ei_ins (g_edge g e))) ->
  CInvP dn st x V (U ++ L) Q ->
  NRn n -> (forall e', c_want x e' = true -> blpre e' = true) ->
  exists x', ofold (clean_edge G0 w (clean_node G0 w f)) L x = Some x' /\ CInvP dn st x' V U Q /\
             frameP (low g en) x x'.
Proof.
  intros IH n en. induction L as [|e L IHL]; intros x V U Q Hp Hfuel Hle HL HC HNRn Hmono.
  - rewrite app_nil_r in HC. exists x. split; [reflexivity|]. split; [exact HC|apply frameP_refl].
  - destruct x as [s wt]. cbn [ofold].
    destruct (HL e (or_introl eq_refl)) as [He Hnin].
    assert (Hlt : (en < e)%nat).
    { pose proof (in_below g Htopo e n He Hnin) as Hb. unfold below in Hb. rewrite Hp in Hb. exact Hb. }
    assert (HL' : forall e', In e' L -> (e' < g_nedges g)%nat /\ In n (ei_ins (g_edge g e'))) by (intros e' He'; apply HL; right; exact He').
    pose proof (cp_E _ _ _ _ _ _ HC) as cE. cbn [c_s] in cE.
    assert (Hnoo : cn_nonoo G0 s e = nonoo_ins g e) by (apply (nonoo_eq (mkC s wt) e cE)).
    (* dropping [e] from the exemption list once it has been dealt with *)
    assert (Hdrop : forall y, CInvP dn st y V (U ++ e :: L) Q ->
              (c_want y e = true -> ndd e -> pendP dn e ->
               (exists i, In i (nonoo_ins g e) /\ Fl y i = true) \/ OWNx w e) ->
              CInvP dn st y V (U ++ L) Q).
    { intros y Hy Hconc. apply (cinv_weaken_U y V (U ++ e :: L) (U ++ L) Q Hy).
      intros e' Hn' Hpe' _ Hnot Hin Hw'.
      assert (e' = e).
      { apply in_app_or in Hin. destruct Hin as [Hin|[Heq|Hin]]; [|symmetry; exact Heq|];
          exfalso; apply Hnot; apply in_or_app; [left|right]; exact Hin. }
      subst e'. apply (Hconc Hw' Hn' Hpe'). }
    unfold clean_edge at 1. cbn [c_s c_want].
    destruct (wt e && negb (es_deps_missing (st_edge s e))
              && forallb (fun i => negb (ns_dirty (nd s i))) (cn_nonoo G0 s e))%bool eqn:Hcond.
    2:{ (* not wanted any more, or an input still carries the flag *)
        apply (IHL (mkC s wt) V U Q Hp Hfuel Hle HL'); [|exact HNRn|exact Hmono]. apply (Hdrop _ HC). intros Hw _ _. left.
        cbn [c_want] in Hw. rewrite Hw, cE, dm0 in Hcond. cbn [negb andb] in Hcond.
        destruct (forallb_false _ _ Hcond) as [i [Hi Hfi]]. rewrite Hnoo in Hi.
        exists i. split; [exact Hi|]. cbn [c_s]. apply negb_false_iff in Hfi. exact Hfi. }
    apply andb_true_iff in Hcond. destruct Hcond as [Hcond Hall]. apply andb_true_iff in Hcond. destruct Hcond as [Hw _].
    rewrite Hnoo in *. rewrite forallb_forall in Hall.
    assert (Hclean : forall i, In i (nonoo_ins g e) -> Fl (mkC s wt) i = false).
    { intros i Hi. specialize (Hall i Hi). apply negb_true_iff in Hall. exact Hall. }
    destruct (cp_Wm _ _ _ _ _ _ HC e Hw) as [Hws Hk].
    pose proof (wanted_ndd e Hws) as Hn.
    assert (Hpe : pendP dn e).
    { destruct (phony e) eqn:Hph; [left; split; [exact Hph|intros Hnil; rewrite Hnil in Hnin; destruct Hnin]|].
      right. split; [exact Hph|]. destruct Hk as [Hk|Hk]; [discriminate|exact Hk]. }
    assert (HnV : ~ In e V) by (intros Hin; specialize (Hle e Hin); lia).
    assert (HleV : forall v, In v (e :: V) -> (v <= e)%nat).
    { intros v [<-|Hv]; [lia|]. specialize (Hle v Hv). lia. }
    assert (Hfuel' : (g_nedges g - e <= f)%nat) by lia.
    (* after the outputs have been cleaned: leave the plan, go on with the other out-edges *)
    assert (Hfinish : forall x1, CInvP dn st x1 (e :: V) (U ++ e :: L) Q -> frameP (fun m => ~ In m (outs e)) (mkC s wt) x1 ->
              (forall o, In o (outs e) -> forall z, z < ns_mtime (nd (c_s x1) o) <-> newer_than G0 w z o) ->
              ~ OWNx w e ->
              exists x2, ofold (clean_node G0 w f) (edge_outs G0 e) x1 = Some x2 /\
              exists x', ofold (clean_edge G0 w (clean_node G0 w f)) L (mkC (c_s x2) (unwant (c_want x2) e)) = Some x' /\
                         CInvP dn st x' V U Q /\ frameP (low g en) (mkC s wt) x').
    { intros x1 C1 F1 B1 Hnown.
      assert (Hmono1 : forall e', c_want x1 e' = true -> blpre e' = true).
      { intros e' He'. apply Hmono. destruct F1 as [_ [_ [F1w _]]]. apply (F1w e' He'). }
      destruct (outs_loop f IH e (outs e) x1 (e :: V) (U ++ e :: L) Q Hn Hpe (or_introl eq_refl) Hfuel' HleV
                  (fun o Ho => Ho) C1 B1) as [x2 [E2 [C2 [F2 D2]]]].
      { intros o Ho. apply (NRn_out e n o (Hmono e Hw) Hnin HNRn Ho). }
      { exact Hmono1. }
      exists x2. split; [exact E2|].
      assert (Hc2 : forall i, In i (nonoo_ins g e) -> Fl x2 i = false).
      { intros i Hi. destruct (Fl x2 i) eqn:Hd; [|reflexivity].
        destruct F2 as [_ [F2f _]]. destruct F1 as [_ [F1f _]].
        pose proof (F1f i (F2f i Hd)) as Hx. pose proof (Hclean i Hi) as Hc. cbn [c_s] in Hx, Hc. congruence. }
      pose proof (cinv_prune x2 V (U ++ e :: L) Q e C2 Hn Hpe D2 Hc2 Hnown) as C3.
      set (x3 := mkC (c_s x2) (unwant (c_want x2) e)) in *.
      assert (C3' : CInvP dn st x3 V (U ++ L) Q).
      { apply (Hdrop x3 C3). intros Hw3 _ _. unfold x3 in Hw3. cbn [c_want] in Hw3. rewrite unwant_same in Hw3. discriminate. }
      destruct (IHL x3 V U Q Hp Hfuel Hle HL' C3' HNRn) as [x' [E' [C' F']]].
      { intros e' He'. unfold x3 in He'. cbn [c_want] in He'. apply unwant_le in He'.
        apply Hmono1. destruct F2 as [_ [_ [F2w _]]]. apply (F2w e' He'). }
      exists x'. split; [exact E'|]. split; [exact C'|].
      assert (Hlow : forall m, low g en m -> ~ In m (outs e) /\ low g e m).
      { intros m Hm. unfold low in *. split.
        - intros Hin. rewrite (o_prod g Hwf e m Hin) in Hm. lia.
        - destruct (g_producer g m); [lia|exact I]. }
      assert (F3 : frameP (low g en) (mkC s wt) x3).
      { apply (frameP_trans (low g en) (fun m => ~ In m (outs e)) (fun m => ~ In m (outs e) /\ low g e m) (mkC s wt) x1 x3);
          [intros m Hm; apply (Hlow m Hm)|intros m Hm; exact (Hlow m Hm)|exact F1|].
        destruct F2 as [A [B [C [D E5]]]]. split; [exact A|]. split; [exact B|]. split; [|split; [exact D|]].
        - intros e' He'. unfold x3 in He'. cbn [c_want] in He'. apply C.
          destruct (Nat.eq_dec e' e) as [->|Hne]; [rewrite unwant_same in He'; discriminate|].
          rewrite (unwant_other _ _ _ Hne) in He'. exact He'.
        - intros e' He1 He3. unfold x3 in He3. cbn [c_want] in He3.
          destruct (Nat.eq_dec e' e) as [->|Hne]; [exists n; split; [exact Hnin|exact HNRn]|].
          rewrite (unwant_other _ _ _ Hne) in He3. apply (E5 e' He1 He3). }
      apply (frameP_trans (low g en) (low g en) (low g en) (mkC s wt) x3 x'); auto. }
    destruct (outputs_dirty_all G0 w e (edge_outs G0 e) (cn_mri s (nonoo_ins g e)) s) as [d s1] eqn:Hod.
    destruct (phony e) eqn:Hph.
    + (* a phony statement: never dirty here, its cached mtimes are brought up to date *)
      assert (Hne : es_ins (st_edge s e) <> []) by (rewrite cE, ins0; intros E; rewrite E in Hnin; destruct Hnin).
      assert (Hd : d = false) by (apply (oda_phony_false G0 w e _ Hph _ _ _ _ Hne Hod)). subst d.
      assert (Hmri : forall m, cn_mri s (nonoo_ins g e) = Some m -> ~ In m (edge_outs G0 e)).
      { intros m Hm. pose proof (proj2 (cn_mri_spec s (nonoo_ins g e)) m Hm) as Hin.
        apply (not_out_of_below g Hwf e e m); [apply (in_below g Htopo e m He (nonoo_in g e m Hin))|lia]. }
      destruct (oda_phony G0 w e _ Hph (edge_outs G0 e) Hmri s false s1 Hod) as [E1 [O1 [DX [_ M1]]]].
      pose proof (cinv_phony_update (mkC s wt) V (U ++ e :: L) Q e s1 HC Hn Hpe HnV Hw Hph E1 O1 DX) as C1.
      destruct (Hfinish (mkC s1 wt) C1) as [x2 [E2 [x' [E' [C' F']]]]].
      * split; [exact E1|]. split; [|split; [auto|split; [intros m Hm; apply O1; exact Hm|]]].
        -- intros m Hm. cbn [c_s] in *. rewrite <- (proj1 (DX m)). exact Hm.
        -- intros e' H1 H2. cbn [c_want] in *. congruence.
      * intros o Ho z. cbn [c_s]. rewrite (M1 eq_refl o Ho).
        apply (phony_B (mkC s wt) V (U ++ e :: L) Q e o HC Hn Hpe HnV Hw Hph Hclean Ho z).
      * intros [Hf _]. congruence.
      * cbn [c_want]. rewrite E2. exists x'. split; [exact E'|]. split; assumption.
    + (* a real statement: RecomputeOutputsDirty decides *)
      assert (Hk' : ~ In e dn) by (destruct Hpe as [[Hp' _]|[_ Hk']]; [congruence|exact Hk']).
      assert (Hout : forall o, In o (ei_outs (g_edge G0 e)) ->
                ns_mtime (nd s o) = w_mtime w o /\ ns_exists (nd s o) = ex_of (w_mtime w o)).
      { intros o Ho. change (In o (outs e)) in Ho. pose proof (rel_out e o Hn Ho) as Hr.
        assert (Hm : w_mtime w o = mtime_of st0 o).
        { cbn [world_of w_mtime]. unfold mtime_of.
          rewrite (proj1 (hp_later dn st HH o e (o_prod g Hwf e o Ho) Hk')). reflexivity. }
        rewrite Hm. split; [|apply (cp_N1 _ _ _ _ _ _ HC o Hr)].
        apply (cp_N2 _ _ _ _ _ _ HC o Hr). intros e' He'. rewrite (o_prod g Hwf e o Ho) in He'. inversion He'; subst. exact Hph. }
      destruct (own_test_real G0 w e s (nonoo_ins g e) d s1 Hph Hout) as [Es Hiff]; [|exact Hod|].
      { intros i Hi z. apply (cp_B _ _ _ _ _ _ HC i (rel_nonoo e i Hn Hi) (Hclean i Hi) z). }
      subst s1. destruct d.
      * (* still dirty: stays in the plan *)
        apply (IHL (mkC s wt) V U Q Hp Hfuel Hle HL'); [|exact HNRn|exact Hmono]. apply (Hdrop _ HC). intros _ _ _. right.
        split; [exact Hph|]. apply (proj1 Hiff eq_refl).
      * assert (Hnown : ~ OWNx w e).
        { intros [_ Ho]. assert (false = true) by (apply (proj2 Hiff); exact Ho). discriminate. }
        destruct (Hfinish (mkC s wt)) as [x2 [E2 [x' [E' [C' F']]]]].
        -- apply (cinv_weaken_V (mkC s wt) V (e :: V) (U ++ e :: L) Q); [intros v Hv; right; exact Hv|exact HC].
        -- apply frameP_refl.
        -- intros o Ho z. cbn [c_s]. destruct (Hout o Ho) as [Hm _]. rewrite Hm.
           assert (Hnz : w_mtime w o <> 0).
           { intros Hz. apply Hnown. split; [exact Hph|]. exists o. split; [exact Ho|]. left. left. exact Hz. }
           symmetry. apply (newer_file G0 w z o Hnz).
        -- exact Hnown.
        -- cbn [c_want]. rewrite E2. exists x'. split; [exact E'|]. split; assumption.
Qed.


(* Plan::CleanNode keeps the invariant and never runs out of fuel *)
Theorem clean_node_spec : forall f, CN_spec f.
Proof.
  induction f as [|f IHf]; intros n x V U Q en HC Hrel Hp Hfuel Hle HB Hcase HNRn Hmono.
  - pose proof (Hwg n en Hp). lia.
  - cbn [clean_node].
    pose proof (cinv_clear x V U Q n en HC Hrel Hp HB Hcase) as C1.
    set (x1 := mkC (set_dirty (c_s x) n false) (c_want x)) in *.
    change (set_dirty (c_s x) n false) with (c_s x1).
    destruct (edges_loop f IHf n en (out_edges G0 (c_s x1) n) x1 V U (Qminus Q n) Hp Hfuel Hle) as [x' [E' [C' F']]].
    + intros e He. apply (out_edges_in x1 e n (cp_E _ _ _ _ _ _ C1)). exact He.
    + exact C1.
    + exact HNRn.
    + exact Hmono.
    + exists x'. split; [exact E'|]. split; [exact C'|]. split.
      * apply (frameP_trans _ (fun m => m <> n) (low g en) x x1 x'); [intros m [A _]; exact A|intros m [_ B]; exact B| |exact F'].
        apply frameP_clear.
      * destruct (Fl x' n) eqn:Hd; [|reflexivity]. destruct F' as [_ [Ff _]]. pose proof (Ff n Hd) as Hx.
        unfold x1 in Hx. cbn [c_s] in Hx. rewrite nd_clear_same in Hx. discriminate.
Qed.

End Cascade.


(* ---- Start: the lock tick changes nothing the invariants look at *)
Lemma hinv_tick dn st : HInvP dn st -> HInvP dn (tick st).
Proof.
  intros [A B C D E F K]. constructor; try assumption.
  - apply (good_tick cmd g). exact A.
  - cbn [tick h_clock]. lia.
Qed.

Lemma cinv_tick dn st x V U Q : CInvP dn st x V U Q -> CInvP dn (tick st) x V U Q.
Proof.
  intros [cE cN1 cN2 cN3 cB cL cWm cIP cT1 cT2 cT3 cT4 cP].
  constructor; assumption.
Qed.

Lemma pend_cons dn e0 e : pendP (e0 :: dn) e -> pendP dn e.
Proof. intros [H|[Hp Hk]]; [left; exact H|right; split; [exact Hp|intros Hi; apply Hk; right; exact Hi]]. Qed.

(* ---- Finish: the command's writes and log entries *)
(* the outputs the command of [e] left untouched *)
Definition Qk (e : edge) (st' : hstate) : node -> Prop :=
  fun o => In o (outs e) /\ h_disk st' o = h_disk st0 o.

Lemma finish_inv dn st x e h t0 : (e < g_nedges g)%nat -> HInvP dn st -> CInvP dn st x [] [] noN ->
  c_want x e = true -> phony e = false -> t0 <= h_clock st ->
  let st' := finish_run cmd g st st e h (reads g st e) t0 in
  HInvP (e :: dn) st' /\ CInvP (e :: dn) st' (mkC (c_s x) (unwant (c_want x) e)) [] [] (Qk e st') /\
  (forall o, In o (outs e) -> mtime_of st' o <> 0) /\
  (ei_restat (g_edge g e) = false -> forall o, In o (outs e) -> h_clock st0 < mtime_of st' o).
Proof.
  intros Hk HH HC Hw Hph Ht0. cbn zeta.
  pose proof HH as [HG Hh Hc Hleaf Hlater Hfresh Hdone].
  destruct HG as [[A [B [C [D E]]]] L].
  destruct (finish_run_spec cmd g st st e h (reads g st e) t0 A B Ht0) as [Hh' [Hc' [Hout [Hfs [Hd' [[m [Hm [_ Hlog]]] Hnr]]]]]]. cbn zeta in *.
  set (st' := finish_run cmd g st st e h (reads g st e) t0) in *.
  destruct (cp_Wm _ _ _ _ _ _ HC e Hw) as [Hws Hnd]. pose proof (wanted_ndd e Hws) as Hn.
  assert (Hne : ~ In e dn) by (destruct Hnd as [Hx|Hx]; [congruence|exact Hx]).
  assert (Hpk : pendP dn e) by (right; split; [exact Hph|exact Hne]).
  assert (Hflk : forall o, In o (outs e) -> Fl x o = true).
  { intros o Ho. apply (cp_T2 _ _ _ _ _ _ HC e o Hn Hpk (fun F => F) Hw Ho). }
  assert (HH' : HInvP (e :: dn) st').
  { constructor.
    - apply (good_finish_reads cmd g Hwf Htopo st e t0 (conj (conj A (conj B (conj C (conj D E)))) L) Hk Hph Ht0).
    - congruence.
    - lia.
    - intros n Hp. assert (Hno : ~ In n (outs e)) by (intros Hi; rewrite (o_prod g Hwf e n Hi) in Hp; discriminate).
      rewrite (proj1 (Hout n Hno)). apply (Hleaf n Hp).
    - intros n e' Hp Hle. assert (Hno : ~ In n (outs e)).
      { intros Hi; rewrite (o_prod g Hwf e n Hi) in Hp; inversion Hp; subst e'. apply Hle. left; reflexivity. }
      destruct (Hout n Hno) as [E1 [E2 _]]. rewrite E1, E2. apply (Hlater n e' Hp).
      intros Hi. apply Hle. right. exact Hi.
    - intros n. destruct (Hfs n) as [Hs|[mx [Hx [Hmx _]]]].
      + rewrite Hs. apply Hfresh.
      + right. exists mx. eexists. split; [exact Hx|lia].
    - intros e' [<-|Hi]; [split; [exact Hn|split; [exact Hph|exact Hws]]|apply (Hdone e' Hi)]. }
  split; [exact HH'|].
  (* the flags do not change; the world does, but not under a clean flag *)
  set (Pc := fun m => rel m /\ Fl x m = false).
  assert (Hsame : forall m, ~ In m (outs e) -> w_mtime (W st') m = w_mtime (W st) m /\ w_blog (W st') m = w_blog (W st) m).
  { intros y Hy. cbn [world_of w_mtime w_blog]. unfold mtime_of. destruct (Hout y Hy) as [E1 [E2 _]]. rewrite E1, E2. split; reflexivity. }
  assert (Hpc_no : forall m, Pc m -> ~ In m (outs e)).
  { intros y [_ Hd] Hi. rewrite (Hflk y Hi) in Hd. discriminate. }
  assert (Hpc_cl : forall n e' i, Pc n -> g_producer G0 n = Some e' -> ei_phony (g_edge G0 e') = true ->
                     In i (nonoo_ins G0 e') -> Pc i).
  { intros n e' i [Hr Hd] Hp Hphe Hi. change (g_producer g n = Some e') in Hp. change (phony e' = true) in Hphe.
    change (In i (nonoo_ins g e')) in Hi.
    assert (Hne' : ndd e') by (unfold HistFaithfulProofs.rel in Hr; rewrite Hp in Hr; exact Hr).
    split; [apply (rel_nonoo e' i Hne' Hi)|].
    assert (Hpe : pendP dn e').
    { left. split; [exact Hphe|]. intros Hnil. pose proof (nonoo_in g e' i Hi) as Hx. rewrite Hnil in Hx. destruct Hx. }
    destruct (c_want x e') eqn:Hwe.
    - rewrite (cp_T2 _ _ _ _ _ _ HC e' n Hne' Hpe (fun F => F) Hwe (p_out g Hwf n e' Hp)) in Hd. discriminate.
    - apply (proj1 (cp_T3 _ _ _ _ _ _ HC e' Hne' Hpe Hwe) i Hi). }
  assert (Hnew1 : forall z n, Pc n -> newer_than G0 (W st) z n -> newer_than G0 (W st') z n).
  { intros z n HP Hnw. apply (newer_agree G0 (W st) (W st') Pc); [| |exact Hnw|exact HP].
    - intros n' HP'. apply (proj1 (Hsame n' (Hpc_no n' HP'))).
    - intros n' e' i HP' _. apply (Hpc_cl n' e' i HP'). }
  assert (Hnew2 : forall z n, Pc n -> newer_than G0 (W st') z n -> newer_than G0 (W st) z n).
  { intros z n HP Hnw. apply (newer_agree G0 (W st') (W st) Pc); [| |exact Hnw|exact HP].
    - intros n' HP'. symmetry. apply (proj1 (Hsame n' (Hpc_no n' HP'))).
    - intros n' e' i HP' _. apply (Hpc_cl n' e' i HP'). }
  assert (Hmono : forall z n, newer_than G0 (W st) z n -> newer_than G0 (W st') z n).
  { apply (newer_mono G0 (W st) (W st')).
    - intros n. apply (mtime_le g st n). split; [exact A|split; [exact B|split; [exact C|split; [exact D|exact E]]]].
    - intros n. cbn [world_of w_mtime]. unfold mtime_of. destruct (h_disk st' n) as [[mx c]|] eqn:Hx; [|lia].
      destruct (Hd' n mx c Hx). lia.
    - intros n Hnz. cbn [world_of w_mtime] in *. unfold mtime_of in *. destruct (Hfs n) as [Hs|[mx [Hx [Hmx _]]]].
      + rewrite Hs. lia.
      + rewrite Hx. destruct (h_disk st n) as [[m0 c0]|] eqn:H0; [|contradiction]. destruct (B n m0 c0 H0). lia.
    - intros n e' Hz Hp Hphe. change (g_producer g n = Some e') in Hp. change (phony e' = true) in Hphe.
      assert (Hno : ~ In n (outs e)) by (intros Hi; rewrite (o_prod g Hwf e n Hi) in Hp; inversion Hp; congruence).
      rewrite (proj1 (Hsame n Hno)). exact Hz. }
  assert (Hout_same : forall e' o, e' <> e -> In o (outs e') ->
            w_mtime (W st') o = w_mtime (W st) o /\ w_blog (W st') o = w_blog (W st) o).
  { intros e' o Hne' Ho. apply Hsame. intros Hi. pose proof (o_prod g Hwf e' o Ho) as H1. rewrite (o_prod g Hwf e o Hi) in H1. congruence. }
  assert (Hpend_ne : forall e', pendP (e :: dn) e' -> e' <> e).
  { intros e' [[Hp _]|[_ Hle]] ->; [congruence|apply Hle; left; reflexivity]. }
  split; [|split].
  - destruct HC as [cE cN1 cN2 cN3 cB cL cWm cIP cT1 cT2 cT3 cT4 cP].
    constructor; cbn [c_s c_want]; try assumption.
    + intros n Hr Hd z. rewrite (cB n Hr Hd z). split; [apply (Hnew1 z n (conj Hr Hd))|apply (Hnew2 z n (conj Hr Hd))].
    + intros e' Hwe. destruct (Nat.eq_dec e' e) as [Heq|Hne']; [subst e'; rewrite unwant_same in Hwe; discriminate|].
      rewrite (unwant_other _ _ _ Hne') in Hwe. destruct (cWm e' Hwe) as [X Y]. split; [exact X|].
      destruct Y as [Y|Y]; [left; exact Y|right; intros [Hq|Hq]; [apply Hne'; symmetry; exact Hq|apply Y; exact Hq]].
    + intros e' o Hne' Hpe Hwe Ho. pose proof (Hpend_ne e' Hpe) as Hek. rewrite (unwant_other _ _ _ Hek) in Hwe.
      apply (cT1 e' o Hne' (pend_cons dn e e' Hpe) Hwe Ho).
    + intros e' o Hne' Hpe Hv Hwe Ho. pose proof (Hpend_ne e' Hpe) as Hek. rewrite (unwant_other _ _ _ Hek) in Hwe.
      apply (cT2 e' o Hne' (pend_cons dn e e' Hpe) Hv Hwe Ho).
    + intros e' Hne' Hpe Hwe. pose proof (Hpend_ne e' Hpe) as Hek. rewrite (unwant_other _ _ _ Hek) in Hwe.
      destruct (cT3 e' Hne' (pend_cons dn e e' Hpe) Hwe) as [X Y]. split; [exact X|].
      intros [Hphe [o [Ho Hr]]]. apply Y. split; [exact Hphe|]. exists o. split; [exact Ho|].
      destruct (Hout_same e' o Hek Ho) as [E1 E2].
      apply (out_reason_transfer g st0 (W st') (W st)
               (fun z => exists i, In i (nonoo_ins g e') /\ newer_than G0 (W st') z i)
               (fun z => exists i, In i (nonoo_ins g e') /\ newer_than G0 (W st) z i) e' o (eq_sym E1) (eq_sym E2)); [|exact Hr].
      intros z [i [Hi Hz]]. exists i. split; [exact Hi|].
      apply (Hnew2 z i (conj (rel_nonoo e' i Hne' Hi) (X i Hi)) Hz).
    + intros e' Hne' Hpe Hv Hu Hwe. pose proof (Hpend_ne e' Hpe) as Hek. rewrite (unwant_other _ _ _ Hek) in Hwe.
      destruct (cT4 e' Hne' (pend_cons dn e e' Hpe) Hv Hu Hwe) as [X|[Hphe [o [Ho Hr]]]]; [left; exact X|right].
      split; [exact Hphe|]. exists o. split; [exact Ho|]. destruct (Hout_same e' o Hek Ho) as [E1 E2].
      apply (out_reason_transfer g st0 (W st) (W st')
               (fun z => exists i, In i (nonoo_ins g e') /\ newer_than G0 (W st) z i)
               (fun z => exists i, In i (nonoo_ins g e') /\ newer_than G0 (W st') z i) e' o E1 E2); [|exact Hr].
      intros z [i [Hi Hz]]. exists i. split; [exact Hi|apply (Hmono z i Hz)].
    + intros e' o Hne' Hphe Hin Ho. destruct (Nat.eq_dec e' e) as [Heq|Hek].
      * subst e'. split; [|intros Hd; rewrite (Hflk o Ho) in Hd; discriminate].
        intros _. destruct (Hfs o) as [Hs|[mx [Hx [Hmx _]]]].
        -- left. split; [exact Ho|]. rewrite Hs. apply (proj1 (Hlater o e (o_prod g Hwf e o Ho) Hne)).
        -- right. unfold mtime_of. rewrite Hx. lia.
      * assert (Hno : ~ In o (outs e)).
        { intros Hi. pose proof (o_prod g Hwf e' o Ho) as H1. rewrite (o_prod g Hwf e o Hi) in H1. congruence. }
        assert (Hin' : In e' dn) by (destruct Hin as [Hq|Hq]; [exfalso; apply Hek; symmetry; exact Hq|exact Hq]).
        destruct (cP e' o Hne' Hphe Hin' Ho) as [X Y]. unfold mtime_of in *. rewrite (proj1 (Hout o Hno)). split.
        -- intros Hd. destruct (X Hd) as [[]|Hf]. right. exact Hf.
        -- exact Y.
  - intros o Ho. destruct (Hlog o Ho) as [_ [_ [mo Hdo]]]. unfold mtime_of. rewrite Hdo. destruct (Hd' o mo _ Hdo). lia.
  - intros Hr o Ho. destruct (Hnr Hr o Ho) as [mo [Hdo Hlt]]. unfold mtime_of. rewrite Hdo. lia.
Qed.

(* the wants that go away in a cascade: only statements with an input that was not ready *)
Definition NRf (blpre : edge -> bool) (x y : cst) : Prop :=
  (forall e', c_want y e' = true -> c_want x e' = true) /\
  (forall e', c_want x e' = true -> c_want y e' = false -> NRe blpre e').

Lemma NRf_refl blpre x : NRf blpre x x.
Proof. split; [auto|]. intros e' H1 H2. congruence. Qed.

Lemma NRf_trans blpre a b c : NRf blpre a b -> NRf blpre b c -> NRf blpre a c.
Proof.
  intros [A1 A2] [B1 B2]. split; [auto|].
  intros e' Ha Hc. destruct (c_want b e') eqn:Hb; [apply (B2 e' Hb Hc)|apply (A2 e' Ha Hb)].
Qed.

(* the restat loop of FinishCommand *)
Lemma restat_inv dn st' x e blpre :
  (e < g_nedges g)%nat -> HInvP (e :: dn) st' -> ndd e -> phony e = false ->
  (forall o, In o (outs e) -> mtime_of st' o <> 0) ->
  (ei_restat (g_edge g e) = false -> forall o, In o (outs e) -> h_clock st0 < mtime_of st' o) ->
  CInvP (e :: dn) st' x [] [] (Qk e st') ->
  blpre e = true -> (forall e', c_want x e' = true -> blpre e' = true) ->
  exists x', restat_clean (G st') (W st') e x = Some x' /\ CInvP (e :: dn) st' x' [] [] noN /\ NRf blpre x x'.
Proof.
  intros Hk HH Hn Hph Hnz Hnr HC Hble Hmono. rewrite (G_hash_eq g st0 st' (hp_hash _ _ HH)).
  destruct HG0 as [S0 _].
  assert (Hold : forall o, h_disk st' o = h_disk st0 o -> mtime_of st' o <= h_clock st0).
  { intros o Ho. unfold mtime_of. rewrite Ho. apply (mtime_le g st0 o S0). }
  unfold restat_clean. change (ei_restat (g_edge G0 e)) with (ei_restat (g_edge g e)).
  destruct (ei_restat (g_edge g e)) eqn:Hr.
  2:{ exists x. split; [reflexivity|]. split; [|apply NRf_refl].
      apply (cinv_weaken_Q (e :: dn) st' x [] [] (Qk e st') noN); [|exact HC].
      intros m [Hm Hd]. specialize (Hnr eq_refl m Hm). specialize (Hold m Hd). lia. }
  change (ei_outs (g_edge G0 e)) with (outs e).
  set (Qos := fun (os : list node) (o : node) => In o os /\ h_disk st' o = h_disk st0 o).
  assert (Hloop : forall os y, incl os (outs e) ->
            CInvP (e :: dn) st' y [] [] (Qos os) -> (forall e', c_want y e' = true -> blpre e' = true) ->
            exists x', ofold (fun o y0 => if Z.eqb (ns_mtime (nd (c_s y0) o)) (w_mtime (W st') o)
                                          then clean_node G0 (W st') (clean_fuel G0) o y0 else Some y0) os y = Some x' /\
                       CInvP (e :: dn) st' x' [] [] noN /\ NRf blpre y x').
  { induction os as [|o os IH]; intros y Hinc Hy Hmy.
    - exists y. split; [reflexivity|]. split; [|apply NRf_refl].
      apply (cinv_weaken_Q (e :: dn) st' y [] [] (Qos []) noN); [intros m [[] _]|exact Hy].
    - cbn [ofold]. assert (Ho : In o (outs e)) by (apply Hinc; left; reflexivity).
      pose proof (rel_out e o Hn Ho) as Hrel. pose proof (o_prod g Hwf e o Ho) as Hpo.
      assert (Hc : ns_mtime (nd (c_s y) o) = mtime_of st0 o).
      { apply (cp_N2 _ _ _ _ _ _ Hy o Hrel). intros e' He'. rewrite Hpo in He'. inversion He'; subst. exact Hph. }
      rewrite Hc. cbn [world_of w_mtime].
      destruct (Z.eqb_spec (mtime_of st0 o) (mtime_of st' o)) as [Heq|Hneq].
      + assert (Hsame : h_disk st' o = h_disk st0 o).
        { destruct (hp_fresh _ _ HH o) as [Hs|[mx [c [Hx Hlt]]]]; [exact Hs|].
          exfalso. pose proof (mtime_le g st0 o S0). unfold mtime_of in Heq at 2. rewrite Hx in Heq. lia. }
        destruct (clean_node_spec (e :: dn) st' HH blpre (clean_fuel G0) o y [] [] (Qos (o :: os)) e Hy Hrel Hpo) as [y1 [E1 [C1 [F1 _]]]].
        * unfold clean_fuel. change (g_nedges G0) with (g_nedges g). lia.
        * intros v [].
        * intros z. rewrite Hc, Heq. symmetry. apply (newer_file G0 (W st') z o). exact (Hnz o Ho).
        * left. split; [split; [left; reflexivity|exact Hsame]|]. split; [exact Hph|]. split; [left; reflexivity|exact Hsame].
        * intros Hrd. pose proof (Rdy_real g blpre o e Hrd Hpo Hph). congruence.
        * exact Hmy.
        * rewrite E1.
          assert (N1 : NRf blpre y y1) by (destruct F1 as [_ [_ [F1w [_ F15]]]]; split; assumption).
          destruct (IH y1 (fun o' Ho' => Hinc o' (or_intror Ho'))) as [x' [E' [C' N']]].
          -- apply (cinv_weaken_Q (e :: dn) st' y1 [] [] (Qminus (Qos (o :: os)) o) (Qos os)); [|exact C1].
             intros m [[[Hm|Hm] Hd] Hne]; [exfalso; apply Hne; symmetry; exact Hm|split; assumption].
          -- intros e' He'. apply Hmy. apply (proj1 N1 e' He').
          -- exists x'. split; [exact E'|]. split; [exact C'|apply (NRf_trans blpre y y1 x' N1 N')].
      + apply (IH y (fun o' Ho' => Hinc o' (or_intror Ho'))); [|exact Hmy].
        apply (cinv_weaken_Q (e :: dn) st' y [] [] (Qos (o :: os)) (Qos os)); [|exact Hy].
        intros m [[Hm|Hm] Hd]; [|split; assumption].
        exfalso. subst m. apply Hneq. unfold mtime_of. rewrite Hd. reflexivity. }
  apply (Hloop (outs e) x (incl_refl _)); [exact HC|exact Hmono].
Qed.

(* ---- the invariant of a configuration *)
Record PInv (c : pcfg) : Prop := mkPInv {
  pi_pg : PG cmd g c;
  pi_h : HInvP (p_done c) (p_st c);
  pi_c : CInvP (p_done c) (p_st c) (p_x c) [] [] noN;
  pi_rw : forall r, In r (p_run c) ->
            c_want (p_x c) (r_edge r) = true /\ r_hash r = h_hash st0 (r_edge r) /\ h_clock st0 < r_t0 r
}.

Lemma pinv_init : PInv (init_pcfg st0 s0 p0).
Proof.
  constructor; cbn [init_pcfg p_st p_x p_run p_done].
  - apply (pg_init cmd g st0 s0 p0 HG0).
  - apply hinv_init.
  - apply cinv_init.
  - intros r [].
Qed.

Lemma pinv_start lim c e : PInv c -> start_ok g lim c e = true -> PInv (do_start g c e).
Proof.
  intros [HP HH HC HR] Hok. destruct (start_ok_spec g lim c e Hok) as [He [Hw [Hph _]]].
  constructor; cbn [do_start p_st p_x p_run p_done].
  - apply (pg_start cmd g Hwf lim c e HP Hok).
  - apply hinv_tick. exact HH.
  - apply cinv_tick. exact HC.
  - intros r [<-|Hr]; cbn [r_edge r_hash r_t0]; [|apply (HR r Hr)].
    split; [exact Hw|]. split; [rewrite (hp_hash _ _ HH); reflexivity|].
    cbn [tick h_clock]. pose proof (hp_clock _ _ HH). lia.
Qed.

(* what Finish does, with everything the later layers need about it *)
Lemma pinv_finish_gen c e r R' : PInv c -> take_run e (p_run c) = Some (r, R') ->
  let st := p_st c in
  let st' := finish_run cmd g st st e (r_hash r) (r_snap r) (r_t0 r) in
  (e < g_nedges g)%nat /\ phony e = false /\ c_want (p_x c) e = true /\ ~ In e (p_done c) /\ ndd e /\
  r_snap r = reads g st e /\ r_hash r = h_hash st0 e /\ h_clock st0 < r_t0 r <= h_clock st /\
  (forall i, In i (insA e) -> Rdy g (blocked c) i) /\
  exists x', restat_clean (G st') (W st') e (mkC (c_s (p_x c)) (unwant (c_want (p_x c)) e)) = Some x' /\
             do_finish cmd g c e = POk (mkP st' x' R' (e :: p_done c)) /\
             PInv (mkP st' x' R' (e :: p_done c)) /\
             (forall e', c_want x' e' = true -> c_want (p_x c) e' = true /\ e' <> e).
Proof.
  intros HI Etk. cbn zeta. pose proof HI as [HP HH HC HR].
  destruct (take_run_spec e _ _ _ Etk) as [Hre [Hin [Hsub [Hcov [Hnd' _]]]]].
  destruct (Hnd' (pg_nodup _ _ _ HP)) as [Hnd1 Hne1].
  destruct (pg_run _ _ _ HP r Hin) as [He [Hph [Ht [Hsn Hrdy]]]]. rewrite Hre in *.
  destruct (HR r Hin) as [Hw [Hrh Hlt]]. rewrite Hre in *.
  destruct (cp_Wm _ _ _ _ _ _ HC e Hw) as [Hws Hnd]. pose proof (wanted_ndd e Hws) as Hn.
  assert (Hnotin : ~ In e (p_done c)) by (destruct Hnd as [Hx|Hx]; [congruence|exact Hx]).
  split; [exact He|]. split; [exact Hph|]. split; [exact Hw|]. split; [exact Hnotin|]. split; [exact Hn|].
  split; [exact Hsn|]. split; [exact Hrh|]. split; [lia|]. split; [exact Hrdy|].
  set (st := p_st c) in *. rewrite Hsn.
  destruct (finish_inv (p_done c) st (p_x c) e (r_hash r) (r_t0 r) He HH HC Hw Hph Ht) as [HH' [HC' [Hnz Hnr]]].
  cbn zeta in *. set (st' := finish_run cmd g st st e (r_hash r) (reads g st e) (r_t0 r)) in *.
  assert (Hble : blocked c e = true) by (unfold blocked; rewrite Hw; reflexivity).
  destruct (restat_inv (p_done c) st' _ e (blocked c) He HH' Hn Hph Hnz Hnr HC' Hble) as [x' [Erc [HC'' [N1 N2]]]].
  { intros e' He'. cbn [c_want] in He'. apply unwant_le in He'. unfold blocked. rewrite He'. reflexivity. }
  exists x'. split; [exact Erc|].
  assert (Hdf : do_finish cmd g c e = POk (mkP st' x' R' (e :: p_done c))).
  { unfold do_finish. rewrite Etk. fold st. rewrite Hsn. fold st'. rewrite Erc. reflexivity. }
  split; [exact Hdf|]. split.
  - constructor; cbn [p_st p_x p_run p_done].
    + apply (pg_finish cmd g Hwf Htopo c e _ HP Hdf).
    + exact HH'.
    + exact HC''.
    + intros r' Hr'. destruct (HR r' (Hsub r' Hr')) as [Hw' [Hh' Hl']]. split; [|split; [exact Hh'|exact Hl']].
      destruct (c_want x' (r_edge r')) eqn:Hx; [reflexivity|exfalso].
      assert (Hu : c_want (mkC (c_s (p_x c)) (unwant (c_want (p_x c)) e)) (r_edge r') = true).
      { cbn [c_want]. rewrite (unwant_other _ _ _ (Hne1 r' Hr')). exact Hw'. }
      destruct (N2 (r_edge r') Hu Hx) as [i [Hi Hnr']].
      apply Hnr'. apply (proj2 (proj2 (proj2 (proj2 (pg_run _ _ _ HP r' (Hsub r' Hr'))))) i Hi).
  - intros e' He'. pose proof (N1 e' He') as Hx. cbn [c_want] in Hx. split; [apply (unwant_le _ _ _ Hx)|].
    intros ->. rewrite unwant_same in Hx. discriminate.
Qed.

Lemma pinv_step lim c ev c' : PInv c -> par_step cmd g lim c ev = POk c' -> PInv c'.
Proof.
  intros HI H. destruct ev as [e|e]; cbn [par_step] in H.
  - destruct (start_ok g lim c e) eqn:Hok; [|discriminate]. inversion H; subst. apply (pinv_start lim c e HI Hok).
  - assert (Hd := H). unfold do_finish in Hd. destruct (take_run e (p_run c)) as [[r R']|] eqn:Etk; [|discriminate]. clear Hd.
    destruct (pinv_finish_gen c e r R' HI Etk) as [_ [_ [_ [_ [_ [_ [_ [_ [_ [x' [_ [Hdf [HI' _]]]]]]]]]]]]]. cbn zeta in *.
    rewrite Hdf in H. inversion H; subst. exact HI'.
Qed.

Lemma pinv_exec lim : forall sched c c', PInv c -> par_exec cmd g lim sched c = POk c' -> PInv c'.
Proof.
  induction sched as [|ev sched IH]; intros c c' HP H; cbn [par_exec] in H.
  - inversion H; subst. exact HP.
  - destruct (par_step cmd g lim c ev) as [c1| |] eqn:E; try discriminate.
    apply (IH c1 c' (pinv_step lim c ev c1 HP E) H).
Qed.

(* CleanNode never runs out of fuel, whatever the schedule *)
Lemma par_step_no_fuel lim c ev : PInv c -> par_step cmd g lim c ev <> PFuel.
Proof.
  intros HI. destruct ev as [e|e]; cbn [par_step].
  - destruct (start_ok g lim c e); discriminate.
  - destruct (take_run e (p_run c)) as [[r R']|] eqn:Etk.
    + destruct (pinv_finish_gen c e r R' HI Etk) as [_ [_ [_ [_ [_ [_ [_ [_ [_ [x' [_ [Hdf _]]]]]]]]]]]]. cbn zeta in *.
      rewrite Hdf. discriminate.
    + unfold do_finish. rewrite Etk. discriminate.
Qed.

Lemma par_exec_no_fuel lim : forall sched c, PInv c -> par_exec cmd g lim sched c <> PFuel.
Proof.
  induction sched as [|ev sched IH]; intros c HI; cbn [par_exec]; [discriminate|].
  destruct (par_step cmd g lim c ev) as [c1| |] eqn:E; [|discriminate|].
  - apply (IH c1 (pinv_step lim c ev c1 HI E)).
  - exfalso. apply (par_step_no_fuel lim c ev HI E).
Qed.

(* ================================================================== Part T, C01: the contents *)
Section Clean.
Hypothesis Hgen : forall e h h' S o, ei_generator (g_edge g e) = true -> cmd e h S o = cmd e h' S o.

(* the finished commands have produced the clean contents *)
Definition BcD (dn : list edge) (st : hstate) : Prop :=
  forall e, In e dn -> forall o, In o (outs e) ->
    exists m c, h_disk st o = Some (m, c) /\ clean_of cmd g st0 o = Some c.

(* a statement that is not (any more) in the plan holds the clean contents: it has run (BcD), or
   the scan found it clean, or CleanNode pruned it and the log entry vouches for the content --
   by induction along the edge order, from the FLAGS of its inputs *)
Lemma settled_clean dn st x : HInvP dn st -> CInvP dn st x [] [] noN -> BcD dn st ->
  forall e, ndd e -> phony e = false -> c_want x e = false ->
  forall o, In o (outs e) -> exists m c, h_disk st o = Some (m, c) /\ clean_of cmd g st0 o = Some c.
Proof.
  intros HH HC HB. induction e as [e IH] using lt_wf_ind. intros Hn Hph Hw o Ho.
  destruct (in_dec Nat.eq_dec e dn) as [Hin|Hnin]; [apply (HB e Hin o Ho)|].
  assert (Hpk : pendP dn e) by (right; split; assumption).
  pose proof (ndd_lt e Hn) as Hk.
  destruct (cp_T3 _ _ _ _ _ _ HC e Hn Hpk Hw) as [Hcl Hnown].
  destruct (hp_good _ _ HH) as [[A [B [C [D E]]]] L].
  assert (Hic : forall i, In i (nonoo_ins g e) ->
            content_of st i = clean_of cmd g st0 i /\
            (forall e', g_producer g i = Some e' -> phony e' = false -> h_disk st i <> None)).
  { intros i Hi. pose proof (rel_nonoo e i Hn Hi) as Hrel. pose proof (Hcl i Hi) as Hfl.
    destruct (g_producer g i) as [e'|] eqn:Hpi.
    - pose proof (in_below g Htopo e i Hk (nonoo_in g e i Hi)) as Hlt. unfold below in Hlt. rewrite Hpi in Hlt.
      assert (Hn' : ndd e') by (unfold HistFaithfulProofs.rel in Hrel; rewrite Hpi in Hrel; exact Hrel).
      destruct (phony e') eqn:Hph'.
      + split; [|intros e'' He'' Hp''; inversion He''; subst; congruence].
        unfold content_of. rewrite (D i e' Hpi Hph'). unfold clean_of.
        rewrite (clean_build_out cmd g Htopo _ _ e' i (ndd_lt e' Hn') Hpi), Hph'. reflexivity.
      + assert (Hw' : c_want x e' = false).
        { destruct (c_want x e') eqn:Hw'; [|reflexivity]. exfalso.
          destruct (cp_Wm _ _ _ _ _ _ HC e' Hw') as [_ [Hx|Hx]]; [congruence|].
          assert (Hpe' : pendP dn e') by (right; split; assumption).
          rewrite (cp_T2 _ _ _ _ _ _ HC e' i Hn' Hpe' (fun F => F) Hw' (p_out g Hwf i e' Hpi)) in Hfl. discriminate. }
        destruct (IH e' Hlt Hn' Hph' Hw' i (p_out g Hwf i e' Hpi)) as [mi [ci [Hdi Hci]]].
        split; [unfold content_of; rewrite Hdi, Hci; reflexivity|intros e'' _ _; rewrite Hdi; discriminate].
    - split; [|intros e' He'; discriminate]. rewrite (clean_of_leaf cmd g st0 i Hpi). unfold content_of.
      rewrite (hp_leaf _ _ HH i Hpi). reflexivity. }
  pose proof (o_prod g Hwf e o Ho) as Hpo.
  assert (Hnr : ~ out_reason G0 (W st) (fun z => exists i, In i (nonoo_ins g e) /\ newer_than G0 (W st) z i) e o).
  { intros Hr. apply Hnown. split; [exact Hph|]. exists o. split; assumption. }
  destruct (h_disk st o) as [[mo c]|] eqn:Hdo.
  2:{ exfalso. apply Hnr. left. left. cbn [world_of w_mtime]. unfold mtime_of. rewrite Hdo. reflexivity. }
  destruct (h_blog st o) as [[h m]|] eqn:Hbo.
  2:{ exfalso. apply (E o e Hpo Hph); [rewrite Hdo; discriminate|exact Hbo]. }
  destruct (L e o h m mo c Hph Ho Hbo Hdo) as [S [HS [HmS [HcS Hf]]]].
  exists mo, c. split; [reflexivity|]. rewrite (HistFaithfulProofs.clean_out cmd g Hwf Htopo st0 e o Hk Hph Ho).
  assert (HSeq : S = map (fun i => (i, clean_of cmd g st0 i)) (nonoo_ins g e)).
  { apply snapshot_eq; [exact HmS|]. intros i ci Hi.
    assert (Hin : In i (nonoo_ins g e)) by (rewrite <- HmS; apply (in_map fst S (i, ci) Hi)).
    destruct (Hf i ci Hi) as [F1 F2]. destruct (Hic i Hin) as [Hc1 Hc2]. rewrite <- Hc1.
    assert (Hfresh : forall mi c', h_disk st i = Some (mi, c') -> ci = Some c').
    { intros mi c' Hdi. apply (F2 mi c' Hdi). destruct (Z_le_gt_dec mi m) as [Hle|Hgt]; [exact Hle|].
      exfalso. apply Hnr. right. right. cbn [world_of w_blog]. rewrite Hbo. exists i. split; [exact Hin|].
      apply nt_file; cbn [world_of w_mtime]; unfold mtime_of; rewrite Hdi; [|lia].
      specialize (B i mi c' Hdi). lia. }
    unfold content_of. destruct (h_disk st i) as [[mi c']|] eqn:Hdi; [apply (Hfresh mi c' eq_refl)|].
    destruct (g_producer g i) as [e'|] eqn:Hpi.
    - destruct (phony e') eqn:Hph'; [apply (F1 e' eq_refl Hph')|].
      exfalso. apply (Hc2 e' eq_refl Hph'). reflexivity.
    - exfalso. pose proof (rel_nonoo e i Hn Hin) as Hrel.
      pose proof (Hcl i Hin) as Hfl.
      assert (Hz : mtime_of st0 i = 0) by (unfold mtime_of; rewrite <- (hp_leaf _ _ HH i Hpi), Hdi; reflexivity).
      rewrite (proj2 (cp_L _ _ _ _ _ _ HC i Hrel Hpi) Hz) in Hfl. discriminate. }
  rewrite <- HSeq. f_equal. rewrite HcS.
  destruct (ei_generator (g_edge g e)) eqn:Hgn; [apply Hgen; exact Hgn|].
  destruct (N.eq_dec h (h_hash st0 e)) as [->|Hne]; [reflexivity|].
  exfalso. apply Hnr. left. right. cbn [world_of w_blog]. rewrite Hbo. split; [exact Hgn|exact Hne].
Qed.

(* what is ready for a command to read holds the clean content *)
Lemma ready_clean c : PInv c -> BcD (p_done c) (p_st c) ->
  forall e i, ndd e -> In i (nonoo_ins g e) -> Rdy g (blocked c) i ->
  content_of (p_st c) i = clean_of cmd g st0 i.
Proof.
  intros [HP HH HC HR] HB e i Hn Hi Hrd. pose proof (rel_nonoo e i Hn Hi) as Hrel.
  destruct (hp_good _ _ HH) as [[_ [_ [_ [D _]]]] _].
  destruct (g_producer g i) as [e'|] eqn:Hpi.
  - assert (Hn' : ndd e') by (unfold HistFaithfulProofs.rel in Hrel; rewrite Hpi in Hrel; exact Hrel).
    destruct (phony e') eqn:Hph'.
    + unfold content_of. rewrite (D i e' Hpi Hph'). unfold clean_of.
      rewrite (clean_build_out cmd g Htopo _ _ e' i (ndd_lt e' Hn') Hpi), Hph'. reflexivity.
    + pose proof (Rdy_real g (blocked c) i e' Hrd Hpi Hph') as Hb. unfold blocked in Hb.
      apply orb_false_iff in Hb. destruct Hb as [Hw' _].
      destruct (settled_clean _ _ _ HH HC HB e' Hn' Hph' Hw' i (p_out g Hwf i e' Hpi)) as [mi [ci [Hdi Hci]]].
      unfold content_of. rewrite Hdi, Hci. reflexivity.
  - rewrite (clean_of_leaf cmd g st0 i Hpi). unfold content_of. rewrite (hp_leaf _ _ HH i Hpi). reflexivity.
Qed.

Lemma bcd_finish c e r R' : PInv c -> BcD (p_done c) (p_st c) -> take_run e (p_run c) = Some (r, R') ->
  BcD (e :: p_done c) (finish_run cmd g (p_st c) (p_st c) e (r_hash r) (r_snap r) (r_t0 r)).
Proof.
  intros HI HB Etk.
  destruct (pinv_finish_gen c e r R' HI Etk) as [He [Hph [Hw [Hnotin [Hn [Hsn [Hrh [Ht [Hrdy _]]]]]]]]]. cbn zeta in *.
  destruct (hp_good _ _ (pi_h _ HI)) as [[A [B _]] _].
  destruct (finish_run_spec cmd g (p_st c) (p_st c) e (r_hash r) (r_snap r) (r_t0 r) A B ltac:(lia))
    as [_ [_ [Hout [_ [_ [[m [_ [_ Hlog]]] _]]]]]]. cbn zeta in *.
  intros e' [<-|Hin] o Ho.
  - destruct (Hlog o Ho) as [_ [_ [mo Hd]]]. exists mo. eexists. split; [exact Hd|].
    rewrite (HistFaithfulProofs.clean_out cmd g Hwf Htopo st0 e o He Hph Ho), Hrh, Hsn. f_equal. f_equal.
    unfold reads. apply map_ext_in. intros i Hi. f_equal.
    symmetry. apply (ready_clean c HI HB e i Hn Hi). apply Hrdy. apply (nonoo_in g e i Hi).
  - assert (Hno : ~ In o (outs e)).
    { intros Hi. pose proof (o_prod g Hwf e' o Ho) as H1. rewrite (o_prod g Hwf e o Hi) in H1. congruence. }
    rewrite (proj1 (Hout o Hno)). apply (HB e' Hin o Ho).
Qed.

Lemma bcd_step lim c ev c' : PInv c -> BcD (p_done c) (p_st c) -> par_step cmd g lim c ev = POk c' ->
  BcD (p_done c') (p_st c').
Proof.
  intros HI HB H. destruct ev as [e|e]; cbn [par_step] in H.
  - destruct (start_ok g lim c e); [|discriminate]. inversion H; subst. exact HB.
  - assert (Hd := H). unfold do_finish in Hd. destruct (take_run e (p_run c)) as [[r R']|] eqn:Etk; [|discriminate]. clear Hd.
    destruct (pinv_finish_gen c e r R' HI Etk) as [_ [_ [_ [_ [_ [_ [_ [_ [_ [x' [_ [Hdf _]]]]]]]]]]]]. cbn zeta in *.
    rewrite Hdf in H. inversion H; subst. cbn [p_done p_st]. apply (bcd_finish c e r R' HI HB Etk).
Qed.

Lemma bcd_exec lim : forall sched c c', PInv c -> BcD (p_done c) (p_st c) ->
  par_exec cmd g lim sched c = POk c' -> BcD (p_done c') (p_st c').
Proof.
  induction sched as [|ev sched IH]; intros c c' HI HB H; cbn [par_exec] in H.
  - inversion H; subst. exact HB.
  - destruct (par_step cmd g lim c ev) as [c1| |] eqn:E; try discriminate.
    apply (IH c1 c' (pinv_step lim c ev c1 HI E) (bcd_step lim c ev c1 HI HB E) H).
Qed.

Lemma complete_spec c : complete g c = true ->
  p_run c = [] /\ forall e, (e < g_nedges g)%nat -> phony e = false -> c_want (p_x c) e = false.
Proof.
  unfold complete. intros H. apply andb_true_iff in H. destruct H as [H1 H2].
  split; [apply is_nil_true; exact H1|]. intros e He Hph. rewrite forallb_forall in H2.
  specialize (H2 e ltac:(apply in_seq; lia)). rewrite Hph, orb_false_r in H2. apply negb_true_iff in H2. exact H2.
Qed.

(* after a complete execution everything the targets need holds the clean-build content *)
Lemma c01_final c : PInv c -> BcD (p_done c) (p_st c) -> complete g c = true ->
  forall n, reach g T n -> content_of (p_st c) n = clean_of cmd g st0 n.
Proof.
  intros HI HB Hc n Rn. destruct (complete_spec c Hc) as [_ Hall].
  destruct (hp_good _ _ (pi_h _ HI)) as [[_ [_ [_ [D _]]]] _].
  destruct (g_producer g n) as [e|] eqn:Hp.
  - assert (Hn : ndd e) by (exists n; split; assumption). pose proof (ndd_lt e Hn) as He.
    destruct (phony e) eqn:Hph.
    + unfold content_of. rewrite (D n e Hp Hph). unfold clean_of.
      rewrite (clean_build_out cmd g Htopo _ _ e n He Hp), Hph. reflexivity.
    + destruct (settled_clean _ _ _ (pi_h _ HI) (pi_c _ HI) HB e Hn Hph (Hall e He Hph) n (p_out g Hwf n e Hp)) as [m [c0 [Hd Hcl]]].
      unfold content_of. rewrite Hd, Hcl. reflexivity.
  - rewrite (clean_of_leaf cmd g st0 n Hp). unfold content_of. rewrite (hp_leaf _ _ (pi_h _ HI) n Hp). reflexivity.
Qed.

End Clean.

(* ================================================================== Part T, C02: convergence *)
(* a node that is settled: it carries a clean flag, or it was ready for a consumer to start *)
Definition Calm (c : pcfg) (n : node) : Prop := Fl (p_x c) n = false \/ Rdy g (blocked c) n.

(* ... is not an output of a command still to come *)
Lemma calm_not_pending c n f : PInv c -> Calm c n -> g_producer g n = Some f -> phony f = false ->
  c_want (p_x c) f = true -> False.
Proof.
  intros HI [Hfl|Hrd] Hp Hph Hw.
  - destruct (cp_Wm _ _ _ _ _ _ (pi_c _ HI) f Hw) as [Hws [Hx|Hx]]; [congruence|].
    assert (Hpe : pendP (p_done c) f) by (right; split; assumption).
    rewrite (cp_T2 _ _ _ _ _ _ (pi_c _ HI) f n (wanted_ndd f Hws) Hpe (fun F => F) Hw (p_out g Hwf n f Hp)) in Hfl. discriminate.
  - pose proof (Rdy_real g (blocked c) n f Hrd Hp Hph) as Hb. unfold blocked in Hb. rewrite Hw in Hb. discriminate.
Qed.

(* ... and so is what a phony alias stands for *)
Lemma calm_phony c n e1 i : PInv c -> rel n -> Calm c n -> g_producer g n = Some e1 -> phony e1 = true ->
  In i (nonoo_ins g e1) -> Calm c i.
Proof.
  intros HI Hrel Hc Hp Hph Hi.
  assert (Hn : ndd e1) by (unfold HistFaithfulProofs.rel in Hrel; rewrite Hp in Hrel; exact Hrel).
  assert (Hpe : pendP (p_done c) e1).
  { left. split; [exact Hph|]. intros Hnil. pose proof (nonoo_in g e1 i Hi) as Hx. rewrite Hnil in Hx. destruct Hx. }
  assert (Hunw : c_want (p_x c) e1 = false -> Calm c i).
  { intros Hw. left. apply (proj1 (cp_T3 _ _ _ _ _ _ (pi_c _ HI) e1 Hn Hpe Hw) i Hi). }
  destruct Hc as [Hfl|Hrd].
  - destruct (c_want (p_x c) e1) eqn:Hw; [|apply Hunw; reflexivity].
    rewrite (cp_T2 _ _ _ _ _ _ (pi_c _ HI) e1 n Hn Hpe (fun F => F) Hw (p_out g Hwf n e1 Hp)) in Hfl. discriminate.
  - destruct (blocked c e1) eqn:Hb.
    + right. apply (Rdy_phony_in g (blocked c) n e1 i Hrd Hp Hb (nonoo_in g e1 i Hi)).
    + apply Hunw. unfold blocked in Hb. apply orb_false_iff in Hb. exact (proj1 Hb).
Qed.

Lemma newer_lt_clock st z n : StateOk g st -> newer_than G0 (W st) z n -> z < h_clock st.
Proof.
  intros HS H. pose proof (proj1 HS) as Hc0.
  induction H as [n Hnz Hlt|n Hz Hlt|n e i Hz Hp Hph Hi Hn IH].
  - pose proof (mtime_le g st n HS). cbn [world_of w_mtime] in Hlt. lia.
  - lia.
  - exact IH.
Qed.

(* no non-order-only input of [e] is newer than [t0] or anything later *)
Definition NN (st : hstate) (e : edge) (t0 : Z) : Prop :=
  forall i, In i (nonoo_ins g e) -> forall z, t0 <= z -> ~ newer_than G0 (W st) z i.

Record DInv (c : pcfg) : Prop := mkDInv {
  di_run : forall r, In r (p_run c) ->
    (forall i, In i (nonoo_ins g (r_edge r)) -> Calm c i) /\ NN (p_st c) (r_edge r) (r_t0 r);
  di_done : forall e, In e (p_done c) ->
    exists t0, h_clock st0 < t0 /\ (forall i, In i (nonoo_ins g e) -> Calm c i) /\ NN (p_st c) e t0 /\
      forall o, In o (outs e) ->
        exists m mo co, h_blog (p_st c) o = Some (h_hash st0 e, m) /\ t0 <= m /\
                        h_disk (p_st c) o = Some (mo, co) /\ (ei_restat (g_edge g e) = false -> t0 < mo)
}.

Lemma dinv_init : DInv (init_pcfg st0 s0 p0).
Proof. constructor; cbn [init_pcfg p_run p_done]; [intros r []|intros e []]. Qed.

Lemma calm_mono c c' : flag_le (p_x c) (p_x c') -> (forall e, blocked c' e = true -> blocked c e = true) ->
  forall n, Calm c n -> Calm c' n.
Proof.
  intros Hf Hb n [H|H].
  - left. destruct (Fl (p_x c') n) eqn:E; [|reflexivity]. rewrite (Hf n E) in H. discriminate.
  - right. apply (Rdy_mono g (blocked c) (blocked c') Hb n H).
Qed.

Lemma dinv_start lim c e : PInv c -> DInv c -> start_ok g lim c e = true -> DInv (do_start g c e).
Proof.
  intros HI [HR HD] Hok. destruct (start_ok_spec g lim c e Hok) as [He [Hw [Hph [_ [_ Hrdy]]]]].
  assert (Hcm : forall n, Calm c n -> Calm (do_start g c e) n).
  { apply calm_mono; [intros n Hn; exact Hn|]. intros e' He'. rewrite <- (blocked_start g c e e' Hw). exact He'. }
  constructor; cbn [do_start p_st p_run p_done].
  - intros r [<-|Hr]; cbn [r_edge r_t0].
    + split; [intros i Hi; apply Hcm; right; apply Hrdy; apply (nonoo_in g e i Hi)|].
      intros i Hi z Hz Hnw. change (W (tick (p_st c))) with (W (p_st c)) in Hnw.
      pose proof (newer_lt_clock (p_st c) z i (proj1 (hp_good _ _ (pi_h _ HI))) Hnw). cbn [tick h_clock] in Hz. lia.
    + destruct (HR r Hr) as [A B]. split; [intros i Hi; apply Hcm; apply (A i Hi)|exact B].
  - intros e' He'. destruct (HD e' He') as [t0 [A [B [C D]]]]. exists t0.
    split; [exact A|]. split; [intros i Hi; apply Hcm; apply (B i Hi)|]. split; [exact C|exact D].
Qed.

Lemma dinv_finish c e r R' : PInv c -> DInv c -> take_run e (p_run c) = Some (r, R') ->
  forall c', do_finish cmd g c e = POk c' -> DInv c'.
Proof.
  intros HI [HR HD] Etk c' Hdo.
  destruct (pinv_finish_gen c e r R' HI Etk) as [He [Hph [Hw [Hnotin [Hn [Hsn [Hrh [Ht [Hrdy [x' [Erc [Hdf [HI' Hwl]]]]]]]]]]]]]. cbn zeta in *.
  rewrite Hdf in Hdo. inversion Hdo; subst c'. clear Hdo.
  destruct (take_run_spec e _ _ _ Etk) as [Hre [Hin [Hsub _]]].
  set (st := p_st c) in *. set (st' := finish_run cmd g st st e (r_hash r) (r_snap r) (r_t0 r)) in *.
  set (c' := mkP st' x' R' (e :: p_done c)) in *.
  destruct (hp_good _ _ (pi_h _ HI)) as [[A [B _]] _].
  destruct (finish_run_spec cmd g st st e (r_hash r) (r_snap r) (r_t0 r) A B ltac:(fold st in Ht; lia))
    as [_ [_ [Hout [_ [_ [[m [Hm [_ Hlog]]] Hnr]]]]]]. cbn zeta in *. fold st' in Hout, Hlog, Hnr.
  assert (Hcm : forall n, Calm c n -> Calm c' n).
  { apply calm_mono.
    - intros n Hfn. pose proof (restat_clean_flag_le _ _ _ _ _ Erc n Hfn) as Hx. exact Hx.
    - intros e' Hb. unfold blocked in *. cbn [c' p_x p_run] in Hb. apply orb_true_iff in Hb. apply orb_true_iff.
      destruct Hb as [Hb|Hb]; [left; apply (proj1 (Hwl e' Hb))|right].
      apply running_In in Hb. destruct Hb as [r' [Hr' Heq]]. apply running_In. exists r'. split; [apply Hsub; exact Hr'|exact Heq]. }
  (* what was quiet before the writes of [e] stays quiet *)
  assert (Hnn : forall e1 t, ndd e1 -> (forall i, In i (nonoo_ins g e1) -> Calm c i) -> NN st e1 t -> NN st' e1 t).
  { intros e1 t Hn1 Hc1 H1 i Hi z Hz Hnw. apply (H1 i Hi z Hz).
    apply (newer_agree G0 (W st') (W st) (fun n => rel n /\ Calm c n)); [| |exact Hnw|split; [apply (rel_nonoo e1 i Hn1 Hi)|apply (Hc1 i Hi)]].
    - intros n [_ Hcn]. cbn [world_of w_mtime]. unfold mtime_of.
      assert (Hno : ~ In n (outs e)) by (intros Ho; apply (calm_not_pending c n e HI Hcn (o_prod g Hwf e n Ho) Hph Hw)).
      rewrite (proj1 (Hout n Hno)). reflexivity.
    - intros n e2 i2 [Hrn Hcn] _ Hp2 Hph2 Hi2. change (g_producer g n = Some e2) in Hp2. change (phony e2 = true) in Hph2.
      change (In i2 (nonoo_ins g e2)) in Hi2.
      assert (Hn2 : ndd e2) by (unfold HistFaithfulProofs.rel in Hrn; rewrite Hp2 in Hrn; exact Hrn).
      split; [apply (rel_nonoo e2 i2 Hn2 Hi2)|apply (calm_phony c n e2 i2 HI Hrn Hcn Hp2 Hph2 Hi2)]. }
  constructor; cbn [c' p_st p_run p_done].
  - intros r' Hr'. pose proof (Hsub r' Hr') as Hr0. destruct (HR r' Hr0) as [C1 C2].
    destruct (pi_rw _ HI r' Hr0) as [Hw' _].
    pose proof (wanted_ndd _ (proj1 (cp_Wm _ _ _ _ _ _ (pi_c _ HI) _ Hw'))) as Hn'.
    split; [intros i Hi; apply Hcm; apply (C1 i Hi)|apply (Hnn _ _ Hn' C1 C2)].
  - intros e1 [<-|He1].
    + destruct (HR r Hin) as [C1 C2]. rewrite Hre in *. exists (r_t0 r). split; [lia|].
      split; [intros i Hi; apply Hcm; apply (C1 i Hi)|]. split; [apply (Hnn e (r_t0 r) Hn C1 C2)|].
      intros o Ho. destruct (Hlog o Ho) as [Hb [_ [mo Hd]]]. exists m, mo. eexists.
      split; [rewrite Hb, Hrh; reflexivity|]. split; [lia|]. split; [exact Hd|].
      intros Hrs. destruct (Hnr Hrs o Ho) as [mo' [Hd' Hlt]]. rewrite Hd in Hd'. inversion Hd'; subst mo'. fold st in Ht. lia.
    + destruct (HD e1 He1) as [t0 [D1 [D2 [D3 D4]]]]. exists t0. split; [exact D1|].
      split; [intros i Hi; apply Hcm; apply (D2 i Hi)|].
      split; [apply (Hnn e1 t0 (proj1 (hp_done _ _ (pi_h _ HI) e1 He1)) D2 D3)|].
      intros o Ho. assert (Hno : ~ In o (outs e)).
      { intros Hi. pose proof (o_prod g Hwf e1 o Ho) as H1. rewrite (o_prod g Hwf e o Hi) in H1. inversion H1; subst. contradiction. }
      destruct (Hout o Hno) as [E1 [E2 _]]. rewrite E1, E2. apply (D4 o Ho).
Qed.

Lemma dinv_step lim c ev c' : PInv c -> DInv c -> par_step cmd g lim c ev = POk c' -> DInv c'.
Proof.
  intros HI HD H. destruct ev as [e|e]; cbn [par_step] in H.
  - destruct (start_ok g lim c e) eqn:Hok; [|discriminate]. inversion H; subst. apply (dinv_start lim c e HI HD Hok).
  - assert (Hd := H). unfold do_finish in Hd. destruct (take_run e (p_run c)) as [[r R']|] eqn:Etk; [|discriminate]. clear Hd.
    apply (dinv_finish c e r R' HI HD Etk c' H).
Qed.

Lemma dinv_exec lim : forall sched c c', PInv c -> DInv c ->
  par_exec cmd g lim sched c = POk c' -> DInv c'.
Proof.
  induction sched as [|ev sched IH]; intros c c' HI HD H; cbn [par_exec] in H.
  - inversion H; subst. exact HD.
  - destruct (par_step cmd g lim c ev) as [c1| |] eqn:E; try discriminate.
    apply (IH c1 c' (pinv_step lim c ev c1 HI E) (dinv_step lim c ev c1 HI HD E) H).
Qed.

(* after a complete execution nothing the targets need has to be remade *)
Lemma c02_final c : no_inputless_phony g = true -> PInv c -> DInv c -> complete g c = true ->
  forall e, ndd e -> forall o, In o (outs e) -> ~ must_dirty G0 (W (p_st c)) o.
Proof.
  intros Hnip HI HD Hc. destruct (complete_spec c Hc) as [_ Hall]. set (st := p_st c) in *.
  induction e as [e IH] using lt_wf_ind. intros Hn o Ho Hmd.
  pose proof (ndd_lt e Hn) as He.
  destruct (must_dirty_out_inv G0 (W st) o e Hmd (o_prod g Hwf e o Ho))
    as [[i [Hi Hdi]]|[[Hp [Hnil _]]|[[Hph [o' [Ho' Hr]]]|Hl]]].
  - rewrite (spec_ins_AB g Hfrag st0 (W st) e He) in Hi.
    destruct (g_producer g i) as [e'|] eqn:Hpi.
    + pose proof (in_below g Htopo e i He (nonoo_in g e i Hi)) as Hlt. unfold below in Hlt. rewrite Hpi in Hlt.
      pose proof (rel_nonoo e i Hn Hi) as Hrel. unfold HistFaithfulProofs.rel in Hrel. rewrite Hpi in Hrel.
      apply (IH e' Hlt Hrel i (p_out g Hwf i e' Hpi) Hdi).
    + pose proof (must_dirty_leaf_inv G0 (W st) i Hdi Hpi) as Hz.
      cbn [world_of w_mtime] in Hz. unfold mtime_of in Hz. unfold st in Hz. rewrite (hp_leaf _ _ (pi_h _ HI) i Hpi) in Hz.
      destruct (ndd_out e Hn) as [n [Hno Hpn]].
      assert (Hmd0 : must_dirty G0 (W st0) n).
      { apply (md_input G0 (W st0) n e i Hpn).
        - rewrite (spec_ins_AB g Hfrag st0 (W st0) e He). exact Hi.
        - apply md_leaf; [exact Hpi|exact Hz]. }
      destruct (want_complete g Hwf Hwg Hfrag st0 T s0 p0 Hscan e Hn (ex_intro _ n (conj Hno Hmd0)) (nip_edge g e Hnip He)) as [_ Hl].
      apply (Hl i (nonoo_in g e i Hi) Hpi). unfold mtime_of. exact Hz.
  - apply (nip_edge g e Hnip He). split; [exact Hp|exact Hnil].
  - change (phony e = false) in Hph. change (In o' (outs e)) in Ho'.
    rewrite (spec_ins_AB g Hfrag st0 (W st) e He) in Hr.
    destruct (in_dec Nat.eq_dec e (p_done c)) as [Hin|Hnin].
    + destruct (di_done _ HD e Hin) as [t0 [Ht0 [_ [Hnn Hlog]]]].
      destruct (Hlog o' Ho') as [m [mo [co [Hb [Hm [Hd Hrs]]]]]]. fold st in Hb, Hd, Hnn.
      destruct (hp_good _ _ (pi_h _ HI)) as [[_ [Bd _]] _]. destruct (Bd o' mo co Hd) as [Hmo _].
      unfold out_reason, base_reason, time_reason, used_restat in Hr.
      cbn [world_of w_mtime w_blog] in Hr. unfold mtime_of in Hr. rewrite Hd, Hb in Hr.
      destruct Hr as [[Hz|[_ Hneq]]|[[Hu [i [Hi Hx]]]|[i [Hi Hx]]]].
      * lia.
      * apply Hneq. reflexivity.
      * change (ei_restat (g_edge G0 e)) with (ei_restat (g_edge g e)) in Hu. rewrite andb_true_r in Hu.
        specialize (Hrs Hu). apply (Hnn i Hi mo ltac:(lia) Hx).
      * apply (Hnn i Hi m Hm Hx).
    + assert (Hpe : pendP (p_done c) e) by (right; split; assumption).
      apply (proj2 (cp_T3 _ _ _ _ _ _ (pi_c _ HI) e Hn Hpe (Hall e He Hph))).
      split; [exact Hph|]. exists o'. split; [exact Ho'|exact Hr].
  - unfold spec_load in Hl. change (ei_deps (g_edge G0 e)) with (ei_deps (g_edge g e)) in Hl.
    rewrite (edge_frag g Hfrag e He) in Hl. discriminate.
Qed.

(* ================================================================== Part T, (4): the commands run *)
Section Same.
Hypothesis Hgen : forall e h h' S o, ei_generator (g_edge g e) = true -> cmd e h S o = cmd e h' S o.

(* the command of [e], once run, changes [n]: it is no restat rule, or what the clean build puts there
   is not what was there *)
Definition Rewritten (e : edge) (n : node) : Prop :=
  ei_restat (g_edge g e) = false \/ content_of st0 n <> clean_of cmd g st0 n.

(* which statements run, and which nodes keep their dirty flag -- from the scan's plan, the start
   state and the clean-build contents ONLY: no schedule in sight *)
Inductive Hot : node -> Prop :=
| hot_real n e : g_producer g n = Some e -> phony e = false -> Runs e -> Rewritten e n -> Hot n
| hot_phony n e i : g_producer g n = Some e -> phony e = true -> In i (nonoo_ins g e) -> Hot i -> Hot n
| hot_ip n e : g_producer g n = Some e -> phony e = true -> insA e = [] -> Hot n
with Runs : edge -> Prop :=
| runs_in e i : want_start p0 e = true -> phony e = false -> In i (nonoo_ins g e) -> Hot i -> Runs e
| runs_own e : want_start p0 e = true -> phony e = false -> OWNx (W st0) e -> Runs e.

Lemma hot_producer n : Hot n -> exists e, g_producer g n = Some e.
Proof. intros [n' e Hp _ _ _|n' e i Hp _ _ _|n' e Hp _ _]; exists e; exact Hp. Qed.

Lemma runs_want e : Runs e -> want_start p0 e = true /\ phony e = false.
Proof. intros [e' i Hw Hph _ _|e' Hw Hph _]; split; assumption. Qed.

Lemma finish_run_changed sc st1 e h S t0 n :
  h_disk (finish_run cmd g sc st1 e h S t0) n = h_disk st1 n \/
  (In n (outs e) /\ exists m, h_disk (finish_run cmd g sc st1 e h S t0) n = Some (m, cmd e h S n) /\ h_clock st1 < m /\
                              (ei_restat (g_edge g e) = true -> content_of st1 n <> Some (cmd e h S n))).
Proof.
  unfold finish_run, record. cbn [h_disk].
  destruct (write_outs_changed (ei_restat (g_edge g e)) (cmd e h S) (outs e) st1 n) as [H|[Hin [m [Hm [Hlt Hr]]]]]; cbn zeta in *.
  - left. exact H.
  - right. split; [exact Hin|]. exists m. split; [exact Hm|]. split; [exact Hlt|exact Hr].
Qed.

Record SInvP (c : pcfg) : Prop := mkSInvP {
  sp_bc : BcD (p_done c) (p_st c);
  sp_run : forall r, In r (p_run c) -> Runs (r_edge r);
  sp_done : forall e, In e (p_done c) -> Runs e;
  sp_rw : forall e o, In e (p_done c) -> In o (outs e) ->
            (h_disk (p_st c) o = h_disk st0 o \/ Rewritten e o) /\
            (Rewritten e o -> h_disk (p_st c) o <> h_disk st0 o);
  sp_nodup : NoDup (p_done c);
  sp_trace : h_trace (p_st c) = p_done c ++ h_trace st0
}.

Lemma sinv_init : SInvP (init_pcfg st0 s0 p0).
Proof.
  constructor; cbn [init_pcfg p_st p_run p_done].
  - intros e [].
  - intros r [].
  - intros e [].
  - intros e o [].
  - constructor.
  - reflexivity.
Qed.

(* what is newer in the current world was so at the start, or is hot *)
Lemma newer_or_hot c : PInv c -> SInvP c -> forall z n, newer_than G0 (W (p_st c)) z n ->
  newer_than G0 (W st0) z n \/ Hot n.
Proof.
  intros HI HS z n H. set (st := p_st c) in *.
  destruct HG0 as [S0 _]. destruct S0 as [A0 [B0 [C0 [D0 E0]]]].
  assert (Hch : forall m, h_disk st m <> h_disk st0 m -> Hot m).
  { intros m Hm. destruct (g_producer g m) as [e|] eqn:Hp.
    - destruct (in_dec Nat.eq_dec e (p_done c)) as [Hin|Hnin].
      + destruct (hp_done _ _ (pi_h _ HI) e Hin) as [_ [Hph _]].
        destruct (proj1 (sp_rw _ HS e m Hin (p_out g Hwf m e Hp))) as [Hs|Hrw]; [contradiction|].
        apply (hot_real m e Hp Hph (sp_done _ HS e Hin) Hrw).
      + exfalso. apply Hm. apply (proj1 (hp_later _ _ (pi_h _ HI) m e Hp Hnin)).
    - exfalso. apply Hm. apply (hp_leaf _ _ (pi_h _ HI) m Hp). }
  induction H as [n Hnz Hlt|n Hz Hlt|n e i Hz Hp Hph Hi Hn IH].
  - destruct (hp_fresh _ _ (pi_h _ HI) n) as [Hs|[m [c0 [Hd Hm]]]].
    + left. cbn [world_of w_mtime] in *. unfold mtime_of in *. fold st in Hs. rewrite Hs in Hnz, Hlt. apply nt_file; assumption.
    + right. apply Hch. fold st in Hd. rewrite Hd. intros Heq. symmetry in Heq.
      assert (Hb := mtime_le g st0 n (conj A0 (conj B0 (conj C0 (conj D0 E0))))). unfold mtime_of in Hb. rewrite Heq in Hb. lia.
  - left. apply nt_missing; [|exact Hlt]. cbn [world_of w_mtime] in *. unfold mtime_of in *.
    destruct (hp_fresh _ _ (pi_h _ HI) n) as [Hs|[m [c0 [Hd Hm]]]].
    + fold st in Hs. rewrite <- Hs. exact Hz.
    + fold st in Hd. rewrite Hd in Hz. pose proof (hp_clock _ _ (pi_h _ HI)). lia.
  - change (g_producer g n = Some e) in Hp. change (phony e = true) in Hph. change (In i (nonoo_ins g e)) in Hi.
    destruct IH as [IH|IH].
    + left. apply (nt_phony G0 (W st0) z n e i); [|exact Hp|exact Hph|exact Hi|exact IH].
      cbn [world_of w_mtime]. unfold mtime_of. rewrite (D0 n e Hp Hph). reflexivity.
    + right. apply (hot_phony n e i Hp Hph Hi IH).
Qed.

(* a flag that is still up on a node that is ready for its consumer: the node is hot *)
Lemma flagged_hot c : PInv c -> SInvP c ->
  forall e, ndd e -> c_want (p_x c) e = true ->
  forall i, In i (nonoo_ins g e) -> Fl (p_x c) i = true -> Rdy g (blocked c) i -> Hot i.
Proof.
  intros HI HS. pose proof (pi_c _ HI) as HC.
  induction e as [e IH] using lt_wf_ind. intros Hn Hw i Hi Hfl Hrd.
  pose proof (ndd_lt e Hn) as He. pose proof (rel_nonoo e i Hn Hi) as Hrel.
  destruct (cp_Wm _ _ _ _ _ _ HC e Hw) as [Hws _].
  destruct (g_producer g i) as [e'|] eqn:Hpi.
  - assert (Hlt : (e' < e)%nat).
    { pose proof (in_below g Htopo e i He (nonoo_in g e i Hi)) as Hx. unfold below in Hx. rewrite Hpi in Hx. exact Hx. }
    assert (Hn' : ndd e') by (unfold HistFaithfulProofs.rel in Hrel; rewrite Hpi in Hrel; exact Hrel).
    destruct (phony e') eqn:Hph.
    + destruct (insA e') as [|i0 l0] eqn:Hins; [apply (hot_ip i e' Hpi Hph Hins)|].
      assert (Hpe : pendP (p_done c) e') by (left; split; [exact Hph|rewrite Hins; discriminate]).
      assert (Hw' : c_want (p_x c) e' = true).
      { destruct (c_want (p_x c) e') eqn:Hw'; [reflexivity|].
        rewrite (cp_T1 _ _ _ _ _ _ HC e' i Hn' Hpe Hw' (p_out g Hwf i e' Hpi)) in Hfl. discriminate. }
      assert (Hb : blocked c e' = true) by (unfold blocked; rewrite Hw'; reflexivity).
      destruct (cp_T4 _ _ _ _ _ _ HC e' Hn' Hpe (fun F => F) (fun F => F) Hw') as [[i' [Hi' Hd']]|[Hf _]]; [|congruence].
      apply (hot_phony i e' i' Hpi Hph Hi'). apply (IH e' Hlt Hn' Hw' i' Hi' Hd').
      apply (Rdy_phony_in g (blocked c) i e' i' Hrd Hpi Hb (nonoo_in g e' i' Hi')).
    + pose proof (Rdy_real g (blocked c) i e' Hrd Hpi Hph) as Hb. unfold blocked in Hb. apply orb_false_iff in Hb.
      destruct Hb as [Hw' _].
      destruct (in_dec Nat.eq_dec e' (p_done c)) as [Hin|Hnin].
      * destruct (proj1 (cp_P _ _ _ _ _ _ HC e' i Hn' Hph Hin (p_out g Hwf i e' Hpi)) Hfl) as [[]|Hf].
        destruct (proj1 (sp_rw _ HS e' i Hin (p_out g Hwf i e' Hpi))) as [Hs|Hrw].
        -- exfalso. unfold mtime_of in Hf. rewrite Hs in Hf. destruct HG0 as [S0 _].
           pose proof (mtime_le g st0 i S0) as Hle. unfold mtime_of in Hle. lia.
        -- apply (hot_real i e' Hpi Hph (sp_done _ HS e' Hin) Hrw).
      * assert (Hpe : pendP (p_done c) e') by (right; split; assumption).
        rewrite (cp_T1 _ _ _ _ _ _ HC e' i Hn' Hpe Hw' (p_out g Hwf i e' Hpi)) in Hfl. discriminate.
  - exfalso.
    destruct (want_sound g Hwf Hwg Hfrag st0 T s0 p0 Hscan e Hws) as [_ Hmd].
    destruct (want_complete g Hwf Hwg Hfrag st0 T s0 p0 Hscan e Hn Hmd) as [_ Hl].
    + intros [_ Hnil]. pose proof (nonoo_in g e i Hi) as Hx. rewrite Hnil in Hx. destruct Hx.
    + apply (Hl i (nonoo_in g e i Hi) Hpi). apply (cp_L _ _ _ _ _ _ HC i Hrel Hpi). exact Hfl.
Qed.

(* a command that may start is one that runs *)
Lemma start_runs lim c e : PInv c -> SInvP c -> start_ok g lim c e = true -> Runs e.
Proof.
  intros HI HS Hok. destruct (start_ok_spec g lim c e Hok) as [He [Hw [Hph [_ [_ Hrdy]]]]].
  pose proof (pi_c _ HI) as HC.
  destruct (cp_Wm _ _ _ _ _ _ HC e Hw) as [Hws Hnd]. pose proof (wanted_ndd e Hws) as Hn.
  assert (Hne : ~ In e (p_done c)) by (destruct Hnd as [Hx|Hx]; [congruence|exact Hx]).
  assert (Hpe : pendP (p_done c) e) by (right; split; assumption).
  destruct (cp_T4 _ _ _ _ _ _ HC e Hn Hpe (fun F => F) (fun F => F) Hw) as [[i [Hi Hd]]|[_ [o [Ho Hr]]]].
  - apply (runs_in e i Hws Hph Hi). apply (flagged_hot c HI HS e Hn Hw i Hi Hd). apply Hrdy. apply (nonoo_in g e i Hi).
  - destruct (hp_later _ _ (pi_h _ HI) o e (o_prod g Hwf e o Ho) Hne) as [Ed Eb].
    assert (HN : forall z, (exists i, In i (nonoo_ins g e) /\ newer_than G0 (W (p_st c)) z i) ->
                (exists i, In i (nonoo_ins g e) /\ newer_than G0 (W st0) z i) \/ (exists i, In i (nonoo_ins g e) /\ Hot i)).
    { intros z [i [Hi Hnw]]. destruct (newer_or_hot c HI HS z i Hnw) as [H0|Hh]; [left|right]; exists i; split; assumption. }
    assert (Hown : forall (P : Prop), (base_reason G0 (W st0) e o \/ time_reason G0 (W st0) (fun z => exists i, In i (nonoo_ins g e) /\ newer_than G0 (W st0) z i) e o -> P) ->
                   ((exists i, In i (nonoo_ins g e) /\ Hot i) -> P) -> P).
    { intros P H0 Hh. unfold out_reason, base_reason, time_reason, used_restat in *.
      cbn [world_of w_mtime w_blog] in *. unfold mtime_of in *. rewrite Ed, Eb in Hr.
      destruct Hr as [Hb|[[Hu Hx]|Hx]].
      - apply H0. left. exact Hb.
      - destruct (HN _ Hx) as [Hy|Hy]; [apply H0; right; left; split; [exact Hu|exact Hy]|apply Hh; exact Hy].
      - destruct (h_blog st0 o) as [[h m]|]; [|destruct Hx].
        destruct (HN _ Hx) as [Hy|Hy]; [apply H0; right; right; exact Hy|apply Hh; exact Hy]. }
    apply Hown.
    + intros H0. apply (runs_own e Hws Hph). split; [exact Hph|]. exists o. split; [exact Ho|exact H0].
    + intros [i [Hi Hh]]. apply (runs_in e i Hws Hph Hi Hh).
Qed.

Lemma sinv_start lim c e : PInv c -> SInvP c -> start_ok g lim c e = true -> SInvP (do_start g c e).
Proof.
  intros HI HS Hok. pose proof (start_runs lim c e HI HS Hok) as Hr. destruct HS as [S1 S2 S3 S4 S5 S6].
  constructor; cbn [do_start p_st p_run p_done]; try assumption.
  intros r [<-|Hin]; [exact Hr|apply (S2 r Hin)].
Qed.

Lemma sinv_finish c e r R' : PInv c -> SInvP c -> take_run e (p_run c) = Some (r, R') ->
  forall c', do_finish cmd g c e = POk c' -> SInvP c'.
Proof.
  intros HI HS Etk c' Hdo. pose proof HS as [S1 S2 S3 S4 S5 S6].
  pose proof (bcd_finish Hgen c e r R' HI S1 Etk) as HB'.
  destruct (pinv_finish_gen c e r R' HI Etk) as [He [Hph [Hw [Hnotin [Hn [Hsn [Hrh [Ht [Hrdy [x' [Erc [Hdf [HI' Hwl]]]]]]]]]]]]]. cbn zeta in *.
  rewrite Hdf in Hdo. inversion Hdo; subst c'. clear Hdo.
  destruct (take_run_spec e _ _ _ Etk) as [Hre [Hin [Hsub _]]].
  set (st := p_st c) in *. set (st' := finish_run cmd g st st e (r_hash r) (r_snap r) (r_t0 r)) in *.
  destruct (hp_good _ _ (pi_h _ HI)) as [[A [B _]] _]. fold st in A, B.
  destruct (finish_run_spec cmd g st st e (r_hash r) (r_snap r) (r_t0 r) A B ltac:(lia))
    as [_ [_ [Hout [_ [_ [[m [_ [_ Hlog]]] Hnr]]]]]]. cbn zeta in *. fold st' in Hout, Hlog, Hnr.
  destruct HG0 as [S0 _].
  constructor; cbn [p_st p_run p_done].
  - exact HB'.
  - intros r' Hr'. apply (S2 r' (Hsub r' Hr')).
  - intros e' [<-|He']; [rewrite <- Hre; apply (S2 r Hin)|apply (S3 e' He')].
  - intros e' o [<-|He'] Ho.
    + destruct (hp_later _ _ (pi_h _ HI) o e (o_prod g Hwf e o Ho) Hnotin) as [Ed _]. fold st in Ed.
      destruct (HB' e (or_introl eq_refl) o Ho) as [mo [co [Hdo Hcl]]]. fold st' in Hdo.
      split.
      * destruct (finish_run_changed st st e (r_hash r) (r_snap r) (r_t0 r) o) as [Hs|[_ [m' [Hm' [Hlt Hrs]]]]]; [fold st' in Hs|fold st' in Hm'].
        -- left. rewrite Hs. exact Ed.
        -- destruct (ei_restat (g_edge g e)) eqn:Hre'; [|right; left; exact Hre'].
           right. right. rewrite Hdo in Hm'. inversion Hm'; subst m' co.
           intros Heq. apply (Hrs eq_refl). unfold content_of in *. rewrite Ed. rewrite Heq, Hcl. reflexivity.
      * intros [Hrs|Hne] Heq.
        -- destruct (Hnr Hrs o Ho) as [mo' [Hd' Hlt]]. rewrite Heq in Hd'.
           pose proof (mtime_le g st0 o S0) as Hle. unfold mtime_of in Hle. rewrite Hd' in Hle.
           pose proof (hp_clock _ _ (pi_h _ HI)). fold st in H. lia.
        -- apply Hne. unfold content_of. rewrite <- Heq, Hdo, Hcl. reflexivity.
    + assert (Hno : ~ In o (outs e)).
      { intros Hi. pose proof (o_prod g Hwf e' o Ho) as H1. rewrite (o_prod g Hwf e o Hi) in H1. inversion H1; subst. contradiction. }
      rewrite (proj1 (Hout o Hno)). apply (S4 e' o He' Ho).
  - constructor; assumption.
  - unfold st', finish_run, record. cbn [h_trace app]. f_equal.
    destruct (write_outs_spec (ei_restat (g_edge g e)) (cmd e (r_hash r) (r_snap r)) (outs e) st) as [_ [_ [_ [Tr _]]]].
    cbn zeta in Tr. rewrite Tr. exact S6.
Qed.

Lemma sinv_step lim c ev c' : PInv c -> SInvP c -> par_step cmd g lim c ev = POk c' -> SInvP c'.
Proof.
  intros HI HS H. destruct ev as [e|e]; cbn [par_step] in H.
  - destruct (start_ok g lim c e) eqn:Hok; [|discriminate]. inversion H; subst. apply (sinv_start lim c e HI HS Hok).
  - assert (Hd := H). unfold do_finish in Hd. destruct (take_run e (p_run c)) as [[r R']|] eqn:Etk; [|discriminate]. clear Hd.
    apply (sinv_finish c e r R' HI HS Etk c' H).
Qed.

Lemma sinv_exec lim : forall sched c c', PInv c -> SInvP c ->
  par_exec cmd g lim sched c = POk c' -> SInvP c'.
Proof.
  induction sched as [|ev sched IH]; intros c c' HI HS H; cbn [par_exec] in H.
  - inversion H; subst. exact HS.
  - destruct (par_step cmd g lim c ev) as [c1| |] eqn:E; try discriminate.
    apply (IH c1 c' (pinv_step lim c ev c1 HI E) (sinv_step lim c ev c1 HI HS E) H).
Qed.

(* what is not in the plan any more and has not run does not run; a clean flag is not hot *)
Lemma cold c : PInv c -> SInvP c ->
  forall e, ndd e ->
    (phony e = false -> c_want (p_x c) e = false -> ~ In e (p_done c) -> ~ Runs e) /\
    (forall o, In o (outs e) -> Fl (p_x c) o = false -> ~ Hot o).
Proof.
  intros HI HS. pose proof (pi_c _ HI) as HC. pose proof (pi_h _ HI) as HH.
  induction e as [e IH] using lt_wf_ind. intros Hn. pose proof (ndd_lt e Hn) as He.
  assert (Hcold_in : forall i, In i (nonoo_ins g e) -> Fl (p_x c) i = false -> ~ Hot i).
  { intros i Hi Hfl Hh. destruct (hot_producer i Hh) as [e' Hpi].
    pose proof (in_below g Htopo e i He (nonoo_in g e i Hi)) as Hlt. unfold below in Hlt. rewrite Hpi in Hlt.
    pose proof (rel_nonoo e i Hn Hi) as Hrel. unfold HistFaithfulProofs.rel in Hrel. rewrite Hpi in Hrel.
    apply (proj2 (IH e' Hlt Hrel) i (p_out g Hwf i e' Hpi) Hfl Hh). }
  assert (HR : phony e = false -> c_want (p_x c) e = false -> ~ In e (p_done c) -> ~ Runs e).
  { intros Hph Hw Hnin Hr.
    assert (Hpe : pendP (p_done c) e) by (right; split; assumption).
    destruct (cp_T3 _ _ _ _ _ _ HC e Hn Hpe Hw) as [Hcl Hnown].
    destruct Hr as [e' i _ _ Hi Hh|e' _ _ [_ [o [Ho Hr]]]].
    - apply (Hcold_in i Hi (Hcl i Hi) Hh).
    - apply Hnown. split; [exact Hph|]. exists o. split; [exact Ho|].
      destruct (hp_later _ _ HH o e' (o_prod g Hwf e' o Ho) Hnin) as [Ed Eb].
      apply (out_reason_transfer g st0 (W st0) (W (p_st c))
               (fun z => exists i, In i (nonoo_ins g e') /\ newer_than G0 (W st0) z i)
               (fun z => exists i, In i (nonoo_ins g e') /\ newer_than G0 (W (p_st c)) z i) e' o); [| | |exact Hr].
      + cbn [world_of w_mtime]. unfold mtime_of. rewrite Ed. reflexivity.
      + cbn [world_of w_blog]. exact Eb.
      + intros z [i [Hi Hz]]. exists i. split; [exact Hi|].
        destruct HG0 as [S0 _]. destruct (hp_good _ _ HH) as [S1 _].
        apply (newer_mono G0 (W st0) (W (p_st c))); [| | | |exact Hz].
        * intros n. apply (mtime_le g st0 n S0).
        * intros n. apply (mtime_le g (p_st c) n S1).
        * intros n Hnz. cbn [world_of w_mtime] in *. unfold mtime_of in *.
          destruct (hp_fresh _ _ HH n) as [Hs|[m [c0 [Hd Hm]]]]; [rewrite Hs; lia|].
          rewrite Hd. pose proof (mtime_le g st0 n S0) as Hle. unfold mtime_of in Hle. lia.
        * intros n e2 Hz0 Hp2 Hph2. cbn [world_of w_mtime]. unfold mtime_of.
          destruct S1 as [_ [_ [_ [D1 _]]]]. rewrite (D1 n e2 Hp2 Hph2). reflexivity. }
  split; [exact HR|].
  intros o Ho Hfl Hh. pose proof (o_prod g Hwf e o Ho) as Hpo.
  destruct Hh as [n e' Hp Hph Hr Hrw|n e' i Hp Hph Hi Hh|n e' Hp Hph Hnil]; rewrite Hpo in Hp; inversion Hp; subst e'.
  - destruct (in_dec Nat.eq_dec e (p_done c)) as [Hin|Hnin].
    + apply (proj2 (sp_rw _ HS e n Hin Ho) Hrw). apply (proj2 (cp_P _ _ _ _ _ _ HC e n Hn Hph Hin Ho) Hfl).
    + assert (Hpe : pendP (p_done c) e) by (right; split; assumption).
      assert (Hcase : c_want (p_x c) e = true \/ c_want (p_x c) e = false) by (destruct (c_want (p_x c) e); auto).
      destruct Hcase as [Hw|Hw].
      * rewrite (cp_T2 _ _ _ _ _ _ HC e n Hn Hpe (fun F => F) Hw Ho) in Hfl. discriminate.
      * apply (HR Hph Hw Hnin Hr).
  - assert (Hpe : pendP (p_done c) e).
    { left. split; [exact Hph|]. intros Hnil. pose proof (nonoo_in g e i Hi) as Hx. rewrite Hnil in Hx. destruct Hx. }
    assert (Hcase : c_want (p_x c) e = true \/ c_want (p_x c) e = false) by (destruct (c_want (p_x c) e); auto).
    destruct Hcase as [Hw|Hw].
    + rewrite (cp_T2 _ _ _ _ _ _ HC e n Hn Hpe (fun F => F) Hw Ho) in Hfl. discriminate.
    + apply (Hcold_in i Hi (proj1 (cp_T3 _ _ _ _ _ _ HC e Hn Hpe Hw) i Hi) Hh).
  - rewrite (cp_IP _ _ _ _ _ _ HC e n Hn Hph Hnil Ho) in Hfl. discriminate.
Qed.

(* the commands of a complete execution: exactly [Runs]; the contents: the clean ones where a
   command ran, untouched elsewhere *)
Lemma same_final c : PInv c -> SInvP c -> complete g c = true ->
  (forall e, In e (p_done c) <-> Runs e) /\
  (forall n, match g_producer g n with
             | Some e => (In e (p_done c) /\ content_of (p_st c) n = clean_of cmd g st0 n) \/
                         (~ In e (p_done c) /\ content_of (p_st c) n = content_of st0 n)
             | None => content_of (p_st c) n = content_of st0 n
             end).
Proof.
  intros HI HS Hc. destruct (complete_spec c Hc) as [_ Hall]. split.
  - intros e. split; [apply (sp_done _ HS e)|]. intros Hr.
    destruct (runs_want e Hr) as [Hws Hph]. pose proof (wanted_ndd e Hws) as Hn.
    destruct (in_dec Nat.eq_dec e (p_done c)) as [Hin|Hnin]; [exact Hin|exfalso].
    apply (proj1 (cold c HI HS e Hn) Hph (Hall e (ndd_lt e Hn) Hph) Hnin Hr).
  - intros n. destruct (g_producer g n) as [e|] eqn:Hp.
    + destruct (in_dec Nat.eq_dec e (p_done c)) as [Hin|Hnin].
      * left. split; [exact Hin|]. destruct (sp_bc _ HS e Hin n (p_out g Hwf n e Hp)) as [m [c0 [Hd Hcl]]].
        unfold content_of. rewrite Hd, Hcl. reflexivity.
      * right. split; [exact Hnin|]. unfold content_of. rewrite (proj1 (hp_later _ _ (pi_h _ HI) n e Hp Hnin)). reflexivity.
    + unfold content_of. rewrite (hp_leaf _ _ (pi_h _ HI) n Hp). reflexivity.
Qed.

End Same.

End Build.

(* ================================================================== the theorems *)
Notation Hgen_t := (forall e h h' S o, ei_generator (g_edge g e) = true -> cmd e h S o = cmd e h' S o).

Lemma par_build_inv lim st T sched st' : par_build_j cmd g lim st T sched = Some st' ->
  exists s p c, scan (G st) (W st) T = ScanOk s p /\
                par_exec cmd g lim sched (init_pcfg st s p) = POk c /\ complete g c = true /\ st' = p_st c.
Proof.
  unfold par_build_j, par_run. intros H.
  destruct (scan (G st) (W st) T) as [c|m d|e| |s p]; try discriminate.
  destruct (par_exec cmd g lim sched (init_pcfg st s p)) as [c| |] eqn:E; try discriminate.
  destruct (complete g c) eqn:Hc; [|discriminate]. inversion H; subst.
  exists s, p, c. repeat split; assumption.
Qed.

(* CleanNode never runs out of fuel, under any schedule *)
Theorem par_never_out_of_fuel lim st T sched :
  Good cmd g st -> par_run cmd g lim st T sched <> POutOfFuel.
Proof.
  intros HG. unfold par_run. destruct (scan (G st) (W st) T) as [c|m d|e| |s p] eqn:Hs; try discriminate.
  destruct (par_exec cmd g lim sched (init_pcfg st s p)) as [c| |] eqn:E; try discriminate.
  - destruct (complete g c); discriminate.
  - exfalso. apply (par_exec_no_fuel st T s p HG Hs lim sched _ (pinv_init st T s p HG Hs) E).
Qed.

(* (3) C01 for every valid complete schedule *)
Theorem C01_par_j lim st T sched st' :
  Hgen_t -> Good cmd g st -> par_build_j cmd g lim st T sched = Some st' ->
  forall n, reach g T n -> content_of st' n = clean_of cmd g st' n.
Proof.
  intros Hgen HG H n Rn. destruct (par_build_inv lim st T sched st' H) as [s [p [c [Hs [E [Hc ->]]]]]].
  pose proof (pinv_exec st T s p HG Hs lim sched _ c (pinv_init st T s p HG Hs) E) as HI.
  assert (HB : BcD st (p_done c) (p_st c)).
  { apply (bcd_exec st T s p HG Hs Hgen lim sched _ c (pinv_init st T s p HG Hs)); [|exact E]. intros e []. }
  rewrite (c01_final st T s p Hgen c HI HB Hc n Rn). symmetry.
  apply (clean_of_ext cmd g st (p_st c)); [apply (hp_hash _ _ _ _ _ (pi_h _ _ _ _ _ HI))|].
  intros x Hx. unfold content_of. rewrite (hp_leaf _ _ _ _ _ (pi_h _ _ _ _ _ HI) x Hx). reflexivity.
Qed.

Theorem C01_par st T sched st' :
  Hgen_t -> Good cmd g st -> par_build cmd g st T sched = Some st' ->
  forall n, reach g T n -> content_of st' n = clean_of cmd g st' n.
Proof. apply C01_par_j. Qed.

(* (5) C02 for every valid complete schedule *)
Lemma par_clean_after lim st T sched st' :
  Good cmd g st -> no_inputless_phony g = true -> par_build_j cmd g lim st T sched = Some st' ->
  h_hash st' = h_hash st /\ (forall n, g_producer g n = None -> h_disk st' n = h_disk st n) /\
  forall e, needed g T e -> forall o, In o (outs e) -> ~ must_dirty (G st) (W st') o.
Proof.
  intros HG Hnip H. destruct (par_build_inv lim st T sched st' H) as [s [p [c [Hs [E [Hc ->]]]]]].
  pose proof (pinv_exec st T s p HG Hs lim sched _ c (pinv_init st T s p HG Hs) E) as HI.
  pose proof (dinv_exec st T s p HG Hs lim sched _ c (pinv_init st T s p HG Hs) (dinv_init st s p) E) as HD.
  split; [apply (hp_hash _ _ _ _ _ (pi_h _ _ _ _ _ HI))|]. split; [apply (hp_leaf _ _ _ _ _ (pi_h _ _ _ _ _ HI))|].
  apply (c02_final st T s p Hs c Hnip HI HD Hc).
Qed.

Theorem C02_par_j lim st T sched st' :
  Good cmd g st -> no_inputless_phony g = true -> par_build_j cmd g lim st T sched = Some st' ->
  exists s p, scan (G st') (W st') T = ScanOk s p /\ forall e, p_want p e <> Some WantToStart.
Proof.
  intros HG Hnip H. destruct (par_clean_after lim st T sched st' HG Hnip H) as [Hh [Hsrc Hcl]].
  assert (Hacc : exists s p, scan (G st') (W st') T = ScanOk s p).
  { apply (scan_accepts (G st') (W st') Hwf Hwg Hfrag T Htopo).
    - intros t Ht Hp. unfold par_build_j, par_run in H.
      destruct (scan (G st) (W st) T) as [c|m d|e| |s p] eqn:Hs; try discriminate.
      destruct (scan_leaf_targets (G st) (W st) Hwf Hwg Hfrag T s p Hs t Ht Hp) as [Hnz|Hb]; [left|right; exact Hb].
      cbn [world_of w_mtime] in *. unfold mtime_of in *. rewrite (Hsrc t Hp). exact Hnz.
    - intros e Hn o Ho Hmd. apply (needed_G g T st') in Hn. rewrite (G_hash_eq g st st' Hh) in Hmd.
      apply (Hcl e Hn o Ho Hmd). }
  destruct Hacc as [s2 [p2 Hs2]]. exists s2, p2. split; [exact Hs2|].
  intros e Hw.
  destruct (scan_want_sound (G st') (W st') Hwf Hwg Hfrag T s2 p2 Hs2 e Hw) as [Hn [o [Ho Hmd]]].
  apply (needed_G g T st') in Hn. rewrite (G_hash_eq g st st' Hh) in Hmd. apply (Hcl e Hn o Ho Hmd).
Qed.

Theorem C02_par st T sched st' :
  Good cmd g st -> no_inputless_phony g = true -> par_build cmd g st T sched = Some st' ->
  exists s p, scan (G st') (W st') T = ScanOk s p /\ forall e, p_want p e <> Some WantToStart.
Proof. apply C02_par_j. Qed.

(* ... hence the next invocation has the EMPTY schedule as its complete schedule (also the
   sequential one) and changes nothing *)
Theorem C02_par_idle st T sched st' :
  Good cmd g st -> no_inputless_phony g = true -> par_build cmd g st T sched = Some st' ->
  seq_sched cmd g st' T = [] /\ par_build cmd g st' T [] = Some st'.
Proof.
  intros HG Hnip H. destruct (C02_par st T sched st' HG Hnip H) as [s [p [Hs Hw]]].
  assert (Hx : forall e, c_want (init_cst s p) e = false).
  { intros e. cbn [init_cst c_want]. unfold want_start. specialize (Hw e). destruct (p_want p e) as [[| |]|]; congruence. }
  split.
  - unfold seq_sched. rewrite Hs. generalize (seq 0 (g_nedges g)). induction l as [|e l IH]; [reflexivity|].
    cbn [seq_events]. unfold dirty_now_f. rewrite (Hx e). cbn [andb app].
    unfold build_step_f, dirty_now_f. rewrite (Hx e). cbn [andb]. exact IH.
  - unfold par_build, par_build_j, par_run. rewrite Hs. cbn [par_exec].
    replace (complete g (init_pcfg st' s p)) with true; [reflexivity|]. symmetry.
    unfold complete. cbn [init_pcfg p_run p_x is_nil andb]. apply forallb_forall. intros e _. rewrite (Hx e). reflexivity.
Qed.

(* (4) the commands run and the final contents do not depend on the schedule *)
Theorem par_confluent_j lim1 lim2 st T sched1 sched2 st1 st2 :
  Hgen_t -> Good cmd g st ->
  par_build_j cmd g lim1 st T sched1 = Some st1 -> par_build_j cmd g lim2 st T sched2 = Some st2 ->
  (exists l1 l2, h_trace st1 = l1 ++ h_trace st /\ h_trace st2 = l2 ++ h_trace st /\ Permutation l1 l2) /\
  (forall n, content_of st1 n = content_of st2 n).
Proof.
  intros Hgen HG H1 H2.
  destruct (par_build_inv lim1 st T sched1 st1 H1) as [s [p [c1 [Hs [E1 [Hc1 ->]]]]]].
  destruct (par_build_inv lim2 st T sched2 st2 H2) as [s' [p' [c2 [Hs' [E2 [Hc2 ->]]]]]].
  rewrite Hs in Hs'. inversion Hs'; subst s' p'. clear Hs'.
  pose proof (pinv_init st T s p HG Hs) as HI0. pose proof (sinv_init st s p) as HS0.
  pose proof (pinv_exec st T s p HG Hs lim1 sched1 _ c1 HI0 E1) as HI1.
  pose proof (pinv_exec st T s p HG Hs lim2 sched2 _ c2 HI0 E2) as HI2.
  pose proof (sinv_exec st T s p HG Hs Hgen lim1 sched1 _ c1 HI0 HS0 E1) as HS1.
  pose proof (sinv_exec st T s p HG Hs Hgen lim2 sched2 _ c2 HI0 HS0 E2) as HS2.
  destruct (same_final st T s p HG Hs c1 HI1 HS1 Hc1) as [R1 C1].
  destruct (same_final st T s p HG Hs c2 HI2 HS2 Hc2) as [R2 C2].
  assert (Hsame : forall e, In e (p_done c1) <-> In e (p_done c2)).
  { intros e. rewrite (R1 e), (R2 e). tauto. }
  split.
  - exists (p_done c1), (p_done c2). split; [apply (sp_trace _ _ _ HS1)|]. split; [apply (sp_trace _ _ _ HS2)|].
    apply NoDup_Permutation; [apply (sp_nodup _ _ _ HS1)|apply (sp_nodup _ _ _ HS2)|exact Hsame].
  - intros n. specialize (C1 n). specialize (C2 n). destruct (g_producer g n) as [e|]; [|congruence].
    destruct C1 as [[A1 B1]|[A1 B1]], C2 as [[A2 B2]|[A2 B2]]; try congruence.
    + exfalso. apply A2. apply Hsame. exact A1.
    + exfalso. apply A1. apply Hsame. exact A2.
Qed.

Theorem par_confluent st T sched1 sched2 st1 st2 :
  Hgen_t -> Good cmd g st ->
  par_build cmd g st T sched1 = Some st1 -> par_build cmd g st T sched2 = Some st2 ->
  (exists l1 l2, h_trace st1 = l1 ++ h_trace st /\ h_trace st2 = l2 ++ h_trace st /\ Permutation l1 l2) /\
  (forall n, content_of st1 n = content_of st2 n).
Proof. apply par_confluent_j. Qed.

(* ... in particular they are those of the sequential faithful loop *)
Theorem par_same_commands st T sched stp stf :
  Hgen_t -> Good cmd g st ->
  par_build cmd g st T sched = Some stp -> build_f cmd g st T = Some stf ->
  (exists lp lf, h_trace stp = lp ++ h_trace st /\ h_trace stf = lf ++ h_trace st /\ Permutation lp lf) /\
  (forall n, content_of stp n = content_of stf n).
Proof.
  intros Hgen HG Hp Hf. rewrite <- (par_sequential cmd g Htopo st T) in Hf.
  apply (par_confluent st T sched (seq_sched cmd g st T) stp stf Hgen HG Hp Hf).
Qed.

(* ... and they are exactly the statements [Runs] singles out from the plan of the scan, the
   start state and the clean-build contents, each run once *)
Theorem par_commands_characterized lim st T s p sched st' :
  Hgen_t -> Good cmd g st -> scan (G st) (W st) T = ScanOk s p ->
  par_build_j cmd g lim st T sched = Some st' ->
  exists l, h_trace st' = l ++ h_trace st /\ NoDup l /\ forall e, In e l <-> Runs st p e.
Proof.
  intros Hgen HG Hs H.
  destruct (par_build_inv lim st T sched st' H) as [s' [p' [c [Hs' [E [Hc ->]]]]]].
  rewrite Hs in Hs'. inversion Hs'; subst s' p'. clear Hs'.
  pose proof (pinv_init st T s p HG Hs) as HI0. pose proof (sinv_init st s p) as HS0.
  pose proof (pinv_exec st T s p HG Hs lim sched _ c HI0 E) as HI.
  pose proof (sinv_exec st T s p HG Hs Hgen lim sched _ c HI0 HS0 E) as HS.
  exists (p_done c). split; [apply (sp_trace _ _ _ HS)|]. split; [apply (sp_nodup _ _ _ HS)|].
  apply (proj1 (same_final st T s p HG Hs c HI HS Hc)).
Qed.

(* a complete schedule never fails to exist where the sequential loop succeeds, and conversely *)
Theorem par_schedule_exists st T s p :
  Good cmd g st -> scan (G st) (W st) T = ScanOk s p ->
  exists st', par_build_j cmd g (Some 1%nat) st T (seq_sched cmd g st T) = Some st' /\
              par_build cmd g st T (seq_sched cmd g st T) = Some st' /\ build_f cmd g st T = Some st'.
Proof.
  intros HG Hs. destruct (build_f_never_out_of_fuel cmd g Hwf Hwg Hfrag Htopo st T s p HG Hs) as [st' Hb].
  exists st'. rewrite (par_sequential_j cmd g Htopo st T), (par_sequential cmd g Htopo st T). auto.
Qed.

(* ---- histories in which every Build carries its own schedule *)
Theorem good_pstep st x : Good cmd g st -> step_ok g (fst x) = true -> Good cmd g (apply_pstep cmd g st x).
Proof.
  intros HG Hok. destruct x as [s sched]. unfold apply_pstep. cbn [fst snd] in *.
  destruct s as [n c|n|e h|T].
  - apply (good_step cmd g Hwf Htopo st (Edit n c) HG Hok).
  - apply (good_step cmd g Hwf Htopo st (Delete n) HG Hok).
  - apply (good_step cmd g Hwf Htopo st (SetCmd e h) HG Hok).
  - destruct (par_build cmd g st T sched) as [st'|] eqn:Hb; [|exact HG].
    apply (par_good cmd g Hwf Htopo st T sched st' HG Hb).
Qed.

Theorem good_phist : forall h st, Good cmd g st -> phist_ok g h = true -> Good cmd g (run_phist cmd g st h).
Proof.
  induction h as [|x h IH]; intros st HG Hok; [exact HG|].
  unfold phist_ok in Hok. cbn [map hist_ok forallb] in Hok. apply andb_true_iff in Hok. destruct Hok as [Hx Hh].
  change (run_phist cmd g st (x :: h)) with (run_phist cmd g (apply_pstep cmd g st x) h).
  apply IH; [apply good_pstep; assumption|exact Hh].
Qed.

Theorem C01_history_par h T sched st' :
  Hgen_t -> phist_ok g h = true ->
  par_build cmd g (run_phist cmd g (init_hstate g) h) T sched = Some st' ->
  forall n, reach g T n -> content_of st' n = clean_of cmd g st' n.
Proof.
  intros Hgen Hok Hb. apply (C01_par _ T sched st' Hgen (good_phist h _ (good_init cmd g) Hok) Hb).
Qed.

Theorem C02_history_par h T sched st' :
  phist_ok g h = true -> no_inputless_phony g = true ->
  par_build cmd g (run_phist cmd g (init_hstate g) h) T sched = Some st' ->
  (exists s p, scan (G st') (W st') T = ScanOk s p /\ forall e, p_want p e <> Some WantToStart) /\
  par_build cmd g st' T [] = Some st'.
Proof.
  intros Hok Hnip Hb. pose proof (good_phist h _ (good_init cmd g) Hok) as HG. split.
  - apply (C02_par _ T sched st' HG Hnip Hb).
  - apply (C02_par_idle _ T sched st' HG Hnip Hb).
Qed.

End ParInv.

(* ================================================================== the example projects are models *)
Lemma ExP_wf_spec : wf_spec ExP.g.
Proof.
  split; [|split].
  - intros e o Ho. destruct e as [|[|[|[|[|e]]]]]; cbn in Ho; try (destruct Ho as [<-|[]]; reflexivity); destruct Ho.
  - intros n e Hp. destruct n as [|[|[|[|[|[|[|[|n]]]]]]]]; cbn in Hp; try discriminate; inversion Hp; subst; cbn; left; reflexivity.
  - intros e Hd. exfalso. apply Hd. destruct e as [|[|[|[|[|e]]]]]; reflexivity.
Qed.

Lemma ExP_wf_graph : wf_graph ExP.g.
Proof.
  intros n e Hp. destruct n as [|[|[|[|[|[|[|[|n]]]]]]]]; cbn in Hp; try discriminate; inversion Hp; subst; cbn; lia.
Qed.

Lemma ExP_gen : forall e h h' S o,
  ei_generator (g_edge ExP.g e) = true -> ExP.cmd e h S o = ExP.cmd e h' S o.
Proof. intros e h h' S o H. destruct e as [|[|[|[|[|e]]]]]; cbn in H; discriminate. Qed.

Lemma ExP_good : Good ExP.cmd ExP.g ExP.st1.
Proof.
  apply (good_hist ExP.cmd ExP.g ExP_wf_spec); [reflexivity|apply good_init|reflexivity].
Qed.

(* the premises of the theorems hold of the interleaved schedule of HistParDefs.ExP: it is a
   valid complete schedule (-j 2) from a Good state of a graph in the fragment *)
Example ExP_interleaved_is_schedule :
  wf_spec ExP.g /\ wf_graph ExP.g /\ frag_AB ExP.g = true /\ topo_ordered ExP.g = true /\
  no_inputless_phony ExP.g = true /\ Good ExP.cmd ExP.g ExP.st1 /\
  exists st', par_build_j ExP.cmd ExP.g (Some 2%nat) ExP.st1 [5%nat] ExP.inter = Some st'.
Proof.
  split; [exact ExP_wf_spec|]. split; [exact ExP_wf_graph|]. split; [reflexivity|]. split; [reflexivity|].
  split; [reflexivity|]. split; [exact ExP_good|]. eexists. vm_compute. reflexivity.
Qed.

(* ================================================================== names used by Properties_C01par.v *)
Definition par_sequential_proof := par_sequential.
Definition par_sequential_j_proof := par_sequential_j.
Definition par_build_j_sound_proof := par_build_j_sound.
Definition par_good_proof := par_good.
Definition par_good_j_proof := par_good_j.
Definition par_running_inputs_stable_proof := par_running_inputs_stable.
Definition par_never_out_of_fuel_proof := par_never_out_of_fuel.
Definition C01_par_proof := C01_par.
Definition C01_par_j_proof := C01_par_j.
Definition C01_history_par_proof := C01_history_par.
Definition par_same_commands_proof := par_same_commands.
Definition par_confluent_proof := par_confluent.
Definition par_confluent_j_proof := par_confluent_j.
Definition par_commands_characterized_proof := par_commands_characterized.
Definition C02_par_proof := C02_par.
Definition C02_par_j_proof := C02_par_j.
Definition C02_par_idle_proof := C02_par_idle.
Definition C02_history_par_proof := C02_history_par.
Definition par_schedule_exists_proof := par_schedule_exists.
Definition good_phist_proof := good_phist.
Definition ExP_interleaved_is_schedule_proof := ExP_interleaved_is_schedule.
