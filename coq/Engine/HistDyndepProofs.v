(* Proofs about the history-level dyndep model (HistDyndepDefs.v).  No axioms.
   Part A : the graphs [load_for g y L]: every one of them is a well-formed fragment-AB manifest in
            topological order ([gl_wf_spec], [gl_wf_graph], [gl_frag], [gl_topo], [gl_nip]); how they sit
            between [g] and [inline_y g y] ([gl_prod_mono], [gl_edge_full], ...).
   Part B : a refusal "missing and no known rule" names a missing source that is a target or an input
            ([scan_missing_src]); with all read sources present ScanDefs' dirty test on produced targets
            is accepted, so [dirty_now] IS [must_dirty] ([dirty_now_iff]).
   Part C : [must_dirty] between a partially loaded graph and the inlined one: monotone ([md_up]: more
            information only makes dirtier -- this is where restat must not come late), equal below
            the loaded part ([md_down]); [needed] is the same under [dd_ins_ordered] ([needed_down]).
   Part D : one build, against HistDefs.build on the inlined manifest: [rescan_inv] (what a (re-)scan of the
            graph loaded so far wants, in terms of the inlined manifest), the pass invariant [Inv] (state =
            the inlined build after K statements; pending files are produced by statements that have not had
            their turn; the want map is sound and complete for fully loaded statements; nothing is sticky),
            [step_low] (a restarted pass does nothing below K: HistProofs.build_inv_c02), [step_at] (statement
            K: same decision, same command, every re-scan accepted), termination of the passes ([pend]),
            [ybuild_done] / [ybuild_equiv]: with the read sources present both manifests accept and end in
            the same state.
   Part E : histories ([hist_equiv]); C01 / C02 carried over from HistProofs ([y_C01], [y_C02]); order
            ([y_order]); then the theorems with the premises spelled out, the example projects, the listed
            finding as witness and refutation ([C11_late_restat_witness_proof], [C11_late_restat_refuted_proof]). *)
From NinjaV Require Import Engine.CrashDefs.
From NinjaV Require Import Base.Bytes Engine.ScanDefs Engine.ScanSpec Engine.ScanProofs Engine.HistDefs Engine.HistProofs Engine.HistDyndepDefs.
Require Import Coq.Sorting.Sorted.
Local Open Scope nat_scope.

(* ================================================================== generic *)
Lemma andb_split a b : (a && b)%bool = true -> a = true /\ b = true.
Proof. intros H. apply andb_true_iff in H. exact H. Qed.

Lemma mem_In n l : mem_node n l = true <-> In n l.
Proof.
  unfold mem_node. rewrite existsb_exists. split.
  - intros [x [Hx He]]. apply Nat.eqb_eq in He. subst. exact Hx.
  - intros H. exists n. split; [exact H|apply Nat.eqb_refl].
Qed.

Lemma mem_false n l : mem_node n l = false <-> ~ In n l.
Proof.
  split.
  - intros H Hi. apply mem_In in Hi. congruence.
  - intros H. destruct (mem_node n l) eqn:E; [|reflexivity]. apply mem_In in E. contradiction.
Qed.

Lemma In_splice i ins noo xi : In i (splice ins noo xi) <-> In i ins \/ In i xi.
Proof.
  unfold splice. rewrite !in_app_iff. set (k := length ins - noo).
  assert (H : In i ins <-> In i (firstn k ins) \/ In i (skipn k ins)).
  { rewrite <- in_app_iff. rewrite (firstn_skipn k ins). tauto. }
  tauto.
Qed.

Lemma splice_length ins noo xi : length (splice ins noo xi) = length ins + length xi.
Proof.
  unfold splice. rewrite !app_length.
  pose proof (firstn_skipn (length ins - noo) ins) as H. apply (f_equal (@length node)) in H.
  rewrite app_length in H. lia.
Qed.

Lemma opt_eqb_eq a b : opt_eqb a b = true <-> a = b.
Proof.
  unfold opt_eqb. destruct a as [x|], b as [z|]; cbn [opt_node_eqb]; split; try congruence.
  - intros H. apply Nat.eqb_eq in H. congruence.
  - intros H. inversion H. apply Nat.eqb_refl.
Qed.

Lemma is_some_true {A : Type} (o : option A) : is_some o = true <-> o <> None.
Proof. destruct o; cbn [is_some]; split; congruence. Qed.
Lemma is_some_false {A : Type} (o : option A) : is_some o = false <-> o = None.
Proof. destruct o; cbn [is_some]; split; congruence. Qed.

Lemma edges_all_intro g f : (forall e, e < g_nedges g -> f e = true) -> edges_all g f = true.
Proof. intros H. unfold edges_all. apply forallb_forall. intros e He. apply in_seq in He. apply H. lia. Qed.

(* the non-order-only inputs of a loaded statement *)
Lemma nonoo_list_splice ins noo xi : noo <= length ins ->
  (if Nat.ltb (length (splice ins noo xi)) noo then splice ins noo xi
   else firstn (length (splice ins noo xi) - noo) (splice ins noo xi))
  = firstn (length ins - noo) ins ++ xi.
Proof.
  intros Hle. rewrite splice_length.
  destruct (Nat.ltb (length ins + length xi) noo) eqn:E; [apply Nat.ltb_lt in E; lia|].
  unfold splice. set (k := length ins - noo).
  assert (Hk : length (firstn k ins) = k) by (apply firstn_length_le; unfold k; lia).
  replace (length ins + length xi - noo) with (length (firstn k ins ++ xi) + 0)
    by (rewrite app_length, Hk; unfold k; lia).
  rewrite app_assoc. rewrite firstn_app_2. cbn [firstn]. apply app_nil_r.
Qed.

(* graph_of only replaces the command hashes *)
Lemma go_phony X st e : ei_phony (g_edge (graph_of X st) e) = ei_phony (g_edge X e).
Proof. reflexivity. Qed.
Lemma go_ins X st e : ei_ins (g_edge (graph_of X st) e) = ei_ins (g_edge X e).
Proof. reflexivity. Qed.
Lemma go_outs X st e : ei_outs (g_edge (graph_of X st) e) = ei_outs (g_edge X e).
Proof. reflexivity. Qed.
Lemma go_vals X st e : ei_vals (g_edge (graph_of X st) e) = ei_vals (g_edge X e).
Proof. reflexivity. Qed.
Lemma go_restat X st e : ei_restat (g_edge (graph_of X st) e) = ei_restat (g_edge X e).
Proof. reflexivity. Qed.
Lemma go_generator X st e : ei_generator (g_edge (graph_of X st) e) = ei_generator (g_edge X e).
Proof. reflexivity. Qed.
Lemma go_nonoo X st e : nonoo_ins (graph_of X st) e = nonoo_ins X e.
Proof. reflexivity. Qed.
Lemma go_hash X st e : ei_hash (g_edge (graph_of X st) e) = h_hash st e.
Proof. reflexivity. Qed.

(* ================================================================== Part B: refusals and the dirty test *)
Section Missing.
Variable G : graph.
Variable w : world.
Hypothesis Hwf : wf_spec G.
Hypothesis Hwg : wf_graph G.
Hypothesis Hfrag : frag_AB G = true.

Lemma ast_loop_err (visit : node -> plan -> ast_res) : forall ins p m d p',
  ast_loop visit ins p = Some (false, Some (m, d), p') ->
  exists i q q', In i ins /\ visit i q = Some (false, Some (m, d), q').
Proof.
  induction ins as [|i ins IH]; intros p m d p' H; cbn [ast_loop] in H; [discriminate|].
  destruct (visit i p) as [[[b err] q]|] eqn:Hv; [|discriminate].
  destruct b.
  - destruct (IH q m d p' H) as [i' [q1 [q2 [Hi Hq]]]]. exists i', q1, q2. split; [right; exact Hi|exact Hq].
  - destruct err as [err|].
    + inversion H; subst. exists i, p, p'. split; [left; reflexivity|exact Hv].
    + destruct (IH q m d p' H) as [i' [q1 [q2 [Hi Hq]]]]. exists i', q1, q2. split; [right; exact Hi|exact Hq].
Qed.

Lemma ast_err : forall f s dep n p m d p',
  add_sub_target G f s dep n p = Some (false, Some (m, d), p') ->
  RI G s -> node_final G s n ->
  g_producer G m = None /\ ns_dirty (st_node s m) = true /\ node_final G s m /\
  (m = n \/ exists e, e < g_nedges G /\ In m (ei_ins (g_edge G e))).
Proof.
  induction f as [|f IH]; intros s dep n p m d p' H HR Fn; cbn [add_sub_target] in H; [discriminate|].
  destruct (g_producer G n) as [e|] eqn:Hp.
  - destruct (es_ready (st_edge s e)); [discriminate|].
    destruct (p_want p e) as [v|] eqn:Hw; cbn [negb] in H; [discriminate|].
    apply ast_loop_err in H. destruct H as [i [q [q' [Hi Hv]]]].
    assert (Hd : es_mark (st_edge s e) = VisitDone) by (unfold node_final in Fn; rewrite Hp in Fn; exact Fn).
    destruct (HR e Hd) as [Hins [Hfin _]]. rewrite Hins in Hi.
    destruct (IH s (Some n) i q m d q' Hv HR (Hfin i Hi)) as [A [B [C D]]].
    split; [exact A|]. split; [exact B|]. split; [exact C|]. right.
    destruct D as [->|D]; [exists e; split; [apply (Hwg n e Hp)|exact Hi]|exact D].
  - destruct (ns_dirty (st_node s n) && negb (g_byloader G n))%bool eqn:Hd; [|discriminate].
    inversion H; subst. apply andb_split in Hd. destruct Hd as [Hd _].
    split; [exact Hp|]. split; [exact Hd|]. split; [exact Fn|left; reflexivity].
Qed.

Lemma add_targets_missing_src T : forall rest s p m d,
  incl rest T -> add_targets G w s p rest = ScanMissing m d ->
  SInv G w s -> RI G s -> PI G T s noX p ->
  g_producer G m = None /\ w_mtime w m = 0%Z /\ (In m T \/ exists e, e < g_nedges G /\ In m (ei_ins (g_edge G e))).
Proof.
  induction rest as [|t rest IH]; intros s p m d Hinc H HS HR HP; cbn [add_targets] in H; [discriminate|].
  assert (Ht : In t T) by (apply Hinc; left; reflexivity).
  destruct (builder_add_target G w s p t) as [c|m0 d0|e| |s1 p1] eqn:Hb; try discriminate.
  2:{ destruct (bat_GI G w Hwf Hwg Hfrag T s p t s1 p1 Ht Hb HS HR HP) as [HS1 [HR1 [_ [_ [HP1 _]]]]].
      apply (IH s1 p1 m d (fun x Hx => Hinc x (or_intror Hx)) H HS1 HR1 HP1). }
  inversion H; subst m0 d0. clear H. unfold builder_add_target in Hb.
  destruct (recompute_dirty G w s t) as [[s1 vn]|c|e|] eqn:Hrd; try discriminate.
  unfold recompute_dirty in Hrd.
  destruct (loop_all G w Hwf Hwg Hfrag _ _ _ _ _ _ Hrd HS HR) as [HS1 [HR1 [V1 [F1 Hvn]]]]. subst vn.
  specialize (F1 t (or_introl eq_refl)).
  destruct (match g_producer G t with Some e => negb (es_ready (st_edge s1 e)) | None => true end).
  - destruct (plan_add_target G s1 t p) as [[[b err] pa]|] eqn:Ha; [|discriminate].
    destruct b; [cbn [add_validation_targets] in Hb; discriminate|].
    destruct err as [[m1 d1]|]; [|discriminate]. inversion Hb; subst m1 d1.
    unfold plan_add_target in Ha.
    destruct (ast_err _ _ _ _ _ _ _ _ Ha HR1 F1) as [A [B [C D]]].
    split; [exact A|]. split.
    + destruct HS1 as [S1 _]. apply (must_dirty_leaf_inv G w m); [|exact A]. apply (proj1 (S1 m C)). exact B.
    + destruct D as [->|D]; [left; exact Ht|right; exact D].
  - cbn [add_validation_targets] in Hb. discriminate.
Qed.

Lemma scan_missing_src T m d : scan G w T = ScanMissing m d ->
  g_producer G m = None /\ w_mtime w m = 0%Z /\ (In m T \/ exists e, e < g_nedges G /\ In m (ei_ins (g_edge G e))).
Proof.
  intros H. unfold scan in H.
  apply (add_targets_missing_src T T (init_state G) init_plan m d (incl_refl T) H
           (SInv_init G w) (RI_init G) (PI_init G T)).
Qed.

(* with every read source present and produced targets, the scan is accepted *)
Lemma scan_ok_present T :
  topo_ordered G = true ->
  (forall e i, e < g_nedges G -> In i (ei_ins (g_edge G e)) -> g_producer G i = None -> w_mtime w i <> 0%Z) ->
  (forall t, In t T -> g_producer G t <> None) ->
  exists s p, scan G w T = ScanOk s p.
Proof.
  intros Htopo Hsrc HT.
  destruct (scan G w T) as [c|m d|e| |s p] eqn:H.
  - exfalso. apply (C17_no_false_positive G w T (topo_acyclic G w Hwg Hfrag Htopo) c H).
  - exfalso. destruct (scan_missing_src T m d H) as [A [B [C|[e [He C]]]]].
    + apply (HT m C A).
    + apply (Hsrc e m He C A B).
  - exfalso. unfold scan in H. apply (add_targets_no_loaderr G w Hwf Hwg Hfrag T _ _ e H (SInv_init G w)).
  - exfalso. apply (scan_fuel_sufficient G w Hwg T H).
  - exists s, p. reflexivity.
Qed.

End Missing.

(* [dirty_now] is [must_dirty] when every read source is present *)
Lemma dirty_now_iff X st k :
  wf_spec X -> wf_graph X -> frag_AB X = true -> topo_ordered X = true ->
  (forall e i, e < g_nedges X -> In i (ei_ins (g_edge X e)) -> g_producer X i = None -> mtime_of st i <> 0%Z) ->
  (dirty_now X st k = true <->
   exists o, In o (ei_outs (g_edge X k)) /\ must_dirty (graph_of X st) (world_of st) o).
Proof.
  intros Hwf Hwg Hfrag Htopo Hsrc. unfold dirty_now.
  destruct (scan_ok_present (graph_of X st) (world_of st) Hwf Hwg Hfrag (ei_outs (g_edge X k)) Htopo) as [s [p Hs]].
  - intros e i He Hi Hp. cbn [world_of w_mtime]. apply (Hsrc e i He Hi Hp).
  - intros t Ht Hp. change (g_producer X t = None) in Hp. rewrite (out_prod X Hwf k t Ht) in Hp. discriminate.
  - rewrite Hs. rewrite existsb_exists. split.
    + intros [o [Ho Hd]]. exists o. split; [exact Ho|].
      assert (Hr : reach (graph_of X st) (ei_outs (g_edge X k)) o) by (apply reach_target; exact Ho).
      apply (proj1 (scan_reach_ok (graph_of X st) (world_of st) Hwf Hwg Hfrag _ s p Hs o Hr)). exact Hd.
    + intros [o [Ho Hmd]]. exists o. split; [exact Ho|].
      assert (Hr : reach (graph_of X st) (ei_outs (g_edge X k)) o) by (apply reach_target; exact Ho).
      apply (proj1 (scan_reach_ok (graph_of X st) (world_of st) Hwf Hwg Hfrag _ s p Hs o Hr)). exact Hmd.
Qed.

Lemma out_reason_graphs A B w (N N' : Z -> Prop) e o :
  ei_restat (g_edge A e) = ei_restat (g_edge B e) ->
  ei_generator (g_edge A e) = ei_generator (g_edge B e) ->
  ei_hash (g_edge A e) = ei_hash (g_edge B e) ->
  (forall x, N x -> N' x) ->
  out_reason A w N e o -> out_reason B w N' e o.
Proof.
  unfold out_reason, base_reason, time_reason, used_restat. intros Hr Hg Hh HN. rewrite Hr, Hg, Hh.
  intros [Hbase|[[Hu Hn]|Ht]].
  - left; exact Hbase.
  - right; left. split; [exact Hu|apply HN; exact Hn].
  - right; right. destruct (w_blog w o) as [[h m]|]; [apply HN; exact Ht|exact Ht].
Qed.

(* ================================================================== Part A: the loaded graphs *)
Section Graphs.
Variable g : graph.
Variable y : dyninfo.
Hypothesis Hwf : wf_spec g.
Hypothesis Hwg : wf_graph g.
Hypothesis Hy : wf_y g y.
Hypothesis Hfr : frag_ABY g y = true.

Notation GL L := (load_for g y L).
Notation GI := (inline_y g y).
Notation N_ := (g_nedges g).

Lemma fragY_AB : frag_AB g = true.
Proof. unfold frag_ABY in Hfr. apply andb_split in Hfr. apply Hfr. Qed.

Record edgeY (e : edge) : Prop := mkEdgeY {
  ey_noo : ei_noo (g_edge g e) <= length (ei_ins (g_edge g e));
  ey_bound : forall dd, y_bind y e = Some dd ->
     In dd (y_dds y) /\ In dd (ei_ins (g_edge g e)) /\ ei_phony (g_edge g e) = false /\
     (forall p, g_producer g dd = Some p -> ei_phony (g_edge g p) = false);
  ey_unbound : y_bind y e = None -> y_ins y e = [] /\ y_outs y e = [] /\ y_restat y e = false;
  ey_outs : forall n, In n (y_outs y e) ->
     g_producer g n = None /\ ~ In n (y_dds y) /\
     forall e', e' < N_ -> ~ In n (ei_ins (g_edge g e'));
  ey_ins : forall i e', In i (y_ins y e) -> y_prod y i = Some e' -> y_bind y e' = y_bind y e
}.

Lemma fragY_edge e : e < N_ -> edgeY e.
Proof.
  intros He. unfold frag_ABY in Hfr. apply andb_split in Hfr. destruct Hfr as [_ H].
  pose proof (edges_all_spec g _ e H He) as K. cbn beta zeta in K.
  apply andb_split in K. destruct K as [K K4]. apply andb_split in K. destruct K as [K K3].
  apply andb_split in K. destruct K as [K1 K2]. constructor.
  - apply Nat.leb_le. exact K1.
  - intros dd Hb. rewrite Hb in K2.
    apply andb_split in K2. destruct K2 as [K2 Kp]. apply andb_split in K2. destruct K2 as [K2 Kph].
    apply andb_split in K2. destruct K2 as [Ka Kb].
    split; [apply mem_In; exact Ka|]. split; [apply mem_In; exact Kb|].
    split; [apply negb_true_iff; exact Kph|].
    intros p Hp. rewrite Hp in Kp. apply negb_true_iff. exact Kp.
  - intros Hb. rewrite Hb in K2.
    apply andb_split in K2. destruct K2 as [K2 Kr]. apply andb_split in K2. destruct K2 as [Ka Kb].
    split; [apply is_nil_true; exact Ka|]. split; [apply is_nil_true; exact Kb|apply negb_true_iff; exact Kr].
  - intros n Hn. rewrite forallb_forall in K3. specialize (K3 n Hn).
    apply andb_split in K3. destruct K3 as [K3 Kc]. apply andb_split in K3. destruct K3 as [Ka Kb].
    split; [apply is_some_false; apply negb_true_iff; exact Ka|].
    split; [apply mem_false; apply negb_true_iff; exact Kb|].
    intros e' He'. pose proof (edges_all_spec g _ e' Kc He') as Q. cbn beta in Q.
    apply mem_false. apply negb_true_iff. exact Q.
  - intros i e' Hi Hp. rewrite forallb_forall in K4. specialize (K4 i Hi). rewrite Hp in K4.
    apply opt_eqb_eq. exact K4.
Qed.

(* ---- edges and producers of a loaded graph *)
Lemma gl_nedges L : g_nedges (GL L) = N_.
Proof. reflexivity. Qed.

Lemma gl_edge_un L e : loaded y L e = false -> g_edge (GL L) e = g_edge g e.
Proof. intros H. cbn [load_for g_edge]. rewrite H. reflexivity. Qed.

Lemma gl_edge_ld L e : loaded y L e = true ->
  g_edge (GL L) e = load_edge (g_edge g e) (y_ins y e) (y_outs y e) (y_restat y e).
Proof. intros H. cbn [load_for g_edge]. rewrite H. reflexivity. Qed.

Lemma loaded_bound L e : loaded y L e = true -> exists dd, y_bind y e = Some dd /\ In dd L.
Proof.
  unfold loaded. destruct (y_bind y e) as [dd|]; [|discriminate]. intros H. exists dd.
  split; [reflexivity|apply mem_In; exact H].
Qed.

(* an unbound statement is the manifest statement whatever is loaded *)
Lemma unbound_edge L e : e < N_ -> y_bind y e = None -> g_edge (GL L) e = g_edge g e.
Proof. intros He Hb. apply gl_edge_un. unfold loaded. rewrite Hb. reflexivity. Qed.

Lemma gl_phony L e : ei_phony (g_edge (GL L) e) = ei_phony (g_edge g e).
Proof. cbn [load_for g_edge]. destruct (loaded y L e); reflexivity. Qed.
Lemma gl_hash L e : ei_hash (g_edge (GL L) e) = ei_hash (g_edge g e).
Proof. cbn [load_for g_edge]. destruct (loaded y L e); reflexivity. Qed.
Lemma gl_generator L e : ei_generator (g_edge (GL L) e) = ei_generator (g_edge g e).
Proof. cbn [load_for g_edge]. destruct (loaded y L e); reflexivity. Qed.
Lemma gl_deps L e : ei_deps (g_edge (GL L) e) = ei_deps (g_edge g e).
Proof. cbn [load_for g_edge]. destruct (loaded y L e); reflexivity. Qed.
Lemma gl_vals L e : ei_vals (g_edge (GL L) e) = ei_vals (g_edge g e).
Proof. cbn [load_for g_edge]. destruct (loaded y L e); reflexivity. Qed.
Lemma gl_noo L e : ei_noo (g_edge (GL L) e) = ei_noo (g_edge g e).
Proof. cbn [load_for g_edge]. destruct (loaded y L e); reflexivity. Qed.

Lemma gl_ins L e i : In i (ei_ins (g_edge (GL L) e)) <->
  In i (ei_ins (g_edge g e)) \/ (loaded y L e = true /\ In i (y_ins y e)).
Proof.
  cbn [load_for g_edge]. destruct (loaded y L e) eqn:E.
  - cbn [load_edge ei_ins]. rewrite In_splice. split; intros [H|H]; auto. destruct H as [_ H]. auto.
  - split; [auto|]. intros [H|[H _]]; [exact H|discriminate].
Qed.

Lemma gl_outs L e o : In o (ei_outs (g_edge (GL L) e)) <->
  In o (ei_outs (g_edge g e)) \/ (loaded y L e = true /\ In o (y_outs y e)).
Proof.
  cbn [load_for g_edge]. destruct (loaded y L e) eqn:E.
  - cbn [load_edge ei_outs]. rewrite in_app_iff. split; intros [H|H]; auto. destruct H as [_ H]. auto.
  - split; [auto|]. intros [H|[H _]]; [exact H|discriminate].
Qed.

Lemma gl_prod L n e : g_producer (GL L) n = Some e <->
  g_producer g n = Some e \/ (g_producer g n = None /\ y_prod y n = Some e /\ loaded y L e = true).
Proof.
  cbn [load_for g_producer]. destruct (g_producer g n) as [e0|] eqn:Hp.
  - split; [auto|]. intros [H|[H _]]; [exact H|discriminate].
  - destruct (y_prod y n) as [e1|] eqn:Hq.
    + destruct (loaded y L e1) eqn:Hl.
      * split; [intros H; inversion H; subst; right; auto|].
        intros [H|[_ [H _]]]; [discriminate|exact H].
      * split; [discriminate|]. intros [H|[_ [H Hl']]]; [discriminate|]. inversion H; subst. congruence.
    + split; [discriminate|]. intros [H|[_ [H _]]]; discriminate.
Qed.

Lemma gl_prod_none L n : g_producer (GL L) n = None <->
  g_producer g n = None /\ (forall e, y_prod y n = Some e -> loaded y L e = false).
Proof.
  cbn [load_for g_producer]. destruct (g_producer g n) as [e0|] eqn:Hp.
  - split; [discriminate|]. intros [H _]; discriminate.
  - destruct (y_prod y n) as [e1|] eqn:Hq.
    + destruct (loaded y L e1) eqn:Hl.
      * split; [discriminate|]. intros [_ H]. specialize (H e1 eq_refl). congruence.
      * split; [|reflexivity]. intros _. split; [reflexivity|]. intros e H. inversion H; subst. exact Hl.
    + split; [|reflexivity]. intros _. split; [reflexivity|]. intros e H. discriminate.
Qed.

(* ---- every loaded graph is a well-formed manifest *)
Lemma gl_wf_graph L : wf_graph (GL L).
Proof.
  intros n e Hp. apply gl_prod in Hp. destruct Hp as [Hp|[_ [Hq _]]].
  - apply (Hwg n e Hp).
  - apply (proj2 Hy n e Hq).
Qed.

Lemma gl_wf_spec L : wf_spec (GL L).
Proof.
  destruct Hwf as [W1 [W2 W3]]. split; [|split].
  - intros e o Ho. apply gl_outs in Ho. apply gl_prod. destruct Ho as [Ho|[Hl Ho]].
    + left. apply (W1 e o Ho).
    + right. pose proof (proj1 Hy e o Ho) as Hq. destruct (proj2 Hy o e Hq) as [_ He].
      split; [apply (ey_outs e (fragY_edge e He) o Ho)|]. split; [exact Hq|exact Hl].
  - intros n e Hp. apply gl_prod in Hp. apply gl_outs. destruct Hp as [Hp|[_ [Hq Hl]]].
    + left. apply (W2 n e Hp).
    + right. split; [exact Hl|apply (proj2 Hy n e Hq)].
  - intros e Hd. rewrite gl_deps in Hd. destruct (W3 e Hd) as [Hph Hn]. rewrite gl_phony, gl_noo.
    split; [exact Hph|]. cbn [load_for g_edge]. destruct (loaded y L e); [|exact Hn].
    cbn [load_edge ei_ins]. rewrite splice_length. lia.
Qed.

(* ---- between the manifest and the inlined manifest *)
Lemma loaded_all e : e < N_ -> y_bind y e <> None -> loaded y (y_dds y) e = true.
Proof.
  intros He Hb. unfold loaded. destruct (y_bind y e) as [dd|] eqn:E; [|congruence].
  apply mem_In. apply (ey_bound e (fragY_edge e He) dd E).
Qed.

Lemma loaded_lt L e : loaded y L e = true -> y_bind y e <> None.
Proof. intros H. destruct (loaded_bound L e H) as [dd [Hb _]]. congruence. Qed.

(* the statement has all the information it will ever get *)
Definition full (L : list node) (e : edge) : Prop := loaded y L e = true \/ y_bind y e = None.

Lemma full_edge L e : e < N_ -> full L e -> g_edge (GL L) e = g_edge GI e.
Proof.
  intros He [Hl|Hb].
  - unfold inline_y. rewrite (gl_edge_ld L e Hl), (gl_edge_ld (y_dds y) e); [reflexivity|].
    apply (loaded_all e He (loaded_lt L e Hl)).
  - unfold inline_y. rewrite (unbound_edge L e He Hb), (unbound_edge (y_dds y) e He Hb). reflexivity.
Qed.

Lemma full_dec L e : full L e \/ (loaded y L e = false /\ y_bind y e <> None).
Proof.
  unfold full. destruct (loaded y L e); [left; left; reflexivity|].
  destruct (y_bind y e); [right; split; [reflexivity|discriminate]|left; right; reflexivity].
Qed.

Lemma gl_ins_sub L e i : e < N_ -> In i (ei_ins (g_edge (GL L) e)) -> In i (ei_ins (g_edge GI e)).
Proof.
  intros He H. apply gl_ins in H. unfold inline_y. apply gl_ins. destruct H as [H|[Hl H]]; [left; exact H|].
  right. split; [apply (loaded_all e He (loaded_lt L e Hl))|exact H].
Qed.

Lemma gl_outs_sub L e o : e < N_ -> In o (ei_outs (g_edge (GL L) e)) -> In o (ei_outs (g_edge GI e)).
Proof.
  intros He H. apply gl_outs in H. unfold inline_y. apply gl_outs. destruct H as [H|[Hl H]]; [left; exact H|].
  right. split; [apply (loaded_all e He (loaded_lt L e Hl))|exact H].
Qed.

Lemma gl_prod_mono L n e : g_producer (GL L) n = Some e -> g_producer GI n = Some e.
Proof.
  intros H. apply gl_prod in H. unfold inline_y. apply gl_prod. destruct H as [H|[Hn [Hq Hl]]]; [left; exact H|].
  right. split; [exact Hn|]. split; [exact Hq|].
  apply (loaded_all e (proj2 (proj2 Hy n e Hq)) (loaded_lt L e Hl)).
Qed.

Lemma g_prod_gl L n e : g_producer g n = Some e -> g_producer (GL L) n = Some e.
Proof. intros H. apply gl_prod. left. exact H. Qed.

(* a produced node of the inlined manifest whose statement is full is produced in the loaded graph *)
Lemma gi_prod_full L n e : g_producer GI n = Some e -> full L e -> g_producer (GL L) n = Some e.
Proof.
  intros H Hf. unfold inline_y in H. apply gl_prod in H. apply gl_prod. destruct H as [H|[Hn [Hq Hl]]]; [left; exact H|].
  right. split; [exact Hn|]. split; [exact Hq|]. destruct Hf as [Hf|Hb]; [exact Hf|].
  exfalso. apply (loaded_lt _ e Hl). exact Hb.
Qed.

Lemma gi_leaf_gl L n : g_producer GI n = None -> g_producer (GL L) n = None.
Proof.
  intros H. destruct (g_producer (GL L) n) as [e|] eqn:E; [|reflexivity].
  rewrite (gl_prod_mono L n e E) in H. discriminate.
Qed.

Hypothesis Hfi : frag_AB GI = true.
Hypothesis Hti : topo_ordered GI = true.

Lemma gl_frag L : frag_AB (GL L) = true.
Proof.
  apply edges_all_intro. intros e He. rewrite gl_nedges in He. cbn beta zeta.
  destruct (frag_edge g fragY_AB e He) as [Hd [Hv _]].
  rewrite gl_deps, gl_vals, Hd, Hv. cbn [deps_none is_nil andb].
  apply forallb_forall. intros i Hi. apply negb_true_iff.
  pose proof (gl_ins_sub L e i He Hi) as Hi'.
  destruct (frag_edge GI Hfi e He) as [_ [_ Hb]]. apply (Hb i Hi').
Qed.

Lemma gl_topo L : topo_ordered (GL L) = true.
Proof.
  apply edges_all_intro. intros e He. rewrite gl_nedges in He. apply forallb_forall. intros i Hi.
  destruct (g_producer (GL L) i) as [e'|] eqn:Hp; [|reflexivity].
  pose proof (gl_prod_mono L i e' Hp) as Hp'. pose proof (gl_ins_sub L e i He Hi) as Hi'.
  pose proof (edges_all_spec GI _ e Hti He) as K. cbn beta in K. rewrite forallb_forall in K.
  specialize (K i Hi'). rewrite Hp' in K. exact K.
Qed.

Lemma gl_nip L : no_inputless_phony GI = true -> no_inputless_phony (GL L) = true.
Proof.
  intros Hn. apply edges_all_intro. intros e He. rewrite gl_nedges in He.
  pose proof (edges_all_spec GI _ e Hn He) as K. cbn beta in K.
  destruct (y_bind y e) as [dd|] eqn:E.
  - destruct (ey_bound e (fragY_edge e He) dd E) as [_ [_ [Hp _]]]. rewrite gl_phony, Hp. reflexivity.
  - rewrite (full_edge L e He (or_intror E)). exact K.
Qed.


(* ================================================================== Part C: must_dirty and needed across the loaded graphs *)
Lemma nonoo_g_edge X e : ei_noo (g_edge X e) <= length (ei_ins (g_edge X e)) ->
  nonoo_ins X e = firstn (length (ei_ins (g_edge X e)) - ei_noo (g_edge X e)) (ei_ins (g_edge X e)).
Proof.
  intros H. unfold nonoo_ins. destruct (Nat.ltb _ _) eqn:E; [apply Nat.ltb_lt in E; lia|reflexivity].
Qed.

Lemma nonoo_full L e : e < N_ -> full L e -> nonoo_ins (GL L) e = nonoo_ins GI e.
Proof. intros He Hf. unfold nonoo_ins. rewrite (full_edge L e He Hf). reflexivity. Qed.

Lemma nonoo_sub L e i : e < N_ -> In i (nonoo_ins (GL L) e) -> In i (nonoo_ins GI e).
Proof.
  intros He Hi. destruct (full_dec L e) as [Hf|[Hl Hb]].
  - rewrite <- (nonoo_full L e He Hf). exact Hi.
  - pose proof (ey_noo e (fragY_edge e He)) as Hn.
    unfold nonoo_ins in Hi. rewrite (gl_edge_un L e Hl) in Hi.
    unfold nonoo_ins, inline_y. rewrite (gl_edge_ld (y_dds y) e (loaded_all e He Hb)).
    cbn [load_edge ei_ins ei_noo]. rewrite (nonoo_list_splice _ _ _ Hn). apply in_app_iff. left.
    destruct (Nat.ltb _ _) eqn:E in Hi; [apply Nat.ltb_lt in E; lia|exact Hi].
Qed.

Lemma topo_lt e i e' : e < N_ -> In i (ei_ins (g_edge GI e)) -> g_producer GI i = Some e' -> e' < e.
Proof.
  intros He Hi Hp. pose proof (edges_all_spec GI _ e Hti He) as K. cbn beta in K.
  rewrite forallb_forall in K. specialize (K i Hi). rewrite Hp in K. apply Nat.ltb_lt. exact K.
Qed.

Section World.
Variable st : hstate.
Variable w : world.
Variable L : list node.
Notation GLs := (graph_of (GL L) st).
Notation GIs := (graph_of GI st).

Lemma spec_ins_L e : e < N_ -> spec_ins GLs w e = nonoo_ins (GL L) e.
Proof. intros He. apply (spec_ins_AB (GL L) (gl_frag L) st w e He). Qed.
Lemma spec_ins_I e : e < N_ -> spec_ins GIs w e = nonoo_ins GI e.
Proof. intros He. apply (spec_ins_AB GI Hfi st w e He). Qed.

Lemma newer_up x n : newer_than GLs w x n -> newer_than GIs w x n.
Proof.
  intros H. induction H as [n Hnz Hlt|n Hz Hlt|n e i Hz Hp Hph Hi Hn IH].
  - apply nt_file; assumption.
  - apply nt_missing; assumption.
  - change (g_producer (GL L) n = Some e) in Hp.
    assert (He : e < N_) by (apply (gl_wf_graph L n e Hp)).
    apply (nt_phony GIs w x n e i Hz (gl_prod_mono L n e Hp)).
    + rewrite go_phony in *. unfold inline_y. rewrite gl_phony in *. exact Hph.
    + rewrite go_nonoo in *. apply (nonoo_sub L e i He). exact Hi.
    + exact IH.
Qed.

(* more information only makes dirtier -- provided restat does not come late *)
Lemma md_up :
  (forall e, e < N_ -> ei_restat (g_edge (GL L) e) = ei_restat (g_edge GI e)) ->
  forall n, must_dirty GLs w n -> must_dirty GIs w n.
Proof.
  intros Hrc n H.
  induction H as [n Hp Hz|n e i Hp Hi Hd IH|n e o Hp Hph Hin Hv Ho Hz|n e o Hp Hph Ho Hr|n e Hp Hl].
  - change (g_producer (GL L) n = None) in Hp.
    destruct (g_producer GI n) as [e|] eqn:Hq; [|apply md_leaf; assumption].
    assert (He : e < N_) by (apply (gl_wf_graph (y_dds y) n e Hq)).
    assert (Hb : y_bind y e <> None).
    { unfold inline_y in Hq. apply gl_prod in Hq. destruct Hq as [Hq|[_ [_ Hl]]].
      - rewrite (g_prod_gl L n e Hq) in Hp. discriminate.
      - apply (loaded_lt _ e Hl). }
    destruct (y_bind y e) as [dd|] eqn:E; [|congruence].
    destruct (ey_bound e (fragY_edge e He) dd E) as [_ [_ [Hph _]]].
    assert (Ho : In n (ei_outs (g_edge GI e))) by (apply (prod_out GI (gl_wf_spec _) n e Hq)).
    apply (md_self GIs w n e n Hq); [rewrite go_phony; unfold inline_y; rewrite gl_phony; exact Hph|exact Ho|].
    left. left. exact Hz.
  - change (g_producer (GL L) n = Some e) in Hp.
    assert (He : e < N_) by (apply (gl_wf_graph L n e Hp)).
    apply (md_input GIs w n e i (gl_prod_mono L n e Hp)); [|exact IH].
    rewrite (spec_ins_I e He). rewrite (spec_ins_L e He) in Hi. apply (nonoo_sub L e i He Hi).
  - change (g_producer (GL L) n = Some e) in Hp.
    assert (He : e < N_) by (apply (gl_wf_graph L n e Hp)).
    assert (Hb : y_bind y e = None).
    { destruct (y_bind y e) as [dd|] eqn:E; [|reflexivity].
      destruct (ey_bound e (fragY_edge e He) dd E) as [_ [_ [Hq _]]].
      rewrite go_phony, gl_phony in Hph. congruence. }
    pose proof (full_edge L e He (or_intror Hb)) as Heq.
    apply (md_phony GIs w n e o (gl_prod_mono L n e Hp)).
    + rewrite go_phony in *. rewrite <- Heq. exact Hph.
    + rewrite go_ins in *. rewrite <- Heq. exact Hin.
    + rewrite go_vals in *. rewrite <- Heq. exact Hv.
    + rewrite go_outs in *. rewrite <- Heq. exact Ho.
    + exact Hz.
  - change (g_producer (GL L) n = Some e) in Hp.
    assert (He : e < N_) by (apply (gl_wf_graph L n e Hp)).
    apply (md_self GIs w n e o (gl_prod_mono L n e Hp)).
    + rewrite go_phony in *. unfold inline_y. rewrite gl_phony in *. exact Hph.
    + rewrite go_outs in *. apply (gl_outs_sub L e o He Ho).
    + apply (out_reason_graphs GLs GIs w
               (fun x => exists i, In i (spec_ins GLs w e) /\ newer_than GLs w x i)
               (fun x => exists i, In i (spec_ins GIs w e) /\ newer_than GIs w x i) e o); [| | | |exact Hr].
      * rewrite !go_restat. apply (Hrc e He).
      * rewrite !go_generator. unfold inline_y. rewrite !gl_generator. reflexivity.
      * reflexivity.
      * intros x [i [Hi Hn]]. exists i. rewrite (spec_ins_L e He) in Hi. rewrite (spec_ins_I e He).
        split; [apply (nonoo_sub L e i He Hi)|apply newer_up; exact Hn].
  - exfalso. change (g_producer (GL L) n = Some e) in Hp.
    assert (He : e < N_) by (apply (gl_wf_graph L n e Hp)).
    unfold spec_load in Hl. change (ei_deps (g_edge GLs e)) with (ei_deps (g_edge (GL L) e)) in Hl.
    rewrite (edge_frag (GL L) (gl_frag L) e He) in Hl. discriminate.
Qed.

(* below a fully loaded prefix the two graphs are the same *)
Section Down.
Variable k : nat.
Hypothesis Hfull : forall e, e <= k -> e < N_ -> full L e.

Lemma newer_down x n : newer_than GIs w x n -> (forall e, g_producer GI n = Some e -> e <= k) ->
  newer_than GLs w x n.
Proof.
  intros H. induction H as [n Hnz Hlt|n Hz Hlt|n e i Hz Hp Hph Hi Hn IH]; intros Hk.
  - apply nt_file; assumption.
  - apply nt_missing; assumption.
  - change (g_producer GI n = Some e) in Hp.
    assert (He : e < N_) by (apply (gl_wf_graph _ n e Hp)).
    pose proof (Hfull e (Hk e Hp) He) as Hf.
    apply (nt_phony GLs w x n e i Hz (gi_prod_full L n e Hp Hf)).
    + rewrite go_phony in *. rewrite (full_edge L e He Hf). exact Hph.
    + rewrite go_nonoo in *. rewrite (nonoo_full L e He Hf). exact Hi.
    + apply IH. intros e' Hp'. rewrite go_nonoo in Hi.
      pose proof (topo_lt e i e' He (nonoo_in GI e i Hi) Hp') as Hlt. specialize (Hk e Hp). lia.
Qed.

Lemma md_down n : must_dirty GIs w n -> (forall e, g_producer GI n = Some e -> e <= k) ->
  must_dirty GLs w n.
Proof.
  intros H.
  induction H as [n Hp Hz|n e i Hp Hi Hd IH|n e o Hp Hph Hin Hv Ho Hz|n e o Hp Hph Ho Hr|n e Hp Hl]; intros Hk.
  - apply md_leaf; [|exact Hz]. apply (gi_leaf_gl L n Hp).
  - change (g_producer GI n = Some e) in Hp.
    assert (He : e < N_) by (apply (gl_wf_graph _ n e Hp)).
    pose proof (Hfull e (Hk e Hp) He) as Hf.
    rewrite (spec_ins_I e He) in Hi.
    apply (md_input GLs w n e i (gi_prod_full L n e Hp Hf)).
    + rewrite (spec_ins_L e He), (nonoo_full L e He Hf). exact Hi.
    + apply IH. intros e' Hp'.
      pose proof (topo_lt e i e' He (nonoo_in GI e i Hi) Hp') as Hlt. specialize (Hk e Hp). lia.
  - change (g_producer GI n = Some e) in Hp.
    assert (He : e < N_) by (apply (gl_wf_graph _ n e Hp)).
    pose proof (Hfull e (Hk e Hp) He) as Hf.
    pose proof (full_edge L e He Hf) as Heq.
    apply (md_phony GLs w n e o (gi_prod_full L n e Hp Hf)).
    + rewrite go_phony in *. rewrite Heq. exact Hph.
    + rewrite go_ins in *. rewrite Heq. exact Hin.
    + rewrite go_vals in *. rewrite Heq. exact Hv.
    + rewrite go_outs in *. rewrite Heq. exact Ho.
    + exact Hz.
  - change (g_producer GI n = Some e) in Hp.
    assert (He : e < N_) by (apply (gl_wf_graph _ n e Hp)).
    pose proof (Hfull e (Hk e Hp) He) as Hf.
    pose proof (full_edge L e He Hf) as Heq.
    apply (md_self GLs w n e o (gi_prod_full L n e Hp Hf)).
    + rewrite go_phony in *. rewrite Heq. exact Hph.
    + rewrite go_outs in *. rewrite Heq. exact Ho.
    + apply (out_reason_graphs GIs GLs w
               (fun x => exists i, In i (spec_ins GIs w e) /\ newer_than GIs w x i)
               (fun x => exists i, In i (spec_ins GLs w e) /\ newer_than GLs w x i) e o); [| | | |exact Hr].
      * rewrite !go_restat, Heq. reflexivity.
      * rewrite !go_generator, Heq. reflexivity.
      * reflexivity.
      * intros x [i [Hi Hn]]. exists i. rewrite (spec_ins_I e He) in Hi.
        rewrite (spec_ins_L e He), (nonoo_full L e He Hf).
        split; [exact Hi|]. apply newer_down; [exact Hn|]. intros e' Hp'.
        pose proof (topo_lt e i e' He (nonoo_in GI e i Hi) Hp') as Hlt. specialize (Hk e Hp). lia.
  - exfalso. change (g_producer GI n = Some e) in Hp.
    assert (He : e < N_) by (apply (gl_wf_graph _ n e Hp)).
    unfold spec_load in Hl. change (ei_deps (g_edge GIs e)) with (ei_deps (g_edge GI e)) in Hl.
    rewrite (edge_frag GI Hfi e He) in Hl. discriminate.
Qed.
End Down.
End World.

(* ---- needed: with the order-only + dyndep idiom a load makes nothing newly needed *)
Hypothesis Hord : dd_ins_ordered g y = true.

Lemma needed_down L T : (forall t, In t T -> g_producer g t <> None) ->
  forall n, reach GI T n -> forall e, g_producer GI n = Some e ->
  exists n', reach (GL L) T n' /\ g_producer g n' = Some e.
Proof.
  intros HT n H. unfold reach in H.
  induction H as [t Ht|x z Hx IH [ex [Hex Hin]]]; intros e Hp.
  - exists t. split; [apply reach_target; exact Ht|].
    unfold inline_y in Hp. apply gl_prod in Hp. destruct Hp as [Hp|[Hn _]]; [exact Hp|].
    exfalso. apply (HT t Ht Hn).
  - destruct (IH ex Hex) as [x' [Rx' Hpx']].
    assert (Hex' : ex < N_) by (apply (Hwg x' ex Hpx')).
    assert (Sx : forall i, In i (ei_ins (g_edge g ex)) -> reach (GL L) T i).
    { intros i Hi. apply (reach_step (GL L) (manifest_ins (GL L)) T x' i Rx').
      exists ex. split; [apply (g_prod_gl L x' ex Hpx')|]. unfold manifest_ins. apply gl_ins. left. exact Hi. }
    unfold manifest_ins, inline_y in Hin. apply gl_ins in Hin. destruct Hin as [Hin|[Hl Hin]].
    + exists z. split; [apply Sx; exact Hin|].
      unfold inline_y in Hp. apply gl_prod in Hp. destruct Hp as [Hp|[_ [Hq _]]]; [exact Hp|].
      exfalso. pose proof (proj2 Hy z e Hq) as [Ho He].
      apply (proj2 (proj2 (ey_outs e (fragY_edge e He) z Ho)) ex Hex' Hin).
    + pose proof (edges_all_spec g _ ex Hord Hex') as K. cbn beta in K. rewrite forallb_forall in K.
      specialize (K z Hin). rewrite Hp in K. apply existsb_exists in K. destruct K as [i' [Hi' Hq]].
      apply opt_eqb_eq in Hq. exists i'. split; [apply Sx; exact Hi'|exact Hq].
Qed.

Lemma neededE_down L T e : (forall t, In t T -> g_producer g t <> None) ->
  needed GI T e -> needed (GL L) T e.
Proof.
  intros HT [n [Rn Hp]]. destruct (needed_down L T HT n Rn e Hp) as [n' [Rn' Hp']].
  exists n'. split; [exact Rn'|apply (g_prod_gl L n' e Hp')].
Qed.


Lemma reach_up L T n : reach (GL L) T n -> reach GI T n.
Proof.
  intros H. unfold reach in *. induction H as [t Ht|x z Hx IH [ex [Hex Hin]]].
  - apply reach_target; exact Ht.
  - apply (reach_step GI (manifest_ins GI) T x z IH). exists ex.
    split; [apply (gl_prod_mono L x ex Hex)|].
    unfold manifest_ins in *. apply (gl_ins_sub L ex z (gl_wf_graph L x ex Hex) Hin).
Qed.

Lemma needed_up L T e : needed (GL L) T e -> needed GI T e.
Proof. intros [n [Rn Hp]]. exists n. split; [apply (reach_up L T n Rn)|apply (gl_prod_mono L n e Hp)]. Qed.

(* ================================================================== Part D: one build *)
Hypothesis Hnip : no_inputless_phony GI = true.
Hypothesis Hnl : no_late_restat g y = true.

(* what the pass invariant says about the loaded set: every file that is not loaded is produced by a
   statement that has not had its turn *)
Definition Lok (K : nat) (L : list node) : Prop :=
  forall dd, In dd (y_dds y) -> ~ In dd L -> exists p, g_producer g dd = Some p /\ K <= p.

Lemma Lok_restat K L : Lok K L -> forall e, e < N_ -> ei_restat (g_edge (GL L) e) = ei_restat (g_edge GI e).
Proof.
  intros HL e He. destruct (full_dec L e) as [Hf|[Hl Hb]]; [rewrite (full_edge L e He Hf); reflexivity|].
  rewrite (gl_edge_un L e Hl). unfold inline_y. rewrite (gl_edge_ld (y_dds y) e (loaded_all e He Hb)).
  cbn [load_edge ei_restat].
  pose proof (edges_all_spec g _ e Hnl He) as K1. cbn beta in K1.
  destruct (y_bind y e) as [dd|] eqn:E; [|congruence].
  destruct (ey_bound e (fragY_edge e He) dd E) as [Hdd _].
  assert (Hnin : ~ In dd L).
  { intros Hi. unfold loaded in Hl. rewrite E in Hl. apply mem_In in Hi. congruence. }
  destruct (HL dd Hdd Hnin) as [p [Hp _]]. rewrite Hp in K1. cbn [is_some negb] in K1.
  rewrite orb_false_r in K1. apply orb_true_iff in K1. destruct K1 as [K1|K1].
  - apply negb_true_iff in K1. rewrite K1. rewrite orb_false_r. reflexivity.
  - rewrite K1. reflexivity.
Qed.

Lemma Lok_full K L : Lok K L -> forall e, e < N_ -> e <= K -> full L e.
Proof.
  intros HL e He Hle. destruct (full_dec L e) as [Hf|[Hl Hb]]; [exact Hf|exfalso].
  destruct (y_bind y e) as [dd|] eqn:E; [|congruence].
  destruct (ey_bound e (fragY_edge e He) dd E) as [Hdd [Hin _]].
  assert (Hnin : ~ In dd L).
  { intros Hi. unfold loaded in Hl. rewrite E in Hl. apply mem_In in Hi. congruence. }
  destruct (HL dd Hdd Hnin) as [p [Hp Hkp]].
  assert (Hlt : p < e).
  { apply (topo_lt e dd p He); [unfold inline_y; apply gl_ins; left; exact Hin|].
    unfold inline_y. apply g_prod_gl. exact Hp. }
  lia.
Qed.

(* a leaf input of a loaded graph is a leaf of the inlined manifest *)
Lemma gl_leaf_input L e i : e < N_ -> In i (ei_ins (g_edge (GL L) e)) -> g_producer (GL L) i = None ->
  g_producer GI i = None.
Proof.
  intros He Hi Hp. destruct (g_producer GI i) as [e'|] eqn:Hq; [exfalso|reflexivity].
  unfold inline_y in Hq. apply gl_prod in Hq. destruct Hq as [Hq|[Hn [Hq Hl']]].
  - rewrite (g_prod_gl L i e' Hq) in Hp. discriminate.
  - destruct (proj2 Hy i e' Hq) as [Ho He'].
    apply gl_ins in Hi. destruct Hi as [Hi|[Hl Hi]].
    + apply (proj2 (proj2 (ey_outs e' (fragY_edge e' He') i Ho)) e He Hi).
    + pose proof (ey_ins e (fragY_edge e He) i e' Hi Hq) as Hsame.
      assert (Hl2 : loaded y L e' = true) by (unfold loaded in *; rewrite Hsame; exact Hl).
      apply gl_prod_none in Hp. destruct Hp as [_ Hp]. rewrite (Hp e' Hq) in Hl2. discriminate.
Qed.

(* one command is the same command in every graph that knows the statement completely *)
Lemma run_edge_full cmd L st e : e < N_ -> full L e -> run_edge cmd (GL L) st e = run_edge cmd GI st e.
Proof.
  intros He Hf. unfold run_edge, finish_run, reads, nonoo_ins. rewrite (full_edge L e He Hf). reflexivity.
Qed.

(* the sources are loaded at scan time *)
Lemma scan_loads_mono st : forall l a x, In x a ->
  In x (fold_left (fun L d => if dd_ready g y st L d then L ++ [d] else L) l a).
Proof.
  induction l as [|d l IH]; intros a x Hx; [exact Hx|]. cbn [fold_left]. apply IH.
  destruct (dd_ready g y st a d); [apply in_or_app; left; exact Hx|exact Hx].
Qed.

Lemma scan_loads_src_gen st dd : g_producer g dd = None -> forall l a, In dd l ->
  In dd (fold_left (fun L d => if dd_ready g y st L d then L ++ [d] else L) l a).
Proof.
  intros Hp. induction l as [|d l IH]; intros a Hin; [destruct Hin|]. cbn [fold_left].
  destruct Hin as [->|Hin]; [|apply IH; exact Hin].
  apply scan_loads_mono. unfold dd_ready. rewrite Hp. apply in_or_app. right. left. reflexivity.
Qed.

Lemma scan_loads_src st dd : In dd (y_dds y) -> g_producer g dd = None -> In dd (scan_loads g y st).
Proof. intros Hin Hp. unfold scan_loads. apply (scan_loads_src_gen st dd Hp _ _ Hin). Qed.

Lemma Lok_init st : Lok 0 (scan_loads g y st).
Proof.
  intros dd Hdd Hnin. destruct (g_producer g dd) as [p|] eqn:Hp; [exists p; split; [reflexivity|lia]|].
  exfalso. apply Hnin. apply (scan_loads_src st dd Hdd Hp).
Qed.

Section Build.
Variable cmd : edge -> N -> snapshot -> node -> content.
Variables (st0 : hstate) (T : list node) (si : sstate) (pi : plan).
Hypothesis HG0 : Good cmd GI st0.
Hypothesis Hsi : scan (graph_of GI st0) (world_of st0) T = ScanOk si pi.
Hypothesis Hsrc : srcs_present g y st0 = true.
Hypothesis HT : targets_produced g T = true.

Notation stk k := (build_upto cmd GI pi k st0).
Notation GI0 := (graph_of GI st0).
Notation W st := (world_of st).

Lemma WfI : wf_spec GI.
Proof. apply (gl_wf_spec (y_dds y)). Qed.
Lemma WgI : wf_graph GI.
Proof. apply (gl_wf_graph (y_dds y)). Qed.

Lemma stk_facts k : k <= N_ ->
  Good cmd GI (stk k) /\ h_hash (stk k) = h_hash st0 /\ Frame GI st0 pi k (stk k).
Proof. intros Hk. apply (build_inv1 cmd GI WfI Hti st0 pi HG0 k Hk). Qed.

Lemma hash_k X k : k <= N_ -> graph_of X (stk k) = graph_of X st0.
Proof. intros Hk. apply G_hash_eq. apply (stk_facts k Hk). Qed.

Lemma HT' : forall t, In t T -> g_producer g t <> None.
Proof.
  intros t Ht. unfold targets_produced in HT. rewrite forallb_forall in HT.
  apply is_some_true. apply (HT t Ht).
Qed.

(* the sources a loaded graph reads exist during the whole build *)
Lemma src_k k L e i : k <= N_ -> e < N_ -> In i (ei_ins (g_edge (GL L) e)) -> g_producer (GL L) i = None ->
  mtime_of (stk k) i <> 0%Z.
Proof.
  intros Hk He Hi Hp. pose proof (gl_leaf_input L e i He Hi Hp) as Hq.
  pose proof (gl_ins_sub L e i He Hi) as Hi'.
  pose proof (edges_all_spec g _ e Hsrc He) as K1. cbn beta in K1. rewrite forallb_forall in K1.
  specialize (K1 i Hi'). unfold gi in K1. rewrite Hq in K1. cbn [is_some orb] in K1.
  destruct (stk_facts k Hk) as [_ [_ Hf]].
  unfold mtime_of. rewrite (frame_leaf GI st0 pi k (stk k) i Hf Hq).
  destruct (h_disk st0 i) as [[m c]|] eqn:Hd; [|discriminate].
  destruct HG0 as [[_ [B _]] _]. specialize (B i m c Hd). lia.
Qed.

Lemma dn_iff L k j : k <= N_ ->
  (dirty_now (GL L) (stk k) j = true <->
   exists o, In o (ei_outs (g_edge (GL L) j)) /\ must_dirty (graph_of (GL L) st0) (W (stk k)) o).
Proof.
  intros Hk. rewrite <- (hash_k (GL L) k Hk).
  apply (dirty_now_iff (GL L) (stk k) j (gl_wf_spec L) (gl_wf_graph L) (gl_frag L) (gl_topo L)).
  intros e i He Hi Hp. apply (src_k k L e i Hk He Hi Hp).
Qed.

Lemma dn_iff_I k j : k <= N_ ->
  (dirty_now GI (stk k) j = true <->
   exists o, In o (ei_outs (g_edge GI j)) /\ must_dirty GI0 (W (stk k)) o).
Proof. intros Hk. apply (dn_iff (y_dds y) k j Hk). Qed.

Lemma stk_S k : stk (S k) =
  if want_start pi k && negb (ei_phony (g_edge GI k)) && dirty_now GI (stk k) k
  then run_edge cmd GI (stk k) k else stk k.
Proof. rewrite build_upto_S. reflexivity. Qed.

(* one statement changes only what was dirty *)
Lemma step_clean k : k < N_ -> agree_clean GI st0 (W (stk k)) (W (stk (S k))).
Proof.
  intros Hk n Hn. rewrite stk_S.
  destruct (want_start pi k && negb (ei_phony (g_edge GI k)) && dirty_now GI (stk k) k)%bool eqn:Hc;
    [|split; reflexivity].
  apply andb_split in Hc. destruct Hc as [_ Hdn].
  apply (dn_iff_I k k (Nat.lt_le_incl _ _ Hk)) in Hdn. destruct Hdn as [o [Ho Hmd]].
  destruct (stk_facts k (Nat.lt_le_incl _ _ Hk)) as [[[A [B _]] _] _].
  destruct (run_edge_spec cmd GI (stk k) k A B) as [_ [_ [Hout _]]].
  destruct (in_dec Nat.eq_dec n (ei_outs (g_edge GI k))) as [Hin|Hnin].
  - exfalso. apply Hn.
    apply (must_dirty_same_prod GI0 (W (stk k)) o n k (out_prod GI WfI k o Ho) (out_prod GI WfI k n Hin) Hmd).
  - destruct (Hout n Hnin) as [E1 [E2 _]]. cbn [world_of w_mtime w_blog]. unfold mtime_of. rewrite E1, E2.
    split; reflexivity.
Qed.

Lemma md_back k o : k < N_ -> must_dirty GI0 (W (stk (S k))) o -> ~ ~ must_dirty GI0 (W (stk k)) o.
Proof.
  intros Hk Hmd Hn. apply (clean_stable GI WfI WgI Hfi st0 (W (stk k)) (W (stk (S k))) (step_clean k Hk) o Hmd Hn).
Qed.

(* what a (re-)scan of the graph loaded so far wants, in terms of the inlined manifest *)
Lemma rescan_inv K L s p' : K <= N_ -> Lok K L ->
  scan (graph_of (GL L) (stk K)) (W (stk K)) T = ScanOk s p' ->
  (forall j, want_start p' j = true -> want_start pi j = true) /\
  (forall j, j < N_ -> (forall e, e <= j -> e < N_ -> full L e) -> needed GI T j ->
     (exists o, In o (ei_outs (g_edge GI j)) /\ must_dirty GI0 (W (stk K)) o) -> want_start p' j = true).
Proof.
  intros HK HL Hs. split.
  - intros j Hw.
    destruct (want_sound (GL L) (gl_wf_spec L) (gl_wf_graph L) (gl_frag L) (stk K) T s p' Hs j Hw) as [Hn [o [Ho Hmd]]].
    rewrite (hash_k (GL L) K HK) in Hmd.
    pose proof (needed_up L T j Hn) as HnI.
    assert (Hj : j < N_) by (destruct HnI as [n [_ Hp]]; apply (WgI n j Hp)).
    pose proof (md_up st0 (W (stk K)) L (Lok_restat K L HL) o Hmd) as HmdI.
    pose proof (gl_outs_sub L j o Hj Ho) as HoI.
    destruct (want_start pi j) eqn:Hwi; [reflexivity|exfalso].
    destruct (stk_facts K HK) as [_ [_ Hf]].
    apply (clean_stable GI WfI WgI Hfi st0 (W st0) (W (stk K))
             (frame_clean GI WfI WgI Hfi st0 T si pi Hsi K (stk K) Hf) o HmdI).
    intros Hmd0.
    destruct (want_complete GI WfI WgI Hfi st0 T si pi Hsi j HnI (ex_intro _ o (conj HoI Hmd0))
                (nip_edge GI j Hnip Hj)) as [Hw' _].
    congruence.
  - intros j Hj Hfull HnI [o [Ho Hmd]].
    pose proof (full_edge L j Hj (Hfull j (le_n _) Hj)) as Heq.
    apply (want_complete (GL L) (gl_wf_spec L) (gl_wf_graph L) (gl_frag L) (stk K) T s p' Hs j).
    + apply (neededE_down L T j HT' HnI).
    + exists o. split; [rewrite Heq; exact Ho|]. rewrite (hash_k (GL L) K HK).
      apply (md_down st0 (W (stk K)) L j Hfull o Hmd).
      intros e Hp. rewrite (out_prod GI WfI j o Ho) in Hp. inversion Hp; subst. apply le_n.
    + apply (nip_edge (GL L) j (gl_nip L Hnip) Hj).
Qed.

(* ---- the pass invariant: [K] statements of the inlined build have had their turn *)
Record Inv (K : nat) (c : ycst) : Prop := mkInv {
  i_st : yc_st c = stk K;
  i_K : K <= N_;
  i_L : Lok K (yc_L c);
  i_sticky : forall e, e < N_ -> yc_sticky c e = false;
  i_ran : forall e, yc_ran c e = true -> e < K;
  i_ws : forall j, yc_want c j = true -> want_start pi j = true;
  i_wc : forall j, j < N_ -> (forall e, e <= j -> e < N_ -> full (yc_L c) e) -> needed GI T j ->
         (exists o, In o (ei_outs (g_edge GI j)) /\ must_dirty GI0 (W (stk K)) o) -> yc_want c j = true
}.

Lemma pending_spec L k dd : In dd (pending_of g y L k) <->
  In dd (y_dds y) /\ ~ In dd L /\ g_producer g dd = Some k.
Proof.
  unfold pending_of. rewrite filter_In. split.
  - intros [Hd Hc]. apply andb_split in Hc. destruct Hc as [Hc1 Hc2].
    apply negb_true_iff in Hc1. apply mem_false in Hc1. apply opt_eqb_eq in Hc2. auto.
  - intros [Hd [Hn Hp]]. split; [exact Hd|]. apply andb_true_iff. split.
    + apply negb_true_iff. apply mem_false. exact Hn.
    + apply opt_eqb_eq. exact Hp.
Qed.

Lemma pending_nil K L k : Lok K L -> k < K -> pending_of g y L k = [].
Proof.
  intros HL Hk. destruct (pending_of g y L k) as [|d l] eqn:E; [reflexivity|exfalso].
  assert (Hd : In d (pending_of g y L k)) by (rewrite E; left; reflexivity).
  apply pending_spec in Hd. destruct Hd as [Hd [Hn Hp]].
  destruct (HL d Hd Hn) as [p [Hp' Hle]]. rewrite Hp in Hp'. inversion Hp'; subst. lia.
Qed.

Lemma Lok_next K L : Lok K L -> Lok (S K) (L ++ pending_of g y L K).
Proof.
  intros HL dd Hdd Hnin.
  assert (Hn : ~ In dd L) by (intros Hi; apply Hnin; apply in_or_app; left; exact Hi).
  destruct (HL dd Hdd Hn) as [p [Hp Hle]]. exists p. split; [exact Hp|].
  destruct (Nat.eq_dec p K) as [->|Hne]; [exfalso|lia].
  apply Hnin. apply in_or_app. right. apply pending_spec. auto.
Qed.

(* a statement below [K] is not run again *)
Lemma low_norun K c k : Inv K c -> k < K -> k < N_ ->
  (yc_want c k && dirty_now (GL (yc_L c)) (yc_st c) k)%bool = false.
Proof.
  intros HI Hk HkN. destruct (yc_want c k) eqn:Hw; [|reflexivity]. cbn [andb].
  destruct (dirty_now (GL (yc_L c)) (yc_st c) k) eqn:Hdn; [exfalso|reflexivity].
  rewrite (i_st K c HI) in Hdn. apply (dn_iff (yc_L c) K k (i_K K c HI)) in Hdn.
  destruct Hdn as [o [Ho Hmd]].
  pose proof (md_up st0 (W (stk K)) (yc_L c) (Lok_restat K _ (i_L K c HI)) o Hmd) as HmdI.
  pose proof (gl_outs_sub (yc_L c) k o HkN Ho) as HoI.
  destruct (want_sound GI WfI WgI Hfi st0 T si pi Hsi k (i_ws K c HI k Hw)) as [Hn _].
  apply (build_inv_c02 cmd GI WfI WgI Hfi Hti st0 T si pi HG0 Hsi K Hnip (i_K K c HI) k Hk Hn o HoI HmdI).
Qed.

Lemma step_low K c k : Inv K c -> k < K -> k < N_ -> yc_ran c k = false -> yc_stop c = false ->
  exists c', ystep cmd g y T (YRun c) k = YRun c' /\ Inv K c' /\ yc_stop c' = false /\ yc_L c' = yc_L c.
Proof.
  intros HI Hk HkN Hran Hstop. unfold ystep. rewrite Hstop, Hran. cbn [orb]. cbv zeta. unfold gl.
  rewrite (low_norun K c k HI Hk HkN), (i_sticky K c HI k HkN). cbn [orb]. rewrite andb_false_r.
  rewrite (pending_nil K (yc_L c) k (i_L K c HI) Hk).
  eexists. split; [reflexivity|]. split; [|split; reflexivity].
  destruct HI as [I1 I2 I3 I4 I5 I6 I7]. constructor; cbn [yc_st yc_L yc_want yc_sticky yc_ran].
  - exact I1.
  - exact I2.
  - exact I3.
  - intros e He. rewrite (I4 e He). reflexivity.
  - intros e He. destruct (Nat.eqb e k) eqn:E; [apply Nat.eqb_eq in E; subst; exact Hk|apply I5; exact He].
  - exact I6.
  - exact I7.
Qed.

Lemma late_false L K e new : e < N_ -> new = pending_of g y L K ->
  (match y_bind y e with Some dd => mem_node dd new | None => false end && late_restat g y e)%bool = false.
Proof.
  intros He ->. destruct (y_bind y e) as [dd|] eqn:E; [|reflexivity].
  destruct (mem_node dd (pending_of g y L K)) eqn:Hm; [|reflexivity]. cbn [andb].
  apply mem_In in Hm. apply pending_spec in Hm. destruct Hm as [_ [_ Hp]].
  pose proof (edges_all_spec g _ e Hnl He) as K1. cbn beta in K1. rewrite E, Hp in K1.
  cbn [is_some negb] in K1. rewrite orb_false_r in K1. unfold late_restat.
  apply orb_true_iff in K1. destruct K1 as [K1|K1].
  - apply negb_true_iff in K1. rewrite K1. reflexivity.
  - rewrite K1. cbn [negb]. apply andb_false_r.
Qed.

(* the files still to be loaded: the measure that bounds the number of passes *)
Definition pend (L : list node) : nat := length (filter (fun dd => negb (mem_node dd L)) (y_dds y)).

Lemma filter_length_lt {A : Type} (f f' : A -> bool) d : forall l,
  (forall x, f' x = true -> f x = true) -> In d l -> f d = true -> f' d = false ->
  length (filter f' l) < length (filter f l).
Proof.
  intros l Hsub. assert (Hle : forall l0, length (filter f' l0) <= length (filter f l0)).
  { induction l0 as [|a l0 IH]; cbn [filter]; [lia|].
    destruct (f' a) eqn:E; [rewrite (Hsub a E); cbn [length]; lia|].
    destruct (f a); cbn [length]; lia. }
  induction l as [|a l IH]; intros Hin Hf Hf'; [destruct Hin|]. cbn [filter].
  destruct Hin as [->|Hin].
  - rewrite Hf, Hf'. cbn [length]. specialize (Hle l). lia.
  - specialize (IH Hin Hf Hf'). destruct (f' a) eqn:E; [rewrite (Hsub a E); cbn [length]; lia|].
    destruct (f a); cbn [length]; lia.
Qed.

Lemma pend_lt L K d l : pending_of g y L K = d :: l -> pend (L ++ pending_of g y L K) < pend L.
Proof.
  intros Hp. assert (Hd : In d (pending_of g y L K)) by (rewrite Hp; left; reflexivity).
  pose proof Hd as Hd'. apply pending_spec in Hd'. destruct Hd' as [Hdd [Hn _]].
  unfold pend. apply (filter_length_lt _ _ d (y_dds y)).
  - intros x Hx. apply negb_true_iff in Hx. apply mem_false in Hx. apply negb_true_iff. apply mem_false.
    intros Hi. apply Hx. apply in_or_app. left. exact Hi.
  - exact Hdd.
  - apply negb_true_iff. apply mem_false. exact Hn.
  - apply negb_false_iff. apply mem_In. apply in_or_app. right. exact Hd.
Qed.

(* every (re-)scan during the build is accepted *)
Lemma rescan_ok K L : K <= N_ -> exists s p, scan (graph_of (GL L) (stk K)) (W (stk K)) T = ScanOk s p.
Proof.
  intros HK. apply (scan_ok_present (graph_of (GL L) (stk K)) (W (stk K)) (gl_wf_spec L) (gl_wf_graph L) (gl_frag L) T (gl_topo L)).
  - intros e i He Hi Hp. cbn [world_of w_mtime]. apply (src_k K L e i HK He Hi Hp).
  - intros t Ht Hp. change (g_producer (GL L) t = None) in Hp.
    destruct (g_producer g t) as [e|] eqn:E; [|apply (HT' t Ht E)].
    rewrite (g_prod_gl L t e E) in Hp. discriminate.
Qed.

Lemma step_at K c : Inv K c -> K < N_ -> yc_ran c K = false -> yc_stop c = false ->
  exists c', ystep cmd g y T (YRun c) K = YRun c' /\ Inv (S K) c' /\
    ((yc_stop c' = false /\ yc_L c' = yc_L c) \/ (yc_stop c' = true /\ pend (yc_L c') < pend (yc_L c))).
Proof.
  intros HI HK Hran Hstop. destruct c as [st L want sticky ran stop].
  cbn [yc_st yc_L yc_want yc_sticky yc_ran yc_stop] in *.
  destruct HI as [I1 I2 I3 I4 I5 I6 I7]. cbn [yc_st yc_L yc_want yc_sticky yc_ran yc_stop] in *. subst st.
  assert (Hfull : forall e, e <= K -> e < N_ -> full L e) by (intros e H1 H2; apply (Lok_full K L I3 e H2 H1)).
  pose proof (full_edge L K HK (Hfull K (le_n _) HK)) as HeqK.
  assert (Hdn : dirty_now (GL L) (stk K) K = dirty_now GI (stk K) K).
  { apply eq_true_iff_eq. rewrite (dn_iff L K K I2), (dn_iff_I K K I2), HeqK.
    split; intros [o [Ho Hmd]]; exists o; (split; [exact Ho|]).
    - apply (md_up st0 (W (stk K)) L (Lok_restat K L I3) o Hmd).
    - apply (md_down st0 (W (stk K)) L K Hfull o Hmd).
      intros e Hp. rewrite (out_prod GI WfI K o Ho) in Hp. inversion Hp; subst. apply le_n. }
  assert (Hdec : (want K && dirty_now GI (stk K) K)%bool = (want_start pi K && dirty_now GI (stk K) K)%bool).
  { destruct (dirty_now GI (stk K) K) eqn:Hd; [|rewrite !andb_false_r; reflexivity]. rewrite !andb_true_r.
    apply eq_true_iff_eq. split; [apply I6|]. intros Hw.
    apply (dn_iff_I K K I2) in Hd.
    destruct (want_sound GI WfI WgI Hfi st0 T si pi Hsi K Hw) as [Hn _].
    apply (I7 K HK Hfull Hn Hd). }
  unfold ystep. cbn [yc_st yc_L yc_want yc_sticky yc_ran yc_stop]. rewrite Hstop, Hran. cbn [orb]. cbv zeta. unfold gl.
  set (run := (negb (ei_phony (g_edge (GL L) K)) && (want K && dirty_now (GL L) (stk K) K || sticky K))%bool).
  assert (Hrun : run = (want_start pi K && negb (ei_phony (g_edge GI K)) && dirty_now GI (stk K) K)%bool).
  { unfold run. rewrite (I4 K HK), orb_false_r, Hdn, Hdec, HeqK.
    destruct (want_start pi K), (ei_phony (g_edge GI K)), (dirty_now GI (stk K) K); reflexivity. }
  set (st1 := if run then run_edge cmd (GL L) (stk K) K else stk K).
  assert (Hst1 : st1 = stk (S K)).
  { unfold st1. rewrite stk_S, Hrun, (run_edge_full cmd L (stk K) K HK (Hfull K (le_n _) HK)). reflexivity. }
  clearbody st1. subst st1. clearbody run.
  assert (Hran' : forall e, (if Nat.eqb e K then (run || ran e)%bool else ran e) = true -> e < S K).
  { intros e He. destruct (Nat.eqb e K) eqn:E; [apply Nat.eqb_eq in E; lia|]. specialize (I5 e He). lia. }
  destruct (pending_of g y L K) as [|d l] eqn:Hpend.
  - eexists. split; [reflexivity|]. split; [|left; split; reflexivity].
    constructor; cbn [yc_st yc_L yc_want yc_sticky yc_ran].
    + reflexivity.
    + lia.
    + pose proof (Lok_next K L I3) as HL. rewrite Hpend, app_nil_r in HL. exact HL.
    + intros e He. rewrite (I4 e He). reflexivity.
    + exact Hran'.
    + exact I6.
    + intros j Hj Hf Hn [o [Ho Hmd]]. destruct (want j) eqn:Hw; [reflexivity|exfalso].
      apply (md_back K o HK Hmd). intros HmdK.
      rewrite (I7 j Hj Hf Hn (ex_intro _ o (conj Ho HmdK))) in Hw. discriminate.
  - pose proof (pend_lt L K d l Hpend) as Hlt. rewrite <- Hpend.
    destruct (rescan_ok (S K) (L ++ pending_of g y L K) HK) as [s [p' Hs]]. rewrite Hs.
    destruct (rescan_inv (S K) (L ++ pending_of g y L K) s p' HK (Lok_next K L I3) Hs) as [Rws Rwc].
    eexists. split; [reflexivity|]. split; [|right; split; [reflexivity|exact Hlt]].
    constructor; cbn [yc_st yc_L yc_want yc_sticky yc_ran].
    + reflexivity.
    + lia.
    + apply (Lok_next K L I3).
    + intros e He. rewrite (I4 e He). cbn [andb orb].
      rewrite (late_false L K e (pending_of g y L K) He eq_refl). reflexivity.
    + exact Hran'.
    + intros j Hw. apply orb_true_iff in Hw. destruct Hw as [Hw|Hw]; [apply I6; exact Hw|apply Rws; exact Hw].
    + intros j Hj Hf Hn Hmd. rewrite (Rwc j Hj Hf Hn Hmd). apply orb_true_r.
Qed.

(* ---- a pass, the passes, the build *)
Definition Pk (L0 : list node) (k : nat) (r : yrun) : Prop :=
  exists c K, r = YRun c /\ Inv K c /\
    ((yc_stop c = false /\ k <= K /\ yc_L c = L0) \/ (yc_stop c = true /\ pend (yc_L c) < pend L0)).

Lemma ystep_P L0 k r : k < N_ -> Pk L0 k r -> Pk L0 (S k) (ystep cmd g y T r k).
Proof.
  intros Hk [c [K [-> [HI Hor]]]].
  destruct Hor as [[Hstop [Hle HL]]|[Hstop Hlt]].
  - destruct (yc_ran c k) eqn:Hran.
    + unfold ystep. rewrite Hstop, Hran. cbn [orb]. exists c, K. split; [reflexivity|]. split; [exact HI|left].
      pose proof (i_ran K c HI k Hran). split; [exact Hstop|]. split; [lia|exact HL].
    + destruct (Nat.eq_dec k K) as [->|Hne].
      * destruct (step_at K c HI Hk Hran Hstop) as [c' [E [HI' Hor']]]. rewrite E.
        exists c', (S K). split; [reflexivity|]. split; [exact HI'|].
        destruct Hor' as [[Hs' HL']|[Hs' Hlt']].
        -- left. split; [exact Hs'|]. split; [apply le_n|congruence].
        -- right. split; [exact Hs'|]. rewrite <- HL. exact Hlt'.
      * destruct (step_low K c k HI ltac:(lia) Hk Hran Hstop) as [c' [E [HI' [Hs' HL']]]].
        rewrite E. exists c', K. split; [reflexivity|]. split; [exact HI'|left].
        split; [exact Hs'|]. split; [lia|congruence].
  - unfold ystep. rewrite Hstop. cbn [orb]. exists c, K. split; [reflexivity|]. split; [exact HI|right].
    split; assumption.
Qed.

Lemma fold_P L0 : forall n a r, a + n <= N_ -> Pk L0 a r ->
  Pk L0 (a + n) (fold_left (ystep cmd g y T) (seq a n) r).
Proof.
  induction n as [|n IH]; intros a r Hle HP; cbn [seq fold_left].
  - rewrite Nat.add_0_r. exact HP.
  - replace (a + S n) with (S a + n) by lia. apply IH; [lia|]. apply ystep_P; [lia|exact HP].
Qed.

Lemma ypass_P c K : Inv K c -> Pk (yc_L c) N_ (ypass cmd g y T c).
Proof.
  intros HI. unfold ypass.
  assert (HP : Pk (yc_L c) 0 (YRun (mkYC (yc_st c) (yc_L c) (yc_want c) (yc_sticky c) (yc_ran c) false))).
  { eexists. exists K. split; [reflexivity|]. split.
    - destruct HI as [I1 I2 I3 I4 I5 I6 I7]. constructor; assumption.
    - left. cbn [yc_stop yc_L]. split; [reflexivity|]. split; [lia|reflexivity]. }
  apply (fold_P (yc_L c) N_ 0 _ (le_n _) HP).
Qed.

Lemma ypasses_done : forall fuel c K, Inv K c -> pend (yc_L c) < fuel ->
  exists c', ypasses cmd g y T fuel c = YRun c' /\ yc_stop c' = false /\ Inv N_ c'.
Proof.
  induction fuel as [|f IH]; intros c K HI Hf; [lia|]. cbn [ypasses].
  destruct (ypass_P c K HI) as [c' [K' [E [HI' Hor]]]]. rewrite E.
  destruct Hor as [[Hs [Hle _]]|[Hs Hlt]]; rewrite Hs.
  - exists c'. split; [reflexivity|]. split; [exact Hs|].
    pose proof (i_K K' c' HI'). assert (K' = N_) by lia. subst K'. exact HI'.
  - apply (IH c' K' HI'). lia.
Qed.

Lemma src_missing_false s : dd_src_missing g y st0 s = false.
Proof.
  unfold dd_src_missing. destruct (existsb _ _) eqn:E; [exfalso|reflexivity].
  apply existsb_exists in E. destruct E as [e [He Hc]]. apply in_seq in He.
  assert (HeN : e < N_) by lia.
  destruct (y_bind y e) as [dd|] eqn:Hb; [|discriminate].
  apply andb_split in Hc. destruct Hc as [Hc _]. apply andb_split in Hc. destruct Hc as [Hc1 Hc2].
  apply negb_true_iff in Hc1. apply is_some_false in Hc1. apply negb_true_iff in Hc2.
  destruct (ey_bound e (fragY_edge e HeN) dd Hb) as [Hdd [Hin _]].
  assert (Hq : g_producer (GL (y_dds y)) dd = None).
  { apply gl_prod_none. split; [exact Hc1|]. intros e' Hq. exfalso.
    destruct (proj2 Hy dd e' Hq) as [Ho He'].
    apply (proj1 (proj2 (ey_outs e' (fragY_edge e' He') dd Ho)) Hdd). }
  assert (Hi : In dd (ei_ins (g_edge (GL (y_dds y)) e))) by (apply gl_ins; left; exact Hin).
  pose proof (src_k 0 (y_dds y) e dd (Nat.le_0_l _) HeN Hi Hq) as Hm.
  cbn [build_upto seq fold_left] in Hm. unfold mtime_of in Hm.
  destruct (h_disk st0 dd); [discriminate|]. apply Hm. reflexivity.
Qed.

Theorem ybuild_done : ybuild cmd g y st0 T = YDone (stk N_).
Proof.
  unfold ybuild.
  destruct (rescan_ok 0 (scan_loads g y st0) (Nat.le_0_l _)) as [s [p Hs]].
  change (stk 0) with st0 in Hs. unfold gl. rewrite Hs, (src_missing_false s).
  set (c0 := mkYC st0 (scan_loads g y st0) (want_start p) (fun _ => false) (fun _ => false) false).
  assert (HI0 : Inv 0 c0).
  { destruct (rescan_inv 0 (scan_loads g y st0) s p (Nat.le_0_l _) (Lok_init st0) Hs) as [Rws Rwc].
    constructor; cbn [c0 yc_st yc_L yc_want yc_sticky yc_ran].
    - reflexivity.
    - lia.
    - apply Lok_init.
    - reflexivity.
    - discriminate.
    - exact Rws.
    - exact Rwc. }
  assert (Hf : pend (yc_L c0) < pass_fuel y).
  { unfold pend, pass_fuel. generalize (y_dds y) as l. induction l as [|a l IH]; cbn [filter length]; [lia|].
    destruct (negb (mem_node a (yc_L c0))); cbn [length]; lia. }
  destruct (ypasses_done (pass_fuel y) c0 0 HI0 Hf) as [c' [E [Hs' HI']]].
  rewrite E, Hs'. f_equal. apply (i_st _ c' HI').
Qed.

End Build.

(* with the read sources present and manifest outputs as targets, BOTH manifests accept the request, and
   the build of the dyndep manifest ends in the state of the same build of the inlined manifest *)
Theorem ybuild_equiv cmd st T :
  Good cmd GI st -> srcs_present g y st = true -> targets_produced g T = true ->
  exists st', ybuild cmd g y st T = YDone st' /\ build cmd GI st T = Some st'.
Proof.
  intros HG Hsrc HT.
  destruct (scan_ok_present (graph_of GI st) (world_of st) WfI WgI Hfi T Hti) as [s [p Hs]].
  - intros e i He Hi Hp. cbn [world_of w_mtime].
    pose proof (edges_all_spec g _ e Hsrc He) as K1. cbn beta in K1. rewrite forallb_forall in K1.
    specialize (K1 i Hi). unfold gi in K1. change (g_producer GI i = None) in Hp. rewrite Hp in K1.
    cbn [is_some orb] in K1. unfold mtime_of. destruct (h_disk st i) as [[m c]|] eqn:Hd; [|discriminate].
    destruct HG as [[_ [B _]] _]. specialize (B i m c Hd). lia.
  - intros t Ht Hp. change (g_producer GI t = None) in Hp.
    unfold targets_produced in HT. rewrite forallb_forall in HT. specialize (HT t Ht).
    destruct (g_producer g t) as [e|] eqn:E; [|discriminate].
    unfold inline_y in Hp. rewrite (g_prod_gl (y_dds y) t e E) in Hp. discriminate.
  - exists (build_upto cmd GI p (g_nedges GI) st). split.
    + apply (ybuild_done cmd st T s p HG Hs Hsrc HT).
    + unfold build. rewrite Hs. reflexivity.
Qed.

(* ================================================================== Part E: histories *)
Section Hist.
Variable cmd : edge -> N -> snapshot -> node -> content.

Lemma yapply_other st x : (forall T, x <> Build T) -> yapply_step cmd g y st x = apply_step cmd GI st x.
Proof. intros H. destruct x as [n c|n|e h|T]; try reflexivity. exfalso. apply (H T). reflexivity. Qed.

Theorem hist_equiv : forall h st, Good cmd GI st -> hist_ok GI h = true -> hist_present_y cmd g y st h = true ->
  yrun_hist cmd g y st h = run_hist cmd GI st h.
Proof.
  induction h as [|x h IH]; intros st HG Hok Hp; [reflexivity|].
  cbn [hist_ok forallb] in Hok. apply andb_split in Hok. destruct Hok as [Hx Hok].
  cbn [hist_present_y] in Hp. apply andb_split in Hp. destruct Hp as [Hpx Hp].
  assert (Hstep : yapply_step cmd g y st x = apply_step cmd GI st x).
  { destruct x as [n c|n|e h0|T]; try reflexivity.
    apply andb_split in Hpx. destruct Hpx as [Hs HT].
    destruct (ybuild_equiv cmd st T HG Hs HT) as [st' [Hy' Hb]].
    cbn [yapply_step apply_step]. rewrite Hy', Hb. reflexivity. }
  cbn [yrun_hist run_hist fold_left]. rewrite Hstep in *.
  apply IH; [|exact Hok|exact Hp].
  apply (good_step cmd GI WfI Hti st x HG Hx).
Qed.

Lemma good_yhist h : hist_ok GI h = true -> hist_present_y cmd g y (init_hstate GI) h = true ->
  Good cmd GI (yrun_hist cmd g y (init_hstate GI) h).
Proof.
  intros Hok Hp. rewrite (hist_equiv h _ (good_init cmd GI) Hok Hp).
  apply (good_hist cmd GI WfI Hti h _ (good_init cmd GI) Hok).
Qed.

(* sources are left alone by a build *)
Lemma srcs_present_build st T st' : Good cmd GI st -> build cmd GI st T = Some st' ->
  srcs_present g y st = true -> srcs_present g y st' = true.
Proof.
  intros HG Hb Hs. destruct (build_sources cmd GI WfI Hti st T st' HG Hb) as [_ Hsrc].
  apply edges_all_intro. intros e He. pose proof (edges_all_spec g _ e Hs He) as K1. cbn beta in *.
  rewrite forallb_forall in *. intros i Hi. specialize (K1 i Hi). unfold gi in *.
  destruct (g_producer GI i) as [e'|] eqn:Hp; [reflexivity|]. rewrite (Hsrc i Hp). exact K1.
Qed.

Hypothesis Hgen : forall e h h' S o,
  ei_generator (g_edge GI e) = true -> cmd e h S o = cmd e h' S o.

Theorem y_C01 h T : hist_ok GI h = true -> hist_present_y cmd g y (init_hstate GI) h = true ->
  let s := yrun_hist cmd g y (init_hstate GI) h in
  srcs_present g y s = true -> targets_produced g T = true ->
  exists st', ybuild cmd g y s T = YDone st' /\
    forall n, reach GI T n -> content_of st' n = clean_of cmd GI st' n.
Proof.
  intros Hok Hp s Hs HT.
  destruct (ybuild_equiv cmd s T (good_yhist h Hok Hp) Hs HT) as [st' [Hy' Hb]].
  exists st'. split; [exact Hy'|]. unfold s in Hb. rewrite (hist_equiv h _ (good_init cmd GI) Hok Hp) in Hb.
  apply (C01_history cmd GI WfI WgI Hfi Hti Hgen h T st' Hok Hb).
Qed.

Theorem y_C02 h T st' : hist_ok GI h = true -> hist_present_y cmd g y (init_hstate GI) h = true ->
  let s := yrun_hist cmd g y (init_hstate GI) h in
  srcs_present g y s = true -> targets_produced g T = true ->
  ybuild cmd g y s T = YDone st' -> ybuild cmd g y st' T = YDone st'.
Proof.
  intros Hok Hp s Hs HT Hy1.
  pose proof (good_yhist h Hok Hp) as HG. fold s in HG.
  destruct (ybuild_equiv cmd s T HG Hs HT) as [st1 [Hy' Hb]]. rewrite Hy1 in Hy'. inversion Hy'; subst st1.
  pose proof (logsound_build cmd GI WfI Hti s T st' HG Hb) as HG'.
  pose proof (srcs_present_build s T st' HG Hb Hs) as Hs'.
  destruct (ybuild_equiv cmd st' T HG' Hs' HT) as [st2 [Hy2 Hb2]].
  rewrite (C02_second_build_idle cmd GI WfI WgI Hfi Hti s T st' HG Hnip Hb) in Hb2. inversion Hb2; subst st2.
  exact Hy2.
Qed.

End Hist.

(* ---- order *)
Lemma run_edge_trace cmd X st e : h_trace (run_edge cmd X st e) = e :: h_trace st.
Proof.
  unfold run_edge, finish_run. cbn [record h_trace].
  destruct (write_outs_spec (ei_restat (g_edge X e)) (cmd e (h_hash st e) (reads X st e))
              (ei_outs (g_edge X e)) (tick st)) as [_ [_ [_ [Tr _]]]].
  cbn zeta in Tr. rewrite Tr. reflexivity.
Qed.

Lemma build_trace cmd X p st : forall k,
  exists l, h_trace (build_upto cmd X p k st) = l ++ h_trace st /\
            StronglySorted (fun a b => b < a) l /\ Forall (fun e => e < k) l.
Proof.
  induction k as [|k [l [E [Hs Hf]]]].
  - exists []. split; [reflexivity|]. split; constructor.
  - rewrite build_upto_S. unfold build_step.
    destruct (want_start p k && negb (ei_phony (g_edge X k)) && dirty_now X (build_upto cmd X p k st) k)%bool.
    + exists (k :: l). split; [rewrite run_edge_trace, E; reflexivity|]. split.
      * constructor; [exact Hs|exact Hf].
      * constructor; [lia|]. apply (Forall_impl _ (fun a (H : a < k) => Nat.lt_lt_succ_r _ _ H) Hf).
    + exists l. split; [exact E|]. split; [exact Hs|].
      apply (Forall_impl _ (fun a (H : a < k) => Nat.lt_lt_succ_r _ _ H) Hf).
Qed.

Lemma ran_since_app (l : list edge) st st' : h_trace st' = l ++ h_trace st -> ran_since st st' = l.
Proof.
  intros H. unfold ran_since. rewrite H, app_length.
  replace (length l + length (h_trace st) - length (h_trace st)) with (length l + 0) by lia.
  rewrite firstn_app_2. cbn [firstn]. apply app_nil_r.
Qed.

(* [x] ran before [e] (the list is most recent first) *)
Definition before (l : list edge) (x e : edge) : Prop := exists l1 l2 l3, l = l1 ++ e :: l2 ++ x :: l3.

Lemma sorted_before l x e : StronglySorted (fun a b => b < a) l -> In x l -> In e l -> x < e -> before l x e.
Proof.
  intros Hs. induction Hs as [|a l Hs IH Hf]; intros Hx He Hlt; [destruct Hx|].
  rewrite Forall_forall in Hf. destruct He as [->|He].
  - destruct Hx as [->|Hx]; [lia|]. destruct (in_split x l Hx) as [l2 [l3 ->]].
    exists [], l2, l3. reflexivity.
  - destruct Hx as [->|Hx]; [specialize (Hf e He); lia|].
    destruct (IH Hx He Hlt) as [l1 [l2 [l3 ->]]]. exists (a :: l1), l2, l3. reflexivity.
Qed.

Theorem y_order cmd s T st' :
  Good cmd GI s -> srcs_present g y s = true -> targets_produced g T = true ->
  ybuild cmd g y s T = YDone st' ->
  let l := ran_since s st' in
  StronglySorted (fun a b => b < a) l /\
  forall e, In e l ->
    (forall i x, In i (y_ins y e) -> g_producer GI i = Some x -> x < e /\ (In x l -> before l x e)) /\
    (forall dd p, y_bind y e = Some dd -> g_producer g dd = Some p -> p < e /\ (In p l -> before l p e)).
Proof.
  intros HG Hs HT Hy1 l.
  destruct (ybuild_equiv cmd s T HG Hs HT) as [st1 [Hy' Hb]]. rewrite Hy1 in Hy'. inversion Hy'; subst st1.
  unfold build in Hb. destruct (scan (graph_of GI s) (world_of s) T) as [c1|m1 d1|e1| |sc p]; try discriminate.
  inversion Hb as [Hb']. destruct (build_trace cmd GI p s (g_nedges GI)) as [l' [E [Hso Hf]]].
  change (g_nedges GI) with N_ in *. rewrite Hb' in E. assert (Hl : l = l') by (apply ran_since_app; exact E). subst l'.
  split; [exact Hso|]. intros e He. rewrite Forall_forall in Hf. pose proof (Hf e He) as HeN. split.
  - intros i x Hi Hp.
    assert (Hb2 : y_bind y e <> None).
    { intros Hn. destruct (ey_unbound e (fragY_edge e HeN) Hn) as [Hnil _]. rewrite Hnil in Hi. destruct Hi. }
    assert (Hlt : x < e).
    { apply (topo_lt e i x HeN); [|exact Hp]. unfold inline_y. apply gl_ins. right.
      split; [apply (loaded_all e HeN Hb2)|exact Hi]. }
    split; [exact Hlt|]. intros Hx. apply (sorted_before l x e Hso Hx He Hlt).
  - intros dd p0 Hbd Hp.
    destruct (ey_bound e (fragY_edge e HeN) dd Hbd) as [_ [Hin _]].
    assert (Hlt : p0 < e).
    { apply (topo_lt e dd p0 HeN); [unfold inline_y; apply gl_ins; left; exact Hin|].
      unfold inline_y. apply g_prod_gl. exact Hp. }
    split; [exact Hlt|]. intros Hx. apply (sorted_before l p0 e Hso Hx He Hlt).
Qed.

End Graphs.

(* ================================================================== the theorems, premises spelled out *)
Lemma all_src_no_late g y : frag_ABY g y = true -> all_dd_sources g y = true -> no_late_restat g y = true.
Proof.
  intros Hfr Hall. apply edges_all_intro. intros e He.
  destruct (y_bind y e) as [dd|] eqn:E; [|rewrite !orb_true_r; reflexivity].
  destruct (ey_bound g y e (fragY_edge g y Hfr e He) dd E) as [Hdd _].
  unfold all_dd_sources in Hall. rewrite forallb_forall in Hall. rewrite (Hall dd Hdd). apply orb_true_r.
Qed.

(* (1) equivalence: over any history the two manifests are in the SAME state (disk, clock, log, ghost, trace:
   the same commands in the same order), and every request is accepted by both and ends in the same state *)
Theorem C11_equiv_proof :
  forall (cmd : edge -> N -> snapshot -> node -> content) (g : graph) (y : dyninfo),
    wf_spec g -> wf_graph g -> wf_y g y -> frag_ABY g y = true ->
    frag_AB (inline_y g y) = true -> topo_ordered (inline_y g y) = true ->
    dd_ins_ordered g y = true -> no_inputless_phony (inline_y g y) = true -> no_late_restat g y = true ->
  forall h : list hstep,
    hist_ok (inline_y g y) h = true ->
    hist_present_y cmd g y (init_hstate (inline_y g y)) h = true ->
    let sy := yrun_hist cmd g y (init_hstate (inline_y g y)) h in
    sy = run_hist cmd (inline_y g y) (init_hstate (inline_y g y)) h /\
    forall T : list node, srcs_present g y sy = true -> targets_produced g T = true ->
      exists st' : hstate,
        ybuild cmd g y sy T = YDone st' /\ build cmd (inline_y g y) sy T = Some st'.
Proof.
  intros cmd g y Hwf Hwg Hy Hfr Hfi Hti Hord Hnip Hnl h Hok Hp sy.
  pose proof (hist_equiv g y Hwf Hwg Hy Hfr Hfi Hti Hord Hnip Hnl cmd h _ (good_init cmd (inline_y g y)) Hok Hp) as E.
  split; [exact E|]. intros T Hs HT.
  apply (ybuild_equiv g y Hwf Hwg Hy Hfr Hfi Hti Hord Hnip Hnl cmd sy T); [|exact Hs|exact HT].
  unfold sy. rewrite E.
  apply (good_hist cmd (inline_y g y) (gl_wf_spec g y Hwf Hy Hfr _) Hti h _ (good_init cmd (inline_y g y)) Hok).
Qed.

(* the same with the side condition about restat as a switch: the observable part (commands run) *)
Definition C11_equiv_full (late_excluded : bool) : Prop :=
  forall (cmd : edge -> N -> snapshot -> node -> content) (g : graph) (y : dyninfo),
    wf_spec g -> wf_graph g -> wf_y g y -> frag_ABY g y = true ->
    frag_AB (inline_y g y) = true -> topo_ordered (inline_y g y) = true ->
    dd_ins_ordered g y = true -> no_inputless_phony (inline_y g y) = true ->
    (late_excluded = true -> no_late_restat g y = true) ->
  forall h : list hstep,
    hist_ok (inline_y g y) h = true ->
    hist_present_y cmd g y (init_hstate (inline_y g y)) h = true ->
    h_trace (yrun_hist cmd g y (init_hstate (inline_y g y)) h)
    = h_trace (run_hist cmd (inline_y g y) (init_hstate (inline_y g y)) h).

Theorem C11_equiv_full_proof : C11_equiv_full true.
Proof.
  intros cmd g y Hwf Hwg Hy Hfr Hfi Hti Hord Hnip Hnl h Hok Hp.
  destruct (C11_equiv_proof cmd g y Hwf Hwg Hy Hfr Hfi Hti Hord Hnip (Hnl eq_refl) h Hok Hp) as [E _].
  rewrite E. reflexivity.
Qed.

(* (2) C01 and C02 for the dyndep manifest *)
Theorem C11_C01_proof :
  forall (cmd : edge -> N -> snapshot -> node -> content) (g : graph) (y : dyninfo),
    wf_spec g -> wf_graph g -> wf_y g y -> frag_ABY g y = true ->
    frag_AB (inline_y g y) = true -> topo_ordered (inline_y g y) = true ->
    dd_ins_ordered g y = true -> no_inputless_phony (inline_y g y) = true -> no_late_restat g y = true ->
    (forall (e : edge) (h h' : N) (S : snapshot) (o : node),
       ei_generator (g_edge (inline_y g y) e) = true -> cmd e h S o = cmd e h' S o) ->
  forall (h : list hstep) (T : list node),
    hist_ok (inline_y g y) h = true ->
    hist_present_y cmd g y (init_hstate (inline_y g y)) h = true ->
    let s := yrun_hist cmd g y (init_hstate (inline_y g y)) h in
    srcs_present g y s = true -> targets_produced g T = true ->
    exists st' : hstate,
      ybuild cmd g y s T = YDone st' /\
      forall n : node, reach (inline_y g y) T n -> content_of st' n = clean_of cmd (inline_y g y) st' n.
Proof.
  intros cmd g y Hwf Hwg Hy Hfr Hfi Hti Hord Hnip Hnl Hgen h T.
  apply (y_C01 g y Hwf Hwg Hy Hfr Hfi Hti Hord Hnip Hnl cmd Hgen h T).
Qed.

Theorem C11_C02_proof :
  forall (cmd : edge -> N -> snapshot -> node -> content) (g : graph) (y : dyninfo),
    wf_spec g -> wf_graph g -> wf_y g y -> frag_ABY g y = true ->
    frag_AB (inline_y g y) = true -> topo_ordered (inline_y g y) = true ->
    dd_ins_ordered g y = true -> no_inputless_phony (inline_y g y) = true -> no_late_restat g y = true ->
  forall (h : list hstep) (T : list node) (st' : hstate),
    hist_ok (inline_y g y) h = true ->
    hist_present_y cmd g y (init_hstate (inline_y g y)) h = true ->
    let s := yrun_hist cmd g y (init_hstate (inline_y g y)) h in
    srcs_present g y s = true -> targets_produced g T = true ->
    ybuild cmd g y s T = YDone st' -> ybuild cmd g y st' T = YDone st'.
Proof.
  intros cmd g y Hwf Hwg Hy Hfr Hfi Hti Hord Hnip Hnl h T st'.
  apply (y_C02 g y Hwf Hwg Hy Hfr Hfi Hti Hord Hnip Hnl cmd h T st').
Qed.

(* (3) order: the commands of one build, most recent first, are in strictly decreasing statement order;
   a statement that ran did so after the producers of its dyndep inputs and after the producer of its
   dyndep file ([before l x e]: x ran before e) *)
Theorem C11_order_proof :
  forall (cmd : edge -> N -> snapshot -> node -> content) (g : graph) (y : dyninfo),
    wf_spec g -> wf_graph g -> wf_y g y -> frag_ABY g y = true ->
    frag_AB (inline_y g y) = true -> topo_ordered (inline_y g y) = true ->
    dd_ins_ordered g y = true -> no_inputless_phony (inline_y g y) = true -> no_late_restat g y = true ->
  forall (h : list hstep) (T : list node) (st' : hstate),
    hist_ok (inline_y g y) h = true ->
    hist_present_y cmd g y (init_hstate (inline_y g y)) h = true ->
    let s := yrun_hist cmd g y (init_hstate (inline_y g y)) h in
    srcs_present g y s = true -> targets_produced g T = true ->
    ybuild cmd g y s T = YDone st' ->
    let l := ran_since s st' in
    StronglySorted (fun a b : nat => b < a) l /\
    forall e : edge, In e l ->
      (forall (i : node) (x : edge), In i (y_ins y e) -> g_producer (inline_y g y) i = Some x ->
         x < e /\ (In x l -> before l x e)) /\
      (forall (dd : node) (p : edge), y_bind y e = Some dd -> g_producer g dd = Some p ->
         p < e /\ (In p l -> before l p e)).
Proof.
  intros cmd g y Hwf Hwg Hy Hfr Hfi Hti Hord Hnip Hnl h T st' Hok Hp s Hs HT Hb.
  apply (y_order g y Hwf Hwg Hy Hfr Hfi Hti Hord Hnip Hnl cmd s T st'); [|exact Hs|exact HT|exact Hb].
  destruct (C11_equiv_proof cmd g y Hwf Hwg Hy Hfr Hfi Hti Hord Hnip Hnl h Hok Hp) as [E _].
  unfold s. rewrite E.
  apply (good_hist cmd (inline_y g y) (gl_wf_spec g y Hwf Hy Hfr _) Hti h _ (good_init cmd (inline_y g y)) Hok).
Qed.

(* ================================================================== the example projects *)
Lemma ExY_wf_spec b : wf_spec (ExY.mk b).
Proof.
  split; [|split].
  - intros e o Ho. destruct b; destruct e as [|[|[|[|e]]]]; cbn in Ho;
      try (destruct Ho as [<-|[]]; reflexivity); destruct Ho.
  - intros n e Hp. destruct b; destruct n as [|[|[|[|[|[|[|[|n]]]]]]]]; cbn in Hp; try discriminate;
      inversion Hp; subst; cbn; left; reflexivity.
  - intros e Hd. exfalso. apply Hd. destruct e as [|[|[|[|e]]]]; reflexivity.
Qed.

Lemma ExY_wf_graph b : wf_graph (ExY.mk b).
Proof.
  intros n e Hp. destruct b; destruct n as [|[|[|[|[|[|[|[|n]]]]]]]]; cbn in Hp; try discriminate;
    inversion Hp; subst; cbn; lia.
Qed.

Lemma ExY_wf_y b : wf_y (ExY.mk b) ExY.y.
Proof.
  split.
  - intros e n Hn. destruct e as [|[|[|e]]]; cbn in Hn; try (destruct Hn); subst; try reflexivity; contradiction.
  - intros n e Hp. destruct n as [|[|[|[|[|[|n]]]]]]; cbn in Hp; try discriminate. inversion Hp; subst.
    split; [left; reflexivity|cbn; lia].
Qed.

Lemma ExY_gen b : forall e h h' S o,
  ei_generator (g_edge (inline_y (ExY.mk b) ExY.y) e) = true -> ExY.cmd e h S o = ExY.cmd e h' S o.
Proof. intros e h h' S o H. destruct b; destruct e as [|[|[|[|e]]]]; vm_compute in H; discriminate. Qed.

Lemma ExLate_wf_spec : wf_spec ExLate.g.
Proof.
  split; [|split].
  - intros e o Ho. destruct e as [|[|e]]; cbn in Ho; try (destruct Ho as [<-|[]]; reflexivity); destruct Ho.
  - intros n e Hp. destruct n as [|[|[|[|n]]]]; cbn in Hp; try discriminate;
      inversion Hp; subst; cbn; left; reflexivity.
  - intros e Hd. exfalso. apply Hd. destruct e as [|[|e]]; reflexivity.
Qed.

Lemma ExLate_wf_graph : wf_graph ExLate.g.
Proof.
  intros n e Hp. destruct n as [|[|[|[|n]]]]; cbn in Hp; try discriminate; inversion Hp; subst; cbn; lia.
Qed.

Lemma ExLate_wf_y : wf_y ExLate.g ExLate.y.
Proof. split; [intros e n Hn; destruct Hn|intros n e Hp; discriminate]. Qed.

(* (4) the listed finding dyndep-restat-known-late as a witness: a graph and a history inside the fragment,
   every premise of (1) but [no_late_restat] true, both manifests in the same state before the last build
   (same files, same log), the last build accepted by both: the dyndep manifest runs a command the inlined
   manifest skips; the contents agree *)
Definition C11_late_restat_witness : Prop :=
  exists (cmd : edge -> N -> snapshot -> node -> content) (g : graph) (y : dyninfo) (h : list hstep) (T : list node),
    wf_spec g /\ wf_graph g /\ wf_y g y /\
    frag_ABY g y && frag_AB (inline_y g y) && topo_ordered (inline_y g y) && dd_ins_ordered g y
    && no_inputless_phony (inline_y g y) && hist_ok (inline_y g y) (h ++ [Build T])
    && hist_present_y cmd g y (init_hstate (inline_y g y)) (h ++ [Build T]) = true /\
    no_late_restat g y = false /\
    let sy := yrun_hist cmd g y (init_hstate (inline_y g y)) h in
    let si := run_hist cmd (inline_y g y) (init_hstate (inline_y g y)) h in
    h_trace sy = h_trace si /\
    exists sy' si' e,
      ybuild cmd g y sy T = YDone sy' /\ build cmd (inline_y g y) si T = Some si' /\
      In e (ran_since sy sy') /\ ~ In e (ran_since si si') /\
      forall n, content_of sy' n = content_of si' n.

Theorem C11_late_restat_witness_proof : C11_late_restat_witness.
Proof.
  exists ExLate.cmd, ExLate.g, ExLate.y, (firstn 6 ExLate.hist), [3%nat].
  split; [exact ExLate_wf_spec|]. split; [exact ExLate_wf_graph|]. split; [exact ExLate_wf_y|].
  split; [vm_compute; reflexivity|]. split; [vm_compute; reflexivity|]. cbv zeta.
  split; [vm_compute; reflexivity|].
  set (sy := yrun_hist ExLate.cmd ExLate.g ExLate.y (init_hstate (inline_y ExLate.g ExLate.y)) (firstn 6 ExLate.hist)).
  set (si := run_hist ExLate.cmd (inline_y ExLate.g ExLate.y) (init_hstate (inline_y ExLate.g ExLate.y)) (firstn 6 ExLate.hist)).
  destruct (ybuild ExLate.cmd ExLate.g ExLate.y sy [3%nat]) as [|stf|sy'] eqn:Ey;
    [exfalso; revert Ey; vm_compute; discriminate|exfalso; revert Ey; vm_compute; discriminate|].
  destruct (build ExLate.cmd (inline_y ExLate.g ExLate.y) si [3%nat]) as [si'|] eqn:Ei;
    [|exfalso; revert Ei; vm_compute; discriminate].
  exists sy', si', 1%nat. split; [reflexivity|]. split; [reflexivity|].
  assert (Hy' : sy' = match ybuild ExLate.cmd ExLate.g ExLate.y sy [3%nat] with YDone s => s | _ => sy end)
    by (rewrite Ey; reflexivity).
  assert (Hi' : si' = match build ExLate.cmd (inline_y ExLate.g ExLate.y) si [3%nat] with Some s => s | None => si end)
    by (rewrite Ei; reflexivity).
  split; [rewrite Hy'; vm_compute; left; reflexivity|].
  split; [rewrite Hi'; vm_compute; intros [H|[]]; discriminate|].
  intros n. rewrite Hy', Hi'.
  destruct n as [|[|[|[|n]]]]; vm_compute; reflexivity.
Qed.

(* ... hence (1) without the side condition is false of the model *)
Theorem C11_late_restat_refuted_proof : ~ C11_equiv_full false.
Proof.
  intros H.
  specialize (H ExLate.cmd ExLate.g ExLate.y ExLate_wf_spec ExLate_wf_graph ExLate_wf_y).
  specialize (H eq_refl eq_refl eq_refl eq_refl eq_refl (fun F => False_ind _ (Bool.diff_false_true F))).
  specialize (H ExLate.hist eq_refl eq_refl). revert H. vm_compute. discriminate.
Qed.

(* (5) the same project with the dyndep file as a source that exists when the build starts, and as a file
   produced during the build: both satisfy every premise of (1), and over the same history (plus the step
   that creates the source file) every node but the dyndep file itself and the stand-in output of the
   statement that would produce it has the same content at the end *)
Theorem C11_existing_vs_produced_proof :
  let gp := ExY.g in let gs := ExY.gs in let y := ExY.y in
  (forall b, wf_spec (ExY.mk b) /\ wf_graph (ExY.mk b) /\ wf_y (ExY.mk b) y /\
     frag_ABY (ExY.mk b) y && frag_AB (inline_y (ExY.mk b) y) && topo_ordered (inline_y (ExY.mk b) y)
     && dd_ins_ordered (ExY.mk b) y && no_inputless_phony (inline_y (ExY.mk b) y)
     && no_late_restat (ExY.mk b) y = true) /\
  all_dd_sources gp y = false /\ all_dd_sources gs y = true /\
  hist_ok (inline_y gp y) ExY.hist && hist_present_y ExY.cmd gp y (init_hstate (inline_y gp y)) ExY.hist
  && hist_ok (inline_y gs y) ExY.hist_s && hist_present_y ExY.cmd gs y (init_hstate (inline_y gs y)) ExY.hist_s = true /\
  forall n, n <> 2%nat -> n <> 7%nat ->
    content_of (yrun_hist ExY.cmd gp y (init_hstate (inline_y gp y)) ExY.hist) n
    = content_of (yrun_hist ExY.cmd gs y (init_hstate (inline_y gs y)) ExY.hist_s) n.
Proof.
  cbv zeta. split.
  - intros b. split; [apply ExY_wf_spec|]. split; [apply ExY_wf_graph|]. split; [apply ExY_wf_y|].
    destruct b; vm_compute; reflexivity.
  - split; [vm_compute; reflexivity|]. split; [vm_compute; reflexivity|]. split; [vm_compute; reflexivity|].
    intros n H2 H7. destruct n as [|[|[|[|[|[|[|[|n]]]]]]]]; try congruence; vm_compute; reflexivity.
Qed.

(* (6) non-vacuity: the project ExY (dyndep file PRODUCED in the build; it gives e2 the implicit input x.h,
   produced by e1, and the implicit output tmp.imp, which it gives e3 as an implicit input) satisfies every
   premise of (1), (2), (3); its first build loads the file mid-build, its second at scan time *)
Theorem C11_nonvacuous_proof :
  let g := ExY.g in let y := ExY.y in let gi := inline_y g y in
  wf_spec g /\ wf_graph g /\ wf_y g y /\
  (forall e h h' S o, ei_generator (g_edge gi e) = true -> ExY.cmd e h S o = ExY.cmd e h' S o) /\
  frag_ABY g y && frag_AB gi && topo_ordered gi && dd_ins_ordered g y && no_inputless_phony gi
  && no_late_restat g y && hist_ok gi ExY.hist && hist_present_y ExY.cmd g y (init_hstate gi) ExY.hist = true /\
  (* the ground truth: produced file, input from another statement, output consumed downstream *)
  g_producer g 2%nat = Some 0%nat /\ y_bind y 2%nat = Some 2%nat /\ y_bind y 3%nat = Some 2%nat /\
  y_ins y 2%nat = [3%nat] /\ g_producer g 3%nat = Some 1%nat /\
  y_outs y 2%nat = [5%nat] /\ y_ins y 3%nat = [5%nat] /\ g_producer gi 5%nat = Some 2%nat /\
  (* first build: nothing loaded at scan time, all four commands, e2 read x.h, tmp.imp exists *)
  (let st := run_hist ExY.cmd gi (init_hstate gi) (firstn 2 ExY.hist) in
   scan_loads g y st = [] /\
   match ybuild ExY.cmd g y st [6%nat] with
   | YDone st' => ran_since st st' = [3; 2; 1; 0]%nat /\ content_of st' 5%nat <> None /\
                  scan_loads g y st' = [2%nat]
   | _ => False
   end) /\
  h_trace (yrun_hist ExY.cmd g y (init_hstate gi) ExY.hist) = [0; 3; 2; 1; 3; 2; 1; 0]%nat.
Proof.
  cbv zeta. split; [apply ExY_wf_spec|]. split; [apply ExY_wf_graph|]. split; [apply ExY_wf_y|].
  split; [apply (ExY_gen true)|]. split; [vm_compute; reflexivity|].
  repeat (split; [reflexivity|]).
  split; [|vm_compute; reflexivity].
  split; [vm_compute; reflexivity|]. vm_compute. split; [reflexivity|]. split; [discriminate|reflexivity].
Qed.

(* (1') one request: with the read sources present and manifest outputs as targets BOTH manifests accept,
   and end in the same state *)
Theorem C11_build_equiv_proof :
  forall (cmd : edge -> N -> snapshot -> node -> content) (g : graph) (y : dyninfo),
    wf_spec g -> wf_graph g -> wf_y g y -> frag_ABY g y = true ->
    frag_AB (inline_y g y) = true -> topo_ordered (inline_y g y) = true ->
    dd_ins_ordered g y = true -> no_inputless_phony (inline_y g y) = true -> no_late_restat g y = true ->
  forall (st : hstate) (T : list node),
    Good cmd (inline_y g y) st -> srcs_present g y st = true -> targets_produced g T = true ->
    exists st' : hstate,
      ybuild cmd g y st T = YDone st' /\ build cmd (inline_y g y) st T = Some st'.
Proof.
  intros cmd g y Hwf Hwg Hy Hfr Hfi Hti Hord Hnip Hnl st T.
  apply (ybuild_equiv g y Hwf Hwg Hy Hfr Hfi Hti Hord Hnip Hnl cmd st T).
Qed.

(* (1'') when every dyndep file is a source the side condition about restat is not needed: restat from a
   dyndep file is always known at scan time *)
Theorem C11_equiv_sources_proof :
  forall (cmd : edge -> N -> snapshot -> node -> content) (g : graph) (y : dyninfo),
    wf_spec g -> wf_graph g -> wf_y g y -> frag_ABY g y = true ->
    frag_AB (inline_y g y) = true -> topo_ordered (inline_y g y) = true ->
    dd_ins_ordered g y = true -> no_inputless_phony (inline_y g y) = true -> all_dd_sources g y = true ->
  forall h : list hstep,
    hist_ok (inline_y g y) h = true ->
    hist_present_y cmd g y (init_hstate (inline_y g y)) h = true ->
    yrun_hist cmd g y (init_hstate (inline_y g y)) h
    = run_hist cmd (inline_y g y) (init_hstate (inline_y g y)) h.
Proof.
  intros cmd g y Hwf Hwg Hy Hfr Hfi Hti Hord Hnip Hall h Hok Hp.
  apply (C11_equiv_proof cmd g y Hwf Hwg Hy Hfr Hfi Hti Hord Hnip (all_src_no_late g y Hfr Hall) h Hok Hp).
Qed.
