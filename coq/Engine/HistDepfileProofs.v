(* Proofs about the history-level model with depfile-only statements (HistDepfileDefs.v).  No axioms.
   Part 1: the scan cannot tell a depfile-only statement from a [deps = gcc] statement when every
           depfile that exists is "out0: l" and corresponds to a valid record with the same list
           ([scan_eq]): ImplicitDepLoader::LoadDepFile / LoadDepFileTry answer like LoadDepsFromLog /
           LoadDepsFromLogTry, and nothing else in the scan looks at the deps kind.
   Part 2: the invariant ([finv_hist]): Good for the inlined manifest, no deps-log record, and
           [DepfileOk] (a depfile lists exactly the hidden reads; it exists when the statement has a
           log entry, unless the user removed it).
   Part 3: simulation by the deps-log model of HistDepsDefs on the manifest [to_log g] ([Sim],
           [fbuild_sim], [sim_step]); the theorems of HistDepsProofs carried over. *)
From NinjaV Require Import Engine.CrashDefs.
From NinjaV Require Import Base.Bytes Engine.ScanDefs Engine.ScanSpec Engine.ScanProofs Engine.HistDefs Engine.HistProofs Engine.HistDepsDefs Engine.HistDepsProofs Engine.HistDepfileDefs.
Local Open Scope Z_scope.

(* ================================================================== Part 1: the scan *)
Lemma visit_all_ext {A : Type} (P : A -> Prop) (v1 v2 : node -> A -> sres A) :
  (forall i a, P a -> v1 i a = v2 i a) ->
  (forall i a a', P a -> v2 i a = SOk a' -> P a') ->
  forall l a, P a -> visit_all v1 l a = visit_all v2 l a.
Proof.
  intros H1 H2. induction l as [|i l IH]; intros a Pa; [reflexivity|].
  cbn [visit_all]. rewrite (H1 i a Pa). destruct (v2 i a) as [a'|c|e|] eqn:Hv; try reflexivity.
  apply IH. apply (H2 i a a' Pa Hv).
Qed.

Lemma wf_spec_to_log g : wf_spec g -> wf_spec (to_log g).
Proof.
  intros [A [B C]]. split; [exact A|]. split; [exact B|].
  intros e Hd. apply (C e). intros Hn. apply Hd.
  cbn [to_log g_edge to_log_edge ei_deps]. rewrite Hn. reflexivity.
Qed.

Section ScanEq.
Local Open Scope nat_scope.
Variable gf : graph.
Variables (m : node -> Z) (b : node -> option (N * Z)).
Variables (dlf dl : node -> option (Z * list node)) (dff dfl : edge -> depfile_state).

Let gl : graph := to_log gf.
Let wf : world := mkWorld m b dlf dff.
Let wl : world := mkWorld m b dl dfl.

Hypothesis Hwfl : wf_spec gl.
Hypothesis Hnolog : forall n e, g_producer gf n = Some e -> ei_deps (g_edge gf e) <> DepsLog.
(* every depfile is missing, or "out0: l" with a valid record (dm, l) for out0 *)
Hypothesis HLR : forall e o0 os,
  ei_deps (g_edge gf e) = DepsDepfile -> ei_outs (g_edge gf e) = o0 :: os ->
  (dff e = DfMissing /\ dl o0 = None) \/
  (exists l dm, dff e = DfParsed [o0] l /\ dl o0 = Some (dm, l) /\ (m o0 <= dm)%Z).

Notation mark_of s e := (es_mark (st_edge s e)).
Notation ins_of s e := (es_ins (st_edge s e)).

Lemma load_eq s n e : g_producer gf n = Some e ->
  (ei_deps (g_edge gf e) = DepsDepfile ->
   forall o, In o (ei_outs (g_edge gf e)) -> ns_mtime (st_node s o) = m o) ->
  load_deps gf wf s e = load_deps gl wl s e /\ load_deps_try gf wf s e = load_deps_try gl wl s e.
Proof.
  intros Hp Hm. unfold load_deps, load_deps_try, edge_outs.
  cbn [gl to_log g_edge to_log_edge ei_deps ei_outs].
  destruct (ei_deps (g_edge gf e)) eqn:Hd; cbn [to_log_kind].
  - split; reflexivity.
  - assert (Hin : In n (ei_outs (g_edge gf e))) by (apply (proj1 (proj2 Hwfl) n e Hp)).
    destruct (ei_outs (g_edge gf e)) as [|o0 os] eqn:Ho; [destruct Hin|].
    cbn [wf wl w_depfile w_dlog].
    destruct (HLR e o0 os Hd Ho) as [[Hf Hl]|[l [dm [Hf [Hl Hle]]]]]; rewrite Hf, Hl.
    + split; reflexivity.
    + rewrite (Hm eq_refl o0 (or_introl eq_refl)). rewrite Nat.eqb_refl. cbn [negb forallb mem_node existsb].
      rewrite Nat.eqb_refl. cbn [orb andb].
      destruct (Z.gtb_spec (m o0) dm) as [Hgt|_]; [lia|]. split; reflexivity.
  - exfalso. apply (Hnolog n e Hp Hd).
Qed.

Lemma after_inputs_eq (visitf visitl : node -> sv -> sres sv) n e rm rd s3 vs3 :
  g_producer gf n = Some e ->
  (forall l (a : sv), SInv gl wl (fst a) -> visit_all visitf l a = visit_all visitl l a) ->
  SInv gl wl s3 -> mark_of s3 e = VisitInStack ->
  (forall o, In o (edge_outs gl e) -> statted wl s3 o) ->
  after_inputs gf wf visitf e false rm rd s3 vs3 = after_inputs gl wl visitl e false rm rd s3 vs3.
Proof.
  intros Hp Hvis HS3 M3 T3. unfold after_inputs.
  assert (E1 : eval_inputs gl e (ins_of s3 e) 0 s3 None false = eval_inputs gf e (ins_of s3 e) 0 s3 None false) by reflexivity.
  rewrite E1. destruct (eval_inputs gf e (ins_of s3 e) 0 s3 None false) as [[s4 mri] dirty] eqn:Hev.
  assert (E2 : outputs_dirty_all gl wl e (edge_outs gl e) mri s4 = outputs_dirty_all gf wf e (edge_outs gf e) mri s4) by reflexivity.
  rewrite E2.
  destruct (if dirty then (true, s4) else outputs_dirty_all gf wf e (edge_outs gf e) mri s4) as [dirty1 s5] eqn:Hod.
  (* the frame up to s5, as in ScanProofs *)
  pose proof (local_eval_inputs gl e _ _ _ _ _ _ _ _ E1) as L34.
  pose proof (st_node_eval_inputs gl e _ _ _ _ _ _ _ _ E1) as N34.
  assert (Hod' : (if dirty then (true, s4) else outputs_dirty_all gl wl e (edge_outs gl e) mri s4) = (dirty1, s5)) by (rewrite E2; exact Hod).
  assert (E45 : st_edge s5 = st_edge s4).
  { destruct dirty; [inversion Hod'; subst; reflexivity|].
    pose proof (st_edge_outputs_dirty_all gl wl e mri (edge_outs gl e) s4) as Hx. rewrite Hod' in Hx. exact Hx. }
  assert (N45 : forall x, ~ In x (edge_outs gl e) -> st_node s5 x = st_node s4 x).
  { destruct dirty; [inversion Hod'; subst; reflexivity|]. apply (oda_nodes gl wl e mri _ _ _ _ Hod'). }
  assert (LS35 : lstep gl e s3 s5).
  { split.
    - intros e' Hne. rewrite E45. apply (proj1 L34 e' Hne).
    - intros x Hx. rewrite (N45 x Hx), N34. reflexivity. }
  assert (M5 : mark_of s5 e = VisitInStack) by (rewrite E45, (proj1 (proj2 L34)); exact M3).
  assert (HS5 : SInv gl wl s5) by (apply (SInv_lstep gl wl Hwfl e s3 s5 HS3 LS35); [rewrite M3; discriminate|exact M5]).
  assert (Hmt5 : ei_deps (g_edge gf e) = DepsDepfile ->
                 forall o, In o (ei_outs (g_edge gf e)) -> ns_mtime (st_node s5 o) = m o).
  { intros Hdk o Ho.
    assert (Hph : ei_phony (g_edge gl e) = false).
    { apply (proj2 (proj2 Hwfl) e). cbn [gl to_log g_edge to_log_edge ei_deps]. rewrite Hdk. discriminate. }
    assert (s5 = s4).
    { destruct dirty; [inversion Hod'; reflexivity|]. rewrite (oda_nonphony gl wl e mri Hph) in Hod'. inversion Hod'; reflexivity. }
    subst s5. rewrite N34. apply (T3 o Ho). }
  destruct (load_eq s5 n e Hp Hmt5) as [EL ET]. rewrite <- EL, <- ET.
  destruct dirty1.
  - destruct (load_deps_try gf wf s5 e); reflexivity.
  - destruct (load_deps gf wf s5 e) as [| |l]; [reflexivity|reflexivity|].
    change (splice_deps gl s5 e l) with (splice_deps gf s5 e l).
    destruct (splice_deps_props gl e s5 l) as [A6 [Mk6 _]].
    assert (LS56 : lstep gl e s5 (splice_deps gf s5 e l)) by (split; [exact A6|intros x _; reflexivity]).
    assert (HS6 : SInv gl wl (splice_deps gf s5 e l)).
    { apply (SInv_lstep gl wl Hwfl e s5 _ HS5 LS56); [rewrite M5; discriminate|].
      change (splice_deps gf s5 e l) with (splice_deps gl s5 e l). rewrite Mk6. exact M5. }
    rewrite (Hvis l ((splice_deps gf s5 e l, vs3) : sv) HS6).
    destruct (visit_all visitl l (splice_deps gf s5 e l, vs3)) as [[s7 vs7]|c|e'|]; reflexivity.
Qed.

Lemma rnd_eq : forall f stack n s vs, SInv gl wl s ->
  recompute_node_dirty gf wf f stack n (s, vs) = recompute_node_dirty gl wl f stack n (s, vs).
Proof.
  induction f as [|f IH]; intros stack n s vs HS; [reflexivity|].
  destruct (g_producer gf n) as [e|] eqn:Hp.
  2:{ cbn [recompute_node_dirty]. cbn [gl to_log g_producer]. rewrite Hp. reflexivity. }
  destruct (mark_of s e) eqn:Hm.
  2:{ cbn [recompute_node_dirty]. cbn [gl to_log g_producer]. rewrite Hp, Hm. reflexivity. }
  2:{ cbn [recompute_node_dirty]. cbn [gl to_log g_producer]. rewrite Hp, Hm. reflexivity. }
  rewrite (rnd_none_unfold gf wf f stack n e s vs Hp Hm), (rnd_none_unfold gl wl f stack n e s vs Hp Hm).
  destruct HS as [S1 [S2 [S3 S4]]]. destruct (S3 e Hm) as [Hdl _]. rewrite Hdl.
  destruct (s2_props gl wl e s) as [A2 [M2 I2]].
  change (stat_outputs wf (enter_edge s e) (edge_outs gf e)) with (stat_outputs wl (enter_edge s e) (edge_outs gl e)).
  change (ei_vals (g_edge gf e)) with (ei_vals (g_edge gl e)).
  set (s2 := stat_outputs wl (enter_edge s e) (edge_outs gl e)) in *.
  assert (LS2 : lstep gl e s s2).
  { split; [exact A2|]. intros n' Hn'. subst s2. rewrite stat_outputs_other by exact Hn'. reflexivity. }
  assert (HS2 : SInv gl wl s2).
  { apply (SInv_lstep gl wl Hwfl e s s2 (conj S1 (conj S2 (conj S3 S4))) LS2); [rewrite Hm; discriminate|exact M2]. }
  assert (T2 : forall o, In o (edge_outs gl e) -> statted wl s2 o).
  { intros o Ho. subst s2. apply stat_outputs_statted; [exact Ho|].
    intros o' Ho'. left. change (st_node (enter_edge s e) o') with (st_node s o').
    apply (S2 o' e (proj1 Hwfl e o' Ho') Hm). }
  set (visitf := recompute_node_dirty gf wf f (stack ++ [n])).
  set (visitl := recompute_node_dirty gl wl f (stack ++ [n])).
  assert (Hvl : forall i sa va sb vb, visitl i (sa, va) = SOk (sb, vb) -> SInv gl wl sa ->
                  SInv gl wl sb /\ vrel gl sa sb /\ node_final gl sb i).
  { intros i sa va sb vb Hv Ha. apply (rnd_spec gl wl Hwfl _ _ _ _ _ _ _ Hv Ha). }
  assert (Hvis : forall l (a : sv), SInv gl wl (fst a) -> visit_all visitf l a = visit_all visitl l a).
  { intros l a Pa. apply (visit_all_ext (fun a : sv => SInv gl wl (fst a))); [| |exact Pa].
    - intros i [sa va] Ha. apply (IH (stack ++ [n]) i sa va Ha).
    - intros i [sa va] [sb vb] Ha Hv. apply (Hvl i sa va sb vb Hv Ha). }
  rewrite (Hvis (ins_of s2 e) (s2, vs ++ ei_vals (g_edge gl e)) HS2).
  destruct (visit_all visitl (ins_of s2 e) (s2, vs ++ ei_vals (g_edge gl e))) as [[s3 vs3]|c|e'|] eqn:V1; try reflexivity.
  destruct (visit_all_spec gl wl visitl Hvl _ _ _ _ _ V1 HS2) as [HS3 [V23 _]].
  assert (E23 : st_edge s3 e = st_edge s2 e) by (apply (ext_marked s2 s3 e (proj1 V23)); rewrite M2; discriminate).
  assert (M3 : mark_of s3 e = VisitInStack) by (rewrite E23; exact M2).
  assert (T3 : forall o, In o (edge_outs gl e) -> statted wl s3 o).
  { intros o Ho. unfold statted. rewrite (proj2 V23 o); [apply T2; exact Ho|].
    unfold settled. rewrite (proj1 Hwfl e o Ho), M2. discriminate. }
  apply (after_inputs_eq visitf visitl n e _ _ s3 vs3 Hp Hvis HS3 M3 T3).
Qed.

Lemma loop_eq : forall qf queue s found, SInv gl wl s ->
  recompute_dirty_loop gf wf qf queue s found = recompute_dirty_loop gl wl qf queue s found.
Proof.
  induction qf as [|qf IH]; intros queue s found HS; destruct queue as [|n queue]; try reflexivity.
  cbn [recompute_dirty_loop].
  change (scan_fuel gf) with (scan_fuel gl). rewrite (rnd_eq (scan_fuel gl) [] n s [] HS).
  destruct (recompute_node_dirty gl wl (scan_fuel gl) [] n (s, [])) as [[s1 newv]|c|e|] eqn:Hv; try reflexivity.
  apply IH. apply (rnd_spec gl wl Hwfl _ _ _ _ _ _ _ Hv HS).
Qed.

Lemma bat_eq s p t : SInv gl wl s -> builder_add_target gf wf s p t = builder_add_target gl wl s p t.
Proof.
  intros HS. unfold builder_add_target, recompute_dirty.
  change (queue_fuel gf) with (queue_fuel gl). rewrite (loop_eq (queue_fuel gl) [t] s [] HS). reflexivity.
Qed.

Lemma add_targets_eq : forall T s p, SInv gl wl s -> add_targets gf wf s p T = add_targets gl wl s p T.
Proof.
  induction T as [|t T IH]; intros s p HS; [reflexivity|]. cbn [add_targets].
  rewrite (bat_eq s p t HS). pose proof (bat_result gl wl s p t) as Hb.
  destruct (builder_add_target gl wl s p t) as [c|m0 d0|e| |s1 p1]; try reflexivity.
  destruct Hb as [vn Hb]. apply IH. unfold recompute_dirty in Hb. apply (loop_spec gl wl Hwfl _ _ _ _ _ _ Hb HS).
Qed.

Theorem scan_eq T : scan gf wf T = scan gl wl T.
Proof. unfold scan. apply (add_targets_eq T (init_state gl) init_plan (SInv_init gl wl)). Qed.

End ScanEq.

(* ================================================================== Part 2: the invariant *)
Section ModelFProofs.
Variable cmd : edge -> N -> snapshot -> node -> content.
Variable g : graph.
Variable hid : edge -> list node.
Hypothesis Hwf : wf_spec g.
Hypothesis Hwg : wf_graph g.
Hypothesis Hfrag : frag_ABF g hid = true.
Hypothesis Htopo : topo_ordered (inline g hid) = true.

Notation gl := (to_log g).
Notation gi := (inline g hid).
Notation outs e := (ei_outs (g_edge g e)).
Notation phony e := (ei_phony (g_edge g e)).

Let HfL : frag_ABD gl hid = true := proj2 (andb_true_split _ _ Hfrag).
Let HwfL : wf_spec gl := wf_spec_to_log g Hwf.
Let Hwfi : wf_spec gi := wf_spec_inline g hid Hwf.
Let HwgL : wf_graph gl := Hwg.
Let HtopoL : topo_ordered (inline gl hid) = true := Htopo.

Lemma no_log e : (e < g_nedges g)%nat -> ei_deps (g_edge g e) <> DepsLog.
Proof.
  intros He Hd. pose proof (edges_all_spec g _ e (proj1 (andb_true_split _ _ Hfrag)) He) as H. cbn beta in H.
  rewrite Hd in H. discriminate.
Qed.

Lemma depfile_is_log e : ei_deps (g_edge g e) = DepsDepfile -> ei_deps (g_edge gl e) = DepsLog.
Proof. intros Hd. cbn [to_log g_edge to_log_edge ei_deps]. rewrite Hd. reflexivity. Qed.

Lemma log_is_depfile e : (e < g_nedges g)%nat -> ei_deps (g_edge gl e) = DepsLog -> ei_deps (g_edge g e) = DepsDepfile.
Proof.
  intros He Hd. cbn [to_log g_edge to_log_edge ei_deps] in Hd.
  destruct (ei_deps (g_edge g e)) eqn:Hk; cbn [to_log_kind] in Hd; [discriminate|reflexivity|].
  exfalso. apply (no_log e He Hk).
Qed.

Lemma o_prodF e o : In o (outs e) -> g_producer g o = Some e.
Proof. apply (proj1 Hwf). Qed.

(* the disk/log part of one command: the same as for the deps-log manifest and the inlined one *)
Lemma frun_h fs e : f_h (frun_edge cmd g hid fs e) = d_h (drun_edge cmd g hid (f_ds fs) e).
Proof. unfold frun_edge. destruct (is_depfile (ei_deps (g_edge g e))); reflexivity. Qed.

Lemma drun_conv ds ds' e : d_h ds = d_h ds' ->
  d_h (drun_edge cmd g hid ds e) = d_h (drun_edge cmd gl hid ds' e).
Proof. intros H. unfold drun_edge. cbn [d_h]. rewrite H. reflexivity. Qed.

Lemma frun_inline fs e : (e < g_nedges g)%nat ->
  f_h (frun_edge cmd g hid fs e) = run_edge cmd gi (f_h fs) e.
Proof.
  intros He. rewrite frun_h, (drun_conv (f_ds fs) (f_ds fs) e eq_refl).
  exact (drun_edge_h cmd gl hid HfL (f_ds fs) e He).
Qed.

Lemma frun_deps fs e : (e < g_nedges g)%nat ->
  d_deps (f_ds (frun_edge cmd g hid fs e)) = d_deps (f_ds fs).
Proof.
  intros He. unfold frun_edge.
  assert (H : d_deps (drun_edge cmd g hid (f_ds fs) e) = d_deps (f_ds fs)).
  { unfold drun_edge. cbn [d_deps]. unfold record_deps.
    destruct (ei_deps (g_edge g e)) eqn:Hd; [reflexivity|reflexivity|exfalso; apply (no_log e He Hd)]. }
  destruct (is_depfile (ei_deps (g_edge g e))); exact H.
Qed.

Definition FInv (fs : fstate) : Prop :=
  Good cmd gi (f_h fs) /\ (forall o, d_deps (f_ds fs) o = None) /\ DepfileOk g hid fs.

Lemma finv_init : FInv (init_fstate g).
Proof.
  split; [apply (good_init cmd gi)|]. split; [reflexivity|].
  split; [intros e l H; discriminate|]. split; [|intros e H; discriminate].
  intros e o _ _ _ H. exfalso. apply H. reflexivity.
Qed.

(* steps that do not touch the log or the depfiles *)
Lemma finv_lift f fs :
  FInv fs -> Good cmd gi (f (f_h fs)) -> h_blog (f (f_h fs)) = h_blog (f_h fs) ->
  FInv (flift (dlift f) fs).
Proof.
  intros [_ [HD [F1 [F2 F3]]]] HG Hb. split; [exact HG|]. split; [exact HD|].
  split; [exact F1|]. split; [|exact F3].
  intros e o He Hd Ho Hbl. apply (F2 e o He Hd Ho).
  change (f_h (flift (dlift f) fs)) with (f (f_h fs)) in Hbl. rewrite Hb in Hbl. exact Hbl.
Qed.

Lemma finv_run fs e : FInv fs -> (e < g_nedges g)%nat -> phony e = false ->
  FInv (frun_edge cmd g hid fs e) /\
  (forall n, ~ In n (outs e) ->
     h_disk (f_h (frun_edge cmd g hid fs e)) n = h_disk (f_h fs) n /\
     h_blog (f_h (frun_edge cmd g hid fs e)) n = h_blog (f_h fs) n) /\
  h_hash (f_h (frun_edge cmd g hid fs e)) = h_hash (f_h fs) /\
  (ei_deps (g_edge g e) = DepsDepfile ->
   f_df (frun_edge cmd g hid fs e) e = Some (hid e) /\ f_udel (frun_edge cmd g hid fs e) e = false) /\
  (forall e', e' <> e -> f_df (frun_edge cmd g hid fs e) e' = f_df fs e' /\
                         f_udel (frun_edge cmd g hid fs e) e' = f_udel fs e').
Proof.
  intros [HG [HD [F1 [F2 F3]]]] He Hph.
  pose proof (frun_inline fs e He) as Eh. pose proof (frun_deps fs e He) as Ed.
  destruct HG as [[A [B C]] L].
  destruct (run_edge_spec cmd gi (f_h fs) e A B) as [Hh [_ [Hout _]]]. cbn zeta in *. rewrite <- Eh in *.
  assert (Hdf : (ei_deps (g_edge g e) = DepsDepfile ->
                 f_df (frun_edge cmd g hid fs e) e = Some (hid e) /\ f_udel (frun_edge cmd g hid fs e) e = false) /\
                (forall e', e' <> e -> f_df (frun_edge cmd g hid fs e) e' = f_df fs e' /\
                                       f_udel (frun_edge cmd g hid fs e) e' = f_udel fs e') /\
                (ei_deps (g_edge g e) <> DepsDepfile ->
                 f_df (frun_edge cmd g hid fs e) = f_df fs /\ f_udel (frun_edge cmd g hid fs e) = f_udel fs)).
  { unfold frun_edge. destruct (ei_deps (g_edge g e)) eqn:Hd; cbn [is_depfile f_df f_udel].
    - split; [discriminate|]. split; [intros e' _; split; reflexivity|intros _; split; reflexivity].
    - split; [intros _; rewrite Nat.eqb_refl; split; reflexivity|]. split; [|intros Hc; congruence].
      intros e' Hne. apply Nat.eqb_neq in Hne. rewrite Hne. split; reflexivity.
    - split; [discriminate|]. split; [intros e' _; split; reflexivity|intros _; split; reflexivity]. }
  destruct Hdf as [Hdf1 [Hdf2 Hdf3]].
  assert (Hcase : ei_deps (g_edge g e) = DepsDepfile \/ ei_deps (g_edge g e) <> DepsDepfile).
  { destruct (ei_deps (g_edge g e)); [right; discriminate|left; reflexivity|right; discriminate]. }
  split; [|split; [intros n Hn; destruct (Hout n Hn) as [E1 [E2 _]]; split; assumption|split; [exact Hh|split; [exact Hdf1|exact Hdf2]]]].
  split; [rewrite Eh; apply (good_run cmd gi Hwfi Htopo); [split; [split; [exact A|split; [exact B|exact C]]|exact L]|exact He|exact Hph]|].
  split; [intros o; rewrite Ed; apply HD|].
  split; [|split].
  - intros e' l Hl. destruct (Nat.eq_dec e' e) as [->|Hne].
    + destruct Hcase as [Hd|Hd].
      * rewrite (proj1 (Hdf1 Hd)) in Hl. inversion Hl. split; [exact He|]. split; [exact Hd|reflexivity].
      * rewrite (proj1 (Hdf3 Hd)) in Hl. apply (F1 e l Hl).
    + rewrite (proj1 (Hdf2 e' Hne)) in Hl. apply (F1 e' l Hl).
  - intros e' o He' Hd' Ho Hbl. destruct (Nat.eq_dec e' e) as [->|Hne].
    + left. apply (Hdf1 Hd').
    + assert (Hno : ~ In o (outs e)).
      { intros Hin. pose proof (o_prodF e o Hin) as H1. rewrite (o_prodF e' o Ho) in H1. congruence. }
      rewrite (proj1 (proj2 (Hout o Hno))) in Hbl. destruct (Hdf2 e' Hne) as [E1 E2]. rewrite E1, E2.
      apply (F2 e' o He' Hd' Ho Hbl).
  - intros e' Hu. destruct (Nat.eq_dec e' e) as [->|Hne].
    + destruct Hcase as [Hd|Hd].
      * rewrite (proj2 (Hdf1 Hd)) in Hu. discriminate.
      * destruct (Hdf3 Hd) as [E1 E2]. rewrite E1. rewrite E2 in Hu. apply (F3 e Hu).
    + destruct (Hdf2 e' Hne) as [E1 E2]. rewrite E1. rewrite E2 in Hu. apply (F3 e' Hu).
Qed.

(* ---- one invocation *)
Lemma fbuild_upto_S s p k fs :
  fbuild_upto cmd g hid s p (S k) fs = fbuild_step cmd g hid s p (fbuild_upto cmd g hid s p k fs) k.
Proof. unfold fbuild_upto. rewrite seq_S, fold_left_app. reflexivity. Qed.

Lemma fstep_cases s p fs k :
  let fsk := fbuild_upto cmd g hid s p k fs in
  (fbuild_upto cmd g hid s p (S k) fs = frun_edge cmd g hid fsk k /\ want_start p k = true /\ phony k = false /\
   dirty_now_d g s (f_ds fsk) k = true) \/
  (fbuild_upto cmd g hid s p (S k) fs = fsk /\
   (phony k = true \/ want_start p k = false \/ dirty_now_d g s (f_ds fsk) k = false)).
Proof.
  cbn zeta. rewrite fbuild_upto_S. unfold fbuild_step.
  destruct (want_start p k); [|right; split; [reflexivity|right; left; reflexivity]].
  destruct (phony k); [right; split; [reflexivity|left; reflexivity]|].
  destruct (dirty_now_d g s (f_ds (fbuild_upto cmd g hid s p k fs)) k); [left; repeat split; reflexivity|].
  right; split; [reflexivity|right; right; reflexivity].
Qed.

Lemma finv_upto s p fs k : FInv fs -> (k <= g_nedges g)%nat -> FInv (fbuild_upto cmd g hid s p k fs).
Proof.
  intros HI. induction k as [|k IH]; intros Hk; [exact HI|].
  destruct (fstep_cases s p fs k) as [[Hs [_ [Hph _]]]|[Hs _]]; rewrite Hs; [|apply IH; lia].
  apply (finv_run _ k (IH ltac:(lia)) ltac:(lia) Hph).
Qed.

Theorem finv_step fs x : FInv fs -> fstep_ok g x = true -> FInv (fapply_step cmd g hid fs x).
Proof.
  intros HI Hok. destruct x as [[n c|n|e h|T]|e]; cbn [fapply_step fstep_ok] in *.
  - apply finv_lift; [exact HI| |reflexivity].
    split; [apply (stateok_edit gi); [exact (proj1 (proj1 HI))|exact Hok]|apply (logsound_edit cmd gi Hwfi); [exact (proj1 HI)|exact Hok]].
  - apply finv_lift; [exact HI| |reflexivity].
    split; [apply (stateok_delete gi); exact (proj1 (proj1 HI))|apply (logsound_delete cmd gi); exact (proj1 HI)].
  - apply finv_lift; [exact HI|exact (proj1 HI)|reflexivity].
  - unfold fbuild. destruct (fscan g fs T) as [c|m d|e| |s p]; try exact HI.
    apply (finv_upto s p fs (g_nedges g) HI (le_n _)).
  - apply andb_true_iff in Hok. destruct Hok as [He Hd]. apply Nat.ltb_lt in He.
    destruct HI as [HG [HD [F1 [F2 F3]]]]. split; [exact HG|]. split; [exact HD|].
    unfold delete_depfile. split; [|split]; cbn [f_df f_udel f_h f_ds].
    + intros e' l. destruct (Nat.eqb e' e); [discriminate|apply F1].
    + intros e' o He' Hd' Ho Hbl. destruct (Nat.eqb e' e); [right; reflexivity|apply (F2 e' o He' Hd' Ho Hbl)].
    + intros e'. destruct (Nat.eqb e' e); [reflexivity|apply F3].
Qed.

(* (i) the invariant over histories *)
Theorem finv_hist : forall h fs, FInv fs -> fhist_ok g h = true -> FInv (frun_hist cmd g hid fs h).
Proof.
  induction h as [|x h IH]; intros fs HI Hok; [exact HI|].
  cbn [fhist_ok forallb] in Hok. apply andb_true_iff in Hok. destruct Hok as [Hx Hh].
  change (frun_hist cmd g hid fs (x :: h)) with (frun_hist cmd g hid (fapply_step cmd g hid fs x) h).
  apply IH; [apply finv_step; assumption|exact Hh].
Qed.


(* ================================================================== Part 3: simulation by the deps-log model on [to_log g] *)
(* the deps-log state [ds] stands for the depfile state [fs]: same disk, clock and build log; a depfile
   "out0: l" corresponds to a valid record (dm, l) of out0, a missing depfile to no record *)
Definition Sim (fs : fstate) (ds : dstate) : Prop :=
  d_h ds = f_h fs /\
  forall e o0 os, ei_deps (g_edge g e) = DepsDepfile -> outs e = o0 :: os ->
    match f_df fs e with
    | None => d_deps ds o0 = None
    | Some l => exists dm, d_deps ds o0 = Some (dm, l) /\ mtime_of (f_h fs) o0 <= dm
    end.

(* the canonical representative: every existing depfile as a record with the output's current mtime *)
Definition tr (fs : fstate) : dstate :=
  mkD (f_h fs)
      (fun o => match g_producer g o with
                | Some e => if is_depfile (ei_deps (g_edge g e))
                            then match f_df fs e with Some l => Some (mtime_of (f_h fs) o, l) | None => None end
                            else None
                | None => None
                end).

Lemma sim_tr fs : Sim fs (tr fs).
Proof.
  split; [reflexivity|]. intros e o0 os Hd Ho. cbn [tr d_deps].
  rewrite (o_prodF e o0) by (rewrite Ho; left; reflexivity). rewrite Hd. cbn [is_depfile].
  destruct (f_df fs e) as [l|]; [|reflexivity]. exists (mtime_of (f_h fs) o0). split; [reflexivity|lia].
Qed.

Lemma sim_init : Sim (init_fstate g) (init_dstate gl).
Proof. split; [reflexivity|]. intros e o0 os _ _. reflexivity. Qed.

(* the two scans are the same *)
Lemma scan_sim fs ds T : Sim fs ds -> fscan g fs T = dscan gl ds T.
Proof.
  intros [Hh Hr]. unfold fscan, dscan, world_of_f, world_of_d. rewrite Hh.
  apply (scan_eq (graph_of g (f_h fs)) (mtime_of (f_h fs)) (h_blog (f_h fs)) (d_deps (f_ds fs)) (d_deps ds)
                 (depfile_of g fs) (fun _ => DfMissing)).
  - exact HwfL.
  - intros n e Hp. apply (no_log e (Hwg n e Hp)).
  - intros e o0 os Hd Ho. cbn [graph_of g_edge set_hash ei_deps ei_outs] in Hd, Ho.
    specialize (Hr e o0 os Hd Ho). unfold depfile_of. rewrite Ho.
    destruct (f_df fs e) as [l|]; [|left; split; [reflexivity|exact Hr]].
    destruct Hr as [dm [Hr Hle]]. right. exists l, dm. split; [reflexivity|]. split; [exact Hr|exact Hle].
Qed.

(* the disk/log parts of the two builds go together, whatever the states are worth *)
Lemma fbuild_h s p fs ds : d_h ds = f_h fs -> forall k,
  f_h (fbuild_upto cmd g hid s p k fs) = d_h (dbuild_upto cmd gl hid s p k ds).
Proof.
  intros Hh. induction k as [|k IH]; [symmetry; exact Hh|].
  rewrite fbuild_upto_S, dbuild_upto_S. unfold fbuild_step, dbuild_step.
  change (ei_phony (g_edge gl k)) with (phony k).
  assert (Ed : dirty_now_d gl s (dbuild_upto cmd gl hid s p k ds) k =
               dirty_now_d g s (f_ds (fbuild_upto cmd g hid s p k fs)) k).
  { unfold dirty_now_d. change (graph_now gl s) with (graph_now g s). rewrite <- IH. reflexivity. }
  rewrite Ed.
  destruct (want_start p k && negb (phony k) && dirty_now_d g s (f_ds (fbuild_upto cmd g hid s p k fs)) k)%bool; [|exact IH].
  rewrite frun_h. apply drun_conv. exact IH.
Qed.

(* ... and with the invariants of the deps-log side, the correspondence of depfiles and records is kept *)
Lemma sim_run fs ds e : Sim fs ds -> GoodD cmd gl hid ds -> (e < g_nedges g)%nat -> phony e = false ->
  Sim (frun_edge cmd g hid fs e) (drun_edge cmd gl hid ds e).
Proof.
  intros [Hh Hr] HG He Hph.
  assert (Eh : d_h (drun_edge cmd gl hid ds e) = f_h (frun_edge cmd g hid fs e)).
  { rewrite frun_h. symmetry. apply drun_conv. symmetry. exact Hh. }
  split; [exact Eh|].
  destruct (drun_edge_spec cmd gl hid HwfL HfL HtopoL ds e HG He Hph) as [_ [_ [_ [Hout _]]]]. cbn zeta in Hout.
  intros e' o0 os Hd' Ho'.
  assert (Ho0 : In o0 (outs e')) by (rewrite Ho'; left; reflexivity).
  destruct (Nat.eq_dec e' e) as [->|Hne].
  - assert (Hdf : f_df (frun_edge cmd g hid fs e) e = Some (hid e)).
    { unfold frun_edge. rewrite Hd'. cbn [is_depfile f_df]. rewrite Nat.eqb_refl. reflexivity. }
    rewrite Hdf. exists (mtime_of (f_h (frun_edge cmd g hid fs e)) o0). split; [|lia].
    rewrite (drun_edge_deps cmd gl hid ds e). unfold record_deps. rewrite (depfile_is_log e Hd'). cbn [is_deps_log].
    change (ei_outs (g_edge gl e)) with (outs e). rewrite (proj2 (mem_node_In o0 _) Ho0), Eh. reflexivity.
  - assert (Hno : ~ In o0 (ei_outs (g_edge gl e))).
    { intros Hin. change (ei_outs (g_edge gl e)) with (outs e) in Hin.
      pose proof (o_prodF e o0 Hin) as H1. rewrite (o_prodF e' o0 Ho0) in H1. congruence. }
    destruct (Hout o0 Hno) as [E1 [_ [_ E4]]].
    assert (Hdf : f_df (frun_edge cmd g hid fs e) e' = f_df fs e').
    { unfold frun_edge. destruct (is_depfile (ei_deps (g_edge g e))); cbn [f_df]; [|reflexivity].
      apply Nat.eqb_neq in Hne. rewrite Hne. reflexivity. }
    rewrite Hdf, E4. specialize (Hr e' o0 os Hd' Ho').
    destruct (f_df fs e') as [l|]; [|exact Hr].
    destruct Hr as [dm [Hr Hle]]. exists dm. split; [exact Hr|].
    unfold mtime_of in *. rewrite <- Eh, E1, Hh. exact Hle.
Qed.

Lemma sim_upto s p fs ds k : Sim fs ds -> GoodD cmd gl hid ds -> (k <= g_nedges g)%nat ->
  Sim (fbuild_upto cmd g hid s p k fs) (dbuild_upto cmd gl hid s p k ds).
Proof.
  intros HS HG. induction k as [|k IH]; intros Hk; [exact HS|].
  specialize (IH ltac:(lia)).
  assert (Hkl : (k <= g_nedges gl)%nat) by (cbn [to_log g_nedges]; lia).
  destruct (dbuild_inv1 cmd gl hid HwfL HfL HtopoL ds s p HG k Hkl) as [HGk _].
  rewrite fbuild_upto_S, dbuild_upto_S. unfold fbuild_step, dbuild_step.
  change (ei_phony (g_edge gl k)) with (phony k).
  assert (Ed : dirty_now_d gl s (dbuild_upto cmd gl hid s p k ds) k =
               dirty_now_d g s (f_ds (fbuild_upto cmd g hid s p k fs)) k).
  { unfold dirty_now_d. change (graph_now gl s) with (graph_now g s). rewrite (proj1 IH). reflexivity. }
  rewrite Ed.
  destruct (want_start p k) eqn:Hw; [|exact IH]. destruct (phony k) eqn:Hph; [exact IH|]. cbn [negb andb].
  destruct (dirty_now_d g s (f_ds (fbuild_upto cmd g hid s p k fs)) k); [|exact IH].
  apply (sim_run _ _ k IH HGk ltac:(lia) Hph).
Qed.

Lemma fbuild_sim fs ds T : Sim fs ds -> GoodD cmd gl hid ds ->
  match fbuild cmd g hid fs T, dbuild cmd gl hid ds T with
  | Some fs', Some ds' => Sim fs' ds' /\ GoodD cmd gl hid ds'
  | None, None => True
  | _, _ => False
  end.
Proof.
  intros HS HG. unfold fbuild, dbuild. rewrite (scan_sim fs ds T HS).
  destruct (dscan gl ds T) as [c|m d|e| |s p] eqn:Hs; try exact I.
  split; [apply (sim_upto s p fs ds (g_nedges g) HS HG (le_n _))|].
  apply (dbuild_inv1 cmd gl hid HwfL HfL HtopoL ds s p HG (g_nedges g) (le_n _)).
Qed.

Lemma sim_lift f fs ds : Sim fs ds -> 
  (forall e o0 os, ei_deps (g_edge g e) = DepsDepfile -> outs e = o0 :: os ->
                   mtime_of (f (f_h fs)) o0 <= mtime_of (f_h fs) o0) ->
  Sim (flift (dlift f) fs) (dlift f ds).
Proof.
  intros [Hh Hr] Hm. split; [cbn [dlift d_h flift f_h f_ds]; rewrite Hh; reflexivity|].
  intros e o0 os Hd Ho. specialize (Hr e o0 os Hd Ho). specialize (Hm e o0 os Hd Ho).
  change (f_df (flift (dlift f) fs) e) with (f_df fs e). change (d_deps (dlift f ds) o0) with (d_deps ds o0).
  change (f_h (flift (dlift f) fs)) with (f (f_h fs)).
  destruct (f_df fs e) as [l|]; [|exact Hr]. destruct Hr as [dm [Hr Hle]]. exists dm. split; [exact Hr|lia].
Qed.

(* every step of HistDefs keeps the correspondence *)
Lemma sim_step fs ds x : Sim fs ds -> GoodD cmd gl hid ds -> step_ok g x = true ->
  Sim (fapply_step cmd g hid fs (FS x)) (dapply_step cmd gl hid ds x) /\
  GoodD cmd gl hid (dapply_step cmd gl hid ds x).
Proof.
  intros HS HG Hok. split; [|apply (goodd_step cmd gl hid HwfL HfL HtopoL ds x HG Hok)].
  destruct x as [n c|n|e h|T]; cbn [fapply_step dapply_step step_ok] in *.
  - apply sim_lift; [exact HS|]. intros e o0 os Hd Ho. unfold mtime_of. cbn [write_file h_disk]. unfold upd.
    destruct (Nat.eqb_spec o0 n) as [->|_]; [|lia]. exfalso.
    unfold is_source in Hok. rewrite (o_prodF e n) in Hok by (rewrite Ho; left; reflexivity). discriminate.
  - apply sim_lift; [exact HS|]. intros e o0 os _ _. unfold mtime_of. cbn [delete_file h_disk]. unfold upd.
    destruct (Nat.eqb o0 n); [|lia].
    destruct (h_disk (f_h fs) o0) as [[m c]|] eqn:Hd; [|lia].
    destruct HG as [[[_ [B _]] _] _]. rewrite (proj1 HS) in B. specialize (B o0 m c Hd). lia.
  - apply sim_lift; [exact HS|]. intros e' o0 os _ _. unfold mtime_of. cbn [set_cmd h_disk]. lia.
  - pose proof (fbuild_sim fs ds T HS HG) as H.
    destruct (fbuild cmd g hid fs T) as [fs'|]; destruct (dbuild cmd gl hid ds T) as [ds'|]; try contradiction.
    + apply H.
    + exact HS.
Qed.

(* the commands one build runs *)
Lemma fbuild_ran fs ds T fs' : Sim fs ds -> fbuild cmd g hid fs T = Some fs' ->
  exists ds', dbuild cmd gl hid ds T = Some ds' /\ d_h ds' = f_h fs' /\
              ran_since (f_h fs) (f_h fs') = ran_since (d_h ds) (d_h ds').
Proof.
  intros HS Hb. unfold fbuild in Hb. unfold dbuild. rewrite (scan_sim fs ds T HS) in Hb.
  destruct (dscan gl ds T) as [c|m d|e| |s p]; try discriminate. inversion Hb; subst fs'.
  eexists. split; [reflexivity|].
  rewrite (fbuild_h s p fs ds (proj1 HS) (g_nedges g)), (proj1 HS). split; reflexivity.
Qed.

(* a command that ran leaves its depfile behind *)
Lemma depfile_back s p fs e : ei_deps (g_edge g e) = DepsDepfile ->
  forall k, (e < k)%nat ->
  (want_start p e && negb (phony e) && dirty_now_d g s (f_ds (fbuild_upto cmd g hid s p e fs)) e)%bool = true ->
  f_df (fbuild_upto cmd g hid s p k fs) e = Some (hid e) /\ f_udel (fbuild_upto cmd g hid s p k fs) e = false.
Proof.
  intros Hd k Hk Hc. induction Hk as [|k Hk IH].
  - rewrite fbuild_upto_S. unfold fbuild_step. rewrite Hc. unfold frun_edge. rewrite Hd. cbn [is_depfile f_df f_udel].
    rewrite Nat.eqb_refl. split; reflexivity.
  - rewrite fbuild_upto_S. unfold fbuild_step.
    destruct (want_start p k && negb (phony k) && dirty_now_d g s (f_ds (fbuild_upto cmd g hid s p k fs)) k)%bool; [|exact IH].
    unfold frun_edge. destruct (is_depfile (ei_deps (g_edge g k))); cbn [f_df f_udel]; [|exact IH].
    assert (Hne : Nat.eqb e k = false) by (apply Nat.eqb_neq; lia). rewrite Hne. exact IH.
Qed.

Lemma reach_to_log T n : reach g T n -> reach gl T n.
Proof.
  intros H. induction H as [t Ht|x y Hx IH Hs]; [apply reach_target; exact Ht|].
  apply (reach_step gl (manifest_ins gl) T x y IH). exact Hs.
Qed.

(* ---- the theorems of HistDepsProofs, carried over *)
Lemma needed_to_log T e : (exists n, reach g T n /\ g_producer g n = Some e) ->
  exists n, reach gl T n /\ g_producer gl n = Some e.
Proof. intros [n [Rn Hp]]. exists n. split; [apply reach_to_log; exact Rn|exact Hp]. Qed.

(* (ii-c) the depfile is gone: "depfile is missing", the statement is re-run, the depfile is back *)
Theorem C10df_missing_depfile_reruns_proof fs T fs' e o0 os :
  (e < g_nedges g)%nat -> ei_deps (g_edge g e) = DepsDepfile -> outs e = o0 :: os ->
  f_df fs e = None ->
  (exists n, reach g T n /\ g_producer g n = Some e) ->
  fbuild cmd g hid fs T = Some fs' ->
  In e (ran_since (f_h fs) (f_h fs')) /\ f_df fs' e = Some (hid e) /\ f_udel fs' e = false.
Proof.
  intros He Hd Ho Hnone Hn Hb.
  pose proof (sim_tr fs) as HS.
  destruct (fbuild_ran fs (tr fs) T fs' HS Hb) as [ds' [Hdb [_ Hran]]].
  assert (Hrec : d_deps (tr fs) o0 = None).
  { pose proof (proj2 HS e o0 os Hd Ho) as H. rewrite Hnone in H. exact H. }
  pose proof (C10_stale_record_reruns_proof cmd gl hid HwfL HwgL HfL (tr fs) T ds' e o0 os He
                (depfile_is_log e Hd) Ho (or_introl Hrec) (needed_to_log T e Hn) Hdb) as Hin.
  split; [rewrite Hran; exact Hin|].
  unfold fbuild in Hb. unfold dbuild in Hdb. rewrite (scan_sim fs (tr fs) T HS) in Hb.
  destruct (dscan gl (tr fs) T) as [c|m d|e0| |s p]; try discriminate. inversion Hb; subst fs'. inversion Hdb; subst ds'.
  destruct (dbuild_trace cmd gl hid (tr fs) s p (g_nedges g)) as [l [Hl Hl2]].
  rewrite (ran_since_app l _ _ Hl) in Hin. apply Hl2 in Hin. destruct Hin as [_ [Hw [Hph Hdn]]].
  apply (depfile_back s p fs e Hd (g_nedges g) He).
  rewrite Hw. change (ei_phony (g_edge gl e)) with (phony e) in Hph. rewrite Hph. cbn [negb andb].
  rewrite <- Hdn. unfold dirty_now_d. change (graph_now gl s) with (graph_now g s).
  rewrite <- (fbuild_h s p fs (tr fs) (proj1 HS) e). reflexivity.
Qed.

(* no depfile is missing because the user removed it *)
Definition no_udel (fs : fstate) : Prop := forall e, f_udel fs e = false.

Lemma goodd_tr fs : FInv fs -> no_udel fs -> GoodD cmd gl hid (tr fs).
Proof.
  intros [HG [_ [F1 [F2 _]]]] Hnu. split; [exact HG|]. split.
  - intros o dm l Hr. cbn [tr d_deps] in Hr.
    destruct (g_producer g o) as [e|] eqn:Hp; [|discriminate].
    destruct (ei_deps (g_edge g e)) eqn:Hd; cbn [is_depfile] in Hr; try discriminate.
    destruct (f_df fs e) as [l0|] eqn:Hf; [|discriminate]. inversion Hr; subst dm l0.
    destruct (F1 e l Hf) as [He [_ Hl]]. split.
    + unfold mtime_of. destruct (h_disk (f_h fs) o) as [[mo c]|] eqn:Hdo; [|lia].
      destruct HG as [[_ [B _]] _]. specialize (B o mo c Hdo). lia.
    + exists e. split; [apply (proj1 (proj2 Hwf) o e Hp)|]. split; [apply depfile_is_log; exact Hd|exact Hl].
  - intros e o Hd Ho Hbl. change (ei_outs (g_edge gl e)) with (outs e) in Ho.
    pose proof (Hwg o e (o_prodF e o Ho)) as He. pose proof (log_is_depfile e He Hd) as Hdf.
    destruct (F2 e o He Hdf Ho Hbl) as [Hf|Hu]; [|rewrite (Hnu e) in Hu; discriminate].
    exists (mtime_of (f_h fs) o). split; [|cbn [tr d_h]; lia].
    cbn [tr d_deps]. rewrite (o_prodF e o Ho), Hdf. cbn [is_depfile]. rewrite Hf. reflexivity.
Qed.

(* (ii-a) a changed hidden read (an edited source) re-runs the statement in the next build *)
Theorem C10df_changed_dep_reruns_proof fs i c T fs' e :
  FInv fs -> no_udel fs -> no_restat_upstream_of_depfile g hid = true ->
  (e < g_nedges g)%nat -> ei_deps (g_edge g e) = DepsDepfile -> In i (hid e) -> is_source g i = true ->
  (exists n, reach g T n /\ g_producer g n = Some e) ->
  fbuild cmd g hid (fapply_step cmd g hid fs (FS (Edit i c))) T = Some fs' ->
  In e (ran_since (f_h (fapply_step cmd g hid fs (FS (Edit i c)))) (f_h fs')).
Proof.
  intros HI Hnu Hnr He Hd Hi Hsrc Hn Hb.
  pose proof (goodd_tr fs HI Hnu) as HG.
  destruct (sim_step fs (tr fs) (Edit i c) (sim_tr fs) HG Hsrc) as [HS1 _].
  destruct (fbuild_ran _ _ T fs' HS1 Hb) as [ds' [Hdb [_ Hran]]]. rewrite Hran.
  apply (C10_changed_dep_reruns_proof cmd gl hid HwfL HwgL HfL HtopoL (tr fs) i c T ds' e HG Hnr He
           (depfile_is_log e Hd) Hi Hsrc (needed_to_log T e Hn) Hdb).
Qed.

(* (ii-b) a listed file that is missing and has no rule dirties the statement; it is not an error *)
Theorem C10df_missing_dep_dirty_proof fs T e i :
  FInv fs -> no_udel fs -> no_restat_upstream_of_depfile g hid = true ->
  (e < g_nedges g)%nat -> ei_deps (g_edge g e) = DepsDepfile -> In i (hid e) -> is_source g i = true ->
  h_disk (f_h fs) i = None -> g_byloader g i = true ->
  (exists n, reach g T n /\ g_producer g n = Some e) ->
  (forall d, fscan g fs T <> ScanMissing i d) /\
  (forall fs', fbuild cmd g hid fs T = Some fs' -> In e (ran_since (f_h fs) (f_h fs'))).
Proof.
  intros HI Hnu Hnr He Hd Hi Hsrc Hmiss Hbl Hn.
  pose proof (goodd_tr fs HI Hnu) as HG. pose proof (sim_tr fs) as HS.
  destruct (C10_missing_dep_dirty_proof cmd gl hid HwfL HwgL HfL HtopoL (tr fs) T e i HG Hnr He
              (depfile_is_log e Hd) Hi Hsrc Hmiss Hbl (needed_to_log T e Hn)) as [H1 H2].
  split.
  - intros d. rewrite (scan_sim fs (tr fs) T HS). apply H1.
  - intros fs' Hb. destruct (fbuild_ran fs (tr fs) T fs' HS Hb) as [ds' [Hdb [_ Hran]]]. rewrite Hran. apply (H2 ds' Hdb).
Qed.

(* ---- histories without [DeleteDepfile]: the same states as the deps-log model, hence as the inlined manifest *)
Lemma hist_sim : forall h fs ds, Sim fs ds -> GoodD cmd gl hid ds -> hist_ok g h = true ->
  Sim (frun_hist cmd g hid fs (map FS h)) (drun_hist cmd gl hid ds h) /\
  GoodD cmd gl hid (drun_hist cmd gl hid ds h) /\
  hist_present_f cmd g hid fs h = hist_present cmd gl hid ds h.
Proof.
  induction h as [|x h IH]; intros fs ds HS HG Hok; [split; [exact HS|split; [exact HG|reflexivity]]|].
  cbn [hist_ok forallb] in Hok. apply andb_true_iff in Hok. destruct Hok as [Hx Hh].
  destruct (sim_step fs ds x HS HG Hx) as [HS1 HG1].
  destruct (IH _ _ HS1 HG1 Hh) as [A [B C]].
  cbn [map]. change (frun_hist cmd g hid fs (FS x :: map FS h))
    with (frun_hist cmd g hid (fapply_step cmd g hid fs (FS x)) (map FS h)).
  change (drun_hist cmd gl hid ds (x :: h)) with (drun_hist cmd gl hid (dapply_step cmd gl hid ds x) h).
  split; [exact A|]. split; [exact B|].
  cbn [hist_present_f hist_present]. rewrite C. f_equal.
  destruct x as [n c|n|e hh|T]; try reflexivity.
  unfold hidden_srcs_present, targets_known. rewrite (proj1 HS). reflexivity.
Qed.

Section Equiv.
Hypothesis Hord : hidden_reads_ordered_f g hid = true.
Hypothesis Hnr : no_restat_upstream_of_depfile g hid = true.
Hypothesis Hnip : no_inputless_phony g = true.

Let HnipL : no_inputless_phony gl = true := Hnip.

(* (iii) C10_equiv for depfile-only statements *)
Theorem C10df_equiv_proof h :
  hist_ok g h = true -> hist_present_f cmd g hid (init_fstate g) h = true ->
  f_h (frun_hist cmd g hid (init_fstate g) (map FS h)) = run_hist cmd gi (init_hstate gi) h.
Proof.
  intros Hok Hp.
  destruct (hist_sim h (init_fstate g) (init_dstate gl) sim_init (goodd_init cmd gl hid) Hok) as [HS [_ Hpe]].
  rewrite <- (proj1 HS). rewrite Hpe in Hp.
  exact (C10_equiv_present_proof cmd gl hid HwfL HwgL HfL HtopoL Hord Hnr HnipL h Hok Hp).
Qed.

Lemma hist_present_f_app : forall h h2 fs,
  hist_present_f cmd g hid fs (h ++ h2) =
  (hist_present_f cmd g hid fs h && hist_present_f cmd g hid (frun_hist cmd g hid fs (map FS h)) h2)%bool.
Proof.
  induction h as [|x h IH]; intros h2 fs; [reflexivity|].
  change ((x :: h) ++ h2) with (x :: (h ++ h2)). cbn [hist_present_f map].
  change (frun_hist cmd g hid fs (FS x :: map FS h)) with (frun_hist cmd g hid (fapply_step cmd g hid fs (FS x)) (map FS h)).
  rewrite IH, andb_assoc. reflexivity.
Qed.

(* C01 carried over *)
Theorem C10df_C01_proof h T fs' :
  (forall e hh hh' S o, ei_generator (g_edge g e) = true -> cmd e hh S o = cmd e hh' S o) ->
  hist_ok g h = true -> hist_present_f cmd g hid (init_fstate g) (h ++ [Build T]) = true ->
  fbuild cmd g hid (frun_hist cmd g hid (init_fstate g) (map FS h)) T = Some fs' ->
  forall n, reach gi T n -> content_of (f_h fs') n = clean_of_f cmd g hid fs' n.
Proof.
  intros Hgen Hok Hp Hb n Rn.
  destruct (hist_sim h (init_fstate g) (init_dstate gl) sim_init (goodd_init cmd gl hid) Hok) as [HS [HG _]].
  destruct (fbuild_ran _ _ T fs' HS Hb) as [ds' [Hdb [Hh' _]]].
  assert (Hpl : hist_present cmd gl hid (init_dstate gl) (h ++ [Build T]) = true).
  { assert (Hok2 : hist_ok g (h ++ [Build T]) = true).
    { unfold hist_ok. rewrite forallb_app, andb_true_iff. split; [exact Hok|reflexivity]. }
    destruct (hist_sim (h ++ [Build T]) (init_fstate g) (init_dstate gl) sim_init (goodd_init cmd gl hid) Hok2) as [_ [_ Hpe]].
    rewrite <- Hpe. exact Hp. }
  assert (Rn' : reach (inline gl hid) T n).
  { clear - Rn. induction Rn as [t Ht|x y Hx IH Hs]; [apply reach_target; exact Ht|].
    apply (reach_step (inline gl hid) (manifest_ins (inline gl hid)) T x y IH). exact Hs. }
  pose proof (C10_C01_present_proof cmd gl hid HwfL HwgL HfL HtopoL Hord Hnr HnipL h T ds' Hgen Hok Hpl Hdb n Rn') as H.
  unfold clean_of_f. rewrite <- Hh'. exact H.
Qed.

(* C02 carried over: right after a successful build the depfile manifest wants nothing *)
Theorem C10df_C02_proof h T fs' :
  hist_ok g h = true -> hist_present_f cmd g hid (init_fstate g) (h ++ [Build T]) = true ->
  fbuild cmd g hid (frun_hist cmd g hid (init_fstate g) (map FS h)) T = Some fs' ->
  (forall s p, fscan g fs' T = ScanOk s p -> forall e, p_want p e <> Some WantToStart) /\
  (forall fs'', fbuild cmd g hid fs' T = Some fs'' -> fs'' = fs').
Proof.
  intros Hok Hp Hb.
  destruct (hist_sim h (init_fstate g) (init_dstate gl) sim_init (goodd_init cmd gl hid) Hok) as [HS [HG _]].
  set (fsh := frun_hist cmd g hid (init_fstate g) (map FS h)) in *.
  set (dsh := drun_hist cmd gl hid (init_dstate gl) h) in *.
  pose proof (fbuild_sim fsh dsh T HS HG) as Hsim. rewrite Hb in Hsim.
  destruct (dbuild cmd gl hid dsh T) as [ds'|] eqn:Hdb; [|contradiction]. destruct Hsim as [HS' HG'].
  rewrite hist_present_f_app in Hp. apply andb_true_iff in Hp. destruct Hp as [_ Hp2].
  cbn [hist_present_f] in Hp2. rewrite andb_true_r in Hp2. apply andb_true_iff in Hp2. destruct Hp2 as [Hpres HT].
  fold fsh in Hpres.
  assert (Hacc : exists st', build cmd (inline gl hid) (d_h dsh) T = Some st').
  { apply (proj2 (build_some cmd gl hid (d_h dsh) T)).
    apply (proj1 (accept_equiv cmd gl hid HwfL HwgL HfL HtopoL Hord HnipL dsh T HG
                    ltac:(rewrite (proj1 HS); exact Hpres) HT)).
    apply (proj1 (dbuild_some cmd gl hid dsh T)). exists ds'. exact Hdb. }
  destruct Hacc as [st' Hi].
  destruct (C10_C02_proof cmd gl hid HwfL HwgL HfL HtopoL Hord Hnr HnipL dsh T ds' st' HG Hdb Hi) as [Hwant _].
  assert (Hw : forall s p, fscan g fs' T = ScanOk s p -> forall e, p_want p e <> Some WantToStart).
  { intros s p Hs. rewrite (scan_sim fs' ds' T HS') in Hs. apply (Hwant s p Hs). }
  split; [exact Hw|].
  intros fs'' Hb2. unfold fbuild in Hb2. destruct (fscan g fs' T) as [c|m d|e| |s p] eqn:Hs; try discriminate.
  inversion Hb2; subst fs''.
  assert (Hidle : forall k, fbuild_upto cmd g hid s p k fs' = fs').
  { induction k as [|k IH]; [reflexivity|]. rewrite fbuild_upto_S, IH. unfold fbuild_step.
    assert (Hwk : want_start p k = false).
    { destruct (want_start p k) eqn:E; [|reflexivity]. apply want_start_iff in E. destruct (Hw s p eq_refl k E). }
    rewrite Hwk. reflexivity. }
  apply Hidle.
Qed.

End Equiv.
End ModelFProofs.

(* ================================================================== the example projects are models *)
Lemma ExF_wf_spec : wf_spec ExF.g.
Proof.
  split; [|split].
  - intros e o Ho. destruct e as [|[|[|e]]]; cbn in Ho; try (destruct Ho as [<-|[]]; reflexivity); destruct Ho.
  - intros n e Hp. destruct n as [|[|[|[|[|n]]]]]; cbn in Hp; try discriminate; inversion Hp; subst; cbn; left; reflexivity.
  - intros e Hd. destruct e as [|[|[|e]]]; cbn in *; try congruence. split; [reflexivity|lia].
Qed.
Lemma ExF_wf_graph : wf_graph ExF.g.
Proof. intros n e Hp. destruct n as [|[|[|[|[|n]]]]]; cbn in Hp; try discriminate; inversion Hp; subst; cbn; lia. Qed.

Lemma ExRestatPruneF_wf_spec : wf_spec ExRestatPruneF.g.
Proof.
  split; [|split].
  - intros e o Ho. destruct e as [|[|e]]; cbn in Ho; try (destruct Ho as [<-|[]]; reflexivity); destruct Ho.
  - intros n e Hp. destruct n as [|[|[|[|n]]]]; cbn in Hp; try discriminate; inversion Hp; subst; cbn; left; reflexivity.
  - intros e Hd. destruct e as [|[|e]]; cbn in *; try congruence. split; [reflexivity|lia].
Qed.
Lemma ExRestatPruneF_wf_graph : wf_graph ExRestatPruneF.g.
Proof. intros n e Hp. destruct n as [|[|[|[|n]]]]; cbn in Hp; try discriminate; inversion Hp; subst; cbn; lia. Qed.

Lemma ExNotLoadedF_wf_spec : wf_spec ExNotLoadedF.g.
Proof.
  split; [|split].
  - intros e o Ho. destruct e as [|[|e]]; cbn in Ho; try (destruct Ho as [<-|[]]; reflexivity); destruct Ho.
  - intros n e Hp. destruct n as [|[|[|[|n]]]]; cbn in Hp; try discriminate; inversion Hp; subst; cbn; left; reflexivity.
  - intros e Hd. destruct e as [|[|e]]; cbn in *; try congruence. split; [reflexivity|lia].
Qed.
Lemma ExNotLoadedF_wf_graph : wf_graph ExNotLoadedF.g.
Proof. intros n e Hp. destruct n as [|[|[|[|n]]]]; cbn in Hp; try discriminate; inversion Hp; subst; cbn; lia. Qed.

(* ================================================================== the full statements and the two findings *)
Definition C10df_equiv_full (need_ord need_nr : bool) : Prop :=
  forall (cmd : edge -> N -> snapshot -> node -> content) (g : graph) (hid : edge -> list node),
    wf_spec g -> wf_graph g -> frag_ABF g hid = true -> topo_ordered (inline g hid) = true ->
    (need_ord = true -> hidden_reads_ordered_f g hid = true) ->
    (need_nr = true -> no_restat_upstream_of_depfile g hid = true) ->
    no_inputless_phony g = true ->
  forall h : list hstep,
    hist_ok g h = true -> hist_present_f cmd g hid (init_fstate g) h = true ->
    f_h (frun_hist cmd g hid (init_fstate g) (map FS h)) =
    run_hist cmd (inline g hid) (init_hstate (inline g hid)) h.

Definition C10df_C01_full (need_ord need_nr : bool) : Prop :=
  forall (cmd : edge -> N -> snapshot -> node -> content) (g : graph) (hid : edge -> list node),
    wf_spec g -> wf_graph g -> frag_ABF g hid = true -> topo_ordered (inline g hid) = true ->
    (need_ord = true -> hidden_reads_ordered_f g hid = true) ->
    (need_nr = true -> no_restat_upstream_of_depfile g hid = true) ->
    no_inputless_phony g = true ->
    (forall e hh hh' S o, ei_generator (g_edge g e) = true -> cmd e hh S o = cmd e hh' S o) ->
  forall (h : list hstep) (T : list node) (fs' : fstate),
    hist_ok g h = true -> hist_present_f cmd g hid (init_fstate g) (h ++ [Build T]) = true ->
    fbuild cmd g hid (frun_hist cmd g hid (init_fstate g) (map FS h)) T = Some fs' ->
    forall n, reach (inline g hid) T n -> content_of (f_h fs') n = clean_of_f cmd g hid fs' n.

Theorem C10df_equiv_full_proof : C10df_equiv_full true true.
Proof.
  intros cmd g hid Hwf Hwg Hfrag Htopo Hord Hnr Hnip h Hok Hp.
  apply (C10df_equiv_proof cmd g hid Hwf Hwg Hfrag Htopo (Hord eq_refl) (Hnr eq_refl) Hnip h Hok Hp).
Qed.

Theorem C10df_C01_full_proof : C10df_C01_full true true.
Proof.
  intros cmd g hid Hwf Hwg Hfrag Htopo Hord Hnr Hnip Hgen h T fs' Hok Hp Hb.
  apply (C10df_C01_proof cmd g hid Hwf Hwg Hfrag Htopo (Hord eq_refl) (Hnr eq_refl) Hnip h T fs' Hgen Hok Hp Hb).
Qed.

(* finding restat-prune-ignores-recorded-deps exists for depfile-only statements as well *)
Theorem C10df_restat_prune_refuted_proof : ~ C10df_C01_full true false /\ ~ C10df_equiv_full true false.
Proof.
  split.
  - intros H.
    pose proof (H ExRestatPruneF.cmd ExRestatPruneF.g ExRestatPruneF.hid ExRestatPruneF_wf_spec ExRestatPruneF_wf_graph
                  ltac:(vm_compute; reflexivity) ltac:(vm_compute; reflexivity) ltac:(intros _; vm_compute; reflexivity)
                  ltac:(discriminate) ltac:(vm_compute; reflexivity)
                  (Ex_cmd_gen ExRestatPruneF.g ltac:(intros [|[|e]]; reflexivity))
                  (firstn 5 ExRestatPruneF.hist0) [3%nat] ExRestatPruneF.fs_end
                  ltac:(vm_compute; reflexivity) ltac:(vm_compute; reflexivity) ltac:(vm_compute; reflexivity) 3%nat
                  ltac:(apply reach_target; left; reflexivity)) as Hc.
    revert Hc. vm_compute. discriminate.
  - intros H.
    pose proof (H ExRestatPruneF.cmd ExRestatPruneF.g ExRestatPruneF.hid ExRestatPruneF_wf_spec ExRestatPruneF_wf_graph
                  ltac:(vm_compute; reflexivity) ltac:(vm_compute; reflexivity) ltac:(intros _; vm_compute; reflexivity)
                  ltac:(discriminate) ltac:(vm_compute; reflexivity)
                  ExRestatPruneF.hist0 ltac:(vm_compute; reflexivity) ltac:(vm_compute; reflexivity)) as Hc.
    apply (f_equal (@h_trace)) in Hc. revert Hc. vm_compute. discriminate.
Qed.

(* finding dirty-edge-deps-not-loaded exists for depfile-only statements as well *)
Theorem C10df_dirty_edge_deps_not_loaded_refuted_proof : ~ C10df_C01_full false true /\ ~ C10df_equiv_full false true.
Proof.
  split.
  - intros H.
    pose proof (H ExNotLoadedF.cmd ExNotLoadedF.g ExNotLoadedF.hid ExNotLoadedF_wf_spec ExNotLoadedF_wf_graph
                  ltac:(vm_compute; reflexivity) ltac:(vm_compute; reflexivity) ltac:(discriminate)
                  ltac:(intros _; vm_compute; reflexivity) ltac:(vm_compute; reflexivity)
                  (Ex_cmd_gen ExNotLoadedF.g ltac:(intros [|[|e]]; reflexivity))
                  (firstn 5 ExNotLoadedF.hist0) [3%nat] ExNotLoadedF.fs_end
                  ltac:(vm_compute; reflexivity) ltac:(vm_compute; reflexivity) ltac:(vm_compute; reflexivity) 3%nat
                  ltac:(apply reach_target; left; reflexivity)) as Hc.
    revert Hc. vm_compute. discriminate.
  - intros H.
    pose proof (H ExNotLoadedF.cmd ExNotLoadedF.g ExNotLoadedF.hid ExNotLoadedF_wf_spec ExNotLoadedF_wf_graph
                  ltac:(vm_compute; reflexivity) ltac:(vm_compute; reflexivity) ltac:(discriminate)
                  ltac:(intros _; vm_compute; reflexivity) ltac:(vm_compute; reflexivity)
                  ExNotLoadedF.hist0 ltac:(vm_compute; reflexivity) ltac:(vm_compute; reflexivity)) as Hc.
    apply (f_equal (@h_trace)) in Hc. revert Hc. vm_compute. discriminate.
Qed.

(* ================================================================== the statements Properties_C10depfile.v restates *)
Theorem C10df_scan_same_proof :
  forall (g : graph) (fs : fstate) (ds : dstate) (T : list node),
    wf_spec g -> wf_graph g -> (forall e, (e < g_nedges g)%nat -> ei_deps (g_edge g e) <> DepsLog) ->
    d_h ds = f_h fs ->
    (forall e o0 os, ei_deps (g_edge g e) = DepsDepfile -> ei_outs (g_edge g e) = o0 :: os ->
       match f_df fs e with
       | None => d_deps ds o0 = None
       | Some l => exists dm, d_deps ds o0 = Some (dm, l) /\ mtime_of (f_h fs) o0 <= dm
       end) ->
    fscan g fs T = dscan (to_log g) ds T.
Proof.
  intros g fs ds T Hwf Hwg Hnl Hh Hr. unfold fscan, dscan, world_of_f, world_of_d. rewrite Hh.
  apply (scan_eq (graph_of g (f_h fs)) (mtime_of (f_h fs)) (h_blog (f_h fs)) (d_deps (f_ds fs)) (d_deps ds)
                 (depfile_of g fs) (fun _ => DfMissing)).
  - exact (wf_spec_to_log g Hwf).
  - intros n e Hp. apply (Hnl e (Hwg n e Hp)).
  - intros e o0 os Hd Ho. cbn [graph_of g_edge set_hash ei_deps ei_outs] in Hd, Ho.
    specialize (Hr e o0 os Hd Ho). unfold depfile_of. rewrite Ho.
    destruct (f_df fs e) as [l|]; [|left; split; [reflexivity|exact Hr]].
    destruct Hr as [dm [Hr Hle]]. right. exists l, dm. split; [reflexivity|]. split; [exact Hr|exact Hle].
Qed.

Theorem C10df_invariant_proof :
  forall (cmd : edge -> N -> snapshot -> node -> content) (g : graph) (hid : edge -> list node),
    wf_spec g -> frag_ABF g hid = true -> topo_ordered (inline g hid) = true ->
  forall h : list fstep, fhist_ok g h = true ->
    Good cmd (inline g hid) (f_h (frun_hist cmd g hid (init_fstate g) h)) /\
    (forall o, d_deps (f_ds (frun_hist cmd g hid (init_fstate g) h)) o = None) /\
    DepfileOk g hid (frun_hist cmd g hid (init_fstate g) h).
Proof.
  intros cmd g hid Hwf Hfrag Htopo h Hok.
  apply (finv_hist cmd g hid Hwf Hfrag Htopo h (init_fstate g) (finv_init cmd g hid) Hok).
Qed.
